import SeqVerif.Model.PruningSearchDocs
import SeqVerif.Model.PruningBorders
import SeqVerif.Model.ActiveConc
/-!
# Consistency: `frac.Info.IsIntersecting` / `Contains` / `List.FilterInRange` / `UpdateStats` across C05, C14, C07

Models compared (all imported read-only):

* C14 `SV.FracInfo.isIntersecting` (+ `isIntersectingOld`, `isIntersecting?`), `SV.Pruning.filterInRange`,
  `SV.Pruning.contains`, `SV.Pruning.inRange` / `idInRange`, `scanAll` / `scanAllT`, `SV.Merge.keptDist`
* C05 `SV.Merge.isIntersecting`, `SV.Merge.filterInRange`, `SV.Merge.prepareFracs`  (Model/SearchDocs.lean)
* C07 `SV.ActiveConc.widen` / `inR` (the `From`/`To` part of `Active.UpdateStats` and of the border test)

Not redone here: `SV.Merge.searchDocs_eq_searchOver` (Model/PruningSearchDocs.lean) already shows that C14's
`searchOver` is C05's `searchDocs` minus the filter (it REUSES `sortFracs`, `searchLoop`), and
`c14_searchDocs_compose` (Props/C14.lean) relates the answers under C14's soundness hypotheses.  The theorems below are
the unconditional definitional links between the separately written predicates.
-/
namespace SV.Consistency
open SV SV.Dist SV.FracInfo

/-! ## record conversions -/

/-- C05 fraction record -> C14 `Info` (creation time and distribution are not part of the C05 record) -/
def infoOfMergeFrac (ct : Nat) (d : Option Dist) (f : Merge.Frac) : Info := ⟨f.docsTotal, f.from_, f.to_, ct, d⟩

/-- C14 `Info` -> C05 fraction record (the matching-document keys are not part of `Info`) -/
def mergeFracOfInfo (s : Info) (docs : List Nat) : Merge.Frac := ⟨s.docsTotal, s.ifrom, s.ito, docs⟩

/-- C14 fraction (info + `(MID, RID)` pairs) -> C05 fraction (info borders + keys `mid * 2^64 + rid`) -/
def mergeFracOfPruning (f : Pruning.Frac) : Merge.Frac :=
  mergeFracOfInfo f.info (f.docs.map fun p => Merge.key p.1 p.2)

theorem cons_fracrange_info_roundtrip (f : Merge.Frac) (ct : Nat) (d : Option Dist) :
    mergeFracOfInfo (infoOfMergeFrac ct d f) f.docs = f := rfl

theorem cons_fracrange_info_roundtrip_inv (s : Info) (docs : List Nat) :
    infoOfMergeFrac s.creationTime s.dist (mergeFracOfInfo s docs) = s := rfl

/-! ## `Info.IsIntersecting` -/

/-- the distribution part of `Info.IsIntersecting` (`Distribution == nil` -> true) -/
def infoDistPart (s : Info) (qf qt : Nat) : Bool :=
  match s.dist with
  | none => true
  | some d => Dist.isIntersecting d qf qt

/-- Go `frac.Info.IsIntersecting`: C14 `SV.FracInfo.isIntersecting` = C05 `SV.Merge.isIntersecting` (plain borders)
AND the distribution test.  Representation change: `mergeFracOfInfo`.  All inputs. -/
theorem cons_fracrange_c14_isIntersecting_eq_c05_and_dist (s : Info) (docs : List Nat) (qf qt : Nat) :
    FracInfo.isIntersecting s qf qt = (Merge.isIntersecting (mergeFracOfInfo s docs) qf qt && infoDistPart s qf qt) := by
  unfold FracInfo.isIntersecting Merge.isIntersecting mergeFracOfInfo infoDistPart
  by_cases h0 : s.docsTotal = 0
  · simp [h0]
  · by_cases hb : qt < s.ifrom ∨ s.ito < qf
    · simp [h0, hb]
    · simp only [h0, hb, if_false, Bool.true_and]
      cases s.dist <;> rfl

/-- absent distribution: C14's full check IS C05's check.  Representation change: `infoOfMergeFrac ct none`. -/
theorem cons_fracrange_c05_isIntersecting_eq_c14_nodist (f : Merge.Frac) (ct qf qt : Nat) :
    Merge.isIntersecting f qf qt = FracInfo.isIntersecting (infoOfMergeFrac ct none f) qf qt := by
  rw [cons_fracrange_c14_isIntersecting_eq_c05_and_dist _ f.docs]
  simp [infoDistPart, infoOfMergeFrac, mergeFracOfInfo]

/-- the same from the C14 side: an `Info` without distribution -/
theorem cons_fracrange_c14_isIntersecting_eq_c05_nodist (s : Info) (hd : s.dist = none) (docs : List Nat) (qf qt : Nat) :
    FracInfo.isIntersecting s qf qt = Merge.isIntersecting (mergeFracOfInfo s docs) qf qt := by
  rw [cons_fracrange_c14_isIntersecting_eq_c05_and_dist s docs]
  simp [infoDistPart, hd]

example : (FracInfo.newInfo 5).dist = none := rfl

/-- "full" distribution (one that answers true for the range, e.g. every bucket set, `bucket = 0`, or a range whose
ends lie on different sides of 2^63): C14's check again reduces to C05's. -/
theorem cons_fracrange_c14_isIntersecting_eq_c05_fulldist (s : Info) (d : Dist) (hd : s.dist = some d) (qf qt : Nat)
    (hfull : Dist.isIntersecting d qf qt = true) (docs : List Nat) :
    FracInfo.isIntersecting s qf qt = Merge.isIntersecting (mergeFracOfInfo s docs) qf qt := by
  rw [cons_fracrange_c14_isIntersecting_eq_c05_and_dist s docs]
  simp [infoDistPart, hd, hfull]

example : Dist.isIntersecting (Dist.new 0 10 0) 3 4 = true := by decide

/-- C14's check never keeps a fraction C05's drops (refinement direction used by `c14_searchDocs_compose`). -/
theorem cons_fracrange_c14_isIntersecting_imp_c05 (s : Info) (docs : List Nat) (qf qt : Nat)
    (h : FracInfo.isIntersecting s qf qt = true) : Merge.isIntersecting (mergeFracOfInfo s docs) qf qt = true := by
  rw [cons_fracrange_c14_isIntersecting_eq_c05_and_dist s docs, Bool.and_eq_true] at h
  exact h.1

/-- the pre-fix variant differs from the current one only in the distribution part -/
theorem cons_fracrange_c14_isIntersectingOld_eq_c05_nodist (s : Info) (hd : s.dist = none) (docs : List Nat) (qf qt : Nat) :
    FracInfo.isIntersectingOld s qf qt = Merge.isIntersecting (mergeFracOfInfo s docs) qf qt := by
  unfold FracInfo.isIntersectingOld Merge.isIntersecting mergeFracOfInfo
  rw [hd]

/-- the panicking variant used by the C14 driver agrees with the total one whenever the distribution is well-formed
(`Dist.WF`: what `Dist.new` / `add` / `unmarshal?` produce).  Two definitions of the same Go function in one file. -/
theorem cons_fracrange_isIntersectingOpt_eq_isIntersecting (s : Info) (hwf : ∀ d, s.dist = some d → Dist.WF d) (qf qt : Nat) :
    FracInfo.isIntersecting? s qf qt = some (FracInfo.isIntersecting s qf qt) := by
  unfold FracInfo.isIntersecting? FracInfo.isIntersecting
  by_cases h0 : s.docsTotal = 0
  · simp [h0]
  · by_cases hb : qt < s.ifrom ∨ s.ito < qf
    · simp [h0, hb]
    · simp only [h0, hb, if_false]
      cases hd : s.dist with
      | none => rfl
      | some d => exact Dist.isIntersecting?_eq_some (hwf d hd) qf qt

example : ∀ d, (FracInfo.newInfo 5).dist = some d → Dist.WF d := by intro d h; cases h

/-! ## `Fraction.Contains` -/

/-- Go `Fraction.Contains(mid)`: C14 `SV.Pruning.contains` vs C05's border test at the point range `[mid, mid]`
(no distribution). -/
theorem cons_fracrange_c14_contains_eq_c05_nodist (f : Pruning.Frac) (hd : f.info.dist = none) (mid : Nat) :
    Pruning.contains f mid = Merge.isIntersecting (mergeFracOfPruning f) mid mid := by
  unfold Pruning.contains mergeFracOfPruning
  exact cons_fracrange_c14_isIntersecting_eq_c05_nodist f.info hd _ mid mid

/-! ## `List.FilterInRange` -/

/-- Go `fracmanager.List.FilterInRange`: C14 `SV.Pruning.filterInRange` vs C05 `SV.Merge.filterInRange`, fractions
without distribution (or any list on which the distribution part answers true).  Representation change:
`mergeFracOfPruning` on every element. -/
theorem cons_fracrange_c14_filterInRange_eq_c05 (fs : List Pruning.Frac) (qf qt : Nat)
    (hd : ∀ f, f ∈ fs → infoDistPart f.info qf qt = true) :
    (Pruning.filterInRange fs qf qt).map mergeFracOfPruning = Merge.filterInRange (fs.map mergeFracOfPruning) qf qt := by
  unfold Pruning.filterInRange Merge.filterInRange
  rw [List.filter_map]
  congr 1
  apply List.filter_congr
  intro f hf
  simp only [Function.comp]
  unfold mergeFracOfPruning
  rw [cons_fracrange_c14_isIntersecting_eq_c05_and_dist f.info (f.docs.map fun p => Merge.key p.1 p.2), hd f hf,
    Bool.and_true]

example : ∀ f, f ∈ [(⟨FracInfo.newInfo 5, [(1, 2)]⟩ : Pruning.Frac)] → infoDistPart f.info 3 4 = true := by
  intro f hf; rw [List.mem_singleton] at hf; subst hf; rfl

/-- in general C14's filter keeps a sublist of C05's -/
theorem cons_fracrange_c14_filterInRange_sublist_c05 (fs : List Pruning.Frac) (qf qt : Nat) :
    ((Pruning.filterInRange fs qf qt).map mergeFracOfPruning).Sublist
      (Merge.filterInRange (fs.map mergeFracOfPruning) qf qt) := by
  unfold Pruning.filterInRange Merge.filterInRange
  rw [List.filter_map]
  apply List.Sublist.map
  induction fs with
  | nil => exact List.Sublist.refl _
  | cons f fs ih =>
    simp only [List.filter_cons, Function.comp]
    by_cases h : FracInfo.isIntersecting f.info qf qt = true
    · have := cons_fracrange_c14_isIntersecting_imp_c05 f.info (f.docs.map fun p => Merge.key p.1 p.2) qf qt h
      unfold mergeFracOfPruning
      simp only [h, this, if_true]
      exact List.Sublist.cons_cons _ ih
    · have h' : FracInfo.isIntersecting f.info qf qt = false := by simpa using h
      by_cases hm : Merge.isIntersecting (mergeFracOfPruning f) qf qt = true
      · simp only [h', hm, if_true]
        exact List.Sublist.cons _ ih
      · have hm' : Merge.isIntersecting (mergeFracOfPruning f) qf qt = false := by simpa using hm
        simp only [h', hm']
        exact ih

/-- C14's composed store `SV.Merge.keptDist` (pairs C05 fraction / real info) vs C05 `filterInRange`: equal when the
two views of each fraction agree on `DocsTotal/From/To` and the distribution part answers true. -/
theorem cons_fracrange_keptDist_eq_c05_filterInRange (ps : List (Merge.Frac × Info)) (qf qt : Nat)
    (hview : ∀ p, p ∈ ps → p.1.docsTotal = p.2.docsTotal ∧ p.1.from_ = p.2.ifrom ∧ p.1.to_ = p.2.ito)
    (hd : ∀ p, p ∈ ps → infoDistPart p.2 qf qt = true) :
    Merge.keptDist ps qf qt = Merge.filterInRange (ps.map Prod.fst) qf qt := by
  unfold Merge.keptDist Merge.filterInRange
  rw [List.filter_map]
  congr 1
  apply List.filter_congr
  intro p hp
  simp only [Function.comp]
  rw [cons_fracrange_c14_isIntersecting_eq_c05_and_dist p.2 p.1.docs, hd p hp, Bool.and_true]
  obtain ⟨h1, h2, h3⟩ := hview p hp
  have : mergeFracOfInfo p.2 p.1.docs = p.1 := by
    unfold mergeFracOfInfo; rw [← h1, ← h2, ← h3]
  rw [this]

example : let p : Merge.Frac × Info := (⟨0, 18446744073709551615, 0, []⟩, FracInfo.newInfo 5)
    (p.1.docsTotal = p.2.docsTotal ∧ p.1.from_ = p.2.ifrom ∧ p.1.to_ = p.2.ito) ∧ infoDistPart p.2 1 2 = true := by decide

/-- Go `Searcher.prepareFracs`: C05 `SV.Merge.prepareFracs` then the loop = C14 `SV.Merge.searchOver` over the
C14-filtered fractions, when the filters agree.  (Composition of `searchDocs_eq_searchOver` with the theorem above.) -/
theorem cons_fracrange_c14_searchDocsDist_eq_c05_searchDocs (c : Merge.Cfg) (ps : List (Merge.Frac × Info)) (qf qt L : Nat)
    (hview : ∀ p, p ∈ ps → p.1.docsTotal = p.2.docsTotal ∧ p.1.from_ = p.2.ifrom ∧ p.1.to_ = p.2.ito)
    (hd : ∀ p, p ∈ ps → infoDistPart p.2 qf qt = true) :
    Merge.searchDocsDist c ps qf qt L = Merge.searchDocs c (ps.map Prod.fst) qf qt L := by
  unfold Merge.searchDocsDist
  rw [cons_fracrange_keptDist_eq_c05_filterInRange ps qf qt hview hd, Merge.searchDocs_eq_searchOver]

/-! ## the per-document range test (`getLIDsBorders` reference) inside C14 -/

/-- `SV.Pruning.idInRange` (on `Spec.ID`, PruningBorders) vs `SV.Pruning.inRange` (on pairs, Pruning) -/
theorem cons_fracrange_idInRange_eq_inRange (qf qt : Nat) (id : Spec.ID) :
    Pruning.idInRange qf qt id = Pruning.inRange qf qt (id.mid, id.rid) := rfl

/-- the reference scan on ID tables vs the reference scan on pairs.  Representation change: `TFrac.toFrac`. -/
theorem cons_fracrange_scanAllT_eq_scanAll (fs : List Pruning.TFrac) (qf qt : Nat) :
    (Pruning.scanAllT fs qf qt).map (fun id => (id.mid, id.rid)) = Pruning.scanAll (fs.map Pruning.TFrac.toFrac) qf qt := by
  unfold Pruning.scanAllT Pruning.scanAll
  induction fs with
  | nil => rfl
  | cons f fs ih =>
    simp only [List.flatMap_cons, List.map_append, List.map_cons, ih]
    congr 1
    unfold Pruning.TFrac.toFrac
    simp only [List.filter_map]
    rfl

/-- the fraction filter written inline in `scanStore` is `filterInRange` -/
theorem cons_fracrange_scanStore_filter_eq_filterInRange (fs : List Pruning.TFrac) (qf qt : Nat) :
    (fs.filter fun f => FracInfo.isIntersecting f.info qf qt).map Pruning.TFrac.toFrac
      = Pruning.filterInRange (fs.map Pruning.TFrac.toFrac) qf qt := by
  unfold Pruning.filterInRange
  rw [List.filter_map]
  rfl

/-! ## `Active.UpdateStats` / border test: C14 `FracInfo.updateStats` vs C07 `ActiveConc.widen`, `inR` -/

/-- C07 range (`none` = fresh fraction) -> the `From/To` pair of `NewInfo` / `Info` -/
def bordersOfRange : ActiveConc.Range → Nat × Nat
  | none => (18446744073709551615, 0)
  | some (a, b) => (a, b)

/-- Go `Active.UpdateStats` (the `From`/`To` fields): C14 `SV.FracInfo.updateStats` vs C07 `SV.ActiveConc.widen`.
Representation change: `bordersOfRange` (fresh fraction = `From: MaxUint64, To: 0`).  Domain: `lo` is a uint64. -/
theorem cons_fracrange_updateStats_eq_widen (s : Info) (r : ActiveConc.Range) (lo hi cnt : Nat)
    (hs : (s.ifrom, s.ito) = bordersOfRange r) (hlo : lo ≤ 18446744073709551615) :
    ((updateStats s lo hi cnt).ifrom, (updateStats s lo hi cnt).ito) = bordersOfRange (ActiveConc.widen r lo hi) := by
  unfold updateStats
  cases r with
  | none =>
    simp only [bordersOfRange, Prod.mk.injEq] at hs
    simp only [ActiveConc.widen, bordersOfRange, hs.1, hs.2, Prod.mk.injEq]
    constructor <;> split <;> omega
  | some p =>
    obtain ⟨a, b⟩ := p
    simp only [bordersOfRange, Prod.mk.injEq] at hs
    simp only [ActiveConc.widen, bordersOfRange, hs.1, hs.2, Prod.mk.injEq]
    constructor <;> split <;> omega

example : ((FracInfo.newInfo 7).ifrom, (FracInfo.newInfo 7).ito) = bordersOfRange none := rfl

/-- the border part of `Info.IsIntersecting(m, m)` (`Contains`) vs C07 `SV.ActiveConc.inR`; for the fresh range
both are false for every uint64... in fact for every `m`. -/
theorem cons_fracrange_inR_eq_border (r : ActiveConc.Range) (m : Nat) :
    ActiveConc.inR r m = !(decide (m < (bordersOfRange r).1) || decide ((bordersOfRange r).2 < m)) := by
  cases r with
  | none =>
    simp only [ActiveConc.inR, bordersOfRange]
    by_cases h : m < 18446744073709551615
    · simp [h]
    · have : 0 < m := by omega
      simp [this]
  | some p =>
    obtain ⟨a, b⟩ := p
    simp only [ActiveConc.inR, bordersOfRange]
    by_cases h1 : m < a
    · have : ¬ a ≤ m := by omega
      simp [h1, this]
    · by_cases h2 : b < m
      · have : ¬ m ≤ b := by omega
        simp [h2, this]
      · have h3 : a ≤ m := by omega
        have h4 : m ≤ b := by omega
        simp [h1, h2, h3, h4]

/-- hence: `Contains` of an `Info` without distribution that has documents = C07's `inR` -/
theorem cons_fracrange_contains_eq_inR (s : Info) (r : ActiveConc.Range) (hd : s.dist = none) (h0 : s.docsTotal ≠ 0)
    (hs : (s.ifrom, s.ito) = bordersOfRange r) (m : Nat) :
    FracInfo.isIntersecting s m m = ActiveConc.inR r m := by
  rw [cons_fracrange_inR_eq_border, ← hs]
  unfold FracInfo.isIntersecting
  simp only [h0, if_false, hd]
  by_cases hb : m < s.ifrom ∨ s.ito < m
  · rcases hb with hb | hb <;> simp [hb]
  · have h1 : ¬ m < s.ifrom := fun h => hb (Or.inl h)
    have h2 : ¬ s.ito < m := fun h => hb (Or.inr h)
    simp [h1, h2]

example : let s : Info := ⟨1, 3, 9, 0, none⟩
    s.dist = none ∧ s.docsTotal ≠ 0 ∧ (s.ifrom, s.ito) = bordersOfRange (some (3, 9)) := by decide

/-- one document: `widen r m m` vs the two `if`s of `metaDataCollector` -/
private theorem borders_widen_point (r : ActiveConc.Range) (m : Nat) (hm : m ≤ 18446744073709551615) (a b : Nat)
    (hab : bordersOfRange r = (a, b)) :
    bordersOfRange (ActiveConc.widen r m m) = ((if m < a then m else a), (if m > b then m else b)) := by
  cases r with
  | none =>
    simp only [bordersOfRange, Prod.mk.injEq] at hab
    obtain ⟨rfl, rfl⟩ := hab
    simp only [ActiveConc.widen, bordersOfRange, Prod.mk.injEq]
    constructor <;> split <;> omega
  | some p =>
    obtain ⟨a', b'⟩ := p
    simp only [bordersOfRange, Prod.mk.injEq] at hab
    obtain ⟨rfl, rfl⟩ := hab
    simp only [ActiveConc.widen, bordersOfRange, Prod.mk.injEq]
    constructor <;> split <;> omega

private theorem borders_fold (docs : List ActiveConc.Doc) (hm : ∀ d, d ∈ docs → d.mid ≤ 18446744073709551615) :
    ∀ (r : ActiveConc.Range) (a b : Nat), bordersOfRange r = (a, b) →
      bordersOfRange (docs.foldl (fun r d => ActiveConc.widen r d.mid d.mid) r)
        = ((docs.map (·.mid)).foldl (fun a m => if m < a then m else a) a,
           (docs.map (·.mid)).foldl (fun a m => if m > a then m else a) b) := by
  induction docs with
  | nil => intro r a b hab; exact hab
  | cons d ds ih =>
    intro r a b hab
    simp only [List.foldl_cons, List.map_cons]
    exact ih (fun x hx => hm x (List.mem_cons_of_mem _ hx)) _ _ _
      (borders_widen_point r d.mid (hm d List.mem_cons_self) a b hab)

/-- Go `metaDataCollector.MinMID / MaxMID` of one bulk: C14 `SV.FracInfo.batchMin` / `batchMax` vs C07
`SV.ActiveConc.statsOf`.  Representation change: `bordersOfRange`, documents -> their MIDs.  Domain: MIDs are uint64.
(C07 vs C17 `SV.Collector.minOf/maxOf` is `cons_statsOf_activeconc_eq_collector` in Consistency/Collector.lean.) -/
theorem cons_fracrange_batchMinMax_eq_statsOf (docs : List ActiveConc.Doc)
    (hm : ∀ d, d ∈ docs → d.mid ≤ 18446744073709551615) :
    (batchMin (docs.map (·.mid)), batchMax (docs.map (·.mid))) = bordersOfRange (ActiveConc.statsOf docs) := by
  unfold batchMin batchMax ActiveConc.statsOf
  exact (borders_fold docs hm none _ _ rfl).symm

/-- hence one indexed bulk: C14 `SV.FracInfo.appendBulk` vs C07 `SV.ActiveConc.merge` with the bulk's `statsOf` -/
theorem cons_fracrange_appendBulk_eq_merge (s : Info) (r : ActiveConc.Range) (docs : List ActiveConc.Doc)
    (hs : (s.ifrom, s.ito) = bordersOfRange r) (hne : docs ≠ [])
    (hm : ∀ d, d ∈ docs → d.mid ≤ 18446744073709551615) :
    ((appendBulk s (docs.map (·.mid))).ifrom, (appendBulk s (docs.map (·.mid))).ito)
      = bordersOfRange (ActiveConc.merge r (ActiveConc.statsOf docs)) := by
  have hb := cons_fracrange_batchMinMax_eq_statsOf docs hm
  cases hst : ActiveConc.statsOf docs with
  | none =>
    -- a non-empty bulk never has an empty range
    exfalso
    cases docs with
    | nil => exact hne rfl
    | cons d ds =>
      have : ∀ (l : List ActiveConc.Doc) (a b : Nat),
          l.foldl (fun r d => ActiveConc.widen r d.mid d.mid) (some (a, b)) ≠ none := by
        intro l
        induction l with
        | nil => intro a b h; cases h
        | cons x xs ih => intro a b; simp only [List.foldl_cons, ActiveConc.widen]; exact ih _ _
      unfold ActiveConc.statsOf at hst
      simp only [List.foldl_cons, ActiveConc.widen] at hst
      exact this ds _ _ hst
  | some p =>
    obtain ⟨lo, hi⟩ := p
    rw [hst] at hb
    simp only [bordersOfRange, Prod.mk.injEq] at hb
    unfold appendBulk
    rw [hb.1, hb.2]
    simp only [ActiveConc.merge]
    apply cons_fracrange_updateStats_eq_widen s r lo hi _ hs
    -- lo is the MID of some document, hence a uint64
    rw [← hb.1]
    have : ∀ (l : List Nat) (a : Nat), a ≤ 18446744073709551615 →
        l.foldl (fun a m => if m < a then m else a) a ≤ 18446744073709551615 := by
      intro l
      induction l with
      | nil => intro a ha; exact ha
      | cons x xs ih =>
        intro a ha
        simp only [List.foldl_cons]
        apply ih
        split <;> omega
    exact this _ _ (Nat.le_refl _)

example : let d : ActiveConc.Doc := ⟨5, 1, []⟩
    [d] ≠ [] ∧ ∀ x, x ∈ [d] → x.mid ≤ 18446744073709551615 := by
  refine ⟨by simp, ?_⟩
  intro x hx; rw [List.mem_singleton] at hx; subst hx; decide

/-! ## constants -/

/-- `math.MaxUint64` / `systemMID` written three times -/
theorem cons_fracrange_maxU64_eq : FracInfo.maxU64 = Borders.maxU64 ∧ FracInfo.systemMID = Borders.maxU64 := ⟨rfl, rfl⟩

end SV.Consistency
