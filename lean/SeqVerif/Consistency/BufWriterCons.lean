import SeqVerif.Model.BufWriter
import SeqVerif.Model.C03Docs
import SeqVerif.Model.SealOps
/-!
# Consistency (wave 4): `bytespool.Writer` (C08 `SV.BufWriter`) vs the models that ASSUME unbuffered, sequenced writes

`frac/active_sealer.go`: `docBlocksWriter` writes every closed doc block through a `bytespool.Writer` (32 MiB) onto the
`._sdocs` file.

* C03 `SV.C03.DW` (`flushBlock`, `writeDoc`, `flushDW`, `sortDocsGo`, `writeSortedDocs`) has no such buffer: block `i`
  simply "is" at file offset `currentBlockOffset`, the running sum of the compressed lengths `clen i payload`
  (`BlockOffsets`), and `lookupFile` / `readAt` read it back from there.
* C08 `SV.SealOps.sdocsWrites n os` counts `n` `Write` calls reaching the `._sdocs` file, each answered `true/false`
  by the environment (missing = ok), the first `false` ending `writeDocsInOrder`.
* C08 `SV.BufWriter` is the buffer in between, statement by statement.

Proved here: (1) C03's offsets are the offsets in the byte stream `concat (compressed blocks)` (invariant `bufwriterLaidOut`
of every `DW` the C03 functions produce); (2) after any error-free run of the buffered writer over that stream, the bytes
at C03's offset of block `k` in what REACHED THE FILE are exactly block `k` - for every buffer capacity, although the
buffer splits and merges the writes (refinement: buffered output = the unbuffered sequence C03 assumes); (3) the
downstream answers consumed by an error-free buffered run are an all-`true` run of `sdocsWrites` (same "missing answer
= ok" convention), and a failing downstream write is reported (no `Write`/`Flush` hides it), as `sdocsWrites` assumes.

Flush rules: `DW` and `bytespool.Writer` are different buffers of the Go code with different rules (`DW`: append the
whole document, close the block when its payload EXCEEDS `minBlockSize`; `Writer`: keep when `len + len(b) < cap`,
otherwise fill to capacity, flush, and write an oversized rest directly) - not duplicates of each other.
C01's `SV.FWr` (file_writer.go) is not buffered (`WriteAt` at reserved offsets, contiguity = `Tiled` /
`c01_filewriter_offsets`) - a different Go type, nothing to equate.

One divergence, on the ERROR path only (`cons_bufwriter_flush_after_error_resends_witness`): Go's `writeSortedDocs` has
`defer putDocBlocksWriter(bw)` = `FlushReleaseWriter` = one more `Flush`; `Flush` does not reset the buffer after a
failed write, so after the failing `Write` call the whole buffer is sent AGAIN (bytes already accepted are duplicated;
if that call fails too the deferred function panics).  `SV.BufWriter` shows it; `SV.SealOps.sdocsWrites` ends the trace
at the first failing call (no further `write ._sdocs`).  Harmless for C08's theorems: the file is `._sdocs` (never
renamed on this path, ignored by the loader) and is `torn`/`empty` either way, and the process ends either way.
-/
namespace SV.Consistency
open SV

/-! ## (1) C03's block offsets are positions in the concatenated stream -/

/-- the compressed bytes of the blocks of a C03 file, block index counting from `i` -/
def bufwriterChunks (comp : Nat → List Nat → List Nat) : Nat → List (Nat × List Nat) → List (List Nat)
  | _, [] => []
  | i, e :: r => comp i e.2 :: bufwriterChunks comp (i + 1) r

/-- every block sits where the previous one ended; `e` is the end of the last block -/
def bufwriterLaidOut (comp : Nat → List Nat → List Nat) : Nat → Nat → List (Nat × List Nat) → Nat → Prop
  | _, off, [], e => e = off
  | i, off, x :: r, e => x.1 = off ∧ bufwriterLaidOut comp (i + 1) (off + (comp i x.2).length) r e

/-- the C03 writer state is consistent with the stream -/
def bufwriterDWInv (comp : Nat → List Nat → List Nat) (w : C03.DW) : Prop :=
  w.curBlockIndex = w.file.length ∧ bufwriterLaidOut comp 0 0 w.file w.currentBlockOffset

theorem bufwriter_laidOut_snoc (comp : Nat → List Nat → List Nat) (f : List (Nat × List Nat)) :
    ∀ (i off e : Nat) (p : List Nat), bufwriterLaidOut comp i off f e →
      bufwriterLaidOut comp i off (f ++ [(e, p)]) (e + (comp (i + f.length) p).length) := by
  induction f with
  | nil =>
    intro i off e p h
    simp only [bufwriterLaidOut] at h
    subst h
    simp [bufwriterLaidOut]
  | cons x r ih =>
    intro i off e p h
    simp only [bufwriterLaidOut, List.cons_append] at h ⊢
    refine ⟨h.1, ?_⟩
    have := ih (i + 1) _ e p h.2
    simpa [List.length_cons, Nat.add_assoc, Nat.add_comm 1] using this

theorem bufwriter_inv_init (comp : Nat → List Nat → List Nat) : bufwriterDWInv comp C03.DW.init :=
  ⟨rfl, rfl⟩

/-- `flushBlock` with `clen i p = |comp i p|` -/
theorem bufwriter_inv_flushBlock (comp : Nat → List Nat → List Nat) (w : C03.DW) (h : bufwriterDWInv comp w) :
    bufwriterDWInv comp (C03.flushBlock (fun i p => (comp i p).length) w) := by
  obtain ⟨h1, h2⟩ := h
  refine ⟨by simp [C03.flushBlock, h1], ?_⟩
  have := bufwriter_laidOut_snoc comp w.file 0 0 w.currentBlockOffset w.docs h2
  simpa [C03.flushBlock, h1] using this

theorem bufwriter_inv_writeDoc (comp : Nat → List Nat → List Nat) (mbs : Nat) (w w' : C03.DW) (id : C03.ID)
    (doc : C03.DocB) (h : bufwriterDWInv comp w)
    (hw : C03.writeDoc (fun i p => (comp i p).length) mbs w id doc = some w') : bufwriterDWInv comp w' := by
  unfold C03.writeDoc at hw
  split at hw
  · cases hw
  · rename_i pos _
    simp only [Option.some.injEq] at hw
    subst hw
    split
    · exact bufwriter_inv_flushBlock comp _ ⟨h.1, h.2⟩
    · exact ⟨h.1, h.2⟩

theorem bufwriter_inv_flushDW (comp : Nat → List Nat → List Nat) (w : C03.DW) (h : bufwriterDWInv comp w) :
    bufwriterDWInv comp (C03.flushDW (fun i p => (comp i p).length) w) := by
  unfold C03.flushDW
  split
  · exact bufwriter_inv_flushBlock comp w h
  · exact h

theorem bufwriter_inv_sortDocsGo (comp : Nat → List Nat → List Nat) (mbs : Nat) (oldRead : C03.ID → Option C03.DocB)
    (ids : List C03.ID) : ∀ (prev : C03.ID) (w w' : C03.DW), bufwriterDWInv comp w →
      C03.sortDocsGo (fun i p => (comp i p).length) mbs oldRead ids prev w = some w' → bufwriterDWInv comp w' := by
  induction ids with
  | nil => intro prev w w' h hw; simp only [C03.sortDocsGo, Option.some.injEq] at hw; subst hw; exact h
  | cons id rest ih =>
    intro prev w w' h hw
    simp only [C03.sortDocsGo] at hw
    by_cases hid : id = prev
    · rw [if_pos hid] at hw; exact ih prev w w' h hw
    · rw [if_neg hid] at hw
      cases hr : oldRead id with
      | none => rw [hr] at hw; cases hw
      | some doc =>
        rw [hr] at hw
        simp only at hw
        cases hwd : C03.writeDoc (fun i p => (comp i p).length) mbs w id doc with
        | none => rw [hwd] at hw; cases hw
        | some w1 =>
          rw [hwd] at hw
          exact ih id w1 w' (bufwriter_inv_writeDoc comp mbs w w1 id doc h hwd) hw

/-- **Go `writeSortedDocs` (C03 `SV.C03.writeSortedDocs`): every block offset it records is the position of that block
in the concatenation of the compressed blocks.**  `clen` is instantiated at the length of an arbitrary compression
function `comp` (C03 keeps `clen` abstract).  All inputs. -/
theorem cons_bufwriter_c03_writeSortedDocs_laidOut (comp : Nat → List Nat → List Nat) (mbs : Nat)
    (oldRead : C03.ID → Option C03.DocB) (sortedIDs : List C03.ID) (w : C03.DW)
    (h : C03.writeSortedDocs (fun i p => (comp i p).length) mbs oldRead sortedIDs = some w) : bufwriterDWInv comp w := by
  unfold C03.writeSortedDocs at h
  cases hs : C03.sortDocsGo (fun i p => (comp i p).length) (C03.docBlockSizeOf mbs) oldRead sortedIDs.tail (0, 0) C03.DW.init with
  | none => rw [hs] at h; cases h
  | some w1 =>
    rw [hs] at h
    simp only [Option.map_some, Option.some.injEq] at h
    subst h
    exact bufwriter_inv_flushDW comp w1
      (bufwriter_inv_sortDocsGo comp _ oldRead _ _ _ _ (bufwriter_inv_init comp) hs)

/-- reading `|comp k p|` bytes at the recorded offset of block `k` from the concatenated stream gives block `k` -/
theorem bufwriter_read_block (comp : Nat → List Nat → List Nat) (f : List (Nat × List Nat)) :
    ∀ (i off e : Nat), bufwriterLaidOut comp i off f e → ∀ (k : Nat) (x : Nat × List Nat), f[k]? = some x →
      off ≤ x.1 ∧
      (((bufwriterChunks comp i f).flatten.drop (x.1 - off)).take (comp (i + k) x.2).length = comp (i + k) x.2) := by
  induction f with
  | nil => intro i off e _ k x hx; simp at hx
  | cons y r ih =>
    intro i off e h k x hx
    simp only [bufwriterLaidOut] at h
    cases k with
    | zero =>
      simp only [List.getElem?_cons_zero, Option.some.injEq] at hx
      subst hx
      refine ⟨Nat.le_of_eq h.1.symm, ?_⟩
      simp only [h.1, Nat.sub_self, List.drop_zero, bufwriterChunks, List.flatten_cons, Nat.add_zero]
      exact List.take_left' rfl
    | succ k =>
      simp only [List.getElem?_cons_succ] at hx
      obtain ⟨hle, hrd⟩ := ih (i + 1) _ e h.2 k x hx
      refine ⟨by omega, ?_⟩
      have hsplit : x.1 - off = (comp i y.2).length + (x.1 - (off + (comp i y.2).length)) := by omega
      simp only [bufwriterChunks, List.flatten_cons]
      rw [hsplit, ← List.drop_drop, List.drop_left' rfl]
      have hik : i + (k + 1) = i + 1 + k := by omega
      rw [hik]
      exact hrd

/-! ## (2) the buffered writer delivers that stream -/

/-- the writes `docBlocksWriter` issues on the `bytespool.Writer`: one per closed block, then the final `Flush` -/
def bufwriterCmds (comp : Nat → List Nat → List Nat) (file : List (Nat × List Nat)) : List BufWriter.Cmd :=
  (bufwriterChunks comp 0 file).map BufWriter.Cmd.w ++ [.f]

theorem bufwriter_cmds_data (l : List (List Nat)) :
    ((l.map BufWriter.Cmd.w ++ [BufWriter.Cmd.f]).map BufWriter.Cmd.data).flatten = l.flatten := by
  induction l with
  | nil => simp [BufWriter.Cmd.data]
  | cons x t ih =>
    simp only [List.map_cons, List.cons_append, List.flatten_cons, BufWriter.Cmd.data]
    rw [ih]

/-- **Refinement: the buffered output is the unbuffered write sequence.**  For every buffer capacity `C` and every
downstream behaviour: if no `Write` / `Flush` reported an error, the bytes that reached the file are the
concatenation of the blocks in order (from BufWriter's own `exec_ok` + `exec_flush_ok`). -/
theorem cons_bufwriter_output_eq_unbuffered (C : Nat) (comp : Nat → List Nat → List Nat) (file : List (Nat × List Nat))
    (oracle : List (Option Nat))
    (hok : ∀ r ∈ (BufWriter.exec C (bufwriterCmds comp file) { oracle := oracle }).1, r = true) :
    (BufWriter.exec C (bufwriterCmds comp file) { oracle := oracle }).2.out = (bufwriterChunks comp 0 file).flatten := by
  have h1 := (BufWriter.exec_ok C _ _ hok).1
  have h2 := BufWriter.exec_flush_ok C _ _ hok
  unfold bufwriterCmds at h1
  rw [bufwriter_cmds_data] at h1
  simp only [BufWriter.St.all, List.nil_append] at h1
  rw [h2, List.append_nil] at h1
  exact h1

example : ∀ r ∈ (BufWriter.exec 4 (bufwriterCmds (fun _ p => p) [(0, [1, 2, 3]), (3, [4, 5, 6, 7, 8])]) {}).1, r = true := by
  decide

/-- **C03 ∘ C08.**  Whatever `writeSortedDocs` produced, and however the 32 MiB buffer cut the writes: in the bytes that
reached the `._sdocs` file, the `clen` bytes at C03's recorded offset of block `k` are block `k`.  So C03's
`lookupFile` / `readAt` view (block `k` "is" at `BlockOffsets[k]`) is exactly what a reader of the real file sees. -/
theorem cons_bufwriter_c03_block_at_offset (C : Nat) (comp : Nat → List Nat → List Nat) (mbs : Nat)
    (oldRead : C03.ID → Option C03.DocB) (sortedIDs : List C03.ID) (w : C03.DW)
    (hw : C03.writeSortedDocs (fun i p => (comp i p).length) mbs oldRead sortedIDs = some w)
    (oracle : List (Option Nat))
    (hok : ∀ r ∈ (BufWriter.exec C (bufwriterCmds comp w.file) { oracle := oracle }).1, r = true)
    (k : Nat) (x : Nat × List Nat) (hx : w.file[k]? = some x) :
    (((BufWriter.exec C (bufwriterCmds comp w.file) { oracle := oracle }).2.out.drop x.1).take (comp k x.2).length)
      = comp k x.2 := by
  rw [cons_bufwriter_output_eq_unbuffered C comp w.file oracle hok]
  have hinv := cons_bufwriter_c03_writeSortedDocs_laidOut comp mbs oldRead sortedIDs w hw
  have := (bufwriter_read_block comp w.file 0 0 _ hinv.2 k x hx).2
  simpa using this

/-- and `BlockOffsets` of C03 are those offsets -/
theorem cons_bufwriter_c03_total_length (comp : Nat → List Nat → List Nat) (f : List (Nat × List Nat)) :
    ∀ (i off e : Nat), bufwriterLaidOut comp i off f e → e = off + (bufwriterChunks comp i f).flatten.length := by
  induction f with
  | nil => intro i off e h; simpa [bufwriterLaidOut, bufwriterChunks] using h
  | cons y r ih =>
    intro i off e h
    simp only [bufwriterLaidOut] at h
    have := ih (i + 1) _ e h.2
    simp only [bufwriterChunks, List.flatten_cons, List.length_append]
    omega

/-- **`BlockOffsets` are file positions for ANY buffer capacity** (the statement mutant C08-m11 violates).  The buffer
capacity `C` of the `bytespool.Writer` is UNIVERSALLY QUANTIFIED (every `C ≥ 1`; the theorem in fact holds for `C = 0`
too), as are the downstream behaviour (`oracle`: how the file answers each call, hence every way the buffer's
fill / flush / direct-write rule SPLITS AND MERGES the block writes into downstream calls), the compression function,
the block size and the documents.  Whenever `writeSortedDocs` (C03) returned a writer state `w` and the buffered run
over its blocks reported no error: for every block `k`, the offset C03 recorded for it (`w.file[k].1`, Go
`BlockOffsets[k]`) is the byte position in the file at which exactly the bytes of block `k` stand; and the offsets are
the running sums of the block lengths, the last one ending at `currentBlockOffset` = the file size. -/
theorem cons_bufwriter_blockOffsets_any_capacity (comp : Nat → List Nat → List Nat) (mbs : Nat)
    (oldRead : C03.ID → Option C03.DocB) (sortedIDs : List C03.ID) (w : C03.DW)
    (hw : C03.writeSortedDocs (fun i p => (comp i p).length) mbs oldRead sortedIDs = some w) :
    ∀ C : Nat, 1 ≤ C → ∀ oracle : List (Option Nat),
      (∀ r ∈ (BufWriter.exec C (bufwriterCmds comp w.file) { oracle := oracle }).1, r = true) →
      (∀ (k : Nat) (x : Nat × List Nat), w.file[k]? = some x →
        (((BufWriter.exec C (bufwriterCmds comp w.file) { oracle := oracle }).2.out.drop x.1).take (comp k x.2).length)
          = comp k x.2) ∧
      (BufWriter.exec C (bufwriterCmds comp w.file) { oracle := oracle }).2.out.length = w.currentBlockOffset ∧
      (BufWriter.exec C (bufwriterCmds comp w.file) { oracle := oracle }).2.buf = [] := by
  intro C _ oracle hok
  refine ⟨fun k x hx => cons_bufwriter_c03_block_at_offset C comp mbs oldRead sortedIDs w hw oracle hok k x hx, ?_, ?_⟩
  · rw [cons_bufwriter_output_eq_unbuffered C comp w.file oracle hok]
    have hinv := cons_bufwriter_c03_writeSortedDocs_laidOut comp mbs oldRead sortedIDs w hw
    have := cons_bufwriter_c03_total_length comp w.file 0 0 _ hinv.2
    omega
  · exact BufWriter.exec_flush_ok C _ _ hok

/-- non-vacuity, and the split really varies with the capacity: the same two blocks through capacities 1, 4 and 100 -/
example : (∀ r ∈ (BufWriter.exec 1 (bufwriterCmds (fun _ p => p) [(0, [1, 2, 3]), (3, [4, 5, 6, 7, 8])]) {}).1, r = true) ∧
    (∀ r ∈ (BufWriter.exec 100 (bufwriterCmds (fun _ p => p) [(0, [1, 2, 3]), (3, [4, 5, 6, 7, 8])]) {}).1, r = true) ∧
    (BufWriter.exec 4 (bufwriterCmds (fun _ p => p) [(0, [1, 2, 3]), (3, [4, 5, 6, 7, 8])]) {}).2.out = [1, 2, 3, 4, 5, 6, 7, 8] := by
  decide

/-! ## (3) the downstream calls vs C08's `sdocsWrites` -/

/-- BufWriter oracle answer -> SealOps answer (`true` = the `Write` call succeeded) -/
def bufwriterAnswer (a : Option Nat) : Bool := a.isNone

theorem bufwriter_sdocsWrites_all_true (j : Nat) (rest : List Bool) :
    (SealOps.sdocsWrites j (List.replicate j true ++ rest)).1 = true := by
  induction j with
  | zero => cases rest <;> rfl
  | succ j ih => simpa [List.replicate_succ, SealOps.sdocsWrites] using ih

/-- **Same fault convention.**  An error-free run of the buffered writer consumed only "ok" answers of the file
(BufWriter's `CleanBetween`); fed to C08's `sdocsWrites` (answers mapped by `bufwriterAnswer`, a missing answer is "ok"
in both) that many calls succeed.  Contrapositive: a failing call on the file makes some `Write` / `Flush` return the
error - the event `sdocsWrites` ends `writeDocsInOrder` with. -/
theorem cons_bufwriter_clean_run_eq_sdocsWrites_ok (C : Nat) (cmds : List BufWriter.Cmd) (s : BufWriter.St)
    (hok : ∀ r ∈ (BufWriter.exec C cmds s).1, r = true) :
    ∃ j, (SealOps.sdocsWrites j (s.oracle.map bufwriterAnswer)).1 = true ∧
      (s.oracle = List.replicate j none ++ (BufWriter.exec C cmds s).2.oracle ∨
        (s.oracle = [] ∧ (BufWriter.exec C cmds s).2.oracle = [])) := by
  obtain ⟨j, hj⟩ := (BufWriter.exec_ok C cmds s hok).2
  refine ⟨j, ?_, hj⟩
  rcases hj with hj | ⟨hj, _⟩
  · rw [hj, List.map_append, List.map_replicate]
    exact bufwriter_sdocsWrites_all_true j _
  · rw [hj]
    cases j <;> simp [SealOps.sdocsWrites]

/-- a refused downstream call is reported at once, and what was accepted before it is a prefix of the stream: the
`._sdocs` file is then `torn` in C08's terms, never silently short -/
theorem cons_bufwriter_failed_call_reported_witness :
    (BufWriter.exec 4 [.w [1, 2, 3], .w [4, 5, 6]] { oracle := [some 2] }).1 = [true, false] ∧
      (BufWriter.exec 4 [.w [1, 2, 3], .w [4, 5, 6]] { oracle := [some 2] }).2.out = [1, 2] ∧
      (SealOps.sdocsWrites 1 ([some 2].map bufwriterAnswer)).1 = false := by
  decide

/-- **Error path: one more downstream call than C08's trace has, re-sending accepted bytes.**  Buffer capacity 4,
the file refuses the first call after 2 bytes: the second `Write` reports the error; the deferred `Flush`
(`putDocBlocksWriter`) then sends the unreset buffer `[1,2,3,4]` again - the file holds `[1,2,1,2,3,4]`, not a prefix
of the stream.  `sdocsWrites` on the same answers stops after the failing call with no further operation.
Go side: `SV.BufWriter` (bytespool/writer.go `Flush` resets only on success; frac/active_sealer.go
`defer putDocBlocksWriter(bw)`).  Reachable on every write fault of the sorted-docs output; effect on C08: none at
its abstraction (an extra `write ._sdocs` keeps the temporary file `torn`, no rename follows). -/
theorem cons_bufwriter_flush_after_error_resends_witness :
    (BufWriter.exec 4 [.w [1, 2, 3], .w [4, 5, 6], .f] { oracle := [some 2] }).1 = [true, false, true] ∧
      (BufWriter.exec 4 [.w [1, 2, 3], .w [4, 5, 6], .f] { oracle := [some 2] }).2.out = [1, 2, 1, 2, 3, 4] ∧
      SealOps.sdocsWrites 2 ([some 2, none].map bufwriterAnswer) = (false, []) := by
  decide

end SV.Consistency
