import SeqVerif.Spec.Store
import SeqVerif.Model.FetchIDs
import SeqVerif.Model.C03Ids
import SeqVerif.Model.MergeQPR
import SeqVerif.Model.ProxySearch
import SeqVerif.Model.Repetitions
/-!
# Consistency: the order of `seq.ID` (`seq.Less`, `seq.LessOrEqual`, seq/seq.go)

Six separately written models of one Go comparison:

| model | file | representation |
|---|---|---|
| `SV.Spec.ID.lt / ID.le`       | Spec/Store.lean (C02, C12, C13) | record `{mid, rid}` |
| `SV.Fetch.ID.lt / ID.le`      | Model/FetchIDs.lean (C04)       | record `{mid, rid}` (its own structure) |
| `SV.C03.idLE`                 | Model/C03Ids.lean (C03)         | pair `(mid, rid)` |
| `SV.Merge.idLess`, `key`      | Model/MergeQPR.lean (C05, C19)  | four numbers / the single number `mid * 2^64 + rid` |
| `SV.ProxySearch.idLt, before` | Model/ProxySearch.lean (C16)    | pair `(mid, rid)` |
| `SV.Repetitions.idLe`         | Model/Repetitions.lean (C17)    | pair `(mid, rid)` tagged with a source, non-strict, with direction |

`SV.Spec.ID` is taken as the hub; every other model is proved equal to it after the explicit change of representation
below.  The single-number encoding is order-isomorphic only for `rid < 2^64` (RIDs are `uint64` in the code; the
pair models leave them unbounded) - that bound is the stated common domain of the `key` theorems.
-/
namespace SV.Consistency

/-! ## changes of representation -/

def specOfFetch (i : Fetch.ID) : Spec.ID := ⟨i.mid, i.rid⟩
def fetchOfSpec (i : Spec.ID) : Fetch.ID := ⟨i.mid, i.rid⟩
def specOfPair (p : Nat × Nat) : Spec.ID := ⟨p.1, p.2⟩
def pairOfSpec (i : Spec.ID) : Nat × Nat := (i.mid, i.rid)
/-- the number C05 / C19 use for an ID -/
def keyOfSpec (i : Spec.ID) : Nat := Merge.key i.mid i.rid
def keyOfPair (p : Nat × Nat) : Nat := Merge.key p.1 p.2
def specOfKey (k : Nat) : Spec.ID := ⟨Merge.midOf k, Merge.ridOf k⟩

theorem cons_idorder_specOfFetch_fetchOfSpec (i : Spec.ID) : specOfFetch (fetchOfSpec i) = i := rfl
theorem cons_idorder_fetchOfSpec_specOfFetch (i : Fetch.ID) : fetchOfSpec (specOfFetch i) = i := rfl
theorem cons_idorder_specOfPair_pairOfSpec (i : Spec.ID) : specOfPair (pairOfSpec i) = i := rfl
theorem cons_idorder_pairOfSpec_specOfPair (p : Nat × Nat) : pairOfSpec (specOfPair p) = p := rfl

/-- the key encoding is a bijection between IDs with `rid < 2^64` and numbers -/
theorem cons_idorder_specOfKey_keyOfSpec (i : Spec.ID) (h : i.rid < Merge.R) : specOfKey (keyOfSpec i) = i := by
  obtain ⟨m, r⟩ := i
  simp only [specOfKey, keyOfSpec, Merge.midOf, Merge.ridOf, Merge.key, Merge.R] at *
  congr 1 <;> omega

theorem cons_idorder_keyOfSpec_specOfKey (k : Nat) : keyOfSpec (specOfKey k) = k ∧ (specOfKey k).rid < Merge.R := by
  simp only [specOfKey, keyOfSpec, Merge.midOf, Merge.ridOf, Merge.key, Merge.R]
  omega

/-! ## Prop-level readings of the hub order -/

theorem spec_lt_iff (a b : Spec.ID) : a.lt b = true ↔ (a.mid < b.mid ∨ (a.mid = b.mid ∧ a.rid < b.rid)) := by
  unfold Spec.ID.lt; split <;> simp <;> omega

theorem spec_le_iff (a b : Spec.ID) : a.le b = true ↔ (a.mid < b.mid ∨ (a.mid = b.mid ∧ a.rid ≤ b.rid)) := by
  unfold Spec.ID.le; split <;> simp <;> omega

theorem proxy_idLt_iff (a b : Nat × Nat) : ProxySearch.idLt a b = true ↔ (a.1 < b.1 ∨ (a.1 = b.1 ∧ a.2 < b.2)) := by
  unfold ProxySearch.idLt; simp

theorem rep_idLe_iff (asc : Bool) (a b : Repetitions.IDSource) :
    Repetitions.idLe asc a b = true ↔
      if asc then (a.1.1 < b.1.1 ∨ (a.1.1 = b.1.1 ∧ a.1.2 ≤ b.1.2)) else (b.1.1 < a.1.1 ∨ (a.1.1 = b.1.1 ∧ b.1.2 ≤ a.1.2)) := by
  unfold Repetitions.idLe; cases asc <;> simp

/-! ## `seq.Less` -/

/-- C04's `ID.lt` = the Spec's `ID.lt` -/
theorem cons_idorder_fetch_lt_eq_spec_lt (a b : Fetch.ID) :
    a.lt b = (specOfFetch a).lt (specOfFetch b) := rfl

/-- C16's `idLt` = the Spec's `ID.lt` -/
theorem cons_idorder_proxy_idLt_eq_spec_lt (a b : Nat × Nat) :
    ProxySearch.idLt a b = (specOfPair a).lt (specOfPair b) := by
  rw [Bool.eq_iff_iff, proxy_idLt_iff, spec_lt_iff]; rfl

/-- C05's four-argument `idLess` = the Spec's `ID.lt` -/
theorem cons_idorder_merge_idLess_eq_spec_lt (a b : Spec.ID) :
    Merge.idLess a.mid a.rid b.mid b.rid = a.lt b := rfl

/-- C05's single-number order = the Spec's `ID.lt`, for RIDs that fit `uint64` -/
theorem cons_idorder_merge_key_lt_eq_spec_lt (a b : Spec.ID) (ha : a.rid < Merge.R) (hb : b.rid < Merge.R) :
    decide (keyOfSpec a < keyOfSpec b) = a.lt b := by
  have := Merge.key_lt_iff a.mid a.rid b.mid b.rid ha hb
  rw [cons_idorder_merge_idLess_eq_spec_lt] at this
  rw [Bool.eq_iff_iff, decide_eq_true_iff]
  exact this

/-- outside that domain the single-number encoding identifies two different (unbounded) pairs: why the bound is stated -/
theorem cons_idorder_merge_key_needs_bound :
    keyOfSpec ⟨0, Merge.R⟩ = keyOfSpec ⟨1, 0⟩ ∧ (⟨0, Merge.R⟩ : Spec.ID) ≠ ⟨1, 0⟩ := by
  constructor
  · simp only [keyOfSpec, Merge.key]; omega
  · intro h; cases h

/-- the direction flag: `SV.lessFn desc` on keys (Model/Nodes.lean, used by C05's merge) against C16's `before rev`
with `desc = !rev`; re-export of `ProxyCompose.before_iff_lessFn` in Spec terms -/
theorem cons_idorder_lessFn_key_eq_spec_lt (desc : Bool) (a b : Spec.ID) (ha : a.rid < Merge.R) (hb : b.rid < Merge.R) :
    lessFn desc (keyOfSpec a) (keyOfSpec b) = if desc then b.lt a else a.lt b := by
  cases desc
  · simp only [lessFn, Bool.false_eq_true, if_false]; exact cons_idorder_merge_key_lt_eq_spec_lt a b ha hb
  · simp only [lessFn, if_true]; exact cons_idorder_merge_key_lt_eq_spec_lt b a hb ha

/-- C16's `before rev` = the Spec order in the direction `rev` (`rev = order.IsReverse()` = ascending) -/
theorem cons_idorder_proxy_before_eq_spec (rev : Bool) (a b : Nat × Nat) :
    ProxySearch.before rev a b = if rev then (specOfPair a).lt (specOfPair b) else (specOfPair b).lt (specOfPair a) := by
  cases rev <;> simp [ProxySearch.before, cons_idorder_proxy_idLt_eq_spec_lt]

/-! ## `seq.LessOrEqual` -/

/-- C04's `ID.le` = the Spec's `ID.le` -/
theorem cons_idorder_fetch_le_eq_spec_le (a b : Fetch.ID) :
    a.le b = (specOfFetch a).le (specOfFetch b) := rfl

/-- C03's `idLE` = the Spec's `ID.le` -/
theorem cons_idorder_c03_idLE_eq_spec_le (a b : Nat × Nat) :
    C03.idLE a b = (specOfPair a).le (specOfPair b) := rfl

/-- C03's `idLE` = C04's `ID.le` -/
theorem cons_idorder_c03_idLE_eq_fetch_le (a b : Nat × Nat) :
    C03.idLE a b = (fetchOfSpec (specOfPair a)).le (fetchOfSpec (specOfPair b)) := rfl

/-- `LessOrEqual a b = !Less b a` in the hub model (so the strict and the non-strict models are one order) -/
theorem cons_idorder_spec_le_eq_not_lt (a b : Spec.ID) : a.le b = !(b.lt a) := by
  rw [Bool.eq_iff_iff, Bool.not_eq_true', ← Bool.not_eq_true, spec_le_iff, spec_lt_iff]; omega

/-- C17's sort comparator `idLe asc` (non-strict, on tagged IDs) = the Spec's `ID.le` in the direction `asc` -/
theorem cons_idorder_rep_idLe_eq_spec_le (asc : Bool) (a b : Repetitions.IDSource) :
    Repetitions.idLe asc a b = if asc then (specOfPair a.1).le (specOfPair b.1) else (specOfPair b.1).le (specOfPair a.1) := by
  rw [Bool.eq_iff_iff, rep_idLe_iff]
  cases asc
  · simp only [Bool.false_eq_true, if_false, spec_le_iff, specOfPair]; omega
  · simp only [if_true, spec_le_iff, specOfPair]

/-- C17's `asc` and C16's `rev` are the same flag (`order.IsReverse()`), C05's `desc` is its negation: the three
comparators used to sort inside `MergeQPRs` order two different IDs the same way -/
theorem cons_idorder_rep_idLe_eq_proxy_before (asc : Bool) (a b : Repetitions.IDSource) (hne : a.1 ≠ b.1) :
    Repetitions.idLe asc a b = ProxySearch.before asc a.1 b.1 := by
  rw [cons_idorder_rep_idLe_eq_spec_le, cons_idorder_proxy_before_eq_spec]
  have hne' : specOfPair a.1 ≠ specOfPair b.1 := by
    intro h; apply hne
    have := congrArg pairOfSpec h
    simpa [cons_idorder_pairOfSpec_specOfPair] using this
  have key : ∀ x y : Spec.ID, x ≠ y → x.le y = x.lt y := by
    intro x y hxy
    rw [Bool.eq_iff_iff, spec_le_iff, spec_lt_iff]
    have : ¬ (x.mid = y.mid ∧ x.rid = y.rid) := by
      intro h; apply hxy; cases x; cases y; simp_all
    omega
  cases asc
  · simp only [Bool.false_eq_true, if_false]; exact key _ _ (fun e => hne' e.symm)
  · simp only [if_true]; exact key _ _ hne'

end SV.Consistency
