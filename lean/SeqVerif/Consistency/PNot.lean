import SeqVerif.Model.PNot
import SeqVerif.Model.Ast
import SeqVerif.Model.ActiveConc
/-!
# Consistency: `parser.propagateNot` / `parser.ASTNode` / the boolean evaluation of a query tree

Two separately written models of `parser/ast_node.go`:

* `SV.Ast`, `SV.Op`, `SV.Ast.eval`, `SV.propagateNot`, `SV.Ast.NoNand`       (Model/PNot.lean, design-phase seed; leaves `Nat`)
* `SV.Parser.Ast α`, `SV.Parser.Op`, `SV.Parser.Ast.eval`, `SV.Parser.propagateNot`, `SV.Parser.Ast.NoNand`
                                                                            (Model/Ast.lean, C12; leaves of any type `α`)

and a third evaluator of and/or/not trees, `SV.ActiveConc.Query` / `SV.ActiveConc.sat` (Model/ActiveConc.lean, C20).
`Model/ParserCore.lean`, `Model/SeqQLFilter.lean`, `Model/LegacyParser.lean` import `Model/Ast.lean` and reuse
`SV.Parser.propagateNot` (not duplicates).  `Model/C03Search.lean` has no `propagateNot`: its `SV.C03.Q` is the tree
*after* `propagateNot` (see Consistency/Nodes.lean).
-/
namespace SV.Consistency

/-! ## representation change  seed AST  <->  C12 AST at `α = Nat` -/

/-- `parser.LogicalOr / LogicalAnd / LogicalNAnd`: seed operator -> C12 operator -/
def opToP : SV.Op → SV.Parser.Op
  | .or => .or
  | .and => .and
  | .nand => .nand

def opOfP : SV.Parser.Op → SV.Op
  | .or => .or
  | .and => .and
  | .nand => .nand

/-- seed `SV.Ast` -> C12 `SV.Parser.Ast Nat` (constructor by constructor) -/
def astToP : SV.Ast → SV.Parser.Ast Nat
  | .leaf n => .leaf n
  | .not c => .not (astToP c)
  | .bin op l r => .bin (opToP op) (astToP l) (astToP r)

def astOfP : SV.Parser.Ast Nat → SV.Ast
  | .leaf n => .leaf n
  | .not c => .not (astOfP c)
  | .bin op l r => .bin (opOfP op) (astOfP l) (astOfP r)

theorem cons_pnot_opOfP_opToP (o : SV.Op) : opOfP (opToP o) = o := by cases o <;> rfl
theorem cons_pnot_opToP_opOfP (o : SV.Parser.Op) : opToP (opOfP o) = o := by cases o <;> rfl

/-- the conversion is a bijection (1/2) -/
theorem cons_pnot_astOfP_astToP (t : SV.Ast) : astOfP (astToP t) = t := by
  induction t with
  | leaf n => rfl
  | not c ih => simp [astToP, astOfP, ih]
  | bin op l r ihl ihr => simp [astToP, astOfP, ihl, ihr, cons_pnot_opOfP_opToP]

/-- the conversion is a bijection (2/2) -/
theorem cons_pnot_astToP_astOfP (t : SV.Parser.Ast Nat) : astToP (astOfP t) = t := by
  induction t with
  | leaf n => rfl
  | not c ih => simp [astToP, astOfP, ih]
  | bin op l r ihl ihr => simp [astToP, astOfP, ihl, ihr, cons_pnot_opToP_opOfP]

/-! ## the evaluators -/

/-- `buildEvalTree` semantics of an AST (NAND = not children[0] and children[1]):
`SV.Ast.eval` (Model/PNot.lean) = `SV.Parser.Ast.eval` (Model/Ast.lean) under `astToP`; all inputs. -/
theorem cons_pnot_eval_seed_eq_parser (env : Nat → Bool) (t : SV.Ast) :
    (astToP t).eval env = t.eval env := by
  induction t with
  | leaf n => rfl
  | not c ih => simp [astToP, SV.Ast.eval, SV.Parser.Ast.eval, ih]
  | bin op l r ihl ihr =>
    cases op <;> simp [astToP, opToP, SV.Ast.eval, SV.Parser.Ast.eval, ihl, ihr]

/-- the same, read from the C12 side -/
theorem cons_pnot_eval_parser_eq_seed (env : Nat → Bool) (t : SV.Parser.Ast Nat) :
    (astOfP t).eval env = t.eval env := by
  rw [← cons_pnot_eval_seed_eq_parser, cons_pnot_astToP_astOfP]

/-- the input restriction "no NAND yet" is the same predicate in both models -/
theorem cons_pnot_noNand_seed_eq_parser (t : SV.Ast) : (astToP t).NoNand ↔ t.NoNand := by
  induction t with
  | leaf n => simp [astToP, SV.Ast.NoNand, SV.Parser.Ast.NoNand]
  | not c ih => simpa [astToP, SV.Ast.NoNand, SV.Parser.Ast.NoNand] using ih
  | bin op l r ihl ihr =>
    cases op <;> simp [astToP, opToP, SV.Ast.NoNand, SV.Parser.Ast.NoNand, ihl, ihr]

/-! ## propagateNot -/

/-- **`parser.propagateNot`**: `SV.propagateNot` (Model/PNot.lean) = `SV.Parser.propagateNot` (Model/Ast.lean) under
`astToP`, on ALL inputs (also on trees that already contain NAND): same rewritten tree, same returned `not` flag. -/
theorem cons_pnot_propagateNot_seed_eq_parser (t : SV.Ast) :
    SV.Parser.propagateNot (astToP t) = (astToP (SV.propagateNot t).1, (SV.propagateNot t).2) := by
  induction t with
  | leaf n => rfl
  | not c ih =>
    simp only [astToP, SV.Parser.propagateNot, SV.propagateNot, ih]
  | bin op l r ihl ihr =>
    simp only [astToP, SV.Parser.propagateNot, SV.propagateNot, ihl, ihr]
    rcases SV.propagateNot l with ⟨L, ln⟩
    rcases SV.propagateNot r with ⟨R, rn⟩
    cases op <;> cases ln <;> cases rn <;> simp [astToP, opToP]

/-- the same, read from the C12 side: run the seed on the converted tree and convert back -/
theorem cons_pnot_propagateNot_parser_eq_seed (t : SV.Parser.Ast Nat) :
    SV.Parser.propagateNot t = (astToP (SV.propagateNot (astOfP t)).1, (SV.propagateNot (astOfP t)).2) := by
  rw [← cons_pnot_propagateNot_seed_eq_parser, cons_pnot_astToP_astOfP]

/-- `root, not := propagateNot(root); if not { root = newNotNode(root) }`: the seed has no `finish`; this is what
`SV.Parser.finish` computes in terms of the seed's `propagateNot` -/
theorem cons_pnot_finish_eq_seed (t : SV.Ast) :
    SV.Parser.finish (astToP t) =
      astToP (if (SV.propagateNot t).2 then .not (SV.propagateNot t).1 else (SV.propagateNot t).1) := by
  unfold SV.Parser.finish
  rw [cons_pnot_propagateNot_seed_eq_parser]
  cases (SV.propagateNot t).2 <;> simp [astToP]

/-! ## ActiveConc's and/or/not query (C20) -/

/-- `SV.ActiveConc.Query` (tokens as `Nat`, no NAND: a tree *before* `propagateNot`) as a C12 AST -/
def concToP : SV.ActiveConc.Query → SV.Parser.Ast Nat
  | .tok t => .leaf t
  | .and a b => .bin .and (concToP a) (concToP b)
  | .or a b => .bin .or (concToP a) (concToP b)
  | .not a => .not (concToP a)

/-- `SV.ActiveConc.sat q d` (C20's meaning of a query on one document) = `SV.Parser.Ast.eval` (C12) of the converted
tree with the leaf environment "document carries token t"; all inputs -/
theorem cons_pnot_activeConc_sat_eq_parser_eval (q : SV.ActiveConc.Query) (d : SV.ActiveConc.Doc) :
    SV.ActiveConc.sat q d = (concToP q).eval (fun t => d.toks.contains t) := by
  induction q with
  | tok t => rfl
  | and a b iha ihb => simp [SV.ActiveConc.sat, concToP, SV.Parser.Ast.eval, iha, ihb]
  | or a b iha ihb => simp [SV.ActiveConc.sat, concToP, SV.Parser.Ast.eval, iha, ihb]
  | not a ih => simp [SV.ActiveConc.sat, concToP, SV.Parser.Ast.eval, ih]

/-- C20 queries are legal `propagateNot` inputs -/
theorem cons_pnot_activeConc_noNand (q : SV.ActiveConc.Query) : (concToP q).NoNand := by
  induction q with
  | tok t => trivial
  | and a b iha ihb => exact ⟨by decide, iha, ihb⟩
  | or a b iha ihb => exact ⟨by decide, iha, ihb⟩
  | not a ih => exact ih

/-- hence what the store evaluates after `ParseSeqQL`'s `propagateNot` + top NOT is C20's `sat`
(`SV.Parser.finish_sound` composed with the equality above) -/
theorem cons_pnot_activeConc_sat_eq_finish (q : SV.ActiveConc.Query) (d : SV.ActiveConc.Doc) :
    (SV.Parser.finish (concToP q)).eval (fun t => d.toks.contains t) = SV.ActiveConc.sat q d := by
  rw [SV.Parser.finish_sound _ _ (cons_pnot_activeConc_noNand q), cons_pnot_activeConc_sat_eq_parser_eval]

end SV.Consistency
