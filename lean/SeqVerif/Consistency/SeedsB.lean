import SeqVerif.Model.Chunking
import SeqVerif.Model.FetchStream
import SeqVerif.Model.Greedy
import SeqVerif.Model.KmpProof
import SeqVerif.Model.PatternGlobProof
import SeqVerif.Model.Bulk
/-!
# Model consistency, topics (e2) chunking, (e3) greedy fragment search vs KMP
-/
namespace SV.Consistency

/-! ## (e3) `pattern.findSubstring` / `findSequence`: Greedy.lean (seed, specification style) vs Kmp.lean (the KMP
loops as written).  Already proved next to the models; re-exported. -/

/-- `findSubstring`: `SV.Kmp.findSubstring` with the prefix function computed by `calcPrefFunc` = `SV.Greedy.findEnd`,
for every non-empty fragment (Go panics in `newSubstringPattern` on an empty one). -/
theorem cons_seeds_kmp_findSubstring_eq_greedy_findEnd (p s : List Nat) (hp : p ≠ []) :
    SV.Kmp.findSubstring s ⟨p, SV.Kmp.calcPrefFunc p⟩ = SV.Greedy.findEnd p s :=
  SV.Kmp.kmp_first_occurrence p s hp

example : ([1] : List Nat) ≠ [] := by decide

/-- `findSequence(s, to) == len(to)`: `SV.Kmp.findSequence` = `SV.Greedy.findSeq`; representation: fragments <->
`SubPat`s through `newSubstringPatterns` (fails only on an empty fragment). -/
theorem cons_seeds_kmp_findSequence_eq_greedy_findSeq (ms : List (List Nat)) (sps : List SV.Kmp.SubPat)
    (h : SV.Kmp.newSubstringPatterns ms = some sps) (s : List Nat) :
    (SV.Kmp.findSequence s sps == sps.length) = SV.Greedy.findSeq ms s :=
  SV.Pattern.findSequence_eq_findSeq ms sps h s

example : ∃ sps, SV.Kmp.newSubstringPatterns [[1], [2, 3]] = some sps := ⟨_, rfl⟩

/-- found outside the hints: `strings.Contains` of the bulk reader (`SV.Bulk.hasSub`, Bulk.lean) is "the leftmost
occurrence exists" of `SV.Greedy.findEnd`. -/
theorem cons_seeds_bulk_hasSub_eq_greedy_findEnd (pat s : List Nat) :
    SV.Bulk.hasSub pat s = (SV.Greedy.findEnd pat s).isSome := by
  induction s with
  | nil => cases pat <;> simp [SV.Bulk.hasSub, SV.Greedy.findEnd, List.isPrefixOf]
  | cons b s ih =>
    simp only [SV.Bulk.hasSub, SV.Greedy.findEnd, ih]
    cases hp : pat.isPrefixOf (b :: s) <;> simp

/-! ## (e2) `docsStream.batchLoader` / `calcChunkSize`: Chunking.lean (seed) vs FetchStream.lean
`SV.Chunking.calcFixed` is REUSED by `SV.Fetch.calcFixedOpt` (shared, not a duplicate); `SV.Chunking.calcChunkSize` is the
historical (pre-fix) sizing, kept for the counterexamples.  `batchLoader` is written twice. -/

/-- `len(doc)` of a possibly absent document, the way `SV.Fetch.batchLoader` measures a batch -/
def seedsOptLen {D : Type} (len : D → Nat) : Option D → Nat
  | none => 0
  | some d => len d

/-- `batchLoader`: when no chunk fetch fails and the chunk sizing never divides by zero, `SV.Fetch.batchLoader`
(FetchStream.lean: `Res`, `Option` size, `StreamEnd`) delivers exactly what `SV.Chunking.batchLoader` (Chunking.lean:
total `fetch`, total `nextSize`) delivers, and ends with `done`.  Representation: `fetch = .ok ∘ f`,
`csize = some ∘ ns`, `nextSize docs s = ns (lengths of docs) s`. -/
theorem cons_seeds_fetch_batchLoader_eq_chunking_batchLoader {I D : Type} (f : List I → List (Option D))
    (ns : List Nat → Nat → Nat) (len : D → Nat) (fuel : Nat) (ids : List I) (size : Nat) :
    SV.Fetch.batchLoader (fun c => .ok (f c)) (fun l s => some (ns l s)) len fuel ids size =
      (SV.Chunking.batchLoader f (fun docs s => ns (docs.map (seedsOptLen len)) s) fuel ids size, .done) := by
  induction fuel generalizing ids size with
  | zero => rfl
  | succ fuel ih =>
    cases ids with
    | nil => rfl
    | cons i rest =>
      simp only [SV.Fetch.batchLoader, SV.Chunking.batchLoader, ih]
      exact congrArg (fun n => (f (List.take size (i :: rest)) ++ SV.Chunking.batchLoader f
        (fun docs s => ns (List.map (seedsOptLen len) docs) s) fuel (List.drop size (i :: rest)) (ns n size), SV.Fetch.StreamEnd.done))
        (List.map_congr_left (fun d _ => by cases d <;> rfl))

/-- the repaired sizing plugged into both loaders: the store-side stream of FetchStream.lean is the seed loader run
with `calcFixed` (no domain restriction left) -/
theorem cons_seeds_fetch_batchLoader_fixed_eq_chunking {I D : Type} (f : List I → List (Option D)) (maxFetch : Nat)
    (len : D → Nat) (fuel : Nat) (ids : List I) (size : Nat) :
    SV.Fetch.batchLoader (fun c => .ok (f c)) (SV.Fetch.calcFixedOpt maxFetch) len fuel ids size =
      (SV.Chunking.batchLoader f (fun docs s => SV.Chunking.calcFixed maxFetch (docs.map (seedsOptLen len)) s) fuel ids size, .done) :=
  cons_seeds_fetch_batchLoader_eq_chunking_batchLoader f (SV.Chunking.calcFixed maxFetch) len fuel ids size

/-- the historical `calcChunkSize` and the repaired `calcFixed` agree wherever the old code neither divided by zero nor
produced an empty chunk -/
theorem cons_seeds_chunking_calcChunkSize_eq_calcFixed (maxFetch : Nat) (lens : List Nat) (prev n : Nat)
    (h : SV.Chunking.calcChunkSize maxFetch lens prev = some n) (hn : 1 ≤ n) :
    SV.Chunking.calcFixed maxFetch lens prev = n := by
  unfold SV.Chunking.calcChunkSize at h
  unfold SV.Chunking.calcFixed
  simp only at h ⊢
  split
  · rename_i hb; simp [hb] at h; exact h
  · rename_i hb
    simp only [hb, if_false] at h
    split at h
    · cases h
    · rename_i ha
      simp only [Option.some.injEq] at h
      have h1 : 1 ≤ lens.sum / lens.length := Nat.pos_of_ne_zero ha
      rw [Nat.max_eq_right h1, h]; omega

example : SV.Chunking.calcChunkSize 100 [10, 10] 7 = some 10 ∧ 1 ≤ 10 := by decide

end SV.Consistency
