import SeqVerif.Base.GoInt
import SeqVerif.Model.Dist
import SeqVerif.Model.FracInfo
import SeqVerif.Model.Async
import SeqVerif.Model.ProxyRead
import SeqVerif.Model.BulkTime
import SeqVerif.Model.C03Codec
import SeqVerif.Model.C03Search
import SeqVerif.Model.Borders
import SeqVerif.Model.Collector
import SeqVerif.Model.Repetitions
import SeqVerif.Model.FetchIndex
/-!
# Consistency: Go's fixed-width integer conversions and the 2^64 constants

`int64(x)` of a `uint64`, `uint64(x)` of an `int64` and the int64 wrap of a time value were written down separately by
C14 (`SV.Dist.toInt64 / toUint64`: `MID.Time()`), C19 (`SV.Async.toI64 / toU64`: the `AggBin` key), C16
(`SV.ProxyRead.toInt64`: `Total` in the API response), C10 (`SV.BulkTime.wrap64`: `Time.UnixNano`) and by the
translator's run-time library (`SV.Go.wrapI64 / wrapU64`, Base/GoInt.lean).  All are proved equal here, on all inputs
except `Async.toI64`, which is written for `uint64` arguments only (`m < 2^64`, stated).
The constant `math.MaxUint64` / 2^64 appears under seven names; they are the same number.
-/
namespace SV.Consistency

/-! ## `int64(uint64)` -/

/-- C14's `toInt64` = the translator library's `wrapI64` -/
theorem cons_int64_dist_toInt64_eq_go_wrapI64 (m : Nat) : Dist.toInt64 m = Go.wrapI64 (m : Int) := by
  unfold Dist.toInt64 Go.wrapI64
  split <;> omega

/-- C16's `toInt64` = C14's `toInt64` -/
theorem cons_int64_proxyread_toInt64_eq_dist_toInt64 (t : Nat) : ProxyRead.toInt64 t = Dist.toInt64 t := by
  unfold ProxyRead.toInt64 Dist.toInt64
  split <;> split <;> omega

/-- C19's `toI64` = C14's `toInt64` on `uint64` arguments (C19's is not reduced mod 2^64: its argument is a MID) -/
theorem cons_int64_async_toI64_eq_dist_toInt64 (m : Nat) (h : m < 18446744073709551616) :
    Async.toI64 m = Dist.toInt64 m := by
  unfold Async.toI64 Dist.toInt64
  split <;> split <;> omega

/-- beyond `uint64` the two differ (C19's keeps the excess): why the bound is stated -/
theorem cons_int64_async_toI64_ne_dist_toInt64_witness :
    Async.toI64 27670116110564327424 ≠ Dist.toInt64 27670116110564327424 := by decide

/-- C10's `wrap64` is the translator library's `wrapI64` -/
theorem cons_int64_bulktime_wrap64_eq_go_wrapI64 (x : Int) : BulkTime.wrap64 x = Go.wrapI64 x := rfl

/-! ## `uint64(int64)` -/

/-- C19's `toU64` is C14's `toUint64` -/
theorem cons_int64_async_toU64_eq_dist_toUint64 (i : Int) : Async.toU64 i = Dist.toUint64 i := rfl

/-- ... and the translator library's `wrapU64` -/
theorem cons_int64_dist_toUint64_eq_go_wrapU64 (i : Int) : (Dist.toUint64 i : Int) = Go.wrapU64 i := by
  unfold Dist.toUint64 Go.wrapU64
  omega

/-! ## range predicates and constants -/

theorem cons_int64_c03_I64_eq_go_I64 (x : Int) : C03.I64 x ↔ Go.I64 x := Iff.rfl

/-- `math.MaxUint64` in C02, C03, C14, C17 and 2^64 in C05, C17, C14 -/
theorem cons_int64_maxU64_constants :
    Borders.maxU64 = C03.maxU64 ∧ C03.maxU64 = Collector.maxU64 ∧ Collector.maxU64 = FracInfo.maxU64 ∧
    Merge.R = FracInfo.maxU64 + 1 ∧ Repetitions.two64 = Merge.R ∧ Dist.two64 = (Merge.R : Int) ∧
    Fetch.notFound = Borders.maxU64 := by
  refine ⟨rfl, rfl, rfl, ?_, ?_, ?_, ?_⟩ <;> decide

end SV.Consistency
