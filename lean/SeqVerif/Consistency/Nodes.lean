import SeqVerif.Model.Nodes
import SeqVerif.Model.EvalTree
import SeqVerif.Model.SearchSpec
import SeqVerif.Model.AggWalk
import SeqVerif.Model.MergeQPR
import SeqVerif.Model.C03Search
/-!
# Consistency: merge nodes, `TreeFold`, `iterateEvalTree`, `IndexSearch`  (package `node`, `frac/processor`)

Shared, NOT duplicated: `SV.andMerge / orMerge / nandMerge / rangeNode / notNode / lessFn` are written once in
Model/Nodes.lean; Model/TopK.lean (only theorems about `orMerge`), Model/EvalTree.lean, Model/EvalTreeWith.lean,
Model/SearchSpec.lean, Model/RangeGo.lean, Model/MergeQPR.lean, Model/C03Search.lean, Model/ActiveIndex.lean import
and call those definitions.  `SV.EvalTree.evalTreeWith` (parametric number parser) already has
`evalTreeWith_numVal : evalTreeWith numVal = evalTree` in its own file.

Separately written:

* `node.LessFn`:         `SV.lessFn` (Nodes) and `SV.Agg.lessFn` (Model/Agg.lean, C06);
* sortedness predicate:  `SV.SortedBy` and `SV.Agg.LidsSorted` (Model/AggWalk.lean);
* `node.TreeFold`:       `SV.EvalTree.treeFold rev` (specialised to `NewOr`, default `emptyNode`) and the generic
                         `SV.Agg.treeFold op dflt` (C06);
* the evaluator of the tree: `SV.EvalTree.evalTree` (C02, over `SV.Spec.Query` with pattern leaves) and
                         `SV.C03.evalQ` (C03, over `SV.C03.Q` with token-id leaves, can fail) - see
                         the section `evalQ` below;
* `iterateEvalTree` / `IndexSearch`: `SV.EvalTree.iterate`/`search` (C02) and `SV.C03.search` (C03);
* "drop consecutive repetitions": `SV.Spec.dedupAdj`, `SV.C03.dedupConsecutive`, `SV.Merge.removeRepetitions`;
* histogram bucket `mid - mid % interval`: `SV.Agg.histBucket`, `SV.Agg.extractBin`, `SV.Merge.bucket`, inline in `SV.C03.search`.

Boolean evaluators: `SV.Parser.Ast.eval` (C12) is tied to `SV.EvalTree.evalTree` by `c12_evalTree_of_ast`
(Props/C12.lean, through `c02_evalTree_denotes` and `c12_toQuery_docMatches`) - cited, not redone; the seed
`SV.Ast.eval` and `SV.ActiveConc.sat` are tied to `SV.Parser.Ast.eval` in Consistency/PNot.lean.
`nodeOrAgg` (`SV.Agg.orAgg`, keeps both entries on a tie) is a different Go type from `nodeOr` (`SV.orMerge`).
-/
namespace SV.Consistency
open SV

/-! ## LessFn, sortedness -/

/-- `node.LessFn(reverse)`: `SV.Agg.lessFn` (Model/Agg.lean) = `SV.lessFn` (Model/Nodes.lean); all inputs -/
theorem cons_nodes_lessFn_agg_eq_nodes (rev : Bool) (a b : Nat) : SV.Agg.lessFn rev a b = SV.lessFn rev a b := rfl

/-- "strictly sorted in iteration order": `SV.Agg.LidsSorted` (Model/AggWalk.lean) = `SV.SortedBy` (Model/Nodes.lean) -/
theorem cons_nodes_lidsSorted_agg_eq_sortedBy (rev : Bool) (l : List Nat) : SV.Agg.LidsSorted rev l ↔ SV.SortedBy rev l :=
  Iff.rfl

/-! ## TreeFold -/

/-- **`node.TreeFold` / `BuildORTree`**: `SV.EvalTree.treeFold rev vs` (Model/EvalTree.lean, C02) =
`SV.Agg.treeFold (orMerge rev) [] vs` (Model/Agg.lean, C06, generic in `op` and default) instantiated at
`op = NewOr` (drained: `orMerge rev`), `def = emptyNode` (drained: `[]`); all inputs. -/
theorem cons_nodes_treeFold_evalTree_eq_agg (rev : Bool) (vs : List (List Nat)) :
    SV.EvalTree.treeFold rev vs = SV.Agg.treeFold (SV.orMerge rev) [] vs := by
  induction hn : vs.length using Nat.strongRecOn generalizing vs with
  | _ n ih =>
    match vs, hn with
    | [], _ => rw [SV.Agg.treeFold_nil, SV.EvalTree.treeFold]; simp
    | [v], _ => rw [SV.Agg.treeFold_single, SV.EvalTree.treeFold]; simp
    | a :: b :: rest, hn =>
      rw [SV.Agg.treeFold_split _ _ _ (by simp), SV.EvalTree.treeFold]
      have h2 : ¬ (a :: b :: rest).length ≤ 1 := by simp
      rw [dif_neg h2]
      rw [ih _ (by simp [List.length_take] at *; omega) _ rfl, ih _ (by simp [List.length_drop] at *; omega) _ rfl]

/-! ## consecutive de-duplication -/

/-- "lids increase monotonically, it's enough to compare current id with the last one" (`iterateEvalTree`):
`SV.C03.dedupConsecutive` (Model/C03Search.lean, on pairs) = `SV.Spec.dedupAdj` (Spec/Store.lean, any type) at
`α = Nat × Nat`; all inputs -/
theorem cons_nodes_dedupConsecutive_eq_dedupAdj (l : List SV.C03.ID) : SV.C03.dedupConsecutive l = SV.Spec.dedupAdj l := by
  induction l with
  | nil => rfl
  | cons x rest ih =>
    cases rest with
    | nil => rfl
    | cons y rest =>
      simp only [SV.C03.dedupConsecutive, SV.Spec.dedupAdj, ih]

/-- `dedupAdj` commutes with an injective change of representation -/
theorem nodes_dedupAdj_map_inj {α β} [DecidableEq α] [DecidableEq β] (f : α → β) (hf : ∀ a b, f a = f b → a = b)
    (l : List α) : SV.Spec.dedupAdj (l.map f) = (SV.Spec.dedupAdj l).map f := by
  induction l with
  | nil => rfl
  | cons x rest ih =>
    cases rest with
    | nil => rfl
    | cons y rest =>
      simp only [List.map_cons] at ih ⊢
      simp only [SV.Spec.dedupAdj]
      by_cases h : x = y
      · subst h; simp [ih]
      · have h' : ¬ f x = f y := fun e => h (hf _ _ e)
        simp [h, h', ih]

/-- `removeRepetitionsAdvanced` on keys: `SV.Merge.removeRepetitions` (Model/MergeQPR.lean, C05) = `SV.Spec.dedupAdj`
at `α = Nat`; all inputs -/
theorem cons_nodes_removeRepetitions_eq_dedupAdj (l : List Nat) : SV.Merge.removeRepetitions l = SV.Spec.dedupAdj l := by
  have key : ∀ (xs : List Nat) (last : Nat), last :: SV.Merge.dedupGo last xs = SV.Spec.dedupAdj (last :: xs) := by
    intro xs
    induction xs with
    | nil => intro last; rfl
    | cons y ys ih =>
      intro last
      simp only [SV.Merge.dedupGo, SV.Spec.dedupAdj]
      by_cases h : y = last
      · subst h; simp [ih]
      · have h' : ¬ last = y := fun e => h e.symm
        simp [h', ih]
  cases l with
  | nil => rfl
  | cons x xs => simpa [SV.Merge.removeRepetitions] using key xs x

/-! ## histogram bucket -/

/-- `bucket := mid; bucket -= bucket % interval`: `SV.Agg.histBucket` (C06) = `SV.Merge.bucket` on the key of the ID
(C05, key = `mid * 2^64 + rid`); domain `rid < 2^64` (the key encoding is only injective there) -/
theorem cons_nodes_histBucket_agg_eq_merge (interval mid rid : Nat) (h : rid < SV.Merge.R) :
    SV.Merge.bucket interval (SV.Merge.key mid rid) = SV.Agg.histBucket interval mid := by
  simp [SV.Merge.bucket, SV.Agg.histBucket, SV.Merge.midOf_key mid rid h]

example : (5 : Nat) < SV.Merge.R := by decide

/-- the bucket `SV.C03.search` computes inline for every hit = `SV.Agg.histBucket`; all inputs -/
theorem cons_nodes_histBucket_c03_eq_agg (interval : Nat) (id : SV.C03.ID) :
    id.1 - id.1 % interval = SV.Agg.histBucket interval id.1 := rfl

/-- `provideExtractTimeFunc` (time bin of an aggregation, `interval` an int64) = the histogram bucket for a positive
interval -/
theorem cons_nodes_extractBin_eq_histBucket (interval : Nat) (h : 0 < interval) (mid : Nat) :
    SV.Agg.extractBin (interval : Int) mid = SV.Agg.histBucket interval mid := by
  simp only [SV.Agg.extractBin, SV.Agg.histBucket, Int.toNat_natCast]
  have : ¬ ((interval : Int) ≤ 0) := by omega
  rw [if_neg this]

example : (0 : Nat) < 60000 := by decide

/-! ## order direction conventions

One Go value, three flag names.  `seq.DocsOrder`: `IsReverse() = (o == DocsOrderAsc)`, `IsDesc() = (o == DocsOrderDesc)`.

* `rev` of `SV.lessFn`, `SV.andMerge/orMerge/nandMerge/rangeNode`, `SV.EvalTree.narrow/evalTree`, `SV.C03.evalQ/search`,
  `SV.RangeGo`, `SV.Agg.*`, `SV.ProxySearch.before/mergeQPRs` = `order.IsReverse()`: LIDs are walked downwards;
* `asc` of `SV.EvalTree.search`, `SV.ActiveIndex.search`, `SV.Spec.search/orderLe` = the same Bool (`search` passes
  `asc` into the `rev` slot of `evalTree`; `cons_nodes_search_c03_eq_c02` below puts C03's `rev` into C02's `asc` slot);
* `desc` of `SV.Merge.*` (`sortIds`, `sd`, `mergeQPRs`, `Cfg.desc`, `calcEnsured`, `fracBefore`) = `order.IsDesc()` = `!rev`.

Already proved where the flags meet (cited): `SV.Merge.fracSearch_discharged` and `SV.Merge.map_keyOf_sorted_dedup`
(Model/StoreSearch.lean: C02 `asc := !c.desc`), `SV.ProxyCompose.before_iff_lessFn` / `merge_ids_agree` / `page_agree`
(Model/ProxyCompose.lean: C16 `rev` vs C05 `desc = !rev`), `cons_idorder_lessFn_key_eq_spec_lt`,
`cons_idorder_proxy_before_eq_spec` (Consistency/IdOrder.lean).  The cut rule is `take limit` after de-duplication in
every model (`iterate_correct`, `SV.C03.search`, `SV.Merge.fracSearch`, `SV.Merge.mergeQPRs`, `SV.ProxySearch.mergeQPRs`);
`SV.take_orMerge_take` (Model/TopK.lean) is the only statement of the top-k rule and is shared.
What was not written down anywhere: why `rev` on LIDs is `asc` on IDs. -/

/-- reversing the direction flag swaps the arguments of `node.LessFn` -/
theorem cons_order_lessFn_not (rev : Bool) (a b : Nat) : SV.lessFn (!rev) a b = SV.lessFn rev b a := by
  cases rev <;> simp [SV.lessFn]

/-- **`rev` on LIDs = `asc` on IDs.**  The ids table is sorted descending, so a LID that `node.LessFn(rev)` puts first
holds an ID that `SV.Spec.orderLe asc` with `asc := rev` puts first (ties allowed: equal IDs may repeat). -/
theorem cons_order_lid_rev_eq_id_asc (tbl : List SV.Spec.ID) (hs : SV.Borders.SortedDesc tbl) (rev : Bool) (a b : Nat)
    (ha : 1 ≤ a ∧ a ≤ tbl.length) (hb : 1 ≤ b ∧ b ≤ tbl.length) (h : SV.lessFn rev a b = true) :
    SV.Spec.orderLe rev (SV.Borders.idAt tbl a) (SV.Borders.idAt tbl b) = true := by
  cases rev
  · have hab : a < b := by simpa [SV.lessFn] using h
    simpa [SV.Spec.orderLe] using SV.Borders.idAt_mono tbl hs a b ha.1 (by omega) hb.2
  · have hab : b < a := by simpa [SV.lessFn] using h
    simpa [SV.Spec.orderLe] using SV.Borders.idAt_mono tbl hs b a hb.1 (by omega) ha.2

example : SV.Borders.SortedDesc [(⟨9, 0⟩ : SV.Spec.ID), ⟨8, 0⟩] ∧ SV.lessFn true 2 1 = true := by decide

/-- the same in C05's vocabulary: `desc := !rev` -/
theorem cons_order_lid_rev_eq_id_not_desc (tbl : List SV.Spec.ID) (hs : SV.Borders.SortedDesc tbl) (desc : Bool) (a b : Nat)
    (ha : 1 ≤ a ∧ a ≤ tbl.length) (hb : 1 ≤ b ∧ b ≤ tbl.length) (h : SV.lessFn (!desc) a b = true) :
    SV.Spec.orderLe (!desc) (SV.Borders.idAt tbl a) (SV.Borders.idAt tbl b) = true :=
  cons_order_lid_rev_eq_id_asc tbl hs (!desc) a b ha hb h

/-! ## iterateEvalTree / IndexSearch: C03 = C02 -/

/-- the Spec's record -> C03's pair -/
def pairOfSpecId (i : SV.Spec.ID) : SV.C03.ID := (i.mid, i.rid)

theorem pairOfSpecId_inj (a b : SV.Spec.ID) (h : pairOfSpecId a = pairOfSpecId b) : a = b := by
  cases a; cases b; simp [pairOfSpecId] at h; simp [h]

theorem nodes_mapM_eq_some_map {α β} (f : α → Option β) (g : α → β) (l : List α) (h : ∀ x, x ∈ l → f x = some (g x)) :
    l.mapM f = some (l.map g) := by
  induction l with
  | nil => rfl
  | cons x xs ih =>
    simp [List.mapM_cons, h x (by simp), ih (fun y hy => h y (List.mem_cons_of_mem _ hy))]

/-- **`processor.IndexSearch`** (ids + total): `SV.C03.search` (Model/C03Search.lean) = `SV.EvalTree.search`
(Model/EvalTree.lean) with `withTotal = true`, no histogram, IDs converted with `pairOfSpecId`.

The two models take different inputs (abstract interface `ix` and token-id tree `Q` vs table+dictionary `idx` and
pattern tree `q`), so the common domain is stated as three agreement hypotheses on the parts:
`hb` the borders agree (discharged by `cons_borders_c03_eq_c02`), `he` the drained tree agrees (discharged by
`cons_nodes_evalQ_eq_evalTree` below), `hid` `GetMID/GetRID` do not panic on a hit and read
the table.  Then the loop of `iterateEvalTree` (C02: statement by statement with `lastID`; C03:
`dedupConsecutive` + `take limit`), the total and the cut agree for every order `rev` and every `limit`.
With `withTotal = false` C02 reports `total = 0` and may stop early; C03 models only the scan-all variant. -/
theorem cons_nodes_search_c03_eq_c02 (ix : SV.C03.Index) (idx : SV.EvalTree.Index) (Q : SV.C03.Q) (q : SV.Spec.Query)
    (from_ to : Nat) (rev : Bool) (limit : Nat)
    (hb : SV.C03.borders ix from_ to = SV.Borders.getLIDsBorders from_ to idx.ids)
    (he : SV.C03.evalQ ix (SV.Borders.getLIDsBorders from_ to idx.ids).1 (SV.Borders.getLIDsBorders from_ to idx.ids).2 rev Q =
      .ok (SV.EvalTree.evalTree idx rev (SV.Borders.getLIDsBorders from_ to idx.ids).1
        (SV.Borders.getLIDsBorders from_ to idx.ids).2 q))
    (hid : ∀ lid, lid ∈ SV.EvalTree.evalTree idx rev (SV.Borders.getLIDsBorders from_ to idx.ids).1
        (SV.Borders.getLIDsBorders from_ to idx.ids).2 q →
      SV.C03.idOf ix lid = some (pairOfSpecId (SV.Borders.idAt idx.ids lid))) :
    SV.C03.search ix Q from_ to rev limit 0 =
      .ok { total := (SV.EvalTree.search idx q from_ to rev limit true).total,
            ids := (SV.EvalTree.search idx q from_ to rev limit true).ids.map pairOfSpecId,
            hist := [] } := by
  unfold SV.C03.search SV.EvalTree.search
  simp only [hb, he]
  generalize SV.EvalTree.evalTree idx rev (SV.Borders.getLIDsBorders from_ to idx.ids).1
    (SV.Borders.getLIDsBorders from_ to idx.ids).2 q = lids at *
  rw [nodes_mapM_eq_some_map _ (fun lid => pairOfSpecId (SV.Borders.idAt idx.ids lid)) lids hid]
  obtain ⟨h1, h2⟩ := SV.EvalTree.iterate_correct idx.ids limit true lids
  simp only [h1, h2 rfl, if_true]
  rw [cons_nodes_dedupConsecutive_eq_dedupAdj]
  have : lids.map (fun lid => pairOfSpecId (SV.Borders.idAt idx.ids lid)) = (lids.map (SV.Borders.idAt idx.ids)).map pairOfSpecId := by
    simp [List.map_map, Function.comp_def]
  rw [this, nodes_dedupAdj_map_inj pairOfSpecId pairOfSpecId_inj, List.map_take]

/-! ## evalQ: the C03 evaluator of the tree = the C02 evaluator

`SV.C03.Q` is the tree `buildEvalTree` walks AFTER `GetTIDsByTokenExpr` resolved every leaf to token ids: a C02 leaf
(pattern) stands for the balanced OR tree (`BuildORTree` = `TreeFold(NewOr, ..)`) over the posting nodes of its tids.
`SV.C03.Q` has no `Not`/range node and no empty node, so the common domain is: no `.not` in the query and every leaf
selects at least one token (`qOfQuery` returns `none` otherwise). -/

/-- posting list of the `tid`-th token (1-based) of the C02 dictionary -/
def lidsOfTid (idx : SV.EvalTree.Index) (tid : Nat) : List Nat := ((idx.toks[tid - 1]?).map (·.lids)).getD []

/-- `GetTIDsByTokenExpr`: the (1-based) positions of the tokens `SV.EvalTree.leafTokens` selects -/
def leafTids (idx : SV.EvalTree.Index) (l : SV.Spec.Leaf) : List Nat :=
  ((idx.toks.zipIdx 1).filter fun p => p.1.field == l.field && l.valMatch p.1.val).map (·.2)

/-- `BuildORTree` over posting leaves as a `SV.C03.Q` (the default of `SV.Agg.treeFold` is never used: non-empty) -/
def orTreeQ (tids : List Nat) : Option SV.C03.Q :=
  if tids = [] then none else some (SV.Agg.treeFold SV.C03.Q.or (SV.C03.Q.leaf 0) (tids.map SV.C03.Q.leaf))

/-- representation change C02 query -> C03 tree (partial: see the section comment) -/
def qOfQuery (idx : SV.EvalTree.Index) : SV.Spec.Query → Option SV.C03.Q
  | .leaf l => orTreeQ (leafTids idx l)
  | .and a b =>
    match qOfQuery idx a, qOfQuery idx b with
    | some x, some y => some (.and x y)
    | _, _ => none
  | .or a b =>
    match qOfQuery idx a, qOfQuery idx b with
    | some x, some y => some (.or x y)
    | _, _ => none
  | .nand a b =>
    match qOfQuery idx a, qOfQuery idx b with
    | some x, some y => some (.nand x y)
    | _, _ => none
  | .not _ => none

theorem nodes_filter_map_zipIdx {α β} (p : α → Bool) (g : α → β) (F : Nat → β) :
    ∀ (xs : List α) (k : Nat), (∀ j (hj : j < xs.length), F (k + j) = g xs[j]) →
      (((xs.zipIdx k).filter (fun q => p q.1)).map (fun q => F q.2)) = (xs.filter p).map g := by
  intro xs
  induction xs with
  | nil => intro k _; rfl
  | cons x xs ih =>
    intro k h
    have h0 : F k = g x := by
      have := h 0 (by simp)
      simp only [Nat.add_zero, List.getElem_cons_zero] at this
      exact this
    have ih' := ih (k + 1) (fun j hj => by
      have := h (j + 1) (by simpa using hj)
      simpa [Nat.add_assoc, Nat.add_comm 1 j] using this)
    simp only [List.zipIdx_cons, List.filter_cons]
    by_cases hp : p x = true
    · simp only [hp, if_true, List.map_cons, h0, ih']
    · simp only [hp, Bool.false_eq_true, if_false, ih']

theorem mem_leafTids (idx : SV.EvalTree.Index) (l : SV.Spec.Leaf) (tid : Nat) (h : tid ∈ leafTids idx l) :
    1 ≤ tid ∧ tid ≤ idx.toks.length := by
  simp only [leafTids, List.mem_map, List.mem_filter] at h
  obtain ⟨p, ⟨hp, _⟩, rfl⟩ := h
  have h1 := List.le_snd_of_mem_zipIdx hp
  have h2 := List.snd_lt_add_of_mem_zipIdx hp
  omega

/-- the posting lists of the selected tokens, listed through the tids -/
theorem leafTokens_eq_leafTids (idx : SV.EvalTree.Index) (l : SV.Spec.Leaf) (g : List Nat → List Nat) :
    (SV.EvalTree.leafTokens idx l).map (fun t => g t.lids) = (leafTids idx l).map (fun tid => g (lidsOfTid idx tid)) := by
  unfold SV.EvalTree.leafTokens leafTids
  rw [List.map_map]
  exact (nodes_filter_map_zipIdx (fun t : SV.EvalTree.TokenEntry => t.field == l.field && l.valMatch t.val)
    (fun t => g t.lids) (fun tid => g (lidsOfTid idx tid)) idx.toks 1 (fun j hj => by
      simp [lidsOfTid, List.getElem?_eq_getElem hj])).symm

/-- `evalQ` of the OR tree of posting leaves = `TreeFold(NewOr)` of the drained posting nodes -/
theorem evalQ_orTree (ix : SV.C03.Index) (lo hi : Nat) (rev : Bool) (post : Nat → List Nat) (tids : List Nat)
    (hne : tids ≠ []) (hnode : ∀ tid, tid ∈ tids → ix.node tid lo hi rev = .ok (post tid)) :
    SV.C03.evalQ ix lo hi rev (SV.Agg.treeFold SV.C03.Q.or (SV.C03.Q.leaf 0) (tids.map SV.C03.Q.leaf)) =
      .ok (SV.Agg.treeFold (SV.orMerge rev) [] (tids.map post)) := by
  induction hn : tids.length using Nat.strongRecOn generalizing tids with
  | _ n ih =>
    match tids, hn, hne with
    | [t], _, _ =>
      simp only [List.map_cons, List.map_nil, SV.Agg.treeFold_single, SV.C03.evalQ]
      exact hnode t (by simp)
    | a :: b :: rest, hn, _ =>
      have e1 := SV.Agg.treeFold_split SV.C03.Q.or (SV.C03.Q.leaf 0) ((a :: b :: rest).map SV.C03.Q.leaf) (by simp)
      have e2 := SV.Agg.treeFold_split (SV.orMerge rev) [] ((a :: b :: rest).map post) (by simp)
      rw [e1, e2]
      simp only [List.length_map, ← List.map_take, ← List.map_drop]
      have ht : ((a :: b :: rest).take ((a :: b :: rest).length / 2)) ≠ [] := by
        intro e
        have := congrArg List.length e
        simp [List.length_take] at this
        omega
      have hd : ((a :: b :: rest).drop ((a :: b :: rest).length / 2)) ≠ [] := by
        intro e
        have := congrArg List.length e
        simp [List.length_drop] at this
        omega
      have i1 := ih _ (by simp [List.length_take] at *; omega) _ ht
        (fun tid h => hnode tid (List.mem_of_mem_take h)) rfl
      have i2 := ih _ (by simp [List.length_drop] at *; omega) _ hd
        (fun tid h => hnode tid (List.mem_of_mem_drop h)) rfl
      simp only [SV.C03.evalQ, i1, i2]

/-- **`buildEvalTree`, drained**: `SV.C03.evalQ` (Model/C03Search.lean) on the converted tree = `.ok` of
`SV.EvalTree.evalTree` (Model/EvalTree.lean), for every order `rev` and window `[lo, hi]`.
Hypothesis `hnode`: the C03 posting node of a dictionary tid does not fail and yields the C02 `narrow` of that
token's posting list - this is what `SV.C03.sealedNode_eq_narrow` (Proofs/C03C02.lean) proves for the sealed and
`activeNode_eq` for the active fraction.  Domain: `qOfQuery idx q = some Q` (no `.not`, no leaf without tokens). -/
theorem cons_nodes_evalQ_eq_evalTree (ix : SV.C03.Index) (idx : SV.EvalTree.Index) (lo hi : Nat) (rev : Bool)
    (hnode : ∀ tid, 1 ≤ tid → tid ≤ idx.toks.length →
      ix.node tid lo hi rev = .ok (SV.EvalTree.narrow rev lo hi (lidsOfTid idx tid)))
    (q : SV.Spec.Query) (Q : SV.C03.Q) (hq : qOfQuery idx q = some Q) :
    SV.C03.evalQ ix lo hi rev Q = .ok (SV.EvalTree.evalTree idx rev lo hi q) := by
  induction q generalizing Q with
  | leaf l =>
    simp only [qOfQuery, orTreeQ] at hq
    split at hq
    · exact absurd hq (by simp)
    · rename_i hne
      simp only [Option.some.injEq] at hq
      subst hq
      simp only [SV.EvalTree.evalTree, SV.EvalTree.evalLeaf]
      rw [cons_nodes_treeFold_evalTree_eq_agg, leafTokens_eq_leafTids idx l (SV.EvalTree.narrow rev lo hi)]
      exact evalQ_orTree ix lo hi rev (fun tid => SV.EvalTree.narrow rev lo hi (lidsOfTid idx tid)) _ hne
        (fun tid h => hnode tid (mem_leafTids idx l tid h).1 (mem_leafTids idx l tid h).2)
  | and a b iha ihb =>
    simp only [qOfQuery] at hq
    cases ha : qOfQuery idx a with
    | none => simp [ha] at hq
    | some x =>
      cases hb : qOfQuery idx b with
      | none => simp [ha, hb] at hq
      | some y =>
        simp only [ha, hb, Option.some.injEq] at hq
        subst hq
        simp only [SV.C03.evalQ, iha x ha, ihb y hb, SV.EvalTree.evalTree]
  | or a b iha ihb =>
    simp only [qOfQuery] at hq
    cases ha : qOfQuery idx a with
    | none => simp [ha] at hq
    | some x =>
      cases hb : qOfQuery idx b with
      | none => simp [ha, hb] at hq
      | some y =>
        simp only [ha, hb, Option.some.injEq] at hq
        subst hq
        simp only [SV.C03.evalQ, iha x ha, ihb y hb, SV.EvalTree.evalTree]
  | nand a b iha ihb =>
    simp only [qOfQuery] at hq
    cases ha : qOfQuery idx a with
    | none => simp [ha] at hq
    | some x =>
      cases hb : qOfQuery idx b with
      | none => simp [ha, hb] at hq
      | some y =>
        simp only [ha, hb, Option.some.injEq] at hq
        subst hq
        simp only [SV.C03.evalQ, iha x ha, ihb y hb, SV.EvalTree.evalTree]
  | not a _ => simp [qOfQuery] at hq

/-- non-vacuity: a two-token dictionary, the query `a AND NOT-free (b OR a)`-style tree converts and the hypothesis
`hnode` is satisfiable (an index whose posting node IS the C02 narrow) -/
def nodesExIdx : SV.EvalTree.Index :=
  { ids := [⟨9, 0⟩, ⟨8, 0⟩, ⟨7, 0⟩], toks := [⟨[102], [97], [1, 3]⟩, ⟨[102], [98], [2, 3]⟩] }

def nodesExIx (lo hi : Nat) (rev : Bool) : SV.C03.Index :=
  { len := 4, getMID := fun _ => none, getRID := fun _ => none, lessOrEqual := fun _ _ => none,
    node := fun tid _ _ _ => .ok (SV.EvalTree.narrow rev lo hi (lidsOfTid nodesExIdx tid)) }

example : qOfQuery nodesExIdx (.nand (.leaf (.lit [102] [.text [97]])) (.leaf (.lit [102] [.text [98]]))) =
    some (.nand (.leaf 1) (.leaf 2)) := by
  simp [qOfQuery, orTreeQ, leafTids, nodesExIdx, List.zipIdx, SV.Spec.Leaf.field, SV.Spec.Leaf.valMatch, SV.Spec.globMatch,
    SV.Agg.treeFold_single]

example (lo hi : Nat) (rev : Bool) : ∀ tid, 1 ≤ tid → tid ≤ nodesExIdx.toks.length →
    (nodesExIx lo hi rev).node tid lo hi rev = .ok (SV.EvalTree.narrow rev lo hi (lidsOfTid nodesExIdx tid)) :=
  fun _ _ _ => rfl

end SV.Consistency
