import SeqVerif.Consistency.SysHyps
/-!
# Consistency (wave 3, part B): `Quiescent (readC03 U h)` derived from C17's `run`

`SV.Sys.sys_i1_sealed`, `SV.Sys.Holds.sealed` (Proofs/SystemSealed.lean) and `c17_sealed_once` (Props/C17.lean) take
`SV.C03.Quiescent` of the C17 state read through `SV.C17Compose.viewC03` as a hypothesis ("shown on an example by evaluation,
not derived in general").  Here it is derived for EVERY history of bulks satisfying the standing hypotheses of the chain
(`DistinctBulks`, `NonEmptyDocs`, `GoodIDs`) in which every meta carries `_all_` (C10: `cons_sys_allToken_of_c10`), and for
every token table `U`.  Ingredients: C17's `run_spec` / `run_queuesInRange` / `reachable_awf` (Model/ActiveReach.lean), C02's
`getLIDs_strict` (Model/ActiveIndexProofs.lean), and wave 1's `cons_getLIDs_c17compose_eq_activeindex`,
`cons_allDocs_c17compose_eq_activeindex` (Consistency/ActiveLids.lean).
-/
namespace SV.Consistency
open SV.ActiveReach (toID)

/-- textual copy of `SV.Sys.readC03`, Proofs/SystemSealed.lean:101 -/
abbrev sysReadC03 (U : List (List (SV.Collector.Bytes × SV.C03.Tok))) (h : List (List SV.Collector.Meta)) : SV.C03.Active :=
  SV.C17Compose.viewC03 U (SV.Collector.run SV.Collector.Active.empty h).ids
    (SV.Collector.queue (SV.Collector.run SV.Collector.Active.empty h))

/-- two lists strictly sorted by the (mid, rid, lid) key: inclusion of members is the sublist relation -/
theorem sysHyps_keySorted_sublist (ids : List SV.Spec.ID) (ys xs : List Nat) (hx : SV.ActiveIndex.KeySorted ids xs)
    (hy : SV.ActiveIndex.KeySorted ids ys) (hsub : ∀ v ∈ xs, v ∈ ys) : xs.Sublist ys := by
  induction ys generalizing xs with
  | nil =>
    cases xs with
    | nil => exact List.Sublist.refl _
    | cons x xs => exact absurd (hsub x (by simp)) (by simp)
  | cons y ys ih =>
    have hy' := List.pairwise_cons.mp hy
    cases xs with
    | nil => exact List.nil_sublist _
    | cons x xs =>
      have hx' := List.pairwise_cons.mp hx
      by_cases hxy : x = y
      · subst hxy
        apply List.Sublist.cons_cons
        apply ih xs hx'.2 hy'.2
        intro v hv
        rcases List.mem_cons.mp (hsub v (List.mem_cons_of_mem _ hv)) with h | h
        · exact absurd h.symm (hx'.1 v hv).2
        · exact h
      · apply List.Sublist.cons
        apply ih (x :: xs) hx hy'.2
        have hxin : x ∈ ys := by
          rcases List.mem_cons.mp (hsub x (by simp)) with h | h
          · exact absurd h hxy
          · exact h
        have hyx := hy'.1 x hxin
        intro v hv
        rcases List.mem_cons.mp (hsub v hv) with h | h
        · subst h
          rcases List.mem_cons.mp hv with h2 | h2
          · exact absurd h2.symm hxy
          · exact absurd (SV.ActiveIndex.keyGe_antisymm ids x v (hx'.1 v h2).1 hyx.1) hxy
        · exact h

theorem sysHyps_idLE_system (x : SV.Collector.ID) (h1 : x.1 ≤ 18446744073709551615) (h2 : x.2 ≤ 18446744073709551615) :
    SV.C03.idLE x SV.Collector.systemID = true := by
  have e : SV.Collector.systemID = (18446744073709551615, 18446744073709551615) := rfl
  rw [e]
  unfold SV.C03.idLE
  split
  · simpa using h2
  · rename_i hne
    have : x.1 ≠ 18446744073709551615 := hne
    simp only [decide_eq_true_eq]
    omega

/-- **`SV.C03.Quiescent (readC03 U h)` holds after every history** of the chain's shape: the hypothesis `hq` of
`sys_i1_sealed` / `Holds.sealed` / `c17_sealed_once` can be dropped in favour of `hd hs hg` (already hypotheses there) and
"every meta carries `_all_`" (`hall`, a C10 fact).  Any token table `U`. -/
theorem cons_sys_quiescent_of_c17_run (U : List (List (SV.Collector.Bytes × SV.C03.Tok))) (h : List (List SV.Collector.Meta))
    (hd : SV.Collector.DistinctBulks h) (hs : SV.Collector.NonEmptyDocs h) (hg : SV.ActiveReach.GoodIDs h)
    (hall : AllTokEverywhere h) : SV.C03.Quiescent (sysReadC03 U h) := by
  have hawf := SV.ActiveReach.reachable_awf h hd hs hg
  have hqr := SV.ActiveReach.run_queuesInRange SV.Collector.Active.empty h SV.Collector.ainv_empty
    SV.ActiveReach.queuesInRange_empty hd hs
  have hallDocs := cons_allDocs_c17compose_eq_activeindex h hd hs hall U
  have hsys : (SV.Collector.run SV.Collector.Active.empty h).ids.getD 0 (0, 0) = SV.Collector.systemID := by
    rw [(SV.ActiveReach.run_spec SV.Collector.Active.empty h SV.Collector.ainv_empty hd hs).1]
    rfl
  show SV.C03.Quiescent (SV.C17Compose.viewC03 U (SV.Collector.run SV.Collector.Active.empty h).ids
    (SV.Collector.queue (SV.Collector.run SV.Collector.Active.empty h)))
  generalize SV.Collector.run SV.Collector.Active.empty h = a at hawf hqr hallDocs hsys ⊢
  -- notation
  have hAids : (SV.ActiveReach.toActive a).ids = a.ids.map toID := rfl
  have hlenA : (SV.ActiveReach.toActive a).ids.length = a.ids.length := by rw [hAids, List.length_map]
  have hn1 : 1 ≤ a.ids.length := by rw [← hlenA]; exact hawf.nonempty
  have hmemAll : ∀ v, v ∈ (SV.C17Compose.viewC03 U a.ids (SV.Collector.queue a)).allDocs ↔ 1 ≤ v ∧ v < a.ids.length := by
    intro v
    rw [hallDocs, SV.ActiveIndex.mem_mapping _ hawf.nonempty, hlenA]
  have hlenAll : (SV.C17Compose.viewC03 U a.ids (SV.Collector.queue a)).allDocs.length + 1 = a.ids.length := by
    rw [hallDocs, (SV.ActiveIndex.mapping_perm _).length_eq, List.length_range', hlenA]
    omega
  have hpair : ∀ l, ((a.ids.map (·.1)).getD l 0, (a.ids.map (·.2)).getD l 0) = a.ids.getD l (0, 0) := by
    intro l
    simp only [List.getD, List.getElem?_map]
    cases a.ids[l]? <;> rfl
  have hbnd : ∀ l, 1 ≤ l → l < a.ids.length →
      (a.ids.getD l (0, 0)).1 ≤ 18446744073709551615 ∧ (a.ids.getD l (0, 0)).2 ≤ 18446744073709551615 := by
    intro l h1 h2
    have := hawf.bounded l h1 (by rw [hlenA]; exact h2)
    rw [hAids, idOf_map_toID] at this
    exact ⟨this.2.1, this.1⟩
  have h0 : a.ids.getD 0 (0, 0) = SV.Collector.systemID := hsys
  refine ⟨?_, ?_, ?_, ?_, ?_, ?_, ?_⟩
  · simp [SV.C17Compose.viewC03]
  · rw [hlenAll]; simp [SV.C17Compose.viewC03]
  · rw [hallDocs]; exact SV.ActiveIndex.getLIDs_nodup _ _
  · intro l hl
    have := (hmemAll l).mp hl
    simp only [SV.C17Compose.viewC03, List.length_map]
    exact this.2
  · -- bounded
    intro x hx
    have hsysb : SV.Collector.systemID.1 < 18446744073709551616 ∧ SV.Collector.systemID.2 < 18446744073709551616 := by decide
    simp only [SV.C03.sealedIDs, List.mem_append, List.mem_cons, List.mem_map, List.mem_replicate] at hx
    rcases hx with (rfl | ⟨l, hl, rfl⟩) | ⟨-, rfl⟩
    · show ((a.ids.map (·.1)).getD 0 0, (a.ids.map (·.2)).getD 0 0).1 < _ ∧ ((a.ids.map (·.1)).getD 0 0, (a.ids.map (·.2)).getD 0 0).2 < _
      rw [hpair 0, hsys]; exact hsysb
    · have hr := (hmemAll l).mp hl
      have := hbnd l hr.1 hr.2
      show ((a.ids.map (·.1)).getD l 0, (a.ids.map (·.2)).getD l 0).1 < _ ∧ ((a.ids.map (·.1)).getD l 0, (a.ids.map (·.2)).getD l 0).2 < _
      rw [hpair l]; omega
    · exact ⟨by decide, by decide⟩
  · -- desc
    have hidle : ∀ x y : SV.Collector.ID, SV.C03.idLE x y = SV.Spec.ID.le (toID x) (toID y) := fun _ _ => rfl
    have hpad : (SV.C17Compose.viewC03 U a.ids (SV.Collector.queue a)).mids.length -
        ((SV.C17Compose.viewC03 U a.ids (SV.Collector.queue a)).allDocs.length + 1) = 0 := by
      rw [hlenAll]; simp [SV.C17Compose.viewC03]
    unfold SV.C03.DescIDs SV.C03.sealedIDs
    rw [hpad, List.replicate_zero, List.append_nil, List.pairwise_cons]
    constructor
    · intro x hx
      obtain ⟨l, hl, rfl⟩ := List.mem_map.mp hx
      have hr := (hmemAll l).mp hl
      have := hbnd l hr.1 hr.2
      show SV.C03.idLE ((a.ids.map (·.1)).getD l 0, (a.ids.map (·.2)).getD l 0) ((a.ids.map (·.1)).getD 0 0, (a.ids.map (·.2)).getD 0 0) = true
      rw [hpair l, hpair 0, hsys]
      exact sysHyps_idLE_system _ this.1 this.2
    · rw [List.pairwise_map, hallDocs]
      have hstrict := SV.ActiveIndex.getLIDs_strict (SV.ActiveReach.toActive a).ids
        (List.range' 1 ((SV.ActiveReach.toActive a).ids.length - 1))
      refine List.Pairwise.imp ?_ hstrict
      intro l l' hk
      have := SV.ActiveIndex.keyGe_idle _ l l' hk.1
      rw [hAids, idOf_map_toID, idOf_map_toID] at this
      show SV.C03.idLE ((a.ids.map (·.1)).getD l' 0, (a.ids.map (·.2)).getD l' 0) ((a.ids.map (·.1)).getD l 0, (a.ids.map (·.2)).getD l 0) = true
      rw [hpair l', hpair l, hidle]
      exact this
  · -- posts
    intro fl hfl t ht
    simp only [SV.C17Compose.viewC03, List.mem_map] at hfl
    obtain ⟨ufl, -, rfl⟩ := hfl
    obtain ⟨tv, -, htv⟩ := List.mem_filterMap.mp ht
    split at htv
    · cases htv
    · rename_i hne
      cases htv
      have hmem : ∀ v, v ∈ SV.C17Compose.getLIDs a.ids (SV.Collector.queue a tv.1) ↔ v ∈ SV.Collector.queue a tv.1 := by
        intro v
        rw [cons_getLIDs_c17compose_eq_activeindex, SV.ActiveIndex.mem_getLIDs]
      constructor
      · show SV.C17Compose.getLIDs a.ids (SV.Collector.queue a tv.1) ≠ []
        intro he
        cases hq : SV.Collector.queue a tv.1 with
        | nil => exact hne hq
        | cons v rest =>
          have : v ∈ SV.C17Compose.getLIDs a.ids (SV.Collector.queue a tv.1) := (hmem v).mpr (by rw [hq]; simp)
          rw [he] at this
          cases this
      · show (SV.C17Compose.getLIDs a.ids (SV.Collector.queue a tv.1)).Sublist
          (SV.C17Compose.viewC03 U a.ids (SV.Collector.queue a)).allDocs
        rw [hallDocs]
        apply sysHyps_keySorted_sublist (SV.ActiveReach.toActive a).ids
        · rw [cons_getLIDs_c17compose_eq_activeindex]
          exact SV.ActiveIndex.getLIDs_strict _ _
        · exact SV.ActiveIndex.getLIDs_strict _ _
        · intro v hv
          have hvq := (hmem v).mp hv
          have := hqr tv.1 v hvq
          rw [SV.ActiveIndex.mem_mapping _ hawf.nonempty, hlenA]
          exact this

/-- the hypothesis `hz` of `sys_i1_sealed` / `Holds.sealed` (no `0:0` ID among the documents) follows from `GoodIDs` (`hg`,
already a hypothesis of the active branch) and `_all_` everywhere -/
theorem cons_sys_hz_of_goodIDs (U : List (List (SV.Collector.Bytes × SV.C03.Tok))) (h : List (List SV.Collector.Meta))
    (hd : SV.Collector.DistinctBulks h) (hs : SV.Collector.NonEmptyDocs h) (hg : SV.ActiveReach.GoodIDs h)
    (hall : AllTokEverywhere h) :
    ∀ l ∈ (sysReadC03 U h).allDocs,
      (⟨(sysReadC03 U h).mids.getD l 0, (sysReadC03 U h).rids.getD l 0⟩ : SV.Spec.ID) ≠ ⟨0, 0⟩ := by
  have hawf := SV.ActiveReach.reachable_awf h hd hs hg
  have hallDocs := cons_allDocs_c17compose_eq_activeindex h hd hs hall U
  intro l hl
  have hl' : l ∈ SV.ActiveIndex.mapping (SV.ActiveReach.toActive (SV.Collector.run SV.Collector.Active.empty h)) := by
    rw [← hallDocs]; exact hl
  have hr := (SV.ActiveIndex.mem_mapping _ hawf.nonempty l).mp hl'
  have hb := (hawf.bounded l hr.1 hr.2).2.2
  have hAids : (SV.ActiveReach.toActive (SV.Collector.run SV.Collector.Active.empty h)).ids =
      (SV.Collector.run SV.Collector.Active.empty h).ids.map toID := rfl
  rw [hAids, idOf_map_toID] at hb
  intro he
  apply hb
  simp only [SV.C17Compose.viewC03, List.getD, List.getElem?_map] at he ⊢
  cases hx : (SV.Collector.run SV.Collector.Active.empty h).ids[l]? with
  | none => rfl
  | some p =>
    rw [hx] at he
    simpa [toID] using he

/-- non-vacuity of the hypotheses (the bulk of SystemCompose's own example, first bulk) -/
example : SV.Collector.DistinctBulks [[⟨(7, 1), 10, [⟨[95, 97, 108, 108, 95], []⟩, ⟨[97], [120]⟩], 1⟩]] ∧
    SV.Collector.NonEmptyDocs [[⟨(7, 1), 10, [⟨[95, 97, 108, 108, 95], []⟩, ⟨[97], [120]⟩], 1⟩]] ∧
    SV.ActiveReach.GoodIDs [[⟨(7, 1), 10, [⟨[95, 97, 108, 108, 95], []⟩, ⟨[97], [120]⟩], 1⟩]] ∧
    AllTokEverywhere [[⟨(7, 1), 10, [⟨[95, 97, 108, 108, 95], []⟩, ⟨[97], [120]⟩], 1⟩]] := by
  refine ⟨?_, ?_, ?_, ?_⟩
  · intro b hb; simp only [List.mem_singleton] at hb; subst hb; decide
  · intro b hb m hm; simp only [List.mem_singleton] at hb; subst hb
    simp only [List.mem_singleton] at hm; subst hm; decide
  · intro b hb m hm; simp only [List.mem_singleton] at hb; subst hb
    simp only [List.mem_singleton] at hm; subst hm; simp [SV.Borders.maxU64]
  · intro b hb m hm; simp only [List.mem_singleton] at hb; subst hb
    simp only [List.mem_singleton] at hm; subst hm; decide

end SV.Consistency
