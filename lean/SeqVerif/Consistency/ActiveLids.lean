import SeqVerif.Model.ActiveMerge
import SeqVerif.Model.ActiveReach
import SeqVerif.Model.C17Compose
import SeqVerif.Model.C03Frac
import SeqVerif.Model.ActiveConc
import SeqVerif.Model.RangeGo
import SeqVerif.Model.BulkIndex
import SeqVerif.Model.BulkCompose
/-!
# Consistency of the models of the active fraction's LID machinery

Go: `frac/active_lids.go` (`TokenLIDs.GetLIDs`, `queueIDs.Less`, `SeqIDCmp.compare`, `mergeSorted`), `frac/inverser.go`
(`newInverser`, `Inverse`, `Revert`), `frac/active_index.go` (`inverseLIDs`, `activeIDsIndex.GetMID/GetRID`), and the
`_all_` token convention (`proxy/bulk/indexer.go: appendMeta`, `TokenList.initSystemTokens`, `GetAllTokenLIDs`).

| Go | C02 (`SV.ActiveIndex`, Model/ActiveIndex.lean) | C17 x C03 glue (`SV.C17Compose`, Model/C17Compose.lean) | C03 (`SV.C03`, Model/C03Frac.lean) | C07 (`SV.ActiveConc`) |
|---|---|---|---|---|
| `GetLIDs` (sort + merge + drop equal) | `getLIDs` = `dedupAdj (sortBy keyGe ..)`, `mergeSorted` proved to agree | `getLIDs` = dedup then insertion sort by `lidBefore` | (input: "ordered like the all-documents list") | one unsorted list |
| `newInverser` / `Inverse` | `inverse` = `idxOf + 1` | - | `buildIndex` = the array loop | - |
| `inverseLIDs` | `inverseLIDs` | - | `inverseLIDs` | `rLeaf`: filter `l < nmids && mapping.contains l` |
| `Revert`, `GetMID` | `revert`, `idOf` | - | `activeGetMID/RID` (`Option`) | `ids[l]?` |
| `_all_` | `mapping` = all LIDs `1..n-1` | `allDocs` = `getLIDs (queue "_all_:")` | `allDocs` (given) | `Sh.all`, `none` token |
-/
namespace SV.Consistency
open SV.ActiveReach (toID)

/-! ## `queueIDs.Less` / `SeqIDCmp.compare` -/

theorem idOf_map_toID (ids : List SV.Collector.ID) (v : Nat) :
    SV.ActiveIndex.idOf (ids.map toID) v = toID (ids.getD v (0, 0)) := by
  unfold SV.ActiveIndex.idOf
  simp only [List.getD, List.getElem?_map]
  cases ids[v]? <;> rfl

/-- Go `queueIDs.Less` / `SeqIDCmp.compare` (descending by mid, rid, then LID).  `SV.C17Compose.lidBefore` (pairs,
Bool) = `SV.ActiveIndex.keyGe` (records through `compare : Int`).  Representation change: id table through
`SV.ActiveReach.toID`; both read `(0,0)` for a LID outside the table.  All inputs. -/
theorem cons_lidOrder_c17compose_eq_activeindex (ids : List SV.Collector.ID) (l l' : Nat) :
    SV.C17Compose.lidBefore ids l l' = SV.ActiveIndex.keyGe (ids.map toID) l l' := by
  rw [Bool.eq_iff_iff, SV.ActiveIndex.keyGe_iff, idOf_map_toID, idOf_map_toID]
  simp only [SV.C17Compose.lidBefore, toID, Bool.or_eq_true, Bool.and_eq_true, decide_eq_true_eq, beq_iff_eq]

/-! ## `TokenLIDs.GetLIDs` -/

theorem mem_insertBy (before : Nat → Nat → Bool) (x : Nat) (ys : List Nat) (v : Nat) :
    v ∈ SV.C17Compose.insertBy before x ys ↔ v = x ∨ v ∈ ys := by
  induction ys with
  | nil => simp [SV.C17Compose.insertBy]
  | cons y ys ih =>
    unfold SV.C17Compose.insertBy
    split
    · simp
    · simp only [List.mem_cons, ih]
      constructor
      · rintro (h | h | h)
        · exact Or.inr (Or.inl h)
        · exact Or.inl h
        · exact Or.inr (Or.inr h)
      · rintro (h | h | h)
        · exact Or.inr (Or.inl h)
        · exact Or.inl h
        · exact Or.inr (Or.inr h)

theorem insertBy_sorted (ids : List SV.Spec.ID) (before : Nat → Nat → Bool)
    (hb : ∀ a b, before a b = SV.ActiveIndex.keyGe ids a b) (x : Nat) (ys : List Nat)
    (hs : SV.ActiveIndex.KeySorted ids ys) (hx : x ∉ ys) :
    SV.ActiveIndex.KeySorted ids (SV.C17Compose.insertBy before x ys) := by
  induction ys with
  | nil => simp [SV.C17Compose.insertBy, SV.ActiveIndex.KeySorted]
  | cons y ys ih =>
    have hs' := List.pairwise_cons.mp hs
    have hxy : x ≠ y := fun e => hx (by simp [e])
    have hxys : x ∉ ys := fun e => hx (List.mem_cons_of_mem _ e)
    unfold SV.C17Compose.insertBy
    split
    next hbx =>
      rw [hb] at hbx
      refine List.pairwise_cons.mpr ⟨?_, hs⟩
      intro z hz
      rcases List.mem_cons.mp hz with rfl | hz
      · exact ⟨hbx, hxy⟩
      · exact ⟨SV.ActiveIndex.keyGe_trans ids x y z hbx (hs'.1 z hz).1, fun e => hxys (e ▸ hz)⟩
    next hbx =>
      rw [hb] at hbx
      have hyx : SV.ActiveIndex.keyGe ids y x = true := by
        rcases SV.ActiveIndex.keyGe_total ids x y with h | h
        · exact absurd h hbx
        · exact h
      refine List.pairwise_cons.mpr ⟨?_, ih hs'.2 hxys⟩
      intro z hz
      rcases (mem_insertBy before x ys z).mp hz with rfl | hz
      · exact ⟨hyx, fun e => hxy e.symm⟩
      · exact hs'.1 z hz

theorem mem_dedup (q : List Nat) (v : Nat) : v ∈ SV.C17Compose.dedup q ↔ v ∈ q := by
  induction q with
  | nil => simp [SV.C17Compose.dedup]
  | cons x xs ih =>
    unfold SV.C17Compose.dedup
    split
    next h =>
      rw [ih]
      simp only [List.mem_cons]
      constructor
      · exact Or.inr
      · rintro (rfl | h')
        · exact (ih.mp h)
        · exact h'
    next h => simp only [List.mem_cons, ih]

theorem dedup_nodup (q : List Nat) : (SV.C17Compose.dedup q).Nodup := by
  induction q with
  | nil => simp [SV.C17Compose.dedup]
  | cons x xs ih =>
    unfold SV.C17Compose.dedup
    split
    · exact ih
    next h => exact List.nodup_cons.mpr ⟨h, ih⟩

theorem foldr_insertBy_spec (ids : List SV.Spec.ID) (before : Nat → Nat → Bool)
    (hb : ∀ a b, before a b = SV.ActiveIndex.keyGe ids a b) (l : List Nat) (hn : l.Nodup) :
    SV.ActiveIndex.KeySorted ids (l.foldr (SV.C17Compose.insertBy before) []) ∧
      ∀ v, v ∈ l.foldr (SV.C17Compose.insertBy before) [] ↔ v ∈ l := by
  induction l with
  | nil => simp [SV.ActiveIndex.KeySorted]
  | cons x l ih =>
    have hn' := List.nodup_cons.mp hn
    obtain ⟨h1, h2⟩ := ih hn'.2
    simp only [List.foldr_cons]
    refine ⟨insertBy_sorted ids before hb x _ h1 (fun e => hn'.1 ((h2 x).mp e)), fun v => ?_⟩
    rw [mem_insertBy, h2, List.mem_cons]

/-- Go `TokenLIDs.GetLIDs` on a quiescent token (everything queued was sorted and merged): the token's LIDs strictly
descending by (mid, rid, lid), equal LIDs once.  `SV.C17Compose.getLIDs` (dedup + insertion sort by `lidBefore`,
Model/C17Compose.lean) = `SV.ActiveIndex.getLIDs` (`dedupAdj (sortBy keyGe ..)`, Model/ActiveIndex.lean; C02 proves
`mergeSorted` agrees with it in `mergeSorted_getLIDs`).  Representation change: id table through `toID`.  All inputs. -/
theorem cons_getLIDs_c17compose_eq_activeindex (ids : List SV.Collector.ID) (q : List Nat) :
    SV.C17Compose.getLIDs ids q = SV.ActiveIndex.getLIDs (ids.map toID) q := by
  obtain ⟨h1, h2⟩ := foldr_insertBy_spec (ids.map toID) (SV.C17Compose.lidBefore ids)
    (cons_lidOrder_c17compose_eq_activeindex ids) (SV.C17Compose.dedup q) (dedup_nodup q)
  apply SV.ActiveIndex.keySorted_ext (ids.map toID) _ _ h1 (SV.ActiveIndex.getLIDs_strict _ q)
  intro v
  rw [SV.ActiveIndex.mem_getLIDs]
  show v ∈ (SV.C17Compose.dedup q).foldr (SV.C17Compose.insertBy (SV.C17Compose.lidBefore ids)) [] ↔ _
  rw [h2, mem_dedup]

/-! ## `newInverser` / `Inverse` / `inverseLIDs` -/

theorem buildGo_length (vs : List Nat) (i : Nat) (arr : List Nat) : (SV.C03.buildGo vs i arr).length = arr.length := by
  induction vs generalizing i arr with
  | nil => rfl
  | cons v vs ih => simp [SV.C03.buildGo, ih]

theorem buildGo_getD (vs : List Nat) (hn : vs.Nodup) (i : Nat) (arr : List Nat) (v : Nat) :
    (SV.C03.buildGo vs i arr).getD v 0 =
      if v ∈ vs ∧ v < arr.length then vs.idxOf v + i + 1 else arr.getD v 0 := by
  induction vs generalizing i arr with
  | nil => simp [SV.C03.buildGo]
  | cons w vs ih =>
    have hn' := List.nodup_cons.mp hn
    simp only [SV.C03.buildGo]
    rw [ih hn'.2, List.length_set]
    by_cases hvw : v = w
    · subst hvw
      have : ¬ (v ∈ vs ∧ v < arr.length) := fun h => hn'.1 h.1
      rw [if_neg this]
      by_cases hlt : v < arr.length
      · simp [List.getD, hlt]
      · simp [List.getD, hlt]
    · have hne : ¬ w = v := fun e => hvw e.symm
      have hset : (arr.set w (i + 1)).getD v 0 = arr.getD v 0 := by
        simp [List.getD, hne]
      rw [hset]
      by_cases hm : v ∈ vs
      · simp only [hm, true_and, List.mem_cons, or_true]
        split
        · have hbeq : (w == v) = false := by simp [hne]
          simp only [List.idxOf_cons, hbeq, cond_false]; omega
        · rfl
      · simp [hm, hvw]

/-- Go `newInverser(values, size)`: `inversion[v] = i + 1`, then `Inverse(k)` = `inversion[k]` if `k < len` and
non-zero.  `SV.C03.buildIndex` (the array loop, Model/C03Frac.lean) vs `SV.ActiveIndex.inverse` (`idxOf + 1`,
Model/ActiveIndex.lean).  Representation change: array cell `0` <-> `none`.  Domain: `values` duplicate free (it is
the result of `GetLIDs`, strictly sorted; with duplicates the array keeps the *last* index, `idxOf` the first - see the
witness below). -/
theorem cons_inverse_c03_eq_activeindex (m : List Nat) (hn : m.Nodup) (size k : Nat) :
    (if k < (SV.C03.buildIndex size m).length ∧ (SV.C03.buildIndex size m).getD k 0 > 0
      then some ((SV.C03.buildIndex size m).getD k 0) else none) = SV.ActiveIndex.inverse m size k := by
  unfold SV.C03.buildIndex SV.ActiveIndex.inverse
  rw [buildGo_length, buildGo_getD m hn, List.length_replicate]
  by_cases hk : k < size
  · have : ¬ k ≥ size := by omega
    rw [if_neg this]
    by_cases hm : k ∈ m
    · simp [hm, hk]
    · simp [hm, hk, List.getD]
  · have : k ≥ size := by omega
    simp [this, hk]

example : ([3, 1, 2] : List Nat).Nodup := by decide

/-- with a repeated value the two models differ (Go: the later assignment wins, as in C03; unreachable because the
inverser is only built from a `GetLIDs` result): -/
theorem cons_inverse_c03_ne_activeindex_dup_witness :
    (SV.C03.buildIndex 2 [1, 1]).getD 1 0 = 2 ∧ SV.ActiveIndex.inverse [1, 1] 2 1 = some 1 := by decide

/-- Go `inverseLIDs(unmapped, inv, minLID, maxLID)`.  `SV.C03.inverseLIDs (buildIndex size m)` (C03) =
`SV.ActiveIndex.inverseLIDs m size` (C02); argument order differs.  Domain: `m` duplicate free (as above). -/
theorem cons_inverseLIDs_c03_eq_activeindex (m : List Nat) (hn : m.Nodup) (size lo hi : Nat) (un : List Nat) :
    SV.C03.inverseLIDs (SV.C03.buildIndex size m) un lo hi = SV.ActiveIndex.inverseLIDs m size lo hi un := by
  unfold SV.C03.inverseLIDs SV.ActiveIndex.inverseLIDs
  congr 1
  funext v
  have h := cons_inverse_c03_eq_activeindex m hn size v
  unfold SV.ActiveIndex.inverseOne
  rw [← h]
  by_cases h1 : v < (SV.C03.buildIndex size m).length ∧ (SV.C03.buildIndex size m).getD v 0 > 0
  · rw [if_pos h1]
    simp only [h1, true_and]
  · rw [if_neg h1]
    have : ¬ (v < (SV.C03.buildIndex size m).length ∧ (SV.C03.buildIndex size m).getD v 0 > 0 ∧
        lo ≤ (SV.C03.buildIndex size m).getD v 0 ∧ (SV.C03.buildIndex size m).getD v 0 ≤ hi) :=
      fun h => h1 ⟨h.1, h.2.1⟩
    rw [if_neg this]

/-- C07's reader (`rLeaf`) keeps the *arrival* LIDs that the inverser knows (`l < nmids && mapping.contains l`) instead
of translating them: that filter is exactly the domain of `SV.ActiveIndex.inverseLIDs` with the full borders
`[0, len(mapping)]`, and the translation is `idxOf + 1`. -/
theorem cons_inverseLIDs_activeconc_eq_activeindex (m : List Nat) (size : Nat) (un : List Nat) :
    SV.ActiveIndex.inverseLIDs m size 0 m.length un =
      (un.filter fun l => decide (l < size) && m.contains l).map fun l => m.idxOf l + 1 := by
  unfold SV.ActiveIndex.inverseLIDs
  induction un with
  | nil => rfl
  | cons v un ih =>
    simp only [List.filterMap_cons, List.filter_cons, ih]
    unfold SV.ActiveIndex.inverseOne SV.ActiveIndex.inverse
    by_cases hs : v < size
    · have hge : ¬ size ≤ v := by omega
      by_cases hm : v ∈ m
      · have hidx := List.idxOf_lt_length_iff.mpr hm
        have hle : m.idxOf v + 1 ≤ m.length := by omega
        simp [hs, hm, hle, hge]
      · simp [hs, hm, hge]
    · have hge : size ≤ v := by omega
      simp [hs, hge]

/-! ## `Revert` / `activeIDsIndex.GetMID`, `GetRID` -/

/-- Go `activeIDsIndex.GetMID(lid) = mids[inverser.Revert(lid)]`, `Revert(i) = values[i-1]`.  `SV.C03.activeGetMID/RID`
(`Option`: `none` = index out of range) vs `SV.ActiveIndex.idOf ids (revert mapping lid)` (total with defaults).
Representation change: C03 keeps two columns `mids`, `rids`, C02 one table of records.  They agree whenever C03
answers. -/
theorem cons_getMID_c03_eq_activeindex (a : SV.C03.Active) (ids : List SV.Spec.ID)
    (hm : a.mids = ids.map (·.mid)) (hr : a.rids = ids.map (·.rid)) (lid : Nat) :
    (∀ x, SV.C03.activeGetMID a lid = some x → x = (SV.ActiveIndex.idOf ids (SV.ActiveIndex.revert a.allDocs lid)).mid) ∧
    (∀ x, SV.C03.activeGetRID a lid = some x → x = (SV.ActiveIndex.idOf ids (SV.ActiveIndex.revert a.allDocs lid)).rid) := by
  unfold SV.C03.activeGetMID SV.C03.activeGetRID SV.ActiveIndex.idOf SV.ActiveIndex.revert
  constructor
  all_goals
    intro x h
    split at h
    · cases h
    · cases h1 : a.allDocs[lid - 1]? with
      | none => rw [h1] at h; cases h
      | some v =>
        rw [h1] at h
        simp only [Option.bind_some, hm, hr, List.getElem?_map] at h
        cases h2 : ids[v]? with
        | none => rw [h2] at h; cases h
        | some i =>
          rw [h2] at h
          simp only [Option.map_some, Option.some.injEq] at h
          simp [List.getD, h1, h2, h]

/-! ## constants -/

/-- `math.MaxUint32`: `SV.RangeGo.maxU32` = `SV.ActiveIndex.maxU32` (the initial `prev` of `mergeSorted`). -/
theorem cons_maxU32_rangego_eq_activeindex : SV.RangeGo.maxU32 = SV.ActiveIndex.maxU32 := rfl

/-! ## the `_all_` token -/

/-- Go `seq.TokenAll` with the `:` separator of `extractTokens`: the first token `proxy/bulk/indexer.go: appendMeta`
gives every meta (`SV.BulkIndex.allTok`, C10), sent through `SV.Bulk.toCollector`'s token conversion, has exactly the
bytes of the system token the store registers (`SV.Collector.allToken`, C17: `"_all_:"`). -/
theorem cons_allToken_bulkindex_eq_collector :
    SV.Collector.MetaToken.bytes ⟨SV.BulkIndex.allTok.1, SV.BulkIndex.allTok.2⟩ = SV.Collector.allToken := by decide

/-- every meta of a history carries the `_all_` token (what `SV.BulkIndex.docMetas_shape` guarantees for the ingestor's
output: `tokens = allTok :: _`) -/
def AllTokEverywhere (h : List (List SV.Collector.Meta)) : Prop :=
  ∀ b ∈ h, ∀ m ∈ b, SV.Collector.allToken ∈ m.tokens.map SV.Collector.MetaToken.bytes

theorem mem_keptRun (a : SV.Collector.Active) (h : List (List SV.Collector.Meta)) (m : SV.Collector.Meta)
    (hm : m ∈ SV.ActiveReach.keptRun a h) : ∃ b ∈ h, m ∈ b := by
  induction h generalizing a with
  | nil => simp [SV.ActiveReach.keptRun] at hm
  | cons b h ih =>
    simp only [SV.ActiveReach.keptRun, List.mem_append] at hm
    rcases hm with hm | hm
    · exact ⟨b, by simp, (List.mem_filter.mp hm).1⟩
    · obtain ⟨b', hb', hmb⟩ := ih _ hm
      exact ⟨b', List.mem_cons_of_mem _ hb', hmb⟩

/-- **the `_all_` convention across C10 / C17 / C02 / C03**: on every fraction reachable by C17's `run` from bulks
whose metas all carry `_all_` (C10's `appendMeta`), the all-documents list that the C17xC03 glue reads from the
`"_all_:"` queue (`SV.C17Compose.viewC03 ..`.allDocs`) is C02's `mapping` (which *assumes* "every document carries
`_all_`" and takes all LIDs `1 .. n-1`).  Domain: bulks with pairwise distinct ids, no nested metas (the hypotheses of
C17's `run_spec`). -/
theorem cons_allDocs_c17compose_eq_activeindex (h : List (List SV.Collector.Meta)) (hd : SV.Collector.DistinctBulks h)
    (hs : SV.Collector.NonEmptyDocs h) (hall : AllTokEverywhere h) (U : List (List (SV.Collector.Bytes × SV.C03.Tok))) :
    (SV.C17Compose.viewC03 U (SV.Collector.run SV.Collector.Active.empty h).ids
        (SV.Collector.queue (SV.Collector.run SV.Collector.Active.empty h))).allDocs =
      SV.ActiveIndex.mapping (SV.ActiveReach.toActive (SV.Collector.run SV.Collector.Active.empty h)) := by
  obtain ⟨hids, hq⟩ := SV.ActiveReach.run_spec SV.Collector.Active.empty h SV.Collector.ainv_empty hd hs
  have hK : ∀ m ∈ SV.ActiveReach.keptRun SV.Collector.Active.empty h,
      SV.Collector.allToken ∈ m.tokens.map SV.Collector.MetaToken.bytes := by
    intro m hm
    obtain ⟨b, hb, hmb⟩ := mem_keptRun _ _ m hm
    exact hall b hb m hmb
  generalize SV.ActiveReach.keptRun SV.Collector.Active.empty h = K at hids hq hK
  generalize SV.Collector.run SV.Collector.Active.empty h = a at hids hq
  show SV.C17Compose.getLIDs a.ids (SV.Collector.queue a SV.Collector.allToken) = _
  rw [cons_getLIDs_c17compose_eq_activeindex]
  unfold SV.ActiveIndex.mapping
  have hlen : a.ids.length = 1 + K.length := by rw [hids]; simp [SV.Collector.Active.empty]; omega
  apply SV.ActiveIndex.keySorted_ext _ _ _ (SV.ActiveIndex.getLIDs_strict _ _) (SV.ActiveIndex.getLIDs_strict _ _)
  intro v
  rw [SV.ActiveIndex.mem_getLIDs, SV.ActiveIndex.mem_getLIDs, hq SV.Collector.allToken]
  have h0 : SV.Collector.queue SV.Collector.Active.empty SV.Collector.allToken = [] := by decide
  have hl : (SV.Collector.toksOf K).length = K.length := by simp [SV.Collector.toksOf]
  have e : List.range' SV.Collector.Active.empty.ids.length K.length =
      List.range' 1 (SV.Collector.toksOf K).length := by rw [hl]; rfl
  rw [h0, List.nil_append, e, SV.ActiveReach.mem_postingsT, List.mem_range'_1]
  simp only [SV.ActiveReach.toActive, List.length_map, hlen, hl]
  constructor
  · rintro ⟨i, hi, rfl, -⟩; omega
  · intro hv
    refine ⟨v - 1, by omega, by omega, ?_⟩
    have hi : v - 1 < K.length := by omega
    simp only [SV.Collector.toksOf, List.getElem_map]
    exact hK _ (List.getElem_mem hi)

example : SV.Collector.DistinctBulks [[⟨(1, 1), 3, [⟨[95, 97, 108, 108, 95], []⟩], 0⟩]] ∧
    SV.Collector.NonEmptyDocs [[⟨(1, 1), 3, [⟨[95, 97, 108, 108, 95], []⟩], 0⟩]] ∧
    AllTokEverywhere [[⟨(1, 1), 3, [⟨[95, 97, 108, 108, 95], []⟩], 0⟩]] := by
  refine ⟨?_, ?_, ?_⟩
  · intro b hb; simp only [List.mem_singleton] at hb; subst hb; decide
  · intro b hb m hm; simp only [List.mem_singleton] at hb; subst hb
    simp only [List.mem_singleton] at hm; subst hm; decide
  · intro b hb m hm; simp only [List.mem_singleton] at hb; subst hb
    simp only [List.mem_singleton] at hm; subst hm; decide

end SV.Consistency
