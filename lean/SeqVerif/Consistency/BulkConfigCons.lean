import SeqVerif.Model.BulkConfig
import SeqVerif.Model.BulkMeta
import SeqVerif.Model.BulkResponse
import SeqVerif.Model.WPBytes
import SeqVerif.Model.Repetitions
import SeqVerif.Model.C03Docs
import SeqVerif.Model.MergeQPR
import SeqVerif.Model.RangeGo
import SeqVerif.Model.Async
import SeqVerif.Model.Agg
import SeqVerif.Model.Cache
import SeqVerif.Model.FracInfo
import SeqVerif.Model.Collector
/-!
# Consistency wave 2 (topic c): `IngestorConfig.setDefaults` (Model/BulkConfig.lean, C10) vs the consumers of the two
drifts, and constants that are written down in more than one model / extracted file

* Go `proxyapi/ingestor_config.go:29-42` `setDefaults` tests exactly `API.SearchTimeout == 0`, `API.ExportTimeout == 0`,
  `Bulk.MaxInflightBulks == 0`; `SV.Bulk.setDefaults` is that (re-checked on every run by `c10_x_set_defaults`).  The drifts
  come from the flags `--allowed-time-drift` (default 24h) / `--future-allowed-time-drift` (default 5m)
  (cmd/seq-db/flags.go:95-96, kingpin `Duration()`), are never validated, and reach `newBulkProcessor` unchanged
  (proxy/bulk/ingestor.go:318).  No Lean model assumes a default drift.  A NEGATIVE duration is a legal flag value, so
  the hypotheses `0 ≤ drift`, `0 ≤ fut` of `c10_time_rule` / `cons_time_*` are not guaranteed by the configuration path;
  `cons_bulkcfg_time_rule_any_sign` shows they are not needed: the rule holds for every int64 drift except
  `futureDrift = MinInt64` (and `drift = MaxInt64`, excluded in C10 too).
* Model/AggLimits.lean defines no default constants (its limits are parameters); Model/BulkConfig.lean repeats none.
* Constants: already proved elsewhere and NOT repeated here - `Borders/C03/Collector/FracInfo.maxU64`, `Merge.R`,
  `Repetitions.two64`, `Dist.two64`, `Fetch.notFound` (`cons_int64_maxU64_constants`, Int64.lean), `C03.docOffsetBits =
  Collector.docOffsetBits`, `docPosNotFound = notFound` (DocPos.lean), `RangeGo.maxU32 = ActiveIndex.maxU32`
  (ActiveLids.lean), `FracInfo.systemMID = maxU64` (FracRange.lean), `Merge.sampleLim = Agg.maxHistogramSamples`
  (MergeAggsCons.lean), `TimeRule.minI/maxI = Dist.minDur/maxDur` (TimeRule.lean).
-/
namespace SV.Consistency
open SV SV.Bulk

/-! ## the drifts: configuration -> time rule -/

/-- the drifts the bulk processor is built with (`config.Bulk` after `setDefaults`) are the configured ones, so a time
configuration assembled from the effective config is the one assembled from the flags.  Lean: `SV.Bulk.setDefaults`
(BulkConfig.lean) feeding `SV.Bulk.TimeCfg.drift / fut` (BulkMeta.lean). -/
theorem cons_bulkcfg_setDefaults_keeps_timeCfg (dS dE dI : Int) (c : ProxyCfg) (delayed : Int → Int → Int → Bool)
    (timeOf : Bytes → Option Int) (req : Int) :
    (⟨delayed, timeOf, req, (setDefaults dS dE dI c).allowedTimeDrift, (setDefaults dS dE dI c).futureAllowedTimeDrift⟩ : TimeCfg)
      = ⟨delayed, timeOf, req, c.allowedTimeDrift, c.futureAllowedTimeDrift⟩ := rfl

/-- **C10 time rule for the CONFIGURED drifts**: `c10_time_rule`'s statement, with the drifts read from the effective
configuration; hypotheses are about the configured values (zero included, see the example) -/
theorem cons_bulkcfg_time_rule_configured (dS dE dI : Int) (c : ProxyCfg) (doc : Option Int) (req : Int)
    (hd : 0 ≤ c.allowedTimeDrift ∧ c.allowedTimeDrift < TimeRule.maxI)
    (hf : 0 ≤ c.futureAllowedTimeDrift ∧ c.futureAllowedTimeDrift < TimeRule.maxI) :
    BulkTime.idTime BulkTime.documentDelayedRepaired doc req (setDefaults dS dE dI c).allowedTimeDrift
        (setDefaults dS dE dI c).futureAllowedTimeDrift
      = BulkTime.ruleTime doc req c.allowedTimeDrift c.futureAllowedTimeDrift :=
  BulkTime.idTime_repaired doc req _ _ hd hf

example : (0 : Int) ≤ (⟨0, 0, 0, 0, 0⟩ : ProxyCfg).allowedTimeDrift ∧ (⟨0, 0, 0, 0, 0⟩ : ProxyCfg).allowedTimeDrift < TimeRule.maxI := by
  decide

/-- **negative drifts** (reachable: the flags are unvalidated `Duration`s): the repaired comparison still implements
the stated rule `-fut ≤ req - doc ≤ drift` for EVERY int64 drift with `drift < MaxInt64` and `MinInt64 < fut < MaxInt64`;
`c10_time_rule` / `idTime_repaired` assume `0 ≤` only for convenience.  (With `drift + fut < 0` the window is empty and
every document gets the receive time.) -/
theorem cons_bulkcfg_time_rule_any_sign (doc : Option Int) (req drift fut : Int)
    (hd : TimeRule.minI ≤ drift ∧ drift < TimeRule.maxI) (hf : TimeRule.minI < fut ∧ fut < TimeRule.maxI) :
    BulkTime.idTime BulkTime.documentDelayedRepaired doc req drift fut = BulkTime.ruleTime doc req drift fut := by
  cases doc with
  | none => rfl
  | some t =>
    have hne : fut ≠ TimeRule.minI := by unfold TimeRule.minI at *; omega
    have key : BulkTime.documentDelayedRepaired (TimeRule.subSat req t) drift fut = true ↔
        ¬ (-fut ≤ req - t ∧ req - t ≤ drift) := by
      simp only [BulkTime.documentDelayedRepaired, TimeRule.negWrap, hne, if_false, Bool.or_eq_true, decide_eq_true_eq]
      unfold TimeRule.minI TimeRule.maxI at hd hf
      by_cases h1 : req - t < -9223372036854775808
      · have hs : TimeRule.subSat req t = -9223372036854775808 := by simp [TimeRule.subSat, TimeRule.minI, h1]
        rw [hs]; omega
      · by_cases h2 : req - t > 9223372036854775807
        · have hs : TimeRule.subSat req t = 9223372036854775807 := by
            simp [TimeRule.subSat, TimeRule.minI, TimeRule.maxI, h1, h2]
          rw [hs]; omega
        · have hs : TimeRule.subSat req t = req - t := by simp [TimeRule.subSat, TimeRule.minI, TimeRule.maxI, h1, h2]
          rw [hs]; omega
    simp only [BulkTime.idTime, BulkTime.ruleTime]
    by_cases h : BulkTime.documentDelayedRepaired (TimeRule.subSat req t) drift fut = true
    · rw [if_pos h, if_neg (key.mp h)]
    · rw [if_neg h, if_pos (by
        by_cases h' : -fut ≤ req - t ∧ req - t ≤ drift
        · exact h'
        · exact absurd (key.mpr h') h)]

/-- non-vacuity with a negative configured future drift (`--future-allowed-time-drift=-5m`) -/
example : TimeRule.minI < (-300000000000 : Int) ∧ (-300000000000 : Int) < TimeRule.maxI := by decide

/-- the one value where the hypothesis cannot be dropped: `futureDrift = MinInt64` (wrapping unary minus: `-fut` is
`MinInt64` again, so no document from the future is ever flagged, while the stated rule with the mathematical `-fut =
2^63` has an empty window and asks for the receive time) -/
theorem cons_bulkcfg_time_rule_minInt_futureDrift_witness :
    BulkTime.idTime BulkTime.documentDelayedRepaired (some 5) (-7) 10 TimeRule.minI = 5 ∧
    BulkTime.ruleTime (some 5) (-7) 10 TimeRule.minI = -7 := by decide

/-! ## bulk response items vs stored documents (BulkResponse.lean vs BulkProc / Props/C10) -/

/-- Not a duplicate: `SV.Bulk.parseItemList` / `writeItems` (BulkResponse.lean) count the items of the HTTP answer for a
given `total`; `c10_items_count_documents` (Props/C10.lean; re-proved here as `bulkcfg_parent_count` because Props.C10 is being
edited) counts the non-nested metas.  They compose: the answer written for the
number of parent metas of the stored documents `S` lists exactly `S.length` items. -/
theorem bulkcfg_parent_count (T : TimeCfg) (I : IndexCfg) (S : List Bytes)
    (hS : ∀ d, d ∈ S → d.length ≠ 0 ∧ d.length < 4294967296) :
    ((S.flatMap (metasFor T I)).filter fun m => decide (m.size ≠ 0)).length = S.length := by
  induction S with
  | nil => rfl
  | cons d ds ih =>
    obtain ⟨p, ns, h1, _, h3⟩ := SV.BulkIndex.docMetas_shape
      (BulkTime.docMID T.delayed (T.timeOf d) T.req T.drift T.fut) (I.ridOf d) I.c I.mp (I.tree d) d
    have hd := hS d (by simp)
    have hns : ns.filter (fun m => decide (m.size ≠ 0)) = [] := by
      apply List.filter_eq_nil_iff.mpr
      intro m hm
      simp [(h3 m hm).2.2.1]
    rw [List.flatMap_cons, List.filter_append, List.length_append, ih (fun x hx => hS x (by simp [hx]))]
    unfold metasFor
    rw [h1, List.filter_cons, hns]
    simp [Nat.mod_eq_of_lt hd.2, hd.1]
    omega

theorem cons_bulkcfg_response_items_eq_documents (T : TimeCfg) (I : IndexCfg) (S : List Bytes)
    (hS : ∀ d, d ∈ S → d.length ≠ 0 ∧ d.length < 4294967296) :
    parseItemList (writeItems ((S.flatMap (metasFor T I)).filter fun m => decide (m.size ≠ 0)).length ++ respTail) = some S.length := by
  rw [bulkcfg_parent_count T I S hS]
  exact parseItemList_response S.length

/-! ## constants repeated in several models (one theorem per constant)

Removed (no Consistency module may import `SeqVerif.Extracted.*`, regenerated by every check run): the model-vs-extracted
theorems `cons_bulkcfg_setDefaults_extracted`, `cons_bulkcfg_docOffsetBits_eq` (model halves are
`cons_docPos_docOffsetBits_eq`, DocPos.lean), `cons_bulkcfg_idsPerBlock_eq`, `cons_bulkcfg_docPosNotFound_eq` (model half:
`cons_docPos_notFound_eq`), `cons_bulkcfg_maxHistogramSamples_eq` (model half: `cons_mergeaggs_sampleLim_eq_agg_maxHistogramSamples`),
`cons_bulkcfg_systemMID_eq` (model half: `cons_fracrange_maxU64_eq`), `cons_bulkcfg_cache_constants_eq`,
`cons_bulkcfg_blockHeader_eq` (only WPBytes has model constants for the header) - covered by the `cxx_x_*` obligations in
Props (c01_x_*, c03_x_*, c04_x_*, c06_x_*, c10_x_set_defaults, c14_x_*, c17_x_*, c18_x_*), each of which ties its own
extracted constant to the model constant. -/

/-- `seq.maxDocOffset`: the literal 1073741823 of `C03.packDocPos` (C03Codec.lean) is `2^docOffsetBits - 1` for both
model copies of `docOffsetBits` (C03Codec, Collector) -/
theorem cons_bulkcfg_maxDocOffset_eq :
    2 ^ C03.docOffsetBits - 1 = 1073741823 ∧ 2 ^ Collector.docOffsetBits - 1 = 1073741823 ∧
    C03.packDocPos 0 1073741823 ≠ none ∧ C03.packDocPos 0 1073741824 = none := by
  decide

/-- 2^64 once more: `WPath.two64` (WPBytes) and `C03.W64` (C03Codec) join the chain of `cons_int64_maxU64_constants` -/
theorem cons_bulkcfg_two64_eq :
    WPath.two64 = Merge.R ∧ C03.W64 = Merge.R ∧ Repetitions.two64 = WPath.two64 ∧ Collector.maxU64 + 1 = WPath.two64 := by
  decide

/-- 2^32 / MaxUint32: `Chunks.W`, `Chunks.marker` (seed), `RangeGo.maxU32`, and the literal of `BulkIndex.docMetas`
(`uint32(len(doc))`) -/
theorem cons_bulkcfg_two32_eq (mid rid : Nat) (t : SV.BulkIndex.Toks) (d : Bytes) :
    Chunks.marker = RangeGo.maxU32 ∧ Chunks.W = RangeGo.maxU32 + 1 ∧
    (SV.BulkIndex.docMetas mid rid [t] d).map (·.size) = [d.length % Chunks.W] := by
  refine ⟨by decide, by decide, rfl⟩

/-- `math.MaxInt64`: `Async.maxInt` (Nat) = `TimeRule.maxI` (Int); `Agg.maxInt64` is deliberately 2^63 =
`float64(math.MaxInt64)` (one more than `maxI`), `Agg.minInt64 = TimeRule.minI` -/
theorem cons_bulkcfg_maxInt64_eq :
    (Async.maxInt : Int) = TimeRule.maxI ∧ Agg.maxInt64 = TimeRule.maxI + 1 ∧ Agg.minInt64 = TimeRule.minI := by decide

end SV.Consistency
