import SeqVerif.Base.Search
import SeqVerif.Spec.Store
import SeqVerif.Model.Pattern
import SeqVerif.Model.C03Tokens
/-!
# Consistency: `sort.Search` / `util.BinSearchInRange` and the code that narrows with them

Inventory (all of Model/, Proofs/, Spec/): the Go loop of `sort.Search` is written exactly once, `SV.searchGo`
(Base/Search.lean).  Every model that needs a binary search calls it (Borders, PruningBorders, RangeGo, C03Lids,
C03Tokens, C03Docs, C03Search, FetchIDs, Pattern*, SearchDocs) - those are shared definitions, not duplicates; no
file contains a second hand-written bisection loop (`grep "/ 2"` finds only `treeFold` splits and codecs).
`Model/Bitmask.lean` and `Model/Kmp.lean` contain no binary search.

What IS written more than once:

* `util.BinSearchInRange`: `SV.binSearchInRange lo hi` (Base/Search.lean, inclusive upper end) and
  `SV.Pattern.binSearch first lastP1` (Model/Pattern.lean, exclusive upper end);
* Go's `<` on strings / `bytes.Compare`: `SV.Spec.bytesLt` (Spec/Store.lean), `SV.Pattern.bcmp` (Model/Pattern.lean),
  `SV.C03.lexLT` (Model/C03Tokens.lean); `cut`: `SV.Pattern.cut`, `SV.C03.cut`;
* `token.Table.SelectEntries` (two `sort.Search` calls): `SV.Pattern.selectEntries` (C13) and `SV.C03.selectEntries` (C03).
-/
namespace SV.Consistency

/-! ## util.BinSearchInRange -/

/-- `util.BinSearchInRange(from, to, fn)`: `SV.Pattern.binSearch first lastP1 f` (Model/Pattern.lean) =
`SV.binSearchInRange first hi f` (Base/Search.lean) under the representation change `lastP1 = hi + 1`
(exclusive vs inclusive upper end); all inputs. -/
theorem cons_binsearch_pattern_binSearch_eq_base (first hi : Nat) (f : Nat → Bool) :
    SV.Pattern.binSearch first (hi + 1) f = SV.binSearchInRange first hi f := rfl

/-- the same with the conversion written the other way (`hi = lastP1 - 1` in `Nat`).  Go's `to` is an `int`, so the
empty provider `first = lastP1 = 0` would give `to = -1`; truncated subtraction cannot express that, hence the
hypothesis (both token providers start TIDs at 1, so it always holds there). -/
theorem cons_binsearch_pattern_binSearch_eq_base_dom (first lastP1 : Nat) (f : Nat → Bool) (h : 1 ≤ first ∨ 1 ≤ lastP1) :
    SV.Pattern.binSearch first lastP1 f = SV.binSearchInRange first (lastP1 - 1) f := by
  unfold SV.Pattern.binSearch SV.binSearchInRange
  have e : lastP1 - 1 + 1 - first = lastP1 - first := by omega
  rw [e]

example : (1 : Nat) ≤ 1 ∨ 1 ≤ 3 := by decide

/-- outside that domain the two differ only through `0 - 1 = 0` in `Nat` (not a disagreement about Go: Go's range
`[0, -1]` is empty, which is what `SV.Pattern.binSearch 0 0` says) -/
theorem cons_binsearch_pattern_binSearch_nat_truncation_boundary :
    SV.Pattern.binSearch 0 0 (fun _ => false) = 0 ∧ SV.binSearchInRange 0 (0 - 1) (fun _ => false) = 1 := by
  constructor
  · simp [SV.Pattern.binSearch, SV.searchGo]
  · simp [SV.binSearchInRange, SV.searchGo]

/-! ## Go's string order, three times -/

/-- Go's `a < b` on strings: `SV.C03.lexLT` (Model/C03Tokens.lean) = `SV.Spec.bytesLt` (Spec/Store.lean); all inputs
(both are `List Nat`, no representation change). -/
theorem cons_binsearch_lexLT_eq_bytesLt (a b : List Nat) : SV.C03.lexLT a b = SV.Spec.bytesLt a b := by
  induction a generalizing b with
  | nil => cases b <;> simp [SV.C03.lexLT, SV.Spec.bytesLt]
  | cons x xs ih =>
    cases b with
    | nil => simp [SV.C03.lexLT, SV.Spec.bytesLt]
    | cons y ys => simp only [SV.C03.lexLT, SV.Spec.bytesLt, ih]

theorem cons_binsearch_lexLE_eq_bytesLe (a b : List Nat) : SV.C03.lexLE a b = SV.Spec.bytesLe a b := by
  simp [SV.C03.lexLE, SV.Spec.bytesLe, cons_binsearch_lexLT_eq_bytesLt]

/-- `bytes.Compare(a, b) < 0`: `SV.Pattern.bcmp a b == .lt` (Model/Pattern.lean) = `SV.C03.lexLT a b`; all inputs. -/
theorem cons_binsearch_bcmp_lt_eq_lexLT (a b : List Nat) : (SV.Pattern.bcmp a b == .lt) = SV.C03.lexLT a b := by
  induction a generalizing b with
  | nil => cases b <;> simp [SV.Pattern.bcmp, SV.C03.lexLT]
  | cons x xs ih =>
    cases b with
    | nil => simp [SV.Pattern.bcmp, SV.C03.lexLT]
    | cons y ys =>
      simp only [SV.Pattern.bcmp, SV.C03.lexLT]
      by_cases h1 : x < y
      · simp [h1]
      · by_cases h2 : y < x
        · simp [h1, h2]
        · simp [h1, h2, ih]

/-- `bytes.Compare(a, b) > 0`: `SV.Pattern.bcmp a b == .gt` = `SV.C03.lexLT b a`; all inputs. -/
theorem cons_binsearch_bcmp_gt_eq_lexLT (a b : List Nat) : (SV.Pattern.bcmp a b == .gt) = SV.C03.lexLT b a := by
  induction a generalizing b with
  | nil => cases b <;> simp [SV.Pattern.bcmp, SV.C03.lexLT]
  | cons x xs ih =>
    cases b with
    | nil => simp [SV.Pattern.bcmp, SV.C03.lexLT]
    | cons y ys =>
      simp only [SV.Pattern.bcmp, SV.C03.lexLT]
      by_cases h1 : x < y
      · have : ¬ y < x := by omega
        simp [h1, this]
      · by_cases h2 : y < x
        · simp [h1, h2]
        · simp [h1, h2, ih]

/-- `a <= b` on strings: `SV.Pattern.bcmp a b != .gt` = `SV.C03.lexLE a b`; all inputs. -/
theorem cons_binsearch_bcmp_le_eq_lexLE (a b : List Nat) : (SV.Pattern.bcmp a b != .gt) = SV.C03.lexLE a b := by
  have := cons_binsearch_bcmp_gt_eq_lexLT a b
  simp only [bne, SV.C03.lexLE, this]

/-- the C13 order predicates in terms of the Spec's order -/
theorem cons_binsearch_bLt_iff_bytesLt (a b : List Nat) : SV.Pattern.bcmp a b = .lt ↔ SV.Spec.bytesLt a b = true := by
  rw [← cons_binsearch_lexLT_eq_bytesLt, ← cons_binsearch_bcmp_lt_eq_lexLT]; simp

theorem cons_binsearch_bLe_iff_bytesLe (a b : List Nat) : SV.Pattern.bcmp a b ≠ .gt ↔ SV.Spec.bytesLe a b = true := by
  rw [← cons_binsearch_lexLE_eq_bytesLe, ← cons_binsearch_bcmp_le_eq_lexLE]; simp

/-- `cut(s, l) = s[:min(len(s), l)]` (frac/token/table.go, pattern/pattern.go): the two models are the same function -/
theorem cons_binsearch_cut_pattern_eq_c03 (s : List Nat) (l : Nat) : SV.Pattern.cut s l = SV.C03.cut s l := rfl

/-! ## token.Table.SelectEntries -/

/-- **`token.Table.SelectEntries`** on one field (`minVal`, the entries' `MaxVal`s) -> the slice bounds `(l, r)`:
`SV.Pattern.selectEntries` (Model/Pattern.lean, C13, written with `bcmp`) = `SV.C03.selectEntries`
(Model/C03Tokens.lean, C03, written with `lexLT`/`lexLE`); no representation change, ALL inputs (including the empty
entry list, where both use `maxVals.length - 1 = 0` for Go's `sort.Search(-1, ..) = 0`). -/
theorem cons_binsearch_selectEntries_pattern_eq_c03 (hint minVal : List Nat) (maxVals : List (List Nat)) :
    SV.Pattern.selectEntries hint minVal maxVals = SV.C03.selectEntries hint minVal maxVals := by
  unfold SV.Pattern.selectEntries SV.C03.selectEntries
  have e1 : (fun i => SV.Pattern.bcmp hint (SV.Pattern.cut (maxVals.getD i []) hint.length) == .lt) =
      (fun i => SV.C03.lexLT hint (SV.C03.cut (maxVals.getD i []) hint.length)) := by
    funext i; exact cons_binsearch_bcmp_lt_eq_lexLT _ _
  have e2 : (fun i => SV.Pattern.bcmp hint (SV.Pattern.cut (maxVals.getD i []) hint.length) != .gt) =
      (fun i => SV.C03.lexLE hint (SV.C03.cut (maxVals.getD i []) hint.length)) := by
    funext i; exact cons_binsearch_bcmp_le_eq_lexLE _ _
  have e3 : (SV.Pattern.bcmp hint (SV.Pattern.cut minVal hint.length) == .lt) =
      SV.C03.lexLT hint (SV.C03.cut minVal hint.length) := cons_binsearch_bcmp_lt_eq_lexLT _ _
  simp only [e1, e2, e3]

end SV.Consistency
