import SeqVerif.Model.MergeAggs
import SeqVerif.Model.AggOut
/-!
# Consistency (wave 2): the `Aggs` part of `seq.MergeQPRs`  (C05 `SV.Merge.mergeAggs`  vs  C06's merge of partial results)

Inventory.
* `SV.Merge.mergeAggs / mergeAggsStep / zipMerge` (Model/MergeAggs.lean, C05) is the ONLY model of the loop
  `for i := range qpr.Aggs { dst.Aggs[i].Merge(qpr.Aggs[i]) }` with the nil/non-nil slice rule.  It does not redefine the
  containers: it calls C06's `SV.Agg.AS.merge` / `SC.merge` (shared definitions) and its own theorems
  (`tree_bin_sums`, `trees_agree`) are instances of C06's `SV.Agg.ATree.rep`.
* C06 folds partial results as a merge tree: `SV.Agg.MTree.eval (AS.merge ..)` = `SV.Agg.evalAS` (Model/AggOut.lean),
  `MTree.eval (mergeLeaf ..)` (Model/AggMerge.lean, AggE2E.lean).  So the pair to tie is
  "column `i` of `mergeAggs`"  vs  "`evalAS` of a tree over the same partial results" - done below.
* `SV.Merge.mergeQPRs` (C05), `SV.Async.fetchFoldWith` (C19), `SV.ProxyAsync.proxyFetch` (C19), `SV.ProxySearch.mergeQPRs`
  (C16) work on `SV.Merge.QPR` / `SV.ProxySearch.QPR`, which have NO `Aggs` field: Model/MergeAggs.lean does not define a
  combined merge, so there is nothing whose ids/total/hist could change (no theorem possible, none needed).
  Model/AggCodec.lean converts ONE aggregation at a time (`AS`), it has no slice and therefore no nil-vs-empty rule.
  What the callers do with the slice (`dst.Aggs` nil in `FetchSearchResult`, pre-allocated in `Searcher.SearchDocs`,
  `Ingestor.Search`, `FetchAsyncSearchResult`, read from /repo) is stated here in terms of `mergeAggs`.
* constant `maxHistogramSamples = 8096`: `SV.Merge.sampleLim` and `SV.Agg.maxHistogramSamples`.
-/
namespace SV.Consistency
open SV SV.Agg

/-- `maxHistogramSamples` (seq/qpr.go): C05's `sampleLim` = C06's `maxHistogramSamples` -/
theorem cons_mergeaggs_sampleLim_eq_agg_maxHistogramSamples : SV.Merge.sampleLim = SV.Agg.maxHistogramSamples := rfl

/-! ## the loop as a fold, column by column -/

theorem mergeaggs_zipMerge_length (d qa : List AS) (h : qa.length ≤ d.length) :
    (SV.Merge.zipMerge d qa).length = d.length := by
  induction d generalizing qa with
  | nil => cases qa <;> simp [SV.Merge.zipMerge] at h ⊢
  | cons x xs ih =>
    cases qa with
    | nil => simp [SV.Merge.zipMerge]
    | cons a as => simp [SV.Merge.zipMerge, ih as (by simpa using h)]

/-- entry `i` of `zipMerge`: merged when the partial result has an `i`-th aggregation, untouched otherwise -/
theorem mergeaggs_zipMerge_getD (d qa : List AS) (i : Nat) (h : qa.length ≤ d.length) :
    (SV.Merge.zipMerge d qa).getD i AS.empty =
      if i < qa.length then AS.merge SV.Merge.sampleLim SV.Merge.pick0 (d.getD i AS.empty) (qa.getD i AS.empty)
      else d.getD i AS.empty := by
  induction d generalizing qa i with
  | nil => cases qa <;> simp [SV.Merge.zipMerge] at h ⊢
  | cons x xs ih =>
    cases qa with
    | nil => simp [SV.Merge.zipMerge]
    | cons a as =>
      cases i with
      | zero => simp [SV.Merge.zipMerge]
      | succ j =>
        have := ih as j (by simpa using h)
        simpa [SV.Merge.zipMerge] using this

/-- **`MergeQPRs`' aggregation loop with a pre-allocated `dst.Aggs`** (`Searcher.SearchDocs`, `Ingestor.Search`,
`FetchAsyncSearchResult`: `Aggs: make([]AggregatableSamples, n)`): when no partial result has more aggregations than
`dst` (otherwise Go panics with index out of range, `mergeAggs = none`), `SV.Merge.mergeAggs` is the left fold of
`zipMerge`; all inputs in that domain. -/
theorem cons_mergeaggs_eq_foldl_zipMerge (d : List AS) (qs : List (List AS)) (h : ∀ qa, qa ∈ qs → qa.length ≤ d.length) :
    SV.Merge.mergeAggs (some d) (qs.map some) = some (some (qs.foldl SV.Merge.zipMerge d)) := by
  induction qs generalizing d with
  | nil => rfl
  | cons qa qs ih =>
    have h1 : qa.length ≤ d.length := h qa (by simp)
    simp only [List.map_cons, SV.Merge.mergeAggs, SV.Merge.mergeAggsStep, h1, if_true, List.foldl_cons]
    exact ih _ (fun q hq => by rw [mergeaggs_zipMerge_length d qa h1]; exact h q (List.mem_cons_of_mem _ hq))

example : ∀ qa, qa ∈ [[AS.empty], [AS.empty]] → qa.length ≤ [AS.empty].length := by
  intro qa h; simp at h; subst h; simp

/-- column `i` of the fold: the `i`-th aggregation of the answer is the left fold of `AggregatableSamples.Merge` over
the `i`-th aggregations of the partial results (same length everywhere - one per `AggQ`) -/
theorem cons_mergeaggs_column_eq_foldl_merge (d : List AS) (qs : List (List AS)) (i : Nat) (hi : i < d.length)
    (h : ∀ qa, qa ∈ qs → qa.length = d.length) :
    (qs.foldl SV.Merge.zipMerge d).getD i AS.empty =
      (qs.map fun qa => qa.getD i AS.empty).foldl (AS.merge SV.Merge.sampleLim SV.Merge.pick0) (d.getD i AS.empty) := by
  induction qs generalizing d with
  | nil => rfl
  | cons qa qs ih =>
    have h1 : qa.length = d.length := h qa (by simp)
    have hl := mergeaggs_zipMerge_length d qa (by omega)
    simp only [List.foldl_cons, List.map_cons]
    rw [ih (SV.Merge.zipMerge d qa) (by omega) (fun q hq => by rw [hl]; exact h q (List.mem_cons_of_mem _ hq)),
      mergeaggs_zipMerge_getD d qa i (by omega)]
    simp [show i < qa.length by omega]

/-! ## a left fold is one of C06's merge trees -/

/-- the left-nested merge tree over `a, x1, x2, ...` -/
def mergeaggsLeftComb {α : Type} : MTree α → List α → MTree α
  | t, [] => t
  | t, x :: xs => mergeaggsLeftComb (.node t (.leaf x)) xs

theorem mergeaggs_leftComb_eval {α : Type} (op : α → α → α) (t : MTree α) (xs : List α) :
    (mergeaggsLeftComb t xs).eval op = xs.foldl op (t.eval op) := by
  induction xs generalizing t with
  | nil => rfl
  | cons x xs ih => simp [mergeaggsLeftComb, ih, MTree.eval]

theorem mergeaggs_leftComb_leaves {α : Type} (t : MTree α) (xs : List α) :
    (mergeaggsLeftComb t xs).leaves = t.leaves ++ xs := by
  induction xs generalizing t with
  | nil => simp [mergeaggsLeftComb]
  | cons x xs ih => simp [mergeaggsLeftComb, ih, MTree.leaves]

/-- **C05's fold = C06's merge of the same list**: the `i`-th aggregation `MergeQPRs` leaves in `dst` is
`SV.Agg.evalAS` (Model/AggOut.lean: the merge tree all C06 theorems are about) of the left-nested tree whose leaves are
`dst.Aggs[i]` followed by the partial results' `i`-th aggregations, with `lim = maxHistogramSamples` -/
theorem cons_mergeaggs_column_eq_agg_evalAS (d : List AS) (qs : List (List AS)) (i : Nat) (hi : i < d.length)
    (h : ∀ qa, qa ∈ qs → qa.length = d.length) :
    (qs.foldl SV.Merge.zipMerge d).getD i AS.empty =
      evalAS SV.Agg.maxHistogramSamples SV.Merge.pick0
        (mergeaggsLeftComb (.leaf (d.getD i AS.empty)) (qs.map fun qa => qa.getD i AS.empty)) := by
  rw [cons_mergeaggs_column_eq_foldl_merge d qs i hi h]
  unfold evalAS
  rw [mergeaggs_leftComb_eval]
  rfl

example : (0 : Nat) < [AS.empty].length ∧ ∀ qa, qa ∈ [[AS.empty]] → qa.length = [AS.empty].length := by
  constructor
  · simp
  · intro qa h; simp at h; subst h; rfl

/-- **any bracketing**: every other merge tree over the same partial results (fractions per iteration, shards, the
files of an asynchronous search, in any order) has in every bin the same `Total`, the same presence, and the same
`NotExists` as C05's left fold (`SV.Agg.evalAS_counters` on both trees; values/sums: `SV.Merge.trees_agree`) -/
theorem cons_mergeaggs_any_bracketing_counters (d : List AS) (qs : List (List AS)) (i : Nat) (hi : i < d.length)
    (h : ∀ qa, qa ∈ qs → qa.length = d.length) (t : MTree AS)
    (hp : t.leaves.Perm (d.getD i AS.empty :: qs.map fun qa => qa.getD i AS.empty))
    (hn : ∀ l, l ∈ t.leaves → KeysNodup l.bins) (k : Bin) :
    ototal (((qs.foldl SV.Merge.zipMerge d).getD i AS.empty).get k) =
        ototal ((evalAS SV.Agg.maxHistogramSamples SV.Merge.pick0 t).get k) ∧
    (((qs.foldl SV.Merge.zipMerge d).getD i AS.empty).get k).isSome =
        ((evalAS SV.Agg.maxHistogramSamples SV.Merge.pick0 t).get k).isSome ∧
    ((qs.foldl SV.Merge.zipMerge d).getD i AS.empty).notExists =
        (evalAS SV.Agg.maxHistogramSamples SV.Merge.pick0 t).notExists := by
  rw [cons_mergeaggs_column_eq_agg_evalAS d qs i hi h]
  have hl : (mergeaggsLeftComb (MTree.leaf (d.getD i AS.empty)) (qs.map fun qa => qa.getD i AS.empty)).leaves =
      d.getD i AS.empty :: qs.map fun qa => qa.getD i AS.empty := by
    rw [mergeaggs_leftComb_leaves]; rfl
  have c1 := evalAS_counters SV.Agg.maxHistogramSamples SV.Merge.pick0 _
    (fun l hl' => hn l (hp.mem_iff.mpr (by rw [hl] at hl'; exact hl')))
  have c2 := evalAS_counters SV.Agg.maxHistogramSamples SV.Merge.pick0 t hn
  rw [hl] at c1
  refine ⟨?_, ?_, ?_⟩
  · rw [(c1.2.2 k).1, (c2.2.2 k).1]
    exact (List.Perm.sum_nat (List.Perm.map _ hp)).symm
  · rw [(c1.2.2 k).2, (c2.2.2 k).2]
    exact (List.Perm.any_eq hp).symm
  · rw [c1.2.1, c2.2.1]
    exact (List.Perm.sum_nat (List.Perm.map _ hp)).symm

/-! ## nil vs allocated `Aggs` -/

/-- `mergeAggs` is itself a fold of one-element merges: C19's `FetchSearchResult` (`MergeQPRs(&qpr, {file}, ..)` once
per file) leaves the same `Aggs` as ONE `MergeQPRs` over all files from the same `dst`; all inputs, panics included -/
theorem cons_mergeaggs_fetchfold_eq_single_merge (dst : Option (List AS)) (qs : List (Option (List AS))) :
    qs.foldl (fun acc q => acc.bind fun d => SV.Merge.mergeAggs d [q]) (some dst) = SV.Merge.mergeAggs dst qs := by
  have one : ∀ (d : Option (List AS)) (q : Option (List AS)), SV.Merge.mergeAggs d [q] = SV.Merge.mergeAggsStep d q := by
    intro d q
    simp only [SV.Merge.mergeAggs]
    cases SV.Merge.mergeAggsStep d q <;> rfl
  have stuck : ∀ (l : List (Option (List AS))),
      l.foldl (fun acc q => acc.bind fun d => SV.Merge.mergeAggs d [q]) none = none := by
    intro l
    induction l with
    | nil => rfl
    | cons _ _ ih2 => simpa using ih2
  induction qs generalizing dst with
  | nil => rfl
  | cons q qs ih =>
    rw [List.foldl_cons, Option.bind_some, one]
    have e : SV.Merge.mergeAggs dst (q :: qs) =
        match SV.Merge.mergeAggsStep dst q with
        | none => none
        | some d => SV.Merge.mergeAggs d qs := rfl
    rw [e]
    cases SV.Merge.mergeAggsStep dst q with
    | none => exact stuck qs
    | some d => exact ih d

/-- a nil `dst.Aggs` (`seq.QPR{}` of `FetchSearchResult`, a store's first partial result) behaves from the first
non-nil partial result on like a `dst` pre-allocated to that result's length -/
theorem cons_mergeaggs_nil_dst_eq_prealloc (qa : List AS) (qs : List (Option (List AS))) :
    SV.Merge.mergeAggs none (some qa :: qs) =
      SV.Merge.mergeAggs (some (List.replicate qa.length AS.empty)) (some qa :: qs) := by
  have e : qa.map (fun _ => AS.empty) = List.replicate qa.length AS.empty := by
    induction qa with
    | nil => rfl
    | cons a as ih => simp [List.replicate_succ, ih]
  simp [SV.Merge.mergeAggs, SV.Merge.mergeAggsStep, e]

/-- nil partial results (`qpr.Aggs == nil`: a search without aggregations) are skipped -/
theorem cons_mergeaggs_nil_partials_skipped (dst : Option (List AS)) (n : Nat) :
    SV.Merge.mergeAggs dst (List.replicate n none) = some dst := by
  induction n with
  | zero => rfl
  | succ n ih => simpa [List.replicate_succ, SV.Merge.mergeAggs, SV.Merge.mergeAggsStep] using ih

/-- the two conventions the callers use differ exactly when nothing (or only nil) is merged: `FetchSearchResult`
(C19, nil `dst`) returns nil `Aggs`, the proxy's `FetchAsyncSearchResult` / `Search` (pre-allocated `dst`) returns an
allocated slice of empty aggregations.  Both are what Go does (fracmanager/async_searcher.go:385 `qpr := seq.QPR{}`,
proxy/search/async.go:153 `Aggs: make(.., aggsCount)`); `qpr.Aggregate` ranges over the slice, so nil = no results. -/
theorem cons_mergeaggs_nil_ne_prealloc_when_nothing_merged_witness :
    SV.Merge.mergeAggs none [] = some none ∧
    SV.Merge.mergeAggs (some (List.replicate 1 AS.empty)) [] = some (some [AS.empty]) ∧
    SV.Merge.mergeAggs none [none] ≠ SV.Merge.mergeAggs (some [AS.empty]) [none] := by
  refine ⟨rfl, rfl, ?_⟩
  simp [SV.Merge.mergeAggs, SV.Merge.mergeAggsStep]

/-- the one panic of the loop: a partial result with more aggregations than `dst` has (`dst.Aggs[i]` out of range);
e.g. an allocated-but-empty `dst` (no `AggQ`) meeting a result that carries one -/
theorem cons_mergeaggs_index_out_of_range_witness :
    SV.Merge.mergeAggs (some []) [some [AS.empty]] = none ∧ SV.Merge.mergeAggs none [some [AS.empty]] ≠ none := by
  constructor
  · rfl
  · simp [SV.Merge.mergeAggs, SV.Merge.mergeAggsStep]

end SV.Consistency
