import SeqVerif.Consistency.Tokenizer
import SeqVerif.Model.SeqQLLexerLemmas
/-!
# Consistency wave 2 (topic a): rune classes of the SeqQL lexer vs the classes of the term builders / tokenizers

What changed since wave 1 (commits fbc206e, 45406d4): Model/SeqQLLexer.lean only gained `DecidableEq` on `QRn`;
SeqQLLexerLemmas.lean gained the closing-quote lemmas; Model/Tokenizer.lean gained `convertLoop` / `convertTypes`
(`convertMappingWithMultipleTypes`, no second model anywhere) and `DecidableEq` on `MType`; the "rune classes" of that
commit are *extracted facts* (`SV.Extracted.C12.seqqlWordRuneConds`, `legacyWordRuneConds`, `tokenRuneExpr`).

NOT duplicates: the lexer (`spanToken`, `lexNext`) uses `SV.Parser.isTokenRune` and `Rn.space` - the very definitions
`isComposite` (SeqQLFilter.lean) and `skipSpaces` (LegacyParser.lean) use; there is no second token-rune predicate.
What IS written more than once and is related here: the wildcard rune (`wildcardRn` record in the lexer vs `wildcardCp` /
the `nameBytes` pattern in SeqQLFilter), the literal-asterisk rune (`starRn` vs the `cp = 42` tests of `isWordRune` /
`isTextRn`), the space-skipping loops (`lexSkipSpaces` vs `skipSpaces`), and the class inclusion token rune ⊂ word rune.
(The comparison of the conditions extracted twice - Extracted/C11 vs Extracted/C12 - was removed: see the end of the file.)
-/
namespace SV.Consistency
open SV.Parser SV.Tok

/-! ## the wildcard rune and the literal asterisk -/

/-- Go: `wildcardRune = ''` (parser/seqql.go).  Lean: the lexer's record `SV.Parser.wildcardRn` (SeqQLLexer.lean)
carries the code point `SV.Parser.wildcardCp` the term builders test (SeqQLFilter.lean), and exactly the bytes
`nameBytes` (`parseCompositeTokenReplaceWildcards`) looks for: it is turned back into `*`. -/
theorem cons_lexcls_wildcardRn_eq_wildcardCp :
    wildcardRn.cp = wildcardCp ∧ nameBytes [wildcardRn] = [42] ∧ wildcardRn.bytes = [0xEE, 0x80, 0x80] := by decide

/-- the wildcard rune belongs to none of the classes: not a lexer token rune, not a word rune of the query builders,
not a word rune of the index tokenizer (whatever lower-case encodings are recorded), not a space; yet it is a
composite-token start (`isCompositeToken`) - so the wave-1 hypothesis "no wildcard rune in the value"
(`cons_tok_seqqlText_eq_words`, `cons_tok_seqqlText_eq_textWords`) excludes exactly the lexer's reading of `*` -/
theorem cons_lexcls_wildcardRn_classes (lb l2 : List Nat) (q sp : Bool) (k : KW) (hk : k ≠ .empty) :
    isTokenRune wildcardRn = false ∧ isWordRune wildcardRn = false ∧ isTextRn ⟨wildcardRn, lb, l2⟩ = false ∧
    wildcardRn.space = false ∧ isComposite ⟨[wildcardRn], q, sp, k⟩ = true := by
  refine ⟨by decide, by decide, by simp [isTextRn, isAsciiRn, wildcardRn], by decide, ?_⟩
  cases q <;> simp [isComposite, hk, wildcardRn, wildcardCp, byteLen, isTokenRune]

/-- the literal asterisk `\*` (`starRn`, what `unquoteChar` returns for an escaped star) IS a word rune on all three
sides: `parseSeqQLText` / `textTokenBuilder.isIndexed` (`isWordRune`) and the tokenizer's byte table (`isTextRn`),
and it is not the wildcard -/
theorem cons_lexcls_starRn_classes (lb l2 : List Nat) :
    isWordRune starRn = true ∧ isTextRn ⟨starRn, lb, l2⟩ = true ∧ starRn.cp ≠ wildcardCp ∧ isTokenRune starRn = false := by
  refine ⟨by decide, by simp [isTextRn, isAsciiRn, starRn], by decide, by decide⟩

/-- `unquoteChar` (parser/seqql.go): the two readings of a star inside quotes are the two records above -/
theorem cons_lexcls_unquoteChar_star (quote : Nat) (h n : QRn) (t : List QRn) :
    (h.r.cp = 92 → n.r.cp = 42 → unquoteChar quote (h :: n :: t) = some (starRn, 2)) ∧
    (h.r.cp = 42 → unquoteChar quote (h :: t) = some (wildcardRn, 1)) := by
  constructor
  · intro h1 h2; simp [unquoteChar, nextIsStar, h1, h2]
  · intro h1; simp [unquoteChar, h1]

/-! ## token runes vs word runes -/

/-- Go: `isTokenRune` = `IsLetter || IsDigit || '_' || '.'` (lexer) vs the word-rune test `IsLetter || IsNumber || '_' ||
'*'` (both text builders).  Lean: `SV.Parser.isTokenRune` vs `SV.Parser.isWordRune`.  Every token rune except `.` is a
word rune, given Go's `unicode` fact that a decimal digit (`Nd`) is a number (`N`). -/
theorem cons_lexcls_isTokenRune_imp_isWordRune (r : Rn) (hd : r.digit = true → r.number = true)
    (ht : isTokenRune r = true) (hdot : r.cp ≠ 46) : isWordRune r = true := by
  simp only [isTokenRune, isWordRune, Bool.or_eq_true, decide_eq_true_eq] at ht ⊢
  rcases ht with ((h | h) | h) | h
  · exact Or.inl (Or.inl (Or.inl h))
  · exact Or.inl (Or.inl (Or.inr (hd h)))
  · exact Or.inl (Or.inr h)
  · exact absurd h hdot

/-- the hypothesis is needed: a "digit that is no number" (impossible in Go's tables) would be a token rune only -/
theorem cons_lexcls_isTokenRune_ne_isWordRune_offdomain_witness :
    isTokenRune ⟨[49], 49, false, false, true, 49, false⟩ = true ∧ isWordRune ⟨[49], 49, false, false, true, 49, false⟩ = false := by
  decide

/-- every rune of an unquoted multi-rune lexer token (`spanToken`) is a token rune -/
theorem cons_lexcls_spanToken_all_isTokenRune (q : List QRn) : ∀ r, r ∈ (spanToken q).1 → isTokenRune r = true := by
  induction q with
  | nil => intro r hr; simp [spanToken] at hr
  | cons h t ih =>
    intro r hr
    simp only [spanToken] at hr
    split at hr
    · rename_i hh
      rcases List.mem_cons.mp hr with h1 | h1
      · rw [h1]; exact hh
      · exact ih r h1
    · simp at hr

/-- hence an unquoted token never contains the wildcard rune, provided U+E000 (private use) is neither letter nor digit
in the rune oracle - the domain of the wave-1 word-split theorems holds for every such token -/
theorem cons_lexcls_spanToken_no_wildcard (q : List QRn)
    (hpu : ∀ x, x ∈ q → x.r.cp = wildcardCp → x.r.letter = false ∧ x.r.digit = false) :
    ∀ r, r ∈ (spanToken q).1 → r.cp ≠ wildcardCp := by
  induction q with
  | nil => intro r hr; simp [spanToken] at hr
  | cons h t ih =>
    intro r hr
    simp only [spanToken] at hr
    split at hr
    · rename_i hh
      rcases List.mem_cons.mp hr with h1 | h1
      · subst h1
        intro hc
        obtain ⟨h2, h3⟩ := hpu h (by simp) hc
        simp [isTokenRune, h2, h3, hc, wildcardCp] at hh
      · exact ih (fun x hx => hpu x (by simp [hx])) r h1
    · simp at hr

/-- the text split of an unquoted lexer token: with the two facts above `parseSeqQLText` of a `spanToken` is the word
split of wave 1 (`words isWordRune`) - instantiation of `cons_tok_seqqlText_eq_words` at lexer output -/
theorem cons_lexcls_seqqlText_spanToken (cs : Bool) (q : List QRn)
    (hpu : ∀ x, x ∈ q → x.r.cp = wildcardCp → x.r.letter = false ∧ x.r.digit = false) :
    seqqlText cs (spanToken q).1 =
      if ((words isWordRune [] (spanToken q).1).map (wordLit cs)).isEmpty then [[⟨false, []⟩]]
      else (words isWordRune [] (spanToken q).1).map (wordLit cs) :=
  cons_tok_seqqlText_eq_words cs _ (cons_lexcls_spanToken_no_wildcard q hpu)

example : ∀ x, x ∈ [(⟨⟨[97], 97, true, false, false, 97, false⟩, none, none⟩ : QRn)] →
    x.r.cp = wildcardCp → x.r.letter = false ∧ x.r.digit = false := by decide

/-! ## skipping spaces -/

/-- Go: the lexer's `for unicode.IsSpace(r)` loop (parser/seqql.go) and the legacy `skipSpaces` (parser/token_parser.go)
skip by the same predicate.  Lean: `SV.Parser.lexSkipSpaces` (SeqQLLexer.lean, over `QRn`) vs `SV.Parser.skipSpaces`
(LegacyParser.lean, over `Rn`); representation change `(·.r)`. -/
theorem cons_lexcls_lexSkipSpaces_eq_skipSpaces (sp : Bool) (q : List QRn) :
    (lexSkipSpaces sp q).2.map (·.r) = skipSpaces (q.map (·.r)) := by
  induction q generalizing sp with
  | nil => rfl
  | cons h t ih =>
    simp only [lexSkipSpaces, List.map_cons, skipSpaces]
    split
    · exact ih true
    · rfl

/-- the `SpaceSkipped` flag: set iff something was skipped (or it was set before) -/
theorem cons_lexcls_lexSkipSpaces_flag (sp : Bool) (q : List QRn) :
    (lexSkipSpaces sp q).1 = (sp || decide ((skipSpaces (q.map (·.r))).length < q.length)) := by
  induction q generalizing sp with
  | nil => simp [lexSkipSpaces, skipSpaces]
  | cons h t ih =>
    simp only [lexSkipSpaces, List.map_cons, skipSpaces]
    split
    · rw [ih true]
      have := SV.Parser.skipSpaces_len (t.map (·.r))
      simp only [List.length_map] at this
      have h2 : decide ((skipSpaces (t.map (·.r))).length < (h :: t).length) = true := by
        simp only [List.length_cons, decide_eq_true_eq]; omega
      rw [h2]; simp
    · simp

/-! ## removed (no Consistency module may import `SeqVerif.Extracted.*`: those files are regenerated by every check run)

`cons_lexcls_extracted_legacyWordRune_c11_eq_c12`, `cons_lexcls_extracted_seqqlWordRune_c12_in_c11`,
`cons_lexcls_extracted_index_vs_query_word_class`, `lexclsFTCode` / `cons_lexcls_ftCode_injective` compared the same Go
conditions / constants as extracted by C11 and by C12.  They are covered by the per-property obligations in Props:
`c11_x_word_class`, `c11_x_tables` (Props/C11.lean) and `c12_x_rune_predicates`, `c12_x_type_switch` (Props/C12.lean),
each of which pins its extracted strings to the literal the shared predicate `SV.Parser.isWordRune` transcribes. -/

end SV.Consistency
