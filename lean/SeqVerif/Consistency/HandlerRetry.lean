import SeqVerif.Model.BulkHandler
import SeqVerif.Model.ProxyFracInv
/-!
# Consistency (final wave): `FracManager.Append`'s retry loop - C01's handler chain vs C07's `proxyFrac`

Go: `storeapi/grpc_bulk.go` (`Bulk`, `doBulk`), `fracmanager/fracmanager.go:316` (`FracManager.Append`: `for { select { case
<-ctx.Done(): return ctx.Err(); default: if err = fm.Writer().Append(docs, metas); err == nil { return nil } } }` - ANY error
is retried, no bound), `fracmanager/proxy_frac.go:86` (`proxyFrac.Append`: not in the active state -> "fraction is not
writable"; else `active.Append`, whose error (the docs / meta `Write`) is returned after `indexWg.Done()`).

* C01, Model/BulkHandler.lean (`SV.BulkH`): a try has TWO outcomes, `Try.notWritable | Try.acked`; `fmAppend` is the loop;
  "I/O errors of the write are outside C01's crash model" (its header).
* C07, Model/ProxyFrac.lean (`SV.ProxyFrac`): one `proxyFrac.Append` call is one of THREE label sequences -
  `[appendFail]`, `[appendBegin, appendWrite]`, `[appendBegin, appendWriteErr]`; the loop itself is only an extracted fact,
  `c07_x_append_retry_loop` (Props/C07.lean:449: the loop returns only on `ctx.Done()` or `err == nil`); `c07_no_lost_append`
  (Props/C07.lean:52) counts the appends that returned nil as `begun - failedW`.

Results: on their common domain (no write error) the two retry rules are the same function (`cons_handlerRetry_loop_eq_bulkH`)
and C01's try outcomes are exactly C07's enabledness conditions (`cons_handlerRetry_try_refused`, `..._try_accepted`): an
acknowledged try = an append accepted by a writable proxyFrac and counted by `c07_no_lost_append`; an OK answer always has
exactly one accepted append (`cons_handlerRetry_ok_iff_accepted`).  The difference is the THIRD outcome
(`cons_handlerRetry_writeErr_witness`): C07 (and Go) let a try pass the state check, fail in `Write`, and be retried - the
payload is written a second time; C01's handler model has no such try (documented restriction, not a contradiction).
-/
namespace SV.Consistency
open SV

/-- the three ways one `proxyFrac.Append` call ends (C07's label sequences) -/
inductive HrOutcome where
  | refused      -- `[appendFail]`: "fraction is not writable", nothing written
  | accepted     -- `[appendBegin, appendWrite]`: returned nil
  | writeErr     -- `[appendBegin, appendWriteErr]`: passed the state check, `active.Append` returned an error
deriving DecidableEq, Repr

/-- the C07 labels of a call -/
def hrLabels : HrOutcome → List ProxyFrac.Label
  | .refused => [.appendFail]
  | .accepted => [.appendBegin, .appendWrite]
  | .writeErr => [.appendBegin, .appendWriteErr]

/-- explicit conversion of outcomes C07 -> C01; the write error has no counterpart -/
def hrToTry : HrOutcome → Option BulkH.Try
  | .refused => some .notWritable
  | .accepted => some .acked
  | .writeErr => none

/-- `Try.notWritable` (C01) = C07's `appendFail`: enabled exactly when the fraction is NOT in the active state, and it changes
nothing ("refused, nothing written") -/
theorem cons_handlerRetry_try_refused (fx : Bool) (s : ProxyFrac.St) (hf : s.fatal = false) :
    ProxyFrac.run fx s (hrLabels .refused) = (if s.isActive then none else some s) := by
  simp only [hrLabels, ProxyFrac.run, ProxyFrac.step, hf]
  cases s.isActive <;> simp

/-- `Try.acked` (C01) = C07's `appendBegin; appendWrite`: enabled exactly when the fraction is writable (active, not sealed,
not read-only), and then one more append has begun, is written and queued for the index, none failed - i.e. `begun - failedW`
(the appends that returned nil in `c07_no_lost_append`) grows by one -/
theorem cons_handlerRetry_try_accepted (fx : Bool) (s : ProxyFrac.St) (hf : s.fatal = false) :
    (s.isActive = false → ProxyFrac.run fx s (hrLabels .accepted) = none) ∧
    (s.isActive = true → ∃ s', ProxyFrac.run fx s (hrLabels .accepted) = some s' ∧ s'.begun = s.begun + 1 ∧
      s'.failedW = s.failedW ∧ s'.queued = s.queued + 1 ∧ s'.pendW = s.pendW ∧ s'.indexWg = s.indexWg + 1) := by
  constructor
  · intro h
    simp [hrLabels, ProxyFrac.run, ProxyFrac.step, hf, h]
  · intro h
    simp [hrLabels, ProxyFrac.run, ProxyFrac.step, hf, h]

/-- the third outcome in C07: the call passed the state check (the fraction was writable), `Write` failed, the error is
returned: `begun` and `failedW` both grow, nothing is queued -/
theorem cons_handlerRetry_try_writeErr (s : ProxyFrac.St) (hf : s.fatal = false) (h : s.isActive = true) :
    ∃ s', ProxyFrac.run true s (hrLabels .writeErr) = some s' ∧ s'.begun = s.begun + 1 ∧ s'.failedW = s.failedW + 1 ∧
      s'.queued = s.queued ∧ s'.indexWg = s.indexWg := by
  simp [hrLabels, ProxyFrac.run, ProxyFrac.step, hf, h]

/-- Go's loop with C07's three outcomes (fracmanager.go:316-329; that it has no other exit is C07's extracted fact
`c07_x_append_retry_loop`): the context is looked at before every try, every error - refusal or write error - is retried -/
def hrLoop : Nat → (Nat → Bool) → (Nat → HrOutcome) → Nat → BulkH.Out
  | 0, _, _, _ => .spinning
  | fuel + 1, ctxDone, out, i =>
    if ctxDone i then .ctxErr
    else
      match out i with
      | .accepted => .ok i
      | .refused => hrLoop fuel ctxDone out (i + 1)
      | .writeErr => hrLoop fuel ctxDone out (i + 1)

/-- **same retry rule on the common domain.**  When no try ends in a write error, Go's loop over C07's outcomes is C01's
`BulkH.fmAppend` over the converted outcomes: same exits (`ok k` with the same `k`, `ctxErr`, `spinning`), same bound
convention (none in Go; `fuel` only cuts the model's loop). -/
theorem cons_handlerRetry_loop_eq_bulkH (fuel : Nat) (ctxDone : Nat → Bool) (out : Nat → HrOutcome) (tries : Nat → BulkH.Try)
    (hconv : ∀ i, hrToTry (out i) = some (tries i)) (inflight limit : Nat) (i : Nat) :
    hrLoop fuel ctxDone out i = BulkH.fmAppend fuel ⟨ctxDone, tries, inflight, limit⟩ i := by
  induction fuel generalizing i with
  | zero => rfl
  | succ fuel ih =>
    simp only [hrLoop, BulkH.fmAppend]
    split
    · rfl
    · have h := hconv i
      cases ho : out i with
      | refused => rw [ho] at h; simp only [hrToTry, Option.some.injEq] at h; rw [← h]; exact ih (i + 1)
      | accepted => rw [ho] at h; simp only [hrToTry, Option.some.injEq] at h; rw [← h]
      | writeErr => rw [ho] at h; cases h

/-- **an OK answer always has an accepted append, and only one** (model-level restatement of `c01_bulk_handler_ack`,
Props/C01.lean:296): the handler answers OK iff the request is well formed, within the in-flight limit, and some try `k` was
acknowledged, all earlier ones refused - so `BulkH` never answers OK without an accepted append, and never after `ctx.Done()`. -/
theorem cons_handlerRetry_ok_iff_accepted (fuel count : Nat) (e : BulkH.Env) :
    BulkH.answersOK (BulkH.doBulk fuel count e) = true ↔
      count ≠ 0 ∧ e.inflight ≤ e.limit ∧ ∃ k, k < fuel ∧ e.tries k = .acked ∧
        (∀ j, j < k → e.tries j = .notWritable) ∧ ∀ j, j ≤ k → e.ctxDone j = false := by
  unfold BulkH.doBulk
  by_cases hc : count = 0
  · simp [hc, BulkH.answersOK]
  · by_cases hl : e.limit < e.inflight
    · simp [hc, hl, BulkH.answersOK]; intro h; omega
    · simp only [hc, hl, if_false, ne_eq, not_false_eq_true, true_and]
      constructor
      · intro h
        cases ho : BulkH.fmAppend fuel e 0 with
        | ok k =>
          obtain ⟨_, h2, h3, h4, h5⟩ := (BulkH.fmAppend_ok fuel e 0 k).mp ho
          exact ⟨by omega, k, by omega, h3, fun j hj => h4 j (Nat.zero_le _) hj, fun j hj => h5 j (Nat.zero_le _) hj⟩
        | ctxErr => simp [ho, BulkH.answersOK] at h
        | protoErr => simp [ho, BulkH.answersOK] at h
        | limitErr => simp [ho, BulkH.answersOK] at h
        | spinning => simp [ho, BulkH.answersOK] at h
      · intro ⟨_, k, h2, h3, h4, h5⟩
        have := (BulkH.fmAppend_ok fuel e 0 k).mpr ⟨Nat.zero_le _, by omega, h3, fun j _ hj => h4 j hj, fun j _ hj => h5 j hj⟩
        simp [this, BulkH.answersOK]

/-- the converse direction asked for: in C07's terms an accepted append (a try `k` with outcome `accepted`, context alive up to
it) always makes the loop - hence the handler - answer OK at the FIRST accepted try; an accepted append is never answered with
an error -/
theorem cons_handlerRetry_accepted_answers_ok (fuel : Nat) (ctxDone : Nat → Bool) (out : Nat → HrOutcome) (k : Nat)
    (hk : k < fuel) (hacc : out k = .accepted) (hearlier : ∀ j, j < k → out j ≠ .accepted)
    (hctx : ∀ j, j ≤ k → ctxDone j = false) : hrLoop fuel ctxDone out 0 = .ok k := by
  have : ∀ (fuel i : Nat), i ≤ k → k < i + fuel → hrLoop fuel ctxDone out i = .ok k := by
    intro fuel
    induction fuel with
    | zero => intro i h1 h2; omega
    | succ fuel ih =>
      intro i h1 h2
      simp only [hrLoop, hctx i h1, Bool.false_eq_true, if_false]
      by_cases hik : i = k
      · subst hik; rw [hacc]
      · have hne := hearlier i (by omega)
        cases ho : out i with
        | accepted => exact absurd ho hne
        | refused => exact ih (i + 1) (by omega) (by omega)
        | writeErr => exact ih (i + 1) (by omega) (by omega)
  exact this fuel 0 (Nat.zero_le _) (by omega)

/-- **the difference: a write error.**  In C07 (repaired code, `fx = true`) `[appendBegin, appendWriteErr]` is reachable from the
initial state: the try passed the state check of a writable fraction and returned an error (`failedW = 1`).  Go's loop retries
it, and with the next try accepted the handler answers OK at try 1 - the payload went through `Active.Append` twice, the first
time possibly leaving bytes in the docs file.  C01's `BulkH.Try` cannot express the first try (`hrToTry .writeErr = none`); its
`effect` contributes exactly one `bulk d m`.  C07's side is the one that matches /repo (fracmanager.go:323 retries on any
`err`); C01 states the restriction in its header ("I/O errors of the write are outside C01's crash model"). -/
theorem cons_handlerRetry_writeErr_witness :
    (∃ s', ProxyFrac.run true ProxyFrac.init (hrLabels .writeErr) = some s' ∧ s'.begun = 1 ∧ s'.failedW = 1 ∧ s'.queued = 0) ∧
    hrLoop 4 (fun _ => false) (fun i => if i = 0 then .writeErr else .accepted) 0 = .ok 1 ∧
    hrToTry .writeErr = none := by
  refine ⟨⟨_, rfl, by decide, by decide, by decide⟩, by decide, rfl⟩

/-- non-vacuity of `hconv`: a refusal followed by an accepted try -/
example : ∀ i, hrToTry ((fun i => if i = 0 then HrOutcome.refused else .accepted) i) =
    some ((fun i => if i = 0 then BulkH.Try.notWritable else .acked) i) := by
  intro i; by_cases h : i = 0 <;> simp [h, hrToTry]

example : (ProxyFrac.init).fatal = false ∧ (ProxyFrac.init).isActive = true := by decide

end SV.Consistency
