import SeqVerif.Model.TokenizerLemmas
import SeqVerif.Model.LegacyParserLemmas
import SeqVerif.Model.ParserTok
import SeqVerif.Model.BulkCompose
import SeqVerif.Model.DedupIndex
/-!
# Consistency (topic a): tokenizers, lower-casing, word splitting, tokenizer-type enums, system tokens

Families compared: C11 `SV.Tok` (Model/Tokenizer.lean, TokenizerLemmas.lean), C10 `SV.BulkIndex` (Model/BulkIndex.lean,
BulkMeta.lean), C12 `SV.Parser` (Model/SeqQLFilter.lean, LegacyParser.lean = level B; Model/ParserTok.lean = level A),
C17 `SV.Collector` / `SV.Collector` (DedupIndex) (system token `_all_:`).

NOT duplicates (one definition, imported): `SV.Tok.indexField`, `keywordTokens`, `textTokens`, `pathTokens`, `lowerTok`,
`lowerIfCI`, `effMax`, `TokCfg`, `MType`, `TT` are defined once in Model/Tokenizer.lean and only *used* by
Model/BulkIndex.lean (`decodeTags`, `decodeFields`) and Model/BulkMeta.lean (`IndexCfg.c : SV.Tok.TokCfg`);
`SV.Parser.tokenAll` / `tokenExists` are defined once in Model/SeqQLFilter.lean and used by Tokenizer.lean
(`indexField`), BulkIndex.lean (`allTok`) and LegacyParser.lean; `SV.Parser.Rn`, `lowerIf`, `isWordRune`, `Term` are
defined once in SeqQLFilter.lean and used by LegacyParser.lean (`BSt.appendRune`) and Tokenizer.lean (`TRn.r`).
-/
namespace SV.Consistency
open SV.Parser SV.Tok

/-! ## 1. text -> words: one splitter, three loops -/

/-- the common reading of all three loops: maximal runs of elements satisfying `p` (`cur` = run in progress);
empty runs (between two separators, at either end) are kept, as `SV.Tok.textWords` keeps them -/
def splitRuns {α : Type} (p : α → Bool) : List α → List α → List (List α)
  | cur, [] => [cur]
  | cur, r :: rest => if p r then splitRuns p (cur ++ [r]) rest else cur :: splitRuns p [] rest

/-- the non-empty runs -/
def words {α : Type} (p : α → Bool) (cur v : List α) : List (List α) := (splitRuns p cur v).filter fun w => !w.isEmpty

/-- `TextTokenizer.Tokenize` loop: `SV.Tok.textWords` IS `splitRuns` with the tokenizer's class `isTextRn` (definitional
unfolding; no representation change) -/
theorem cons_tok_textWords_eq_splitRuns (cur v : List TRn) : textWords cur v = splitRuns isTextRn cur v := by
  induction v generalizing cur with
  | nil => rfl
  | cons r rest ih => simp only [textWords, splitRuns, ih]

/-- index-side word split (`SV.Tok.textWords`, class `isTextRn`: byte table `isTextToken` for ASCII, `unicode.IsLetter ||
IsNumber` otherwise) = query-side word split (class `SV.Parser.isWordRune`, used by `parseSeqQLText` and
`textTokenBuilder.isIndexed`).  Representation change: a tokenizer rune `TRn` is read as the parser's `Rn` by `(·.r)`.
Domain: every rune satisfies `SV.Tok.WF enc` (facts about Go's `unicode` tables, the hypothesis of all C11 theorems). -/
theorem cons_tok_textWords_eq_words_isWordRune (enc : Nat → List Nat) (v cur : List TRn) (h : ∀ r, r ∈ v → WF enc r) :
    (textWords cur v).map (fun w => w.map (·.r)) = splitRuns isWordRune (cur.map (·.r)) (v.map (·.r)) := by
  induction v generalizing cur with
  | nil => rfl
  | cons r rest ih =>
    have hr := isTextRn_eq_isWordRune enc r (h r (by simp))
    have ih' := fun c => ih c (fun x hx => h x (by simp [hx]))
    simp only [textWords, List.map_cons, splitRuns, ← hr]
    split
    · rw [ih']; simp
    · rw [List.map_cons, ih']; simp

/-- what `parseSeqQLText` returns from the state of its loop (`flushTerm`, then the pending literal) -/
def finishText (cs : Bool) (s : TextSt) : List (List Term) :=
  if (s.flushTerm cs).cur.isEmpty then (s.flushTerm cs).done else (s.flushTerm cs).done ++ [(s.flushTerm cs).cur]

/-- the one-term literal a query builder makes of a word -/
def wordLit (cs : Bool) (w : List Rn) : List Term := [⟨false, lowerIf cs w⟩]

theorem textStep_fold (cs : Bool) (v : List Rn) (hnw : ∀ r, r ∈ v → r.cp ≠ wildcardCp) (done : List (List Term)) (cur : List Rn) :
    finishText cs (v.foldl (textStep cs) ⟨done, [], cur⟩) = done ++ (words isWordRune cur v).map (wordLit cs) := by
  induction v generalizing done cur with
  | nil =>
    cases cur with
    | nil => simp [finishText, TextSt.flushTerm, words, splitRuns]
    | cons c cs' => simp [finishText, TextSt.flushTerm, words, splitRuns, wordLit]
  | cons r rest ih =>
    have ih' := fun d c => ih (fun x hx => hnw x (by simp [hx])) d c
    have hr : r.cp ≠ wildcardCp := hnw r (by simp)
    rw [List.foldl_cons]
    by_cases hw : isWordRune r = true
    · rw [show textStep cs ⟨done, [], cur⟩ r = ⟨done, [], cur ++ [r]⟩ by simp [textStep, hw]]
      rw [ih']; simp [words, splitRuns, hw]
    · cases cur with
      | nil =>
        rw [show textStep cs ⟨done, [], []⟩ r = ⟨done, [], []⟩ by simp [textStep, hw, hr, TextSt.flushTerm]]
        rw [ih']; simp [words, splitRuns, hw]
      | cons c cs' =>
        rw [show textStep cs ⟨done, [], c :: cs'⟩ r = ⟨done ++ [wordLit cs (c :: cs')], [], []⟩ by
          simp [textStep, hw, hr, TextSt.flushTerm, wordLit]]
        rw [ih']; simp [words, splitRuns, hw]

/-- **`parseSeqQLText` = the word split.**  Go: parser/seqql_filter.go `parseSeqQLText`.  Lean: `SV.Parser.seqqlText`
(Model/SeqQLFilter.lean) vs the splitter `words isWordRune`: the literals are exactly the non-empty words, in order,
each as one lower-cased text term; no word at all gives the single empty-term literal.
Domain: the value holds no wildcard rune (U+E000, what the lexer makes of an unescaped `*`; a wildcard glues
its neighbours into one literal, which has no index-side counterpart). -/
theorem cons_tok_seqqlText_eq_words (cs : Bool) (v : List Rn) (hnw : ∀ r, r ∈ v → r.cp ≠ wildcardCp) :
    seqqlText cs v =
      if ((words isWordRune [] v).map (wordLit cs)).isEmpty then [[⟨false, []⟩]] else (words isWordRune [] v).map (wordLit cs) := by
  have key := textStep_fold cs v hnw [] []
  simp only [List.nil_append] at key
  unfold seqqlText
  cases v with
  | nil => simp [words, splitRuns]
  | cons a as =>
    simp only [List.isEmpty_cons, Bool.false_eq_true, if_false]
    unfold finishText at key
    rw [← key]

/-- the legacy text builder fed a run of runes one `AppendRune` at a time (`textTokenBuilder.AppendRune` never fails) -/
def legacyFeed (s : BSt) (rs : List Rn) : BSt := rs.foldl (fun s r => (s.appendRune r).getD s) s

theorem lowerIf_append (cs : Bool) (a b : List Rn) : lowerIf cs (a ++ b) = lowerIf cs a ++ lowerIf cs b := by
  simp [lowerIf]

theorem legacyFeed_text (cs : Bool) (v : List Rn) (done : List (List Term)) (cur : List Rn) (wc : Bool) (d : List Nat) :
    (legacyFeed ⟨.text, ⟨cs, done, [], lowerIf cs cur⟩, wc, d⟩ v).tb.getTokens
      = done ++ (words isWordRune cur v).map (wordLit cs) := by
  induction v generalizing done cur with
  | nil =>
    cases cur with
    | nil => simp [legacyFeed, TB.getTokens, TB.finishToken, TB.finishTextTerm, words, splitRuns, lowerIf]
    | cons c cs' => simp [legacyFeed, TB.getTokens, TB.finishToken, TB.finishTextTerm, words, splitRuns, lowerIf, wordLit]
  | cons r rest ih =>
    unfold legacyFeed at ih ⊢
    rw [List.foldl_cons]
    by_cases hw : isWordRune r = true
    · rw [show ((BSt.mk .text ⟨cs, done, [], lowerIf cs cur⟩ wc d).appendRune r).getD _
          = ⟨.text, ⟨cs, done, [], lowerIf cs (cur ++ [r])⟩, wc, d⟩ by
        simp [BSt.appendRune, hw, TB.appendRuneInternal, lowerIf]]
      rw [ih]; simp [words, splitRuns, hw]
    · cases cur with
      | nil =>
        rw [show ((BSt.mk .text ⟨cs, done, [], lowerIf cs []⟩ wc d).appendRune r).getD _
            = ⟨.text, ⟨cs, done, [], lowerIf cs []⟩, wc, d⟩ by
          simp [BSt.appendRune, hw, TB.finishToken, TB.finishTextTerm, lowerIf]]
        rw [ih]; simp [words, splitRuns, hw]
      | cons c cs' =>
        rw [show ((BSt.mk .text ⟨cs, done, [], lowerIf cs (c :: cs')⟩ wc d).appendRune r).getD _
            = ⟨.text, ⟨cs, done ++ [wordLit cs (c :: cs')], [], lowerIf cs []⟩, wc, d⟩ by
          simp [BSt.appendRune, hw, TB.finishToken, TB.finishTextTerm, lowerIf, wordLit]]
        rw [ih]; simp [words, splitRuns, hw]

/-- **legacy `textTokenBuilder` = the word split.**  Go: parser/term_builder.go `textTokenBuilder.AppendRune` /
`getTokens`.  Lean: `SV.Parser.BSt.appendRune` (kind `.text`) + `TB.getTokens` (Model/LegacyParser.lean) vs
`words isWordRune`.  No domain restriction on the runes fed through `AppendRune` (the `*` that becomes a wildcard is
intercepted earlier, by `parseTerms` / `quotedLoop`, and never reaches `AppendRune`). -/
theorem cons_tok_legacyText_eq_words (cs : Bool) (v : List Rn) :
    (legacyFeed (newBuilder .text cs) v).tb.getTokens = (words isWordRune [] v).map (wordLit cs) := by
  have := legacyFeed_text cs v [] [] false []
  simpa [newBuilder, lowerIf] using this

/-- **SeqQL text builder = legacy text builder** on every value without wildcard rune that contains a word
(Go: `parseSeqQLText` vs `textTokenBuilder`): the same literals. -/
theorem cons_tok_seqqlText_eq_legacyText (cs : Bool) (v : List Rn) (hnw : ∀ r, r ∈ v → r.cp ≠ wildcardCp)
    (hne : words isWordRune [] v ≠ []) :
    seqqlText cs v = (legacyFeed (newBuilder .text cs) v).tb.getTokens := by
  rw [cons_tok_seqqlText_eq_words cs v hnw, cons_tok_legacyText_eq_words]
  have : ((words isWordRune [] v).map (wordLit cs)).isEmpty = false := by
    cases h : words isWordRune [] v with
    | nil => exact absurd h hne
    | cons _ _ => rfl
  simp [this]

/-- non-vacuity: `a b` has two words, no wildcard -/
example : let a : Rn := ⟨[97], 97, true, false, false, 97, false⟩
    let sp : Rn := ⟨[32], 32, false, false, false, 32, true⟩
    (∀ r, r ∈ [a, sp, a] → r.cp ≠ wildcardCp) ∧ words isWordRune [] [a, sp, a] ≠ [] := by decide

/-- the quoted phrase of the legacy parser drives `AppendRune` rune by rune: for content without `\`, `*`, `"` the loop
of `parseQuotedTerms` is `legacyFeed` (Go: parser/token_parser.go `parseQuotedTerms`; Lean `SV.Parser.quotedLoop`) -/
theorem cons_tok_quotedLoop_eq_legacyFeed (s : BSt) (hk : s.kind = .text) (v rest : List Rn) (q : Rn) (hq : q.cp = 34)
    (hv : ∀ r, r ∈ v → r.cp ≠ 92 ∧ r.cp ≠ 42 ∧ r.cp ≠ 34) :
    quotedLoop s (v ++ q :: rest) = .ok (legacyFeed s v, skipSpaces rest) := by
  induction v generalizing s with
  | nil =>
    rw [List.nil_append, quotedLoop.eq_def]
    have h92 : q.cp ≠ 92 := by omega
    have h42 : q.cp ≠ 42 := by omega
    simp [hq, legacyFeed]
  | cons r rs ih =>
    obtain ⟨h1, h2, h3⟩ := hv r (by simp)
    have hs : ∃ s', s.appendRune r = some s' ∧ s'.kind = .text := by
      unfold BSt.appendRune; rw [hk]; simp only
      split <;> exact ⟨_, rfl, rfl⟩
    obtain ⟨s', hs', hk'⟩ := hs
    rw [List.cons_append, quotedLoop.eq_def]
    simp only [h1, h2, h3, if_false, hs']
    rw [ih s' hk' (fun x hx => hv x (by simp [hx]))]
    simp [legacyFeed, hs']

/-- **whole-value statement, text fields**: for a value `v` (tokenizer runes satisfying `WF`, no wildcard rune) the
literals `parseSeqQLText` builds from the value are, word for word, the runs `TextTokenizer` cuts it into - every
non-empty index-side word `w` gives the literal `[text (lowerIf cs w)]`, in order; C11's `token_eq_term` then says its
UTF-8 is the index token `lowerIfCI cs norm w`. (The index side additionally drops words longer than `maxTokenSize`:
`c11_limits_text`; that is a difference of the code, not of the models.) -/
theorem cons_tok_seqqlText_eq_textWords (enc : Nat → List Nat) (cs : Bool) (v : List TRn) (hwf : ∀ r, r ∈ v → WF enc r)
    (hnw : ∀ r, r ∈ v → r.r.cp ≠ wildcardCp) :
    seqqlText cs (v.map (·.r)) =
      let lits := (((textWords [] v).filter fun w => !w.isEmpty).map fun w => wordLit cs (w.map (·.r)))
      if lits.isEmpty then [[⟨false, []⟩]] else lits := by
  have h1 := cons_tok_textWords_eq_words_isWordRune enc v [] hwf
  have h2 : (words isWordRune [] (v.map (·.r))).map (wordLit cs)
      = ((textWords [] v).filter fun w => !w.isEmpty).map fun w => wordLit cs (w.map (·.r)) := by
    unfold words
    rw [show ([] : List Rn) = ([] : List TRn).map (·.r) from rfl, ← h1, List.filter_map, List.map_map]
    congr 1
    apply List.filter_congr
    intro w _
    cases w <;> rfl
  rw [cons_tok_seqqlText_eq_words cs _ (by
    intro r hr
    obtain ⟨x, hx, rfl⟩ := List.mem_map.mp hr
    exact hnw x hx), h2]

/-! ## 2. lower-casing -/

/-- **index-side lowering = query-side lowering.**  Go: tokenizer `toLowerIfCaseInsensitive` / `toLowerTryInplace` /
`bytes.Map(unicode.ToLower, ·)` vs the parsers' `unicode.ToLower(r)` per rune (`parseSeqQLKeyword`, `parseSeqQLText`,
`baseTokenBuilder.appendRuneInternal`).  Lean: `SV.Tok.lowerIfCI` (bytes) vs `SV.Parser.lowerIf` (code points);
representation change `termBytes enc` = UTF-8 of the code points (`enc` = `utf8.AppendRune`, a parameter).  Already
proved as `SV.Tok.token_eq_term` (C11); re-exported.  Domain: `WF`; case-sensitive + non-normalising branch (code before
fix 11c549f) needs valid UTF-8 - the disagreement there is the *code's* (`c11_keyword_case_sensitive_counterexample`). -/
theorem cons_tok_lowerIfCI_eq_lowerIf (enc : Nat → List Nat) (cs norm : Bool) (rs : List TRn) (hwf : ∀ r, r ∈ rs → WF enc r)
    (hvalid : cs = true → norm = false → ∀ r, r ∈ rs → Valid enc r) :
    lowerIfCI cs norm rs = termBytes enc (lowerIf cs (rs.map (·.r))) :=
  token_eq_term enc cs norm rs hwf hvalid

/-- the three places the query side lowers a rune use one expression: the legacy builder's
`appendRuneInternal` fold = `lowerIf` (SeqQL builders call `lowerIf` directly) -/
theorem cons_tok_appendRuneInternal_eq_lowerIf (b : TB) (ws : List Rn) :
    (ws.foldl TB.appendRuneInternal b).term = b.term ++ lowerIf b.cs ws := by
  induction ws generalizing b with
  | nil => simp [lowerIf]
  | cons r rest ih =>
    rw [List.foldl_cons, ih]
    simp [TB.appendRuneInternal, lowerIf]
    intro a _; rfl

/-- ASCII: the tokenizer's table `toLowerMap` (`SV.Tok.asciiLower`) = the fold used by the legacy parser for
`strings.EqualFold` against an ASCII word (`SV.Parser.foldEq`'s inline map) -/
theorem cons_tok_asciiLower_eq_foldEq (w : List Rn) (word : List Nat) :
    foldEq w word = decide (w.map (fun r => asciiLower r.cp) = word) := by
  unfold foldEq asciiLower
  exact decide_eq_decide.mpr Iff.rfl

/-- byte length of a run of runes: `SV.Tok.blen` (Model/Tokenizer.lean, `len(value)`) = `SV.Parser.byteLen`
(Model/SeqQLFilter.lean, `len(lex.Token)`), runes read through `(·.r)` -/
theorem cons_tok_blen_eq_byteLen (rs : List TRn) : blen rs = byteLen (rs.map (·.r)) := by
  induction rs with
  | nil => rfl
  | cons r rest ih =>
    simp only [blen, bytesOf, List.flatMap_cons, List.length_append] at ih ⊢
    simp only [byteLen, List.map_cons, List.sum_cons] at ih ⊢
    omega

/-- re-encoding a decoded rune: `SV.Tok.normBytes` (tokenizer: `bytes.Map(identity, x)`) = the per-rune function of
`SV.Parser.wordBytes` (legacy parser: `string([]rune)`): an invalid byte becomes EF BF BD, a valid rune keeps its bytes.
Domain: what `utf8.DecodeRune` guarantees - U+FFFD comes either from one invalid byte or from its own 3-byte encoding. -/
theorem cons_tok_normBytes_eq_wordBytes (rs : List TRn)
    (h : ∀ r, r ∈ rs → r.r.cp = 0xFFFD → r.r.bytes.length = 1 ∨ r.r.bytes = [0xEF, 0xBF, 0xBD]) :
    rs.flatMap normBytes = wordBytes (rs.map (·.r)) := by
  unfold wordBytes
  rw [List.flatMap_map]
  apply flatMap_congr
  intro r hr
  unfold normBytes
  by_cases hc : r.r.cp = 0xFFFD
  · rcases h r hr hc with h1 | h1
    · simp [hc, h1]
    · simp [hc, h1]
  · simp [hc]

example : ∀ r, r ∈ [invalidRn 255] → r.r.cp = 0xFFFD → r.r.bytes.length = 1 ∨ r.r.bytes = [0xEF, 0xBF, 0xBD] := by decide

/-! ## 3. `seq.TokenizerType`: four enumerations -/

/-- level A `SV.Parser.FType` (Model/ParserTok.lean) -> level B `SV.Parser.FT` (Model/SeqQLFilter.lean): the same eight
constructors of seq/tokenizer.go -/
def ftOfFType : FType → FT
  | .noop => .noop | .keyword => .keyword | .text => .text | .object => .object
  | .tags => .tags | .path => .path | .nested => .nested | .exists => .exists

def fTypeOfFT : FT → FType
  | .noop => .noop | .keyword => .keyword | .text => .text | .object => .object
  | .tags => .tags | .path => .path | .nested => .nested | .exists => .exists

theorem cons_tok_FType_FT_iso : (∀ t, fTypeOfFT (ftOfFType t) = t) ∧ (∀ t, ftOfFType (fTypeOfFT t) = t) :=
  ⟨fun t => by cases t <;> rfl, fun t => by cases t <;> rfl⟩

/-- the tokenizer registered for a type (`SV.Tok.TT`, Model/Tokenizer.lean: `indexer.tokenizers[...]`) -/
def ttOfFT : FT → TT
  | .keyword => .keyword | .text => .text | .path => .path | .exists => .exists | _ => .other

/-- what `decodeInternal` distinguishes (`SV.BulkIndex.Main`, Model/BulkIndex.lean) -/
def mainOfFT : FT → SV.BulkIndex.Main
  | .noop => .noop | .object => .object | .tags => .tags | .nested => .nested | _ => .leaf

/-- forget the result value -/
def PRes.void {β : Type} : PRes β → PRes Unit
  | .ok _ => .ok () | .err => .err | .panic => .panic | .oof => .oof

/-- **the type switch of `parseFulltextSearchFilter`** (parser/seqql_filter.go).  Level A `SV.Parser.dispatch`
(Model/ParserTok.lean) vs level B `SV.Parser.fulltextFilter` (Model/SeqQLFilter.lean): same outcome class (ok / error /
panic) for every type, once the value token has been read. -/
theorem cons_tok_dispatch_eq_fulltextFilter (dp : Bool) (field : List Nat) (t : FT) (cs : Bool) (toks : List LTok) :
    PRes.void (fulltextFilter dp field t cs toks) = (compositeToken toks).bind fun _ => dispatch dp (fTypeOfFT t) := by
  unfold fulltextFilter
  cases compositeToken toks with
  | ok p => cases t <;> cases dp <;> rfl
  | err => rfl
  | panic => rfl
  | oof => rfl

/-- **the type switch of the legacy `parseLiteral`** (parser/token_parser.go): for a non-range literal of a type the
level-A `dispatch` rejects, level B `legacyLiteral` gives the same error / panic -/
theorem cons_tok_dispatch_eq_legacyLiteral (dp rl csConf : Bool) (field : List Nat) (t : FT) (r : Rn) (rest : List Rn)
    (hr : ¬ (r.cp = 91 ∨ r.cp = 123)) (ht : (fTypeOfFT t).searchable = false) :
    PRes.void (legacyLiteral dp rl csConf field t (r :: rest)) = dispatch dp (fTypeOfFT t) := by
  cases t <;> simp [fTypeOfFT, FType.searchable] at ht <;> cases dp <;> simp [legacyLiteral, hr, dispatch, fTypeOfFT, PRes.void]

/-- `FType.searchable` is "the switch accepts" in both levels -/
theorem cons_tok_searchable_iff_dispatch (dp : Bool) (t : FType) : t.searchable = true ↔ dispatch dp t = .ok () := by
  cases t <;> cases dp <;> simp [FType.searchable, dispatch]

/-- **`parseSeqQLFieldFilter`**: the field-type decision of level A (`fieldSeqQL`: unindexed -> error) is the one of
level B (`fieldFilter`): a `noop` field is an error whatever follows -/
theorem cons_tok_fieldSeqQL_noop_eq_fieldFilter (c : Cfg) (toks : List LTok) (p : List Rn × List LTok)
    (hp : compositeToken toks = .ok p)
    (ht : indexType c.mapping (nameBytes p.1) = .noop) (dp : Bool) (form : Form) :
    PRes.void (fieldFilter c toks) = fieldSeqQL dp (fTypeOfFT (indexType c.mapping (nameBytes p.1))) form := by
  simp [fieldFilter, hp, PRes.bind, ht, fieldSeqQL, fTypeOfFT, PRes.void]

/-- every type a query can search (`searchable`: keyword, path, text) has an index-side tokenizer (`ttOfFT ≠ other`) and
is a leaf for `decodeInternal`; conversely the only tokenized type a query cannot name a value for is `exists` -/
theorem cons_tok_searchable_has_tokenizer (t : FT) :
    ((fTypeOfFT t).searchable = true → ttOfFT t ≠ .other ∧ mainOfFT t = .leaf) ∧
    (ttOfFT t ≠ .other → (fTypeOfFT t).searchable = true ∨ t = .exists) ∧
    (mainOfFT t = .leaf ↔ ttOfFT t ≠ .other) := by
  cases t <;> simp [fTypeOfFT, FType.searchable, ttOfFT, mainOfFT]

/-- `indexer.index` and the query side agree on which token a plain `field:value` filter of a keyword field looks up:
the indexer's token name for a type without title is the field key (`indexField`), the parser's leaf carries the field
name bytes; the existence token is `(tokenExists, title)` on the index side and the literal `_exists_:title` (forced
case sensitive in `fieldFilter` / `legacyLiteral`) on the query side - both use the one constant `SV.Parser.tokenExists` -/
theorem cons_tok_indexField_exists_shared (c : TokCfg) (key : List Nat) (v : Option (List TRn)) (t : MType) (ht : t.tt ≠ .other) :
    (tokenExists, if t.title.isEmpty then key else t.title) ∈ indexField c [t] key v := by
  simp [indexField, ht]

/-! ## 4. the `_all_` system token: C10 pair vs C17 bytes -/

/-- Go: `seq.TokenAll` written by `appendMeta` (proxy/bulk/indexer.go) as the pair `("_all_", "")` and read by the store
as the bytes `_all_:` (`initSystemTokens`, frac/active_token_list.go).  Lean: `SV.BulkIndex.allTok` (Model/BulkIndex.lean,
C10) through `SV.Bulk.toCollector` + `SV.Collector.MetaToken.bytes` (C17) = `SV.Collector.allToken` (Model/DedupIndex.lean). -/
theorem cons_tok_allTok_eq_allToken :
    SV.Collector.MetaToken.bytes ⟨SV.BulkIndex.allTok.1, SV.BulkIndex.allTok.2⟩ = SV.Collector.allToken := by decide

/-- the same through `toCollector`: the first token of every meta `indexDoc` produces is the store's `_all_:` -/
theorem cons_tok_docMetas_head_eq_allToken (mid rid : Nat) (c : TokCfg) (mp : SV.Bulk.Bytes → SV.BulkIndex.MTypes)
    (root : SV.BulkIndex.JV) (d : SV.Bulk.Bytes) (m : SV.Bulk.Meta)
    (hm : m ∈ SV.BulkIndex.docMetas mid rid (SV.BulkIndex.indexDoc c mp root) d) :
    ((SV.Bulk.toCollector m).tokens.map SV.Collector.MetaToken.bytes).head? = some SV.Collector.allToken := by
  obtain ⟨p, ns, hd, _, hns⟩ := SV.BulkIndex.docMetas_shape mid rid c mp root d
  rw [hd] at hm
  rcases List.mem_cons.mp hm with h | h
  · subst h
    simp [SV.Bulk.toCollector, SV.Collector.MetaToken.bytes, SV.BulkIndex.allTok, SV.Collector.allToken, tokenAll]
  · obtain ⟨_, _, _, q, hq⟩ := hns m h
    simp [SV.Bulk.toCollector, hq, SV.Collector.MetaToken.bytes, SV.BulkIndex.allTok, SV.Collector.allToken, tokenAll]

end SV.Consistency
