import SeqVerif.Model.BulkHandover
import SeqVerif.Model.WPConcurrent
/-!
# Consistency (wave 3): who owns the metas after the call returns - C10 `SV.Handover` vs C01 `SV.WPath` (concurrent writers)

* Model/BulkHandover.lean (C10): buffers have IDENTITY (`mem : buffer ↦ contents`), the queued index task keeps a
  buffer number, a worker reads the buffer later; two disciplines (`stepClone` = `slices.Clone` in
  storeapi/client.go:25, `stepPooled` = a pooled copy released on return).
* Model/WPConcurrent.lean (C01): two `ActiveWriter.Write` calls interleaved; blocks are VALUES (`Bytes`), the step
  "hand the block to the indexer" appends the stamped meta block itself to `St.idx`.  There is no buffer, no pool,
  no reuse in that model.

So the two do NOT share an interface literally: C01 has no notion of a buffer that could be written after hand-over -
it ASSUMES value semantics for what the indexer retains; C10 is the model in which that assumption is a theorem
(clone) or fails (pooled).  The common abstract rule is the by-value FIFO hand-over machine `handoverVal` below:
 (1) C10's clone discipline refines it for every interleaving (`cons_handover_clone_refines_value`);
 (2) C10's pooled discipline does not (`cons_handover_pooled_not_value_witness`);
 (3) C01's indexer queue `St.idx` is an instance by construction: every step of every schedule, with or without the
     mutex, leaves `idx` unchanged or appends the moving writer's own stamped block - nothing already handed over is
     ever rewritten (`cons_handover_c01_idx_append_only`, `cons_handover_c01_run_idx_prefix`), and the serialised run
     hands over exactly the two writers' blocks (`cons_handover_c01_serial_handed_over`).
Hence the C10 hand-over trace under `slices.Clone` is an admissible C01 history in the only sense the C01 model has:
what the indexer holds for a task is the value that was handed over.
-/
namespace SV.Consistency
open SV

/-! ## the abstract rule: by-value FIFO hand-over -/

/-- retained payloads (FIFO) and what the workers read: `(accepted, read)` -/
structure HandoverVal where
  queue : List Nat
  out : List (Nat × Option Nat)
deriving DecidableEq, Repr

def handoverValStep (s : HandoverVal) : SV.Handover.Ev → HandoverVal
  | .accept p => { s with queue := s.queue ++ [p] }
  | .work =>
    match s.queue with
    | [] => s
    | p :: q => ⟨q, s.out ++ [(p, some p)]⟩

def handoverValRun (evs : List SV.Handover.Ev) : HandoverVal := evs.foldl handoverValStep ⟨[], []⟩

/-- the rule itself: a by-value queue never shows a worker anything but what was accepted -/
theorem cons_handover_value_rule (evs : List SV.Handover.Ev) : ∀ o, o ∈ (handoverValRun evs).out → o.2 = some o.1 := by
  have : ∀ (evs : List SV.Handover.Ev) (s : HandoverVal), (∀ o, o ∈ s.out → o.2 = some o.1) →
      ∀ o, o ∈ (evs.foldl handoverValStep s).out → o.2 = some o.1 := by
    intro evs
    induction evs with
    | nil => intro s h; exact h
    | cons e evs ih =>
      intro s h
      apply ih
      cases e with
      | accept p => exact h
      | work =>
        simp only [handoverValStep]
        cases hq : s.queue with
        | nil => exact h
        | cons p q =>
          intro o ho
          simp only [List.mem_append, List.mem_singleton] at ho
          rcases ho with ho | rfl
          · exact h o ho
          · rfl
  exact this evs ⟨[], []⟩ (fun o ho => by cases ho)

/-- what a C10 state shows of the abstract machine: the payloads the retained tasks were accepted with, and the reads -/
def handoverAbs (s : SV.Handover.St) : HandoverVal := ⟨s.queue.map (·.2), s.out⟩

theorem handover_clone_step (s : SV.Handover.St) (e : SV.Handover.Ev) (h : SV.Handover.Inv s) :
    handoverAbs (SV.Handover.stepClone s e) = handoverValStep (handoverAbs s) e := by
  cases e with
  | accept p => simp [SV.Handover.stepClone, handoverAbs, handoverValStep]
  | work =>
    simp only [SV.Handover.stepClone, SV.Handover.work, handoverAbs, handoverValStep]
    cases hq : s.queue with
    | nil => simp [hq]
    | cons t q =>
      obtain ⟨b, p⟩ := t
      have hb := (h.1 (b, p) (by rw [hq]; simp)).2
      simp only at hb
      simp [hb]

/-- **(1) `slices.Clone` per call implements by-value hand-over**: for EVERY interleaving of `Bulk` calls and index
workers the C10 state projects onto the run of the abstract machine (queue contents and every read) -/
theorem cons_handover_clone_refines_value (evs : List SV.Handover.Ev) :
    handoverAbs (SV.Handover.run SV.Handover.stepClone evs) = handoverValRun evs := by
  have : ∀ (evs : List SV.Handover.Ev) (s : SV.Handover.St), SV.Handover.Inv s →
      handoverAbs (evs.foldl SV.Handover.stepClone s) = evs.foldl handoverValStep (handoverAbs s) := by
    intro evs
    induction evs with
    | nil => intro s _; rfl
    | cons e evs ih =>
      intro s h
      simp only [List.foldl_cons]
      rw [ih _ (SV.Handover.inv_stepClone s e h), handover_clone_step s e h]
  exact this evs SV.Handover.St.init SV.Handover.inv_init

/-- **(2) a pooled buffer released on return does not**: same events, the abstract machine reads `(1, some 1)`,
the pooled store reads `(1, some 2)` (C10's `pooled_counterexample`).  /repo uses the clone (storeapi/client.go:25). -/
theorem cons_handover_pooled_not_value_witness :
    handoverAbs (SV.Handover.run SV.Handover.stepPooled [.accept 1, .accept 2, .work, .work]) ≠
      handoverValRun [.accept 1, .accept 2, .work, .work] := by decide

/-! ## C01: the indexer's queue is by value -/

/-- the block writer A / B hands to the indexer at its pc 2 -> 3 move -/
def handoverEntryA (da ma : SV.WPath.Bytes) (c : SV.WPath.CS) : SV.WPath.Entry :=
  ⟨SV.WPath.stampMeta ma da.length c.offA, c.offA⟩
def handoverEntryB (db mb : SV.WPath.Bytes) (c : SV.WPath.CS) : SV.WPath.Entry :=
  ⟨SV.WPath.stampMeta mb db.length c.offB, c.offB⟩

/-- **(3) no write after hand-over in C01**: one move of either writer, with or without `a.mu`, leaves the indexer's
list as it is or appends the mover's own stamped block; entries already handed over are never touched -/
theorem cons_handover_c01_idx_append_only (mutex : Bool) (da ma db mb : SV.WPath.Bytes) (c : SV.WPath.CS) (w : Bool) :
    (SV.WPath.cstep mutex da ma db mb c w).st.idx = c.st.idx ∨
    (w = false ∧ c.pa = 2 ∧ (SV.WPath.cstep mutex da ma db mb c w).st.idx = c.st.idx ++ [handoverEntryA da ma c]) ∨
    (w = true ∧ c.pb = 2 ∧ (SV.WPath.cstep mutex da ma db mb c w).st.idx = c.st.idx ++ [handoverEntryB db mb c]) := by
  obtain ⟨st, pa, pb, offA, offB, lock⟩ := c
  cases w
  · simp only [SV.WPath.cstep, if_true]
    match pa with
    | 0 => left; simp only; split <;> rfl
    | 1 => left; rfl
    | 2 => right; left; exact ⟨trivial, rfl, rfl⟩
    | _ + 3 => left; rfl
  · simp only [SV.WPath.cstep, Bool.true_eq_false, if_false]
    match pb with
    | 0 => left; simp only; split <;> rfl
    | 1 => left; rfl
    | 2 => right; right; exact ⟨trivial, rfl, rfl⟩
    | _ + 3 => left; rfl

/-- over a whole schedule: what was handed over before stays, as a prefix, whatever happens next -/
theorem cons_handover_c01_run_idx_prefix (mutex : Bool) (da ma db mb : SV.WPath.Bytes) (c : SV.WPath.CS) (sched : List Bool) :
    ∃ suffix, (SV.WPath.crun mutex da ma db mb c sched).st.idx = c.st.idx ++ suffix := by
  induction sched generalizing c with
  | nil => exact ⟨[], by simp [SV.WPath.crun]⟩
  | cons w ws ih =>
    obtain ⟨s2, h2⟩ := ih (SV.WPath.cstep mutex da ma db mb c w)
    simp only [SV.WPath.crun, List.foldl_cons] at h2 ⊢
    rcases cons_handover_c01_idx_append_only mutex da ma db mb c w with h | ⟨_, _, h⟩ | ⟨_, _, h⟩
    · exact ⟨s2, by rw [h2, h]⟩
    · exact ⟨handoverEntryA da ma c :: s2, by rw [h2, h]; simp⟩
    · exact ⟨handoverEntryB db mb c :: s2, by rw [h2, h]; simp⟩

/-- with the mutex, when both writers are done the indexer holds exactly the two blocks, each stamped with its own
length and the offset its own docs block got - the serialised history the abstract machine's two `accept`s describe
(from C01's `serial_run`) -/
theorem cons_handover_c01_serial_handed_over (st0 : SV.WPath.St) (da ma db mb : SV.WPath.Bytes) (sched : List Bool)
    (hdone : (SV.WPath.crun true da ma db mb (SV.WPath.cinit st0) sched).pa = 3 ∧
             (SV.WPath.crun true da ma db mb (SV.WPath.cinit st0) sched).pb = 3) :
    (SV.WPath.crun true da ma db mb (SV.WPath.cinit st0) sched).st.idx =
        st0.idx ++ [⟨SV.WPath.stampMeta ma da.length st0.offD, st0.offD⟩,
                    ⟨SV.WPath.stampMeta mb db.length (st0.offD + da.length), st0.offD + da.length⟩] ∨
    (SV.WPath.crun true da ma db mb (SV.WPath.cinit st0) sched).st.idx =
        st0.idx ++ [⟨SV.WPath.stampMeta mb db.length st0.offD, st0.offD⟩,
                    ⟨SV.WPath.stampMeta ma da.length (st0.offD + db.length), st0.offD + db.length⟩] := by
  have hs := SV.WPath.serial_run st0 da ma db mb sched (SV.WPath.cinit st0)
    (Or.inl ⟨rfl, rfl, rfl, rfl⟩)
  generalize SV.WPath.crun true da ma db mb (SV.WPath.cinit st0) sched = c at hs hdone
  obtain ⟨ha, hb⟩ := hdone
  simp only [SV.WPath.Serial] at hs
  rcases hs with h | h | h | h | h | h | h | h | h | h | h | h <;> try (exfalso; omega)
  obtain ⟨_, _, _, h⟩ := h
  rcases h with h | h
  · left; rw [h]; simp [SV.WPath.append]
  · right; rw [h]; simp [SV.WPath.append]

example : (SV.WPath.crun true [1] [2] [3] [4] (SV.WPath.cinit ⟨[], [], 0, 0, [], false⟩) [false, false, false, true, true, true]).pa = 3 ∧
    (SV.WPath.crun true [1] [2] [3] [4] (SV.WPath.cinit ⟨[], [], 0, 0, [], false⟩) [false, false, false, true, true, true]).pb = 3 := by
  decide

end SV.Consistency
