import SeqVerif.Consistency.Collector
/-!
# The whole (uninterleaved) C07 writer run against C17's `indexBulk`

Go: one iteration of `appendWorker` (frac/active_indexer.go).  C07 (`SV.ActiveConc`, Model/ActiveConc.lean) cuts it into
the steps `wNew, wBlock, wPos, wIds, wTokGet, wToks, wQueue^k, wStats`; C17 (`SV.Collector.indexBulk`,
Model/DedupIndex.lean) is the statement-level sequential model.  This file runs one C07 writer from `idle` to `stats`
without interleaving and shows that the shared state stays related (`ShRel`) to C17's fraction after `indexBulk`.

Representation change (`ShRel sh a`, `toMetaAC`):
* a C07 document `d` is the C17 meta `⟨d.id, Size = 1, "_all_" :: d.toks.map enc, doc 0⟩` (C07 has no sizes; any positive
  size would do - with size 1 the `j`-th document of a bulk lies at byte offset `5 j`);
* positions: C07's `(block, index in bulk)` is C17's `(block, 5 * index)`;
* LIDs: C07 does not model the system entry at LID 0, so C17's LID = C07's LID + 1 and `a.ids = systemID :: sh.ids.map id`;
* token `t` (a number in C07) is the bytes `(enc t).bytes`, `_all_` (C07: `Sh.all` / the `none` call) is `allToken`;
* `info.From / To`: C07's `Option` range is C17's sentinel pair (`rangeToSentinel`).
Domain: no document repeats a token (see `cons_queuedLIDs_activeconc_ne_collector_repeatedToken_witness`), MIDs are
`uint64`, `enc` is injective on bytes and never yields `"_all_:"`, `TokenList.appendMu` is free.
-/
namespace SV.Consistency
open SV.ActiveConc (Sh W St Doc Cfg WPc Label)

/-! ## the C07 run, computed -/

/-- `collector.IDs` after `Filter`, as documents -/
def acKept (sh : Sh) (ds : List Doc) : List Doc :=
  ds.filter fun d => ((SV.ActiveConc.setMultiple sh.blocks ds 0 sh.pos).2.map Doc.id).contains d.id

/-- tokens `getTokenLIDs` creates for this bulk -/
def acNew (sh : Sh) (ds : List Doc) : List Nat := (SV.ActiveConc.bulkToks ds).filter fun t => !sh.created.contains t

/-- shared state after `wNew .. wToks` -/
def acMidSh (sh : Sh) (ds : List Doc) : Sh :=
  { sh with submitted := sh.submitted ++ ds, blocks := sh.blocks + 1,
            pos := (SV.ActiveConc.setMultiple sh.blocks ds 0 sh.pos).1, ids := sh.ids ++ acKept sh ds,
            created := sh.created ++ acNew sh ds, dict := sh.dict ++ acNew sh ds, lock := false }

/-- the writer after `wNew .. wToks` -/
def acMidW (c : Cfg) (sh : Sh) (ds : List Doc) : W :=
  { pc := .queue, docs := acKept sh ds, blk := sh.blocks,
    napp := (SV.ActiveConc.setMultiple sh.blocks ds 0 sh.pos).2.length, base := sh.ids.length,
    toks := SV.ActiveConc.bulkToks ds, newToks := acNew sh ds,
    todo := SV.ActiveConc.queueCalls c.allLast (SV.ActiveConc.bulkToks ds) (acKept sh ds) sh.ids.length }

/-- all `PutLIDsInQueue` calls of a list applied -/
def applyCalls (sh : Sh) (L : List (Option Nat × List Nat)) : Sh := L.foldl (fun sh p => SV.ActiveConc.putQueue sh p.1 p.2) sh

/-- shared state after the whole run `wNew .. wStats` -/
def acFinalSh (c : Cfg) (sh : Sh) (ds : List Doc) : Sh :=
  { applyCalls (acMidSh sh ds) (acMidW c sh ds).todo with
    range := SV.ActiveConc.merge (applyCalls (acMidSh sh ds) (acMidW c sh ds).todo).range (SV.ActiveConc.statsOf (acKept sh ds)),
    docsTotal := (applyCalls (acMidSh sh ds) (acMidW c sh ds).todo).docsTotal +
      (SV.ActiveConc.setMultiple sh.blocks ds 0 sh.pos).2.length }

/-- the label sequence of one uninterleaved writer run -/
def writerRun (i : Nat) (ds : List Doc) : List Label :=
  [.wNew i ds, .wBlock i, .wPos i, .wIds i, .wTokGet i, .wToks i] ++
    List.replicate (1 + (SV.ActiveConc.bulkToks ds).length) (.wQueue i) ++ [.wStats i]

theorem run_append (c : Cfg) (s : St) (l1 l2 : List Label) :
    SV.ActiveConc.run c s (l1 ++ l2) = (SV.ActiveConc.run c s l1).bind fun s1 => SV.ActiveConc.run c s1 l2 := by
  induction l1 generalizing s with
  | nil => rfl
  | cons l l1 ih =>
    simp only [List.cons_append, SV.ActiveConc.run]
    cases SV.ActiveConc.step c s l with
    | none => rfl
    | some s1 => exact ih s1

theorem run_prefix (c : Cfg) (s : St) (i : Nat) (ds : List Doc) (hidle : (s.ws i).pc = .idle)
    (hlock : s.sh.lock = false) :
    ∃ s1, SV.ActiveConc.run c s [.wNew i ds, .wBlock i, .wPos i, .wIds i, .wTokGet i, .wToks i] = some s1 ∧
      s1.sh = acMidSh s.sh ds ∧ s1.ws i = acMidW c s.sh ds := by
  simp [SV.ActiveConc.run, SV.ActiveConc.step, hidle, hlock, SV.ActiveConc.setW, acMidSh, acMidW, acKept, acNew]

theorem run_queue (c : Cfg) (i : Nat) (L : List (Option Nat × List Nat)) (s : St) (hpc : (s.ws i).pc = .queue)
    (htodo : (s.ws i).todo = L) :
    ∃ s2, SV.ActiveConc.run c s (List.replicate L.length (.wQueue i)) = some s2 ∧ s2.sh = applyCalls s.sh L ∧
      (s2.ws i).pc = .queue ∧ (s2.ws i).todo = [] ∧ (s2.ws i).docs = (s.ws i).docs ∧ (s2.ws i).napp = (s.ws i).napp := by
  induction L generalizing s with
  | nil => exact ⟨s, rfl, rfl, hpc, htodo, rfl, rfl⟩
  | cons p rest ih =>
    obtain ⟨t, ls⟩ := p
    have hstep : SV.ActiveConc.step c s (.wQueue i) =
        some { s with sh := SV.ActiveConc.putQueue s.sh t ls,
                      ws := SV.ActiveConc.setW s.ws i { s.ws i with todo := rest } } := by
      simp [SV.ActiveConc.step, hpc, htodo]
    obtain ⟨s2, h1, h2, h3, h4, h5, h6⟩ := ih
      { s with sh := SV.ActiveConc.putQueue s.sh t ls, ws := SV.ActiveConc.setW s.ws i { s.ws i with todo := rest } }
      (by simp [SV.ActiveConc.setW, hpc]) (by simp [SV.ActiveConc.setW])
    refine ⟨s2, ?_, ?_, h3, h4, ?_, ?_⟩
    · simp only [List.length_cons, List.replicate_succ, SV.ActiveConc.run, hstep]
      exact h1
    · rw [h2]; rfl
    · rw [h5]; simp [SV.ActiveConc.setW]
    · rw [h6]; simp [SV.ActiveConc.setW]

theorem queueCalls_length (al : Bool) (toks : List Nat) (docs : List Doc) (base : Nat) :
    (SV.ActiveConc.queueCalls al toks docs base).length = 1 + toks.length := by
  unfold SV.ActiveConc.queueCalls
  split <;> simp <;> omega

/-- the run goes through (no step is refused) and ends in the computed shared state -/
theorem cons_appendWorker_activeconc_run_computed (c : Cfg) (s : St) (i : Nat) (ds : List Doc)
    (hidle : (s.ws i).pc = .idle) (hlock : s.sh.lock = false) :
    ∃ s3, SV.ActiveConc.run c s (writerRun i ds) = some s3 ∧ s3.sh = acFinalSh c s.sh ds ∧ (s3.ws i).pc = .stats := by
  obtain ⟨s1, h1, hsh1, hw1⟩ := run_prefix c s i ds hidle hlock
  have hpc1 : (s1.ws i).pc = .queue := by rw [hw1]; rfl
  obtain ⟨s2, h2, hsh2, hpc2, htodo2, hdocs2, hnapp2⟩ := run_queue c i (acMidW c s.sh ds).todo s1 hpc1 (by rw [hw1])
  have hlen : (acMidW c s.sh ds).todo.length = 1 + (SV.ActiveConc.bulkToks ds).length := queueCalls_length _ _ _ _
  rw [hlen] at h2
  have hstep : SV.ActiveConc.step c s2 (.wStats i) =
      some { s2 with sh := { s2.sh with range := SV.ActiveConc.merge s2.sh.range (SV.ActiveConc.statsOf (s2.ws i).docs),
                                        docsTotal := s2.sh.docsTotal + (s2.ws i).napp },
                     ws := SV.ActiveConc.setW s2.ws i { s2.ws i with pc := .stats } } := by
    simp [SV.ActiveConc.step, hpc2, htodo2]
  refine ⟨{ s2 with sh := { s2.sh with range := SV.ActiveConc.merge s2.sh.range (SV.ActiveConc.statsOf (s2.ws i).docs),
                                        docsTotal := s2.sh.docsTotal + (s2.ws i).napp },
                     ws := SV.ActiveConc.setW s2.ws i { s2.ws i with pc := .stats } }, ?_, ?_, ?_⟩
  · unfold writerRun
    rw [run_append, run_append, h1]
    simp only [Option.bind_some, h2, SV.ActiveConc.run, hstep]
  · simp only [hsh2, hsh1, hdocs2, hnapp2, hw1, acFinalSh, acMidW]
  · simp [SV.ActiveConc.setW]

/-! ## what the `PutLIDsInQueue` calls add up to -/

theorem applyCalls_fields (L : List (Option Nat × List Nat)) (sh : Sh) :
    (applyCalls sh L).blocks = sh.blocks ∧ (applyCalls sh L).pos = sh.pos ∧ (applyCalls sh L).ids = sh.ids ∧
    (applyCalls sh L).range = sh.range ∧ (applyCalls sh L).docsTotal = sh.docsTotal ∧ (applyCalls sh L).lock = sh.lock ∧
    (applyCalls sh L).all = sh.all ++ (L.filter fun p => p.1 = none).flatMap (·.2) ∧
    ∀ u, (applyCalls sh L).tok u = sh.tok u ++ (L.filter fun p => p.1 = some u).flatMap (·.2) := by
  induction L generalizing sh with
  | nil => simp [applyCalls]
  | cons p L ih =>
    obtain ⟨t, ls⟩ := p
    obtain ⟨h1, h2, h3, h4, h5, h6, h7, h8⟩ := ih (SV.ActiveConc.putQueue sh t ls)
    simp only [applyCalls, List.foldl_cons] at h1 h2 h3 h4 h5 h6 h7 h8 ⊢
    cases t with
    | none =>
      simp only [SV.ActiveConc.putQueue] at h1 h2 h3 h4 h5 h6 h7 h8 ⊢
      refine ⟨h1, h2, h3, h4, h5, h6, ?_, ?_⟩
      · rw [h7]; simp
      · intro u; rw [h8 u]; simp
    | some t =>
      simp only [SV.ActiveConc.putQueue] at h1 h2 h3 h4 h5 h6 h7 h8 ⊢
      refine ⟨h1, h2, h3, h4, h5, h6, ?_, ?_⟩
      · rw [h7]; simp
      · intro u
        rw [h8 u]
        by_cases hu : u = t
        · subst hu; simp
        · have : ¬ t = u := fun e => hu e.symm
          simp [hu, this]

theorem filter_some_calls (f : Nat → List Nat) (l : List Nat) (hn : l.Nodup) (u : Nat) :
    ((l.map fun t => (some t, f t)).filter fun p => p.1 = some u).flatMap (·.2) = if u ∈ l then f u else [] := by
  induction l with
  | nil => rfl
  | cons x l ih =>
    have hn' := List.nodup_cons.mp hn
    simp only [List.map_cons, List.filter_cons]
    by_cases hx : x = u
    · subst hx
      simp [ih hn'.2, hn'.1]
    · have : ¬ u = x := fun e => hx e.symm
      simp [hx, this, ih hn'.2]

theorem filter_none_calls (f : Nat → List Nat) (l : List Nat) :
    ((l.map fun t => ((some t : Option Nat), f t)).filter fun p => p.1 = none) = [] := by
  induction l with
  | nil => rfl
  | cons x l ih => simp [ih]

/-- the calls of one bulk, in either order of `allLast`: `_all_` gets all LIDs of the kept documents, token `u` the
LIDs of the kept documents that carry it -/
theorem queueCalls_sum (al : Bool) (toks : List Nat) (hn : toks.Nodup) (docs : List Doc) (base : Nat) :
    ((SV.ActiveConc.queueCalls al toks docs base).filter fun p => p.1 = none).flatMap (·.2) = List.range' base docs.length ∧
    ∀ u, ((SV.ActiveConc.queueCalls al toks docs base).filter fun p => p.1 = some u).flatMap (·.2) =
      if u ∈ toks then SV.ActiveConc.lidsWith u docs base else [] := by
  unfold SV.ActiveConc.queueCalls
  cases al with
  | false =>
    simp only [Bool.false_eq_true, if_false]
    refine ⟨?_, fun u => ?_⟩
    · simp [filter_none_calls]
    · have := filter_some_calls (fun t => SV.ActiveConc.lidsWith t docs base) toks hn u
      simpa using this
  | true =>
    simp only [if_true]
    refine ⟨?_, fun u => ?_⟩
    · simp [List.filter_append, filter_none_calls]
    · have := filter_some_calls (fun t => SV.ActiveConc.lidsWith t docs base) toks.reverse (by rw [List.Nodup, List.pairwise_reverse]; exact hn.imp (fun h => fun e => h e.symm)) u
      simp only [List.filter_append, List.flatMap_append, this, List.mem_reverse]
      simp

theorem dedupF_nodup {α} [DecidableEq α] (l : List α) : (dedupF l).Nodup := by
  induction l with
  | nil => simp [dedupF]
  | cons x xs ih =>
    simp only [dedupF, List.nodup_cons]
    refine ⟨by simp, ih.sublist List.filter_sublist⟩

theorem bulkToks_nodup (ds : List Doc) : (SV.ActiveConc.bulkToks ds).Nodup := by
  unfold SV.ActiveConc.bulkToks
  rw [activeconc_dedup_eq]
  exact dedupF_nodup _

theorem mem_bulkToks (ds : List Doc) (t : Nat) : t ∈ SV.ActiveConc.bulkToks ds ↔ ∃ d ∈ ds, t ∈ d.toks := by
  unfold SV.ActiveConc.bulkToks
  rw [activeconc_dedup_eq, dedupF_mem, List.mem_flatMap]

theorem lidsWith_nil_of_absent (t : Nat) (docs : List Doc) (base : Nat) (h : ∀ d ∈ docs, t ∉ d.toks) :
    SV.ActiveConc.lidsWith t docs base = [] := by
  induction docs generalizing base with
  | nil => rfl
  | cons d docs ih =>
    have hd := h d (by simp)
    simp only [SV.ActiveConc.lidsWith, List.contains_iff_mem, hd, if_false]
    exact ih _ (fun d' hd' => h d' (List.mem_cons_of_mem _ hd'))

/-- the final shared state of the run, field by field -/
theorem acFinalSh_fields (c : Cfg) (sh : Sh) (ds : List Doc) :
    (acFinalSh c sh ds).blocks = sh.blocks + 1 ∧
    (acFinalSh c sh ds).pos = (SV.ActiveConc.setMultiple sh.blocks ds 0 sh.pos).1 ∧
    (acFinalSh c sh ds).ids = sh.ids ++ acKept sh ds ∧
    (acFinalSh c sh ds).range = SV.ActiveConc.merge sh.range (SV.ActiveConc.statsOf (acKept sh ds)) ∧
    (acFinalSh c sh ds).docsTotal = sh.docsTotal + (SV.ActiveConc.setMultiple sh.blocks ds 0 sh.pos).2.length ∧
    (acFinalSh c sh ds).lock = false ∧
    (acFinalSh c sh ds).all = sh.all ++ List.range' sh.ids.length (acKept sh ds).length ∧
    ∀ u, (acFinalSh c sh ds).tok u = sh.tok u ++ SV.ActiveConc.lidsWith u (acKept sh ds) sh.ids.length := by
  obtain ⟨h1, h2, h3, h4, h5, h6, h7, h8⟩ := applyCalls_fields (acMidW c sh ds).todo (acMidSh sh ds)
  obtain ⟨q1, q2⟩ := queueCalls_sum c.allLast (SV.ActiveConc.bulkToks ds) (bulkToks_nodup ds) (acKept sh ds) sh.ids.length
  refine ⟨h1, h2, h3, ?_, ?_, h6, ?_, ?_⟩
  · simp only [acFinalSh, h4]; rfl
  · simp only [acFinalSh, h5]; rfl
  · show (applyCalls (acMidSh sh ds) (acMidW c sh ds).todo).all = _
    rw [h7]; simp only [acMidW, q1]; rfl
  · intro u
    show (applyCalls (acMidSh sh ds) (acMidW c sh ds).todo).tok u = _
    rw [h8 u]
    simp only [acMidW, q2 u]
    by_cases hu : u ∈ SV.ActiveConc.bulkToks ds
    · simp only [hu, if_true]; rfl
    · simp only [hu, if_false]
      have : SV.ActiveConc.lidsWith u (acKept sh ds) sh.ids.length = [] := by
        apply lidsWith_nil_of_absent
        intro d hd hmem
        exact hu ((mem_bulkToks ds u).mpr ⟨d, (List.mem_filter.mp hd).1, hmem⟩)
      rw [this]; rfl

/-! ## the representation change -/

/-- the `_all_` token as a meta token; its bytes are `SV.Collector.allToken` -/
def allMT : SV.Collector.MetaToken := ⟨[95, 97, 108, 108, 95], []⟩

theorem allMT_bytes : allMT.bytes = SV.Collector.allToken := by decide

/-- a C07 document as a C17 meta -/
def toMetaAC (enc : Nat → SV.Collector.MetaToken) (d : Doc) : SV.Collector.Meta :=
  ⟨d.id, 1, allMT :: d.toks.map enc, 0⟩

/-- C07 position `(block, index in bulk)` as C17 position `(block, byte offset)` for documents of size 1 -/
def posOfAC (p : Nat × Nat) : SV.Collector.DocPos := (p.1, 5 * p.2)

theorem posOfAC_inj (x y : Nat × Nat) (h : posOfAC x = posOfAC y) : x = y := by
  obtain ⟨x1, x2⟩ := x
  obtain ⟨y1, y2⟩ := y
  simp only [posOfAC, Prod.mk.injEq] at h ⊢
  omega

/-- C07's shared state and C17's fraction describe the same index -/
structure ShRel (enc : Nat → SV.Collector.MetaToken) (sh : Sh) (a : SV.Collector.Active) : Prop where
  blocks : sh.blocks = a.blocks.length
  pos : a.dp = sh.pos.map fun e => (e.1, posOfAC e.2)
  ids : a.ids = SV.Collector.systemID :: sh.ids.map Doc.id
  all : SV.Collector.queue a SV.Collector.allToken = sh.all.map (· + 1)
  tok : ∀ t, SV.Collector.queue a (enc t).bytes = (sh.tok t).map (· + 1)
  range : (a.from_, a.to) = rangeToSentinel sh.range
  fromOk : a.from_ ≤ SV.Collector.maxU64
  total : a.docsTotal = sh.docsTotal

/-- `NewActive` -/
theorem shRel_init (enc : Nat → SV.Collector.MetaToken) (hall : ∀ t, (enc t).bytes ≠ SV.Collector.allToken) :
    ShRel enc SV.ActiveConc.init.sh SV.Collector.Active.empty := by
  refine ⟨rfl, rfl, rfl, by decide, ?_, rfl, Nat.le_refl _, rfl⟩
  intro t
  have h := hall t
  simp only [SV.Collector.queue, SV.Collector.Active.empty, List.lookup]
  have : ((enc t).bytes == SV.Collector.allToken) = false := by simpa using h
  rw [this]
  rfl

/-! ## the C17 side on such a bulk -/

theorem docsFrom_positions_AC (enc : Nat → SV.Collector.MetaToken) (b : Nat) (ds : List Doc) (off : Nat)
    (last : SV.Collector.DocPos) :
    (SV.Collector.docsFrom b (ds.map (toMetaAC enc)) off last).map (·.2.1) =
      (List.range' 0 ds.length).map fun j => (b, off + 5 * j) := by
  induction ds generalizing off last with
  | nil => rfl
  | cons d ds ih =>
    have hsz : (toMetaAC enc d).size ≠ 0 := by simp [toMetaAC]
    have hsz1 : (toMetaAC enc d).size = 1 := rfl
    simp only [List.map_cons, SV.Collector.docsFrom, hsz, if_false, List.length_cons, List.range'_succ]
    rw [ih, hsz1]
    congr 1
    apply List.ext_getElem
    · simp
    · intro k h1 h2
      simp only [List.getElem_map, List.getElem_range', Prod.mk.injEq, true_and]
      omega

theorem docsFrom_filter_toks_AC (enc : Nat → SV.Collector.MetaToken) (b : Nat) (ds : List Doc) (off : Nat)
    (last : SV.Collector.DocPos) (acc : List SV.Collector.ID) :
    ((SV.Collector.docsFrom b (ds.map (toMetaAC enc)) off last).filter fun d => decide (d.1 ∈ acc)).map (·.2.2) =
      (ds.filter fun d => decide (d.id ∈ acc)).map fun d => SV.Collector.allToken :: d.toks.map fun t => (enc t).bytes := by
  induction ds generalizing off last with
  | nil => rfl
  | cons d ds ih =>
    simp only [List.map_cons, SV.Collector.docsFrom, List.filter_cons]
    by_cases h : d.id ∈ acc
    · have h' : (toMetaAC enc d).id ∈ acc := h
      simp only [h, h', decide_true, if_true, List.map_cons, ih]
      congr 1
      simp [toMetaAC, allMT_bytes]
    · have h' : ¬ (toMetaAC enc d).id ∈ acc := h
      simp only [h, h', decide_false, Bool.false_eq_true, if_false, ih]

theorem dedupCollector_counter (a : SV.Collector.Active) (ms : List SV.Collector.Meta) :
    (SV.Collector.dedupCollector a ms).1.docsCounter =
      (SV.Collector.setMultiple a.dp (SV.Collector.collect a.blocks.length ms).ids
        (SV.Collector.collect a.blocks.length ms).positions).2.length ∧
    SV.Collector.MinMaxOk (SV.Collector.dedupCollector a ms).1 := by
  obtain ⟨-, -, hids, hcnt, -⟩ := SV.Collector.collect_spec a.blocks.length ms
  simp only [SV.Collector.dedupCollector]
  split
  · exact ⟨rfl, SV.Collector.minmax_filter _ _⟩
  · rename_i hlen
    have hlen' := Decidable.not_not.mp hlen
    exact ⟨by rw [hlen', hcnt, hids, List.length_map], SV.Collector.minmax_collect _ _⟩

theorem postingsT_AC_tok (encB : Nat → SV.Collector.Bytes) (henc : ∀ x y, encB x = encB y → x = y)
    (hall : ∀ t, encB t ≠ SV.Collector.allToken) (t : Nat) (kept : List Doc) (hnd : ∀ d ∈ kept, d.toks.Nodup) (base : Nat) :
    SV.Collector.postingsT (kept.map fun d => SV.Collector.allToken :: d.toks.map encB)
      (List.range' (base + 1) kept.length) (encB t) = (SV.ActiveConc.lidsWith t kept base).map (· + 1) := by
  induction kept generalizing base with
  | nil => rfl
  | cons d kept ih =>
    have hd := hnd d (by simp)
    have ih' := ih (fun d' hd' => hnd d' (List.mem_cons_of_mem _ hd')) (base + 1)
    simp only [SV.Collector.postingsT] at ih' ⊢
    have hne : ¬ SV.Collector.allToken = encB t := fun e => hall t e.symm
    have hb : (SV.Collector.allToken == encB t) = false := by simpa using hne
    simp only [List.map_cons, List.length_cons, List.range'_succ, List.zip_cons_cons, List.flatMap_cons,
      List.count_cons, hb, count_map_inj encB henc, SV.ActiveConc.lidsWith, ih', count_of_nodup _ hd]
    by_cases ht : t ∈ d.toks <;> simp [ht]

theorem postingsT_AC_all (encB : Nat → SV.Collector.Bytes) (hall : ∀ t, encB t ≠ SV.Collector.allToken)
    (kept : List Doc) (base : Nat) :
    SV.Collector.postingsT (kept.map fun d => SV.Collector.allToken :: d.toks.map encB)
      (List.range' (base + 1) kept.length) SV.Collector.allToken = (List.range' base kept.length).map (· + 1) := by
  induction kept generalizing base with
  | nil => rfl
  | cons d kept ih =>
    have ih' := ih (base + 1)
    simp only [SV.Collector.postingsT] at ih' ⊢
    have hc : (d.toks.map encB).count SV.Collector.allToken = 0 := by
      apply List.count_eq_zero_of_not_mem
      intro hm
      obtain ⟨t, -, e⟩ := List.mem_map.mp hm
      exact hall t e
    simp only [List.map_cons, List.length_cons, List.range'_succ, List.zip_cons_cons, List.flatMap_cons,
      List.count_cons, hc, ih']
    simp

theorem minOf_le (ids : List SV.Collector.ID) : SV.Collector.minOf ids ≤ SV.Collector.maxU64 := by
  unfold SV.Collector.minOf
  have : ∀ (init : Nat), ids.foldl (fun m id => if id.1 < m then id.1 else m) init ≤ init := by
    induction ids with
    | nil => intro init; exact Nat.le_refl _
    | cons x xs ih =>
      intro init
      simp only [List.foldl_cons]
      exact Nat.le_trans (ih _) (by split <;> omega)
  exact this _

/-! ## the relation is preserved by one bulk -/

/-- the computed final shared state of the C07 run is related to C17's `indexBulk` -/
theorem cons_appendWorker_activeconc_final_eq_collector_indexBulk (enc : Nat → SV.Collector.MetaToken)
    (henc : ∀ x y, (enc x).bytes = (enc y).bytes → x = y) (hall : ∀ t, (enc t).bytes ≠ SV.Collector.allToken)
    (c : Cfg) (sh : Sh) (a : SV.Collector.Active) (ds : List Doc) (hrel : ShRel enc sh a)
    (hnd : ∀ d ∈ ds, d.toks.Nodup) (hmid : ∀ d ∈ ds, d.mid ≤ SV.Collector.maxU64) :
    ShRel enc (acFinalSh c sh ds) (SV.Collector.indexBulk a (ds.map (toMetaAC enc))) := by
  obtain ⟨f1, f2, f3, f4, f5, -, f7, f8⟩ := acFinalSh_fields c sh ds
  have hb := hrel.blocks
  obtain ⟨hc0inv, hc0rv, hc0ids, -, -⟩ := SV.Collector.collect_spec a.blocks.length (ds.map (toMetaAC enc))
  have hids0 : (SV.Collector.collect a.blocks.length (ds.map (toMetaAC enc))).ids = ds.map Doc.id := by
    rw [hc0ids, List.map_map]; rfl
  have hpos0 : (SV.Collector.collect a.blocks.length (ds.map (toMetaAC enc))).positions =
      ((List.range' 0 ds.length).map fun j => (sh.blocks, j)).map posOfAC := by
    rw [← SV.Collector.rview_positions _ hc0inv.1, hc0rv, SV.Collector.docsOf, docsFrom_positions_AC, List.map_map, hb]
    apply List.map_congr_left
    intro j _
    simp [posOfAC]
  obtain ⟨hr1, hr2⟩ := cons_setMultiple_collector_rename posOfAC posOfAC_inj sh.pos (ds.map Doc.id)
    ((List.range' 0 ds.length).map fun j => (sh.blocks, j))
  obtain ⟨hs1, hs2⟩ := cons_setMultiple_activeconc_eq_collector sh.blocks ds 0 sh.pos
  have hSM1 : (SV.Collector.setMultiple a.dp (SV.Collector.collect a.blocks.length (ds.map (toMetaAC enc))).ids
      (SV.Collector.collect a.blocks.length (ds.map (toMetaAC enc))).positions).1 =
      (SV.ActiveConc.setMultiple sh.blocks ds 0 sh.pos).1.map fun e => (e.1, posOfAC e.2) := by
    rw [hrel.pos, hids0, hpos0, hr1, ← hs1]
  have hSM2 : (SV.Collector.setMultiple a.dp (SV.Collector.collect a.blocks.length (ds.map (toMetaAC enc))).ids
      (SV.Collector.collect a.blocks.length (ds.map (toMetaAC enc))).positions).2 =
      (SV.ActiveConc.setMultiple sh.blocks ds 0 sh.pos).2.map Doc.id := by
    rw [hrel.pos, hids0, hpos0, hr2, ← hs2]
  have hcids : (SV.Collector.dedupCollector a (ds.map (toMetaAC enc))).1.ids = (acKept sh ds).map Doc.id := by
    rw [cons_dedupCollector_ids_unconditional, hSM2, hids0]
    exact (cons_filter_activeconc_eq_collector ds _).symm
  obtain ⟨hcnt, hmm⟩ := dedupCollector_counter a (ds.map (toMetaAC enc))
  obtain ⟨hcinv, hrv⟩ := dedupCollector_rview a (ds.map (toMetaAC enc))
  have htoks : (SV.Collector.rview (SV.Collector.dedupCollector a (ds.map (toMetaAC enc))).1).map (·.2.2) =
      (acKept sh ds).map fun d => SV.Collector.allToken :: d.toks.map fun t => (enc t).bytes := by
    rw [hrv, SV.Collector.docsOf, hSM2, docsFrom_filter_toks_AC]
    unfold acKept
    congr 1
    apply List.filter_congr
    intro d _
    simp
  have hqT : ∀ tb, SV.Collector.queue (SV.Collector.indexBulk a (ds.map (toMetaAC enc))) tb =
      SV.Collector.queue a tb ++ SV.Collector.postingsT
        ((acKept sh ds).map fun d => SV.Collector.allToken :: d.toks.map fun t => (enc t).bytes)
        (List.range' (sh.ids.length + 1) (acKept sh ds).length) tb := by
    intro tb
    have hq0 : SV.Collector.queue (SV.Collector.indexBulk a (ds.map (toMetaAC enc))) tb = SV.Collector.queue a tb ++
        SV.Collector.postings (SV.Collector.rview (SV.Collector.dedupCollector a (ds.map (toMetaAC enc))).1)
          (List.range' a.ids.length (SV.Collector.dedupCollector a (ds.map (toMetaAC enc))).1.ids.length) tb :=
      SV.Collector.queue_step (SV.Collector.dedupCollector a (ds.map (toMetaAC enc))).1 _ hcinv (by simp) a.tokens tb
    rw [hq0, SV.Collector.postings_eq_T, htoks, hcids, hrel.ids]
    simp only [List.length_cons, List.length_map]
  have hkept_nd : ∀ d ∈ acKept sh ds, d.toks.Nodup := fun d hd => hnd d (List.mem_filter.mp hd).1
  have hkept_mid : ∀ d ∈ acKept sh ds, d.mid ≤ SV.Collector.maxU64 := fun d hd => hmid d (List.mem_filter.mp hd).1
  have hfrom : a.from_ = (rangeToSentinel sh.range).1 := by rw [← hrel.range]
  have hto : a.to = (rangeToSentinel sh.range).2 := by rw [← hrel.range]
  have hmin : (SV.Collector.dedupCollector a (ds.map (toMetaAC enc))).1.minMID =
      SV.Collector.minOf ((acKept sh ds).map Doc.id) := by rw [hmm.1, hcids]; rfl
  have hmax : (SV.Collector.dedupCollector a (ds.map (toMetaAC enc))).1.maxMID =
      SV.Collector.maxOf ((acKept sh ds).map Doc.id) := by rw [hmm.2, hcids]; rfl
  have hstats := cons_statsOf_activeconc_eq_collector (acKept sh ds) hkept_mid
  have hupd := cons_updateStats_activeconc_eq_collector sh.range (SV.ActiveConc.statsOf (acKept sh ds))
    (by rw [← hfrom]; exact hrel.fromOk) (by rw [hstats]; exact minOf_le _)
  refine ⟨?_, ?_, ?_, ?_, ?_, ?_, ?_, ?_⟩
  · rw [f1, hb]; simp [SV.Collector.indexBulk]
  · show (SV.Collector.dedupCollector a (ds.map (toMetaAC enc))).2 = _
    rw [f2]; exact hSM1
  · show a.ids ++ (SV.Collector.dedupCollector a (ds.map (toMetaAC enc))).1.ids = _
    rw [f3, hcids, hrel.ids]; simp
  · rw [hqT, f7, hrel.all, postingsT_AC_all (fun t => (enc t).bytes) hall, List.map_append]
  · intro t
    rw [hqT, f8, hrel.tok, postingsT_AC_tok (fun t => (enc t).bytes) henc hall t _ hkept_nd, List.map_append]
  · show ((if a.from_ > (SV.Collector.dedupCollector a (ds.map (toMetaAC enc))).1.minMID then
        (SV.Collector.dedupCollector a (ds.map (toMetaAC enc))).1.minMID else a.from_),
      (if a.to < (SV.Collector.dedupCollector a (ds.map (toMetaAC enc))).1.maxMID then
        (SV.Collector.dedupCollector a (ds.map (toMetaAC enc))).1.maxMID else a.to)) = _
    rw [f4, hupd, hstats, hmin, hmax, hfrom, hto]
  · show (if a.from_ > (SV.Collector.dedupCollector a (ds.map (toMetaAC enc))).1.minMID then
        (SV.Collector.dedupCollector a (ds.map (toMetaAC enc))).1.minMID else a.from_) ≤ _
    have := hrel.fromOk
    have := minOf_le ((acKept sh ds).map Doc.id)
    rw [hmin]
    split <;> omega
  · show a.docsTotal + (SV.Collector.dedupCollector a (ds.map (toMetaAC enc))).1.docsCounter = _
    rw [f5, hcnt, hSM2, List.length_map, hrel.total]

/-- **Go `appendWorker`, one whole iteration: C07's writer run = C17's `indexBulk`.**  From any state in which writer
`i` is idle and `TokenList.appendMu` is free, the uninterleaved label sequence `writerRun i ds` (`wNew, wBlock, wPos,
wIds, wTokGet, wToks, wQueue x (1 + #tokens), wStats`) is accepted step by step by `SV.ActiveConc.step` - for every
configuration `c` (either order of the `PutLIDsInQueue` calls) - and the shared state it ends in is related by `ShRel`
to `SV.Collector.indexBulk a (ds.map toMetaAC)` whenever the start state was related to `a`.  The lock is free again,
so the theorem chains over any sequence of bulks (one writer index per bulk).  Domain: see the file header. -/
theorem cons_appendWorker_activeconc_run_eq_collector_indexBulk (enc : Nat → SV.Collector.MetaToken)
    (henc : ∀ x y, (enc x).bytes = (enc y).bytes → x = y) (hall : ∀ t, (enc t).bytes ≠ SV.Collector.allToken)
    (c : Cfg) (s : St) (i : Nat) (ds : List Doc) (a : SV.Collector.Active)
    (hidle : (s.ws i).pc = .idle) (hlock : s.sh.lock = false) (hrel : ShRel enc s.sh a)
    (hnd : ∀ d ∈ ds, d.toks.Nodup) (hmid : ∀ d ∈ ds, d.mid ≤ SV.Collector.maxU64) :
    ∃ s', SV.ActiveConc.run c s (writerRun i ds) = some s' ∧
      ShRel enc s'.sh (SV.Collector.indexBulk a (ds.map (toMetaAC enc))) ∧ s'.sh.lock = false ∧ (s'.ws i).pc = .stats := by
  obtain ⟨s3, hrun, hsh, hpc⟩ := cons_appendWorker_activeconc_run_computed c s i ds hidle hlock
  refine ⟨s3, hrun, ?_, ?_, hpc⟩
  · rw [hsh]
    exact cons_appendWorker_activeconc_final_eq_collector_indexBulk enc henc hall c s.sh a ds hrel hnd hmid
  · rw [hsh]
    exact (acFinalSh_fields c s.sh ds).2.2.2.2.2.1

/-! ## non-vacuity: a concrete encoding and a concrete two-document bulk -/

/-- token number `n` as the meta token with key `[n]` and empty value: bytes `[n, ':']` -/
def encEx (n : Nat) : SV.Collector.MetaToken := ⟨[n], []⟩

theorem encEx_inj (x y : Nat) (h : (encEx x).bytes = (encEx y).bytes) : x = y := by
  simpa [encEx, SV.Collector.MetaToken.bytes] using h

theorem encEx_ne_all (t : Nat) : (encEx t).bytes ≠ SV.Collector.allToken := by
  simp [encEx, SV.Collector.MetaToken.bytes, SV.Collector.allToken]

/-- the main theorem instantiated: all hypotheses hold for the initial states and a bulk of two documents sharing
token 5 -/
example : ∃ s', SV.ActiveConc.run SV.ActiveConc.Cfg.asRead SV.ActiveConc.init
      (writerRun 0 [⟨1, 1, [5]⟩, ⟨2, 1, [5, 6]⟩]) = some s' ∧
    ShRel encEx s'.sh (SV.Collector.indexBulk SV.Collector.Active.empty
      ([⟨1, 1, [5]⟩, ⟨2, 1, [5, 6]⟩].map (toMetaAC encEx))) ∧ s'.sh.lock = false ∧ (s'.ws 0).pc = .stats :=
  cons_appendWorker_activeconc_run_eq_collector_indexBulk encEx encEx_inj encEx_ne_all _ SV.ActiveConc.init 0
    [⟨1, 1, [5]⟩, ⟨2, 1, [5, 6]⟩] SV.Collector.Active.empty rfl rfl (shRel_init encEx encEx_ne_all)
    (by intro d hd; simp only [List.mem_cons, List.not_mem_nil, or_false] at hd; rcases hd with rfl | rfl <;> decide)
    (by intro d hd; simp only [List.mem_cons, List.not_mem_nil, or_false] at hd; rcases hd with rfl | rfl <;> decide)

/-- the same run evaluated: C07's observable shared state ... -/
theorem cons_appendWorker_activeconc_run_example :
    (SV.ActiveConc.run SV.ActiveConc.Cfg.asRead SV.ActiveConc.init (writerRun 0 [⟨1, 1, [5]⟩, ⟨2, 1, [5, 6]⟩])).map
      (fun s => (s.sh.blocks, s.sh.pos, s.sh.ids.map Doc.id, s.sh.all, s.sh.tok 5, s.sh.tok 6, s.sh.docsTotal, s.sh.range)) =
    some (1, [((2, 1), (0, 1)), ((1, 1), (0, 0))], [(1, 1), (2, 1)], [0, 1], [0, 1], [1], 2, some (1, 2)) := by rfl

/-- ... and C17's fraction after `indexBulk` of the translated bulk: one block, positions at byte offsets `5 * index`,
the system id in front, every LID one higher, the sentinel range replaced -/
theorem cons_appendWorker_collector_indexBulk_example :
    let a := SV.Collector.indexBulk SV.Collector.Active.empty ([⟨1, 1, [5]⟩, ⟨2, 1, [5, 6]⟩].map (toMetaAC encEx))
    (a.blocks.length, a.dp, a.ids, SV.Collector.queue a SV.Collector.allToken, SV.Collector.queue a (encEx 5).bytes,
      SV.Collector.queue a (encEx 6).bytes, a.docsTotal, a.from_, a.to) =
    (1, [((2, 1), (0, 5)), ((1, 1), (0, 0))], [SV.Collector.systemID, (1, 1), (2, 1)], [1, 2], [1, 2], [2], 2, 1, 2) := by
  rfl

end SV.Consistency
