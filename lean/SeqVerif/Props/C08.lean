import SeqVerif.Proofs.SealCrash
import SeqVerif.Proofs.LifecycleInv
import SeqVerif.Model.BufWriter
import SeqVerif.Extracted.C08
/-!
# C08 - sealing is all-or-nothing under crashes and I/O errors

Model: `SV.FileSet` (Model/FileSet.lean: the nine files of a fraction, the loader's decision `classify`, `served`)
and `SV.SealOps` (Model/SealOps.lean: `writeIndex` = the calls on the index output section by section under a
fault oracle, `sealTrace` = the file operations of `proxyFrac.Seal` = `frac.Seal` + `Active.Release` in program order).
Everything the environment decides is an oracle argument: the answer (ok / error) to every `Seek`/`Write` on the
index output (`oi`) and to every `Write` on the sorted-docs output (`os`), the sizes of the sections (`Plan`), the
configuration (`SkipSortDocs`, `KeepMetaFile`), leftovers of earlier interrupted seals in the start state.
A crash leaves the directory in the state reached by a prefix of the trace; a file that is being written is `torn`
(any length).  What the source contributes is re-extracted on every run (`SV.Extracted.C08`): whether each block
generator hands a push error back (`srcFacts`), and the order of the operations (obligations `c08_x_*`).

Only property theorems and extracted-fact obligations live in this file.
-/
namespace SV.Props.C08
open SV.FileSet SV.SealOps SV.Extracted.C08

/-- the propagation facts of the four block generators as they are in /repo now -/
def srcFacts : Facts :=
  { tokensGen := tokensGenPropagates, tokenTableGen := tokenTableGenPropagates,
    idsGen := idsGenPropagates, lidsGen := lidsGenPropagates }

/-- **Obligation on the source**: every block generator returns the error of a failed `push`
(`if err := push(b); err != nil { return err }`).  The crash/fault theorems below are instantiated with it. -/
theorem c08_x_generators_propagate : srcFacts.all = true := by decide

/-- **C08 (crash and fault safety).**  For every configuration, every section sizing, every answer of the environment
to every write on the two outputs, and every start state with complete active files (plus arbitrary leftovers of an
earlier interrupted seal): after *any* prefix of the operations `proxyFrac.Seal` performs - i.e. a crash at any step,
or an error return at any step, the file being written torn at any length - a restart serves every document of the
fraction, from the complete active files or from a complete sealed copy. -/
theorem c08_crash_safe (c : Cfg) (p : Plan) (oi os : List Bool) (fs0 : FileSet) (u : List Suffix) (h0 : Start c fs0) :
    ∀ pre, pre <+: (sealTrace c srcFacts p oi os).2 → ∀ orphanFatal, served orphanFatal (applyOps pre ⟨fs0, u⟩).fs = .all :=
  ((along_iff Safe (RemoveOk c) _ _).mp (crash_safe c srcFacts p oi os fs0 u c08_x_generators_propagate h0)).1

/-- **C08 (originals outlive the copy).**  Whenever sealing removes `.docs` or `.meta`, the index is complete and
its directory entry is durable (renamed into place and the directory synced since), and so is `.sdocs` unless
documents are not re-sorted (then `.docs` is kept and serves the sealed fraction). -/
theorem c08_originals_outlive_copy (c : Cfg) (p : Plan) (oi os : List Bool) (fs0 : FileSet) (u : List Suffix)
    (h0 : Start c fs0) (pre : List Op) (s : Suffix) (hs : s = .docs ∨ s = .metaF)
    (h : pre ++ [.remove s] <+: (sealTrace c srcFacts p oi os).2) :
    (applyOps pre ⟨fs0, u⟩).fs.index = .full ∧ Suffix.index ∉ (applyOps pre ⟨fs0, u⟩).unsynced ∧
      (c.skipSortDocs = true ∨
        ((applyOps pre ⟨fs0, u⟩).fs.sdocs = .full ∧ Suffix.sdocs ∉ (applyOps pre ⟨fs0, u⟩).unsynced)) :=
  ((along_iff Safe (RemoveOk c) _ _).mp (crash_safe c srcFacts p oi os fs0 u c08_x_generators_propagate h0)).2
    pre (.remove s) h s rfl hs

/-- **C08 (durable before visible).**  In the operations of `proxyFrac.Seal` - whatever the configuration, the
generators, the sizes and the answers of the environment - every `rename` of an output to its final name comes when
the last thing that happened to that file was its `fsync` (no create or write in between): a file never becomes
visible under a name the loader trusts before its contents are durable.  The order on the real code is observed from
the system calls (channel seal.syscalls) and from the hook points (seal.trace). -/
theorem c08_durable_before_visible (c : Cfg) (f : Facts) (p : Plan) (oi os : List Bool) :
    syncedBeforeRename (sealTrace c f p oi os).2 (fun _ => true) = true :=
  sealTrace_syncedBeforeRename c f p oi os

/-- **C08 (a fraction can always be sealed again).**  Take any crash prefix of a seal (any write answers) that a
restart replays as an active fraction - with whatever temporary files, `.sdocs` or (documents not re-sorted) `.index`
the interrupted seal left.  That state is again a start state of sealing, so `c08_crash_safe`,
`c08_originals_outlive_copy` and `c08_published_complete` hold for the second seal; and a second seal whose writes all
succeed does succeed: opening the temporary files is `os.Create` (create or truncate - extracted, `c08_x_seal_order`)
and cannot trip over the leftovers. -/
theorem c08_reseal_after_crash (c : Cfg) (p p' : Plan) (oi os : List Bool) (fs0 : FileSet) (u : List Suffix)
    (hd : ¬ Lifecycle.Del fs0) (h0 : Lifecycle.ShapeA c fs0) (pre : List Op)
    (hp : pre <+: (sealTrace c srcFacts p oi os).2)
    (ha : classify (applyOps pre ⟨fs0, u⟩).fs = .active) :
    Start c (applyOps pre ⟨fs0, u⟩).fs ∧ (sealTrace c srcFacts p' [] []).1 = true := by
  have hal := Lifecycle.seal_along c srcFacts p oi os fs0 u c08_x_generators_propagate hd h0
  exact ⟨Lifecycle.sealShape_active_start c _ (((along_iff _ _ _ _).mp hal).1 pre hp) ha, sealTrace_nofault c srcFacts p'⟩

/-- **C08 (the buffered writer under the sorted-docs output loses nothing and hides no error).**  `bytespool.Writer`
(`SV.BufWriter`, statement by statement) for every buffer capacity, every sequence of `Write`s and `Flush`es and every
behaviour of the downstream writer (each call: all bytes taken, or an error / short write after any number of bytes):
if no call of the sequence returned an error then the bytes delivered downstream, followed by those still buffered,
are exactly the concatenation of the written slices, and every downstream answer consumed was a success - so a failed
downstream write is reported by the very `Write` or `Flush` in which it happened.  After a final `Flush` the buffer is
empty, i.e. the file holds the concatenation. -/
theorem c08_writer_exact (C : Nat) (cmds : List BufWriter.Cmd) (s : BufWriter.St)
    (h : ∀ r ∈ (BufWriter.exec C cmds s).1, r = true) :
    (BufWriter.exec C cmds s).2.all = s.all ++ (cmds.map BufWriter.Cmd.data).flatten ∧
      BufWriter.CleanBetween s (BufWriter.exec C cmds s).2 :=
  BufWriter.exec_ok C cmds s h

theorem c08_writer_flushed (C : Nat) (cmds : List BufWriter.Cmd) (s : BufWriter.St)
    (h : ∀ r ∈ (BufWriter.exec C (cmds ++ [.f]) s).1, r = true) :
    (BufWriter.exec C (cmds ++ [.f]) s).2.buf = [] :=
  BufWriter.exec_flush_ok C cmds s h

/-- **C08 (a failed seal is not published), index output.**  If any `Seek`/`Write` that was issued on the index
output got an error, `Seal` fails: `._index` is not renamed to `.index` and nothing is released. -/
theorem c08_error_not_published (c : Cfg) (p : Plan) (oi os : List Bool)
    (h : false ∈ oi.take (writeIndex srcFacts p { oracle := oi }).2.calls) :
    (sealTrace c srcFacts p oi os).1 = false ∧ Op.rename .indexTmp .index ∉ (sealTrace c srcFacts p oi os).2 ∧
      ∀ s, Op.remove s ∉ (sealTrace c srcFacts p oi os).2 := by
  have hw := writeIndex_fault srcFacts p oi c08_x_generators_propagate h
  have h1 : (sealTrace c srcFacts p oi os).1 = false := by rw [sealTrace_ok, hw, Bool.and_false]
  refine ⟨h1, fun hm => ?_, fun s hm => ?_⟩
  · rw [rename_index_mem _ _ _ _ _ hm] at h1; cases h1
  · rw [remove_mem _ _ _ _ _ _ hm] at h1; cases h1

/-- **C08 (a failed seal is not published), sorted-docs output.**  If one of the writes to `._sdocs` fails, `Seal`
fails before anything is renamed or removed (whatever the generators do). -/
theorem c08_sdocs_error_not_published (keep : Bool) (f : Facts) (p : Plan) (oi os : List Bool)
    (h : false ∈ os.take p.sdocs) :
    (sealTrace ⟨false, keep⟩ f p oi os).1 = false ∧ (∀ a b, Op.rename a b ∉ (sealTrace ⟨false, keep⟩ f p oi os).2) ∧
      ∀ s, Op.remove s ∉ (sealTrace ⟨false, keep⟩ f p oi os).2 := by
  have hs : (sortedDocsOps p.sdocs os).1 = false := by
    cases hb : (sortedDocsOps p.sdocs os).1
    · rfl
    · exact absurd h ((sortedDocsOps_ok_iff _ _).mp hb)
  have h1 : (sealTrace ⟨false, keep⟩ f p oi os).1 = false := by rw [sealTrace_ok, hs]; rfl
  refine ⟨h1, fun a b => sdocs_fail_no_rename keep f p oi os hs a b, fun s hm => ?_⟩
  rw [remove_mem _ _ _ _ _ _ hm] at h1; cases h1

/-- **C08 (what is published is complete).**  If `proxyFrac.Seal` succeeds then every planned call on the index
output was issued and none of them got an error, and (when documents are re-sorted) every write of `._sdocs`
succeeded. -/
theorem c08_published_complete (c : Cfg) (p : Plan) (oi os : List Bool)
    (h : (sealTrace c srcFacts p oi os).1 = true) :
    (writeIndex srcFacts p { oracle := oi }).2.calls = p.indexCalls ∧ false ∉ oi.take p.indexCalls ∧
      (c.skipSortDocs = false → false ∉ os.take p.sdocs) := by
  rw [sealTrace_ok, Bool.and_eq_true, Bool.or_eq_true] at h
  have := writeIndex_ok srcFacts p oi c08_x_generators_propagate h.2
  refine ⟨this.1, this.2, fun hc => ?_⟩
  rcases h.1 with h1 | h1
  · rw [hc] at h1; cases h1
  · exact (sortedDocsOps_ok_iff _ _).mp h1

/-- **C08 (temporary files are never loaded).**  The loader's decision and what is served do not depend on
`._sdocs` / `._index`. -/
theorem c08_loader_ignores_tmp (o : Bool) (fs : FileSet) (a b : Content) :
    classify { fs with sdocsTmp := a, indexTmp := b } = classify fs ∧
      served o { fs with sdocsTmp := a, indexTmp := b } = served o fs :=
  ⟨classify_tmp fs a b, served_tmp o fs a b⟩

/-- **Why the obligation is needed (the defect found in /repo before the repair).**  With the ID and LID generators
as they were (`return nil` on a push error) a single failing write in the ids section is dropped: `Seal` succeeds,
the index with a hole is renamed into place, the originals are removed, and after a restart the fraction is served
from incomplete files. -/
theorem c08_dropped_error_publishes_hole :
    let defect : Facts := { tokensGen := true, tokenTableGen := true, idsGen := false, lidsGen := false }
    let p : Plan := { sdocs := 1, tokens := 2, tokensTail := 2, tokenTable := 0, tokenTableTail := 2, ids := 6, lids := 2 }
    let oi := List.replicate 11 true ++ [false]          -- the 12th call (second call of the ids section) fails
    let fs0 : FileSet := { docs := .full, metaF := .full }
    (sealTrace ⟨false, false⟩ defect p oi []).1 = true ∧
      (applyOps (sealTrace ⟨false, false⟩ defect p oi []).2 ⟨fs0, []⟩).fs =
        { sdocs := .full, index := .holed } ∧
      served true (applyOps (sealTrace ⟨false, false⟩ defect p oi []).2 ⟨fs0, []⟩).fs = .part := by
  decide

/-! ## Obligations on facts re-extracted from /repo on every run -/

/-- every other `if err != nil` on the sealing path returns the error (or panics): `frac.Seal`, `syncRename`,
`writeSortedDocs`, `writeSealedFraction`, the sorted-docs block writer, the section writers, `BlocksWriter`,
`BlockFormer.FlushForced`, `bytespool.Writer`; and both `Seal`s check the error of the step before publishing -/
theorem c08_x_direct_sites_propagate :
    sealPropagates = true ∧ sealChecksWriteError = true ∧ syncRenamePropagates = true ∧
      writeSortedDocsPropagates = true ∧ writeSealedPropagates = true ∧ sdocsWriterPropagates = true ∧
      sectionWritersPropagate = true ∧ blocksWriterPropagates = true ∧ blockFormerPropagates = true ∧
      bufWriterPropagates = true ∧ proxySealChecksError = true := by decide

/-- `frac.Seal`: create `._index`, skip the 16-byte header, write everything, `syncRename` to `.index`, sync the directory -/
theorem c08_x_seal_order :
    sealCalls = ["os.Create", "indexFile.Seek", "writeSealedFraction", "syncRename", "util.MustSyncPath"] ∧
      sealNames = ["os.Create f.BaseFileName + consts.IndexTmpFileSuffix", "syncRename f.BaseFileName + consts.IndexFileSuffix"] ∧
      -- both temporary files are opened with os.Create (O_CREATE|O_TRUNC, never O_EXCL): `Op.create` is total
      indexTmpOpen = ["os.Create"] ∧ sdocsTmpOpen = ["os.Create"] := by
  decide

/-- `syncRename`: fsync the file, then rename it -/
theorem c08_x_syncRename_order : syncRenameCalls = ["f.Sync", "os.Rename", "f.Close", "os.OpenFile"] := by decide

/-- `writeSortedDocs` (only when `!SkipSortDocs`): create `._sdocs`, write, `syncRename` to `.sdocs` -/
theorem c08_x_sortedDocs_order :
    writeSortedDocsCalls = ["os.Create", "writeDocsInOrder", "syncRename"] ∧
      writeSortedDocsNames = ["os.Create f.BaseFileName + consts.SdocsTmpFileSuffix", "syncRename f.BaseFileName + consts.SdocsFileSuffix"] ∧
      writeSortedDocsGuard = "!f.Config.SkipSortDocs" ∧
      -- the block offsets and positions it returns are copies: the pooled `docBlocksWriter` they come from is handed
      -- back by the deferred `putDocBlocksWriter` and may be refilled by an overlapping seal (oracle seal.overlap)
      writeSortedDocsReturn = ["sdocsFile", "slices.Clone(bw.BlockOffsets)", "maps.Clone(bw.Positions)", "nil"] ∧
      -- a block's offset is the sum of the lengths of the blocks written before it (oracle sdocs.offsets)
      flushBlockOffsets = ["w.BlockOffsets = append(w.BlockOffsets, w.currentBlockOffset)",
        "w.currentBlockOffset += uint64(blockLen)"] := by decide

/-- `writeSealedFraction`: sorted docs first, then the index sections in the order `writeIndex` models; a block is
`Seek` + `Write`, the registry `Seek, Write, Seek, Write` (the last `Write` is the 16-byte header at offset 0), and in
both functions the error of each call is returned at once - which is what `W.run` models -/
theorem c08_x_sections_order :
    writeSealedCalls = ["writeSortedDocs", "writer.writeInfoBlock", "writer.writeTokensBlocks", "writer.writeTokenTableBlocks",
      "writer.writePositionsBlock", "writer.writeIDsBlocks", "writer.writeLIDsBlocks", "writer.WriteRegistryBlock"] ∧
      writeBlockCalls = ["w.writeSeeker.Seek", "w.writeSeeker.Write"] ∧
      writeRegistryCalls = ["w.writeSeeker.Seek", "w.writeSeeker.Write", "w.writeSeeker.Seek", "w.writeSeeker.Write"] ∧
      -- statement order inside the two functions: every call's error is returned before the next statement runs
      writeBlockFlow = ["Seek!", "Write!"] ∧ writeRegistryFlow = ["Seek!", "Write!", "Seek!", "Write!"] := by decide

/-- `proxyFrac.Seal` releases the active fraction only after `frac.Seal` returned and the sealed object exists;
`Release` removes `.meta` unless `KeepMetaFile` and `.docs` unless `SkipSortDocs` -/
theorem c08_x_release_order :
    proxySealCalls = ["frac.Seal", "f.fp.NewSealedPreloaded", "active.Release"] ∧
      releaseCalls = ["!f.Config.KeepMetaFile => f.removeMetaFile", "!f.Config.SkipSortDocs => f.removeDocsFiles"] ∧
      removeMetaFileCalls = ["os.Remove(f.metaFile.Name())"] ∧ removeDocsFilesCalls = ["os.Remove(f.docsFile.Name())"] ∧
      newActiveFiles = ["baseFileName + consts.DocsFileSuffix", "baseFileName + consts.MetaFileSuffix"] := by decide

/-- the loader: temporary suffixes skipped, one flag per suffix, the rules of `filterInfos` and the branches of
`load` exactly as `SV.FileSet.classifyInfo` / `loadEffect` have them (the fourth rule - what happens to a fraction
with .docs/.sdocs but neither .meta nor .index - is the extracted fact `orphanFatal`, which sealing never meets),
`openDocs` tries `.docs` before `.sdocs` -/
theorem c08_x_loader :
    makeInfosSkip = ["suffix == consts.IndexTmpFileSuffix || suffix == consts.SdocsTmpFileSuffix"] ∧
      makeInfosCases = ["consts.DocsFileSuffix => info.hasDocs = true", "consts.DocsDelFileSuffix => info.hasDocsDel = true",
        "consts.SdocsFileSuffix => info.hasSdocs = true", "consts.SdocsDelFileSuffix => info.hasSdocsDel = true",
        "consts.IndexFileSuffix => info.hasIndex = true", "consts.IndexDelFileSuffix => info.hasIndexDel = true",
        "consts.MetaFileSuffix => info.hasMeta = true", "default => logger.Fatal"] ∧
      filterInfosRules.take 3 = ["info.hasDocsDel || info.hasIndexDel || info.hasSdocsDel => removeFractionFiles; continue",
        "!info.hasDocs && !info.hasSdocs => continue", "info.hasMeta || info.hasIndex => keep; continue"] ∧
      filterInfosRules.length = 4 ∧ (orphanFatal = true ∨ orphanFatal = false) ∧
      loadBranches = ["info.hasSdocs && info.hasIndex => if hasMeta removeFile(meta); if hasDocs removeFile(docs); loadSealedFrac",
        "!(info.hasSdocs && info.hasIndex) && info.hasMeta => NewActive",
        "!(info.hasSdocs && info.hasIndex) && !(info.hasMeta) => loadSealedFrac"] ∧
      openDocsOrder = ["f.BaseFileName + consts.DocsFileSuffix", "f.BaseFileName + consts.SdocsFileSuffix"] := by decide

/-- the nine suffixes are pairwise different, and the temporary ones are what `makeInfos` compares against -/
theorem c08_x_suffixes :
    [sufDocs, sufDocsDel, sufSdocs, sufSdocsTmp, sufSdocsDel, sufIndex, sufIndexTmp, sufIndexDel, sufMeta].Nodup := by decide

/-! ## Non-vacuity -/

/-- `Start` is met by the state a running store has (complete active files), with or without leftovers -/
example : Start ⟨false, false⟩ { docs := .full, metaF := .full } := by simp [Start]
example : Start ⟨false, true⟩ { docs := .full, metaF := .full, sdocs := .full, sdocsTmp := .torn, indexTmp := .holed } := by simp [Start]
example : Start ⟨true, false⟩ { docs := .full, metaF := .full, indexTmp := .torn, index := .full } := by simp [Start]

/-- a successful seal with re-sorting: 12 operations, the last two remove the originals, and the result is a
complete sealed fraction -/
example :
    let p : Plan := { sdocs := 2, tokens := 2, tokensTail := 2, tokenTable := 0, tokenTableTail := 2, ids := 6, lids := 2 }
    sealTrace ⟨false, false⟩ ⟨true, true, true, true⟩ p [] [] =
      (true, [.create .indexTmp, .create .sdocsTmp, .write .sdocsTmp, .write .sdocsTmp, .sync .sdocsTmp,
        .rename .sdocsTmp .sdocs, .write .indexTmp, .sync .indexTmp, .rename .indexTmp .index, .syncDir,
        .remove .metaF, .remove .docs]) ∧
    (applyOps (sealTrace ⟨false, false⟩ ⟨true, true, true, true⟩ p [] []).2 ⟨{ docs := .full, metaF := .full }, []⟩).fs =
      { sdocs := .full, index := .full } := by decide

/-- the writer theorem has content: a buffer of 4, writes of 3 + 3 + 1 bytes and a flush deliver 0..6 in two
downstream calls; with the first downstream call failing the second `Write` reports it -/
example : (BufWriter.exec 4 [.w [0, 1, 2], .w [3, 4, 5], .w [6], .f] {}) =
    ([true, true, true, true], { buf := [], out := [0, 1, 2, 3, 4, 5, 6], oracle := [] }) := by decide
example : (BufWriter.exec 4 [.w [0, 1, 2], .w [3, 4, 5]] { oracle := [some 1] }).1 = [true, false] := by decide

/-- the checker is not vacuous: the same operations with `rename` and `sync` swapped are rejected -/
example : syncedBeforeRename [.create .indexTmp, .write .indexTmp, .rename .indexTmp .index, .sync .index] (fun _ => true) = false := by
  decide

/-- a failing write in the lids section with propagating generators: error, nothing renamed, nothing removed -/
example :
    let p : Plan := { sdocs := 0, tokens := 2, tokensTail := 2, tokenTable := 0, tokenTableTail := 2, ids := 6, lids := 2 }
    sealTrace ⟨true, false⟩ ⟨true, true, true, true⟩ p (List.replicate 16 true ++ [false]) [] =
      (false, [.create .indexTmp, .write .indexTmp]) := by decide

end SV.Props.C08
