import SeqVerif.Model.Repetitions
import SeqVerif.Extracted.C17T
/-!
# C17 - the ID order, ID equality and histogram correction of the model = mechanical translation of `seq/seq.go`, `seq/qpr.go`

`SV.Extracted.C17.T` is produced by `extract/cmd/c17t` (translator `extract/xlate`, prelude `Base/GoInt.lean`):
`seq.Less`, `seq.LessOrEqual`, `ID.Equal` (struct parameters flattened to `MID`, `RID`) and the bucket statements of
`removeHistogramRepetition`.  `SV.Repetitions` sorts with `idLe`, drops adjacent entries whose IDs are equal
(`last.1 ≠ x.1` in `removeLoop`) and corrects the histogram at `bucketOf`.
-/
namespace SV.Props.C17
open SV.Repetitions SV.Go
open SV.Extracted.C17

/-- `seq.LessOrEqual(a, b)` is the ascending sort key of the model, its mirror image the descending one -/
theorem c17_t_LessOrEqual (a b : IDSource) :
    T.LessOrEqual a.1.1 a.1.2 b.1.1 b.1.2 = idLe true a b ∧ T.LessOrEqual b.1.1 b.1.2 a.1.1 a.1.2 = idLe false a b := by
  unfold T.LessOrEqual idLe
  constructor
  · by_cases h : a.1.1 = b.1.1
    · have h' : (a.1.1 : Int) = (b.1.1 : Int) := by omega
      by_cases h2 : a.1.2 ≤ b.1.2
      · have : (a.1.2 : Int) ≤ (b.1.2 : Int) := by omega
        simp [h, h2, this]
      · have : ¬ (a.1.2 : Int) ≤ (b.1.2 : Int) := by omega
        simp [h, h2, this]
    · have h' : ¬ ((a.1.1 : Int) = (b.1.1 : Int)) := by omega
      by_cases h2 : a.1.1 < b.1.1
      · have : (a.1.1 : Int) < (b.1.1 : Int) := by omega
        simp [h', h2, this]
      · have : ¬ (a.1.1 : Int) < (b.1.1 : Int) := by omega
        simp [h, h', h2, this]
  · by_cases h : a.1.1 = b.1.1
    · have h' : (b.1.1 : Int) = (a.1.1 : Int) := by omega
      by_cases h2 : b.1.2 ≤ a.1.2
      · have : (b.1.2 : Int) ≤ (a.1.2 : Int) := by omega
        simp [h, h2, this]
      · have : ¬ (b.1.2 : Int) ≤ (a.1.2 : Int) := by omega
        simp [h, h2, this]
    · have h' : ¬ ((b.1.1 : Int) = (a.1.1 : Int)) := by omega
      have hne : ¬ (b.1.1 = a.1.1) := fun e => h e.symm
      by_cases h2 : b.1.1 < a.1.1
      · have : (b.1.1 : Int) < (a.1.1 : Int) := by omega
        simp [h', h2, this]
      · have : ¬ (b.1.1 : Int) < (a.1.1 : Int) := by omega
        simp [h, h', h2, this]

/-- `seq.Less(a, b)` is the strict part: `LessOrEqual` without equality -/
theorem c17_t_Less (a b : ID) :
    T.Less a.1 a.2 b.1 b.2 = (T.LessOrEqual a.1 a.2 b.1 b.2 && !T.ID_Equal a.1 a.2 b.1 b.2) := by
  unfold T.Less T.LessOrEqual T.ID_Equal
  by_cases h : (a.1 : Int) = (b.1 : Int)
  · by_cases h2 : (a.2 : Int) < (b.2 : Int)
    · have h3 : (a.2 : Int) ≤ (b.2 : Int) := by omega
      have h4 : ¬ ((a.2 : Int) = (b.2 : Int)) := by omega
      simp [h, h2, h3, h4]
    · by_cases h3 : (a.2 : Int) ≤ (b.2 : Int)
      · have h4 : (a.2 : Int) = (b.2 : Int) := by omega
        simp [h, h4]
      · simp [h, h2, h3]
  · simp [h]

/-- `ID.Equal` is equality of the pair: the test `last.1 ≠ x.1` of `removeLoop` is `!lastID.ID.Equal(ids[i].ID)` -/
theorem c17_t_Equal (a b : ID) : T.ID_Equal a.1 a.2 b.1 b.2 = decide (a = b) := by
  unfold T.ID_Equal
  by_cases h : a = b
  · subst h; simp
  · have : ¬ ((a.1 : Int) = (b.1 : Int) ∧ (a.2 : Int) = (b.2 : Int)) := by
      intro ⟨h1, h2⟩
      apply h
      have e1 : a.1 = b.1 := by omega
      have e2 : a.2 = b.2 := by omega
      exact Prod.ext e1 e2
    simp [h, this]

/-- the bucket `removeHistogramRepetition` decrements = `Repetitions.bucketOf` (positive interval: `histInterval > 0`
is tested by the caller; a uint64 MID) -/
theorem c17_t_bucketOf (id : ID) (interval : Nat) (hi : 0 < interval) (hm : id.1 < 18446744073709551616) :
    T.bucketOf id.1 interval = some (bucketOf id interval : Int) := by
  unfold T.bucketOf bucketOf
  have hne : ¬ ¬ ((interval : Int) ≠ 0) := by omega
  have hmod : (id.1 : Int) % (interval : Int) = ((id.1 % interval : Nat) : Int) := (Int.natCast_emod _ _).symm
  have hle : id.1 % interval ≤ id.1 := Nat.mod_le _ _
  simp only [if_neg hne, hmod, Option.some.injEq]
  unfold wrapU64; omega

end SV.Props.C17
