import SeqVerif.Model.Fields
import SeqVerif.Extracted.C20T
/-!
# C20 - the mode decisions of the fields pipe in the model = mechanical translation of the Go source

`SV.Extracted.C20.T` is produced by `extract/cmd/c20t` (translator `extract/xlate`, prelude `Base/GoInt.lean`):
statement slices (conditions) of `storeapi.docFieldsFilter.filterFields` - document returned verbatim when the filter
has no fields or the document is empty; block-list branch when `!AllowList` - and of `parser.parsePipeFields`
(`fields` keyword required, `except` keyword switches the mode).  `Fields.filterFields` branches on the same facts.
-/
namespace SV.Props.C20
open SV.Fields SV.Go
open SV.Extracted.C20

/-- the two branch conditions of `filterFields` are the model's: `fields.isEmpty ∨ emptyDoc`, then `allowList` -/
theorem c20_t_filterFields_mode {K V : Type} [DecidableEq K] (allowList isObject : Bool) (fields : List K) (doc : List (Fld K V))
    (fieldNames : List (List Int)) (docBytes : List Int) (hf : fieldNames.length = fields.length) :
    filterFields allowList fields (decide (docBytes = [])) isObject doc =
      if T.verbatimCond docBytes fieldNames then .verbatim
      else if !isObject then .verbatim
      else if T.blockListCond allowList then .encoded (filterExcept fields doc)
      else .encoded (filterAllow fields doc) := by
  unfold filterFields T.verbatimCond T.blockListCond len
  have e1 : ((fieldNames.length : Int) = 0) ↔ fields.isEmpty = true := by
    rw [hf]; cases fields <;> simp <;> omega
  have e2 : ((docBytes.length : Int) = 0) ↔ docBytes = [] := by cases docBytes <;> simp <;> omega
  simp only [e1, e2, decide_eq_true_eq]
  by_cases h : fields.isEmpty = true ∨ docBytes = []
  · have h' : fields = [] ∨ docBytes = [] := by
      rcases h with h | h
      · exact Or.inl (List.isEmpty_iff.mp h)
      · exact Or.inr h
    simp [h']
  · have h' : ¬ (fields = [] ∨ docBytes = []) := by
      intro hc; apply h
      rcases hc with hc | hc
      · exact Or.inl (List.isEmpty_iff.mpr hc)
      · exact Or.inr hc
    simp only [h, if_false]
    cases isObject <;> cases allowList <;> simp

/-- `parsePipeFields`: the pipe is refused unless the token is the keyword `fields`; the mode is `except` exactly when
the next token is the keyword `except` (an unquoted token equal to it under `strings.EqualFold`) -/
theorem c20_t_pipe_keywords (tok : List Int) (quoted : Bool) (ef : List Int → List Int → Bool) :
    T.missingFieldsKw tok quoted ef = !(!quoted && ef tok [102, 105, 101, 108, 100, 115])
    ∧ T.exceptKw tok quoted ef = (!quoted && ef tok [101, 120, 99, 101, 112, 116]) := by
  unfold T.missingFieldsKw T.exceptKw T.lexer_IsKeyword
  cases quoted <;> simp

/-- the byte lists above spell the keywords -/
example : ("fields".toList.map fun c => (c.toNat : Int)) = [102, 105, 101, 108, 100, 115]
    ∧ ("except".toList.map fun c => (c.toNat : Int)) = [101, 120, 99, 101, 112, 116] := by decide

end SV.Props.C20
