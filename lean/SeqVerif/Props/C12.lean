import SeqVerif.Model.ParserTok
import SeqVerif.Model.SeqQLFilterLemmas
import SeqVerif.Model.LegacyParserLemmas
import SeqVerif.Model.SeqQLLexerLemmas
import SeqVerif.Model.TokenizerLemmas
import SeqVerif.Extracted.C12
import SeqVerif.Props.C02
/-!
# C12 - query parsing is total and preserves the boolean meaning of the query

Model (SeqVerif/Model): `Ast.lean` (`parser.ASTNode`, evaluation as `buildEvalTree` + the node package do it,
`propagateNot` statement by statement, `finish` = the `if not { root = newNotNode(root) }` tail of both entry points),
`ParserCore.lean` (the accumulator loops of `parseSeqQLFilter`/`parseSeqQLSubexpr` and of legacy
`parseExpr`/`parseSubexpr` over an arbitrary token type, the pipe tail and the `lex.IsEnd()` check of `ParseSeqQL`),
`ParserGrammar.lean` (reference grammar `G` = the documented reading), `ParserTok.lean` (abstract alphabet, the field
type switch of `parseFulltextSearchFilter` / `parseLiteral`, renderers).
Only property theorems, extracted-fact obligations and non-vacuity examples live in this file.
-/
namespace SV.Props.C12
open SV.Parser

variable {τ α : Type}

/-! ## NOT propagation (De Morgan / NAND fusion) keeps the meaning -/

/-- **`propagateNot` is sound**: for every tree the parsers can build (no NAND yet) and every assignment of document
sets to the leaves, the rewritten tree, negated iff the returned flag is set, selects the same documents. -/
theorem c12_propagateNot_sound (env : α → Bool) (t : Ast α) (h : t.NoNand) :
    (((propagateNot t).1.eval env) != (propagateNot t).2) = t.eval env :=
  propagateNot_sound env t h

/-- the rewritten tree has no NOT node at all (only AND / OR / NAND) and exactly the leaves of the original -/
theorem c12_propagateNot_shape (t : Ast α) :
    (propagateNot t).1.NotFree ∧ ((propagateNot t).1.leaves).Perm t.leaves :=
  ⟨propagateNot_notFree t, propagateNot_leaves t⟩

/-- what `ParseSeqQL` / `ParseQuery` return (`propagateNot` plus at most one NOT at the root) means the same as the
tree that was parsed -/
theorem c12_finish_sound (env : α → Bool) (t : Ast α) (h : t.NoNand) :
    (finish t).eval env = t.eval env ∧ ((finish t).NotFree ∨ ∃ c, finish t = .not c ∧ c.NotFree) :=
  ⟨finish_sound env t h, finish_shape t⟩

/-! ## precedence: the accumulators implement the documented reading -/

/-- **SeqQL precedence.**  For every token type, every field-filter parser that consumes at least one token
(`S.Good`) and every written expression `ts` of the reference grammar (`not` > `and` > `or`, left associative,
parentheses group - with any amount of redundant parentheses) denoting the tree `e`:
`parseSeqQLFilter` returns exactly `e`, and the query `ParseSeqQL` returns selects the documents `e` denotes. -/
theorem c12_seqql_precedence {S : Skel τ α} (hS : S.Good) {sep : τ → Prop} {k : Nat} {ts : List τ} {e : Ast α}
    (h : G S sep 0 true k ts e) (hk : S.fits k) :
    sqParseRaw S ts = .ok e ∧ sqParse S ts = .ok (finish e) ∧ ∀ env, (finish e).eval env = e.eval env := by
  have h1 : sqFilter S (fuelFor ts) ts 0 0 = .ok (e, []) := by
    have := sqFilter_complete hS h [] 0 (fuelFor ts) 0 (by simp) (Or.inl rfl) (Or.inl rfl) (by simpa using hk) (by simp [fuelFor])
    simpa using this
  have h2 : sqParseRaw S ts = .ok e := by simp [sqParseRaw, h1]
  exact ⟨h2, by simp [sqParse, h2], fun env => finish_sound env e h.noNand⟩

/-- the same with a pipe tail: `<expression> | <pipes>` -/
theorem c12_seqql_precedence_pipes {S : Skel τ α} (hS : S.Good) {sep : τ → Prop} {k : Nat} {ts : List τ} {e : Ast α}
    (h : G S sep 0 true k ts e) (hk : S.fits k) (p : τ) (tail : List τ) (hp : S.kind p = .pipe) (hsep : sep p)
    (hpipes : S.pipes (p :: tail) = .ok ()) :
    sqParse S (ts ++ p :: tail) = .ok (finish e) := by
  have h1 := sqFilter_complete hS h (p :: tail) 0 (fuelFor (ts ++ p :: tail)) 0 (by simp)
    (Or.inr ⟨p, tail, rfl, hsep⟩) (Or.inr ⟨p, tail, rfl, Or.inl hp⟩) (by simpa using hk) (by simp [fuelFor])
  simp [sqParse, sqParseRaw, h1, hp, hpipes]

/-- **legacy precedence**: the same statement for `parseExpr` (`leftLow` / `leftHigh`) and `ParseQuery`;
the legacy language has no `|` and no bare `*`, hence the grammar over `S.legacy`. -/
theorem c12_legacy_precedence {S : Skel τ α} (hS : S.Good) {sep : τ → Prop} {k : Nat} {ts : List τ} {e : Ast α}
    (h : G S.legacy sep 0 true k ts e) (hk : S.fits k) :
    lgParseRaw S ts = .ok e ∧ lgParse S ts = .ok (finish e) ∧ ∀ env, (finish e).eval env = e.eval env := by
  have h1 : lgExpr S (fuelFor ts) ts 0 0 = .ok (e, []) := by
    rw [(lg_eq_sq S _).2.1]
    have := sqFilter_complete (S.legacy_good hS) h [] 0 (fuelFor ts) 0 (by simp) (Or.inl rfl) (Or.inl rfl)
      (by simpa using hk) (by simp [fuelFor])
    simpa using this
  have h2 : lgParseRaw S ts = .ok e := by simp [lgParseRaw, h1]
  exact ⟨h2, by simp [lgParse, h2], fun env => finish_sound env e h.noNand⟩

/-- **parse ∘ render = id, for both parsers and both parenthesisations** (abstract alphabet): every NAND-free tree
over filters of a keyword / text / path field whose height fits under the nesting limit (2 * height ≤ limit), written
with minimal parentheses or with parentheses around every operator, is parsed back to itself; the returned query
means what the tree means. -/
theorem c12_render_roundtrip (dpS dpL : Bool) (mxS mxL : Option Nat) (m : Nat → FType) (fid : Nat)
    (hf : (m fid).searchable = true) (e : Ast Nat) (h : e.NoNand)
    (hS : (tokSeqQL dpS mxS m).fits (2 * e.height)) (hL : (tokLegacy dpL mxL m).fits (2 * e.height)) :
    sqParseRaw (tokSeqQL dpS mxS m) (render fid 0 e) = .ok e ∧ sqParseRaw (tokSeqQL dpS mxS m) (renderFull fid e) = .ok e ∧
    lgParseRaw (tokLegacy dpL mxL m) (render fid 0 e) = .ok e ∧ lgParseRaw (tokLegacy dpL mxL m) (renderFull fid e) = .ok e ∧
    sqParse (tokSeqQL dpS mxS m) (render fid 0 e) = .ok (finish e) ∧ lgParse (tokLegacy dpL mxL m) (render fid 0 e) = .ok (finish e) ∧
    ∀ env, (finish e).eval env = e.eval env := by
  have gS := render_G (S := tokSeqQL dpS mxS m) (fun _ _ => rfl) fid (atom_G_seqql dpS mxS m fid hf) e h 0 true (Nat.zero_le _)
  have gSF := (renderFull_G (S := tokSeqQL dpS mxS m) (fun _ _ => rfl) fid (atom_G_seqql dpS mxS m fid hf) e h true).lift (Nat.zero_le 2)
  have hkL : ∀ t, t = Tok.lp ∨ t = Tok.rp ∨ t = Tok.and ∨ t = Tok.or ∨ t = Tok.not → (tokLegacy dpL mxL m).legacy.kind t = t.kind := by
    intro t ht
    rcases ht with rfl | rfl | rfl | rfl | rfl <;> rfl
  have gL := render_G (S := (tokLegacy dpL mxL m).legacy) hkL fid (atom_G_legacy dpL mxL m fid hf) e h 0 true (Nat.zero_le _)
  have gLF := (renderFull_G (S := (tokLegacy dpL mxL m).legacy) hkL fid (atom_G_legacy dpL mxL m fid hf) e h true).lift (Nat.zero_le 2)
  have a := c12_seqql_precedence (tokSeqQL_good dpS mxS m) gS hS
  have b := c12_seqql_precedence (tokSeqQL_good dpS mxS m) gSF hS
  have c := c12_legacy_precedence (tokLegacy_good dpL mxL m) gL hL
  have d := c12_legacy_precedence (tokLegacy_good dpL mxL m) gLF hL
  exact ⟨a.1, b.1, c.1, d.1, a.2.1, c.2.1, a.2.2⟩

/-! ## totality: a query or an error, never a panic, never a loop -/

/-- **The skeletons are total.**  For every token list: if the field-filter parser and the pipe parser cannot panic
(or run out of fuel), neither `ParseSeqQL` nor `ParseQuery` can - in particular `panic("BUG: lexer is not end")` in
`ParseSeqQL` is unreachable - and the fuel `2 * tokens + 2` always suffices (the recursion terminates). -/
theorem c12_total_skeleton (S : Skel τ α) (hS : S.Good) (hA : ∀ toks, S.atom toks ≠ .panic)
    (hP : ∀ toks, S.pipes toks ≠ .panic ∧ S.pipes toks ≠ .oof) (toks : List τ) :
    (sqParse S toks ≠ .panic ∧ sqParse S toks ≠ .oof) ∧ (lgParse S toks ≠ .panic ∧ lgParse S toks ≠ .oof) := by
  have key : ∀ (S : Skel τ α), S.Good → (∀ toks, S.atom toks ≠ .panic) →
      (∀ toks, S.pipes toks ≠ .panic ∧ S.pipes toks ≠ .oof) → ∀ toks, sqParseRaw S toks ≠ .panic ∧ sqParseRaw S toks ≠ .oof := by
    intro S hS hA hP toks
    have hf := ((sq_spec S hS (fuelFor toks)).2.1 toks 0 0 (by simp [fuelFor])).1
    have hp := (sq_nopanic S hA (fuelFor toks)).2.1 toks 0 0
    unfold sqParseRaw
    cases hres : sqFilter S (fuelFor toks) toks 0 0 with
    | ok p =>
      obtain ⟨a, r⟩ := p
      simp only [PRes.bind_ok]
      cases r with
      | nil => simp
      | cons t r' =>
        simp only
        have hstop := sqFilter_rest S _ _ _ _ _ _ hres
        rcases hstop with h0 | ⟨t0, r0, h0, hk | ⟨_, hd⟩⟩
        · simp at h0
        · simp only [List.cons.injEq] at h0
          obtain ⟨rfl, rfl⟩ := h0
          simp only [hk, if_true]
          have := hP (t :: r')
          cases hpp : S.pipes (t :: r') <;> simp_all
        · omega
    | err => simp
    | panic => exact absurd hres hp
    | oof => exact absurd hres hf
  have h1 := key S hS hA hP toks
  have hLA : ∀ toks, S.legacy.atom toks ≠ .panic := hA
  have hfL := ((sq_spec S.legacy (S.legacy_good hS) (fuelFor toks)).2.1 toks 0 0 (by simp [fuelFor])).1
  have hpL := (sq_nopanic S.legacy hLA (fuelFor toks)).2.1 toks 0 0
  refine ⟨?_, ?_⟩
  · unfold sqParse
    cases hr : sqParseRaw S toks <;> simp_all
  · unfold lgParse lgParseRaw
    rw [(lg_eq_sq S _).2.1]
    cases hr : sqFilter S.legacy (fuelFor toks) toks 0 0 <;> simp_all

/-- the field type switch with an error in its `default:` branch never panics, whatever the mapping says -/
theorem c12_atoms_never_panic (m : Nat → FType) (toks : List Tok) :
    atomSeqQL false m toks ≠ .panic ∧ atomLegacy false m toks ≠ .panic := by
  cases toks with
  | nil => simp [atomSeqQL, atomLegacy, atomWith]
  | cons t tl =>
    cases t <;> simp [atomSeqQL, atomLegacy, atomWith]
    rename_i n fid form
    cases hm : m fid <;> cases form <;> simp [fieldSeqQL, fieldLegacy, dispatch, PRes.bind]

/-- **C12 totality** for the code as it is now (`default:` returns an error, nesting limit or not - both re-extracted
from the source on every run, see `c12_x_type_switch`, `c12_x_nesting`): for every mapping (every field type, also
object / tags / nested / exists / unmapped) and every token list, both parsers return a query or an error. -/
theorem c12_total (m : Nat → FType) (toks : List Tok) :
    (sqParse (tokSeqQL SV.Extracted.C12.seqqlDefaultPanics SV.Extracted.C12.seqqlMaxNest m) toks ≠ .panic ∧
      sqParse (tokSeqQL SV.Extracted.C12.seqqlDefaultPanics SV.Extracted.C12.seqqlMaxNest m) toks ≠ .oof) ∧
    (lgParse (tokLegacy SV.Extracted.C12.legacyDefaultPanics SV.Extracted.C12.legacyMaxNest m) toks ≠ .panic ∧
      lgParse (tokLegacy SV.Extracted.C12.legacyDefaultPanics SV.Extracted.C12.legacyMaxNest m) toks ≠ .oof) := by
  have hS : SV.Extracted.C12.seqqlDefaultPanics = false := by decide
  have hL : SV.Extracted.C12.legacyDefaultPanics = false := by decide
  rw [hS, hL]
  have pipesOk : ∀ toks : List Tok, pipesA toks.length 0 toks ≠ .panic ∧ pipesA toks.length 0 toks ≠ .oof :=
    fun toks => ⟨pipesA_ne_panic _ _ _, pipesA_ne_oof _ _ _ (Nat.le_refl _)⟩
  refine ⟨(c12_total_skeleton (tokSeqQL false _ m) (tokSeqQL_good false _ m) (fun t => (c12_atoms_never_panic m t).1)
      pipesOk toks).1, ?_⟩
  exact (c12_total_skeleton (tokLegacy false _ m) (tokLegacy_good false _ m) (fun t => (c12_atoms_never_panic m t).2)
      (fun _ => by simp [tokLegacy]) toks).2

/-- **Bounded recursion** (the stack part of "never panics"): with a nesting limit `mx`, a sub-expression parser that
is entered at nesting `mx` or deeper returns the "nested too deeply" error at once, for every input - so the chain of
nested `parseSeqQLSubexpr` / `parseSubexpr` activations is never longer than `mx + 1`. -/
theorem c12_nesting_bounded (S : Skel τ α) (mx : Nat) (hmx : S.maxNest = some mx) (f : Nat) (toks : List τ) (d n : Nat)
    (hn : mx ≤ n) : sqSub S (f+1) toks d n = .err ∧ lgSub S (f+1) toks d n = .err := by
  have hdeep : S.tooDeep n = true := by simp [Skel.tooDeep, hmx, hn]
  cases toks <;> simp [sqSub, lgSub, hdeep]

/-- **Historical counterexample** (the code before fix c6f1075, `default: panic(...)`): a filter on a field whose main
type is object panics in both parsers - `process:a` with the test mapping. -/
theorem c12_total_old_counterexample :
    sqParse (tokSeqQL true none (fun _ => .object)) [.atom 0 0 .plain] = .panic ∧
    lgParse (tokLegacy true none (fun _ => .object)) [.atom 0 0 .plain] = .panic ∧
    sqParse (tokSeqQL true none (fun _ => .tags)) [.atom 0 0 .inList] = .panic := by decide

/-- what did hold for the old code: no panic as long as the mapping knows only keyword / text / path (or unindexed)
fields -/
theorem c12_total_old_partial (mx : Option Nat) (m : Nat → FType) (hm : ∀ fid, (m fid).searchable = true ∨ m fid = .noop)
    (toks : List Tok) :
    sqParse (tokSeqQL true mx m) toks ≠ .panic ∧ lgParse (tokLegacy true mx m) toks ≠ .panic := by
  have hA : ∀ toks, atomSeqQL true m toks ≠ .panic ∧ atomLegacy true m toks ≠ .panic := by
    intro toks
    cases toks with
    | nil => simp [atomSeqQL, atomLegacy, atomWith]
    | cons t tl =>
      cases t <;> simp [atomSeqQL, atomLegacy, atomWith]
      rename_i n fid form
      rcases hm fid with h | h
      · cases hmf : m fid <;> rw [hmf] at h <;> simp [FType.searchable] at h <;>
          cases form <;> simp [fieldSeqQL, fieldLegacy, dispatch, PRes.bind]
      · rw [h]; cases form <;> simp [fieldSeqQL, fieldLegacy, PRes.bind]
  have pipesOk : ∀ toks : List Tok, pipesA toks.length 0 toks ≠ .panic ∧ pipesA toks.length 0 toks ≠ .oof :=
    fun toks => ⟨pipesA_ne_panic _ _ _, pipesA_ne_oof _ _ _ (Nat.le_refl _)⟩
  exact ⟨(c12_total_skeleton (tokSeqQL true mx m) (tokSeqQL_good true mx m) (fun t => (hA t).1) pipesOk toks).1.1,
    (c12_total_skeleton (tokLegacy true mx m) (tokLegacy_good true mx m) (fun t => (hA t).2) (fun _ => by simp [tokLegacy]) toks).2.1⟩

/-- `not not ... not a` with `k` NOTs -/
def notChain (k : Nat) (fid : Nat) : List Tok := List.replicate k Tok.not ++ [.atom 0 fid .plain]
def notTree : Nat → Ast Nat
  | 0 => .leaf 0
  | k+1 => .not (notTree k)

/-- **Historical counterexample to bounded recursion** (the code before fix d02c6b6, no nesting limit): for every `k`
the query `not`^k `a` is accepted and yields a tree of depth `k`, i.e. the sub-expression parser nests `k + 1`
activations - no bound on the stack (2 MB of `(` killed the process).  With a limit `mx` the same query is an error
as soon as `k ≥ mx` (`c12_nesting_bounded`). -/
theorem c12_nesting_old_unbounded (dp : Bool) (m : Nat → FType) (fid : Nat) (hf : (m fid).searchable = true) (k : Nat) :
    sqParseRaw (tokSeqQL dp none m) (notChain k fid) = .ok (notTree k) ∧
    lgParseRaw (tokLegacy dp none m) (notChain k fid) = .ok (notTree k) := by
  have gS : ∀ k, G (tokSeqQL dp none m) (fun _ => True) 2 true (k + 1) (notChain k fid) (notTree k) := by
    intro k
    induction k with
    | zero => exact (atom_G_seqql dp none m fid hf true 0).mono (Nat.le_refl _)
    | succ k ih => exact G.not (Nat.le_refl _) rfl ih
  have gL : ∀ k, G (tokLegacy dp none m).legacy (fun _ => True) 2 true (k + 1) (notChain k fid) (notTree k) := by
    intro k
    induction k with
    | zero => exact (atom_G_legacy dp none m fid hf true 0).mono (Nat.le_refl _)
    | succ k ih => exact G.not (Nat.le_refl _) rfl ih
  exact ⟨(c12_seqql_precedence (tokSeqQL_good dp none m) ((gS k).lift (Nat.zero_le 2)) trivial).1,
    (c12_legacy_precedence (tokLegacy_good dp none m) ((gL k).lift (Nat.zero_le 2)) trivial).1⟩

/-! ## the whole SeqQL parser over the lexer's token stream (level B)

`SV.Parser.parseSeqQL` (Model/SeqQLFilter.lean) is `ParseSeqQL` with everything below the lexer modelled: composite
tokens, field filters, ranges, in-lists, the keyword / text term builders, pipes, the skeleton and `propagateNot`.
A token carries the lexer's flags, the answers of `strings.EqualFold` for the parser's keywords and, per rune, what
Go's `unicode` tables say - all of these are universally quantified below. -/

/-- **Totality of `ParseSeqQL` above the lexer**: for every list of lexer tokens (any runes, any flags, any keyword
answers), every mapping (nil, or any assignment of index types to field names), either case setting and any nesting
limit, the parser returns a query or an error: no `panic` statement is reachable (neither the type switch's old
`default:` - repaired - nor `BUG: lexer is not end`) and every loop terminates (the fuel is never exhausted). -/
theorem c12_total_lexer_tokens (cs rl : Bool) (mapping : Option (List (List Nat × FT))) (mx : Option Nat) (toks : List LTok) :
    parseSeqQL ⟨false, cs, mapping, rl⟩ mx toks ≠ .panic ∧ parseSeqQL ⟨false, cs, mapping, rl⟩ mx toks ≠ .oof := by
  let c : Cfg := ⟨false, cs, mapping, rl⟩
  have hS := seqqlSkel_good c mx
  have hf := ((sq_spec (seqqlSkel c mx) hS (fuelFor toks)).2.1 toks 0 0 (by simp [fuelFor])).1
  have hp := (sq_nopanic (seqqlSkel c mx) (fun t => (fieldFilter_ne c t).2 rfl) (fuelFor toks)).2.1 toks 0 0
  unfold parseSeqQL
  cases hres : sqFilter (seqqlSkel c mx) (fuelFor toks) toks 0 0 with
  | ok p =>
    obtain ⟨a, r⟩ := p
    simp only [PRes.bind_ok]
    cases r with
    | nil => simp
    | cons t r' =>
      simp only
      have hstop := sqFilter_rest (seqqlSkel c mx) _ _ _ _ _ _ hres
      rcases hstop with h0 | ⟨t0, r0, h0, hk | ⟨_, hd⟩⟩
      · simp at h0
      · simp only [List.cons.injEq] at h0
        obtain ⟨rfl, rfl⟩ := h0
        have hk' : t.kind = K.pipe := hk
        simp only [hk', if_true]
        have := pipes_spec (t :: r').length 0 [] (t :: r') (Nat.le_refl _)
        exact ⟨PRes.bind_ne_panic' this.2 (fun _ _ => by simp), PRes.bind_ne_oof this.1 (fun _ _ => by simp)⟩
      · omega
  | err => simp
  | panic => exact absurd hres hp
  | oof => exact absurd hres hf

/-- ... in particular for the switch default and the nesting limit read from the source on this run -/
theorem c12_total_lexer_tokens_extracted (cs rl : Bool) (mapping : Option (List (List Nat × FT))) (toks : List LTok) :
    parseSeqQL ⟨SV.Extracted.C12.seqqlDefaultPanics, cs, mapping, rl⟩ SV.Extracted.C12.seqqlMaxNest toks ≠ .panic ∧
    parseSeqQL ⟨SV.Extracted.C12.seqqlDefaultPanics, cs, mapping, rl⟩ SV.Extracted.C12.seqqlMaxNest toks ≠ .oof := by
  have hS : SV.Extracted.C12.seqqlDefaultPanics = false := by decide
  rw [hS]
  exact c12_total_lexer_tokens cs rl mapping _ toks

/-- **Precedence above the lexer**: any token sequence of the reference grammar whose atoms are sequences the real
field-filter parser accepts (`G` over `seqqlSkel`) is parsed to the tree it denotes; with `sep` one states which
tokens may follow a filter (a space before `and` / `or`, or a non-composite token such as `)` and `|`). -/
theorem c12_lexer_tokens_precedence (c : Cfg) (mx : Option Nat) {sep : LTok → Prop} {k : Nat} {ts : List LTok} {e : Ast Leaf}
    (h : G (seqqlSkel c mx) sep 0 true k ts e) (hk : (seqqlSkel c mx).fits k) :
    parseSeqQL c mx ts = .ok (finish e, []) ∧ ∀ env, (finish e).eval env = e.eval env := by
  have h1 : sqFilter (seqqlSkel c mx) (fuelFor ts) ts 0 0 = .ok (e, []) := by
    have := sqFilter_complete (seqqlSkel_good c mx) h [] 0 (fuelFor ts) 0 (by simp) (Or.inl rfl) (Or.inl rfl)
      (by simpa using hk) (by simp [fuelFor])
    simpa using this
  exact ⟨by simp [parseSeqQL, h1], fun env => finish_sound env e h.noNand⟩

/-- **several words on a text field are a conjunction**: whatever value `parseFulltextSearchFilter` reads for a text
field, the node it returns selects exactly the documents selected by every literal `parseSeqQLText` makes of it -/
theorem c12_text_is_conjunction (dp cs : Bool) (field : List Nat) (toks rest : List LTok) (a : Ast Leaf)
    (h : fulltextFilter dp field .text cs toks = .ok (a, rest)) :
    ∃ value, compositeToken toks = .ok (value, rest) ∧
      ∀ env, a.eval env = (seqqlText cs value).all fun terms => env (.lit field terms) := by
  unfold fulltextFilter at h
  obtain ⟨p, hp, h⟩ := PRes.bind_eq_ok.mp h
  simp only [PRes.ok.injEq, Prod.mk.injEq] at h
  obtain ⟨rfl, rfl⟩ := h
  exact ⟨p.1, hp, fun env => buildAndTree_eval env field _ (seqqlText_ne_nil cs p.1)⟩

/-- **`in(...)` is a disjunction**: an accepted `in` filter is `( v1 , v2 ... , vn )`, each value parsed by the same
value parser as a plain filter, and the returned node selects the union of what the values select -/
theorem c12_in_is_disjunction (dp cs : Bool) (field : List Nat) (t : FT) (toks rest : List LTok) (a : Ast Leaf)
    (h : filterIn dp field t cs toks = .ok (a, rest)) :
    ∃ (r1 r2 : List LTok) (first : Ast Leaf) (items : List (Ast Leaf)) (open_ close : LTok),
      toks = open_ :: r1 ∧ fulltextFilter dp field t cs r1 = .ok (first, r2) ∧
      InItems dp field t cs r2 items (close :: rest) ∧ kwIn close [.rp] = true ∧
      ∀ env, a.eval env = (first.eval env || items.any fun x => x.eval env) :=
  (filterIn_ok h).2.2

/-! ## one case rule: per field, for plain values and in-lists, in both query languages -/

/-- the case rule of a field: the builtin `_exists_` is always case sensitive, every other field follows the configuration -/
def fieldCase (c : Cfg) (field : List Nat) : Bool := if field = tokenExists then true else c.cs

/-- **`field:v` and `field:in(v1, ..)` read their values under the SAME case rule** - the field's (`fieldCase`): once the
field name, the `:` and a first value token are read, `parseSeqQLFieldFilter` is `parseFilterIn` resp.
`parseFulltextSearchFilter` with exactly that flag; together with `c12_in_is_disjunction` (every list item goes through
`fulltextFilter` with the flag `filterIn` was given): `in(v1, .., vn)` = `v1 or .. or vn` with each `vi` parsed as the
plain filter `field:vi` would be - also for `_exists_`, whatever `conf.CaseSensitive` says. -/
theorem c12_in_same_case_rule (c : Cfg) (toks : List LTok) (nm : List Rn) (tc tv : LTok) (r' : List LTok)
    (hname : compositeToken toks = .ok (nm, tc :: tv :: r')) (hne : (nameBytes nm).isEmpty = false)
    (hidx : indexType c.mapping (nameBytes nm) ≠ .noop) (hcolon : kwIn tc [.colon] = true)
    (hval : kwIn tv [.empty] = false) (hnr : kwIn tv [.lbr, .lp] = false) :
    (kwIn tv [.in_] = true → fieldFilter c toks
        = filterIn c.dp (nameBytes nm) (indexType c.mapping (nameBytes nm)) (fieldCase c (nameBytes nm)) r') ∧
    (kwIn tv [.in_] = false → fieldFilter c toks
        = fulltextFilter c.dp (nameBytes nm) (indexType c.mapping (nameBytes nm)) (fieldCase c (nameBytes nm)) (tv :: r')) := by
  have hne' : nameBytes nm ≠ [] := by
    intro h; rw [h] at hne; simp at hne
  constructor
  · intro hin
    simp [fieldFilter, hname, hne', hidx, hcolon, hval, hnr, hin, fieldCase]
  · intro hin
    simp [fieldFilter, hname, hne', hidx, hcolon, hval, hnr, hin, fieldCase]

/-- **A SeqQL range bound is the same term as a literal of the same text**: `parseRangeTerm` reads the bound with the
composite-token reader and `parseSeqQLKeyword` - the very builders a keyword literal goes through - so for every value
`X` (any runes, outer whitespace included, no wildcard) the bound is the single text term `lowerIf cs X`: verbatim code
points, lower-cased by `unicode.ToLower` unless case sensitive; nothing is trimmed.  Hence `field:[X, X]` carries on
both ends exactly the term of `field:X`, under the field's case rule (`fieldFilter` hands `tokenRange` the same
`fieldCase` flag as the other value parsers - second part). -/
theorem c12_range_bound_is_literal_term (cs : Bool) (toks rest : List LTok) (x : List Rn)
    (hx : compositeToken toks = .ok (x, rest)) (hne : x ≠ []) (hnw : ∀ r, r ∈ x → r.cp ≠ wildcardCp) :
    rangeTerm cs toks = .ok (⟨false, lowerIf cs x⟩, rest) ∧
    (∀ dp field, fulltextFilter dp field .keyword cs toks = .ok (.leaf (.lit field [⟨false, lowerIf cs x⟩]), rest)) ∧
    (∀ (c : Cfg) (toks' : List LTok) (nm : List Rn) (tc tv : LTok) (r' : List LTok),
      compositeToken toks' = .ok (nm, tc :: tv :: r') → (nameBytes nm).isEmpty = false →
      indexType c.mapping (nameBytes nm) ≠ .noop → kwIn tc [.colon] = true → kwIn tv [.empty] = false →
      kwIn tv [.lbr, .lp] = true →
      fieldFilter c toks' = tokenRange (nameBytes nm) (fieldCase c (nameBytes nm)) (tv :: r')) := by
  have hk := SV.Tok.seqqlKeyword_plain cs x hne hnw
  refine ⟨by simp [rangeTerm, hx, hk], fun dp field => by simp [fulltextFilter, hx, hk], ?_⟩
  intro c toks' nm tc tv r' hname hne' hidx hcolon hval hr
  have hne'' : nameBytes nm ≠ [] := by
    intro h; rw [h] at hne'; simp at hne'
  simp [fieldFilter, hname, hne'', hidx, hcolon, hval, hr, fieldCase]

/-- **Legacy range bounds follow the same case rule** (repaired code, `rangeLower`): the `singleTermBuilder` fed the runes
of a bound ends with the text term `lowerIf cs runes`, the term the legacy keyword builder makes of the same text
(`c12_term_case_rule_agrees`); `parseLiteral` hands the range parser the field's case flag. -/
theorem c12_legacy_range_bound_case (cs : Bool) (ws : List Rn) :
    (ws.foldl (fun (s : Option BSt) r => s.bind fun b => b.appendRune r) (some (newBuilder .single cs))).map BSt.getTerm
      = some ⟨false, lowerIf cs ws⟩ := by
  have key : ∀ (ws : List Rn) (b : BSt), b.kind = .single → b.wildcard = false →
      ws.foldl (fun (s : Option BSt) r => s.bind fun b => b.appendRune r) (some b)
        = some { b with data := b.data ++ ws.map fun r => if b.tb.cs then r.cp else r.lower } := by
    intro ws
    induction ws with
    | nil => intro b _ _; simp
    | cons r rest ih =>
      intro b hk hw
      rw [List.foldl_cons]
      have h1 : (some b).bind (fun b => b.appendRune r) = some { b with data := b.data ++ [if b.tb.cs then r.cp else r.lower] } := by
        simp [BSt.appendRune, hk, hw]
      rw [h1, ih { b with data := b.data ++ [if b.tb.cs then r.cp else r.lower] } hk hw]
      simp [List.append_assoc]
  rw [key ws (newBuilder .single cs) rfl rfl]
  simp [BSt.getTerm, newBuilder, lowerIf]
  intro a _; rfl

/-- **Historical counterexample** (legacy parser before the range-bound repair, case-insensitive configuration): the
bound of `a:[B TO B]` stays `B` while the literal `a:B` asks for `b` - the indexed tokens are lower case, so the range
selects nothing although it names the very value; with `rangeLower` the bound is `b`. -/
theorem c12_legacy_range_case_old_counterexample :
    let r (c l : Nat) (letter : Bool) : Rn := ⟨[c], c, letter, false, false, l, c = 32⟩
    let q := [r 97 97 true, r 58 58 false, r 91 91 false, r 66 98 true, r 32 32 false, r 84 116 true, r 79 111 true, r 32 32 false, r 66 98 true, r 93 93 false]
    parseQueryRunes ⟨false, false, none, false⟩ none q = .ok (.leaf (.range [97] ⟨false, [66]⟩ ⟨false, [66]⟩ true true)) ∧
    parseQueryRunes ⟨false, false, none, true⟩ none q = .ok (.leaf (.range [97] ⟨false, [98]⟩ ⟨false, [98]⟩ true true)) ∧
    parseQueryRunes ⟨false, false, none, false⟩ none [r 97 97 true, r 58 58 false, r 66 98 true] = .ok (.leaf (.lit [97] [⟨false, [98]⟩])) := by
  decide

/-- **both query languages build the same term from the same text**: for a run of word runes (resp. any keyword value
without wildcard) the SeqQL builders and the legacy `baseTokenBuilder` (`appendRuneInternal` rune by rune) end with
the single text term `lowerIf cs runes` - the code points themselves when case sensitive, `unicode.ToLower` of each
(the harness-supplied `Rn.lower`, ASCII or not, also when the lower case has another byte length) otherwise;
C11 (`c11_text`, `c11_keyword`) shows this is the token the indexer stores. -/
theorem c12_term_case_rule_agrees (cs : Bool) (ws : List Rn) (hne : ws ≠ []) :
    ((∀ r, r ∈ ws → isWordRune r = true) → seqqlText cs ws = [[⟨false, lowerIf cs ws⟩]]) ∧
    ((∀ r, r ∈ ws → r.cp ≠ wildcardCp) → seqqlKeyword cs ws = [⟨false, lowerIf cs ws⟩]) ∧
    (ws.foldl TB.appendRuneInternal ⟨cs, [], [], []⟩).getTokens = [[⟨false, lowerIf cs ws⟩]] ∧
    lowerIf cs ws = ws.map (fun r => if cs then r.cp else r.lower) :=
  ⟨fun h => SV.Tok.seqqlText_word cs ws hne h, fun h => SV.Tok.seqqlKeyword_plain cs ws hne h,
   SV.Tok.legacy_builder_word cs ws hne, rfl⟩

/-! ## the SeqQL lexer and `ParseSeqQL` on strings (character level)

`SV.Parser.lexNext` is `lexer.Next()` (spaces, `#` comments, token runs, `*`, the three quote kinds with
`unquotePrefix` / `unquoteChar`, single symbols, invalid UTF-8) over the runes of the query; oracles are Go's `unicode`
predicates and `strconv.UnquoteChar` (consuming at least one rune on success). -/

/-- **The lexer never loops and never panics**: every `Next()` on a non-empty rest of the query consumes at least one
rune; calling it until `IsEnd()` terminates with at most one token per rune. -/
theorem c12_lexer_terminates (q : List QRn) :
    (∀ sp tok rest, lexNext (q.length + 1) sp q = .ok (tok, rest) → q ≠ [] → rest.length < q.length) ∧
    lexAll (q.length + 1) q ≠ .oof ∧ lexAll (q.length + 1) q ≠ .panic ∧
    ∀ ts, lexAll (q.length + 1) q = .ok ts → ts.length ≤ q.length :=
  ⟨fun sp tok rest h hq => ((lexNext_spec (q.length + 1) sp q (Nat.le_refl _)).2.2 tok rest h).2 hq,
   (lexAll_spec (q.length + 1) q (Nat.le_refl _)).1, (lexAll_spec (q.length + 1) q (Nat.le_refl _)).2.1,
   (lexAll_spec (q.length + 1) q (Nat.le_refl _)).2.2⟩

/-- **A quoted literal is accepted only when it is terminated.**  If `unquotePrefix` returns a token for input that
starts with a quote, the input is: that quote, some runes, a rune equal to the opening quote at which the unquoting loop
stood at an iteration boundary (so not one consumed by an escape such as `\"`), and then exactly the returned rest.
An input without any further quote rune is an error - `service:"a\"` style literals whose only closing candidates are
escaped run the loop to the end of the input and are rejected (`unquoteLoop` on `[]` is an error). -/
theorem c12_quoted_literal_needs_closing_quote (h : QRn) (t : List QRn) :
    (∀ out rest, unquotePrefix (h :: t) = .ok (out, rest) → ∃ pre p, t = pre ++ p :: rest ∧ p.r.cp = h.r.cp) ∧
    ((∀ x, x ∈ t → x.r.cp ≠ h.r.cp) → unquotePrefix (h :: t) = .err) ∧
    (∀ quote f acc, unquoteLoop quote (f + 1) acc [] = .err) :=
  ⟨fun out rest hok => unquotePrefix_closing h t out rest hok, unquotePrefix_no_quote h t,
   fun _ _ _ => by simp [unquoteLoop]⟩

/-- **C12 totality of `ParseSeqQL` on strings**: for every query (any runes, any answers of the `unicode`, `strconv`
and `EqualFold` oracles), every mapping, either case setting and any nesting limit: lexer, parser and NOT propagation
together return a query or an error - no panic, no loop. -/
theorem c12_total_seqql_runes (kwOf : List Rn → KW) (cs rl : Bool) (mapping : Option (List (List Nat × FT))) (mx : Option Nat)
    (q : List QRn) :
    parseSeqQLRunes kwOf ⟨false, cs, mapping, rl⟩ mx q ≠ .panic ∧ parseSeqQLRunes kwOf ⟨false, cs, mapping, rl⟩ mx q ≠ .oof := by
  have hl := lexAll_spec (q.length + 1) q (Nat.le_refl _)
  unfold parseSeqQLRunes
  exact ⟨PRes.bind_ne_panic' hl.2.1 (fun _ _ => (c12_total_lexer_tokens cs rl mapping mx _).1),
    PRes.bind_ne_oof hl.1 (fun _ _ => (c12_total_lexer_tokens cs rl mapping mx _).2)⟩

/-! ## the whole legacy parser at rune level (level B)

`SV.Parser.parseQueryRunes` (Model/LegacyParser.lean) is `ParseQuery` on `[]rune(query)`: `parseExpr` / `parseSubexpr`
reading operator words with `parseSimpleTerm`, `parseTokenQuery`, `parseLiteral`, `parseRange`, `parseTerms`,
`parseQuotedTerms`, the three term builders and `propagateNot`.  `tp.cur()` past the end of the input is a panic of
the model; the theorem shows it is unreachable. -/

/-- **Totality of `ParseQuery`**: for every rune sequence (any code points with any answers of Go's `unicode`
predicates), every mapping, either case setting and any nesting limit the legacy parser returns a query or an error:
`tp.cur()` is never evaluated at the end of the input (`errorUnexpectedSymbol` included), `panic("quote not found")`,
`panic("range start not found")` and `tokens[0]` of an empty slice are unreachable, the type switch returns an error,
and all loops and recursions terminate. -/
theorem c12_total_legacy_runes (cs rl : Bool) (mapping : Option (List (List Nat × FT))) (mx : Option Nat) (rs : List Rn) :
    parseQueryRunes ⟨false, cs, mapping, rl⟩ mx rs ≠ .panic ∧ parseQueryRunes ⟨false, cs, mapping, rl⟩ mx rs ≠ .oof := by
  have hl := skipSpaces_len rs
  have := ((lgr_spec ⟨false, cs, mapping, rl⟩ rfl mx (2 * rs.length + 2)).2.1 (skipSpaces rs) 0 0 (skipSpaces_noLead rs) (by omega))
  unfold parseQueryRunes
  exact ⟨PRes.bind_ne_panic' this.2.1 (fun _ _ => by simp), PRes.bind_ne_oof this.1 (fun _ _ => by simp)⟩

/-- ... at the switch default and the nesting limit read from the source on this run -/
theorem c12_total_legacy_runes_extracted (cs rl : Bool) (mapping : Option (List (List Nat × FT))) (rs : List Rn) :
    parseQueryRunes ⟨SV.Extracted.C12.legacyDefaultPanics, cs, mapping, rl⟩ SV.Extracted.C12.legacyMaxNest rs ≠ .panic ∧
    parseQueryRunes ⟨SV.Extracted.C12.legacyDefaultPanics, cs, mapping, rl⟩ SV.Extracted.C12.legacyMaxNest rs ≠ .oof := by
  have hL : SV.Extracted.C12.legacyDefaultPanics = false := by decide
  rw [hL]
  exact c12_total_legacy_runes cs rl mapping _ rs

/-- `ParseAggregationFilter` is total as well -/
theorem c12_total_agg_filter (cs rl : Bool) (rs : List Rn) :
    parseAggFilter false rl cs rs ≠ .panic ∧ parseAggFilter false rl cs rs ≠ .oof := by
  unfold parseAggFilter
  have hnl := skipSpaces_noLead rs
  cases hs : skipSpaces rs with
  | nil => simp
  | cons r rest =>
    simp only
    rw [hs] at hnl
    have hr : r.space = false := hnl r rest rfl
    split
    · rename_i hempty
      have : (simpleTerm (r :: rest)).1 = [] := by simpa using hempty
      rw [simpleTerm_empty_word hr this, errUnexpected_cons]; simp
    · have hq := legacyTokenQuery_spec rl cs (wordBytes (simpleTerm (r :: rest)).1) .keyword (simpleTerm (r :: rest)).2
      refine ⟨PRes.bind_ne_panic' hq.2.1 ?_, PRes.bind_ne_oof hq.1 ?_⟩
      · intro b _; split <;> simp
      · intro b _; split <;> simp

/-! ## composition with C02: what a parsed query selects in the store

C02 (`SV.EvalTree`, `SV.Spec`) proves that the eval tree built from a `Spec.Query` yields exactly the LIDs of the
documents `Spec.docMatches` accepts, and that `EvalTree.search` equals `Spec.search`.  Here the ASTs the parsers return
are translated into `Spec.Query` and the two readings of the operators are shown to be the same function. -/

/-- a term of the parser models as a `Spec.Term` (`enc` = UTF-8 encoder of a code point): `TermSymbol` is the wildcard -/
def toSpecTerm (enc : Nat → List Nat) (t : Term) : SV.Spec.Term := if t.sym then .star else .text (t.data.flatMap enc)

/-- a range bound: the wildcard term is the open end -/
def toSpecBound (enc : Nat → List Nat) (t : Term) : Option SV.Spec.Bytes := if t.sym then none else some (t.data.flatMap enc)

/-- `*parser.Literal` / `*parser.Range` as `Spec.Leaf` -/
def toSpecLeaf (enc : Nat → List Nat) : Leaf → SV.Spec.Leaf
  | .lit f ts => .lit f (ts.map (toSpecTerm enc))
  | .range f a b ia ib => .range f (toSpecBound enc a) ia (toSpecBound enc b) ib

/-- the AST of the parsers (AND / OR / NAND, NOT - after `propagateNot` only at the root, but any position is
translated) as the query tree of C02, children in the same order (`children[0]`, `children[1]`) -/
def toQuery {α : Type} (f : α → SV.Spec.Leaf) : Ast α → SV.Spec.Query
  | .leaf a => .leaf (f a)
  | .not c => .not (toQuery f c)
  | .bin .and l r => .and (toQuery f l) (toQuery f r)
  | .bin .or l r => .or (toQuery f l) (toQuery f r)
  | .bin .nand l r => .nand (toQuery f l) (toQuery f r)

/-- **The two models read a tree the same way**: C02's `docMatches` on the translated query is this file's `eval`
with every leaf interpreted on the document (`NAND l r` = `¬l ∧ r` on both sides, `children[0]` the negative one). -/
theorem c12_toQuery_docMatches {α : Type} (f : α → SV.Spec.Leaf) (t : Ast α) (d : SV.Spec.Doc) :
    SV.Spec.docMatches (toQuery f t) d = t.eval (fun a => d.hasLeaf (f a)) := by
  induction t with
  | leaf a => rfl
  | not c ih => simp [toQuery, SV.Spec.docMatches, Ast.eval, ih]
  | bin op l r ihl ihr => cases op <;> simp [toQuery, SV.Spec.docMatches, Ast.eval, ihl, ihr]

/-- `Spec.search` depends on the query only through `docMatches` -/
theorem c12_spec_search_congr (docs : List SV.Spec.Doc) (q1 q2 : SV.Spec.Query)
    (h : ∀ d, SV.Spec.docMatches q1 d = SV.Spec.docMatches q2 d) (from_ to : Nat) (asc : Bool) (limit : Nat) (wt : Bool) :
    SV.Spec.search docs q1 from_ to asc limit wt = SV.Spec.search docs q2 from_ to asc limit wt := by
  have : SV.Spec.hits docs q1 from_ to = SV.Spec.hits docs q2 from_ to := by
    unfold SV.Spec.hits
    apply List.filter_congr
    intro d _
    rw [h d]
  simp only [SV.Spec.search, this]

/-- the rewritten query (`propagateNot` + root NOT) selects the documents of the tree that was parsed -/
theorem c12_finish_docMatches {α : Type} (f : α → SV.Spec.Leaf) (e : Ast α) (h : e.NoNand) (d : SV.Spec.Doc) :
    SV.Spec.docMatches (toQuery f (finish e)) d = SV.Spec.docMatches (toQuery f e) d := by
  rw [c12_toQuery_docMatches, c12_toQuery_docMatches, finish_sound _ e h]

/-- **End to end (SeqQL): searching with a parsed query returns exactly the documents the written expression denotes.**
For every token sequence of the reference grammar denoting `e` (within the nesting limit), `ParseSeqQL` returns a
query `q`, and on every well-formed fraction index C02's search with `q` - eval tree with NAND nodes, borders, iteration,
limit, total - equals the Spec's search for the *written* expression `e` over the stored documents. -/
theorem c12_search_parsed_seqql (enc : Nat → List Nat) (c : Cfg) (mx : Option Nat) {sep : LTok → Prop} {k : Nat}
    {ts : List LTok} {e : Ast Leaf} (hg : G (seqqlSkel c mx) sep 0 true k ts e) (hk : (seqqlSkel c mx).fits k)
    (idx : SV.EvalTree.Index) (hwf : SV.EvalTree.WF idx) (hs : SV.Borders.SortedDesc idx.ids)
    (hr : ∀ id ∈ idx.ids, id.rid ≤ SV.Borders.maxU64) (from_ to : Nat)
    (h0 : 0 < from_ ∨ ∀ id ∈ idx.ids, id ≠ ⟨0, 0⟩) (asc : Bool) (limit : Nat) (withTotal : Bool) :
    ∃ q, parseSeqQL c mx ts = .ok (q, []) ∧
      SV.EvalTree.search idx (toQuery (toSpecLeaf enc) q) from_ to asc limit withTotal
        = SV.Spec.search (SV.EvalTree.docsOf idx) (toQuery (toSpecLeaf enc) e) from_ to asc limit withTotal := by
  refine ⟨finish e, (c12_lexer_tokens_precedence c mx hg hk).1, ?_⟩
  rw [SV.Props.C02.c02_search_eq_spec idx hwf hs hr _ from_ to h0 asc limit withTotal]
  exact c12_spec_search_congr _ _ _ (c12_finish_docMatches _ e hg.noNand) from_ to asc limit withTotal

/-- **End to end, any token type and both parsers** (abstract skeleton level): the query `ParseSeqQL` / `ParseQuery`
return for a sentence of the grammar, searched by C02's model, gives the Spec's answer for the written tree. -/
theorem c12_search_parsed_skeleton {S : Skel τ α} (hS : S.Good) (f : α → SV.Spec.Leaf) {sep : τ → Prop} {k : Nat}
    {ts : List τ} {e : Ast α} (hk : S.fits k)
    (idx : SV.EvalTree.Index) (hwf : SV.EvalTree.WF idx) (hs : SV.Borders.SortedDesc idx.ids)
    (hr : ∀ id ∈ idx.ids, id.rid ≤ SV.Borders.maxU64) (from_ to : Nat)
    (h0 : 0 < from_ ∨ ∀ id ∈ idx.ids, id ≠ ⟨0, 0⟩) (asc : Bool) (limit : Nat) (withTotal : Bool) :
    (G S sep 0 true k ts e → ∃ q, sqParse S ts = .ok q ∧
      SV.EvalTree.search idx (toQuery f q) from_ to asc limit withTotal
        = SV.Spec.search (SV.EvalTree.docsOf idx) (toQuery f e) from_ to asc limit withTotal) ∧
    (G S.legacy sep 0 true k ts e → ∃ q, lgParse S ts = .ok q ∧
      SV.EvalTree.search idx (toQuery f q) from_ to asc limit withTotal
        = SV.Spec.search (SV.EvalTree.docsOf idx) (toQuery f e) from_ to asc limit withTotal) := by
  refine ⟨fun hg => ⟨finish e, (c12_seqql_precedence hS hg hk).2.1, ?_⟩, fun hg => ⟨finish e, (c12_legacy_precedence hS hg hk).2.1, ?_⟩⟩
  · rw [SV.Props.C02.c02_search_eq_spec idx hwf hs hr _ from_ to h0 asc limit withTotal]
    exact c12_spec_search_congr _ _ _ (c12_finish_docMatches f e hg.noNand) from_ to asc limit withTotal
  · rw [SV.Props.C02.c02_search_eq_spec idx hwf hs hr _ from_ to h0 asc limit withTotal]
    exact c12_spec_search_congr _ _ _ (c12_finish_docMatches f e hg.noNand) from_ to asc limit withTotal

/-- C02's eval tree on the translated AST yields exactly the LIDs whose documents the AST accepts under this file's
`eval` - the NAND child order of `propagateNot` (`children[0]` negative) is the one `buildEvalTree` consumes -/
theorem c12_evalTree_of_ast {α : Type} (f : α → SV.Spec.Leaf) (t : Ast α) (idx : SV.EvalTree.Index)
    (hwf : SV.EvalTree.WF idx) (rev : Bool) (lo hi v : Nat) :
    v ∈ SV.EvalTree.evalTree idx rev lo hi (toQuery f t) ↔
      (lo ≤ v ∧ v ≤ hi ∧ t.eval (fun a => (SV.EvalTree.docAt idx v).hasLeaf (f a)) = true) := by
  rw [(SV.Props.C02.c02_evalTree_denotes idx hwf rev lo hi (toQuery f t)).2 v, c12_toQuery_docMatches]

/-! ## Obligations on facts re-extracted from /repo on every run -/

open SV.Extracted.C12

/-- `buildEvalTree` maps AND / OR / NAND / NOT to the node constructors with the children in the order `Ast.eval`
assumes; `NewNAnd`'s first parameter is the negative side; `NewNot(c)` is `NewNAnd(c, full range)` -/
theorem c12_x_eval_dispatch :
    evalDispatch = ["LogicalAnd=node.NewAnd(0,1)", "LogicalOr=node.NewOr(0,1)", "LogicalNAnd=node.NewNAnd(0,1)", "LogicalNot=node.NewNot(0)"] ∧
    nandParams = ["negative", "regular", "reverse"] ∧ notViaNand = ["NewNAnd(child, nodeRange, reverse)"] ∧
    [opLogicalOr, opLogicalAnd, opLogicalNot, opLogicalNAnd] = [0, 1, 2, 3] := by decide

/-- one table, two renderings: the operator dispatch this property extracts and the one C02 extracts (`c02_x_dispatch`)
are the same rows (operator, node constructor, children in positions 0 and 1) -/
def dispatchRows : List (String × String × String × String) :=
  [("LogicalAnd", "NewAnd", "0,1", "children[0], children[1], reverse"),
   ("LogicalOr", "NewOr", "0,1", "children[0], children[1], reverse"),
   ("LogicalNAnd", "NewNAnd", "0,1", "children[0], children[1], reverse"),
   ("LogicalNot", "NewNot", "0", "children[0], minVal, maxVal, reverse")]

theorem c12_x_dispatch_same_table_as_c02 :
    evalDispatch = dispatchRows.map (fun r => r.1 ++ "=node." ++ r.2.1 ++ "(" ++ r.2.2.1 ++ ")") ∧
    SV.Extracted.C02.evalDispatch = dispatchRows.map (fun r => "parser." ++ r.1 ++ " => node." ++ r.2.1 ++ "(" ++ r.2.2.2 ++ ")") := by
  decide

/-- the control skeleton of `propagateNot` is the one `SV.Parser.propagateNot` transcribes -/
theorem c12_x_propagateNot :
    propagateNotConds = ["if !is", "if logical.Operator == LogicalNot", "if logical.Operator == LogicalOr",
      "if leftNot || rightNot", "if leftNot && rightNot", "if leftNot", "if rightNot"] ∧
    propagateNotAssigns = ["node.Children[0], node.Children[1] = left, right", "logical.Operator = LogicalAnd", "not = true",
      "leftNot = !leftNot", "rightNot = !rightNot", "logical.Operator = LogicalOr", "logical.Operator = LogicalNAnd",
      "node.Children[0], node.Children[1] = right, left", "logical.Operator = LogicalNAnd"] ∧
    propagateNotReturns = ["return node, false", "return nested, !not", "return node, false", "return node, true", "return node, not"] := by
  decide

/-- the conditions of the two accumulator loops and of `ParseSeqQL` are the ones modelled -/
theorem c12_x_loops :
    seqqlFilterConds = ["if err != nil", "case lex.IsKeyword(\"and\")", "case lex.IsKeyword(\"or\")", "default",
      "if lex.IsEnd() || lex.IsKeyword(\")\") && depth > 0 || lex.IsKeyword(\"|\")", "if err != nil", "if opKind == LogicalAnd"] ∧
    parseSeqQLConds = ["if err != nil", "if lex.IsKeyword(\"|\")", "if err != nil", "if !lex.IsEnd()", "if not"] ∧
    joinOrConds = ["if left == nil"] ∧
    legacyExprConds = ["if err != nil", "case \"and\"", "case \"or\"", "case \"\"", "if qp.eof() || (qp.cur() == ')' && depth > 0)",
      "if leftLow != nil && leftHigh != nil", "default", "if err != nil", "if opKind == LogicalAnd", "if leftLow == nil"] := by decide

/-- conditions of `parseSeqQLSubexpr` / `parseSubexpr` without the nesting check -/
def subexprCondsSeqQL : List String :=
  ["if lex.IsEnd()", "if lex.IsKeyword(string(wildcardRune)) && depth == 0", "if lex.IsKeyword(\"(\")",
   "if err != nil", "if !lex.IsKeyword(\")\")", "if lex.IsKeyword(\"not\")", "if err != nil", "if err != nil"]
def subexprCondsLegacy : List String :=
  ["if qp.eof()", "if qp.cur() == '('", "if err != nil", "if qp.eof()", "if qp.cur() != ')'",
   "if strings.EqualFold(fieldName, \"not\")", "if err != nil", "if fieldName == \"\"", "if indexType == seq.TokenizerTypeNoop",
   "if err != nil"]

/-- the sub-expression parsers are the modelled ones and the nesting limit (fix d02c6b6) is in place: the check
`nesting >= maxQueryNesting -> return error` is the first statement, followed by the increment and the deferred
decrement of the counter - exactly the `tooDeep` check of the model with the extracted limit -/
theorem c12_x_nesting :
    (seqqlMaxNest.isSome = true ∧ seqqlSubexprConds = "if lex.nesting >= maxQueryNesting" :: subexprCondsSeqQL ∧
      seqqlNestingStmts = ["if lex.nesting >= maxQueryNesting { return nil, fmt.Errorf(\"", "lex.nesting++", "defer func() { lex.nesting-- }()"]) ∧
    (legacyMaxNest.isSome = true ∧ legacySubexprConds = "if qp.nesting >= maxQueryNesting" :: subexprCondsLegacy ∧
      legacyNestingStmts = ["if qp.nesting >= maxQueryNesting { return nil, qp.errorWrap(", "qp.nesting++", "defer func() { qp.nesting-- }()"]) := by
  decide

/-- **Bounded recursion at the extracted limit**: in both parsers a sub-expression parser entered at nesting
`maxQueryNesting` or deeper returns an error immediately, for every token list and mapping. -/
theorem c12_nesting_bounded_extracted (m : Nat → FType) (f : Nat) (toks : List Tok) (d n : Nat) :
    (∃ mx, seqqlMaxNest = some mx ∧ (mx ≤ n → sqSub (tokSeqQL seqqlDefaultPanics seqqlMaxNest m) (f+1) toks d n = .err)) ∧
    (∃ mx, legacyMaxNest = some mx ∧ (mx ≤ n → lgSub (tokLegacy legacyDefaultPanics legacyMaxNest m) (f+1) toks d n = .err)) := by
  have h1 : seqqlMaxNest.isSome = true := by decide
  have h2 : legacyMaxNest.isSome = true := by decide
  obtain ⟨mx1, e1⟩ := Option.isSome_iff_exists.mp h1
  obtain ⟨mx2, e2⟩ := Option.isSome_iff_exists.mp h2
  refine ⟨⟨mx1, e1, fun hn => ?_⟩, ⟨mx2, e2, fun hn => ?_⟩⟩
  · exact (c12_nesting_bounded (tokSeqQL seqqlDefaultPanics seqqlMaxNest m) mx1 (by simp [tokSeqQL, e1]) f toks d n hn).1
  · exact (c12_nesting_bounded (tokLegacy legacyDefaultPanics legacyMaxNest m) mx2 (by simp [tokLegacy, e2]) f toks d n hn).2

/-- the case flag: `parseSeqQLFieldFilter` computes it once (`conf.CaseSensitive`, forced to `true` for `_exists_`) and
hands that same variable to the range, in-list and plain value parsers; `parseFilterIn` takes it as a parameter and
passes it on to every value; the legacy builder lower-cases every rune with `unicode.ToLower` unless case sensitive -/
theorem c12_x_case_flag :
    caseFlagCalls = ["parseSeqQLFieldFilter(lex, mapping)", "  parseSeqQLTokenRange(fieldName, lex, caseSensitive)",
      "  parseFilterIn(lex, fieldName, t, caseSensitive)", "  parseFulltextSearchFilter(lex, fieldName, t, caseSensitive)",
      "parseFilterIn(lex, fieldName, t, caseSensitive)", "  parseFulltextSearchFilter(lex, fieldName, t, caseSensitive)",
      "  parseFulltextSearchFilter(lex, fieldName, t, caseSensitive)"] ∧
    caseFlagOverride = ["caseSensitive := conf.CaseSensitive", "if fieldName == seq.TokenExists", "caseSensitive = true"] ∧
    appendRuneInternalBody = ["if !b.caseSensitive { r = unicode.ToLower(r) }", "b.term = utf8.AppendRune(b.term, r)"] := by
  decide

/-- SeqQL range bounds go through `parseCompositeToken` and `parseSeqQLKeyword` (the only place that applies the case
rule), the term is assigned only from that result, and no `strings.Trim*` touches a bound anywhere in token_range.go -/
theorem c12_x_range_bounds :
    rangeTermCalls = ["parseCompositeToken", "parseSeqQLKeyword"] ∧
    rangeTermAssigns = ["term.Kind = TermText", "*term = terms[0]", "*term = Term{ Kind: TermText, Data: \"\", "] ∧
    rangeTrimCalls = [] ∧ tokenRangeCalls = ["parseRangeTerm", "parseRangeTerm"] := by decide

/-- the legacy range-bound builder: either the code before the repair (bounds kept as written: `legacyRangeLowercases =
false`, the model's `rangeLower = false`) or the repaired one (`singleTermBuilder.caseSensitive`, set from the field's
flag that `parseLiteral` passes down through `parseRange` / `parseRangeTerm`) -/
theorem c12_x_legacy_range_case :
    (legacyRangeLowercases = false ∧
      singleTermAppendRuneBody = ["if b.wildcard { return fmt.Errorf(\"only single wildcard is allowed\") }",
        "b.data = utf8.AppendRune(b.data, r)", "return nil"] ∧
      legacyRangeCaseCalls = ["parseRange: tp.parseRangeTerm(&r.From)", "parseRange: tp.parseRangeTerm(&r.To)",
        "parseRangeTerm: singleTermBuilder{}", "parseLiteral: tp.parseRange(r)"]) ∨
    (legacyRangeLowercases = true ∧
      singleTermAppendRuneBody = ["if b.wildcard { return fmt.Errorf(\"only single wildcard is allowed\") }",
        "if !b.caseSensitive { r = unicode.ToLower(r) }", "b.data = utf8.AppendRune(b.data, r)", "return nil"] ∧
      legacyRangeCaseCalls = ["parseRange: tp.parseRangeTerm(&r.From, caseSensitive)", "parseRange: tp.parseRangeTerm(&r.To, caseSensitive)",
        "parseRangeTerm: singleTermBuilder{caseSensitive: caseSensitive}", "parseLiteral: tp.parseRange(r, caseSensitive)"]) := by
  decide

/-- the word-rune predicates of both text term builders are `IsLetter || IsNumber || '_' || '*'` (what
`SV.Parser.isWordRune` transcribes: `r.letter || r.number || cp = 95 || cp = 42`), the lexer's token runes are
`IsLetter || IsDigit || '_' || '.'` (`isTokenRune`), and `unquotePrefix` keeps its final closing-quote check -/
theorem c12_x_rune_predicates :
    seqqlWordRuneConds = ["unicode.IsLetter(r) || unicode.IsNumber(r) || r == '_' || r == '*'"] ∧
    legacyWordRuneConds = ["unicode.IsLetter(c) || unicode.IsNumber(c)", "c == '_' || c == '*'"] ∧
    tokenRuneExpr = ["unicode.IsLetter(r) || unicode.IsDigit(r) || r == '_' || r == '.'"] ∧
    unquotePrefixConds = ["if len(q) < 2", "if quote != '\"' && quote != '`' && quote != '\\''", "if end == -1",
      "if !needUnquote(q[1:end])", "if err != nil", "if prefix == \"\" || prefix[0] != quote"] := by decide

/-- the field type switches handle keyword, path and text and return an error otherwise (no `panic` in `default:`) -/
theorem c12_x_type_switch :
    seqqlTypeCases = ["TokenizerTypeKeyword,TokenizerTypePath", "TokenizerTypeText"] ∧
    legacyTypeCases = ["TokenizerTypeText", "TokenizerTypeKeyword,TokenizerTypePath"] ∧
    seqqlTypeSwitchFunc = "parseFulltextSearchFilter" ∧ legacyTypeSwitchFunc = "parseLiteral" ∧
    seqqlTypeDefault = "return-error" ∧ legacyTypeDefault = "return-error" ∧
    seqqlDefaultPanics = false ∧ legacyDefaultPanics = false ∧
    [ttNoop, ttKeyword, ttText, ttObject, ttTags, ttPath, ttNested, ttExists] = [0, 1, 2, 3, 4, 6, 7, 8] := by decide

/-! ## Non-vacuity -/

/-- `a or b and not c` (SeqQL tokens) is a sentence of the grammar denoting `a or (b and (not c))`, nesting bound 8 -/
example : G (tokSeqQL false (some 1000) (fun _ => .keyword)) (fun _ => True) 0 true 8
    [.atom 0 0 .plain, .or, .atom 1 0 .plain, .and, .not, .atom 2 0 .plain]
    (.bin .or (.leaf 0) (.bin .and (.leaf 1) (.not (.leaf 2)))) :=
  render_G (S := tokSeqQL false (some 1000) (fun _ => .keyword)) (fun _ _ => rfl) 0 (atom_G_seqql false _ _ 0 rfl)
    (.bin .or (.leaf 0) (.bin .and (.leaf 1) (.not (.leaf 2)))) ⟨by decide, trivial, by decide, trivial, trivial⟩ 0 true (Nat.zero_le _)

/-- ... it fits under a limit of 1000 ... -/
example : (tokSeqQL false (some 1000) (fun _ => FType.keyword)).fits 8 := by decide

/-- ... and `ParseSeqQL` returns `a or (NAND c b)` for it -/
example : sqParse (tokSeqQL false (some 1000) (fun _ => .keyword)) [.atom 0 0 .plain, .or, .atom 1 0 .plain, .and, .not, .atom 2 0 .plain]
    = .ok (.bin .or (.leaf 0) (.bin .nand (.leaf 2) (.leaf 1))) := by decide

/-- precedence on a concrete input, both parsers: `( a or b ) and c | fields x` and `not ( a and b )` -/
example : sqParseRaw (tokSeqQL false none (fun _ => .text)) [.lp, .atom 0 0 .plain, .or, .atom 1 0 .plain, .rp, .and, .atom 2 0 .plain, .pipe, .flds]
    = .ok (.bin .and (.bin .or (.leaf 0) (.leaf 1)) (.leaf 2)) := by decide
example : lgParse (tokLegacy false (some 3) (fun _ => .path)) [.not, .lp, .atom 0 0 .plain, .and, .atom 1 0 .range, .rp]
    = .ok (.not (.bin .and (.leaf 0) (.leaf 1))) := by decide
/-- the nesting limit in action: three levels are fine with limit 3, `not not not a` is an error with limit 3 -/
example : sqParse (tokSeqQL false (some 3) (fun _ => .keyword)) [.not, .not, .atom 0 0 .plain] = .ok (.leaf 0) := by decide
example : sqParse (tokSeqQL false (some 3) (fun _ => .keyword)) [.not, .not, .not, .atom 0 0 .plain] = .err := by decide
/-- an error, not a panic, for the object field in the repaired code; an unbalanced bracket is an error -/
example : sqParse (tokSeqQL false none (fun _ => .object)) [.atom 0 0 .plain] = .err := by decide
example : sqParse (tokSeqQL false none (fun _ => .keyword)) [.lp, .atom 0 0 .plain] = .err := by decide
/-- level B: `ft:"ab cd"` on a text field (one quoted token) is the conjunction of two literals -/
example :
    fulltextFilter false [102, 116] .text true
      [⟨[⟨[97], 97, true, false, false, 97, false⟩, ⟨[98], 98, true, false, false, 98, false⟩, ⟨[32], 32, false, false, false, 32, true⟩,
         ⟨[99], 99, true, false, false, 99, false⟩, ⟨[100], 100, true, false, false, 100, false⟩], true, false, .none⟩]
    = .ok (.bin .and (.leaf (.lit [102, 116] [⟨false, [97, 98]⟩])) (.leaf (.lit [102, 116] [⟨false, [99, 100]⟩])), []) := by decide

/-- level B: `f : in ( a , b )` with the nil mapping parses to `f:a or f:b` -/
example :
    let a : LTok := ⟨[⟨[97], 97, true, false, false, 97, false⟩], false, false, .none⟩
    let b : LTok := ⟨[⟨[98], 98, true, false, false, 98, false⟩], false, true, .none⟩
    let f : LTok := ⟨[⟨[102], 102, true, false, false, 102, false⟩], false, false, .none⟩
    let kwt (k : KW) (c : Nat) : LTok := ⟨[⟨[c], c, false, false, false, c, false⟩], false, false, k⟩
    parseSeqQL ⟨false, true, none, true⟩ (some 1000) [f, kwt .colon 58, ⟨[⟨[105], 105, true, false, false, 105, false⟩, ⟨[110], 110, true, false, false, 110, false⟩], false, false, .in_⟩,
      kwt .lp 40, a, kwt .comma 44, b, kwt .rp 41]
    = .ok (.bin .or (.leaf (.lit [102] [⟨false, [97]⟩])) (.leaf (.lit [102] [⟨false, [98]⟩])), []) := by decide

/-- lexer: `a "b c"` gives the token `a` and the quoted token `b c` with the space flag -/
example :
    let r (c : Nat) (l sp : Bool) : QRn := ⟨⟨[c], c, l, false, false, c, sp⟩, none, none⟩
    lexAll 8 [r 97 true false, r 32 false true, r 34 false false, r 98 true false, r 32 false true, r 99 true false, r 34 false false]
    = .ok [⟨[⟨[97], 97, true, false, false, 97, false⟩], false, false, false⟩,
           ⟨[⟨[98], 98, true, false, false, 98, false⟩, ⟨[32], 32, false, false, false, 32, true⟩, ⟨[99], 99, true, false, false, 99, false⟩], true, true, false⟩] := by
  decide

/-- `"a\"` (the only closing candidate is escaped): the unquoting loop runs off the end - an error; the lexer then emits
the quote as a one-rune unquoted token -/
example :
    let r (c : Nat) (uq : Option (Rn × Nat)) : QRn := ⟨⟨[c], c, c = 97, false, false, c, false⟩, uq, uq⟩
    let dq : Rn := ⟨[34], 34, false, false, false, 34, false⟩
    unquotePrefix [r 34 none, r 97 (some (⟨[97], 97, true, false, false, 97, false⟩, 1)), r 92 (some (dq, 2)), r 34 none] = .err := by
  decide

/-- legacy rune level: `a:b` (nil mapping) parses to the literal `a:b`; `a:` ends in an error, not in `tp.cur()` past the end -/
example : parseQueryRunes ⟨false, true, none, true⟩ (some 1000)
    [⟨[97], 97, true, false, false, 97, false⟩, ⟨[58], 58, false, false, false, 58, false⟩, ⟨[98], 98, true, false, false, 98, false⟩]
    = .ok (.leaf (.lit [97] [⟨false, [98]⟩])) := by decide
example : parseQueryRunes ⟨false, true, none, true⟩ (some 1000)
    [⟨[97], 97, true, false, false, 97, false⟩, ⟨[58], 58, false, false, false, 58, false⟩] = .err := by decide

/-- composition with C02 on a concrete query: `a and not b` is rewritten to `NAND b a`; C02's `docMatches` accepts the
document that has token `f:a` only and rejects the one that has both -/
example :
    let la : Leaf := .lit [102] [⟨false, [97]⟩]
    let lb : Leaf := .lit [102] [⟨false, [98]⟩]
    let q := toQuery (toSpecLeaf fun c => [c]) (finish (.bin .and (.leaf la) (.not (.leaf lb))))
    SV.Spec.docMatches q ⟨⟨1, 1⟩, [([102], [97])], []⟩ = true ∧
    SV.Spec.docMatches q ⟨⟨1, 2⟩, [([102], [97]), ([102], [98])], []⟩ = false := by decide

/-- the hypotheses of `c12_total_old_partial` are satisfiable -/
example : ∀ fid : Nat, (FType.searchable ((fun (_ : Nat) => FType.text) fid)) = true ∨ (fun (_ : Nat) => FType.text) fid = FType.noop :=
  fun _ => Or.inl rfl

end SV.Props.C12
