import SeqVerif.Model.TokenizerLemmas
import SeqVerif.Extracted.C11
/-!
# C11 - whatever the indexer tokenizes, the query language can find

Index side: `SV.Tok` (Model/Tokenizer.lean) - `KeywordTokenizer`, `TextTokenizer`, `PathTokenizer`, `toLowerTryInplace`,
`indexer.index`.  Query side: the term builders of C12's models (`SV.Parser.seqqlText`, `seqqlKeyword`, the legacy
`TB` builder).  A value is its list of decoded runes; `enc` is the UTF-8 encoder; `WF enc r` collects what Go guarantees
about a decoded rune and its lower case (checked for all code points by the harness' `unicode` oracle).  "The query finds
the token" = the literal's text term, UTF-8 encoded, is byte-equal to the indexed token (how a term matches a token in
general - wildcards, ranges - is C13).
Only property theorems, extracted-fact obligations and non-vacuity examples live in this file.
-/
namespace SV.Props.C11
open SV.Parser SV.Tok

/-- **`toLowerTryInplace` equals rune-wise `unicode.ToLower`**, whether it finishes in place or falls back to `bytes.Map`
on the partly rewritten buffer (multi-byte case pairs whose lower case has another width, e.g. U+0130, U+212A). -/
theorem c11_lower_inplace_eq_map (enc : Nat → List Nat) (rs : List TRn) (h : ∀ r, r ∈ rs → WF enc r) :
    lowerTok rs = rs.flatMap fun r => enc r.r.lower :=
  lowerTok_eq enc rs h

/-- **the two independently written tokenizations use the same character class**: the byte table / `unicode` test of
`TextTokenizer` and the rune test of `parseSeqQLText` and of the legacy `textTokenBuilder` agree on every rune -/
theorem c11_classes_agree (enc : Nat → List Nat) (r : TRn) (h : WF enc r) : isTextRn r = isWordRune r.r :=
  isTextRn_eq_isWordRune enc r h

/-- **C11 for text fields.**  For every value, configuration and per-field limit such that the value is indexed at all:
every word of the (possibly cut) value whose byte length is within `maxTokenSize` is an indexed token, and the query
term each builder (SeqQL `parseSeqQLText`, legacy builder) makes of that word is - UTF-8 encoded - exactly that token,
case-insensitively unless case sensitivity is configured. -/
theorem c11_text (enc : Nat → List Nat) (c : TokCfg) (fieldMax : Nat) (value w : List TRn)
    (hidx : ¬ (blen value > effMax fieldMax c.maxFieldValueLength ∧ c.partialIdx = false)) (hne : blen value ≠ 0)
    (hw : w ∈ textWords [] (truncRunes value (min (blen value) (effMax fieldMax c.maxFieldValueLength))))
    (hwne : w ≠ []) (hlen : blen w ≤ c.maxTokenSize) (hwf : ∀ r, r ∈ w → WF enc r) :
    lowerIfCI c.cs c.norm w ∈ textTokens c fieldMax value ∧
    seqqlText c.cs (w.map (·.r)) = [[⟨false, lowerIf c.cs (w.map (·.r))⟩]] ∧
    ((w.map (·.r)).foldl TB.appendRuneInternal ⟨c.cs, [], [], []⟩).getTokens = [[⟨false, lowerIf c.cs (w.map (·.r))⟩]] ∧
    termBytes enc (lowerIf c.cs (w.map (·.r))) = lowerIfCI c.cs c.norm w := by
  have hall : ∀ r, r ∈ w → isTextRn r = true := by
    intro r hr
    rcases textWords_mem _ [] w hw r hr with h | h
    · simp at h
    · exact h
  refine ⟨?_, ?_, ?_, ?_⟩
  · unfold textTokens
    have h1 : (decide (blen value > effMax fieldMax c.maxFieldValueLength) && !c.partialIdx) = false := by
      cases hp : c.partialIdx <;> simp_all
    simp only [h1, Bool.false_eq_true, if_false, hne]
    refine List.mem_map.mpr ⟨w, List.mem_filter.mpr ⟨hw, ?_⟩, rfl⟩
    have : w.isEmpty = false := by cases w <;> simp_all
    simp [this, hlen]
  · apply seqqlText_word
    · simpa using hwne
    · intro r hr
      obtain ⟨x, hx, rfl⟩ := List.mem_map.mp hr
      rw [← isTextRn_eq_isWordRune enc x (hwf x hx)]
      exact hall x hx
  · exact legacy_builder_word c.cs _ (by simpa using hwne)
  · symm
    apply token_eq_term enc c.cs c.norm w hwf
    intro _ _ r hr
    -- a word rune is a letter, a number or ASCII, hence a valid sequence
    have ht := hall r hr
    have hwfr := hwf r hr
    apply hwfr.validIfClass
    unfold isTextRn at ht
    split at ht
    · right; right; assumption
    · simp only [Bool.or_eq_true] at ht
      rcases ht with h | h
      · left; exact h
      · right; left; exact h

/-- keyword fields, parametric in the form of the case-sensitive branch (`c.norm`): used for the code as it is
(`c11_keyword`) and for the code before fix 11c549f, where it needs the value to be valid UTF-8 -/
theorem c11_keyword_param (enc : Nat → List Nat) (c : TokCfg) (fieldMax : Nat) (value : List TRn)
    (hlim : blen value ≤ effMax fieldMax c.maxTokenSize) (hne : value ≠ [])
    (hwf : ∀ r, r ∈ value → WF enc r) (hnw : ∀ r, r ∈ value → r.r.cp ≠ wildcardCp)
    (hvalid : c.cs = true → c.norm = false → ∀ r, r ∈ value → Valid enc r) :
    keywordTokens c fieldMax value = [lowerIfCI c.cs c.norm value] ∧
    seqqlKeyword c.cs (value.map (·.r)) = [⟨false, lowerIf c.cs (value.map (·.r))⟩] ∧
    ((value.map (·.r)).foldl TB.appendRuneInternal ⟨c.cs, [], [], []⟩).getTokens = [[⟨false, lowerIf c.cs (value.map (·.r))⟩]] ∧
    termBytes enc (lowerIf c.cs (value.map (·.r))) = lowerIfCI c.cs c.norm value := by
  refine ⟨?_, ?_, ?_, ?_⟩
  · unfold keywordTokens
    have h1 : (decide (blen value > effMax fieldMax c.maxTokenSize) && !c.partialIdx) = false := by
      have : ¬ blen value > effMax fieldMax c.maxTokenSize := by omega
      simp [this]
    simp only [h1, Bool.false_eq_true, if_false]
    rw [Nat.min_eq_left hlim, truncRunes_full value _ (Nat.le_refl _)]
  · apply seqqlKeyword_plain
    · simpa using hne
    · intro r hr
      obtain ⟨x, hx, rfl⟩ := List.mem_map.mp hr
      exact hnw x hx
  · exact legacy_builder_word c.cs _ (by simpa using hne)
  · exact (token_eq_term enc c.cs c.norm value hwf hvalid).symm

/-- **C11 for keyword fields** - the code as it is (fix 11c549f: the case-sensitive branch normalises invalid UTF-8;
`c11_x_case_sensitive_branch` re-checks this on every run).  For every value within the size limit - any bytes,
valid UTF-8 or not -, either case setting, partial indexing on or off: the value is indexed as exactly one token, and
the term `parseSeqQLKeyword` / the legacy keyword builder make of the whole value (no wildcard rune in it) is, UTF-8
encoded, exactly that token. -/
theorem c11_keyword (enc : Nat → List Nat) (mts : Nat) (cs partialIdx : Bool) (mfl fieldMax : Nat) (value : List TRn)
    (hlim : blen value ≤ effMax fieldMax mts) (hne : value ≠ [])
    (hwf : ∀ r, r ∈ value → WF enc r) (hnw : ∀ r, r ∈ value → r.r.cp ≠ wildcardCp) :
    let c : TokCfg := ⟨mts, cs, partialIdx, mfl, SV.Extracted.C11.csNormalizesInvalid⟩
    keywordTokens c fieldMax value = [lowerIfCI cs SV.Extracted.C11.csNormalizesInvalid value] ∧
    seqqlKeyword cs (value.map (·.r)) = [⟨false, lowerIf cs (value.map (·.r))⟩] ∧
    ((value.map (·.r)).foldl TB.appendRuneInternal ⟨cs, [], [], []⟩).getTokens = [[⟨false, lowerIf cs (value.map (·.r))⟩]] ∧
    termBytes enc (lowerIf cs (value.map (·.r))) = lowerIfCI cs SV.Extracted.C11.csNormalizesInvalid value := by
  have hn : SV.Extracted.C11.csNormalizesInvalid = true := by decide
  exact c11_keyword_param enc ⟨mts, cs, partialIdx, mfl, SV.Extracted.C11.csNormalizesInvalid⟩ fieldMax value hlim hne hwf hnw
    (fun _ h => by rw [hn] at h; exact absurd h (by simp))

/-- **C11 for path fields, query side**: a leading path (or the whole path), queried as a keyword, yields exactly the
token `c11_path` shows to be indexed - for any bytes, in either case setting (code as it is). -/
theorem c11_path_query (enc : Nat → List Nat) (cs : Bool) (p : List TRn) (hne : p ≠ [])
    (hwf : ∀ r, r ∈ p → WF enc r) (hnw : ∀ r, r ∈ p → r.r.cp ≠ wildcardCp) :
    seqqlKeyword cs (p.map (·.r)) = [⟨false, lowerIf cs (p.map (·.r))⟩] ∧
    termBytes enc (lowerIf cs (p.map (·.r))) = lowerIfCI cs SV.Extracted.C11.csNormalizesInvalid p := by
  have hn : SV.Extracted.C11.csNormalizesInvalid = true := by decide
  refine ⟨seqqlKeyword_plain cs _ (by simpa using hne) ?_, ?_⟩
  · intro r hr
    obtain ⟨x, hx, rfl⟩ := List.mem_map.mp hr
    exact hnw x hx
  · exact (token_eq_term enc cs _ p hwf (fun _ h => by rw [hn] at h; exact absurd h (by simp))).symm

/-- **Historical counterexample** (the code before fix 11c549f, case sensitivity configured): the value
`a\xff` is indexed under the raw bytes 61 FF, while every query builder turns the invalid byte into U+FFFD
(61 EF BF BD) - the document cannot be found by its own field content. -/
theorem c11_keyword_case_sensitive_counterexample :
    let a : TRn := ⟨⟨[97], 97, true, false, false, 97, false⟩, [97], [97]⟩
    let value := [a, invalidRn 255]
    let enc : Nat → List Nat := fun cp => if cp = 0xFFFD then [0xEF, 0xBF, 0xBD] else [cp]
    keywordTokens ⟨72, true, false, 32768, false⟩ 0 value = [[97, 255]] ∧
    termBytes enc (lowerIf true (value.map (·.r))) = [97, 0xEF, 0xBF, 0xBD] ∧
    keywordTokens ⟨72, true, false, 32768, true⟩ 0 value = [[97, 0xEF, 0xBF, 0xBD]] := by decide

/-- **C11 for path fields.**  Every leading path cut right before a separator (other than a leading one) and the whole
path are indexed tokens; queried as a keyword, each is found (`c11_keyword` applied to the prefix). -/
theorem c11_path (c : TokCfg) (fieldMax : Nat) (value p rest : List TRn) (sep : TRn)
    (hlim : blen value ≤ effMax fieldMax c.maxTokenSize) (hsep : sep.r.cp = 47 ∧ sep.r.bytes = [47])
    (hv : value = p ++ sep :: rest) (hp : p ≠ []) :
    lowerIfCI c.cs c.norm p ∈ pathTokens c fieldMax value ∧ lowerIfCI c.cs c.norm value ∈ pathTokens c fieldMax value := by
  unfold pathTokens
  have h1 : (decide (blen value > effMax fieldMax c.maxTokenSize) && !c.partialIdx) = false := by
    have : ¬ blen value > effMax fieldMax c.maxTokenSize := by omega
    simp [this]
  simp only [h1, Bool.false_eq_true, if_false]
  rw [Nat.min_eq_left hlim, truncRunes_full value _ (Nat.le_refl _)]
  refine ⟨List.mem_append_left _ (List.mem_map.mpr ⟨p, ?_, rfl⟩), List.mem_append_right _ (by simp)⟩
  rw [hv]
  simpa using pathPrefixes_mem [] p rest sep true hsep (Or.inl hp)

/-- **C11 for field existence.**  For every type of a field that has a tokenizer (keyword, text, path, exists - also the
second type of a multi-type field, and whatever the value is, even none) the indexer emits the token `_exists_` = the
field's title, which is what `_exists_:<title>` asks for (that literal is always case sensitive). -/
theorem c11_exists (c : TokCfg) (all : List MType) (key : List Nat) (value : Option (List TRn)) (t : MType)
    (ht : t ∈ all) (htt : t.tt ≠ .other) :
    (tokenExists, if t.title.isEmpty then key else t.title) ∈ indexField c all key value := by
  unfold indexField
  refine List.mem_flatMap.mpr ⟨t, ht, ?_⟩
  simp [htt]

/-- **C11 size limits (keyword).**  A value over the limit is either not indexed at all (no partial indexing) or
indexed under exactly one token: the lower-cased first `limit` bytes (which a query for that prefix produces). -/
theorem c11_limits_keyword (c : TokCfg) (fieldMax : Nat) (value : List TRn) (hover : blen value > effMax fieldMax c.maxTokenSize) :
    (c.partialIdx = false → keywordTokens c fieldMax value = []) ∧
    (c.partialIdx = true → keywordTokens c fieldMax value
        = [lowerIfCI c.cs c.norm (truncRunes value (effMax fieldMax c.maxTokenSize))] ∧
      bytesOf (truncRunes value (effMax fieldMax c.maxTokenSize)) = (bytesOf value).take (effMax fieldMax c.maxTokenSize)) := by
  refine ⟨?_, ?_⟩
  · intro hp; simp [keywordTokens, hover, hp]
  · intro hp
    refine ⟨?_, truncRunes_bytes _ _⟩
    simp only [keywordTokens, hp, Bool.not_true, Bool.and_false, Bool.false_eq_true, if_false]
    rw [Nat.min_eq_right (by omega)]

/-- **C11 size limits (text).**  Words longer than `maxTokenSize` are not indexed under any token (nothing the query
side could not produce is emitted); a value over the field limit without partial indexing yields no token. -/
theorem c11_limits_text (c : TokCfg) (fieldMax : Nat) (value : List TRn) (tok : List Nat)
    (h : tok ∈ textTokens c fieldMax value) (hne : blen value ≠ 0) :
    ∃ w, w ∈ textWords [] (truncRunes value (min (blen value) (effMax fieldMax c.maxFieldValueLength))) ∧
      w ≠ [] ∧ blen w ≤ c.maxTokenSize ∧ tok = lowerIfCI c.cs c.norm w := by
  unfold textTokens at h
  by_cases hskip : (decide (blen value > effMax fieldMax c.maxFieldValueLength) && !c.partialIdx) = true
  · simp [hskip] at h
  · simp only [hskip, Bool.false_eq_true, if_false, hne] at h
    obtain ⟨w, hw, rfl⟩ := List.mem_map.mp h
    obtain ⟨hw1, hw2⟩ := List.mem_filter.mp hw
    simp only [Bool.and_eq_true, Bool.not_eq_eq_eq_not, Bool.not_true, decide_eq_true_eq] at hw2
    exact ⟨w, hw1, by intro he; simp [he] at hw2, hw2.2, rfl⟩

/-- **Which type answers queries on a multi-type field.**  Whatever the order of the `types:` list, the `Main` type
(the one the query parsers use for `field:value`) is the entry without a title, recorded under the field name itself,
and `All` (what the indexer tokenizes) is every entry in list order under `field` / `field.title` - so the type that
parses a query on `field` is the type that indexed the tokens named `field`. -/
theorem c11_main_is_untitled (fn : List Nat) (types : List TypeIn) (main : MType) (all : List MType)
    (h : convertTypes fn types = some (main, all)) :
    (∃ t, t ∈ types ∧ t.title = [] ∧ main = ⟨fn, t.tt, t.size⟩) ∧
    all = types.map (fun t => ⟨if t.title.isEmpty then fn else fn ++ [46] ++ t.title, t.tt, t.size⟩) ∧
    main ∈ all := by
  unfold convertTypes at h
  split at h
  · rename_i m a heq
    simp only [Option.some.injEq, Prod.mk.injEq] at h
    obtain ⟨rfl, rfl⟩ := h
    have ha := convertLoop_all fn types [] none [] _ _ heq
    have hm := convertLoop_main fn types [] none [] _ _ heq
    simp only [List.nil_append] at ha
    rcases hm with ⟨t, ht, h1, h2⟩ | hm
    · refine ⟨⟨t, ht, h1, h2⟩, ha, ?_⟩
      rw [ha, h2]
      exact List.mem_map.mpr ⟨t, ht, by simp [h1]⟩
    · simp at hm
  · simp at h

/-! ## Obligations on facts re-extracted from /repo on every run -/

open SV.Extracted.C11

/-- the byte tables of the tokenizer package are the ones `isTextRn` / `asciiLower` transcribe; the path separator is `/` -/
theorem c11_x_tables :
    isTextTokenConds = ["'a' <= i && i <= 'z' || 'A' <= i && i <= 'Z' || '0' <= i && i <= '9'", "i == '_' || i == '*'"] ∧
    toLowerMapConds = ["'A' <= i && i <= 'Z'"] ∧ pathSeparator = 47 ∧ maxTextFieldValueLength = 32768 := by decide

/-- index side and both query sides test a word rune with the same expression -/
theorem c11_x_word_class :
    textTokenizerConds.contains "unicode.IsLetter(r) || unicode.IsNumber(r)" = true ∧
    seqqlTextConds.contains "unicode.IsLetter(r) || unicode.IsNumber(r) || r == '_' || r == '*'" = true ∧
    legacyIsIndexedConds = ["unicode.IsLetter(c) || unicode.IsNumber(c)", "c == '_' || c == '*'"] := by decide

/-- the control skeletons of the three tokenizers and of `toLowerTryInplace` are the modelled ones -/
theorem c11_x_tokenizers :
    textTokenizerConds = ["maxFieldValueLength == 0", "len(value) > maxFieldValueLength && !t.partialIndexing", "len(value) == 0",
      "c < utf8.RuneSelf", "isTextToken[c]", "unicode.IsLetter(r) || unicode.IsNumber(r)",
      "len(token) != 0 && len(token) <= t.maxTokenSize", "!t.caseSensitive && (!asciiOnly || hasUpper)",
      "k == len(value) || len(value[k:]) > t.maxTokenSize", "!t.caseSensitive && (asciiOnly && hasUpper || !asciiOnly)"] ∧
    keywordTokenizerConds = ["maxTokenSize == 0", "len(value) > maxTokenSize && !t.partialIndexing"] ∧
    pathTokenizerConds = ["maxTokenSize == 0", "len(value) > maxTokenSize && !t.partialIndexing",
      "len(value) != 0 && value[0] == t.separator", "sepIndex == -1"] ∧
    toLowerInplaceConds = ["isASCII[s[i]]", "utf8.RuneLen(lower) != upperWid"] ∧
    toLowerInplaceCalls = ["utf8.DecodeRune", "unicode.To", "utf8.RuneLen", "bytes.Map", "utf8.EncodeRune"] := by decide

/-- the ingestor registers tokenizers for exactly text, keyword, path and exists, each built from the configuration in the
constructors' parameter order (max token size, case sensitive, partial indexing); `index` emits `_exists_` per type -/
theorem c11_x_indexer :
    registeredTokenizers = ["TokenizerTypeText=tokenizer.NewTextTokenizer(c.MaxTokenSize, c.CaseSensitive, c.PartialFieldIndexing, consts.MaxTextFieldValueLength)",
      "TokenizerTypeKeyword=tokenizer.NewKeywordTokenizer(c.MaxTokenSize, c.CaseSensitive, c.PartialFieldIndexing)",
      "TokenizerTypePath=tokenizer.NewPathTokenizer(c.MaxTokenSize, c.CaseSensitive, c.PartialFieldIndexing)",
      "TokenizerTypeExists=tokenizer.NewExistsTokenizer()"] ∧
    indexConds = ["!has", "tokenType.Title != \"\"", "value != nil"] := ⟨rfl, by decide⟩

/-- proxy -> store: all four store lists are dialed by the same call shape (no per-list options), and the one dial carries
the metadata-forwarding interceptor - so the query language the client chose (`use-seq-ql`) reaches every store, and the
store parses the query text with the parser the proxy used -/
theorem c11_x_store_dials :
    storeDialCalls = ["appendClients(ctx, clients, config.HotStores.Shards)", "appendClients(ctx, clients, config.HotReadStores.Shards)",
      "appendClients(ctx, clients, config.WriteStores.Shards)", "appendClients(ctx, clients, config.ReadStores.Shards)"] ∧
    storeDialOptions = ["grpc.WithTransportCredentials", "grpc.WithStatsHandler", "grpc.WithKeepaliveParams", "grpc.WithConnectParams",
      "grpc.WithUnaryInterceptor(grpcutil.PassMetadataUnaryClientInterceptor())"] := ⟨rfl, rfl⟩

/-- `convertMappingWithMultipleTypes`: `Main` is assigned exactly where the title is empty (with the field name as its
title), titled entries get their own mapping key, `All` is the list in source order -/
theorem c11_x_main_type :
    mainTypeRule = ["title == \"\" => mappingTypes.Main = MappingType{Title: fn, TokenizerType: v, MaxSize: t.Size}",
      "!(title == \"\") => finalMapping[title] = NewSingleType(v, title, t.Size)", " => mappingTypes.All = types",
      " => finalMapping[fn] = mappingTypes"] ∧
    allTypesRule = ["types := make([]MappingType, 0, len(el.Types))",
      "types = append(types, MappingType{Title: title, TokenizerType: v, MaxSize: t.Size})"] := by decide

/-- `indexer.index` tokenizes every type of the field with THAT type's size limit (`tokenType.MaxSize`, the loop
variable over `tokenTypes.All`) - what `SV.Tok.indexField` does with `t.maxSize` -/
theorem c11_x_per_type_size :
    indexLoops = ["_, tokenType := range tokenTypes.All"] ∧
    indexTokenizeCalls = ["Tokenize(tokens, title, value, tokenType.MaxSize)"] := by decide

/-- a quoted token is never one of the parser's keywords: every keyword test of the lexer starts with the
`TokenQuoted` guard - so a value that is exactly `(`, `[`, `in`, ... can be asked for by quoting it (the model's
`kwIn` / `LTok.kind` test `!t.quoted` first) -/
theorem c11_x_quoted_never_keyword :
    isKeywordGuards = ["IsKeyword: if lex.TokenQuoted { return false }", "IsKeywords: if lex.TokenQuoted { return false }",
      "IsKeywordSet: if lex.TokenQuoted { return false }"] := by decide

/-- the case-sensitive branch of `toLowerIfCaseInsensitive` is the normalising one (fix 11c549f):
`if utf8.Valid(x) { return x }; return bytes.Map(identity, x)` -/
theorem c11_x_case_sensitive_branch :
    csNormalizesInvalid = true ∧ toLowerIfConds = ["isCaseSensitive", "utf8.Valid(x)"] := by decide

/-! ## Non-vacuity -/

/-- a multi-type field whose main (untitled) type is listed second: `Main` is still the keyword type under the field name -/
example : convertTypes [109] [⟨[116], .text, 0⟩, ⟨[], .keyword, 0⟩]
    = some (⟨[109], .keyword, 0⟩, [⟨[109, 46, 116], .text, 0⟩, ⟨[109], .keyword, 0⟩]) := by decide

/-- `İs` (U+0130 lower-cases to the one-byte `i`): the in-place pass gives up and `bytes.Map` finishes: `is` -/
example :
    lowerTok [⟨⟨[0xC4, 0xB0], 0x130, true, false, false, 105, false⟩, [105], [105]⟩, ⟨⟨[115], 115, true, false, false, 115, false⟩, [115], [115]⟩]
    = [105, 115] := by decide

/-- text tokens of `Ab c_d` (case-insensitive): `ab`, `c_d` -/
example :
    let r (c l : Nat) : TRn := ⟨⟨[c], c, true, false, false, l, false⟩, [l], [l]⟩
    let sp : TRn := ⟨⟨[32], 32, false, false, false, 32, true⟩, [32], [32]⟩
    let us : TRn := ⟨⟨[95], 95, false, false, false, 95, false⟩, [95], [95]⟩
    textTokens ⟨72, false, false, 32768, false⟩ 0 [r 65 97, r 98 98, sp, r 99 99, us, r 100 100] = [[97, 98], [99, 95, 100]] := by decide

/-- path tokens of `/a/b`: `/a`, `/a/b` -/
example :
    let r (c : Nat) : TRn := ⟨⟨[c], c, true, false, false, c, false⟩, [c], [c]⟩
    let sl : TRn := ⟨⟨[47], 47, false, false, false, 47, false⟩, [47], [47]⟩
    pathTokens ⟨72, true, false, 32768, false⟩ 0 [sl, r 97, sl, r 98] = [[47, 97], [47, 97, 47, 98]] := by decide

/-- partial indexing cuts `aé` (61 C3 A9) after two bytes: the cut rune is re-read as an invalid byte -/
example :
    keywordTokens ⟨2, false, true, 32768, false⟩ 0
      [⟨⟨[97], 97, true, false, false, 97, false⟩, [97], [97]⟩, ⟨⟨[0xC3, 0xA9], 233, true, false, false, 233, false⟩, [0xC3, 0xA9], [0xC3, 0xA9]⟩]
    = [[97, 0xEF, 0xBF, 0xBD]] := by decide

end SV.Props.C11
