import SeqVerif.Model.SearchSpec
import SeqVerif.Model.ActiveIndexProofs
import SeqVerif.Model.ActiveMerge
import SeqVerif.Model.ActiveReach
import SeqVerif.Model.RangeGo
import SeqVerif.Model.EvalTreeWith
import SeqVerif.Model.InverserArray
import SeqVerif.Proofs.C03Posting
import SeqVerif.Model.Bitmask
import SeqVerif.Extracted.C02
/-!
# C02 - search returns exactly the matching documents, ordered, limited and counted

Spec: `SV.Spec.search` (Spec/Store.lean).  Model: `SV.EvalTree.search` = `getLIDsBorders ; buildEvalTree ;
iterateEvalTree` over the `searchIndex` view of a fraction (Model/Borders.lean, Nodes.lean, EvalTree.lean), and
`SV.ActiveIndex.search` = the active fraction in front of it (arrival LIDs, `_all_` order, inverser, window clamp).

Only property theorems, extracted-fact obligations and non-vacuity examples live in this file.
-/
namespace SV.Props.C02
open SV SV.Spec SV.Borders SV.EvalTree

/-! ## merge nodes (for strictly sorted inputs, both directions) -/

theorem c02_and_denotes (rev : Bool) (xs ys : List Nat) (hx : SortedBy rev xs) (hy : SortedBy rev ys) :
    SortedBy rev (andMerge rev xs ys) ∧ ∀ v, v ∈ andMerge rev xs ys ↔ v ∈ xs ∧ v ∈ ys :=
  ⟨andMerge_sorted rev xs ys hx, mem_andMerge rev xs ys hx hy⟩

theorem c02_or_denotes (rev : Bool) (xs ys : List Nat) (hx : SortedBy rev xs) (hy : SortedBy rev ys) :
    SortedBy rev (orMerge rev xs ys) ∧ ∀ v, v ∈ orMerge rev xs ys ↔ v ∈ xs ∨ v ∈ ys :=
  ⟨orMerge_sorted rev xs ys hx hy, mem_orMerge rev xs ys⟩

theorem c02_nand_denotes (rev : Bool) (neg reg : List Nat) (hn : SortedBy rev neg) (hr : SortedBy rev reg) :
    SortedBy rev (nandMerge rev neg reg) ∧ ∀ v, v ∈ nandMerge rev neg reg ↔ v ∈ reg ∧ v ∉ neg :=
  ⟨nandMerge_sorted rev neg reg hr, mem_nandMerge rev neg reg hn hr⟩

theorem c02_not_denotes (rev : Bool) (child : List Nat) (lo hi : Nat) (hc : SortedBy rev child) :
    SortedBy rev (notNode rev child lo hi) ∧
      ∀ v, v ∈ notNode rev child lo hi ↔ (lo ≤ v ∧ v ≤ hi) ∧ v ∉ child := by
  refine ⟨nandMerge_sorted rev _ _ (rangeNode_sorted rev lo hi), fun v => ?_⟩
  unfold notNode
  rw [mem_nandMerge rev _ _ hc (rangeNode_sorted rev lo hi), mem_rangeNode]

/-- an OR tree over any number of posting lists (`node.BuildORTree`) is their sorted union -/
theorem c02_ortree_denotes (rev : Bool) (vs : List (List Nat)) (hs : ∀ l ∈ vs, SortedBy rev l) :
    SortedBy rev (treeFold rev vs) ∧ ∀ v, v ∈ treeFold rev vs ↔ ∃ l ∈ vs, v ∈ l :=
  ⟨treeFold_sorted rev vs hs, mem_treeFold rev vs⟩

/-! ## time window -> LID borders -/

/-- **borders_exact.**  `getLIDsBorders` on an ids table sorted descending (equal mids, equal IDs allowed):
a LID is inside the borders iff its mid is inside `[from, to]`.
The hypothesis `h0` is needed: with `from = 0` the code uses `ID{0,0}` as the exclusive lower bound, see
`c02_borders_zero_id_witness`. -/
theorem c02_borders_exact (from_ to : Nat) (tbl : List ID) (hs : SortedDesc tbl)
    (hr : ∀ id ∈ tbl, id.rid ≤ maxU64) (h0 : 0 < from_ ∨ ∀ id ∈ tbl, id ≠ ⟨0, 0⟩)
    (lid : Nat) (h1 : 1 ≤ lid) (h2 : lid ≤ tbl.length) :
    ((getLIDsBorders from_ to tbl).1 ≤ lid ∧ lid ≤ (getLIDsBorders from_ to tbl).2) ↔
      (from_ ≤ (idAt tbl lid).mid ∧ (idAt tbl lid).mid ≤ to) :=
  getLIDsBorders_exact from_ to tbl hs hr h0 lid h1 h2

/-- Without `h0` the statement is false: the only document, ID `{0,0}`, lies in the window `[0,5]` but outside
the borders `(1,0)`.  (MID 0 is 1970-01-01 and cannot be produced by the ingestion path; recorded as a note.) -/
theorem c02_borders_zero_id_witness :
    getLIDsBorders 0 5 [⟨0, 0⟩] = (1, 0) ∧ inWindow 0 5 { id := ⟨0, 0⟩, tokens := [] } = true :=
  ⟨getLIDsBorders_zero_id_witness, by decide⟩

/-! ## eval tree and result loop -/


/-- **evalTree_denotes** for every query tree, direction and borders. -/
theorem c02_evalTree_denotes (idx : Index) (hwf : WF idx) (rev : Bool) (lo hi : Nat) (q : Query) :
    SortedBy rev (evalTree idx rev lo hi q) ∧
    ∀ v, v ∈ evalTree idx rev lo hi q ↔ (lo ≤ v ∧ v ≤ hi ∧ docMatches q (docAt idx v) = true) :=
  evalTree_denotes idx hwf rev lo hi q

/-- **Every node's output stays inside the borders, the empty pair included.**  Whatever the query tree (NOT at the
root, NOT under OR, ...), direction and index: each yielded LID lies in `[minLID, maxLID]`; when `maxLID < minLID` -
what `getLIDsBorders` returns (`maxLID = minLID - 1`) for a window that falls into a hole in time inside the
fraction - the tree yields nothing.  In particular `rangeNode` (the generator under every NOT) is empty then; the
Go-typed `nodeRange` agrees for these borders by `c02_range_wrap_unreachable`. -/
theorem c02_evalTree_within_borders (idx : Index) (hwf : WF idx) (rev : Bool) (lo hi : Nat) (q : Query) :
    (∀ v ∈ evalTree idx rev lo hi q, lo ≤ v ∧ v ≤ hi) ∧ (hi < lo → evalTree idx rev lo hi q = []) ∧
    (hi < lo → rangeNode rev lo hi = []) := by
  have hd := evalTree_denotes idx hwf rev lo hi q
  refine ⟨fun v hv => ?_, fun hlt => ?_, fun hlt => ?_⟩
  · have := (hd.2 v).mp hv; exact ⟨this.1, this.2.1⟩
  · apply List.eq_nil_iff_forall_not_mem.mpr
    intro v hv
    have := (hd.2 v).mp hv
    omega
  · apply List.eq_nil_iff_forall_not_mem.mpr
    intro v hv
    have := (mem_rangeNode rev lo hi v).mp hv
    omega

/-- **iterate_correct**: first `limit` IDs without adjacent repetitions; every yielded LID counted. -/
theorem c02_iterate_correct (tbl : List ID) (limit : Nat) (scanAll : Bool) (lids : List Nat) :
    (iterate tbl limit scanAll lids ⟨0, [], ⟨0, 0⟩⟩).ids = (dedupAdj (lids.map (idAt tbl))).take limit ∧
    (scanAll = true → (iterate tbl limit scanAll lids ⟨0, [], ⟨0, 0⟩⟩).total = lids.length) :=
  iterate_correct tbl limit scanAll lids

/-! ## the property -/

/-- **C02 on one fraction index.**  For every well-formed index (posting lists strictly ascending and inside the
table; ids sorted descending, ties and repeated IDs allowed), every query tree (NOT / NAND at any depth), window,
order, limit (0 and beyond the number of matches included) and with or without total:
`IndexSearch` returns exactly `Spec.search` of the stored documents. -/
theorem c02_search_eq_spec (idx : Index) (hwf : WF idx) (hs : SortedDesc idx.ids)
    (hr : ∀ id ∈ idx.ids, id.rid ≤ maxU64) (q : Query) (from_ to : Nat)
    (h0 : 0 < from_ ∨ ∀ id ∈ idx.ids, id ≠ ⟨0, 0⟩) (asc : Bool) (limit : Nat) (withTotal : Bool) :
    EvalTree.search idx q from_ to asc limit withTotal = Spec.search (docsOf idx) q from_ to asc limit withTotal :=
  search_eq_spec idx hwf hs hr q from_ to h0 asc limit withTotal

/-- ... and the order in which the documents were stored does not matter. -/
theorem c02_search_any_storage_order (idx : Index) (hwf : WF idx) (hs : SortedDesc idx.ids)
    (hr : ∀ id ∈ idx.ids, id.rid ≤ maxU64) (q : Query) (from_ to : Nat)
    (h0 : 0 < from_ ∨ ∀ id ∈ idx.ids, id ≠ ⟨0, 0⟩) (asc : Bool) (limit : Nat) (withTotal : Bool)
    (docs : List Doc) (hp : docs.Perm (docsOf idx)) :
    EvalTree.search idx q from_ to asc limit withTotal = Spec.search docs q from_ to asc limit withTotal := by
  rw [search_eq_spec idx hwf hs hr q from_ to h0 asc limit withTotal, search_perm _ _ hp]

/-- **C02 on the active fraction.**  Documents arrive in any order (equal timestamps, out-of-order arrival); every
token keeps the arrival LIDs of its documents.  Searching through the `_all_` order, the inverser, `inverseLIDs`
and the window clamp returns exactly `Spec.search` of the arrived documents. -/
theorem c02_active_search_eq_spec (a : ActiveIndex.Active) (hwf : ActiveIndex.AWF a) (q : Query)
    (from_ to : Nat) (asc : Bool) (limit : Nat) (withTotal : Bool) :
    ActiveIndex.search a q from_ to asc limit withTotal =
      Spec.search (ActiveIndex.arrivalDocs a) q from_ to asc limit withTotal :=
  ActiveIndex.search_eq_spec a hwf q from_ to asc limit withTotal

/-- **inverse_sorted.**  A token's arrival LIDs, ordered like the `_all_` list (descending by (mid, rid, lid)), are
translated by `inverseLIDs` into a strictly ascending list of search LIDs - what `node.NewStatic` needs. -/
theorem c02_inverse_sorted (ids : List ID) (m : List Nat) (hm : ActiveIndex.KeySorted ids m) (size lo hi : Nat)
    (u : List Nat) (hu : ActiveIndex.KeySorted ids u) :
    SortedBy false (ActiveIndex.inverseLIDs m size lo hi u) :=
  ActiveIndex.inverseLIDs_sorted ids m hm size lo hi u hu

/-- `frac.mergeSorted` on two lists strictly sorted by (mid, rid, lid) descending (LIDs below MaxUint32) returns
their strictly sorted union; consequently `TokenLIDs.GetLIDs` yields the same list however the token's LIDs were
split over queue flushes - the form `ActiveIndex.getLIDs` the active theorem uses. -/
theorem c02_mergeSorted_union (ids : List ID) (right left : List Nat) (hr : ActiveIndex.KeySorted ids right)
    (hl : ActiveIndex.KeySorted ids left) (hmr : ActiveIndex.maxU32 ∉ right) (hml : ActiveIndex.maxU32 ∉ left) :
    ActiveIndex.KeySorted ids (ActiveIndex.mergeSorted ids right left) ∧
      ∀ v, v ∈ ActiveIndex.mergeSorted ids right left ↔ v ∈ right ∨ v ∈ left :=
  ActiveIndex.mergeSorted_spec ids right left hr hl hmr hml

theorem c02_getLIDs_merge_invariant (ids : List ID) (old queued : List Nat) (ho : ActiveIndex.maxU32 ∉ old)
    (hq : ActiveIndex.maxU32 ∉ queued) :
    ActiveIndex.mergeSorted ids (ActiveIndex.getLIDs ids old) (ActiveIndex.getLIDs ids queued) =
      ActiveIndex.getLIDs ids (old ++ queued) :=
  ActiveIndex.mergeSorted_getLIDs ids old queued ho hq

/-- `Revert (Inverse v) = v` -/
theorem c02_revert_inverse (m : List Nat) (size v w : Nat) (h : ActiveIndex.inverse m size v = some w) :
    ActiveIndex.revert m w = v :=
  ActiveIndex.revert_inverse m size v w h

/-! ## every reachable active fraction (C17's append pipeline) -/

/-- **The hypothesis `AWF` is established by the indexing pipeline.**  `SV.Collector.run` is C17's model of
`appendWorker` (parse metas, `SetMultiple`, `Filter`, `AppendIDs`, token list, `GroupLIDsByToken`,
`PutLIDsInQueue`).  After *any* history of bulks - ids pairwise distinct inside a bulk, earlier documents re-sent any
number of times, no nested metas, ids uint64 pairs other than `{0,0}` - the state read as the search side's
`ActiveIndex.Active` (arrival id table; per token of the token list its queued arrival LIDs, which `GetLIDs` sorts
and merges - `c02_getLIDs_merge_invariant`) is well-formed. -/
theorem c02_reachable_active_awf (h : List (List SV.Collector.Meta)) (hd : SV.Collector.DistinctBulks h)
    (hs : SV.Collector.NonEmptyDocs h) (hg : ActiveReach.GoodIDs h) :
    ActiveIndex.AWF (ActiveReach.toActive (SV.Collector.run SV.Collector.Active.empty h)) :=
  ActiveReach.reachable_awf h hd hs hg

/-- ... hence `c02_active_search_eq_spec` applies to every reachable active fraction. -/
theorem c02_reachable_active_search_eq_spec (h : List (List SV.Collector.Meta)) (hd : SV.Collector.DistinctBulks h)
    (hs : SV.Collector.NonEmptyDocs h) (hg : ActiveReach.GoodIDs h) (q : Query) (from_ to : Nat) (asc : Bool)
    (limit : Nat) (withTotal : Bool) :
    ActiveIndex.search (ActiveReach.toActive (SV.Collector.run SV.Collector.Active.empty h)) q from_ to asc limit
        withTotal =
      Spec.search (ActiveIndex.arrivalDocs (ActiveReach.toActive (SV.Collector.run SV.Collector.Active.empty h)))
        q from_ to asc limit withTotal :=
  ActiveReach.reachable_search_eq_spec h hd hs hg q from_ to asc limit withTotal

/-- ... and the documents that answer are the delivered ones: with `K = keptRun` (of every bulk the metas whose id the
fraction does not hold yet, arrival order) the arrival documents have `K`'s ids in `K`'s order, and the document at
arrival LID `1 + i` carries the token `(field, value)` exactly when `K[i]` has a token `field:value`. -/
theorem c02_reachable_active_docs (h : List (List SV.Collector.Meta)) (hd : SV.Collector.DistinctBulks h)
    (hs : SV.Collector.NonEmptyDocs h) :
    (ActiveIndex.arrivalDocs (ActiveReach.toActive (SV.Collector.run SV.Collector.Active.empty h))).map (·.id) =
        (ActiveReach.keptRun SV.Collector.Active.empty h).map (fun m => ActiveReach.toID m.id) ∧
    ∀ i, ∀ (hi : i < (ActiveReach.keptRun SV.Collector.Active.empty h).length), ∀ fv : Bytes × Bytes,
      fv ∈ (ActiveIndex.arrivalDoc (ActiveReach.toActive (SV.Collector.run SV.Collector.Active.empty h)) (1 + i)).tokens ↔
        ∃ tok ∈ ((ActiveReach.keptRun SV.Collector.Active.empty h)[i]).tokens, ActiveReach.splitTok tok.bytes = fv :=
  ActiveReach.reachable_docs h hd hs

/-! ## nested documents (several LIDs share one ID) -/

/-- **What `IndexSearch` returns when several metas share an ID** (nested mapping: the parent meta and one meta per
nested object carry the same ID and are adjacent in the ids table).  `c02_search_eq_spec` holds with one `Doc` per
*meta*; spelled out: the IDs come back strictly ordered (each once, the adjacent-ID check of `iterateEvalTree`), every
returned ID has a meta that matches inside the window, and `total` is the number of matching **metas**. -/
theorem c02_nested_result (idx : Index) (hwf : WF idx) (hs : SortedDesc idx.ids)
    (hr : ∀ id ∈ idx.ids, id.rid ≤ maxU64) (q : Query) (from_ to : Nat)
    (h0 : 0 < from_ ∨ ∀ id ∈ idx.ids, id ≠ ⟨0, 0⟩) (asc : Bool) (limit : Nat) :
    (EvalTree.search idx q from_ to asc limit true).ids.Pairwise (fun a b => orderLe asc a b = true ∧ a ≠ b) ∧
    (∀ id ∈ (EvalTree.search idx q from_ to asc limit true).ids,
        ∃ lid, 1 ≤ lid ∧ lid ≤ idx.ids.length ∧ idAt idx.ids lid = id ∧ hitLid idx q from_ to lid = true) ∧
    (EvalTree.search idx q from_ to asc limit true).total =
        ((List.range' 1 idx.ids.length).filter (hitLid idx q from_ to)).length := by
  rw [search_eq_spec idx hwf hs hr q from_ to h0 asc limit true]
  refine ⟨Spec.search_ids_strict _ _ _ _ _ _ _, ?_, ?_⟩
  · intro id hid
    rcases Spec.search_ids_sound _ _ _ _ _ _ _ id hid with ⟨d, hd, hid', hw, hm⟩
    unfold docsOf at hd
    rcases List.mem_map.mp hd with ⟨lid, hl, rfl⟩
    have := List.mem_range'_1.mp hl
    exact ⟨lid, this.1, by omega, hid', by simp [hitLid, hw, hm]⟩
  · have := congrArg List.length (hits_ids idx q from_ to)
    simp only [List.length_map] at this
    simp only [Spec.search, if_true]
    exact this

/-- one document `{5,1}` with two nested objects: three metas (LIDs 1..3) share the ID; the parent's token
`trace_id:1` is copied to every meta (as `indexer.Index` does), `span_id:1` / `span_id:2` sit on the nested metas -/
def exNested : Index :=
  { ids := [⟨5, 1⟩, ⟨5, 1⟩, ⟨5, 1⟩],
    toks := [⟨[116], [49], [1, 2, 3]⟩, ⟨[115], [49], [2]⟩, ⟨[115], [50], [3]⟩] }

/-- **Witness: `total` is not the number of matching documents.**  The query `trace_id:1` matches the single stored
document; `IndexSearch` returns its ID once but `total = 3`. -/
theorem c02_nested_total_witness :
    EvalTree.search exNested (.leaf (.lit [116] [.text [49]])) 0 10 false 10 true = ⟨[⟨5, 1⟩], 3⟩ ∧
    ((hits (docsOf exNested) (.leaf (.lit [116] [.text [49]])) 0 10).map (·.id)).eraseDups.length = 1 := by
  constructor <;> decide +kernel

/-! ## nodeRange with Go's integer types -/

/-- **The `nodeRange` wrap is unreachable from `getLIDsBorders`.**  `RangeGo.drain` calls the Go-typed `Next`
(`cur int`, `uint32(cur)`) at most `fuel` times.  For every ids table with `Len() ≤ MaxUint32`, every window and both
directions, the range node of a NOT over the computed borders reports its end and has yielded `rangeNode`. -/
theorem c02_range_wrap_unreachable (from_ to : Nat) (tbl : List ID) (hlen : tbl.length < RangeGo.maxU32) (rev : Bool) :
    RangeGo.drain rev (RangeGo.newRange rev (getLIDsBorders from_ to tbl).1 (getLIDsBorders from_ to tbl).2).1
        ((getLIDsBorders from_ to tbl).2 + 2)
        (RangeGo.newRange rev (getLIDsBorders from_ to tbl).1 (getLIDsBorders from_ to tbl).2).2 =
      (rangeNode rev (getLIDsBorders from_ to tbl).1 (getLIDsBorders from_ to tbl).2, true) :=
  RangeGo.borders_range_terminates from_ to tbl hlen rev

/-- outside those borders the node does wrap: ascending to `MaxUint32` continues with 0, 1, 2; descending to 0
continues with `MaxUint32` -/
theorem c02_range_wrap_witness :
    RangeGo.drain false RangeGo.maxU32 4 (RangeGo.maxU32 : Int) = ([RangeGo.maxU32, 0, 1, 2], false) ∧
    RangeGo.drain true 0 3 (1 : Int) = ([1, 0, RangeGo.maxU32], false) :=
  RangeGo.wrap_witness

/-! ## every numeric reading of token values

`Spec.searchWith num` / `Leaf.valMatchWith num` (Spec/StoreNum.lean) are the Spec with the meaning of numbers in range
leaves as a parameter `num : Bytes → Option Int` (e.g. a monotone integer key of `strconv.ParseFloat`); the model's
`leafTokensWith num` selects the tokens with `valMatchWith num`.  The theorems above are the instance `num = numVal`. -/

theorem c02_search_eq_specWith (num : Bytes → Option Int) (idx : Index) (hwf : WF idx) (hs : SortedDesc idx.ids)
    (hr : ∀ id ∈ idx.ids, id.rid ≤ maxU64) (q : Query) (from_ to : Nat)
    (h0 : 0 < from_ ∨ ∀ id ∈ idx.ids, id ≠ ⟨0, 0⟩) (asc : Bool) (limit : Nat) (withTotal : Bool) :
    EvalTree.searchWith num idx q from_ to asc limit withTotal =
      Spec.searchWith num (docsOf idx) q from_ to asc limit withTotal :=
  searchWith_eq_spec num idx hwf hs hr q from_ to h0 asc limit withTotal

theorem c02_active_search_eq_specWith (num : Bytes → Option Int) (a : ActiveIndex.Active) (hwf : ActiveIndex.AWF a)
    (q : Query) (from_ to : Nat) (asc : Bool) (limit : Nat) (withTotal : Bool) :
    ActiveIndex.searchWith num a q from_ to asc limit withTotal =
      Spec.searchWith num (ActiveIndex.arrivalDocs a) q from_ to asc limit withTotal :=
  ActiveIndex.searchWith_eq_spec num a hwf q from_ to asc limit withTotal

theorem c02_reachable_active_search_eq_specWith (num : Bytes → Option Int) (h : List (List SV.Collector.Meta))
    (hd : SV.Collector.DistinctBulks h) (hs : SV.Collector.NonEmptyDocs h) (hg : ActiveReach.GoodIDs h) (q : Query)
    (from_ to : Nat) (asc : Bool) (limit : Nat) (withTotal : Bool) :
    ActiveIndex.searchWith num (ActiveReach.toActive (SV.Collector.run SV.Collector.Active.empty h)) q from_ to asc
        limit withTotal =
      Spec.searchWith num
        (ActiveIndex.arrivalDocs (ActiveReach.toActive (SV.Collector.run SV.Collector.Active.empty h)))
        q from_ to asc limit withTotal :=
  ActiveReach.reachable_searchWith_eq_spec num h hd hs hg q from_ to asc limit withTotal

/-- the fixed-reading definitions are the instances at `numVal`, on the Spec side and on the model side -/
theorem c02_with_numVal :
    (∀ l v, Leaf.valMatchWith numVal l v = Leaf.valMatch l v) ∧
    (∀ q d, docMatchesWith numVal q d = docMatches q d) ∧
    (∀ docs q f t asc lim wt, Spec.searchWith numVal docs q f t asc lim wt = Spec.search docs q f t asc lim wt) ∧
    (∀ idx q f t asc lim wt, EvalTree.searchWith numVal idx q f t asc lim wt = EvalTree.search idx q f t asc lim wt) ∧
    (∀ a q f t asc lim wt, ActiveIndex.searchWith numVal a q f t asc lim wt = ActiveIndex.search a q f t asc lim wt) :=
  ⟨valMatchWith_numVal, docMatchesWith_numVal, Spec.searchWith_numVal, EvalTree.searchWith_numVal,
   ActiveIndex.searchWith_numVal⟩

/-- a reading under which `1.5` is a number (key 3, with 1 -> 2 and 2 -> 4): `[1 TO 2]` accepts the token `1.5`,
which the decimal-integer reading rejects - the parameter matters -/
example :
    let num : Bytes → Option Int := fun b => if b = [49] then some 2 else if b = [49, 46, 53] then some 3 else
      if b = [50] then some 4 else none
    Leaf.valMatchWith num (.range [110] (some [49]) true (some [50]) true) [49, 46, 53] = true ∧
      Leaf.valMatch (.range [110] (some [49]) true (some [50]) true) [49, 46, 53] = false := by decide

/-! ## sealed posting lists (LID blocks) -/

/-- **The sealed fraction's LID-block iterators deliver C02's posting-list view for every block layout.**
`SV.C03.genBlocks cap` is C03's model of the sealer's LID block generator (`MinTID = lastMaxTID + 1` also for continued
blocks, `IsContinued`, chunks of at most `cap` LIDs), `iterDesc` / `iterAsc` its models of `lids.IteratorDesc` /
`IteratorAsc` (`GetFirst/LastBlockIndexForTID`, `HasTIDInNextBlock` / `HasTIDInPrevBlock`, `narrowLIDsRange`).  For every
capacity and every token - spanning any number of blocks, blocks lying wholly inside the token included - they yield
`EvalTree.narrow`: the token's posting list cut to the borders, in iteration order.  (Imported read-only from
Proofs/C03Posting.lean; the whole-fraction form is `SV.C03.sealedNode_eq_narrow` in Proofs/C03C02.lean.) -/
theorem c02_sealed_posting_is_narrow (cap : Nat) (f : Nat → Nat) (fields : List (List (List Nat))) (tid minL maxL : Nat)
    (h : SV.C03.PostingInput cap f fields tid) :
    SV.C03.iterDesc (SV.C03.genBlocks cap f fields) (SV.C03.tableOf (SV.C03.genBlocks cap f fields)) tid minL maxL =
        .ok (narrow false minL maxL (((fields.flatten[tid - 1]?).getD []).map f)) ∧
    SV.C03.iterAsc (SV.C03.genBlocks cap f fields) (SV.C03.tableOf (SV.C03.genBlocks cap f fields)) tid minL maxL =
        .ok (narrow true minL maxL (((fields.flatten[tid - 1]?).getD []).map f)) := by
  rw [SV.C03.lidsBlocks_iterDesc_eq_filter cap f fields tid minL maxL h,
    SV.C03.lidsBlocks_iterAsc_eq_filter cap f fields tid minL maxL h]
  exact ⟨rfl, rfl⟩

/-! ## support code under the multi-fraction search: time pre-filter and result merge -/

/-- **`util.Bitmask.HasBitsIn` answers "is a bit set in [left, right]"** for every byte layout - border bytes masked,
every byte in between inspected (C14's byte-level model `SV.Bitmask.hasBitsIn`, theorem `hasBitsIn_iff`, imported
read-only).  `seq.MIDsDistribution.IsIntersecting` - the per-minute "does this sealed fraction hold documents in
[from, to]" pre-filter of `List.FilterInRange` - is this test on the minute buckets; that pruning by it never changes a
search is C14's `c14_pruned_eq_unpruned`. -/
theorem c02_hasBitsIn_exists (bin : List Nat) (hb : SV.Bitmask.WF bin) (l r : Nat) (hlr : l ≤ r) :
    SV.Bitmask.hasBitsIn bin l r = true ↔ ∃ i, l ≤ i ∧ i ≤ r ∧ SV.Bitmask.bit bin i = true :=
  SV.Bitmask.hasBitsIn_iff hb l r hlr

/-- the merged result of several fractions must come in the total order on (mid, rid) - reversed *as a whole* for
the default newest-first order: for equal mids the larger rid comes first when descending, and a cut to `limit`
inside a group of equal timestamps keeps the members that are first in that order -/
theorem c02_spec_tie_order (docs : List Doc) (q : Query) (from_ to : Nat) (limit : Nat) (wt : Bool) :
    (Spec.search docs q from_ to false limit wt).ids.Pairwise
        (fun a b => b.mid < a.mid ∨ (b.mid = a.mid ∧ b.rid < a.rid)) ∧
    (Spec.search docs q from_ to true limit wt).ids.Pairwise
        (fun a b => a.mid < b.mid ∨ (a.mid = b.mid ∧ a.rid < b.rid)) := by
  constructor
  · refine (Spec.search_ids_strict docs q from_ to false limit wt).imp ?_
    rintro a b ⟨hle, hne⟩
    simp only [orderLe, Bool.false_eq_true, if_false, ID.le] at hle
    rcases a with ⟨ma, ra⟩; rcases b with ⟨mb, rb⟩
    by_cases hm : mb = ma
    · subst hm
      have hr : rb ≠ ra := fun h => hne (by rw [h])
      simp at hle
      exact Or.inr ⟨rfl, by show rb < ra; omega⟩
    · simp [hm] at hle
      exact Or.inl hle
  · refine (Spec.search_ids_strict docs q from_ to true limit wt).imp ?_
    rintro a b ⟨hle, hne⟩
    simp only [orderLe, if_true, ID.le] at hle
    rcases a with ⟨ma, ra⟩; rcases b with ⟨mb, rb⟩
    by_cases hm : ma = mb
    · subst hm
      have hr : ra ≠ rb := fun h => hne (by rw [h])
      simp at hle
      exact Or.inr ⟨rfl, by show ra < rb; omega⟩
    · simp [hm] at hle
      exact Or.inl hle

/-! ## paging: why the stores must receive the offset -/

/-- **A page `[offset, offset + size)` of the merged result needs `offset + size` ids from every store.**  Cutting each
partial result to `M ≥ offset + size` before merging leaves the page unchanged (`take_orMerge_take`, both directions);
the store searches with `limit = Size + Offset`, so the proxy must forward both (`c02_x_api_request`). -/
theorem c02_page_from_cut_results (rev : Bool) (size offset M : Nat) (hM : offset + size ≤ M) (xs ys : List Nat) :
    ((orMerge rev (xs.take M) ys).take (offset + size)).drop offset =
      ((orMerge rev xs ys).take (offset + size)).drop offset := by
  rw [take_orMerge_take rev (offset + size) M hM xs ys]

/-- with only `size` ids per store the page is wrong: stores `[1,2,3]` and `[]`, size 1, offset 1 - the page is `[2]`,
the merge of the cut results gives `[]` -/
theorem c02_page_needs_offset :
    ((orMerge false [1, 2, 3] []).take (1 + 1)).drop 1 = [2] ∧
    ((orMerge false (([1, 2, 3] : List Nat).take 1) []).take (1 + 1)).drop 1 = [] := by
  constructor <;> decide +kernel

/-! ## the inverser's pooled table -/

/-- **The pooled `inversion` table is the mapping's position function because `getSlice` clears it**: for *any*
previous content of the pool buffer, `Inverse` over the table `newInverser` builds equals `ActiveIndex.inverse` (the
position of the LID in the `_all_` snapshot, "absent" for a LID the snapshot lacks - e.g. one a token list already has
because an index worker published it after the snapshot was taken). -/
theorem c02_inverse_table_cleared (pool : List Nat) (m : List Nat) (size k : Nat) (hnd : m.Nodup)
    (hlt : ∀ v ∈ m, v < size) :
    ActiveIndex.inverseArr (ActiveIndex.newInversion pool true m size) k = ActiveIndex.inverse m size k :=
  ActiveIndex.inverseArr_cleared pool m size k hnd hlt

/-- without the clear a LID absent from the snapshot gets the stale position a previous search left in the buffer -/
theorem c02_inverse_table_dirty_witness :
    ActiveIndex.inverseArr (ActiveIndex.newInversion [9, 9, 9, 9] false [2, 1] 4) 3 = some 9 ∧
      ActiveIndex.inverse [2, 1] 4 3 = none :=
  ActiveIndex.inverseArr_dirty_witness

/-! ## what `Spec.search` promises (so that the equalities above say what the property says) -/

/-- the result is strictly ordered in the requested direction (hence free of repetitions) and not longer than
`limit` -/
theorem c02_spec_ordered (docs : List Doc) (q : Query) (from_ to : Nat) (asc : Bool) (limit : Nat) (wt : Bool) :
    (Spec.search docs q from_ to asc limit wt).ids.Pairwise
        (fun a b => orderLe asc a b = true ∧ a ≠ b) ∧
      (Spec.search docs q from_ to asc limit wt).ids.length ≤ limit :=
  ⟨Spec.search_ids_strict docs q from_ to asc limit wt, by simp [Spec.search, List.length_take]; omega⟩

/-- every returned ID belongs to a stored document that matches inside the window; with a limit that is not
reached nothing is missing; the total counts the matching documents -/
theorem c02_spec_exact (docs : List Doc) (q : Query) (from_ to : Nat) (asc : Bool) (limit : Nat) (wt : Bool) :
    (∀ id ∈ (Spec.search docs q from_ to asc limit wt).ids,
        ∃ d ∈ docs, d.id = id ∧ inWindow from_ to d = true ∧ docMatches q d = true) ∧
    ((hits docs q from_ to).length ≤ limit →
        ∀ d ∈ docs, inWindow from_ to d = true → docMatches q d = true →
          d.id ∈ (Spec.search docs q from_ to asc limit wt).ids) ∧
    (Spec.search docs q from_ to asc limit true).total =
        (docs.filter fun d => inWindow from_ to d && docMatches q d).length :=
  ⟨Spec.search_ids_sound docs q from_ to asc limit wt,
   Spec.search_ids_complete docs q from_ to asc limit wt, rfl⟩

/-! ## Obligations on facts re-extracted from /repo on every run -/

open SV.Extracted.C02

/-- `buildEvalTree` maps AND/OR/NAND/NOT to the node constructors with the child order the model uses
(NAND: negative = children[0], regular = children[1]; NOT over the borders), and both leaf kinds to `newLeaf` -/
theorem c02_x_dispatch :
    evalDispatch = ["parser.LogicalAnd => node.NewAnd(children[0], children[1], reverse)",
      "parser.LogicalOr => node.NewOr(children[0], children[1], reverse)",
      "parser.LogicalNAnd => node.NewNAnd(children[0], children[1], reverse)",
      "parser.LogicalNot => node.NewNot(children[0], minVal, maxVal, reverse)"] ∧
    evalLeafCases = ["*parser.Literal => newLeaf(token)", "*parser.Range => newLeaf(token)"] ∧
    evalRecursion = ["buildEvalTree(child, minVal, maxVal, stats, reverse, newLeaf)"] ∧
    evalLeafReturn = ["node.BuildORTree(lidsTids, order.IsReverse())"] := by decide

/-- `NewNot = NewNAnd(child, NewRange(min, max))`; `BuildORTree` folds `NewOr` over halves split at `len/2`;
ascending compares `u1 < u2`, descending `u2 < u1`, chosen by `reverse` -/
theorem c02_x_nodes :
    newNotCalls = ["NewRange(minVal, maxVal, reverse)", "NewNAnd(child, nodeRange, reverse)"] ∧
    orTree = ["NewOr(l, r, reverse)", "mid := len(values) / 2", "treeFold(op, values[:mid])", "treeFold(op, values[mid:])"] ∧
    lessFns = ["lessAsc: u1 < u2", "lessDesc: u2 < u1", "if reverse => lessDesc"] := by decide

/-- `getLIDsBorders` is the statement sequence `Borders.getLIDsBorders` models -/
theorem c02_x_borders :
    bordersFacts = ["if idsIndex.Len() == 0", "return 0, 0", "minID := seq.ID{MID: minMID, RID: 0}",
      "maxID := seq.ID{MID: maxMID, RID: math.MaxUint64}", "from := 1", "to := idsIndex.Len() - 1", "if minMID > 0",
      "minID.MID--", "minID.RID = math.MaxUint64",
      "minLID := util.BinSearchInRange(from, to, func(lid int) bool { return idsIndex.LessOrEqual(seq.LID(lid), maxID) })",
      "return idsIndex.LessOrEqual(seq.LID(lid), maxID)",
      "maxLID := util.BinSearchInRange(minLID, to, func(lid int) bool { return idsIndex.LessOrEqual(seq.LID(lid), minID) }) - 1",
      "return idsIndex.LessOrEqual(seq.LID(lid), minID)", "return uint32(minLID), uint32(maxLID)"] := rfl

/-- `iterateEvalTree` decides ids / total / exit as `EvalTree.iterate` does; `IndexSearch` chains
borders -> tree -> loop and zeroes the total unless requested -/
theorem c02_x_iterate :
    iterateFacts = ["needScanAllRange := params.IsScanAllRequest()", "total := 0", "ids := seq.IDSources{}",
      "needMore := len(ids) < params.Limit", "if !needMore && !needScanAllRange", "break", "if !has", "break",
      "if needMore || hasHist", "if needMore", "id := seq.ID{MID: mid, RID: rid}", "if total == 0 || lastID != id",
      "ids = append(ids, seq.IDSource{ID: id})", "lastID = id", "total++"] ∧
    scanAllExpr = "p.WithTotal || p.HasAgg() || p.HasHist()" ∧
    indexSearchFacts = ["getLIDsBorders(params.From, params.To, index)",
      "buildEvalTree(params.AST, minLID, maxLID, stats, params.Order.IsReverse(), func(token parser.Token) (node.Node, error) { return evalLeaf(index, token, sw, stats, minLID, maxLID, params.Order) }, )",
      "evalLeaf(index, token, sw, stats, minLID, maxLID, params.Order)",
      "iterateEvalTree(ctx, params, index, evalTree, aggs, sw)", "if !params.WithTotal { total = 0 }", "IDs: ids",
      "Total: uint64(total)"] := ⟨rfl, rfl, rfl⟩

/-- the active data provider clamps the window to the fraction's range, filters translated LIDs by the borders
and reads IDs through `Revert` -/
theorem c02_x_active :
    activeFacts = ["params.From = max(params.From, dp.info.From)", "params.To = min(params.To, dp.info.To)",
      "if minLID <= uint32(val) && uint32(val) <= maxLID", "GetMID: restoredLID := p.inverser.Revert(uint32(lid))",
      "GetRID: restoredLID := p.inverser.Revert(uint32(lid))"] := by decide

/-- `getSlice` takes the table from the bytes pool **and clears it**; `newInverser` sets `inversion[v] = i + 1` over
`values`; `Inverse` answers "absent" outside the table and for 0 - the shape `newInversion _ true` / `inverseArr` model -/
theorem c02_x_inverser :
    inverserFacts = ["getSlice: bytespool.AcquireLen", "getSlice: clear", "newInverser: buf, inversion := getSlice(size)",
      "newInverser: range values", "newInverser: inversion[v] = i + 1", "Inverse: if int(k) >= len(is.inversion)",
      "Inverse: return 0, false", "Inverse: return v, v > 0"] := by decide

/-- `seq.MergeQPRs` sorts the merged ids with `sort.Sort` over `IDSources` (ascending) or `sort.Reverse` of the same
order (regular = newest first), and `IDSources.Less` is `seq.Less`, the lexicographic order on (MID, RID) that
`Spec.ID.lt` models: the descending order is the whole order reversed (see `c02_spec_tie_order`) -/
theorem c02_x_merge_order :
    mergeOrderFacts = ["IDSources.Less: Less(p[i].ID, p[j].ID)", "reverse: sort.Sort(dst.IDs)",
      "regular: sort.Sort(sort.Reverse(dst.IDs))", "seq.Less: if a.MID == b.MID", "seq.Less: return a.RID < b.RID",
      "seq.Less: return a.MID < b.MID"] := by decide

/-- the proxy's store request carries `Size` and `Offset` (and window, total flag, order) unchanged, and a store
searches with `limit = Size + Offset` -/
theorem c02_x_api_request :
    apiRequestFields = ["From: int64(sr.From)", "To: int64(sr.To)", "Size: int64(sr.Size)", "Offset: int64(sr.Offset)",
      "WithTotal: sr.WithTotal", "Order: storeapi.MustProtoOrder(sr.Order)"] ∧
    storeLimitExpr = ["limit := int(req.Size + req.Offset)"] := by decide

/-! ## Non-vacuity -/

/-- three documents, two with the same mid; tokens a:x on LIDs 1,3 and a:y on LID 2 -/
def exIdx : Index :=
  { ids := [⟨7, 2⟩, ⟨7, 1⟩, ⟨5, 9⟩],
    toks := [⟨[97], [120], [1, 3]⟩, ⟨[97], [121], [2]⟩] }

example : WF exIdx := by
  constructor
  · intro t ht
    simp [exIdx] at ht
    rcases ht with rfl | rfl <;> simp [lessFn]
  · intro t ht v hv
    simp [exIdx] at ht
    rcases ht with rfl | rfl <;> simp at hv <;> simp [exIdx] <;> omega

example : SortedDesc exIdx.ids := by simp [exIdx, ID.le]

/-- `NOT a:x` inside [5,7], oldest first, limit 1 with total: the model and the Spec both answer ([7:1], 1) -/
example : EvalTree.search exIdx (.not (.leaf (.lit [97] [.text [120]]))) 5 7 true 1 true = ⟨[⟨7, 1⟩], 1⟩ := by decide +kernel
example : Spec.search (docsOf exIdx) (.not (.leaf (.lit [97] [.text [120]]))) 5 7 true 1 true = ⟨[⟨7, 1⟩], 1⟩ := by decide

/-- an active fraction: three documents arrived out of order (mids 5, 7, 7), token a:x on arrival LIDs 3 and 1 -/
def exActive : ActiveIndex.Active :=
  { ids := [⟨18446744073709551615, 18446744073709551615⟩, ⟨5, 9⟩, ⟨7, 1⟩, ⟨7, 2⟩],
    toks := [⟨[97], [120], [3, 1]⟩, ⟨[97], [121], [2]⟩] }

example : ActiveIndex.AWF exActive := by
  constructor
  · simp [exActive]
  · intro t ht v hv
    simp [exActive] at ht
    rcases ht with rfl | rfl <;> simp at hv <;> simp [exActive] <;> omega
  · intro v h1 h2
    simp [exActive] at h2
    have : v = 1 ∨ v = 2 ∨ v = 3 := by omega
    rcases this with rfl | rfl | rfl <;> simp [exActive, ActiveIndex.idOf, maxU64]

/-- the hypotheses of `c02_mergeSorted_union` are met by [3,2] and [1] over the ids of `exActive` -/
example : ActiveIndex.KeySorted exActive.ids [3, 2] ∧ ActiveIndex.KeySorted exActive.ids [1] ∧
    ActiveIndex.mergeSorted exActive.ids [3, 2] [1] = [3, 2, 1] := by decide +kernel

example : ActiveIndex.search exActive (.leaf (.lit [97] [.star])) 6 9 false 5 true = ⟨[⟨7, 2⟩, ⟨7, 1⟩], 2⟩ := by
  decide +kernel

/-- a history that meets the hypotheses of `c02_reachable_active_awf`: two bulks, the second re-delivers a document -/
def exHistory : List (List SV.Collector.Meta) :=
  [[⟨(7, 1), 10, [⟨[95, 97, 108, 108, 95], []⟩, ⟨[97], [120]⟩], 1⟩, ⟨(5, 9), 8, [⟨[95, 97, 108, 108, 95], []⟩], 2⟩],
   [⟨(7, 1), 10, [⟨[95, 97, 108, 108, 95], []⟩, ⟨[97], [120]⟩], 1⟩, ⟨(7, 2), 9, [⟨[95, 97, 108, 108, 95], []⟩, ⟨[97], [120]⟩], 3⟩]]

example : SV.Collector.DistinctBulks exHistory ∧ SV.Collector.NonEmptyDocs exHistory ∧ ActiveReach.GoodIDs exHistory := by
  refine ⟨?_, ?_, ?_⟩
  · intro b hb; simp [exHistory] at hb; rcases hb with rfl | rfl <;> decide
  · intro b hb m hm; simp [exHistory] at hb; rcases hb with rfl | rfl <;> simp at hm <;> rcases hm with rfl | rfl <;> decide
  · intro b hb m hm; simp [exHistory] at hb
    rcases hb with rfl | rfl <;> simp at hm <;> rcases hm with rfl | rfl <;> simp [maxU64]

end SV.Props.C02
