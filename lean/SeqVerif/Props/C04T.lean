import SeqVerif.Model.FetchIndex
import SeqVerif.Model.Chunking
import SeqVerif.Model.FetchRange
import SeqVerif.Extracted.C04T
/-!
# C04 - hand models = mechanical translations of the Go source (regenerated on every run)

`SV.Extracted.C04.T` is produced by `extract/cmd/c04t` (translator `extract/xlate`, prelude `Base/GoInt.lean`)
from `seq/doc_pos.go` and `storeapi/docs_stream.go`.  Each theorem states that a hand-written model function of
C04 equals the translated Go function on the stated domain (the value ranges of the Go types).
-/
namespace SV.Props.C04
open SV.Fetch SV.Chunking SV.Go
open SV.Extracted.C04

/-- `seq.PackDocPos` at `docOffsetBits = 30`, for every offset the function accepts and every uint32 block -/
theorem c04_t_PackDocPos (b off : Nat) (hb : b < 4294967296) (ho : off ≤ 1073741823) :
    T.PackDocPos b off = some (packDocPos 30 b off : Int) := by
  unfold T.PackDocPos packDocPos
  have h' : ¬ (off : Int) > 1073741823 := by omega
  have hw : wrapU64 ((b : Int) * 1073741824) = (b : Int) * 2 ^ 30 := by unfold wrapU64; omega
  have hor : bor ((b : Int) * 2 ^ 30) (off : Int) = (b : Int) * 2 ^ 30 + off :=
    bor_shl 30 (by omega) (by omega) (by omega)
  simp only [h', if_false, hw, hor, Option.some.injEq]
  unfold wrapU64; omega

/-- an offset beyond `maxDocOffset` panics -/
theorem c04_t_PackDocPos_panic (b off : Nat) (ho : off > 1073741823) : T.PackDocPos b off = none := by
  unfold T.PackDocPos
  have h' : (off : Int) > 1073741823 := by omega
  simp [h']

/-- `DocPos.Unpack` at `docOffsetBits = 30`, for every position (including 0: `pos--` wraps) -/
theorem c04_t_DocPos_Unpack (pos : Nat) :
    T.DocPos_Unpack pos = (Int.ofNat (unpackDocPos 30 pos).1, Int.ofNat (unpackDocPos 30 pos).2) := by
  unfold T.DocPos_Unpack unpackDocPos
  have hw : wrapU64 ((pos : Int) - 1) = (((pos + 18446744073709551615) % 18446744073709551616 : Nat) : Int) := by
    unfold wrapU64; omega
  have hm : band ((((pos + 18446744073709551615) % 18446744073709551616 : Nat) : Int)) 1073741823
      = (((pos + 18446744073709551615) % 18446744073709551616 : Nat) : Int) % 1073741824 := band_mask 30 (by omega)
  simp only [hw, hm, Prod.mk.injEq, Int.ofNat_eq_natCast]
  constructor
  · unfold wrapU32; omega
  · omega

/-- the summing loop of `calcChunkSize`: it ends in the code after the loop with `batchSize` = the sum -/
theorem c04_t_calcChunkSize_loop (docs : List (List Int)) (prev mf : Int) (tl : List (List Int)) (acc : Nat)
    (h : acc + (tl.map List.length).sum < 9223372036854775808) :
    T.docsStream_calcChunkSize_loop0 docs prev mf tl acc
      = T.docsStream_calcChunkSize_loop0 docs prev mf [] ((acc + (tl.map List.length).sum : Nat) : Int) := by
  induction tl generalizing acc with
  | nil => simp
  | cons d tl ih =>
    simp only [List.map_cons, List.sum_cons] at h
    have hw : wrapI64 ((acc : Int) + len d) = ((acc + d.length : Nat) : Int) := by unfold wrapI64 len; omega
    conv => lhs; rw [T.docsStream_calcChunkSize_loop0, hw, ih (acc + d.length) (by omega)]
    simp only [List.map_cons, List.sum_cons, Nat.add_assoc]

/-- `docsStream.calcChunkSize` (the repaired sizing `calcFixed`), for every batch whose total size, previous chunk
size and `conf.MaxFetchSizeBytes` fit an `int`; the function never panics there -/
theorem c04_t_calcChunkSize (docs : List (List Int)) (prev maxFetch : Nat)
    (hs : (docs.map List.length).sum < 9223372036854775808) (hm : maxFetch < 9223372036854775808) :
    T.docsStream_calcChunkSize docs prev maxFetch
      = some (calcFixed maxFetch (docs.map List.length) prev : Int) := by
  unfold T.docsStream_calcChunkSize
  have := c04_t_calcChunkSize_loop docs prev maxFetch docs 0 (by omega)
  simp only [Int.natCast_zero, Nat.zero_add] at this
  simp only [this]
  unfold T.docsStream_calcChunkSize_loop0 calcFixed
  generalize hS : (docs.map List.length).sum = S at *
  by_cases h0 : S = 0
  · subst h0; simp
  · have h0' : ¬ ((S : Int) = 0) := by omega
    have hlen : len docs = ((docs.map List.length).length : Int) := by simp [len]
    have hpos : 0 < (docs.map List.length).length := by
      rcases Nat.eq_zero_or_pos (docs.map List.length).length with e | e
      · have : docs.map List.length = [] := List.eq_nil_of_length_eq_zero e
        rw [this] at hS; simp at hS; omega
      · exact e
    generalize (docs.map List.length).length = n at *
    have g1 : ¬ ¬ ((n : Int) ≠ 0) := by omega
    have d1 : Int.tdiv (S : Int) (n : Int) = ((S / n : Nat) : Int) := tdiv_natCast S n
    have hq : S / n ≤ S := Nat.div_le_self _ _
    have w1 : wrapI64 ((S / n : Nat) : Int) = ((S / n : Nat) : Int) := wrapI64_natCast (by omega)
    have m1 : max (1 : Int) ((S / n : Nat) : Int) = ((max 1 (S / n) : Nat) : Int) := max_one_cast _
    have g2 : ¬ ¬ (((max 1 (S / n) : Nat) : Int) ≠ 0) := by omega
    have d2 : Int.tdiv (maxFetch : Int) ((max 1 (S / n) : Nat) : Int) = ((maxFetch / max 1 (S / n) : Nat) : Int) :=
      tdiv_natCast _ _
    have hq2 : maxFetch / max 1 (S / n) ≤ maxFetch := Nat.div_le_self _ _
    have w2 : wrapI64 ((maxFetch / max 1 (S / n) : Nat) : Int) = ((maxFetch / max 1 (S / n) : Nat) : Int) :=
      wrapI64_natCast (by omega)
    simp only [if_neg h0, if_neg h0', hlen, if_neg g1, d1, w1, m1, if_neg g2, d2, w2, Option.some.injEq]
    exact max_one_cast _

/-- non-vacuity: the historical witnesses of the old sizing are inside the domain and size to at least one -/
example : T.docsStream_calcChunkSize [[1, 2], [], []] 1000 4194304 = some 4194304 := by rfl

/-- `docsStream.batchLoader`: the chunk is the first `min(len(ids), chunkSize)` ids and the rest follows it -
`FetchStream.batchLoader`'s `ids.take size` / `ids.drop size` (a non-negative chunk size: `c04_t_calcChunkSize` is ≥ 1) -/
theorem c04_t_batch_cut {I : Type} (ids : List I) (size : Nat) :
    T.cutChunk ids size = some (ids.take size) ∧ T.restIDs ids size = some (ids.drop size) := by
  unfold T.cutChunk T.restIDs len
  have hm : min (ids.length : Int) (size : Int) = ((min ids.length size : Nat) : Int) := by omega
  simp only [hm]
  have g1 : ¬ ¬ ((0 : Int) ≤ 0 ∧ (0 : Int) ≤ ((min ids.length size : Nat) : Int) ∧ ((min ids.length size : Nat) : Int) ≤ (ids.length : Int)) := by omega
  have g2 : ¬ ¬ ((0 : Int) ≤ ((min ids.length size : Nat) : Int) ∧ ((min ids.length size : Nat) : Int) ≤ (ids.length : Int)
      ∧ (ids.length : Int) ≤ (ids.length : Int)) := by omega
  constructor
  · rw [if_neg g1, slice_to]
    congr 1
    rw [Nat.min_comm, ← List.take_take]; simp
  · rw [if_neg g2]
    have : slice ids ((min ids.length size : Nat) : Int) (ids.length : Int) = ids.drop (min ids.length size) := slice_from ids _
    rw [this]
    congr 1
    by_cases h : size ≤ ids.length
    · rw [Nat.min_eq_right h]
    · rw [Nat.min_eq_left (by omega), List.drop_of_length_le (by omega), List.drop_of_length_le (by omega)]

/-- `metaDataCollector.Filter`'s recomputed MID range: `Fetch.filterStats` is the fold of the two translated per-ID
updates (`if id.MID < c.MinMID {..}`, `if id.MID > c.MaxMID {..}`) over the kept IDs, from the translated start values
(`c.MinMID = math.MaxUint64`, `c.MaxMID = 0`, whatever the collector held before) -/
theorem c04_t_filterStats (ids appended : List SV.Fetch.ID) (oldMin oldMax : Int) :
    (((filterStats ids appended).1 : Nat) : Int) = ((keptIDs ids appended).foldl (fun s i => T.filterMinStep (i.mid : Int) s) (T.filterMinInit oldMin))
    ∧ (((filterStats ids appended).2 : Nat) : Int) = ((keptIDs ids appended).foldl (fun s i => T.filterMaxStep (i.mid : Int) s) (T.filterMaxInit oldMax)) := by
  unfold filterStats T.filterMinInit T.filterMaxInit
  generalize keptIDs ids appended = l
  have key : ∀ (l : List SV.Fetch.ID) (a b : Nat),
      (((l.foldl (fun s i => (if i.mid < s.1 then i.mid else s.1, if i.mid > s.2 then i.mid else s.2)) (a, b)).1 : Nat) : Int)
        = l.foldl (fun s i => T.filterMinStep (i.mid : Int) s) (a : Int)
      ∧ (((l.foldl (fun s i => (if i.mid < s.1 then i.mid else s.1, if i.mid > s.2 then i.mid else s.2)) (a, b)).2 : Nat) : Int)
        = l.foldl (fun s i => T.filterMaxStep (i.mid : Int) s) (b : Int) := by
    intro l
    induction l with
    | nil => intro a b; exact ⟨rfl, rfl⟩
    | cons x t ih =>
      intro a b
      simp only [List.foldl_cons]
      have e1 : T.filterMinStep (x.mid : Int) (a : Int) = ((if x.mid < a then x.mid else a : Nat) : Int) := by
        unfold T.filterMinStep; simp only []; split <;> split <;> omega
      have e2 : T.filterMaxStep (x.mid : Int) (b : Int) = ((if x.mid > b then x.mid else b : Nat) : Int) := by
        unfold T.filterMaxStep; simp only []; split <;> split <;> omega
      rw [e1, e2]
      exact ih _ _
  exact key l 18446744073709551615 0

end SV.Props.C04
