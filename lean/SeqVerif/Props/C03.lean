import SeqVerif.Model.C03Codec
import SeqVerif.Model.C03Lids
import SeqVerif.Proofs.C03Posting
import SeqVerif.Proofs.C03FracProofs
import SeqVerif.Proofs.C03Select
import SeqVerif.Proofs.C03SearchProofs
import SeqVerif.Proofs.C03C02
import SeqVerif.Proofs.C03FetchProofs
import SeqVerif.Proofs.C03GroupProofs
import SeqVerif.Proofs.C03TokenTableProofs
import SeqVerif.Model.C03DocsCache
import SeqVerif.Proofs.C03LoaderProofs
import SeqVerif.Extracted.C03
/-!
# C03 - answers do not depend on the fraction form (active = sealed = reloaded = any cache)

Only property theorems, extracted-fact obligations and non-vacuity examples live in this file.
-/
namespace SV.Props.C03
open SV SV.C03

/-! ## codecs of the index file -/

/-- `binary.Varint (binary.PutVarint x) = x` for every int64, with any trailing bytes -/
theorem c03_varint_roundtrip (x : Int) (rest : List Nat) (h1 : -9223372036854775808 ≤ x) (h2 : x < 9223372036854775808) :
    getVarint (putVarint x ++ rest) = some (x, rest) := varint_roundtrip x rest h1 h2

/-- `Chunks.unpack (Chunks.Pack c) = c` at byte level for every chunk list the generator can emit -/
theorem c03_chunks_roundtrip (cs : List (List Nat)) (isLast : Bool) (hne : cs ≠ [])
    (hs : ∀ c, c ∈ cs → SV.Chunks.Small c) (hlast : isLast = false → cs.getLast hne ≠ []) :
    unpackBytes (packBytes cs isLast) = some (cs, isLast) := chunks_roundtrip cs isLast hne hs hlast

example : SV.Chunks.unpack (SV.Chunks.pack [[3, 7], [], [9]] false 0) = ([[3, 7], [], [9]], false) := by decide

/-- MIDs / positions / doc-block offsets: `unpackRawIDsVarint (pack..) = ids` for arbitrary (also non-monotone) uint64 sequences -/
theorem c03_deltas_roundtrip (vs : List Nat) (h : ∀ v, v ∈ vs → v < W64) : unpackDeltas (packDeltas vs) = some vs :=
  deltas_roundtrip vs h

/-- `PackDocPos` / `Unpack` round trip and the packed value is never `DocPosNotFound` -/
theorem c03_docpos_roundtrip (b off : Nat) (hb : b < 4294967296) (ho : off ≤ 1073741823) :
    (packDocPos b off).map unpackDocPos = some (b, off) ∧
    ∀ p, packDocPos b off = some p → p ≠ 18446744073709551615 ∧ p ≠ 0 :=
  ⟨docpos_roundtrip b off hb ho, fun p h => docpos_found b off p hb h⟩

/-- the LID block registry extents decode to the block's (MinTID, MaxTID, IsContinued) -/
theorem c03_registry_ext_roundtrip (minTID maxTID : Nat) (c : Bool) (h1 : minTID < 4294967296) (h2 : maxTID < 4294967296) :
    lidExtLoad (lidExt minTID maxTID c) = (minTID, maxTID, c) := registry_ext_roundtrip minTID maxTID c h1 h2

/-! ## LID (posting) blocks: generator with any block capacity + lids.Table + iterators -/

/-- **the block list emitted by `getLIDsBlockGenerator` is consistent with `lids.Table`** for every capacity >= 1:
every block has `GetChunksCount` chunks, none empty, neighbours are linked - so the iterators' panics
("unexpected LIDs count", chunk index out of range, empty chunk) are unreachable -/
theorem c03_lidsBlocks_wf (cap : Nat) (f : Nat → Nat) (fields : List (List (List Nat))) (hcap : 1 ≤ cap)
    (hne : ∀ fl, fl ∈ fields → ∀ p, p ∈ fl → p ≠ []) : WF (genBlocks cap f fields) :=
  (genBlocks_spec cap f hcap fields hne).1

/-- **IteratorDesc (normal order) over sealed blocks = the token's re-assigned posting list cut to the LID window**,
for every token->LIDs map, every capacity >= 1, every tid and every window (also an empty one) -/
theorem c03_lidsBlocks_iterDesc_eq_filter (cap : Nat) (f : Nat → Nat) (fields : List (List (List Nat))) (tid minL maxL : Nat)
    (h : PostingInput cap f fields tid) :
    iterDesc (genBlocks cap f fields) (tableOf (genBlocks cap f fields)) tid minL maxL =
      .ok ((((fields.flatten[tid - 1]?).getD []).map f).filter (inWin minL maxL)) :=
  lidsBlocks_iterDesc_eq_filter cap f fields tid minL maxL h

/-- **IteratorAsc (reverse order)**: the same list, descending -/
theorem c03_lidsBlocks_iterAsc_eq_filter (cap : Nat) (f : Nat → Nat) (fields : List (List (List Nat))) (tid minL maxL : Nat)
    (h : PostingInput cap f fields tid) :
    iterAsc (genBlocks cap f fields) (tableOf (genBlocks cap f fields)) tid minL maxL =
      .ok ((((fields.flatten[tid - 1]?).getD []).map f).filter (inWin minL maxL)).reverse :=
  lidsBlocks_iterAsc_eq_filter cap f fields tid minL maxL h

/-- the table rebuilt by the loader from the registry extents equals the table kept from sealing (TIDs < 2^32) -/
theorem c03_lidsTable_loaded_eq_preloaded (bs : List Block)
    (h : ∀ b, b ∈ bs → b.minTID < 4294967296 ∧ b.maxTID < 4294967296) :
    (⟨bs.map (fun b => (lidExtLoad (lidExt b.minTID b.maxTID b.isContinued)).1),
      bs.map (fun b => (lidExtLoad (lidExt b.minTID b.maxTID b.isContinued)).2.1),
      bs.map (fun b => (lidExtLoad (lidExt b.minTID b.maxTID b.isContinued)).2.2)⟩ : Table) = tableOf bs := by
  unfold tableOf
  congr 1 <;> apply List.map_congr_left <;> intro b hb <;>
    rw [registry_ext_roundtrip b.minTID b.maxTID b.isContinued (h b hb).1 (h b hb).2]

/-- non-vacuity: 2 fields, capacity 3, token 1 spans two blocks, token 2 shares a block with its tail -/
example : PostingInput 3 id [[[1, 2, 3, 4], [5]], [[6, 7]]] 1 :=
  ⟨by decide, by decide, by decide, by decide, by decide⟩
example : iterDesc (genBlocks 3 id [[[1, 2, 3, 4], [5]], [[6, 7]]]) (tableOf (genBlocks 3 id [[[1, 2, 3, 4], [5]], [[6, 7]]])) 1 2 4
    = .ok [2, 3, 4] := by
  rw [c03_lidsBlocks_iterDesc_eq_filter 3 id _ 1 2 4 ⟨by decide, by decide, by decide, by decide, by decide⟩]
  rfl
example : (genBlocks 3 id [[[1, 2, 3, 4], [5]], [[6, 7]]]).length = 3 := by decide

/-! ## ID blocks -/

/-- **ID look-ups on the sealed blocks return the sealed ID sequence** (block size >= 1, writer block size = reader
divisor): `GetMID`, `GetRID` and the document position of every LID -/
theorem c03_idsBlocks_get (size : Nat) (ids : List ID) (posOf : ID → Nat) (h : IDsInput size ids)
    (hpos : ∀ x, x ∈ ids → posOf x < W64) (lid : Nat) (hl : lid < ids.length) :
    getMID size (writeIDs size ids posOf) lid = some ids[lid].1 ∧
    getRID size (writeIDs size ids posOf) lid = some ids[lid].2 ∧
    getPos size (writeIDs size ids posOf) lid = some (posOf ids[lid]) :=
  ⟨getMID_spec size ids posOf h lid hl, getRID_spec size ids posOf h lid hl, getPos_spec size ids posOf h hpos lid hl⟩

/-- **`sealedIDsIndex.LessOrEqual` (with both block-minimum short cuts and the RID = MaxUint64 short cut) equals the
direct comparison `ids[lid] <= id`** for every descending ID sequence, every block size, every LID and ID;
beyond `IDsTotal` it answers true -/
theorem c03_lessOrEqual_eq_direct (size : Nat) (ids : List ID) (posOf : ID → Nat) (h : IDsInput size ids) (hd : DescIDs ids)
    (lid : Nat) (id : ID) :
    lessOrEqual size (idsTableOf (writeIDs size ids posOf) ids.length) (writeIDs size ids posOf) lid id =
      some (if hl : lid < ids.length then idLE ids[lid] id else true) :=
  lessOrEqual_spec size ids posOf h hd lid id

example : IDsInput 2 [(9, 5), (9, 4), (7, 7), (3, 1)] ∧ DescIDs [(9, 5), (9, 4), (7, 7), (3, 1)] :=
  ⟨⟨by decide, by decide⟩, by decide⟩

/-! ## token blocks and token table -/

/-- **the token block generator is total** (current code: `blockSize = max(1, len(tids)/blocksCount)`) and its blocks
are the sorted dictionary cut into consecutive non-empty pieces with consecutive TIDs -/
theorem c03_tokenBlocks_total (rbs : Nat) (fields : List (List Tok)) :
    ∃ blocks, genTokenBlocks bsNew rbs fields = .ok blocks ∧ TChain 1 blocks ∧ allTokens blocks = fields.flatten :=
  genTokenBlocks_spec bsNew rbs bsNew_pos fields

/-- historical counterexample (code before fix fb6d41d, `blockSize = len(tids)/blocksCount`): two tokens of 3 bytes
with a 2-byte block size (in the real code: two 17,000 byte tokens, 16 KiB blocks) -> the push of an empty block
panics with index out of range [-1] -/
theorem c03_tokenBlocks_old_not_total :
    genTokenBlocks bsOld 2 [[[97, 97, 97], [98, 98, 98]]] = .error "index out of range [-1]" := by rfl

/-- the old rule was total exactly when it never produced 0 -/
theorem c03_tokenBlocks_old_partial (rbs : Nat) (fields : List (List Tok)) (h : ∀ n c, 1 ≤ bsOld n c) :
    ∃ blocks, genTokenBlocks bsOld rbs fields = .ok blocks ∧ TChain 1 blocks ∧ allTokens blocks = fields.flatten :=
  genTokenBlocks_spec bsOld rbs h fields

/-- **`GetValByTID` through the token table and the packed token blocks returns the tid-th token of the sorted
dictionary**, however the generator's blocks were packed into physical blocks -/
theorem c03_tokenTable_getVal (rbs base : Nat) (fields : List (List Tok)) (tid : Nat) (h1 : 1 ≤ tid) (h2 : tid ≤ fields.flatten.length) :
    ∃ blocks, genTokenBlocks bsNew rbs fields = .ok blocks ∧
      getValByTID base (writeTokens rbs base blocks) tid = fields.flatten[tid - 1]? := by
  obtain ⟨blocks, hb, hc, ha⟩ := genTokenBlocks_spec bsNew rbs bsNew_pos fields
  refine ⟨blocks, hb, ?_⟩
  rw [getValByTID_spec rbs base blocks hc tid h1 (by rw [ha]; exact h2), ha]

/-- **`GetValByTID` is a function of the TID only**: any sequence of calls on one sealed token index (ascending,
descending, jumping across physical token blocks and table entries) answers every call with the tid-th token of the
dictionary - no answer depends on the calls made before (a memo of the previous entry must not be observable) -/
theorem c03_getVal_sequence_stateless (rbs base : Nat) (fields : List (List Tok)) (tids : List Nat)
    (h : ∀ t, t ∈ tids → 1 ≤ t ∧ t ≤ fields.flatten.length) :
    ∃ blocks, genTokenBlocks bsNew rbs fields = .ok blocks ∧
      getValSeq base (writeTokens rbs base blocks) tids = tids.map fun t => fields.flatten[t - 1]? := by
  obtain ⟨blocks, hb, hc, ha⟩ := genTokenBlocks_spec bsNew rbs bsNew_pos fields
  refine ⟨blocks, hb, ?_⟩
  unfold getValSeq
  apply List.map_congr_left
  intro t ht
  rw [getValByTID_spec rbs base blocks hc t (h t ht).1 (by rw [ha]; exact (h t ht).2), ha]

/-- **the token table re-loaded from the index file equals the table kept from sealing** (sibling of
`c03_lidsTable_loaded_eq_preloaded`): `TableLoader.load` over the blocks `writeTokenTableBlocks` wrote - any number of
fields and entries, any block size, fields of one physical token block spread over several table blocks - returns for
every field the same MinVal and the same entries (StartIndex, StartTID, BlockIndex, ValCount, MaxVal as stored) -/
theorem c03_tokenTable_loaded_eq_preloaded (rbs : Nat) (fs : List FieldEntries) (h : ∀ f, f ∈ fs → FieldOK f) :
    loadTable (writeTable rbs fs []) = fs.map keptField :=
  tokenTable_loaded_eq_preloaded rbs fs h

example : FieldOK ⟨[102], [⟨0, 0, 1, 1, 2, some [97], [98]⟩, ⟨0, 2, 3, 1, 1, none, [99]⟩]⟩ :=
  ⟨by unfold U32; decide, by unfold U32; decide, by
    intro e he
    simp only [List.mem_cons, List.not_mem_nil, or_false] at he
    rcases he with rfl | rfl <;>
      exact ⟨by unfold U32; decide, by unfold U32; decide, by unfold U32; decide, by unfold U32; decide,
        by unfold U32; decide, by unfold U32; decide⟩⟩

/-- **prefix-hint entry selection is complete**: for a field whose table entries have ascending MaxVals and whose MinVal
is below every token, the entry range returned by `token.Table.SelectEntries(field, hint)` contains the entry of every
token that starts with `hint` (the narrowing never hides a matching token, whatever the block layout) -/
theorem c03_selectEntries_sound (hint minVal : Tok) (maxVals : List Tok) (v : Tok) (i : Nat)
    (h : SelectInput hint minVal maxVals v i) :
    (selectEntries hint minVal maxVals).1 ≤ i ∧ i < (selectEntries hint minVal maxVals).2 :=
  select_sound hint minVal maxVals v i h

example : SelectInput [98] [97] [[97, 122], [98, 98], [99]] [98, 97] 1 :=
  ⟨by decide,
   by intro a b hab hb
      have hb' : b < 3 := hb
      have : (a = 0 ∨ a = 1 ∨ a = 2) ∧ (b = 0 ∨ b = 1 ∨ b = 2) := by omega
      rcases this with ⟨rfl | rfl | rfl, rfl | rfl | rfl⟩ <;> first | rfl | omega,
   by decide, by decide, by decide,
   by intro j hj
      have : j = 0 := by omega
      subst this; rfl,
   by decide⟩

/-! ## the fraction: active index vs the index sealed from it -/

/-- **C03 (sealed = active at the index interface).**  For every quiescent active fraction (any number of documents,
fields, tokens, posting lists; IDs in descending order with possible duplicates), every ID block size >= 1 (writer =
reader), every LID block capacity >= 1 and every token block size: sealing succeeds, and the sealed index answers
every call of the interface the search processor uses exactly like the active index -
`Len`, `GetMID`, `GetRID`, `LessOrEqual` (all LIDs and IDs), `GetValByTID`, and for every token the posting node
(`GetLIDsFromTIDs`) for every LID window in both orders.  Every search / histogram / aggregation is a function of
these calls (frac/processor), so their answers coincide. -/
theorem c03_sealed_eq_active (size cap rbs base : Nat) (posOf : ID → Nat) (a : Active) (h : Quiescent a)
    (hsize : 1 ≤ size) (hcap : 1 ≤ cap) :
    ∃ s, sealFrac size size cap rbs base posOf a = .ok s ∧ IndexAgree a s :=
  seal_agrees size cap rbs base posOf a h hsize hcap

/-- non-vacuity: 4 documents (LID 0 = system ID), inserted out of ID order, 2 fields, LID capacity 2, ID block size 2 -/
def exampleActive : Active :=
  { mids := [18446744073709551615, 5, 9, 7, 9], rids := [18446744073709551615, 1, 4, 7, 5],
    allDocs := [4, 2, 3, 1],
    fields := [[⟨[97], [4, 2, 3, 1]⟩], [⟨[120], [4, 3]⟩, ⟨[121], [2, 3, 1]⟩]] }

example : Quiescent exampleActive :=
  ⟨by decide, by decide, by decide, by decide, by decide, by decide, by
    intro fl hfl t ht
    simp only [exampleActive, List.mem_cons, List.not_mem_nil, or_false] at hfl
    rcases hfl with rfl | rfl
    · simp only [List.mem_cons, List.not_mem_nil, or_false] at ht; subst ht; exact ⟨by decide, by decide⟩
    · simp only [List.mem_cons, List.not_mem_nil, or_false] at ht
      rcases ht with rfl | rfl <;> exact ⟨by decide, by decide⟩⟩

/-- **C03 (answers).**  A processor that works only through the index interface - LID borders from the time window by
binary search over `LessOrEqual`, any boolean combination of tokens over the posting nodes, total, IDs with the
limit and the consecutive-duplicate rule, histogram buckets - returns the same answer on the fraction sealed from an
active fraction as on the active fraction itself (for every query over existing tokens, window, order, limit, interval) -/
theorem c03_search_sealed_eq_active (size cap rbs base : Nat) (posOf : ID → Nat) (a : Active) (h : Quiescent a)
    (hsize : 1 ≤ size) (hcap : 1 ≤ cap) (q : Q) (hq : q.wf a.fields.flatten.length)
    (fromMID toMID : Nat) (rev : Bool) (limit histInterval : Nat) :
    ∃ s, sealFrac size size cap rbs base posOf a = .ok s ∧
      search (sealedIndex s) q fromMID toMID rev limit histInterval = search (activeIndex a) q fromMID toMID rev limit histInterval := by
  obtain ⟨s, hs, hag⟩ := seal_agrees size cap rbs base posOf a h hsize hcap
  exact ⟨s, hs, search_agree a s hag q hq fromMID toMID rev limit histInterval⟩

/-! ## composition with C02: the sealed form answers `Spec.search` of the active form's documents -/

/-- **C03 x C02.**  The index read back from the sealed structures (`sealedView`: `GetMID/GetRID` of every LID,
`GetValByTID` and the drained posting iterator of every tid, through the block/table/iterator models) is a
well-formed C02 index (`EvalTree.WF`, `SortedDesc`, RIDs within uint64), its posting nodes are C02's `narrow`, and
`processor.IndexSearch` on it (C02's `EvalTree.search`, every query tree incl. NOT, window, order, limit, total) returns
`Spec.search` of **the documents of the active fraction** (`activeDocs`: IDs and tokens by active LID) -/
theorem c03_sealed_search_eq_spec (names : List SV.Spec.Bytes) (size cap rbs base : Nat) (posOf : ID → Nat) (a : Active)
    (h : Quiescent a) (hsize : 1 ≤ size) (hcap : 1 ≤ cap) (q : SV.Spec.Query) (from_ to : Nat)
    (h0 : 0 < from_ ∨ ∀ id ∈ (activeView names a).ids, id ≠ ⟨0, 0⟩) (asc : Bool) (limit : Nat) (withTotal : Bool) :
    ∃ s, sealFrac size size cap rbs base posOf a = .ok s ∧
      SV.EvalTree.WF (sealedView names a s) ∧ SV.Borders.SortedDesc (sealedView names a s).ids ∧
      SV.EvalTree.search (sealedView names a s) q from_ to asc limit withTotal =
        SV.Spec.search (activeDocs names a) q from_ to asc limit withTotal := by
  obtain ⟨s, hs, hag⟩ := seal_agrees size cap rbs base posOf a h hsize hcap
  obtain ⟨hwf, hsd, hr⟩ := activeView_wf names a h
  refine ⟨s, hs, ?_⟩
  rw [sealedView_eq names a s h hag]
  refine ⟨hwf, hsd, ?_⟩
  rw [SV.EvalTree.search_eq_spec (activeView names a) hwf hsd hr q from_ to h0 asc limit withTotal,
    docsOf_activeView names a h]

/-- the sealed posting iterator is exactly the `narrow` node C02's evaluation tree is built from -/
theorem c03_sealedNode_eq_c02_narrow (names : List SV.Spec.Bytes) (a : Active) (s : Sealed) (h : Quiescent a)
    (hag : IndexAgree a s) (tid : Nat) (h1 : 1 ≤ tid) (h2 : tid ≤ a.fields.flatten.length) (lo hi : Nat) (rev : Bool) :
    sealedNode s tid lo hi rev =
      .ok (SV.EvalTree.narrow rev lo hi (((activeView names a).toks[tid - 1]?).map (·.lids) |>.getD [])) :=
  sealedNode_eq_narrow names a s h hag tid h1 h2 lo hi rev

/-! ## documents: sorted-docs rewriting, doc-block offset table, fetch -/

/-- **sortedDocs_fetch_same.**  After `writeSortedDocs` (documents re-read in sorted ID order, re-blocked by
`docBlocksWriter` with any block size and any compressed block lengths), every position of the new `Positions` map,
read through the new `BlockOffsets` table and the new docs file, yields exactly the bytes the active fraction stored
for that ID; every written ID has a position.  (The table is the value returned by the writer - seeded change C03-m2
aliased it with the pooled writer's buffer; that is a memory-sharing fact outside Lean, located by `c03.seal-sequence`.) -/
theorem c03_sortedDocs_fetch_same (clen : Nat → List Nat → Nat) (hclen : ∀ i p, 0 < clen i p) (minBS : Nat)
    (oldRead : ID → Option DocB) (hsize : ∀ id d, oldRead id = some d → d.length < 4294967296) (sortedIDs : List ID) (w : DW)
    (hn : sortedIDs.length < 4294967296) (hw : writeSortedDocs clen minBS oldRead sortedIDs = some w) :
    (∀ id pos, lookupPos w.positions id = some pos → readAt w.blockOffsets w.file pos = oldRead id) ∧
    (∀ id, id ∈ sortedIDs.tail → id ≠ (0, 0) → ∃ pos, lookupPos w.positions id = some pos) :=
  sortedDocs_fetch_same clen hclen minBS oldRead hsize sortedIDs w hn hw

/-- **`GroupDocsOffsets` + the `IndexFetch` loop are transparent**: for any request (repetitions, `DocPosNotFound`,
blocks in any order) the result is, slot by slot, nil for not-found and the document at the position otherwise -/
theorem c03_indexFetch_eq_map (offsets : List Nat) (file : List (Nat × List Nat)) (ps : List Nat)
    (hread : ∀ p, p ∈ ps → p ≠ docPosNotFound →
      ∃ bo payload, offsets[(unpackDocPos p).1]? = some bo ∧ lookupFile file bo = some payload) :
    indexFetch offsets file ps = some (ps.map fun p => if p = docPosNotFound then none else readAt offsets file p) :=
  indexFetch_eq_map offsets file ps hread

/-- **fetch: sealed = active, for every requested ID** (stored or not).  Sealed path: one `findLIDs` round (binary search
over `LessOrEqual`, equality check), the positions block of the LID's ID block, the new offset table and doc blocks;
active path: the positions map, the old offset table and doc blocks. -/
theorem c03_fetch_sealed_eq_active (clen : Nat → List Nat → Nat) (hclen : ∀ i p, 0 < clen i p) (minBS size : Nat)
    (apos : List (ID × Nat)) (aoffs : List Nat) (afile : List (Nat × List Nat)) (ids : List ID) (w : DW)
    (hin : IDsInput size ids) (hd : DescIDs ids) (hn : ids.length < 4294967296)
    (hkeys : ∀ id, (lookupPos apos id).isSome ↔ ∃ k, ∃ (hk : k < ids.length), 1 ≤ k ∧ ids[k] = id)
    (hreadable : ∀ id p, lookupPos apos id = some p → p ≠ docPosNotFound ∧ ∃ d, readAt aoffs afile p = some d ∧ d.length < 4294967296)
    (hnz : ∀ id, id ∈ ids.tail → id ≠ (0, 0))
    (hw : writeSortedDocs clen minBS (fun id => fetchAt aoffs afile (activeDocPos apos id)) ids = some w)
    (hposb : ∀ id p, lookupPos w.positions id = some p → p < W64 ∧ p ≠ docPosNotFound) (id : ID) :
    fetchAt w.blockOffsets w.file (sealedDocPos size
        (idsTableOf (writeIDs size ids (fun x => (lookupPos w.positions x).getD docPosNotFound)) ids.length)
        (writeIDs size ids (fun x => (lookupPos w.positions x).getD docPosNotFound)) id) =
      fetchAt aoffs afile (activeDocPos apos id) :=
  fetch_one_same clen hclen minBS size apos aoffs afile ids w hin hd hn hkeys hreadable hnz hw hposb id

/-- non-vacuity: two documents re-blocked with a 5-byte block size end up in two blocks and read back unchanged -/
example : ∃ w, writeSortedDocs (fun _ p => p.length + 33) 5 (fun id => if id = (9, 1) then some [97, 98] else if id = (7, 2) then some [99] else none)
    [(18446744073709551615, 18446744073709551615), (9, 1), (7, 2)] = some w ∧ w.blockOffsets = [0, 39] ∧
    (lookupPos w.positions (7, 2)).bind (readAt w.blockOffsets w.file) = some [99] := ⟨_, rfl, by decide, by decide⟩

/-- **the doc-block cache is transparent for docs files below 4 GiB**: the key `uint32(blockOffset)` is injective
on offsets < 2^32, hence any sequence of `ReadDocsFunc` block look-ups on one reader (cold, warm, any order,
repetitions, any cache content built that way) returns for every block offset the block stored there.
ASSUMPTION made explicit: a docs file stays below 4 GiB (default `--frac-size` is 128 MB and a fraction is rotated when
it exceeds it; the flag accepts larger values - see `c03_docs_cache_key_collides_beyond_4GiB`). -/
theorem c03_docs_cache_transparent {α} (load : Nat → α) (offs : List Nat) (cache : List (Nat × α))
    (hc : CacheOK docsCacheKey load (· < 4294967296) cache) (hd : ∀ o, o ∈ offs → o < 4294967296) :
    readSeq docsCacheKey load cache offs = offs.map load :=
  readSeq_spec docsCacheKey load (· < 4294967296) (fun a b ha hb h => docsCacheKey_injective a b ha hb h) offs cache hc hd

/-- beyond 4 GiB the truncated key collides: two different block offsets, one key (with a configured fraction size
above 4 GiB the second block would be answered from the first one's cache entry) -/
theorem c03_docs_cache_key_collides_beyond_4GiB :
    docsCacheKey (4294967296 + 64) = docsCacheKey 64 ∧ (4294967296 + 64 ≠ 64) := docsCacheKey_collides

/-- **the loader recovers what was written, for every block count** (`Loader.Load`: `skipTokens`, `loadIDs`,
`loadLIDsBlocksTable`).  The section loops probe the registry until the empty separator header, so for an index file
with any token / token-table blocks, ANY number of ID blocks - every `IDsTotal`, in particular exact multiples of
`IDsPerBlock` where the last ID block is full - and any number of LID blocks, the loaded `MinBlockIDs`, the start of
the ID section, the start of the LID section and the LID table are exactly the written ones -/
theorem c03_loader_tables_eq_written (info pos : Hdr) (toks tab : List Hdr) (ids : List (ID × Nat × Nat × Nat))
    (lids : List (Block × Nat)) (htoks : ∀ h, h ∈ toks → h.len ≠ 0) (htab : ∀ h, h ∈ tab → h.len ≠ 0)
    (hids : ∀ b, b ∈ ids → b.2.1 ≠ 0) (hlids : ∀ b, b ∈ lids → b.2 ≠ 0)
    (htid : ∀ b, b ∈ lids → b.1.minTID < 4294967296 ∧ b.1.maxTID < 4294967296) :
    loadTables ([info] ++ toks ++ sepHdr :: (tab ++ sepHdr :: (pos :: (idsSection ids ++ lidsSection lids)))) =
      some { idsStart := toks.length + tab.length + 4, minBlockIDs := ids.map (·.1),
             lidsStart := toks.length + tab.length + 4 + 3 * ids.length + 1,
             lids := lids.map fun b => (b.1.minTID, b.1.maxTID, b.1.isContinued) } :=
  loadTables_spec info pos toks tab ids lids htoks htab hids hlids htid

/-- the number of ID blocks is NOT `IDsTotal / IDsPerBlock + 1` (seeded change C03-m12 computed it that way): with a
full last block the generator emits `IDsTotal / cap` blocks - e.g. 4 IDs, capacity 2 -/
theorem c03_id_block_count_not_arithmetic : (chop 2 [(9, 1), (8, 1), (7, 1), (6, 1)]).length = 2 ∧ 4 / 2 + 1 = 3 := by decide

/-! ## Obligations on facts re-extracted from /repo on every run -/

open SV.Extracted.C03

/-- the writer's IDs-per-block and the reader's divisor are the same number; LID capacity >= 1 -/
theorem c03_x_block_constants :
    idsBlockSize = idsPerBlock ∧ 1 ≤ idsPerBlock ∧ 1 ≤ lidBlockCap ∧ 1 ≤ regularBlockSize ∧
    sealerCaps = ["getIDsBlocksGenerator consts.IDsBlockSize", "getLIDsBlockGenerator consts.LIDBlockCap"] ∧
    idBlockIndexExpr = ["int64(lid) / consts.IDsPerBlock"] := by decide

/-- DocPos layout constants are the ones of the model -/
theorem c03_x_docpos_layout :
    SV.Extracted.C03.docOffsetBits = SV.C03.docOffsetBits ∧ maxDocOffset = 1073741823 ∧
    2 ^ SV.Extracted.C03.docOffsetBits = 1073741824 := by
  decide

/-- the generator's cut, flush conditions and isLastLID arguments are the modelled ones -/
theorem c03_x_lid_generator_shape :
    lidGenRight = ["min(maxBlockSize-len(blockLIDs), len(tokenLIDs))"] ∧
    lidGenFlush = ["len(blockLIDs) == maxBlockSize => newBlockFn(len(tokenLIDs) == 0)", "len(blockLIDs) > 0 => newBlockFn(true)"] := by
  decide

/-- registry extents of LID blocks: written and read as modelled by `lidExt` / `lidExtLoad` -/
theorem c03_x_lid_ext_layout :
    lidExtExpr = ["ext1 = 1", "ext2 = uint64(b.MaxTID)<<32 | uint64(b.MinTID)"] ∧
    lidExtLoadExpr = ["maxTIDs <- uint32(ext2 >> 32)", "minTIDs <- uint32(ext2 & 0xFFFFFFFF)", "isContinued <- ext1 == 1"] := by
  decide

/-- the posting theorems instantiated at the extracted `consts.LIDBlockCap` -/
theorem c03_x_lids_at_LIDBlockCap (f : Nat → Nat) (fields : List (List (List Nat))) (tid minL maxL : Nat)
    (h : PostingInput lidBlockCap f fields tid) :
    iterDesc (genBlocks lidBlockCap f fields) (tableOf (genBlocks lidBlockCap f fields)) tid minL maxL =
      .ok ((((fields.flatten[tid - 1]?).getD []).map f).filter (inWin minL maxL)) :=
  c03_lidsBlocks_iterDesc_eq_filter lidBlockCap f fields tid minL maxL h

/-- the token block size rule in the source is the repaired one (`bsNew`); the theorems above are about it -/
theorem c03_x_token_block_size_rule :
    tokenBlockSizeExpr = ["max(1, len(tids)/blocksCount)"] ∧ tokenBlocksCountExpr = ["fieldSize/consts.RegularBlockSize + 1"] := by
  decide

/-- ID theorems at the extracted `consts.IDsPerBlock` = `consts.IDsBlockSize` -/
theorem c03_x_ids_at_IDsPerBlock (ids : List ID) (posOf : ID → Nat) (h : IDsInput idsBlockSize ids) (hd : DescIDs ids)
    (lid : Nat) (id : ID) :
    lessOrEqual idsPerBlock (idsTableOf (writeIDs idsBlockSize ids posOf) ids.length) (writeIDs idsBlockSize ids posOf) lid id =
      some (if hl : lid < ids.length then idLE ids[lid] id else true) :=
  lessOrEqual_spec idsBlockSize ids posOf h hd lid id

/-- the fraction theorem at the extracted constants (ID block size, LID block capacity, token block size) -/
theorem c03_x_sealed_eq_active_at_consts (base : Nat) (posOf : ID → Nat) (a : Active) (h : Quiescent a) :
    ∃ s, sealFrac idsBlockSize idsPerBlock lidBlockCap regularBlockSize base posOf a = .ok s ∧ IndexAgree a s :=
  seal_agrees idsBlockSize lidBlockCap regularBlockSize base posOf a h (by decide) (by decide)

/-- `writeSortedDocs` hands out copies of the pooled writer's `BlockOffsets` and `Positions` (the writer returns to
`docBlocksWriterPool` and is reused by the next seal; `sortedDocs_fetch_same` is about the values at return time) -/
theorem c03_x_sorted_docs_returns_copies :
    sortedDocsReturns = ["sdocsFile", "slices.Clone(bw.BlockOffsets)", "maps.Clone(bw.Positions)", "nil"] := by decide

/-- the LID block generator rewrites LIDs in place (`reassignLIDs`) only inside its own buffer `blockLIDs`, which is
allocated by the generator and filled by copying (`append(blockLIDs, tokenLIDs[:right]...)`): the posting lists of
the live active fraction (`TokenLIDs.sorted`) are never aliased, so sealing does not change what the active form
answers (the model's `genBlocks` is a pure function of its input; the oracle form `active-after-seal` checks the code) -/
theorem c03_x_lid_generator_owns_buffer :
    lidGenReassignArgs = ["blockLIDs"] ∧
    lidGenBufferAssigns = ["make([]uint32, 0, maxBlockSize)", "blockLIDs[:0]", "append(blockLIDs, tokenLIDs[:right]...)"] := by
  decide

/-- the doc-block cache key in the source is the whole block offset truncated to uint32 (`docsCacheKey`) -/
theorem c03_x_docs_cache_key : docsCacheKeyExpr = ["uint32(blockOffset)"] := by decide

/-- every section loop of the sealed loader is an unconditional `for` that stops at the first empty header - no block
count is computed from `IDsTotal` (the shape `skipSection` / `probeIDs` / `probeLIDs` model) -/
theorem c03_x_loader_probes_until_separator :
    loaderLoops = ["loadIDs: for{} break if header.Len() == 0", "skipTokens: for{} break if header.Len() == 0",
      "skipTokens: for{} break if header.Len() == 0", "loadLIDsBlocksTable: for{} break if header.Len() == 0"] := by decide

/-- start-up clean-up of a fraction that already has `.sdocs` and `.index`: the leftover `.meta` and the leftover
unsorted `.docs` are each removed unconditionally of the other (Active.Release removes `.meta` first, then `.docs`;
`Sealed.openDocs` prefers `.docs`, and the index positions describe the sorted `.sdocs` - `c03_sortedDocs_fetch_same`
is about that file) -/
theorem c03_x_loader_removes_leftover_docs :
    loaderSealedCleanup = ["if info.hasMeta remove info.base + consts.MetaFileSuffix",
      "if info.hasDocs remove info.base + consts.DocsFileSuffix"] := by decide

end SV.Props.C03
