import SeqVerif.Model.ProxySearchLemmas
import SeqVerif.Model.DocsMergeLemmas
import SeqVerif.Model.DocsMergeComplete
import SeqVerif.Model.ProxyRead
import SeqVerif.Model.ProxyCompose
import SeqVerif.Model.ProxyE2E
import SeqVerif.Model.ProxyApiLemmas
import SeqVerif.Extracted.C16
/-!
# C16 - proxy reads degrade honestly: complete if all shards answer, else marked partial

Models: `SV.ProxySearch` (searchShard, searchStores, Search, MergeQPRs, paginateIDs), `SV.DocsMerge`
(lessFuncPosBased, mergedDocStream, newNMergedStreams, mergedStreamIterator, grpcStreamIterator, uniqueIDIterator,
FetchDocsStream), `SV.ProxyRead` (Search end to end).  The environment is an argument everywhere: per replica the
outcome of `client.Search`, per tier the order in which the shard goroutines answer, per source the events of its
fetch stream, the order in which the per-source map is visited.  A Go panic is a value.

Only property theorems, extracted-fact obligations and non-vacuity examples live in this file.
-/
namespace SV.Props.C16
open SV.ProxySearch SV.DocsMerge SV.ProxyRead

/-! ## search side -/

/-- **Replicas are tried in order until one answers.**  A shard answers with replica `rep`'s IDs exactly when
replica `rep` returned a response without a refusal code and every replica before it failed. -/
theorem c16_shard_answer (calls : List Call) (rep : Nat) (ids : List ProxySearch.ID) (t n : Nat) :
    searchShard calls = .ok rep ids t n ↔
      calls[rep]? = some (.resp .none ids t n) ∧ ∀ j, j < rep → calls[j]? = some .fail := by
  unfold searchShard
  rw [searchShardGo_ok]
  constructor
  · rintro ⟨k, hk, h1, h2⟩
    have : rep = k := by omega
    subst this; exact ⟨h1, h2⟩
  · rintro ⟨h1, h2⟩; exact ⟨rep, by omega, h1, h2⟩

/-- **Shuffled replicas (`ShuffleReplicas = true`).**  For every replica order `perm` (any list - unbounded): a shard
answers with replica `rep` exactly when `rep` is the first asked replica that does not fail, and the answer names that
very replica (`searchHost` returns the source of the host it asked): `rep` was asked, and it is `rep`'s own response. -/
theorem c16_shard_answer_perm (perm : List Nat) (calls : List Call) (rep : Nat) (ids : List ProxySearch.ID) (t n : Nat) :
    searchShardP perm calls = .ok rep ids t n ↔
      ∃ k : Nat, (permuted perm calls)[k]? = some (rep, Call.resp .none ids t n) ∧
        ∀ j : Nat, j < k → ∃ r : Nat, (permuted perm calls)[j]? = some (r, Call.fail) :=
  searchShardPGo_ok false (permuted perm calls) rep ids t n

/-- ... in particular the source of a shard answer is a replica that returned exactly those IDs -/
theorem c16_shard_source (perm : List Nat) (calls : List Call) (rep : Nat) (ids : List ProxySearch.ID) (t n : Nat)
    (h : searchShardP perm calls = .ok rep ids t n) : rep ∈ perm ∧ calls[rep]? = some (.resp .none ids t n) :=
  searchShardP_source perm calls rep ids t n h

/-- without shuffling the order is `0, 1, 2, ...` and the shuffled model is the plain one -/
theorem c16_shard_unshuffled (calls : List Call) :
    searchShardPGo false (indexed 0 calls) = searchShard calls := searchShardPGo_range 0 false calls

/-- **C16 (search promises, fetch keeps).**  Replicas asked in any orders `hp s` / `cp s` per shard, any arrival
order: every ID of a successful `Search` is attributed to a (shard, replica) of the consulted tier that was asked and
whose own response contains that ID - and (`c16_response_aligned`) the document for it is fetched from exactly that
store (`behav (srcNat cold (shard, replica))`).  So the fetch goes to a replica that holds what the search promised. -/
theorem c16_source_routing (hot cold : List (List Call)) (hp cp : Nat → List Nat)
    (hotArr coldArr : List (Nat × ShardRes)) (hh : hotArr.Perm (resultsP hp hot)) (hc : coldArr.Perm (resultsP cp cold))
    (offset size : Nat) (rev : Bool) (ids : List (ProxySearch.ID × Src)) (t e : Nat) (p c : Bool)
    (h : search hotArr coldArr offset size rev = .ok ids t e p c) :
    ∀ x ∈ ids, ∃ calls l t' e', (if c then cold else hot)[x.2.1]? = some calls ∧
      x.2.2 ∈ (if c then cp else hp) x.2.1 ∧ calls[x.2.2]? = some (.resp .none l t' e') ∧ x.1 ∈ l := by
  obtain ⟨qs, hst, hids⟩ := search_ok_tier hotArr coldArr offset size rev ids t e p c h
  intro x hx
  rw [hids] at hx
  obtain ⟨l, t', e', hm, hxl⟩ := attribution _ qs p hst offset size rev x hx
  have key : ∀ (perms : Nat → List Nat) (tier : List (List Call)) (arr : List (Nat × ShardRes)),
      arr.Perm (resultsP perms tier) → (x.2.1, ShardRes.ok x.2.2 l t' e') ∈ arr →
      ∃ calls, tier[x.2.1]? = some calls ∧ x.2.2 ∈ perms x.2.1 ∧ calls[x.2.2]? = some (.resp .none l t' e') := by
    intro perms tier arr hperm hmem
    rw [hperm.mem_iff] at hmem
    simp only [resultsP, List.mem_map] at hmem
    obtain ⟨sc, hsc, heq⟩ := hmem
    obtain ⟨s, calls⟩ := sc
    injection heq with h1 h2
    simp only at h1 h2
    subst h1
    have hget := (mem_indexed 0 tier _ calls).mp hsc
    simp only [Nat.zero_le, true_and, Nat.sub_zero] at hget
    have := searchShardP_source _ _ _ _ _ _ h2
    exact ⟨calls, hget, this.1, this.2⟩
  cases c with
  | true =>
    simp only [if_true] at hm ⊢
    obtain ⟨calls, h1, h2, h3⟩ := key cp cold coldArr hc hm
    exact ⟨calls, l, t', e', h1, h2, h3, hxl⟩
  | false =>
    simp only [Bool.false_eq_true, if_false] at hm ⊢
    obtain ⟨calls, h1, h2, h3⟩ := key hp hot hotArr hh hm
    exact ⟨calls, l, t', e', h1, h2, h3, hxl⟩

/-- **C16 (outcome).**  For every topology (any number of shards and replicas, read stores optional), every
assignment of per-call behaviours and every order in which the shards answer: `Search` fails with an error (a panic
only when some shard has no replica at all, or when the `int` sum `offset+size` wraps - `limitWraps`), or - see `Honest` - the returned IDs are page `[offset, offset+size)`
of the unique strictly ordered merge over exactly the shards that had an answering replica of the tier that was
consulted, each ID attributed to a replica that returned it; the result is unflagged iff every shard of that tier
answered, a flagged result still has an answering shard, a result without store-reported errors means no answering
replica reported one, and the read stores are consulted only after a hot shard declared the range too old. -/
theorem c16_outcome (hot cold : List (List Call)) (hotArr coldArr : List (Nat × ShardRes))
    (hh : hotArr.Perm (indexed 0 (hot.map searchShard))) (hc : coldArr.Perm (indexed 0 (cold.map searchShard)))
    (offset size : Nat) (rev : Bool) :
    Honest hot cold offset size rev (search hotArr coldArr offset size rev) := by
  have panicOf : ∀ (tier : List (List Call)) (arr : List (Nat × ShardRes)),
      arr.Perm (indexed 0 (tier.map searchShard)) → searchStores arr = .panic → ∃ calls ∈ tier, calls = [] := by
    intro tier arr hp h
    obtain ⟨e, he, hn⟩ := storesLoop_panic _ _ _ _ h
    obtain ⟨calls, h1, h2⟩ := (mem_arrival hp e.1 e.2).mp he
    rw [hn] at h2
    exact ⟨calls, mem_tier_of_getElem? h1, (searchShardGo_nil _ _ _ h2).1⟩
  unfold search
  cases hH : searchStores hotArr with
  | panic =>
    obtain ⟨calls, h1, h2⟩ := panicOf hot hotArr hh hH
    exact Or.inl ⟨calls, List.mem_append_left _ h1, h2⟩
  | data qs p =>
    have hf := tier_facts hot hotArr hh qs p hH offset size rev
    simp only [finish]
    split
    · rename_i hw; exact Or.inr hw
    · simp only [Honest, Bool.false_eq_true, if_false]
      exact ⟨hf.1, hf.2.1, hf.2.2.1, hf.2.2.2.1, hf.2.2.2.2, by simp⟩
  | err k =>
    cases k with
    | tmf => simp [finish, Honest]
    | tmu => simp [finish, Honest]
    | other => simp [finish, Honest]
    | wod =>
      simp only
      split
      · simp [Honest]
      · cases hC : searchStores coldArr with
        | err k => simp [finish, Honest]
        | panic =>
          obtain ⟨calls, h1, h2⟩ := panicOf cold coldArr hc hC
          exact Or.inl ⟨calls, List.mem_append_right _ h1, h2⟩
        | data qs p =>
          have hf := tier_facts cold coldArr hc qs p hC offset size rev
          simp only [finish]
          split
          · rename_i hw; exact Or.inr hw
          · simp only [Honest, if_true]
            refine ⟨hf.1, hf.2.1, hf.2.2.1, hf.2.2.2.1, hf.2.2.2.2, fun _ => ?_⟩
            obtain ⟨e, he, hw⟩ := storesLoop_wod _ _ _ _ hH
            obtain ⟨calls, h1, h2⟩ := (mem_arrival hh e.1 e.2).mp he
            exact ⟨calls, mem_tier_of_getElem? h1, by rw [h2, hw]⟩

/-- **C16 (it does degrade, and only as far as needed).**  When no hot shard refuses (wants-old-data,
too-many-fractions) and every shard has a replica: all shards answer => a complete result; some answer and some do
not => a result flagged partial; none answers => an error.  Whatever the arrival order.  (`hlim`: the `int` sum
`offset+size` does not wrap; outside it every request that reaches the merge panics - `c16_limit_wrap`.) -/
theorem c16_degrades (hot : List (List Call)) (hotArr coldArr : List (Nat × ShardRes))
    (hh : hotArr.Perm (indexed 0 (hot.map searchShard)))
    (hn : ∀ calls ∈ hot, searchShard calls ≠ .wod ∧ searchShard calls ≠ .tmf ∧ calls ≠ [])
    (offset size : Nat) (hlim : limitWraps offset size = false) (rev : Bool) :
    ((∀ calls ∈ hot, (searchShard calls).isOk = true) →
      ∃ ids t e, search hotArr coldArr offset size rev = .ok ids t e false false) ∧
    ((∃ calls ∈ hot, (searchShard calls).isOk = true) → (∃ calls ∈ hot, (searchShard calls).isOk = false) →
      ∃ ids t e, search hotArr coldArr offset size rev = .ok ids t e true false) ∧
    ((∃ calls ∈ hot, True) → (∀ calls ∈ hot, (searchShard calls).isOk = false) →
      ∃ k, search hotArr coldArr offset size rev = .err k) := by
  have hsc : ∀ e ∈ hotArr, e.2 ≠ .wod ∧ e.2 ≠ .tmf ∧ e.2 ≠ .nilResp := by
    intro e he
    obtain ⟨calls, h1, h2⟩ := (mem_arrival hh e.1 e.2).mp he
    have := hn calls (mem_tier_of_getElem? h1)
    refine ⟨by rw [← h2]; exact this.1, by rw [← h2]; exact this.2.1, ?_⟩
    intro h
    rw [h] at h2
    exact this.2.2 (searchShardGo_nil _ _ _ h2).1
  have hloop := storesLoop_noSC hotArr [] 0 false hsc
  simp only [List.nil_append, Nat.zero_add] at hloop
  have okMem : (∃ calls ∈ hot, (searchShard calls).isOk = true) → oks hotArr ≠ [] := by
    rintro ⟨calls, hc, hok⟩
    obtain ⟨s, hs⟩ := List.getElem?_of_mem hc
    cases hr : searchShard calls with
    | ok rep l t e =>
      have : (⟨(s, rep), l, t, e⟩ : QPR) ∈ oks hotArr := mem_oks.mpr ((mem_arrival hh s _).mpr ⟨calls, hs, hr⟩)
      intro hnil; rw [hnil] at this; simp at this
    | _ => rw [hr] at hok; simp [ShardRes.isOk] at hok
  have badMem : (∃ calls ∈ hot, (searchShard calls).isOk = false) → 0 < nbad hotArr := by
    rintro ⟨calls, hc, hbad⟩
    obtain ⟨s, hs⟩ := List.getElem?_of_mem hc
    have hm : (s, searchShard calls) ∈ hotArr := (mem_arrival hh s _).mpr ⟨calls, hs, rfl⟩
    have h3 := hsc _ hm
    apply nbad_pos.mpr
    refine ⟨_, hm, ?_⟩
    cases hr : searchShard calls <;> simp_all [ShardRes.isOk]
  refine ⟨fun hall => ?_, fun hsome hbad => ?_, fun hne hnone => ?_⟩
  · have hz : nbad hotArr = 0 := by
      rcases Nat.eq_zero_or_pos (nbad hotArr) with h | h
      · exact h
      · obtain ⟨e, he, hb⟩ := nbad_pos.mp h
        obtain ⟨calls, h1, h2⟩ := (mem_arrival hh e.1 e.2).mp he
        have := hall calls (mem_tier_of_getElem? h1)
        rw [h2] at this
        rcases hb with hb | hb <;> simp [hb, ShardRes.isOk] at this
    have := hloop.2 hz
    unfold search searchStores
    rw [this]
    simp only [finish, hlim, Bool.false_eq_true, if_false]
    exact ⟨_, _, _, rfl⟩
  · have := (hloop.1 (badMem hbad)).1 (okMem hsome)
    unfold search searchStores
    rw [this]
    simp only [finish, hlim, Bool.false_eq_true, if_false]
    exact ⟨_, _, _, rfl⟩
  · have hnil : oks hotArr = [] := by
      cases ho : oks hotArr with
      | nil => rfl
      | cons q _ =>
        have : q ∈ oks hotArr := by rw [ho]; exact List.mem_cons_self
        obtain ⟨calls, h1, h2⟩ := (mem_arrival hh _ _).mp (mem_oks.mp this)
        have := hnone calls (mem_tier_of_getElem? h1)
        rw [h2] at this; simp [ShardRes.isOk] at this
    obtain ⟨calls, hc, _⟩ := hne
    obtain ⟨k, hk, hk1, hk2⟩ := (hloop.1 (badMem ⟨calls, hc, hnone calls hc⟩)).2 hnil
    unfold search searchStores
    rw [hk]
    cases k with
    | wod => exact absurd rfl hk1
    | tmf => exact ⟨_, rfl⟩
    | tmu => exact ⟨_, rfl⟩
    | other => exact ⟨_, rfl⟩

/-- the merged result `c16_outcome` speaks of is unique, so "the correct top" is well defined -/
theorem c16_top_unique (rev : Bool) (P : List ProxySearch.ID → Prop) (f g : List ProxySearch.ID)
    (hf : IsMergedTop rev P f) (hg : IsMergedTop rev P g) : f = g := isMergedTop_unique rev P f g hf hg

/-- every shard has a replica => `Search` never panics -/
theorem c16_no_panic (hot cold : List (List Call)) (hotArr coldArr : List (Nat × ShardRes))
    (hh : hotArr.Perm (indexed 0 (hot.map searchShard))) (hc : coldArr.Perm (indexed 0 (cold.map searchShard)))
    (hne : ∀ calls ∈ hot ++ cold, calls ≠ []) (offset size : Nat) (hlim : limitWraps offset size = false) (rev : Bool) :
    search hotArr coldArr offset size rev ≠ .panic := by
  intro h
  have := c16_outcome hot cold hotArr coldArr hh hc offset size rev
  rw [h] at this
  rcases this with ⟨calls, h1, h2⟩ | hw
  · exact hne calls h1 h2
  · rw [hlim] at hw; cases hw

/-- **the `int` wrap of `Offset+Size`.**  When the sum reaches 2^63 (e.g. Offset = MaxInt64, Size = 1 - both pass the
"negative size or offset" check) every request whose shards deliver data panics inside `MergeQPRs`
(`ids[:min(len(ids), limit)]` with a negative limit), whatever they delivered; under the proxy's recover interceptor
the client sees an Internal error, which this property allows.  Requests that fail before the merge fail as usual. -/
theorem c16_limit_wrap (hotArr coldArr : List (Nat × ShardRes)) (offset size : Nat) (rev : Bool)
    (hw : limitWraps offset size = true) :
    (∀ ids t e p c, search hotArr coldArr offset size rev ≠ .ok ids t e p c) ∧
    (∀ qs p, searchStores hotArr = .data qs p → search hotArr coldArr offset size rev = .panic) := by
  constructor
  · intro ids t e p c h
    obtain ⟨qs, hst, _⟩ := search_ok_tier hotArr coldArr offset size rev ids t e p c h
    unfold search at h
    cases c with
    | false =>
      simp only [Bool.false_eq_true, if_false] at hst
      rw [hst] at h; simp [finish, hw] at h
    | true =>
      simp only [if_true] at hst
      cases hH : searchStores hotArr with
      | panic => rw [hH] at h; simp [finish] at h
      | data qs' p' => rw [hH] at h; simp [finish, hw] at h
      | err k =>
        rw [hH] at h
        cases k <;> simp only [finish] at h <;> (try cases h)
        split at h
        · cases h
        · rw [hst] at h; simp at h
  · intro qs p h
    unfold search
    rw [h]; simp [finish, hw]

/-- **C16 (old data).**  If a hot shard declares the range older than its retention (and no hot shard refuses with
too-many-fractions) then, whatever the other hot shards answered and in whatever order, the answer is decided by
the read stores alone; without read stores the request fails with wants-old-data. -/
theorem c16_old_data (hot : List (List Call)) (hotArr coldArr : List (Nat × ShardRes))
    (hh : hotArr.Perm (indexed 0 (hot.map searchShard)))
    (hw : ∃ calls ∈ hot, searchShard calls = .wod)
    (hn : ∀ calls ∈ hot, searchShard calls ≠ .tmf ∧ calls ≠ []) (offset size : Nat) (rev : Bool) :
    search hotArr coldArr offset size rev =
      if coldArr.isEmpty then .err .wod else finish (searchStores coldArr) true offset size rev := by
  have : searchStores hotArr = .err .wod := by
    apply storesLoop_wod_of_mem
    · obtain ⟨calls, h1, h2⟩ := hw
      obtain ⟨s, hs⟩ := List.getElem?_of_mem h1
      exact ⟨(s, .wod), (mem_arrival hh s _).mpr ⟨calls, hs, h2⟩, rfl⟩
    · intro e he
      obtain ⟨calls, h1, h2⟩ := (mem_arrival hh e.1 e.2).mp he
      have := hn calls (mem_tier_of_getElem? h1)
      refine ⟨by rw [← h2]; exact this.1, ?_⟩
      intro h
      rw [h] at h2
      exact this.2 (searchShardGo_nil _ _ _ h2).1
  unfold search
  rw [this]

/-- the hot answer is never mixed into a read-store answer: a result flagged `cold` attributes every ID to a
replica of the read tier (direct consequence of `c16_outcome`, stated for the reader) -/
theorem c16_cold_only (hot cold : List (List Call)) (hotArr coldArr : List (Nat × ShardRes))
    (hh : hotArr.Perm (indexed 0 (hot.map searchShard))) (hc : coldArr.Perm (indexed 0 (cold.map searchShard)))
    (offset size : Nat) (rev : Bool) (ids : List (ProxySearch.ID × Src)) (t e : Nat) (p : Bool)
    (h : search hotArr coldArr offset size rev = .ok ids t e p true) :
    ∀ x ∈ ids, ∃ l, Answered cold x.2.1 x.2.2 l ∧ x.1 ∈ l := by
  have := c16_outcome hot cold hotArr coldArr hh hc offset size rev
  rw [h] at this
  exact this.2.1

/-! ## composition with C05 (what a store answers) -/

open SV.ProxyCompose in
/-- **The two models of `seq.MergeQPRs` agree.**  `SV.ProxySearch.mergeQPRs` (this property: pairs `(mid, rid)`
tagged with the answering replica, `rev = IsReverse`) and `SV.Merge.mergeQPRs` (C05: numbers `mid * 2^64 + rid`,
`desc = !rev`, untagged) give the same IDs, the same total (uint64 wrap included) and, after `paginateIDs`, the same
page, whenever the RIDs fit `uint64`.  `Errors` exist only in the C16 model, histograms only in C05's. -/
theorem c16_merge_models_agree (rev : Bool) (offset size L hi : Nat) (qs : List ProxySearch.QPR) (hb : Bounded qs) :
    (ProxySearch.mergeQPRs rev L qs).ids.map (fun p => keyOf p.1) =
      (Merge.mergeQPRs (!rev) Merge.emptyQPR (qs.map conv) L hi).ids ∧
    (ProxySearch.mergeQPRs rev L qs).total = (Merge.mergeQPRs (!rev) Merge.emptyQPR (qs.map conv) L hi).total ∧
    (ProxySearch.paginate (ProxySearch.mergeQPRs rev (offset + size) qs).ids offset size).map (fun p => keyOf p.1) =
      (Merge.proxyMerge (!rev) (qs.map conv) offset size hi).ids :=
  ⟨merge_ids_agree rev L hi qs hb, merge_total_agree rev L hi qs hb, page_agree rev offset size hi qs hb⟩

open SV.ProxyCompose in
/-- **C16 ∘ C05.**  Hypotheses, by origin:
* *this property (C16)*: `hh` - the arrival order is any permutation of the shard answers; `hlim` - the `int` sum
  `offset+size` does not wrap (else `c16_limit_wrap`: a panic); `hn` - no hot shard
  refuses (wants-old-data / too-many-fractions) and every shard has a replica; `hsome` - some shard answers.
* *link*: `hans` - the response of an answering replica carries the IDs `SearchDocs` (C05's model of the store)
  returns for that replica's fractions with limit `offset+size`, RIDs fitting `uint64`; `hdesc` - same order.
* *C05 (`c05_partition_invariant` = `searchDocs_ids`)*: `hinv`, `hvis`, `hmax` - the fraction invariant, visibility
  of non-empty fractions and the `MaxFractionHits` guard, for the fractions of every replica.
* *deployment*: `hrep` - every replica of shard `s` holds the documents `shardDocs s` (the matching ones).
Conclusion: `Search` succeeds from the hot tier; it is unflagged iff every shard answered; the returned IDs are
exactly page `[offset, offset+size)` of the single strictly ordered, duplicate-free list of all matching documents of
the answering shards (`Merge.sd`, characterised by `c05_sd_spec`), so a document held by several shards or replicas
is listed once. -/
theorem c16_c05_compose (c : Merge.Cfg) (from_ to_ : Nat) (hot : List (List Call))
    (hotArr coldArr : List (Nat × ShardRes)) (hh : hotArr.Perm (indexed 0 (hot.map searchShard)))
    (offset size : Nat) (hlim : limitWraps offset size = false) (rev : Bool) (hdesc : c.desc = !rev)
    (fracs : Nat → Nat → List Merge.Frac) (shardDocs : Nat → List Nat)
    (hn : ∀ calls ∈ hot, searchShard calls ≠ .wod ∧ searchShard calls ≠ .tmf ∧ calls ≠ [])
    (hsome : ∃ calls ∈ hot, (searchShard calls).isOk = true)
    (hans : ∀ s calls rep ids t e, hot[s]? = some calls → searchShard calls = .ok rep ids t e →
      (∀ i ∈ ids, i.2 < Merge.R) ∧
      ∃ q, Merge.searchDocs c (fracs s rep) from_ to_ (offset + size) = some q ∧ q.ids = ids.map keyOf)
    (hinv : ∀ s rep, ∀ f ∈ fracs s rep, Merge.FracInv f)
    (hvis : ∀ s rep, ∀ f ∈ fracs s rep, f.docs ≠ [] → Merge.isIntersecting f from_ to_ = true)
    (hmax : ∀ s rep, c.maxHits = 0 ∨ (Merge.filterInRange (fracs s rep) from_ to_).length ≤ c.maxHits)
    (hrep : ∀ s rep d, d ∈ Merge.docsOf (fracs s rep) ↔ d ∈ shardDocs s) :
    ∃ ids t e p, search hotArr coldArr offset size rev = .ok ids t e p false ∧
      (p = false ↔ ∀ calls ∈ hot, (searchShard calls).isOk = true) ∧
      ids.map (fun x => keyOf x.1) =
        ((Merge.sd c.desc (((List.range hot.length).filter fun s =>
            ((hot[s]?).map fun calls => (searchShard calls).isOk).getD false).flatMap shardDocs)).drop offset).take size ∧
      (ids.map (fun x => keyOf x.1)).Nodup ∧ (∀ x ∈ ids, x.1.2 < Merge.R) := by
  -- the request succeeds from the hot tier (C16)
  have hdeg := c16_degrades hot hotArr coldArr hh hn offset size hlim rev
  have hex : ∃ ids t e p, search hotArr coldArr offset size rev = .ok ids t e p false := by
    by_cases hall : ∀ calls ∈ hot, (searchShard calls).isOk = true
    · obtain ⟨ids, t, e, h⟩ := hdeg.1 hall; exact ⟨ids, t, e, false, h⟩
    · have : ∃ calls ∈ hot, (searchShard calls).isOk = false := by
        apply Classical.byContradiction
        intro hne
        apply hall
        intro calls hc
        cases hb : (searchShard calls).isOk with
        | true => rfl
        | false => exact absurd ⟨calls, hc, hb⟩ hne
      obtain ⟨ids, t, e, h⟩ := hdeg.2.1 hsome this; exact ⟨ids, t, e, true, h⟩
  obtain ⟨ids, t, e, p, hs⟩ := hex
  have hon := c16_outcome hot [] hotArr [] hh (by simp [indexed]) offset size rev
  obtain ⟨qs, hst, hids, _⟩ := search_ok_hot hotArr coldArr offset size rev ids t e p hs
  have hs' : search hotArr [] offset size rev = .ok ids t e p false := by
    unfold search; rw [hst]; simp only [finish, hlim, Bool.false_eq_true, if_false]; rw [hids]
    have := hs; unfold search at this; rw [hst] at this
    simp only [finish, hlim, Bool.false_eq_true, if_false] at this
    injection this with h1 h2 h3 h4 h5
    rw [h2, h3]
  rw [hs'] at hon
  have hflag := hon.2.2.1
  simp only [Bool.false_eq_true, if_false] at hflag
  -- the answers that reached the merge are the answering replicas' responses
  obtain ⟨hqs, _, _, _⟩ := storesLoop_data hotArr [] 0 false qs p hst
  simp only [List.nil_append] at hqs
  have hq : ∀ q, q ∈ qs ↔ ∃ calls, hot[q.src.1]? = some calls ∧ searchShard calls = .ok q.src.2 q.ids q.total q.nerr := by
    intro q; rw [hqs, mem_oks, mem_arrival hh]
  have hb : Bounded qs := by
    intro q hqm i hi
    obtain ⟨calls, h1, h2⟩ := (hq q).mp hqm
    exact (hans _ calls _ _ _ _ h1 h2).1 i hi
  -- each answer is the cut of the store's ordered list (C05: searchDocs_ids)
  have hstore : ∀ q ∈ qs, q.ids.map keyOf = (Merge.sd c.desc (Merge.docsOf (fracs q.src.1 q.src.2))).take (offset + size) := by
    intro q hqm
    obtain ⟨calls, h1, h2⟩ := (hq q).mp hqm
    obtain ⟨_, q5, hq5, hq5ids⟩ := hans _ calls _ _ _ _ h1 h2
    obtain ⟨q6, hq6, hq6ids⟩ := Merge.searchDocs_ids c (fracs q.src.1 q.src.2) from_ to_ (offset + size)
      (hinv _ _) (hvis _ _) (hmax _ _)
    rw [hq5] at hq6
    injection hq6 with hq6
    rw [← hq5ids, hq6, hq6ids]
  -- the proxy merge and page (C05: proxyMerge_ids = c05_proxy_page) on the bridged model
  have hpage := page_agree rev offset size 0 qs hb
  have hproxy := Merge.proxyMerge_ids (!rev) (qs.map fun q => Merge.docsOf (fracs q.src.1 q.src.2)) (qs.map conv)
    offset size 0 (by
      simp only [List.map_map]
      apply List.map_congr_left
      intro q hqm
      simp only [Function.comp, conv]
      rw [hstore q hqm, hdesc])
  have hkeys : ids.map (fun x => keyOf x.1) =
      ((Merge.sd (!rev) (qs.map fun q => Merge.docsOf (fracs q.src.1 q.src.2)).flatten).drop offset).take size := by
    rw [hids, hpage, hproxy]
  -- the documents of the answering replicas are the documents of the answering shards
  have hmem : ∀ d, d ∈ (qs.map fun q => Merge.docsOf (fracs q.src.1 q.src.2)).flatten ↔
      d ∈ ((List.range hot.length).filter fun s =>
        ((hot[s]?).map fun calls => (searchShard calls).isOk).getD false).flatMap shardDocs := by
    intro d
    simp only [List.mem_flatten, List.mem_map, List.mem_flatMap, List.mem_filter, List.mem_range]
    constructor
    · rintro ⟨l, ⟨q, hqm, rfl⟩, hd⟩
      obtain ⟨calls, h1, h2⟩ := (hq q).mp hqm
      refine ⟨q.src.1, ⟨?_, ?_⟩, (hrep _ _ d).mp hd⟩
      · rcases Nat.lt_or_ge q.src.1 hot.length with h | h
        · exact h
        · rw [List.getElem?_eq_none h] at h1; cases h1
      · simp [h1, h2, ShardRes.isOk]
    · rintro ⟨s, ⟨hlt, hok⟩, hd⟩
      have hget : hot[s]? = some hot[s] := List.getElem?_eq_getElem hlt
      rw [hget] at hok
      simp only [Option.map_some, Option.getD_some] at hok
      cases hr : searchShard hot[s] with
      | ok rep l t' e' =>
        have : (⟨(s, rep), l, t', e'⟩ : ProxySearch.QPR) ∈ qs := (hq _).mpr ⟨hot[s], hget, hr⟩
        exact ⟨_, ⟨_, this, rfl⟩, (hrep s rep d).mpr hd⟩
      | _ => rw [hr] at hok; simp [ShardRes.isOk] at hok
  refine ⟨ids, t, e, p, hs, hflag, ?_, ?_, ?_⟩
  · rw [hkeys, hdesc, Merge.sd_congr (!rev) _ _ hmem]
  · rw [hkeys]
    exact List.Nodup.sublist ((List.take_sublist _ _).trans (List.drop_sublist _ _))
      (Merge.sortedBy_nodup (!rev) _ (Merge.sd_sorted (!rev) _))
  · intro x hx
    have hattr := hon.2.1 x hx
    simp only [Bool.false_eq_true, if_false] at hattr
    obtain ⟨l, ⟨calls, t', e', h1, h2⟩, hxl⟩ := hattr
    exact (hans _ calls _ _ _ _ h1 h2).1 _ hxl

open SV.ProxyCompose in
/-- the complete case spelled out: every shard has an answering replica => unflagged, and the page is taken from the
ordered list of the matching documents of *all* shards -/
theorem c16_c05_complete (c : Merge.Cfg) (from_ to_ : Nat) (hot : List (List Call))
    (hotArr coldArr : List (Nat × ShardRes)) (hh : hotArr.Perm (indexed 0 (hot.map searchShard)))
    (offset size : Nat) (hlim : limitWraps offset size = false) (rev : Bool) (hdesc : c.desc = !rev)
    (fracs : Nat → Nat → List Merge.Frac) (shardDocs : Nat → List Nat)
    (hne : hot ≠ []) (hall : ∀ calls ∈ hot, (searchShard calls).isOk = true)
    (hans : ∀ s calls rep ids t e, hot[s]? = some calls → searchShard calls = .ok rep ids t e →
      (∀ i ∈ ids, i.2 < Merge.R) ∧
      ∃ q, Merge.searchDocs c (fracs s rep) from_ to_ (offset + size) = some q ∧ q.ids = ids.map keyOf)
    (hinv : ∀ s rep, ∀ f ∈ fracs s rep, Merge.FracInv f)
    (hvis : ∀ s rep, ∀ f ∈ fracs s rep, f.docs ≠ [] → Merge.isIntersecting f from_ to_ = true)
    (hmax : ∀ s rep, c.maxHits = 0 ∨ (Merge.filterInRange (fracs s rep) from_ to_).length ≤ c.maxHits)
    (hrep : ∀ s rep d, d ∈ Merge.docsOf (fracs s rep) ↔ d ∈ shardDocs s) :
    ∃ ids t e, search hotArr coldArr offset size rev = .ok ids t e false false ∧
      ids.map (fun x => keyOf x.1) =
        ((Merge.sd c.desc ((List.range hot.length).flatMap shardDocs)).drop offset).take size := by
  have hn : ∀ calls ∈ hot, searchShard calls ≠ .wod ∧ searchShard calls ≠ .tmf ∧ calls ≠ [] := by
    intro calls hc
    have hok := hall calls hc
    refine ⟨?_, ?_, ?_⟩ <;> intro h <;> (try rw [h] at hok) <;> (try simp [ShardRes.isOk] at hok)
    subst h
    simp [searchShard, searchShardGo] at hok
  have hsome : ∃ calls ∈ hot, (searchShard calls).isOk = true := by
    cases hot with
    | nil => exact absurd rfl hne
    | cons x xs => exact ⟨x, List.mem_cons_self, hall x List.mem_cons_self⟩
  obtain ⟨ids, t, e, p, h1, h2, h3, _, _⟩ := c16_c05_compose c from_ to_ hot hotArr coldArr hh offset size hlim rev hdesc fracs
    shardDocs hn hsome hans hinv hvis hmax hrep
  have hp : p = false := h2.mpr hall
  subst hp
  refine ⟨ids, t, e, h1, ?_⟩
  rw [h3]
  congr 4
  apply List.filter_eq_self.mpr
  intro s hs
  have hlt := List.mem_range.mp hs
  rw [List.getElem?_eq_getElem hlt]
  simp only [Option.map_some, Option.getD_some]
  exact hall _ (List.getElem_mem hlt)

/-! ## the top of the refinement chain: C16 ∘ C05 ∘ C02 against `Spec.search` -/

open SV.ProxyCompose SV.ProxyE2E in
/-- **C16 end to end against the Spec.**  Shard `s` stores the fraction indexes `fracs s` (C02's `EvalTree.Index`
with `Info().From/To`), and every replica of `s` holds them.  Hypotheses, by origin:
* *C02* (inside `FracIdx.OK`, per fraction): `wf` - posting lists strictly ascending and in range; `sorted` - the ID
  table is `SortedDesc`; `rid` - RIDs `≤ maxU64`; `zero` - the zero-ID side condition (`0 < from` or no `0:0` ID).
* *C05*: `bounds` of `FracIdx.OK` (`From ≤ mid ≤ To`, the fraction invariant - visibility follows from it); `hmax` -
  the `MaxFractionHits` guard does not reject, per shard.  (C05's "no document stored twice" is needed for totals
  only; this theorem is about IDs, where a document stored on several fractions / shards / replicas is listed once.)
* *C16*: `hh` - any arrival order; `hn` - no hot shard refuses and each has a replica; `hsome` - some shard answers.
* *link C16-C05*: `hans` - the response of an answering replica of shard `s` carries (with `uint64` RIDs) the IDs that
  `SearchDocs` returns for `fracs s` with limit `offset+size`; `hdesc` - the store is asked in the proxy's order.
Conclusion: `Search` succeeds, is unflagged iff every shard answered, and its IDs are exactly page
`[offset, offset+size)` of `Spec.search` (limit `offset+size`) over all documents of all fractions of the *answering*
shards, matching `q` in `[from, to]`; no ID occurs twice. -/
theorem c16_e2e_spec (c : Merge.Cfg) (q : Spec.Query) (from_ to_ : Nat) (hot : List (List Call))
    (hotArr coldArr : List (Nat × ShardRes)) (hh : hotArr.Perm (indexed 0 (hot.map searchShard)))
    (offset size : Nat) (hlim : limitWraps offset size = false) (rev : Bool) (hdesc : c.desc = !rev)
    (fracs : Nat → List Merge.FracIdx)
    (hok : ∀ s, ∀ f ∈ fracs s, f.OK from_)
    (hmax : ∀ s, c.maxHits = 0 ∨ (Merge.filterInRange (storeFracs (fracs s) q from_ to_) from_ to_).length ≤ c.maxHits)
    (hn : ∀ calls ∈ hot, searchShard calls ≠ .wod ∧ searchShard calls ≠ .tmf ∧ calls ≠ [])
    (hsome : ∃ calls ∈ hot, (searchShard calls).isOk = true)
    (hans : ∀ s calls rep ids t e, hot[s]? = some calls → searchShard calls = .ok rep ids t e →
      (∀ i ∈ ids, i.2 < Merge.R) ∧
      ∃ r, Merge.searchDocs c (storeFracs (fracs s) q from_ to_) from_ to_ (offset + size) = some r ∧
        r.ids = ids.map keyOf) :
    ∃ ids t e p, search hotArr coldArr offset size rev = .ok ids t e p false ∧
      (p = false ↔ ∀ calls ∈ hot, (searchShard calls).isOk = true) ∧
      ids.map (fun x => toSpecID x.1) =
        ((Spec.search (storedDocs (((List.range hot.length).filter fun s =>
            ((hot[s]?).map fun calls => (searchShard calls).isOk).getD false).flatMap fracs))
          q from_ to_ rev (offset + size) c.withTotal).ids.drop offset).take size ∧
      (ids.map (fun x => toSpecID x.1)).Nodup := by
  have hinvvis := fun s => storeFracs_inv (fracs s) q from_ to_ (hok s)
  obtain ⟨ids, t, e, p, h1, h2, h3, h4, h5⟩ := c16_c05_compose c from_ to_ hot hotArr coldArr hh offset size hlim rev hdesc
    (fun s _ => storeFracs (fracs s) q from_ to_) (fun s => Merge.docsOf (storeFracs (fracs s) q from_ to_))
    hn hsome hans (fun s _ => (hinvvis s).1) (fun s _ => (hinvvis s).2) (fun s _ => hmax s) (fun _ _ _ => Iff.rfl)
  have hspec := sd_stores_eq_spec c.desc ((List.range hot.length).filter fun s =>
      ((hot[s]?).map fun calls => (searchShard calls).isOk).getD false) fracs q from_ to_ (offset + size) c.withTotal
    (fun s _ f hf => hok s f hf)
  rw [← page_of_take, hspec, hdesc, Bool.not_not, ← List.map_drop, ← List.map_take] at h3
  have hrid : ∀ i ∈ ((Spec.search (storedDocs (((List.range hot.length).filter fun s =>
      ((hot[s]?).map fun calls => (searchShard calls).isOk).getD false).flatMap fracs))
      q from_ to_ rev (offset + size) c.withTotal).ids.drop offset).take size, i.rid ≤ Borders.maxU64 := by
    intro i hi
    apply spec_ids_rid _ q from_ to_ (offset + size) rev c.withTotal _ i (List.mem_of_mem_drop (List.mem_of_mem_take hi))
    intro d hd
    obtain ⟨f, hf, hdf⟩ := List.mem_flatMap.mp hd
    obtain ⟨s, _, hfs⟩ := List.mem_flatMap.mp hf
    exact (hok s f hfs).rid _ (Merge.docsOf_id_mem f.idx d hdf)
  have hids : (ids.map (·.1)).map toSpecID = _ :=
    ids_of_keys (ids.map (·.1)) _ (by intro i hi; obtain ⟨x, hx, rfl⟩ := List.mem_map.mp hi; exact h5 x hx) hrid
      (by rw [List.map_map]; exact h3)
  refine ⟨ids, t, e, p, h1, h2, by rw [← hids, List.map_map]; rfl, ?_⟩
  -- no ID twice: the key list is duplicate free and the key is a function of the Spec ID
  have : (ids.map (fun x => toSpecID x.1)).map Merge.keyOf = ids.map (fun x => keyOf x.1) := by
    simp [List.map_map, Function.comp, keyOf_toSpecID]
  rw [← this] at h4
  exact List.Pairwise.imp (fun hne heq => hne (by rw [heq])) (List.pairwise_map.mp h4)

open SV.ProxyCompose SV.ProxyE2E in
/-- the complete case: every shard has an answering replica => unflagged, and the IDs are the page of `Spec.search`
over all documents of all fractions of *all* shards -/
theorem c16_e2e_spec_complete (c : Merge.Cfg) (q : Spec.Query) (from_ to_ : Nat) (hot : List (List Call))
    (hotArr coldArr : List (Nat × ShardRes)) (hh : hotArr.Perm (indexed 0 (hot.map searchShard)))
    (offset size : Nat) (hlim : limitWraps offset size = false) (rev : Bool) (hdesc : c.desc = !rev)
    (fracs : Nat → List Merge.FracIdx)
    (hok : ∀ s, ∀ f ∈ fracs s, f.OK from_)
    (hmax : ∀ s, c.maxHits = 0 ∨ (Merge.filterInRange (storeFracs (fracs s) q from_ to_) from_ to_).length ≤ c.maxHits)
    (hne : hot ≠ []) (hall : ∀ calls ∈ hot, (searchShard calls).isOk = true)
    (hans : ∀ s calls rep ids t e, hot[s]? = some calls → searchShard calls = .ok rep ids t e →
      (∀ i ∈ ids, i.2 < Merge.R) ∧
      ∃ r, Merge.searchDocs c (storeFracs (fracs s) q from_ to_) from_ to_ (offset + size) = some r ∧
        r.ids = ids.map keyOf) :
    ∃ ids t e, search hotArr coldArr offset size rev = .ok ids t e false false ∧
      ids.map (fun x => toSpecID x.1) =
        ((Spec.search (storedDocs ((List.range hot.length).flatMap fracs)) q from_ to_ rev (offset + size)
          c.withTotal).ids.drop offset).take size ∧
      (ids.map (fun x => toSpecID x.1)).Nodup := by
  have hn : ∀ calls ∈ hot, searchShard calls ≠ .wod ∧ searchShard calls ≠ .tmf ∧ calls ≠ [] := by
    intro calls hc
    have hok' := hall calls hc
    refine ⟨?_, ?_, ?_⟩ <;> intro h <;> (try rw [h] at hok') <;> (try simp [ShardRes.isOk] at hok')
    subst h
    simp [searchShard, searchShardGo] at hok'
  have hsome : ∃ calls ∈ hot, (searchShard calls).isOk = true := by
    cases hot with
    | nil => exact absurd rfl hne
    | cons x xs => exact ⟨x, List.mem_cons_self, hall x List.mem_cons_self⟩
  obtain ⟨ids, t, e, p, h1, h2, h3, h4⟩ := c16_e2e_spec c q from_ to_ hot hotArr coldArr hh offset size hlim rev hdesc fracs
    hok hmax hn hsome hans
  have hp : p = false := h2.mpr hall
  subst hp
  have hfilter : ((List.range hot.length).filter fun s =>
      ((hot[s]?).map fun calls => (searchShard calls).isOk).getD false) = List.range hot.length := by
    apply List.filter_eq_self.mpr
    intro s hs
    have hlt := List.mem_range.mp hs
    rw [List.getElem?_eq_getElem hlt]
    simp only [Option.map_some, Option.getD_some]
    exact hall _ (List.getElem_mem hlt)
  rw [hfilter] at h3
  exact ⟨ids, t, e, h1, h3, h4⟩

/-! ## fetch side -/

/-- **C16 (documents aligned).**  For every ID list and every family of per-source streams (missing, truncated,
erroring - a stream is the list of documents delivered before its first error -, reordered, repeated, unrequested
documents, any number of streams in any order): the merged iterator panics (the proxy's recover interceptor turns
that into an error) or yields exactly `|ids|` items, the i-th carrying the i-th ID and source and either no bytes
or a document some stream delivered under that very ID and source. -/
theorem c16_docs_aligned (ids : List IDS) (streams : List (List Doc)) :
    match mergedDocs ids streams with
    | .panic => True
    | .nofuel => False
    | .val out =>
      out.length = ids.length ∧
      ∀ (i : Nat) (cur : IDS) (d : Doc), ids[i]? = some cur → out[i]? = some d →
        d.id = cur.id ∧ d.src = cur.src ∧ (d.data = 0 ∨ ∃ s ∈ streams, d ∈ s) := by
  have h := mergedDocsWith_spec (less ids) ids streams
  unfold mergedDocs
  cases hm : mergedDocsWith (less ids) ids streams with
  | panic => trivial
  | nofuel => exact h.1 hm
  | val out =>
    have ha := h.2 out hm
    exact ⟨ha.length, ha.get⟩

/-- **C16 (delivered => returned).**  IDs pairwise distinct (ID, source).  Take the i-th requested ID and a document
`x` carrying it that some stream delivers.  If in every stream every occurrence of `x` comes after nothing but
documents that are requested no later than position `i` or not requested at all (repeats of earlier documents,
unrequested documents - the store answers in request order as far as `x` is concerned), then - whatever the other
streams deliver, in whatever order the streams are merged, with or without hints - the iterator panics or its i-th
item is a document that was really delivered under that ID (never the synthesized empty one); in particular it is
non-empty when every delivered copy is.  This is what the fast-forward loop is for; it failed before 6801ca4. -/
theorem c16_docs_complete (ids : List IDS) (hnd : (ids.map IDS.strip).Nodup) (streams : List (List Doc))
    (i : Nat) (cur : IDS) (hi : ids[i]? = some cur) (x : Doc) (hx : x.id = cur.id ∧ x.src = cur.src)
    (hin : ∃ s ∈ streams, x ∈ s)
    (hord : ∀ s ∈ streams, ∀ l1 l2, s = l1 ++ x :: l2 → ∀ y ∈ l1, ∀ q, pos ids y.key = some q → q ≤ i) :
    match mergedDocs ids streams with
    | .panic => True
    | .nofuel => False
    | .val out =>
      ∃ d, out[i]? = some d ∧ d.id = cur.id ∧ d.src = cur.src ∧ (∃ s ∈ streams, d ∈ s) ∧
        ((∀ s ∈ streams, ∀ y ∈ s, y.id = cur.id → y.src = cur.src → y.data ≠ 0) → d.data ≠ 0) := by
  have hal := c16_docs_aligned ids streams
  cases hm : mergedDocs ids streams with
  | panic => trivial
  | nofuel => rw [hm] at hal; exact hal
  | val out =>
    rw [hm] at hal
    simp only
    have hlt : i < out.length := by
      rw [hal.1]
      rcases Nat.lt_or_ge i ids.length with h' | h'
      · exact h'
      · rw [List.getElem?_eq_none h'] at hi; cases hi
    have hget : out[i]? = some out[i] := List.getElem?_eq_getElem hlt
    obtain ⟨a, b, _⟩ := hal.2 i cur out[i] hi hget
    have hkey : x.key = cur.strip := by simp [Doc.key, IDS.strip, hx.1, hx.2]
    have hpos : pos ids x.key = some i := by rw [hkey]; exact pos_of_getElem ids hnd i cur hi
    have hdel := mergedDocs_complete ids hnd streams i x hpos hord hin out hm out[i] hget
    refine ⟨out[i], hget, a, b, hdel, ?_⟩
    intro hne
    obtain ⟨s, hs, hd⟩ := hdel
    exact hne s hs _ hd a b

/-- the same through `FetchDocsStream`: the bytes of the i-th item are empty or were received from the store the
i-th ID names, in a block carrying that ID (`grpcStreamIterator` stamps its own source on what it receives) -/
theorem c16_fetch_aligned (ids : List IDS) (order : List Nat) (behav : Nat → Option (List Ev)) :
    match fetchDocsStream ids order behav with
    | none => True                       -- "all shards requests failed"
    | some .panic => True
    | some .nofuel => False
    | some (.val out) =>
      out.length = ids.length ∧
      ∀ (i : Nat) (cur : IDS) (d : Doc), ids[i]? = some cur → out[i]? = some d →
        d.id = cur.id ∧ d.src = cur.src ∧
          (d.data = 0 ∨ ∃ evs, behav cur.src = some evs ∧ Ev.doc cur.id d.data ∈ evs) := by
  unfold fetchDocsStream
  simp only
  by_cases hcond : ((order.filterMap fun s => (behav s).map fun evs =>
      (grpcIter s (groupBySource ids s).length 0 evs).1).isEmpty && !order.isEmpty) = true
  · rw [if_pos hcond]; trivial
  · rw [if_neg hcond]
    have h := c16_docs_aligned ids
      (order.filterMap fun s => (behav s).map fun evs => (grpcIter s (groupBySource ids s).length 0 evs).1)
    cases hm : mergedDocs ids
      (order.filterMap fun s => (behav s).map fun evs => (grpcIter s (groupBySource ids s).length 0 evs).1) with
    | panic => trivial
    | nofuel => rw [hm] at h; exact h
    | val out =>
      rw [hm] at h
      refine ⟨h.1, ?_⟩
      intro i cur d h1 h2
      obtain ⟨a, b, c⟩ := h.2 i cur d h1 h2
      refine ⟨a, b, ?_⟩
      rcases c with c | ⟨s, hs, hd⟩
      · exact Or.inl c
      · right
        obtain ⟨src, _, hsrc⟩ := List.mem_filterMap.mp hs
        cases hb : behav src with
        | none => rw [hb] at hsrc; simp at hsrc
        | some evs =>
          rw [hb] at hsrc
          simp only [Option.map_some, Option.some.injEq] at hsrc
          subst hsrc
          have := grpcIter_mem _ _ _ _ _ hd
          rw [this.1] at b
          refine ⟨evs, by rw [← b]; exact hb, ?_⟩
          rw [← a]; exact this.2

/-- **C16 (end to end).**  A successful `Search` with fetch returns no documents (nothing to fetch) or exactly one
item per returned ID, the i-th with the i-th ID and bytes that are empty or were received from the store that
returned that ID, in a block carrying that ID. -/
theorem c16_response_aligned (hot cold : List (Nat × ShardRes)) (offset size : Nat) (rev : Bool) (hint : Nat)
    (shouldFetch : Bool) (order : List Nat) (behav : Nat → Option (List Ev))
    (ids : List (ProxySearch.ID × Src)) (t e : Nat) (p c : Bool) (docs : List Doc)
    (h : searchAndFetch hot cold offset size rev hint shouldFetch order behav = .ok ids t e p c docs) :
    docs = [] ∨
    (docs.length = ids.length ∧
      ∀ (i : Nat) (x : ProxySearch.ID × Src) (d : Doc), ids[i]? = some x → docs[i]? = some d →
        d.id = x.1 ∧ d.src = srcNat c x.2 ∧
          (d.data = 0 ∨ ∃ evs, behav (srcNat c x.2) = some evs ∧ Ev.doc x.1 d.data ∈ evs)) := by
  unfold searchAndFetch at h
  cases hs : search hot cold offset size rev with
  | err k => rw [hs] at h; cases h
  | panic => rw [hs] at h; cases h
  | ok ids' t' e' p' c' =>
    rw [hs] at h
    simp only at h
    split at h
    · have hf := c16_fetch_aligned (ids'.map (toIDS c' hint)) order behav
      cases hfd : fetchDocsStream (ids'.map (toIDS c' hint)) order behav with
      | none => rw [hfd] at h; cases h
      | some r =>
        rw [hfd] at h hf
        cases r with
        | panic => cases h
        | nofuel => cases h
        | val out =>
          simp only at h hf
          injection h with h1 h2 h3 h4 h5 h6
          subst h1 h2 h3 h4 h5 h6
          right
          refine ⟨by simpa using hf.1, ?_⟩
          intro i x d hx hd
          have := hf.2 i (toIDS c' hint x) d (by simp [hx]) hd
          simpa [toIDS] using this
    · injection h with h1 h2 h3 h4 h5 h6
      exact Or.inl h6.symm

/-- **C16 (what the client sees).**  `proxyapi`'s Search presents a result as complete (error code NO, partial flag
off) only if every shard of the consulted tier had an answering replica and none of the answering stores reported
an internal error; it then carries one document slot per ID. -/
theorem c16_api_honest (hot cold : List (List Call)) (hotArr coldArr : List (Nat × ShardRes))
    (hh : hotArr.Perm (indexed 0 (hot.map searchShard))) (hc : coldArr.Perm (indexed 0 (cold.map searchShard)))
    (offset size : Nat) (rev : Bool) (hint : Nat) (order : List Nat) (behav : Nat → Option (List Ev))
    (ids : List ProxySearch.ID) (docs : List Nat) (total : Nat)
    (h : api (searchAndFetch hotArr coldArr offset size rev hint true order behav) = .resp ids docs false total) :
    (∃ tier, (tier = hot ∨ tier = cold) ∧ ∀ calls ∈ tier, ∃ rep l t, searchShard calls = .ok rep l t 0) ∧
      docs.length = ids.length := by
  have hlen : ∀ (n : Nat) (ds : List Doc), (protoDocs n ds).length = n := by
    intro n
    induction n with
    | zero => intro ds; simp [protoDocs]
    | succ n ih => intro ds; cases ds <;> simp [protoDocs, ih]
  cases hf : searchAndFetch hotArr coldArr offset size rev hint true order behav with
  | err k => rw [hf] at h; cases k <;> simp [api] at h
  | panic => rw [hf] at h; simp [api] at h
  | fetchErr => rw [hf] at h; simp [api] at h
  | ok ids' t e p c docs' =>
    rw [hf] at h
    simp only [api] at h
    have hsearch : search hotArr coldArr offset size rev = .ok ids' t e p c := by
      unfold searchAndFetch at hf
      cases hs : search hotArr coldArr offset size rev with
      | err k => rw [hs] at hf; cases hf
      | panic => rw [hs] at hf; cases hf
      | ok a b c' d e' =>
        rw [hs] at hf
        simp only at hf
        split at hf
        · split at hf <;> cases hf <;> rfl
        · cases hf; rfl
    have hon := c16_outcome hot cold hotArr coldArr hh hc offset size rev
    rw [hsearch] at hon
    cases p with
    | true => simp at h
    | false =>
      simp only [Bool.false_eq_true, if_false] at h
      split at h
      · cases h
      · rename_i hne
        injection h with h1 h2 h3 h4
        have he : e = 0 := by omega
        subst he
        refine ⟨⟨if c = true then cold else hot, by cases c <;> simp, ?_⟩, by rw [← h2, ← h1]; simp [hlen]⟩
        intro calls hcalls
        have hok := hon.2.2.1.mp rfl calls hcalls
        cases hr : searchShard calls with
        | ok rep l t' e' =>
          have := hon.2.2.2.2.1 rfl calls hcalls rep l t' e' hr
          subst this
          exact ⟨rep, l, t', rfl⟩
        | _ => rw [hr] at hok; simp [ShardRes.isOk] at hok

/-- `makeProtoDocs` is a map over the ID list: whatever the document stream does - ends early, errors, is cut by a
deadline - the response has exactly one slot per ID -/
theorem c16_protodocs_length (n : Nat) (ds : List Doc) : (protoDocs n ds).length = n := by
  induction n generalizing ds with
  | zero => simp [protoDocs]
  | succ n ih => cases ds <;> simp [protoDocs, ih]

/-- **C16 (the response lists every returned ID).**  For every outcome of `Search` + fetch - including a request
context that is done after any number `k` of document reads (`searchAndFetchC`, e.g. the proxy's SearchTimeout firing
during the fetch phase) - a response of the Search handler carries as many Documents as IDs: the IDs (which travel only
in `Docs`) are never cut short; what could not be read is an empty document. -/
theorem c16_api_lists_every_id (hot cold : List (Nat × ShardRes)) (offset size : Nat) (rev : Bool) (hint : Nat)
    (order : List Nat) (behav : Nat → Option (List Ev)) (cancelAfter : Option Nat)
    (ids : List ProxySearch.ID) (docs : List Nat) (p : Bool) (total : Nat)
    (h : api (searchAndFetchC hot cold offset size rev hint true order behav cancelAfter) = .resp ids docs p total) :
    docs.length = ids.length := by
  cases hf : searchAndFetchC hot cold offset size rev hint true order behav cancelAfter with
  | err k => rw [hf] at h; cases k <;> simp [api] at h
  | panic => rw [hf] at h; simp [api] at h
  | fetchErr => rw [hf] at h; simp [api] at h
  | ok ids' t e p' c docs' =>
    rw [hf] at h
    simp only [api] at h
    split at h
    · injection h with h1 h2 _ _
      rw [← h1, ← h2]; simp [c16_protodocs_length]
    · split at h
      · cases h
      · injection h with h1 h2 _ _
        rw [← h1, ← h2]; simp [c16_protodocs_length]

/-- **C16 (over the wire a panic is an error).**  Behind the proxy's recover interceptor no response is a success when the
handler panicked (wrapped `Offset+Size`, two stores delivering unrequested documents at once, a shard without replicas):
the client receives `codes.Internal`; every other answer passes unchanged. -/
theorem c16_wire_panic_is_error (a : ApiOut) :
    (a = .panic → overWire a = .status false) ∧ overWire a ≠ .panic ∧ (a ≠ .panic → overWire a = a) := by
  cases a <;> simp [overWire]

open SV.ProxyApi in
/-- **C16 (Export, aligned).**  `Export` takes the `Id` of what it sends from the document itself; whatever the stores
do, what it sends is exactly the document list of `Search` (one per returned ID, in order - `c16_response_aligned`),
i.e. the i-th sent pair carries the i-th returned ID and bytes that are empty or were received from the store that
returned that ID, under that ID. -/
theorem c16_export_aligned (b : Bool) (hot cold : List (Nat × ShardRes)) (offset size : Nat) (hint : Nat)
    (order : List Nat) (behav : Nat → Option (List Ev)) (sent : List (ProxySearch.ID × Nat)) (e : Bool)
    (h : apiExport b (searchAndFetch hot cold offset size false hint true order behav) = .stream sent e) :
    ∃ ids t n p c docs, searchAndFetch hot cold offset size false hint true order behav = .ok ids t n p c docs ∧
      sent = docs.map (fun d => (d.id, d.data)) ∧
      (docs = [] ∨ (sent.length = ids.length ∧
        ∀ (i : Nat) (x : ProxySearch.ID × Src) (d : ProxySearch.ID × Nat), ids[i]? = some x → sent[i]? = some d →
          d.1 = x.1 ∧ (d.2 = 0 ∨ ∃ evs, behav (srcNat c x.2) = some evs ∧ Ev.doc x.1 d.2 ∈ evs))) := by
  cases hf : searchAndFetch hot cold offset size false hint true order behav with
  | err k => rw [hf] at h; cases k <;> simp [apiExport] at h
  | panic => rw [hf] at h; simp [apiExport] at h
  | fetchErr => rw [hf] at h; simp [apiExport] at h
  | ok ids t n p c docs =>
    rw [hf] at h
    have hsent : sent = docs.map (fun d => (d.id, d.data)) := by
      simp only [apiExport] at h
      split at h
      · injection h with h1 _; exact h1.symm
      · split at h
        · cases h
        · injection h with h1 _; exact h1.symm
    refine ⟨ids, t, n, p, c, docs, rfl, hsent, ?_⟩
    rcases c16_response_aligned hot cold offset size false hint true order behav ids t n p c docs hf with h0 | ⟨hl, hp⟩
    · exact Or.inl h0
    · right
      refine ⟨by rw [hsent]; simpa using hl, ?_⟩
      intro i x d hx hd
      rw [hsent, List.getElem?_map] at hd
      cases hdi : docs[i]? with
      | none => rw [hdi] at hd; cases hd
      | some d0 =>
        rw [hdi] at hd
        simp only [Option.map_some, Option.some.injEq] at hd
        subst hd
        obtain ⟨a, _, c'⟩ := hp i x d0 hx hdi
        exact ⟨a, c'⟩

open SV.ProxyApi in
/-- **C16 (Export, honest) - for the handler that reports a partial result** (`reportsPartial = true`, the behaviour
of fixes/C16-export-partial.patch; the obligation `c16_x_export_reports_partial` ties it to the source): an export
that ends with status OK means every shard of the consulted tier answered and no answering store reported an error. -/
theorem c16_export_honest (hot cold : List (List Call)) (hotArr coldArr : List (Nat × ShardRes))
    (hh : hotArr.Perm (indexed 0 (hot.map searchShard))) (hc : coldArr.Perm (indexed 0 (cold.map searchShard)))
    (offset size : Nat) (hint : Nat) (order : List Nat) (behav : Nat → Option (List Ev))
    (sent : List (ProxySearch.ID × Nat))
    (h : apiExport true (searchAndFetch hotArr coldArr offset size false hint true order behav) = .stream sent false) :
    ∃ tier, (tier = hot ∨ tier = cold) ∧ ∀ calls ∈ tier, ∃ rep l t, searchShard calls = .ok rep l t 0 := by
  have hapi : ∃ ids docs total,
      api (searchAndFetch hotArr coldArr offset size false hint true order behav) = .resp ids docs false total := by
    cases hf : searchAndFetch hotArr coldArr offset size false hint true order behav with
    | err k => rw [hf] at h; cases k <;> simp [apiExport] at h
    | panic => rw [hf] at h; simp [apiExport] at h
    | fetchErr => rw [hf] at h; simp [apiExport] at h
    | ok ids t n p c docs =>
      rw [hf] at h
      simp only [apiExport] at h
      simp only [api]
      cases p with
      | true => simp at h
      | false =>
        simp only [Bool.false_eq_true, if_false] at h ⊢
        split at h
        · cases h
        · rename_i hn; rw [if_neg hn]; exact ⟨_, _, _, rfl⟩
  obtain ⟨ids, docs, total, hapi⟩ := hapi
  exact (c16_api_honest hot cold hotArr coldArr hh hc offset size false hint order behav ids docs total hapi).1

open SV.ProxyApi in
/-- **the defect found at the API boundary** (open until fixes/C16-export-partial.patch lands): the handler as it is
(`reportsPartial = false`) streams the documents of a result that `doSearch` flagged partial - hot shard 0 silent,
shard 1 answering - and ends with status OK; `ExportResponse` has no flag, so the client takes it for complete. -/
theorem c16_export_partial_witness :
    searchAndFetch [(0, searchShard [.fail]), (1, searchShard [.resp .none [(8, 2)] 1 0])] [] 0 3 false 0 true [100]
        (fun _ => some [.doc (8, 2) 5]) = .ok [((8, 2), (1, 0))] 1 0 true false [⟨(8, 2), 100, 5⟩] ∧
    apiExport false (.ok [((8, 2), (1, 0))] 1 0 true false [⟨(8, 2), 100, 5⟩]) = .stream [((8, 2), 5)] false ∧
    apiExport true (.ok [((8, 2), (1, 0))] 1 0 true false [⟨(8, 2), 100, 5⟩]) = .stream [((8, 2), 5)] true := by
  refine ⟨by decide, by decide, by decide⟩

/-- with `ShouldFetch` a successful `Search` hands back exactly one document per returned ID (also for the empty result) -/
theorem c16_fetched_length (hot cold : List (Nat × ShardRes)) (offset size : Nat) (rev : Bool) (hint : Nat)
    (order : List Nat) (behav : Nat → Option (List Ev))
    (ids : List (ProxySearch.ID × Src)) (t e : Nat) (p c : Bool) (docs : List Doc)
    (h : searchAndFetch hot cold offset size rev hint true order behav = .ok ids t e p c docs) :
    docs.length = ids.length := by
  rcases c16_response_aligned hot cold offset size rev hint true order behav ids t e p c docs h with h0 | ⟨hl, _⟩
  · subst h0
    unfold searchAndFetch at h
    cases hs : search hot cold offset size rev with
    | err k => rw [hs] at h; cases h
    | panic => rw [hs] at h; cases h
    | ok ids' t' e' p' c' =>
      rw [hs] at h
      simp only at h
      split at h
      · have hf := c16_fetch_aligned (ids'.map (toIDS c' hint)) order behav
        cases hfd : fetchDocsStream (ids'.map (toIDS c' hint)) order behav with
        | none => rw [hfd] at h; cases h
        | some r =>
          rw [hfd] at h hf
          cases r with
          | panic => cases h
          | nofuel => cases h
          | val out =>
            simp only at h hf
            injection h with h1 h2 h3 h4 h5 h6
            subst h1 h6
            have h7 := hf.1
            simp only [List.length_map, List.length_nil] at h7
            rw [List.length_nil]; omega
      · rename_i hne
        injection h with h1 _ _ _ _ _
        subst h1
        cases ids' with
        | nil => rfl
        | cons a l => simp at hne
  · exact hl

open SV.ProxyApi in
/-- **C16 (an export that ends OK lists every returned ID).**  `Export` hands `doSearch` the export context itself
(`usesExportCtx = true`; the obligation `c16_x_export_search_ctx` ties this to the source), so whenever the proxy's
`SearchTimeout` elapses during the streaming phase (`searchTimeoutAfter`, any value) the document stream is not cut:
a stream that ends with status OK carries exactly one item per ID `Search` returned - never a silent prefix. -/
theorem c16_export_lists_every_id (b : Bool) (hot cold : List (Nat × ShardRes)) (offset size : Nat) (hint : Nat)
    (order : List Nat) (behav : Nat → Option (List Ev)) (searchTimeoutAfter : Option Nat)
    (sent : List (ProxySearch.ID × Nat)) (e : Bool)
    (h : apiExportCtx true b hot cold offset size hint order behav searchTimeoutAfter = .stream sent e) :
    ∃ ids t n p c docs, searchAndFetch hot cold offset size false hint true order behav = .ok ids t n p c docs ∧
      sent.map (·.1) = ids.map (·.1) := by
  have h' : apiExport b (searchAndFetch hot cold offset size false hint true order behav) = .stream sent e := by
    simpa [apiExportCtx, exportCancel, searchAndFetchC] using h
  obtain ⟨ids, t, n, p, c, docs, hf, hsent, hal⟩ := c16_export_aligned b hot cold offset size hint order behav sent e h'
  refine ⟨ids, t, n, p, c, docs, hf, ?_⟩
  have hlen := c16_fetched_length hot cold offset size false hint order behav ids t n p c docs hf
  rcases hal with h0 | ⟨hl, hp⟩
  · subst h0
    have : ids = [] := by cases ids with
      | nil => rfl
      | cons a l => simp at hlen
    subst this; subst hsent; rfl
  · apply List.ext_getElem?
    intro i
    rw [List.getElem?_map, List.getElem?_map]
    cases hs : sent[i]? with
    | none =>
      have : sent.length ≤ i := List.getElem?_eq_none_iff.mp hs
      rw [List.getElem?_eq_none_iff.mpr (by omega)]; rfl
    | some d =>
      have hi : i < ids.length := by
        have := (List.getElem?_eq_some_iff.mp hs).1; omega
      have hx : ids[i]? = some ids[i] := List.getElem?_eq_getElem hi
      rw [hx]
      simp only [Option.map_some, Option.some.injEq]
      exact (hp i ids[i] d hx hs).1

open SV.ProxyApi in
/-- the rejected variant (`usesExportCtx = false`: the search phase - and with it the lazily read document stream - under a
child context bounded by `SearchTimeout`): two IDs returned, the timeout elapses after the first document, the stream
ends with status OK after that single document - an incomplete export presented as complete -/
theorem c16_export_search_ctx_witness :
    apiExportCtx false true [(0, searchShard [.resp .none [(9, 1), (5, 1)] 2 0])] [] 0 5 0 [0]
        (fun _ => some [.doc (9, 1) 3, .doc (5, 1) 4]) (some 1) = .stream [((9, 1), 3)] false ∧
    apiExportCtx true true [(0, searchShard [.resp .none [(9, 1), (5, 1)] 2 0])] [] 0 5 0 [0]
        (fun _ => some [.doc (9, 1) 3, .doc (5, 1) 4]) (some 1) = .stream [((9, 1), 3), ((5, 1), 4)] false := by
  refine ⟨by decide, by decide⟩

open SV.ProxyApi in
/-- **C16 (the stores are asked for the whole page).**  The request a store receives carries the API request's `Size`
and `Offset` unchanged (`c16_x_store_request_unchanged`), so the store's limit is `offset + size` - the limit the link
hypothesis `hans` of `c16_c05_compose` / `c16_e2e_spec` demands of every answering shard -, whatever
`conf.MaxRequestedDocuments` is. -/
theorem c16_store_request_limit (offset size : Nat) :
    (storeRequest offset size).limit = offset + size ∧ (storeRequest offset size).size = size ∧
      (storeRequest offset size).offset = offset := by
  simp [storeRequest, StoreReq.limit, Nat.add_comm]

open SV.ProxyApi in
/-- honest stores (each answers with its newest `limit` IDs) asked with the real request: the page is the top of the merged
truth; asked with a per-store clamp (cap 2, page of 4): shard 0's surplus never arrives and older IDs of shard 1 fill the
page - every shard answered, nothing is flagged, the result has a hole -/
theorem c16_clamp_witness :
    let a : List ProxySearch.ID := [(9, 1), (8, 1), (7, 1), (6, 1)]
    let b : List ProxySearch.ID := [(5, 2), (4, 2), (3, 2)]
    search (indexed 0 ([[storeAnswer a (storeRequest 0 4)], [storeAnswer b (storeRequest 0 4)]].map searchShard)) [] 0 4 false
      = .ok [((9, 1), (0, 0)), ((8, 1), (0, 0)), ((7, 1), (0, 0)), ((6, 1), (0, 0))] 7 0 false false ∧
    search (indexed 0 ([[storeAnswer a (storeRequestClamped 2 0 4)], [storeAnswer b (storeRequestClamped 2 0 4)]].map searchShard)) [] 0 4 false
      = .ok [((9, 1), (0, 0)), ((8, 1), (0, 0)), ((5, 2), (1, 0)), ((4, 2), (1, 0))] 7 0 false false := by
  refine ⟨by decide, by decide⟩

open SV.ProxyApi in
/-- **C16 (Fetch).**  `Fetch` (every ID asked from every store, runs of equal IDs collapsed, `Id` taken from the
document): the handler fails / panics, or sends one item per run of equal requested IDs - exactly the request, in
order, when the requested IDs are distinct and there is a store -, each item carrying bytes that are empty or were
received from some store in a block with that very ID. -/
theorem c16_fetch_api (orig : List ProxySearch.ID) (srcs order : List Nat) (behav : Nat → Option (List Ev))
    (l : List (ProxySearch.ID × Nat)) (h : apiFetch orig srcs order behav = .docs l) :
    l.map (·.1) = collapse ((expand orig srcs).map (·.id)) ∧
    (orig.Nodup → srcs ≠ [] → l.map (·.1) = orig) ∧
    (∀ d ∈ l, d.2 = 0 ∨ ∃ s evs, behav s = some evs ∧ Ev.doc d.1 d.2 ∈ evs) := by
  unfold apiFetch at h
  have hal := c16_fetch_aligned (expand orig srcs) order behav
  cases hf : fetchDocsStream (expand orig srcs) order behav with
  | none => rw [hf] at h; cases h
  | some r =>
    rw [hf] at h hal
    cases r with
    | panic => cases h
    | nofuel => cases h
    | val out =>
      simp only at h hal
      injection h with h
      subst h
      have hids : out.map (·.id) = (expand orig srcs).map (·.id) :=
        ids_of_pointwise _ _ hal.1 (fun i cur d h1 h2 => (hal.2 i cur d h1 h2).1)
      have h1 : ((uniq out).map fun d => (d.id, d.data)).map (·.1) = collapse ((expand orig srcs).map (·.id)) := by
        rw [List.map_map, ← hids, ← uniq_ids]; rfl
      refine ⟨h1, fun hnd hs => by rw [h1, collapse_expand orig srcs hnd hs], ?_⟩
      intro d hd
      obtain ⟨d0, hd0, rfl⟩ := List.mem_map.mp hd
      have hin := uniq_mem out d0 hd0
      obtain ⟨i, hi⟩ := List.getElem?_of_mem hin
      have hlt : i < (expand orig srcs).length := by
        rw [← hal.1]
        rcases Nat.lt_or_ge i out.length with h' | h'
        · exact h'
        · rw [List.getElem?_eq_none h'] at hi; cases hi
      obtain ⟨a, b, c⟩ := hal.2 i _ d0 (List.getElem?_eq_getElem hlt) hi
      rcases c with c | ⟨evs, hb, he⟩
      · exact Or.inl c
      · exact Or.inr ⟨_, evs, hb, by simpa [a] using he⟩

/-- `uniqueIDIterator` (the `Documents` path): one item per run of equal IDs, each item is one the inner iterator
yielded, and a run that contains a non-empty document is represented by a non-empty one -/
theorem c16_unique (l : List Doc) :
    (uniq l).map (·.id) = collapse (l.map (·.id)) ∧ (∀ d ∈ uniq l, d ∈ l) ∧
      ((∃ x ∈ l, x.isEmpty = false) → ∃ d ∈ uniq l, d.isEmpty = false) := by
  refine ⟨uniq_ids l, uniq_mem l, ?_⟩
  rintro ⟨x, hx, hxe⟩
  cases l with
  | nil => simp at hx
  | cons y ys =>
    simp only [uniq]
    apply uniqGo_nonempty
    rcases List.mem_cons.mp hx with h | h
    · subst h; exact Or.inl hxe
    · exact Or.inr ⟨x, h, hxe⟩

/-! ## the defect found by this property (fixed in /repo by 6801ca4), kept as a witness -/

/-- Before the fix the comparison looked its arguments up *with* their hints while the positions were keyed
without: for IDs carrying a hint (always, in production) a repeated document froze the iterator and the documents
after it came out empty although their store had delivered them ... -/
theorem c16_hint_defect_witness :
    mergedDocsWith (lessOld [⟨(5, 1), 0, 7⟩, ⟨(4, 1), 0, 7⟩]) [⟨(5, 1), 0, 7⟩, ⟨(4, 1), 0, 7⟩]
        [[⟨(5, 1), 0, 50⟩, ⟨(5, 1), 0, 50⟩, ⟨(4, 1), 0, 40⟩]]
      = .val [⟨(5, 1), 0, 50⟩, ⟨(4, 1), 0, 0⟩] ∧
    -- ... and one unrequested document became a panic instead of being skipped
    mergedDocsWith (lessOld [⟨(5, 1), 0, 7⟩]) [⟨(5, 1), 0, 7⟩] [[⟨(9, 9), 0, 99⟩, ⟨(5, 1), 0, 50⟩]] = .panic := by
  decide

/-- with the fixed comparison both inputs give the intended answer -/
theorem c16_hint_fixed_witness :
    mergedDocs [⟨(5, 1), 0, 7⟩, ⟨(4, 1), 0, 7⟩] [[⟨(5, 1), 0, 50⟩, ⟨(5, 1), 0, 50⟩, ⟨(4, 1), 0, 40⟩]]
      = .val [⟨(5, 1), 0, 50⟩, ⟨(4, 1), 0, 40⟩] ∧
    mergedDocs [⟨(5, 1), 0, 7⟩] [[⟨(9, 9), 0, 99⟩, ⟨(5, 1), 0, 50⟩]] = .val [⟨(5, 1), 0, 50⟩] := by
  decide

/-! ## Obligations on facts re-extracted from /repo on every run -/

open SV.Extracted.C16

/-- every refusal code a store can put into a response ends `searchShard`'s replica loop with a return: no
response carrying a code is ever taken for data -/
theorem c16_x_codes_covered : shardSwitchCodes = storeErrorCodes ∧ storeErrorCodes.length = 3 := by decide

/-- the two error messages `searchShard` fails fast on, and the replica order without shuffling -/
theorem c16_x_shard_shape :
    shardErrMessageReturns = ["errMessage == consts.ErrIngestorQueryWantsOldData.Error()",
      "errMessage == consts.ErrTooManyUniqValues.Error()"] ∧
    shardReplicaOrders = ["util.IdxShuffle(len(hosts))", "util.IdxFill(len(hosts))"] := by decide

/-- `searchStores` ends at once exactly on wants-old-data and too-many-fractions, and turns collected errors into
ErrPartialResponse only when some shard delivered data -/
theorem c16_x_stores_shape :
    storesFailFast = ["errors.Is(err, consts.ErrIngestorQueryWantsOldData)", "errors.Is(err, consts.ErrTooManyFractionsHit)"] ∧
    storesPartialWhenData = true := by decide

/-- `Search` distinguishes wants-old-data (go to the read stores), partial (keep the result) and everything else -/
theorem c16_x_search_cases :
    searchErrCases = ["errors.Is(err, consts.ErrIngestorQueryWantsOldData)", "errors.Is(err, consts.ErrPartialResponse)", "default"] := by
  decide

/-- the comparison clears the hints of both arguments before looking them up (the fix), positions are keyed
without hints; the fast-forward loop and the not-found test are the modelled ones -/
theorem c16_x_less_and_ff :
    lessClearsHints = true ∧ positionsKeyedWithoutHint = true ∧
    ffCond = ["m.nextErr == nil && m.less(m.nextDoc.IDSource(), currentID) ; m.loadNextDoc()"] ∧
    notFoundCond = ["m.nextErr != nil || !currentID.Equal(m.nextDoc.IDSource())"] := by decide

/-- the API layer: too-many-fractions is parsed first, then partial, then `processSearchErrors`, which turns
store-reported errors of an otherwise clean answer into codes.Internal (the order `SV.ProxyRead.api` models) -/
theorem c16_x_api_shape :
    doSearchOrder = ["g.searchIngestor.Search", "parseProxyError", "errors.Is(err, consts.ErrPartialResponse)", "processSearchErrors"] ∧
    apiStoreErrorsCond = ["err == nil && len(qpr.Errors) > 0"] := by decide

/-- the source of a shard answer is looked up for the very host that was queried: `searchShard` asks `hosts[idx[i]]`
and takes `source` from `searchHost`, which returns `si.sourceByClient[host]` of its own `host` argument - the pairing
`searchShardP` models (the replica named in `.ok` is the one asked) -/
theorem c16_x_source_of_asked_host :
    shardHostAndSource = ["host := hosts[idx[i]]", "resp, source, err := si.searchHost(ctx, request, host)"] ∧
    searchHostReturns = ["return data, si.sourceByClient[host], nil"] := by decide

/-- the recover interceptors defer a closure that recovers and assigns the interceptor's NAMED result `err` (a deferred call
with `err` passed by value would recover and then return `(nil, nil)`: a panicking handler would look like an empty success) -/
theorem c16_x_recover_assigns_named_result :
    recoverDefers = ["RecoverUnaryInterceptor:closure-recovers-and-assigns-named-err",
      "RecoverStreamInterceptor:closure-recovers-and-assigns-named-err"] := by decide

/-- how the handlers pair IDs and documents: `makeProtoDocs` (Search / ComplexSearch) by position - `Id` from
`qpr.IDs[i]`, `Data` from the i-th `docs.Next()` whose error is ignored, and nothing leaves the loop early: one
Document per ID (`protoDocs`, `c16_api_lists_every_id`) -, `Export` and `Fetch` by the document's own ID -/
theorem c16_x_pairing :
    protoDocsPairing = ["range qpr.IDs", "doc.Id = id.ID.String()", "d, _ := docs.Next()", "doc.Data = d.Data"] ∧
    protoDocsLoopExits = [] ∧
    exportDocID = ["doc.ID.String()"] ∧ fetchDocID = ["doc.ID.String()"] := by decide

/-- `Export` closes the stream of a partial result with a status error (what `c16_export_honest` is about).
FAILS on a tree without fixes/C16-export-partial.patch - see `c16_export_partial_witness`. -/
theorem c16_x_export_reports_partial : exportReportsPartial = true := by decide

/-- `Export` derives exactly one context - the export context, bounded by `ExportTimeout` - and hands that one to
`doSearch`: the lazily read document stream is not subject to the (shorter) `SearchTimeout` (`c16_export_lists_every_id`) -/
theorem c16_x_export_search_ctx :
    exportSearchCtx = ["ctx, cancel := context.WithTimeout(stream.Context(), g.config.ExportTimeout)", "g.doSearch(ctx, ...)"] := by
  decide

/-- `GetAPISearchRequest` is a single `return` of a literal whose `Size` / `Offset` / `Order` are the request's own:
nothing is clamped or dropped on the way to the stores (`ProxyApi.storeRequest`, `c16_store_request_limit`) -/
theorem c16_x_store_request_unchanged :
    storeRequestFields = ["statements=1", "Size: int64(sr.Size)", "Offset: int64(sr.Offset)",
      "Order: storeapi.MustProtoOrder(sr.Order)"] := by decide

/-! ## Non-vacuity -/

/-- 2 hot shards, shard 1 answers on its second replica, shard 0 on its first: complete, merged, paginated -/
example :
    search (indexed 0 ([[.resp .none [(9, 1), (5, 1)] 2 0], [.fail, .resp .none [(8, 2)] 1 0]].map searchShard)) [] 1 2 false
      = .ok [((8, 2), (1, 1)), ((5, 1), (0, 0))] 3 0 false false := by decide

/-- one shard silent: flagged partial; arrival order reversed -/
example :
    search [(1, searchShard [.fail, .fail]), (0, searchShard [.resp .none [(9, 1)] 1 0])] [] 0 5 false
      = .ok [((9, 1), (0, 0))] 1 0 true false := by decide

/-- a hot shard wants old data: the read stores answer, partially -/
example :
    search [(0, searchShard [.resp .none [(9, 1)] 1 0]), (1, searchShard [.resp .wod [] 0 0])]
        [(0, searchShard [.resp .none [(3, 1)] 1 0]), (1, searchShard [.fail])] 0 5 false
      = .ok [((3, 1), (0, 0))] 1 0 true true := by decide

/-- the hypotheses of `c16_old_data` are met by a concrete topology -/
example : (∃ calls ∈ [[Call.resp .none [(9, 1)] 1 0], [Call.fail, Call.failWod]], searchShard calls = .wod) ∧
    (∀ calls ∈ [[Call.resp .none [(9, 1)] 1 0], [Call.fail, Call.failWod]], searchShard calls ≠ .tmf ∧ calls ≠ []) := by
  decide

/-- the hypotheses of `c16_degrades` are met by a topology in which one shard answers on its second replica, one
is silent and one reports too-many-unique-values -/
example : ∀ calls ∈ [[Call.fail, Call.resp .none [(9, 1)] 1 0], [Call.fail, Call.fail], [Call.resp .tmu [] 0 0]],
    searchShard calls ≠ .wod ∧ searchShard calls ≠ .tmf ∧ calls ≠ [] := by decide

/-- the hypotheses of `c16_c05_compose` / `c16_c05_complete` are met by a concrete deployment: two shards, shard 0
answering on its second replica; descending order, page (0, 2); each replica's answer is `SearchDocs` of its fractions -/
example :
    let c : Merge.Cfg := ⟨true, false, 0, false, 0, 0⟩
    let hot : List (List Call) :=
      [[.fail, .resp .none [(30, 1), (20, 1)] 0 0], [.resp .none [(25, 0)] 0 0]]
    let fracs : Nat → Nat → List Merge.Frac := fun s _ =>
      if s = 0 then [⟨2, 10, 30, [Merge.key 30 1, Merge.key 20 1]⟩] else [⟨1, 5, 25, [Merge.key 25 0]⟩]
    let shardDocs : Nat → List Nat := fun s => if s = 0 then [Merge.key 30 1, Merge.key 20 1] else [Merge.key 25 0]
    (∀ calls ∈ hot, (searchShard calls).isOk = true) ∧
    (∀ s calls rep ids t e, hot[s]? = some calls → searchShard calls = .ok rep ids t e →
      (∀ i ∈ ids, i.2 < Merge.R) ∧
      ∃ q, Merge.searchDocs c (fracs s rep) 0 100 (0 + 2) = some q ∧ q.ids = ids.map ProxyCompose.keyOf) ∧
    (∀ s rep, ∀ f ∈ fracs s rep, Merge.FracInv f) ∧
    (∀ s rep, ∀ f ∈ fracs s rep, f.docs ≠ [] → Merge.isIntersecting f 0 100 = true) ∧
    (∀ s rep d, d ∈ Merge.docsOf (fracs s rep) ↔ d ∈ shardDocs s) := by
  intro c hot fracs shardDocs
  refine ⟨by decide, ?_, ?_, ?_, ?_⟩
  · intro s calls rep ids t e hs hok
    match s, hs with
    | 0, hs =>
      simp only [hot, List.getElem?_cons_zero, Option.some.injEq] at hs
      subst hs
      have : searchShard [Call.fail, Call.resp .none [(30, 1), (20, 1)] 0 0] = .ok 1 [(30, 1), (20, 1)] 0 0 := by decide
      rw [this] at hok
      injection hok with h1 h2 h3 h4
      subst h1 h2 h3 h4
      refine ⟨by decide, ⟨[Merge.key 30 1, Merge.key 20 1], 0, some []⟩, by decide +kernel, by decide⟩
    | 1, hs =>
      simp only [hot, List.getElem?_cons_succ, List.getElem?_cons_zero, Option.some.injEq] at hs
      subst hs
      have : searchShard [Call.resp .none [(25, 0)] 0 0] = .ok 0 [(25, 0)] 0 0 := by decide
      rw [this] at hok
      injection hok with h1 h2 h3 h4
      subst h1 h2 h3 h4
      refine ⟨by decide, ⟨[Merge.key 25 0], 0, some []⟩, by decide +kernel, by decide⟩
    | n + 2, hs => simp [hot] at hs
  · intro s rep f hf
    by_cases h0 : s = 0
    · simp only [fracs, h0, if_true, List.mem_singleton] at hf
      subst hf; intro d hd
      simp only [List.mem_cons, List.mem_nil_iff, or_false] at hd
      rcases hd with rfl | rfl <;> decide
    · simp only [fracs, h0, if_false, List.mem_singleton] at hf
      subst hf; intro d hd
      simp only [List.mem_cons, List.mem_nil_iff, or_false] at hd
      subst hd; decide
  · intro s rep f hf _
    by_cases h0 : s = 0
    · simp only [fracs, h0, if_true, List.mem_singleton] at hf; subst hf; decide
    · simp only [fracs, h0, if_false, List.mem_singleton] at hf; subst hf; decide
  · intro s rep d
    by_cases h0 : s = 0 <;> simp [fracs, shardDocs, h0, Merge.docsOf]

/-- the hypotheses of `c16_e2e_spec` / `c16_e2e_spec_complete` are met by a concrete deployment: one shard whose
replicas hold one well-formed fraction index (IDs 7:1, 7:0, 5:2, token a:x on LIDs 1 and 3), query `a:x`, window
[0, 100], newest first, page (0, 2); the first replica fails, the second answers what `SearchDocs` returns -/
example :
    let c : Merge.Cfg := ⟨true, false, 0, false, 0, 0⟩
    let q : Spec.Query := .leaf (.lit [97] [.text [120]])
    let fracs : Nat → List Merge.FracIdx := fun _ => [⟨⟨[⟨7, 1⟩, ⟨7, 0⟩, ⟨5, 2⟩], [⟨[97], [120], [1, 3]⟩]⟩, 5, 7⟩]
    let hot : List (List Call) := [[.fail, .resp .none [(7, 1), (5, 2)] 0 0]]
    (∀ s, ∀ f ∈ fracs s, f.OK 0) ∧
    (∀ s, c.maxHits = 0 ∨ (Merge.filterInRange (ProxyE2E.storeFracs (fracs s) q 0 100) 0 100).length ≤ c.maxHits) ∧
    (∀ calls ∈ hot, (searchShard calls).isOk = true) ∧
    (∀ s calls rep ids t e, hot[s]? = some calls → searchShard calls = .ok rep ids t e →
      (∀ i ∈ ids, i.2 < Merge.R) ∧
      ∃ r, Merge.searchDocs c (ProxyE2E.storeFracs (fracs s) q 0 100) 0 100 (0 + 2) = some r ∧
        r.ids = ids.map ProxyCompose.keyOf) := by
  intro c q fracs hot
  refine ⟨?_, fun _ => Or.inl rfl, by decide, ?_⟩
  · intro s f hf
    simp only [fracs, List.mem_singleton] at hf
    subst hf
    refine ⟨⟨?_, ?_⟩, ?_, ?_, Or.inr ?_, ?_⟩ <;> decide
  · intro s calls rep ids t e hs hok
    match s, hs with
    | 0, hs =>
      simp only [hot, List.getElem?_cons_zero, Option.some.injEq] at hs
      subst hs
      have : searchShard [Call.fail, Call.resp .none [(7, 1), (5, 2)] 0 0] = .ok 1 [(7, 1), (5, 2)] 0 0 := by decide
      rw [this] at hok
      injection hok with h1 h2 h3 h4
      subst h1 h2 h3 h4
      refine ⟨by decide, ⟨[(7, 1), (5, 2)].map ProxyCompose.keyOf, 0, some []⟩, by decide +kernel, rfl⟩
    | n + 1, hs => simp [hot] at hs

/-- Offset = MaxInt64, Size = 1: the shard answers, the `int` sum wraps, `MergeQPRs` panics -/
example : search [(0, searchShard [.resp .none [(9, 1)] 1 0])] [] 9223372036854775807 1 false = .panic := by decide

/-- Offset = 2^62, Size = MaxInt32: no wrap, an empty complete page -/
example : search [(0, searchShard [.resp .none [(9, 1)] 1 0])] [] 4611686018427387904 2147483647 false
    = .ok [] 1 0 false false := by decide

/-- three sources, one stream truncated, one carrying an unrequested and a repeated document, hints present -/
example :
    mergedDocs [⟨(9, 1), 0, 7⟩, ⟨(8, 1), 1, 7⟩, ⟨(7, 1), 2, 7⟩, ⟨(6, 1), 0, 7⟩, ⟨(5, 1), 1, 7⟩]
        [[⟨(9, 1), 0, 90⟩, ⟨(9, 1), 0, 90⟩, ⟨(6, 1), 0, 60⟩], [⟨(8, 1), 1, 80⟩], [⟨(1, 1), 2, 10⟩, ⟨(7, 1), 2, 70⟩]]
      = .val [⟨(9, 1), 0, 90⟩, ⟨(8, 1), 1, 80⟩, ⟨(7, 1), 2, 70⟩, ⟨(6, 1), 0, 60⟩, ⟨(5, 1), 1, 0⟩] := by decide

/-- the hypotheses of `c16_docs_complete` are met by the stream of the example above for its 4th ID (6.1 from
source 0, delivered after a repeated earlier document) -/
example :
    let ids : List IDS := [⟨(9, 1), 0, 7⟩, ⟨(8, 1), 1, 7⟩, ⟨(7, 1), 2, 7⟩, ⟨(6, 1), 0, 7⟩, ⟨(5, 1), 1, 7⟩]
    let streams : List (List Doc) :=
      [[⟨(9, 1), 0, 90⟩, ⟨(9, 1), 0, 90⟩, ⟨(6, 1), 0, 60⟩], [⟨(8, 1), 1, 80⟩], [⟨(1, 1), 2, 10⟩, ⟨(7, 1), 2, 70⟩]]
    (ids.map IDS.strip).Nodup ∧ ids[3]? = some ⟨(6, 1), 0, 7⟩ ∧
    ∀ s ∈ streams, ∀ l1 l2, s = l1 ++ (⟨(6, 1), 0, 60⟩ : Doc) :: l2 → ∀ y ∈ l1, ∀ q, pos ids y.key = some q → q ≤ 3 := by
  refine ⟨by decide, by decide, ?_⟩
  intro s hs l1 l2 h y hy q hq
  have hys : y ∈ s := by rw [h]; exact List.mem_append_left _ hy
  have hall : ∀ t ∈ ([[⟨(9, 1), 0, 90⟩, ⟨(9, 1), 0, 90⟩, ⟨(6, 1), 0, 60⟩], [⟨(8, 1), 1, 80⟩],
      [⟨(1, 1), 2, 10⟩, ⟨(7, 1), 2, 70⟩]] : List (List Doc)), ∀ z ∈ t,
      ∀ q, pos [⟨(9, 1), 0, 7⟩, ⟨(8, 1), 1, 7⟩, ⟨(7, 1), 2, 7⟩, ⟨(6, 1), 0, 7⟩, ⟨(5, 1), 1, 7⟩] z.key = some q → q ≤ 3 := by
    decide
  exact hall s hs y hys q hq

/-- two stores delivering unrequested documents at the same time: the documented panic -/
example : mergedDocs [⟨(9, 1), 0, 0⟩, ⟨(8, 1), 1, 0⟩] [[⟨(1, 1), 0, 1⟩], [⟨(2, 2), 1, 1⟩]] = .panic := by decide

end SV.Props.C16
