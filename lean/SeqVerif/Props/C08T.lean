import SeqVerif.Model.SealOps
import SeqVerif.Extracted.C08T
/-!
# C08 - the registry entry of a sealed index block = mechanical translation of `disk/index_block_header.go`

`SV.Extracted.C08.T` is produced by `extract/cmd/c08t` (translator `extract/xlate`, prelude `Base/GoInt.lean`).
`SealOps` counts the writes of `WriteBlock` / `WriteBlocksRegistry` and treats a registry entry as the record
(codec, length, raw length, ext1, ext2, position) of the written block; here the 33 bytes that record becomes are
derived from the code: `NewIndexBlockHeader` lays it out as `C : LLLL : RRRR : EEEEEEEE : EEEEEEEE : PPPPPPPP`
(little endian) without any panic, and the accessors read every field back - so the loader (`C03`, `C15`) sees
exactly what sealing recorded.
-/
namespace SV.Props.C08
open SV.Go
open SV.Extracted.C08

/-- the record a registry entry stands for -/
structure Entry where
  codec : Nat
  len : Nat
  rawLen : Nat
  ext1 : Nat
  ext2 : Nat
  pos : Nat

/-- its 33 bytes in file order (docs/format-index-file.md) -/
def Entry.bytes (e : Entry) : List Nat :=
  [e.codec] ++ leBytesN 4 e.len ++ leBytesN 4 e.rawLen ++ leBytesN 8 e.ext1 ++ leBytesN 8 e.ext2 ++ leBytesN 8 e.pos

private theorem put_at (k : Nat) (b : List Nat) (off v : Nat) (h : off + k ≤ b.length) :
    (if ¬ ((0 : Int) ≤ (off : Int) ∧ (off : Int) + (k : Int) ≤ len (ints b) ∧ len (ints b) ≤ len (ints b)) then none else
      some (lePut k (ints b) off v)) = some (ints (b.take off ++ leBytesN k v ++ b.drop (off + k))) := by
  have hl := len_ints b
  have g1 : ¬ ¬ ((0 : Int) ≤ (off : Int) ∧ (off : Int) + (k : Int) ≤ len (ints b) ∧ len (ints b) ≤ len (ints b)) := by rw [hl]; omega
  rw [if_neg g1, lePut_ints]

private theorem read_at (k : Nat) (b : List Nat) (off : Nat) (h : off + k ≤ b.length) :
    (if ¬ ((0 : Int) ≤ (off : Int) ∧ (off : Int) ≤ len (ints b) ∧ len (ints b) ≤ len (ints b)) then none else
      if ¬ ((k : Int) ≤ len (slice (ints b) off (len (ints b)))) then none else
      some (leRead k (slice (ints b) off (len (ints b))))) = some ((leReadN k (b.drop off) : Nat) : Int) := by
  have hl := len_ints b
  have hs : slice (ints b) (off : Int) (len (ints b)) = ints (b.drop off) := by
    rw [hl, slice_ints]; simp
  have g1 : ¬ ¬ ((0 : Int) ≤ (off : Int) ∧ (off : Int) ≤ len (ints b) ∧ len (ints b) ≤ len (ints b)) := by rw [hl]; omega
  have g2 : ¬ ¬ ((k : Int) ≤ len (ints (b.drop off))) := by rw [len_ints, List.length_drop]; omega
  rw [if_neg g1, hs, if_neg g2, leRead_ints]

/-- `NewIndexBlockHeader(pos, ext1, ext2, origBuff, finalBuf, codec)`: no panic, and the header is the entry's bytes
(lengths are taken modulo 2^32 - `uint32(len(..))`; `pos` is a non-negative file offset) -/
theorem c08_t_NewIndexBlockHeader (pos e1 e2 codec : Nat) (orig final : List Int)
    (hp : pos < 9223372036854775808) :
    T.NewIndexBlockHeader pos e1 e2 orig final codec
      = some (ints (Entry.bytes ⟨codec, final.length % 4294967296, orig.length % 4294967296, e1, e2, pos⟩)) := by
  have hw1 : wrapU32 (len final) = ((final.length % 4294967296 : Nat) : Int) := by unfold wrapU32 len; omega
  have hw2 : wrapU32 (len orig) = ((orig.length % 4294967296 : Nat) : Int) := by unfold wrapU32 len; omega
  have hw3 : wrapU64 (pos : Int) = (pos : Int) := by unfold wrapU64; omega
  have h0 : T.NewEmptyIndexBlockHeader = some (ints (List.replicate 33 0)) := by decide
  unfold T.NewIndexBlockHeader
  rw [h0, hw1, hw2, hw3]
  generalize final.length % 4294967296 = fl
  generalize orig.length % 4294967296 = ol
  simp only [Option.bind_some]
  have s1 : T.IndexBlockHeader_SetExt1 (ints (List.replicate 33 0)) e1
      = some (ints ((List.replicate 33 0).take 9 ++ leBytesN 8 e1 ++ (List.replicate 33 0).drop 17)) := by
    simpa [T.IndexBlockHeader_SetExt1] using put_at 8 (List.replicate 33 0) 9 e1 (by simp)
  rw [s1]; simp only [Option.bind_some]
  generalize hb1 : (List.replicate 33 0).take 9 ++ leBytesN 8 e1 ++ (List.replicate 33 0).drop 17 = b1
  have l1 : b1.length = 33 := by rw [← hb1]; simp [leBytesN]
  have s2 : T.IndexBlockHeader_SetExt2 (ints b1) e2 = some (ints (b1.take 17 ++ leBytesN 8 e2 ++ b1.drop 25)) := by
    simpa [T.IndexBlockHeader_SetExt2] using put_at 8 b1 17 e2 (by omega)
  rw [s2]; simp only [Option.bind_some]
  generalize hb2 : b1.take 17 ++ leBytesN 8 e2 ++ b1.drop 25 = b2
  have l2 : b2.length = 33 := by rw [← hb2]; simp [leBytesN, l1]
  have s3 : T.IndexBlockHeader_SetLen (ints b2) fl = some (ints (b2.take 1 ++ leBytesN 4 fl ++ b2.drop 5)) := by
    simpa [T.IndexBlockHeader_SetLen] using put_at 4 b2 1 fl (by omega)
  rw [s3]; simp only [Option.bind_some]
  generalize hb3 : b2.take 1 ++ leBytesN 4 fl ++ b2.drop 5 = b3
  have l3 : b3.length = 33 := by rw [← hb3]; simp [leBytesN, l2]
  have s4 : T.IndexBlockHeader_SetRawLen (ints b3) ol = some (ints (b3.take 5 ++ leBytesN 4 ol ++ b3.drop 9)) := by
    simpa [T.IndexBlockHeader_SetRawLen] using put_at 4 b3 5 ol (by omega)
  rw [s4]; simp only [Option.bind_some]
  generalize hb4 : b3.take 5 ++ leBytesN 4 ol ++ b3.drop 9 = b4
  have l4 : b4.length = 33 := by rw [← hb4]; simp [leBytesN, l3]
  have s5 : T.IndexBlockHeader_SetCodec (ints b4) codec = some (ints (b4.set 0 codec)) := by
    have g : ¬ ¬ ((0 : Int) ≤ 0 ∧ (0 : Int) < len (ints b4)) := by rw [len_ints]; omega
    unfold T.IndexBlockHeader_SetCodec
    rw [if_neg g]
    exact congrArg some (set_ints b4 0 codec)
  rw [s5]; simp only [Option.bind_some]
  have l5 : (b4.set 0 codec).length = 33 := by simp [l4]
  have s6 : T.IndexBlockHeader_SetPos (ints (b4.set 0 codec)) pos
      = some (ints ((b4.set 0 codec).take 25 ++ leBytesN 8 pos ++ (b4.set 0 codec).drop 33)) := by
    simpa [T.IndexBlockHeader_SetPos] using put_at 8 (b4.set 0 codec) 25 pos (by omega)
  rw [s6]
  simp only [Option.bind_some, Option.some.injEq]
  congr 1
  subst hb4 hb3 hb2 hb1
  simp [Entry.bytes, leBytesN]

private theorem leReadN_leBytesN (k n : Nat) (rest : List Nat) : leReadN k (leBytesN k n ++ rest) = n % 256 ^ k := by
  induction k generalizing n with
  | zero => simp [leReadN, Nat.mod_one]
  | succ k ih =>
    simp only [leBytesN, List.cons_append, leReadN, ih]
    rw [Nat.pow_succ, Nat.mul_comm (256 ^ k) 256, Nat.mod_mul]

private theorem bytes_length (e : Entry) : e.bytes.length = 33 := by simp [Entry.bytes, leBytesN]

/-- the accessors read back what `NewIndexBlockHeader` recorded (fields within their widths) -/
theorem c08_t_getters (e : Entry) (hl : e.len < 4294967296) (hr : e.rawLen < 4294967296)
    (h1 : e.ext1 < 18446744073709551616) (h2 : e.ext2 < 18446744073709551616) (hp : e.pos < 18446744073709551616) :
    T.IndexBlockHeader_Codec (ints e.bytes) = some (e.codec : Int)
    ∧ T.IndexBlockHeader_Len (ints e.bytes) = some (e.len : Int)
    ∧ T.IndexBlockHeader_RawLen (ints e.bytes) = some (e.rawLen : Int)
    ∧ T.IndexBlockHeader_GetExt1 (ints e.bytes) = some (e.ext1 : Int)
    ∧ T.IndexBlockHeader_GetExt2 (ints e.bytes) = some (e.ext2 : Int)
    ∧ T.IndexBlockHeader_GetPos (ints e.bytes) = some (e.pos : Int) := by
  have hlen := bytes_length e
  have p4 : (256 : Nat) ^ 4 = 4294967296 := by decide
  have p8 : (256 : Nat) ^ 8 = 18446744073709551616 := by decide
  have d1 : e.bytes.drop 1 = leBytesN 4 e.len ++ (leBytesN 4 e.rawLen ++ leBytesN 8 e.ext1 ++ leBytesN 8 e.ext2 ++ leBytesN 8 e.pos) := by
    simp [Entry.bytes, leBytesN]
  have d5 : e.bytes.drop 5 = leBytesN 4 e.rawLen ++ (leBytesN 8 e.ext1 ++ leBytesN 8 e.ext2 ++ leBytesN 8 e.pos) := by
    simp [Entry.bytes, leBytesN]
  have d9 : e.bytes.drop 9 = leBytesN 8 e.ext1 ++ (leBytesN 8 e.ext2 ++ leBytesN 8 e.pos) := by
    simp [Entry.bytes, leBytesN]
  have d17 : e.bytes.drop 17 = leBytesN 8 e.ext2 ++ leBytesN 8 e.pos := by simp [Entry.bytes, leBytesN]
  have d25 : e.bytes.drop 25 = leBytesN 8 e.pos ++ [] := by simp [Entry.bytes, leBytesN]
  refine ⟨?_, ?_, ?_, ?_, ?_, ?_⟩
  · simp [T.IndexBlockHeader_Codec, Entry.bytes, ints, idx]
  · have := read_at 4 e.bytes 1 (by omega)
    rw [d1, leReadN_leBytesN, p4, Nat.mod_eq_of_lt hl] at this
    simpa [T.IndexBlockHeader_Len] using this
  · have := read_at 4 e.bytes 5 (by omega)
    rw [d5, leReadN_leBytesN, p4, Nat.mod_eq_of_lt hr] at this
    simpa [T.IndexBlockHeader_RawLen] using this
  · have := read_at 8 e.bytes 9 (by omega)
    rw [d9, leReadN_leBytesN, p8, Nat.mod_eq_of_lt h1] at this
    simpa [T.IndexBlockHeader_GetExt1] using this
  · have := read_at 8 e.bytes 17 (by omega)
    rw [d17, leReadN_leBytesN, p8, Nat.mod_eq_of_lt h2] at this
    simpa [T.IndexBlockHeader_GetExt2] using this
  · have := read_at 8 e.bytes 25 (by omega)
    rw [d25, leReadN_leBytesN, p8, Nat.mod_eq_of_lt hp] at this
    simpa [T.IndexBlockHeader_GetPos] using this

end SV.Props.C08
