import SeqVerif.Model.ProxySearch
import SeqVerif.Extracted.C16T
/-!
# C16 - hand model = mechanical translation of the Go source (regenerated on every run)

`SV.Extracted.C16.T` is produced by `extract/cmd/c16t` (translator `extract/xlate`, prelude `Base/GoInt.lean`)
from `proxy/search/ingestor.go`.  The element type of the ID list is opaque to the translator (a type variable).
-/
namespace SV.Props.C16
open SV.ProxySearch SV.Go
open SV.Extracted.C16

/-- `Ingestor.paginateIDs`: for every list of (ID, source) pairs and every non-negative offset and size the
translated function does not panic; the page is the model's `paginate` and the returned size is its length
when the page is short, `size` otherwise. -/
theorem c16_t_paginateIDs (ids : List (ID × Src)) (offset size : Nat) :
    T.Ingestor_paginateIDs ids offset size
      = some (paginate ids offset size, ((min size (ids.length - offset) : Nat) : Int)) := by
  unfold T.Ingestor_paginateIDs paginate
  have hl : ∀ xs : List (ID × Src), len xs = (xs.length : Int) := fun _ => rfl
  by_cases h : ids.length > offset
  · have h' : (ids.length : Int) > (offset : Int) := by omega
    have s1 : slice ids (offset : Int) (ids.length : Int) = ids.drop offset := slice_from ids offset
    simp only [hl, if_pos h', s1]
    split
    · omega
    · by_cases h2 : (ids.drop offset).length > size
      · have h2' : ((ids.drop offset).length : Int) > (size : Int) := by omega
        simp only [if_pos h2', slice_to]
        split
        · omega
        · simp only [List.length_drop] at h2
          have : min size (ids.length - offset) = size := by omega
          rw [this]
      · have h2' : ¬ ((ids.drop offset).length : Int) > (size : Int) := by omega
        simp only [if_neg h2']
        simp only [List.length_drop] at h2
        have e1 : min size (ids.length - offset) = ids.length - offset := by omega
        have e2 : (ids.drop offset).take size = ids.drop offset := List.take_of_length_le (by simp; omega)
        rw [e1, e2, List.length_drop]
  · have h' : ¬ (ids.length : Int) > (offset : Int) := by omega
    have s1 : slice ids 0 0 = [] := by simp [slice]
    have e1 : min size (ids.length - offset) = 0 := by omega
    have e2 : ids.drop offset = [] := List.drop_of_length_le (by omega)
    simp only [hl, if_neg h', s1, e1, e2]
    split
    · omega
    · simp
      intro hc
      omega

end SV.Props.C16
