import SeqVerif.Model.Dist
import SeqVerif.Model.FracInfo
import SeqVerif.Extracted.C14T
/-!
# C14 - hand models = mechanical translations of the Go source (regenerated on every run)

`SV.Extracted.C14.T` is produced by `extract/cmd/c14t` (translator `extract/xlate`, prelude `Base/GoInt.lean`)
from `util/bitmask.go`, `seq/seq.go` and `seq/mids_distribution.go`: `Bitmask.Get`, `Bitmask.HasBitsIn` (with its
scan loop as a structurally recursive function), `MID.Time`, `MIDsDistribution.size / midToIndex /
IsIntersecting` (struct receivers flattened to the fields read; `time.Time` = nanoseconds as in `SV.Dist`).
Each theorem states that the hand-written model function equals the translated one, index panics included.
A byte slice is given as `List Nat` on the model side and as `ints bin` (the same numbers as `Int`) on the Go side.
-/
namespace SV.Props.C14
open SV.Bitmask SV.Dist SV.Go
open SV.Extracted.C14

private theorem tdiv8 (n : Nat) : Int.tdiv (n : Int) 8 = ((n / 8 : Nat) : Int) := tdiv_natCast n 8
private theorem tmod8 (n : Nat) : Int.tmod (n : Int) 8 = ((n % 8 : Nat) : Int) := tmod_natCast n 8

private theorem natpos (x : Nat) : ((x : Int) > 0) = (x > 0) := by
  apply propext; omega

/-- `Bitmask.Get` -/
theorem c14_t_Get (bin : List Nat) (pos : Nat) : T.Bitmask_Get (ints bin) pos = get? bin pos := by
  unfold T.Bitmask_Get get? Bitmask.get
  have hk : ¬ ¬ ((0 : Int) ≤ ((pos % 8 : Nat) : Int)) := by omega
  have hs : wrapU8 (shl 1 ((pos % 8 : Nat) : Int)) = (((1 <<< (pos % 8)) % 256 : Nat) : Int) := by
    have e : shl 1 ((pos % 8 : Nat) : Int) = ((1 <<< (pos % 8) : Nat) : Int) := shl_natCast 1 (pos % 8)
    rw [e]; unfold wrapU8; omega
  simp only [tdiv8, tmod8, if_neg hk, hs]
  by_cases h : pos / 8 < bin.length
  · rw [idx_ints _ _ h]
    simp only [Option.bind_some, if_pos h, band_natCast, natpos, byteAt, getD_of_lt _ _ _ h]
    rw [(by decide : ∀ k : Nat, k < 8 → (1 <<< k) % 256 = 1 <<< k) (pos % 8) (Nat.mod_lt _ (by omega))]
  · rw [idx_ints_none _ _ (by omega)]
    simp [h]

/-- the scan loop of `HasBitsIn` between the two border bytes = `anyNonzero` (all indices inside the slice) -/
theorem c14_t_HasBitsIn_loop (bin : List Nat) (a b c d e f g : Int) (ri : Nat) (hri : ri ≤ bin.length)
    (h63 : ri < 9223372036854775808) :
    ∀ (fuel i : Nat), i + fuel = ri →
      T.Bitmask_HasBitsIn_loop0 (ints bin) a b c (ri : Int) d e f g fuel (i : Int) = some (anyNonzero bin i fuel) := by
  intro fuel
  induction fuel with
  | zero => intro i _; simp [T.Bitmask_HasBitsIn_loop0, anyNonzero]
  | succ n ih =>
    intro i hi
    have hlt : (i : Int) < (ri : Int) := by omega
    have hin : i < bin.length := by omega
    have hw : wrapI64 ((i : Int) + 1) = ((i + 1 : Nat) : Int) := by unfold wrapI64; omega
    rw [T.Bitmask_HasBitsIn_loop0, if_pos hlt, idx_ints _ _ hin]
    simp only [Option.bind_some, hw, natpos, anyNonzero, byteAt, getD_of_lt _ _ _ hin]
    rw [ih (i + 1) (by omega)]
    split <;> rfl

/-- `Bitmask.HasBitsIn` with its index panics: for every byte slice and all non-negative `int` positions -/
theorem c14_t_HasBitsIn (bin : List Nat) (l r : Nat) (hl : l < 9223372036854775808) (hr : r < 9223372036854775808) :
    T.Bitmask_HasBitsIn (ints bin) l r = hasBitsIn? bin l r := by
  have hli63 : l / 8 + 1 < 9223372036854775808 := by omega
  have hri63 : r / 8 < 9223372036854775808 := by omega
  unfold T.Bitmask_HasBitsIn hasBitsIn? hasBitsIn
  have hk : ¬ ¬ ((0 : Int) ≤ ((l % 8 : Nat) : Int)) := by omega
  have hrb : wrapI64 (((r % 8 : Nat) : Int) + 1) = ((r % 8 + 1 : Nat) : Int) := by unfold wrapI64; omega
  have hrs : wrapI64 (8 - ((r % 8 + 1 : Nat) : Int)) = ((8 - (r % 8 + 1) : Nat) : Int) := by unfold wrapI64; omega
  have hk2 : ¬ ¬ ((0 : Int) ≤ ((8 - (r % 8 + 1) : Nat) : Int)) := by omega
  have hlm : wrapU8 (shl 255 ((l % 8 : Nat) : Int)) = ((leftMask l : Nat) : Int) := by
    have e : shl 255 ((l % 8 : Nat) : Int) = ((255 <<< (l % 8) : Nat) : Int) := shl_natCast 255 (l % 8)
    rw [e]; unfold wrapU8 leftMask; exact (Int.natCast_emod _ _).symm
  have hrm : shr 255 ((8 - (r % 8 + 1) : Nat) : Int) = ((rightMask r : Nat) : Int) := shr_natCast 255 _
  have hli : wrapI64 (((l / 8 : Nat) : Int) + 1) = ((l / 8 + 1 : Nat) : Int) := by unfold wrapI64; omega
  simp only [tdiv8, tmod8, if_neg hk, hrb, hrs, if_neg hk2, hlm, hrm, hli]
  clear hk hrb hrs hk2 hlm hrm hli
  generalize leftMask l = lm
  generalize rightMask r = rm
  generalize ((l : Int)) = a1
  generalize ((r : Int)) = a2
  generalize (((l % 8 : Nat) : Int)) = a3
  generalize (((r % 8 + 1 : Nat) : Int)) = a4
  generalize l / 8 = li at *
  generalize r / 8 = ri at *
  clear hl hr
  by_cases h1 : li < bin.length
  · have h1' : ¬ (li ≥ bin.length) := by omega
    rw [idx_ints _ _ h1]
    simp only [Option.bind_some, if_neg h1', band_natCast, natpos, byteAt, getD_of_lt _ _ _ h1]
    by_cases h2 : li = ri
    · have h2' : ((li : Nat) : Int) = ((ri : Nat) : Int) := by omega
      simp only [if_pos h2, if_pos h2']
    · have h2' : ¬ (((li : Nat) : Int) = ((ri : Nat) : Int)) := by omega
      simp only [if_neg h2, if_neg h2']
      by_cases h5 : bin[li] &&& lm > 0
      · simp only [if_pos h5]
      · simp only [if_neg h5]
        by_cases h3 : ri < bin.length
        · have h3' : ¬ (ri ≥ bin.length) := by omega
          rw [idx_ints _ _ h3]
          simp only [Option.bind_some, if_neg h3', band_natCast, natpos, getD_of_lt _ _ _ h3]
          by_cases h6 : bin[ri] &&& rm > 0
          · simp only [if_pos h6]
          · simp only [if_neg h6]
            have e : (((ri : Nat) : Int) - ((li + 1 : Nat) : Int)).toNat = ri - (li + 1) := by omega
            rw [e]
            by_cases h4 : li + 1 ≤ ri
            · exact c14_t_HasBitsIn_loop bin _ _ _ _ _ _ _ ri (by omega) hri63 _ _ (by omega)
            · have z : ri - (li + 1) = 0 := by omega
              rw [z, T.Bitmask_HasBitsIn_loop0, anyNonzero]
        · have h3' : ri ≥ bin.length := by omega
          rw [idx_ints_none _ _ h3', if_pos h3']
          rfl
  · have h1' : li ≥ bin.length := by omega
    rw [idx_ints_none _ _ h1', if_pos h1']
    split <;> rfl


/-- `MID.Time()` in nanoseconds, for every uint64 (and every other natural) MID -/
theorem c14_t_MID_Time (m : Nat) : T.MID_Time m = midTime m := by
  unfold T.MID_Time midTime timeUnixMilli toInt64 wrapI64
  split <;> omega

private theorem timeSub_eq (t u : Int) : timeSub t u = tsub t u := rfl

/-- `MIDsDistribution.size()`: a zero bucket is an integer division by zero -/
theorem c14_t_size_zero (f t : Int) : T.MIDsDistribution_size f t 0 = none := by simp [T.MIDsDistribution_size]

/-- `MIDsDistribution.size()` = `sizeOf` whenever the number of buckets fits an `int` (the model adds without
wrapping; every bucket of at least 2 ns is inside this domain) -/
theorem c14_t_size (f t b : Int) (hb : b ≠ 0)
    (hq : -9223372036854775808 ≤ Int.tdiv (tsub t f) b ∧ Int.tdiv (tsub t f) b + 3 < 9223372036854775808) :
    T.MIDsDistribution_size f t b = some (Dist.sizeOf f t b) := by
  unfold T.MIDsDistribution_size Dist.sizeOf
  have g : ¬ ¬ (b ≠ 0) := by simpa using hb
  rw [if_neg g, timeSub_eq]
  generalize Int.tdiv (tsub t f) b = q at *
  simp only [Option.some.injEq]
  unfold wrapI64; omega

private theorem quot_bounds (a b : Int) (ha : 0 ≤ a) (hb : 0 < b) : 0 ≤ Int.tdiv a b ∧ Int.tdiv a b ≤ a := by
  rw [tdiv_nonneg b ha]
  constructor
  · exact Int.ediv_nonneg ha (Int.le_of_lt hb)
  · exact Int.ediv_le_self b ha

/-- hypotheses under which a distribution's index arithmetic stays inside `int`: positive bucket, a span below
2^63 ns, a bitmask size in `[1, 2^63)` (all implied by `Dist.WF` for spans below 292 years) -/
structure Plain (d : Dist) : Prop where
  bucket_pos : 0 < d.bucket
  span : d.dto - d.dfrom < 9223372036854775807
  size : 1 ≤ d.mask.size ∧ d.mask.size < 9223372036854775808

private theorem mti_bounds (d : Dist) (h : Plain d) (m : Nat) :
    0 ≤ midToIndex d m ∧ midToIndex d m < 9223372036854775808 := by
  unfold midToIndex
  have hs := h.size
  have hspan := h.span
  simp only
  split
  · omega
  · split
    · omega
    · rename_i h1 h2
      have hts : tsub (midTime m) d.dfrom = midTime m - d.dfrom := by
        unfold tsub
        split
        · omega
        · split <;> omega
      have := quot_bounds (midTime m - d.dfrom) d.bucket (by omega) h.bucket_pos
      rw [hts]; omega

/-- `MIDsDistribution.midToIndex` for a plain distribution: no panic, the model's index -/
theorem c14_t_midToIndex (d : Dist) (h : Plain d) (m : Nat) :
    T.MIDsDistribution_midToIndex d.dfrom d.dto d.bucket d.mask.size m = some (midToIndex d m) := by
  have hb := mti_bounds d h m
  unfold midToIndex at hb
  unfold T.MIDsDistribution_midToIndex midToIndex T.Bitmask_GetSize
  rw [c14_t_MID_Time]
  have hs := h.size
  have hspan := h.span
  have hbp := h.bucket_pos
  simp only at hb ⊢
  split
  · rfl
  · split
    · simp only [Option.some.injEq]; unfold wrapI64; omega
    · rename_i h1 h2
      have g : ¬ ¬ (d.bucket ≠ 0) := by omega
      simp only [if_neg h1, if_neg h2] at hb
      rw [if_neg g, timeSub_eq]
      generalize Int.tdiv (tsub (midTime m) d.dfrom) d.bucket = q at *
      simp only [Option.some.injEq]
      unfold wrapI64; omega

/-- `MIDsDistribution.IsIntersecting` (with fix c7b3453) for a plain distribution: the translated function is the
model `isIntersecting?`, panics included -/
theorem c14_t_IsIntersecting (d : Dist) (h : Plain d) (qf qt : Nat) :
    T.MIDsDistribution_IsIntersecting d.dfrom d.dto d.bucket d.mask.size (ints d.mask.bin) qf qt
      = isIntersecting? d qf qt := by
  unfold T.MIDsDistribution_IsIntersecting isIntersecting? T.MIDsDistribution_isUndefined
  have hb0 : ¬ (d.bucket = 0) := by have := h.bucket_pos; omega
  have b1 := mti_bounds d h qf
  have b2 := mti_bounds d h qt
  have n1 : ¬ (midToIndex d qf < 0 ∨ midToIndex d qt < 0) := by omega
  simp only [hb0, decide_false, Bool.false_eq_true, if_false, c14_t_MID_Time, c14_t_midToIndex d h, Option.bind_some,
    if_neg n1]
  split
  · rfl
  · obtain ⟨a, ha⟩ := Int.eq_ofNat_of_zero_le b1.1
    obtain ⟨b, hb⟩ := Int.eq_ofNat_of_zero_le b2.1
    have ha' : a < 9223372036854775808 := by have := b1.2; omega
    have hb' : b < 9223372036854775808 := by have := b2.2; omega
    rw [ha, hb]
    simp only [Int.toNat_natCast]
    rw [c14_t_HasBitsIn _ _ _ ha' hb']
    cases hasBitsIn? d.mask.bin a b <;> rfl

/-- `Bitmask.Set(pos, state)` with its index panic (the write returns the new byte list) -/
theorem c14_t_Set (bin : List Nat) (pos : Nat) (state : Bool) :
    T.Bitmask_Set (ints bin) pos state = (set? bin pos state).map ints := by
  unfold T.Bitmask_Set set? Bitmask.set
  have hk : ¬ ¬ ((0 : Int) ≤ ((pos % 8 : Nat) : Int)) := by omega
  have hs : wrapU8 (shl 1 ((pos % 8 : Nat) : Int)) = (((1 <<< (pos % 8)) % 256 : Nat) : Int) := by
    have e : shl 1 ((pos % 8 : Nat) : Int) = ((1 <<< (pos % 8) : Nat) : Int) := shl_natCast 1 (pos % 8)
    rw [e]; unfold wrapU8; omega
  simp only [tdiv8, tmod8, if_neg hk, hs]
  have hm : (1 <<< (pos % 8)) % 256 < 256 := Nat.mod_lt _ (by omega)
  generalize (1 <<< (pos % 8)) % 256 = mask at *
  have hsub : (255 : Int) - (mask : Int) = ((255 - mask : Nat) : Int) := by omega
  by_cases h : pos / 8 < bin.length
  · rw [idx_ints _ _ h]
    simp only [Option.bind_some, if_pos h, byteAt, getD_of_lt _ _ _ h, Option.map_some, hsub, bor_natCast, band_natCast,
      set_ints]
    cases state <;> simp
  · rw [idx_ints_none _ _ (by omega)]
    cases state <;> simp [h]

/-- `MIDsDistribution.Add(mid)` for a plain distribution = `Dist.add?` (the new bitmask bytes; `none` = index panic) -/
theorem c14_t_Add (d : Dist) (h : Plain d) (m : Nat) :
    T.MIDsDistribution_Add d.dfrom d.dto d.bucket d.mask.size (ints d.mask.bin) m
      = (add? d m).map fun d' => ints d'.mask.bin := by
  unfold T.MIDsDistribution_Add add? Dist.add
  have hb := mti_bounds d h m
  have hb0 : ¬ (d.bucket = 0) := by have := h.bucket_pos; omega
  have hn : ¬ (midToIndex d m < 0) := by omega
  obtain ⟨a, ha⟩ := Int.eq_ofNat_of_zero_le hb.1
  simp only [c14_t_midToIndex d h, Option.bind_some, if_neg hb0, if_neg hn]
  rw [ha]
  simp only [c14_t_Set, Int.toNat_natCast, set?]
  by_cases hlt : a / 8 < d.mask.bin.length
  · simp [hlt]
  · simp [hlt]

/-- `frac.Info.IsIntersecting(from, to)` (the fraction-level pruning test of C14) = `FracInfo.isIntersecting?`:
without a distribution (`s.Distribution == nil`, whatever the other distribution fields are) ... -/
theorem c14_t_Info_IsIntersecting_nil (s : FracInfo.Info) (hd : s.dist = none) (qf qt : Nat) (a b c e : Int) (l : List Int) :
    T.Info_IsIntersecting s.ifrom s.ito a b c e l true s.docsTotal qf qt = FracInfo.isIntersecting? s qf qt := by
  unfold T.Info_IsIntersecting FracInfo.isIntersecting?
  by_cases h0 : s.docsTotal = 0
  · have h0' : (s.docsTotal : Int) = 0 := by omega
    simp only [if_pos h0, if_pos h0']
  · have h0' : ¬ ((s.docsTotal : Int) = 0) := by omega
    simp only [if_neg h0, if_neg h0', hd]
    by_cases h1 : qt < s.ifrom ∨ s.ito < qf
    · have h1' : (qt : Int) < (s.ifrom : Int) ∨ (s.ito : Int) < (qf : Int) := by omega
      simp only [if_pos h1, if_pos h1']
    · have h1' : ¬ ((qt : Int) < (s.ifrom : Int) ∨ (s.ito : Int) < (qf : Int)) := by omega
      simp only [if_neg h1, if_neg h1', if_true]

/-- ... and with a plain distribution `d` (its fields passed field by field, `Distribution != nil`) -/
theorem c14_t_Info_IsIntersecting (s : FracInfo.Info) (d : Dist) (hd : s.dist = some d) (hp : Plain d) (qf qt : Nat) :
    T.Info_IsIntersecting s.ifrom s.ito d.dfrom d.dto d.bucket d.mask.size (ints d.mask.bin) false s.docsTotal qf qt
      = FracInfo.isIntersecting? s qf qt := by
  unfold T.Info_IsIntersecting FracInfo.isIntersecting?
  by_cases h0 : s.docsTotal = 0
  · have h0' : (s.docsTotal : Int) = 0 := by omega
    simp only [if_pos h0, if_pos h0']
  · have h0' : ¬ ((s.docsTotal : Int) = 0) := by omega
    simp only [if_neg h0, if_neg h0', hd]
    by_cases h1 : qt < s.ifrom ∨ s.ito < qf
    · have h1' : (qt : Int) < (s.ifrom : Int) ∨ (s.ito : Int) < (qf : Int) := by omega
      simp only [if_pos h1, if_pos h1']
    · have h1' : ¬ ((qt : Int) < (s.ifrom : Int) ∨ (s.ito : Int) < (qf : Int)) := by omega
      simp only [if_neg h1, if_neg h1', Bool.false_eq_true, if_false, c14_t_IsIntersecting d hp]
      cases isIntersecting? d qf qt <;> rfl

/-- `Dist.add?` for every MID of a list, in order (`none` as soon as one `Add` panics) -/
def addAll? : Dist → List Nat → Option Dist
  | d, [] => some d
  | d, m :: ms => (add? d m).bind fun d' => addAll? d' ms

theorem c14_t_addAll_foldl (d d' : Dist) (mids : List Nat) (h : addAll? d mids = some d') : d' = mids.foldl Dist.add d := by
  induction mids generalizing d with
  | nil => simp [addAll?] at h; exact h.symm
  | cons m ms ih =>
    simp only [addAll?] at h
    cases ha : add? d m with
    | none => simp [ha] at h
    | some d1 =>
      have e : d1 = Dist.add d m := by
        unfold add? at ha; split at ha
        · simp at ha
        · split at ha
          · simp at ha
          · split at ha <;> simp at ha; exact ha.symm
      rw [ha] at h
      simp only [Option.bind_some] at h
      rw [List.foldl_cons, ← e]; exact ih d1 h

private theorem plain_add (d : Dist) (h : Plain d) (m : Nat) (d1 : Dist) (ha : add? d m = some d1) : Plain d1 := by
  have e : d1 = Dist.add d m := by
    unfold add? at ha; split at ha
    · simp at ha
    · split at ha
      · simp at ha
      · split at ha <;> simp at ha; exact ha.symm
  subst e
  exact ⟨h.bucket_pos, h.span, h.size⟩

/-- the loop of `Info.BuildDistribution` (`for _, id := range ids { s.Distribution.Add(id.MID) }`) on a plain
distribution = the model's `Dist.add?` per MID, in order (hence `mids.foldl Dist.add d` when no `Add` panics:
`c14_t_addAll_foldl`, `FracInfo.buildDistribution`) -/
theorem c14_t_buildLoop (mids : List Nat) :
    ∀ (d : Dist), Plain d →
      T.buildLoop (ints d.mask.bin) mids d.dfrom d.dto d.bucket d.mask.size (fun m => (m : Int))
        = (addAll? d mids).map fun d' => ints d'.mask.bin := by
  unfold T.buildLoop
  suffices hs : ∀ (I : List Nat) (ms : List Nat) (d : Dist), Plain d →
      T.buildLoop_loop0 I d.dfrom d.dto d.bucket d.mask.size (fun m => (m : Int)) ms (ints d.mask.bin)
        = (addAll? d ms).map fun d' => ints d'.mask.bin from fun d hd => hs mids mids d hd
  intro I ms
  induction ms with
  | nil => intro d _; simp [T.buildLoop_loop0, addAll?]
  | cons m ms ih =>
    intro d hd
    rw [T.buildLoop_loop0, c14_t_Add d hd m]
    simp only [addAll?]
    cases ha : add? d m with
    | none => simp
    | some d1 =>
      have hp := plain_add d hd m d1 ha
      have hf : d1.dfrom = d.dfrom ∧ d1.dto = d.dto ∧ d1.bucket = d.bucket ∧ d1.mask.size = d.mask.size := by
        have e : d1 = Dist.add d m := by
          unfold add? at ha; split at ha
          · simp at ha
          · split at ha
            · simp at ha
            · split at ha <;> simp at ha; exact ha.symm
        subst e; exact ⟨rfl, rfl, rfl, rfl⟩
      simp only [Option.map_some, Option.bind_some]
      have := ih d1 hp
      rw [hf.1, hf.2.1, hf.2.2.1, hf.2.2.2] at this
      exact this

/-- non-vacuity of `Plain`: one hour of one-minute buckets, 63 bits -/
example : Plain ⟨0, 3600000000000, 60000000000, ⟨63, List.replicate 8 0⟩⟩ :=
  ⟨by decide, by decide, by decide⟩

/-- model and code differ outside the stated domain of `c14_t_size`: with a 1 ns bucket and a span of 2^63-1 ns Go's
`n + 1` wraps (the bitmask allocation then panics on a negative length), the unbounded model does not -/
example : T.MIDsDistribution_size 0 9223372036854775807 1 = some (-9223372036854775806)
    ∧ Dist.sizeOf 0 9223372036854775807 1 = 9223372036854775810 := by
  constructor <;> decide

end SV.Props.C14
