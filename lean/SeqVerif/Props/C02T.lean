import SeqVerif.Model.Borders
import SeqVerif.Model.Nodes
import SeqVerif.Extracted.C02T
/-!
# C02 - the binary search of the border model = mechanical translation of `util.BinSearchInRange`

`SV.Extracted.C02.T` is produced by `extract/cmd/c02t` (translator `extract/xlate`, prelude `Base/GoInt.lean`).
The callback `fn` is a function parameter that may panic (`Int → Option Bool`); `sort.Search` is the prelude's
`Go.sortSearch`, proved equal to `SV.searchGo` for callbacks that do not panic on the searched interval.
-/
namespace SV.Props.C02
open SV SV.Go
open SV.Extracted.C02

/-- `util.BinSearchInRange(from, to, fn)` = `SV.binSearchInRange` for every interval of naturals below 2^62 and
every callback that answers `q` without panicking on `[from, to]` (an empty interval, `to + 1 ≤ from`, gives `from`) -/
theorem c02_t_BinSearchInRange (lo hi : Nat) (fn : Int → Option Bool) (q : Nat → Bool)
    (hlo : lo < 4611686018427387904) (hhi : hi < 4611686018427387904)
    (hfn : ∀ k : Nat, lo ≤ k → k ≤ hi → fn k = some (q k)) :
    T.BinSearchInRange lo hi fn = some (binSearchInRange lo hi q : Int) := by
  unfold T.BinSearchInRange binSearchInRange
  by_cases hle : lo ≤ hi + 1
  · have hn : wrapI64 (wrapI64 ((hi : Int) - (lo : Int)) + 1) = ((hi + 1 - lo : Nat) : Int) := by
      unfold wrapI64; omega
    have hs := sortSearch_eq (fun i => (fn (wrapI64 ((lo : Int) + i))).bind fun v0 => some v0)
      (fun i => q (lo + i)) (hi + 1 - lo) (by
        intro i hi'
        have hw : wrapI64 ((lo : Int) + (i : Int)) = ((lo + i : Nat) : Int) := by unfold wrapI64; omega
        simp only [hw, hfn (lo + i) (by omega) (by omega), Option.bind_some])
    simp only [hn, hs, Option.bind_some, Option.some.injEq]
    have hb := searchGo_bounds (fun i => q (lo + i)) 0 (hi + 1 - lo) (by omega)
    generalize searchGo (fun i => q (lo + i)) 0 (hi + 1 - lo) = r at *
    unfold wrapI64; omega
  · have hn : wrapI64 (wrapI64 ((hi : Int) - (lo : Int)) + 1) ≤ 0 := by unfold wrapI64; omega
    have hz : hi + 1 - lo = 0 := by omega
    have hs : searchGo (fun i => q (lo + i)) 0 0 = 0 := by rw [searchGo]; simp
    simp only [sortSearch_neg _ hn, Option.bind_some, hz, hs, Option.some.injEq]
    unfold wrapI64; omega

/-- `getLIDsBorders(minMID, maxMID, idsIndex)` = `Borders.getLIDsBorders` for every ID table of fewer than 2^32-1
entries and all uint64 MIDs: the index is an interface, so `Len()` and `LessOrEqual(lid, id)` are parameters of the
translated function; they are instantiated with the model's table (`Len() = tbl.length + 1`, LID 0 is the system
entry) -/
theorem c02_t_getLIDsBorders (minMID maxMID : Nat) (tbl : List Spec.ID) (le : Int → Int → Int → Bool)
    (hmin : minMID < 18446744073709551616)
    (hlen : tbl.length + 1 < 4294967296)
    (hle : ∀ lid mid rid : Nat, le lid mid rid = Borders.lessOrEqual tbl lid ⟨mid, rid⟩) :
    T.getLIDsBorders minMID maxMID ((tbl.length + 1 : Nat) : Int) le
      = some (((Borders.getLIDsBorders minMID maxMID tbl).1 : Int), ((Borders.getLIDsBorders minMID maxMID tbl).2 : Int)) := by
  unfold T.getLIDsBorders Borders.getLIDsBorders
  have hz : ¬ (((tbl.length + 1 : Nat) : Int) = 0) := by omega
  have hto : wrapI64 (((tbl.length + 1 : Nat) : Int) - 1) = (tbl.length : Int) := by unfold wrapI64; omega
  -- the two searches, for any `minID`
  have key : ∀ (m r : Nat),
      ((T.BinSearchInRange 1 (tbl.length : Int) (fun lid => some (le (wrapU32 lid) (maxMID : Int) 18446744073709551615))).bind fun v0 =>
        (T.BinSearchInRange v0 (tbl.length : Int) (fun lid => some (le (wrapU32 lid) (m : Int) (r : Int)))).bind fun v1 =>
          some (wrapU32 v0, wrapU32 (wrapI64 (v1 - 1))))
      = some (((binSearchInRange 1 tbl.length (fun lid => Borders.lessOrEqual tbl lid ⟨maxMID, Borders.maxU64⟩) : Nat) : Int),
          ((binSearchInRange (binSearchInRange 1 tbl.length (fun lid => Borders.lessOrEqual tbl lid ⟨maxMID, Borders.maxU64⟩))
              tbl.length (fun lid => Borders.lessOrEqual tbl lid ⟨m, r⟩) - 1 : Nat) : Int)) := by
    intro m r
    have b1 := Borders.binSearchInRange_bounds 1 tbl.length (fun lid => Borders.lessOrEqual tbl lid ⟨maxMID, Borders.maxU64⟩)
    have s1 := c02_t_BinSearchInRange 1 tbl.length
      (fun lid => some (le (wrapU32 lid) (maxMID : Int) 18446744073709551615))
      (fun lid => Borders.lessOrEqual tbl lid ⟨maxMID, Borders.maxU64⟩) (by omega) (by omega) (by
        intro k hk1 hk2
        have hw : wrapU32 (k : Int) = (k : Int) := by unfold wrapU32; omega
        have := hle k maxMID 18446744073709551615
        simp only [hw, Borders.maxU64] at this ⊢
        rw [← this]; rfl)
    have s1' : T.BinSearchInRange 1 (tbl.length : Int) (fun lid => some (le (wrapU32 lid) (maxMID : Int) 18446744073709551615))
        = some ((binSearchInRange 1 tbl.length (fun lid => Borders.lessOrEqual tbl lid ⟨maxMID, Borders.maxU64⟩) : Nat) : Int) := s1
    rw [s1']
    generalize binSearchInRange 1 tbl.length (fun lid => Borders.lessOrEqual tbl lid ⟨maxMID, Borders.maxU64⟩) = a at *
    have b2 := Borders.binSearchInRange_bounds a tbl.length (fun lid => Borders.lessOrEqual tbl lid ⟨m, r⟩)
    have s2 := c02_t_BinSearchInRange a tbl.length (fun lid => some (le (wrapU32 lid) (m : Int) (r : Int)))
      (fun lid => Borders.lessOrEqual tbl lid ⟨m, r⟩) (by omega) (by omega) (by
        intro k hk1 hk2
        have hw : wrapU32 (k : Int) = (k : Int) := by unfold wrapU32; omega
        simp only [hw, hle k m r])
    simp only [Option.bind_some, s2, Option.some.injEq, Prod.mk.injEq]
    generalize binSearchInRange a tbl.length (fun lid => Borders.lessOrEqual tbl lid ⟨m, r⟩) = b at *
    constructor
    · unfold wrapU32; omega
    · unfold wrapU32 wrapI64; omega
  simp only [if_neg hz, hto]
  by_cases hm : minMID > 0
  · have hm' : (minMID : Int) > 0 := by omega
    have hw : wrapU64 ((minMID : Int) - 1) = ((minMID - 1 : Nat) : Int) := by unfold wrapU64; omega
    have k := key (minMID - 1) 18446744073709551615
    simp only [if_pos hm, if_pos hm', hw, Borders.maxU64] at k ⊢
    exact k
  · have hm' : ¬ (minMID : Int) > 0 := by omega
    have k := key minMID 0
    simp only [if_neg hm, if_neg hm', Borders.maxU64] at k ⊢
    exact k

/-! ## nodeRange / nodeOr (`node/node_range.go`, `node/node_or.go`) -/

/-- the comparison a node was built with, as the callback the translated functions take -/
def lessCb (rev : Bool) : Int → Int → Option Bool := fun a b => some (lessFn rev a.toNat b.toNat)

/-- `NewRange(minVal, maxVal, reverse)`: start, bound and step - a reversed range starts at `maxVal`, is bounded by
`minVal` and steps by -1 (`rangeNode rev lo hi` lists `[lo, hi]` upwards, or downwards when `rev`) -/
theorem c02_t_NewRange (rev : Bool) (lo hi s : Int) :
    (T.rangeStart rev s hi lo, T.rangeBound rev s hi lo, T.rangeStep rev hi lo)
      = if rev then (hi, lo, -1) else (lo, hi, 1) := by
  cases rev <;> simp [T.rangeStart, T.rangeBound, T.rangeStep]

/-- one `nodeRange.Next()`: stop when the bound is `less` than the current value, else yield it and step (uint32
values; the cursor is an `int`, so stepping below 0 leaves the uint32 range - a reversed range must not start its
last step at 0, LIDs start at 1) -/
theorem c02_t_range_Next (rev : Bool) (bound cur : Nat) (step : Int) (hc : cur < 4294967296)
    (hs : step = 1 ∨ step = -1) :
    T.nodeRange_Next (lessCb rev) bound cur step
      = some (if lessFn rev bound cur then ((0 : Int), false, (cur : Int)) else ((cur : Int), true, (cur : Int) + step)) := by
  unfold T.nodeRange_Next lessCb
  have hw : wrapU32 (cur : Int) = (cur : Int) := by unfold wrapU32; omega
  have hw2 : wrapI64 ((cur : Int) + step) = (cur : Int) + step := by unfold wrapI64; omega
  simp only [hw, hw2, Int.toNat_natCast, Option.bind_some]
  cases lessFn rev bound cur <;> simp

/-- `nodeOr.Next()`: which side is emitted - the left one when only it has a value or its value is `less`, the right
one symmetrically, both (one value) when equal: the three cases of `orMerge` -/
theorem c02_t_or_side (rev hasL hasR : Bool) (l r : Nat) :
    T.orDone hasR hasL = (!hasL && !hasR)
    ∧ T.orTakeLeft hasR l r (lessCb rev) hasL = some (hasL && (!hasR || lessFn rev l r))
    ∧ T.orTakeRight hasL r l (lessCb rev) hasR = some (hasR && (!hasL || lessFn rev r l)) := by
  unfold T.orDone T.orTakeLeft T.orTakeRight lessCb
  simp only [Int.toNat_natCast, Option.bind_some]
  cases hasL <;> cases hasR <;> cases lessFn rev l r <;> cases lessFn rev r l <;> simp

/-- a callback that panics where `sort.Search` probes makes the search panic -/
example : T.BinSearchInRange 1 3 (fun _ => none) = none := by decide

end SV.Props.C02
