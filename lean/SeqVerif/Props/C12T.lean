import SeqVerif.Model.SeqQLFilter
import SeqVerif.Extracted.C12T
/-!
# C12 - the token predicates of the SeqQL model = mechanical translation of `parser/seqql.go`, `seqql_filter.go`

`SV.Extracted.C12.T` is produced by `extract/cmd/c12t` (translator `extract/xlate`, prelude `Base/GoInt.lean`):
`isTokenRune`, `lexer.IsKeyword / IsEnd / IsRawString`, `isCompositeToken`.  Strings are byte lists;
`unicode.IsLetter / IsDigit`, `strings.EqualFold` and `utf8.DecodeRuneInString` are uninterpreted parameters of the
translated functions.  The model describes a rune by a record `Rn` (bytes, code point, the answers of the unicode
predicates) and a token by `LTok` (runes, quoted, the keyword it folds to); the theorems instantiate the oracles with
those answers.
-/
namespace SV.Props.C12
open SV.Parser SV.Go
open SV.Extracted.C12

/-- `isTokenRune(r)` for a rune whose unicode classes are the record's -/
theorem c12_t_isTokenRune (r : Rn) (dig let_ : Int → Bool) (hd : dig r.cp = r.digit) (hl : let_ r.cp = r.letter) :
    T.isTokenRune r.cp dig let_ = isTokenRune r := by
  unfold T.isTokenRune isTokenRune
  rw [hd, hl]
  have e1 : ((r.cp : Int) = 95) ↔ (r.cp = 95) := by omega
  have e2 : ((r.cp : Int) = 46) ↔ (r.cp = 46) := by omega
  simp only [e1, e2]
  cases r.letter <;> cases r.digit <;> simp

/-- the bytes of a token's runes -/
def tokBytes (rs : List Rn) : List Int := ints (rs.flatMap (·.bytes))

/-- `isCompositeToken(lex)`: for a token whose keyword answer `IsKeyword("")` is the model's `kw = .empty`, and a
rune decoder that returns the first rune of a non-empty token (code point, width ≥ 1) -/
theorem c12_t_isCompositeToken (t : LTok) (ef : List Int → List Int → Bool) (dig let_ : Int → Bool)
    (dec : List Int → Int × Int)
    (hkw : T.lexer_IsKeyword (tokBytes t.rs) t.quoted ([] : List Int) ef = decide (t.kw = .empty))
    (hne : ∀ r, r ∈ t.rs → r.bytes ≠ [])
    (hdec : ∀ r rest, t.rs = r :: rest → dec (tokBytes t.rs) = ((r.cp : Int), (r.bytes.length : Int)))
    (hd : ∀ r, r ∈ t.rs → dig r.cp = r.digit) (hl : ∀ r, r ∈ t.rs → let_ r.cp = r.letter) :
    T.isCompositeToken (tokBytes t.rs) t.quoted ef dig let_ dec = some (isComposite t) := by
  unfold T.isCompositeToken isComposite
  rw [hkw]
  by_cases hk : t.kw = .empty
  · simp [hk]
  · simp only [hk, decide_false, Bool.false_eq_true, if_false]
    cases hrs : t.rs with
    | nil => simp [tokBytes, ints]
    | cons r rest =>
      have hr := hne r (by rw [hrs]; simp)
      have hb : tokBytes (r :: rest) = ints r.bytes ++ ints (rest.flatMap (·.bytes)) := by
        simp [tokBytes, ints]
      have hnil : ¬ (tokBytes (r :: rest) = ([] : List Int)) := by
        rw [hb]; cases hrb : r.bytes with
        | nil => exact absurd hrb hr
        | cons b bs => simp [ints]
      have hd' := hdec r rest hrs
      rw [hrs] at hd'
      simp only [if_neg hnil, hd']
      have hlen : len (tokBytes (r :: rest)) = ((r.bytes.length + byteLen rest : Nat) : Int) := by
        rw [hb]; simp [len, ints, byteLen, List.length_flatMap]
      have g : ¬ ¬ ((0 : Int) ≤ (r.bytes.length : Int) ∧ (r.bytes.length : Int) ≤ len (tokBytes (r :: rest))
          ∧ len (tokBytes (r :: rest)) ≤ len (tokBytes (r :: rest))) := by rw [hlen]; omega
      have hsl : len (slice (tokBytes (r :: rest)) (r.bytes.length : Int) (len (tokBytes (r :: rest)))) = (byteLen rest : Int) := by
        rw [hlen, hb]
        simp [slice, len, ints, byteLen, List.length_flatMap]
        omega
      rw [if_neg g, hsl]
      have hmore : ((byteLen rest : Int) > 1) ↔ (byteLen rest > 1) := by omega
      have htr := c12_t_isTokenRune r dig let_ (hd r (by rw [hrs]; simp)) (hl r (by rw [hrs]; simp))
      have e1 : ((r.cp : Int) = 45) ↔ (r.cp = 45) := by omega
      have e2 : ((r.cp : Int) = 42) ↔ (r.cp = 42) := by omega
      have e3 : ((r.cp : Int) = 57344) ↔ (r.cp = wildcardCp) := by unfold wildcardCp; omega
      simp only [hmore, htr, e1, e2, e3]
      by_cases hm : byteLen rest > 1
      · simp [hm]
      · cases hq : t.quoted <;> cases isTokenRune r <;> simp [hm]

/-- `lexer.IsEnd()` / `IsRawString()` as the model states them: nothing left, empty unquoted token; raw and quoted -/
theorem c12_t_IsEnd (q tok : List Int) (quoted : Bool) :
    T.lexer_IsEnd q tok quoted = (decide (q = []) && decide (tok = []) && !quoted) := by
  unfold T.lexer_IsEnd; cases quoted <;> simp

theorem c12_t_IsRawString (quoted raw : Bool) : T.lexer_IsRawString quoted raw = (raw && quoted) := by
  unfold T.lexer_IsRawString; cases quoted <;> cases raw <;> simp

/-- `lexer.IsKeyword(token)`: a quoted token is never a keyword -/
theorem c12_t_IsKeyword_quoted (tok kw : List Int) (ef : List Int → List Int → Bool) :
    T.lexer_IsKeyword tok true kw ef = false := by simp [T.lexer_IsKeyword]

end SV.Props.C12
