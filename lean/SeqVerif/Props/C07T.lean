import SeqVerif.Model.InverserArray
import SeqVerif.Extracted.C07T
/-!
# C07 - the inverser of the active index = mechanical translation of `frac/inverser.go`

`SV.Extracted.C07.T` is produced by `extract/cmd/c07t` (translator `extract/xlate`, prelude `Base/GoInt.lean`):
`inverser.Inverse / Len / Revert`, `inverseLIDs` (readers skip LIDs that appeared after their snapshot) and the
table-filling loop of `newInverser` (a statement slice).  The model side is `SV.ActiveIndex` (`fill`, `inverseArr`,
`inverse`, `inverseLIDs`); tables and LID lists are `List Nat` there and `ints ..` on the Go side.
-/
namespace SV.Props.C07
open SV.ActiveIndex SV.Go
open SV.Extracted.C07

/-- `inverser.Inverse(k)`: the pair (value, found) the code returns is the model's optional position -/
theorem c07_t_Inverse (inv : List Nat) (k : Nat) :
    T.inverser_Inverse (ints inv) k = some ((((inverseArr inv k).getD 0 : Nat) : Int), (inverseArr inv k).isSome) := by
  unfold T.inverser_Inverse inverseArr
  rw [len_ints]
  by_cases h : k ≥ inv.length
  · have h' : (k : Int) ≥ (inv.length : Int) := by omega
    simp [h, h']
  · have h' : ¬ (k : Int) ≥ (inv.length : Int) := by omega
    have hlt : k < inv.length := by omega
    simp only [if_neg h, if_neg h', idx_ints _ _ hlt, Option.bind_some, getD_of_lt _ _ _ hlt]
    by_cases hp : inv[k] > 0
    · have : (inv[k] : Int) > 0 := by omega
      simp [hp]
    · have h0 : inv[k] = 0 := by omega
      simp [h0]

/-- `inverser.Len()` and `inverser.Revert(i)` (1-based) -/
theorem c07_t_Len (vals : List Nat) (h : vals.length < 9223372036854775807) :
    T.inverser_Len (ints vals) = ((vals.length + 1 : Nat) : Int) := by
  unfold T.inverser_Len; rw [len_ints]; unfold wrapI64; omega

theorem c07_t_Revert (vals : List Nat) (i : Nat) (h1 : 1 ≤ i) (h2 : i ≤ vals.length) (h3 : i < 4294967296) :
    T.inverser_Revert (ints vals) i = some ((vals.getD (i - 1) 0 : Nat) : Int) := by
  unfold T.inverser_Revert
  have hw : wrapU32 ((i : Int) - 1) = ((i - 1 : Nat) : Int) := by unfold wrapU32; omega
  have hlt : i - 1 < vals.length := by omega
  rw [hw, idx_ints _ _ hlt, getD_of_lt _ _ _ hlt]; rfl

private theorem wrap_succ (i k : Nat) (h : i + k + 1 < 4611686018427387904) : wrapI64 ((i : Int) + 1) = ((i + 1 : Nat) : Int) := by
  unfold wrapI64; omega

/-- the loop `for i, v := range values { inversion[v] = i + 1 }` = `ActiveIndex.fill` (every value inside the table) -/
theorem c07_t_fill_loop (V : List Int) :
    ∀ (rest buf : List Nat) (i : Nat), (∀ v, v ∈ rest → v < buf.length) → i + rest.length < 4611686018427387904 →
      T.fill_loop0 V (ints rest) (ints buf) i = some (ints (ActiveIndex.fill buf rest i)) := by
  intro rest
  induction rest with
  | nil => intro buf i _ _; simp [T.fill_loop0, ActiveIndex.fill, ints]
  | cons v rest ih =>
    intro buf i hv hi
    have hc : ints (v :: rest) = (v : Int) :: ints rest := by simp [ints]
    have hvl : v < buf.length := hv v (by simp)
    have g : ¬ ¬ ((0 : Int) ≤ (v : Int) ∧ (v : Int) < len (ints buf)) := by rw [len_ints]; omega
    have hw := wrap_succ i rest.length (by simp only [List.length_cons] at hi; omega)
    rw [hc, T.fill_loop0, if_neg g, hw]
    simp only [ActiveIndex.fill]
    have hs : Go.set (ints buf) (v : Int) (((i + 1 : Nat) : Int)) = ints (buf.set v (i + 1)) := set_ints buf v (i + 1)
    rw [hs]
    have := ih (buf.set v (i + 1)) (i + 1) (by intro w hw'; simp; exact hv w (List.mem_cons_of_mem _ hw'))
      (by simp only [List.length_cons] at hi; omega)
    simpa using this

theorem c07_t_fill (buf values : List Nat) (hv : ∀ v, v ∈ values → v < buf.length) (hl : values.length < 4611686018427387904) :
    T.fill (ints buf) (ints values) = some (ints (ActiveIndex.fill buf values 0)) := by
  unfold T.fill
  exact c07_t_fill_loop (ints values) values buf 0 hv (by omega)

/-- one step of `inverseLIDs` on a concrete table -/
def stepArr (inv : List Nat) (lo hi v : Nat) : Option Nat :=
  match inverseArr inv v with
  | some val => if lo ≤ val ∧ val ≤ hi then some val else none
  | none => none

/-- the loop of `inverseLIDs` = `filterMap` of the model's step (table entries and borders are uint32) -/
theorem c07_t_inverseLIDs_loop (U : List Int) (inv : List Nat) (lo hi : Nat) (hinv : ∀ x, x ∈ inv → x < 4294967296) :
    ∀ (rest acc : List Nat),
      T.inverseLIDs_loop0 U (ints inv) lo hi (ints rest) (ints acc) = some (ints (acc ++ rest.filterMap (stepArr inv lo hi))) := by
  intro rest
  induction rest with
  | nil => intro acc; simp [T.inverseLIDs_loop0, ints]
  | cons v rest ih =>
    intro acc
    have hc : ints (v :: rest) = (v : Int) :: ints rest := by simp [ints]
    rw [hc, T.inverseLIDs_loop0, c07_t_Inverse]
    simp only [Option.bind_some, List.filterMap_cons, stepArr]
    cases hq : inverseArr inv v with
    | none => simp [ih acc]
    | some val =>
      have hval : val < 4294967296 := by
        unfold inverseArr at hq
        split at hq
        · simp at hq
        · split at hq
          · rename_i h1 _
            have hlt : v < inv.length := by omega
            rw [getD_of_lt _ _ _ hlt] at hq
            have := hinv _ (List.getElem_mem hlt)
            simp at hq; omega
          · simp at hq
      have hw : wrapU32 (val : Int) = (val : Int) := by unfold wrapU32; omega
      simp only [Option.getD_some, Option.isSome_some, if_true, hw]
      by_cases hb : lo ≤ val ∧ val ≤ hi
      · have hb' : (lo : Int) ≤ (val : Int) ∧ (val : Int) ≤ (hi : Int) := by omega
        have ha : ints acc ++ [(val : Int)] = ints (acc ++ [val]) := by simp [ints]
        simp only [if_pos hb, if_pos hb', ha, ih (acc ++ [val])]
        simp
      · have hb' : ¬ ((lo : Int) ≤ (val : Int) ∧ (val : Int) ≤ (hi : Int)) := by omega
        simp only [if_neg hb, if_neg hb', ih acc]

/-- **`inverseLIDs`** on the table `newInverser` builds (cleared pool buffer, then `fill`) = the list-level
`ActiveIndex.inverseLIDs` the C02/C07 theorems use: no panic, LIDs unknown to the snapshot are skipped -/
theorem c07_t_inverseLIDs (pool m unmapped : List Nat) (size lo hi : Nat) (hnd : m.Nodup) (hlt : ∀ v, v ∈ m → v < size)
    (h32 : m.length < 4294967295) :
    T.inverseLIDs (ints unmapped) (ints (newInversion pool true m size)) lo hi
      = some (ints (ActiveIndex.inverseLIDs m size lo hi unmapped)) := by
  unfold T.inverseLIDs
  have g : ¬ ¬ ((0 : Int) ≤ len (ints unmapped)) := by rw [len_ints]; omega
  rw [if_neg g]
  have hinv : ∀ x, x ∈ newInversion pool true m size → x < 4294967296 := by
    intro x hx
    obtain ⟨k, hk, rfl⟩ := List.getElem_of_mem hx
    have hk' : k < size := by simpa [newInversion, fill_length] using hk
    have := fill_getD (List.replicate size 0) m 0 k hnd (by simpa using hlt)
    have e : (newInversion pool true m size)[k] = (newInversion pool true m size).getD k 0 := (getD_of_lt _ _ _ hk).symm
    rw [e]; unfold newInversion; simp only [if_true]; rw [this]
    split
    · rename_i hm
      have := List.idxOf_lt_length_of_mem hm
      omega
    · simp [List.getD, hk']
  have := c07_t_inverseLIDs_loop (ints unmapped) _ lo hi hinv unmapped []
  have e0 : ints ([] : List Nat) = ([] : List Int) := rfl
  rw [e0] at this
  simp only [this, List.nil_append, ActiveIndex.inverseLIDs]
  have hfun : stepArr (newInversion pool true m size) lo hi = inverseOne m size lo hi := by
    funext v
    unfold stepArr inverseOne
    rw [inverseArr_cleared pool m size v hnd hlt]
    cases inverse m size v <;> rfl
  rw [hfun]

end SV.Props.C07
