import SeqVerif.Proofs.LifecycleInv
import SeqVerif.Extracted.C15
/-!
# C15 - start-up, retention and deletion are crash-safe and only drop the oldest data

Model: `SV.Lifecycle` (Model/Lifecycle.lean) on top of `SV.FileSet` (the loader) and `SV.SealOps` (sealing):
every procedure that touches a fraction's files - `NewActive`, an acknowledged bulk, `proxyFrac.Seal`,
`Active.Suicide`, `Sealed.Suicide`, and the loader itself (`FracManager.Load`, which removes files too) - is its list
of file operations in program order.  `Reach c facts orphanFatal role files` is everything that any history of these
procedures can produce when the process may die after any operation (also during start-up) and is restarted any
number of times.  The sizes of the writes, the answers of the environment to every write of sealing, and the
configuration are universally quantified.  The source contributes the extracted facts `srcFacts` (generators),
`orphanFatal` (last rule of `filterInfos`) and the operation orders (obligations `c15_x_*`).

Only property theorems and extracted-fact obligations live in this file.
-/
namespace SV.Props.C15
open SV.FileSet SV.SealOps SV.Lifecycle SV.Extracted.C15

def srcFacts : Facts :=
  { tokensGen := tokensGenPropagates, tokenTableGen := tokenTableGenPropagates,
    idsGen := idsGenPropagates, lidsGen := lidsGenPropagates }

/-- **Obligation on the source** (shared with C08): the block generators return push errors -/
theorem c15_x_generators_propagate : srcFacts.all = true := by decide

/-- **Obligation on the source**: a fraction that has `.docs`/`.sdocs` but neither `.meta` nor `.index` - which is
what a crash between the two file creations of `NewActive`, or inside `Active.Suicide`, leaves behind - does not stop
the store (`filterInfos` removes it instead of calling `logger.Fatal`). -/
theorem c15_x_orphan_not_fatal : orphanFatal = false := by decide

/-- **C15 (start-up is total; every fraction is completely served or completely gone).**  For every configuration and
every reachable state - any history of creation, ingestion, sealing (with any write failing), deletion of active and
sealed fractions and restarts, cut by a crash after any file operation, including crashes during start-up - the next
start does not die on this fraction and then serves either all of its documents or none. -/
theorem c15_startup_total (c : Cfg) (r : Role) (fs : FileSet) (h : Reach c srcFacts orphanFatal r fs) :
    (startup orphanFatal fs).1 ≠ .down ∧ (served orphanFatal fs = .all ∨ served orphanFatal fs = .none) := by
  rw [c15_x_orphan_not_fatal] at h ⊢
  exact disk_ok c fs (reach_inv c srcFacts c15_x_generators_propagate r fs h).1

/-- **C15 (what the store holds matches the disk).**  In every reachable state a fraction the running store holds as
active is a complete active fraction (empty or with all acknowledged documents) and one it holds as sealed has a
complete index and documents file; no deletion marker exists in either case. -/
theorem c15_role_matches_disk (c : Cfg) (r : Role) (fs : FileSet) (h : Reach c srcFacts orphanFatal r fs) :
    (r = .active → ¬ Del fs ∧ (ShapeE fs ∨ ShapeA c fs)) ∧ (r = .sealed → ¬ Del fs ∧ ShapeS c fs) := by
  rw [c15_x_orphan_not_fatal] at h
  exact (reach_inv c srcFacts c15_x_generators_propagate r fs h).2

/-- **C15 (a deletion that has begun is finished at the next start).**  From a sealed fraction, after any prefix of
`Sealed.Suicide` that changed anything on disk: nothing of the fraction is served, and the next start leaves neither
documents, nor index, nor deletion markers - whatever the loader does with orphans. -/
theorem c15_delete_finishes (c : Cfg) (o : Bool) (fs : FileSet) (hd : ¬ Del fs) (h : ShapeS c fs)
    (pre : List Op) (hp : pre <+: sealedSuicideOps) (hne : run pre fs ≠ fs) :
    served o (run pre fs) = .none ∧
      ((startup o (run pre fs)).2.docs = .absent ∧ (startup o (run pre fs)).2.sdocs = .absent ∧
        (startup o (run pre fs)).2.index = .absent ∧ ¬ Del (startup o (run pre fs)).2) :=
  sealedSuicide_finishes c o fs hd h pre hp hne

/-- **C15 (deleting an active fraction), partial.**  The full statement - "after any prefix of `Active.Suicide` that
changed the disk the fraction serves nothing and the next start removes its documents" - holds when no `.index`
exists next to the active files (always the case when documents are re-sorted, `c15_role_matches_disk`).
MISSING for the full statement: with `SkipSortDocs` and `KeepMetaFile` both set a sealed fraction is replayed as an
active one after a restart and keeps its `.index`; see the counterexample below. -/
theorem c15_active_delete_finishes_partial (c : Cfg) (fs : FileSet) (hd : ¬ Del fs) (h : ShapeE fs ∨ ShapeA c fs)
    (hi : fs.index = .absent) (pre : List Op) (hp : pre <+: activeSuicideOps) (hne : pre ≠ []) :
    served false (run pre fs) = .none ∧ (startup false (run pre fs)).1 = .none ∧
      (startup false (run pre fs)).2.docs = .absent ∧ (startup false (run pre fs)).2.sdocs = .absent :=
  activeSuicide_finishes c fs hd h hi pre hp hne

/-- **C15 (deleting an active fraction, documents re-sorted on sealing - the default).**  Full statement for
`SkipSortDocs = false`, whatever `KeepMetaFile` is: from any state in which the store holds the fraction as active
(`c15_role_matches_disk` gives `hd` and `h` for every reachable one), after any non-empty prefix of `Active.Suicide`
the fraction serves nothing and the next start removes its documents. -/
theorem c15_active_delete_finishes (keep : Bool) (fs : FileSet) (hd : ¬ Del fs)
    (h : ShapeE fs ∨ ShapeA ⟨false, keep⟩ fs) (pre : List Op) (hp : pre <+: activeSuicideOps) (hne : pre ≠ []) :
    served false (run pre fs) = .none ∧ (startup false (run pre fs)).1 = .none ∧
      (startup false (run pre fs)).2.docs = .absent ∧ (startup false (run pre fs)).2.sdocs = .absent := by
  have hi : fs.index = .absent := by
    rcases h with h | h
    · exact h.2.2.1
    · exact h.2.2.1 rfl
  exact activeSuicide_finishes ⟨false, keep⟩ fs hd h hi pre hp hne

/-- **Counterexample to the full statement (open finding).**  `SkipSortDocs` + `KeepMetaFile`: a sealed fraction whose
`.meta` was kept is held as active after a restart; `Active.Suicide` is cut after `.meta` is removed; the next start
loads `.docs` + `.index` as a sealed fraction and serves every document of the fraction that was being deleted. -/
theorem c15_active_delete_reappears :
    let fs : FileSet := { docs := .full, metaF := .full, index := .full }
    ShapeA ⟨true, true⟩ fs ∧ ¬ Del fs ∧ (startup false fs).1 = .active ∧
      ∀ o, served o (run (activeSuicideOps.take 1) fs) = .all := by
  refine ⟨by simp [ShapeA], by simp [Del], by decide, fun o => by cases o <;> decide⟩

/-- **C15 (retention removes the shortest prefix of the creation order).**  `shrinkSizes` on fractions in creation
order: what is removed is a prefix, what is kept fits the limit, and no shorter prefix would have been enough. -/
theorem c15_oldest_first (limit : Nat) (sizes : List Nat) :
    (shrink limit sizes).1 ++ (shrink limit sizes).2 = sizes ∧ (shrink limit sizes).2.sum ≤ limit ∧
      ∀ k, k < (shrink limit sizes).1.length → (sizes.drop k).sum > limit :=
  shrink_spec limit sizes

/-- **C15 (after start-up retention still works on the age order).**  `loader.load` lists the sealed fractions in id
(= creation) order and the replayed ones behind them in id order.  Whenever every unsealed fraction is newer than every
sealed one - the situation after any clean stop, after any crash that did not interrupt a background seal, and from the
second start after one that did (the first start seals the recovered fraction) - that list is the age order, so
`shrinkSizes` (`c15_oldest_first`) removes the oldest data first.  The exception is the recorded open finding
`restart-order-unsealed-after-sealed`.  The source facts used (one `sort.Strings(fracIDs)`, no other sort; replay
inside the loop over the unsealed fractions, no goroutine) are pinned by `c15_x_load_order`. -/
theorem c15_load_order_is_age_order (fr : List (Nat × Bool)) (hs : (fr.map (·.1)).Pairwise (· < ·))
    (h : ∀ x ∈ fr, ∀ y ∈ fr, x.2 = false → y.2 = true → x.1 < y.1) (limit : Nat) (size : Nat → Nat) :
    loadOrder fr = fr.map (·.1) ∧
      (shrink limit ((loadOrder fr).map size)).1 ++ (shrink limit ((loadOrder fr).map size)).2 = (fr.map (·.1)).map size :=
  ⟨loadOrder_age fr hs h, by rw [(shrink_spec limit _).1, loadOrder_age fr hs h]⟩

/-- **C15 (the cache file is irrelevant).**  In every reachable state the loader decides and loads the same whether
or not `.frac-cache` has an entry for the fraction (a missing, stale or unreadable cache only costs a header read). -/
theorem c15_cache_irrelevant (c : Cfg) (r : Role) (fs : FileSet) (h : Reach c srcFacts orphanFatal r fs) (cached : Bool) :
    startupCached cached orphanFatal fs = startup orphanFatal fs := by
  rw [c15_x_orphan_not_fatal] at h
  exact startupCached_irrelevant c orphanFatal fs (reach_inv c srcFacts c15_x_generators_propagate r fs h).1 cached

/-- **C15 (a cancelled start-up does not touch an unsealed fraction).**  When the start-up context is cancelled during
the replay (`Active.Replay` returns `ctx.Err()` before anything else - extracted, `c15_x_replay_cancel`) the loader has
only opened the files of a fraction it replays: the directory of an unsealed fraction is exactly what it was, so the
next start serves every acknowledged document.  What a cancelled start-up does to the other fractions is a prefix of a
complete start-up, hence covered by `c15_startup_total`. -/
theorem c15_cancelled_start_unchanged (o : Bool) (fs : FileSet) (h : classify fs = .active) (hd : fs.docs ≠ .absent) :
    run (cancelledStartOps o fs) fs = fs ∧ cancelledStartOps o fs <+: startupOps o fs :=
  ⟨cancelledStart_unchanged o fs h hd, cancelledStartOps_prefix o fs⟩

/-- **C15 (the cache is an optimisation, whatever it contains).**  For every reachable state and every shape of the
fraction's entry in `.frac-cache` - none, `null`, an object without the index size, a complete one - the loader loads
the same and leaves the same files as without a cache: a damaged cache can neither stop the start-up nor hide a
fraction.  (That `LoadFromDisk` fills the map with one `json.Unmarshal`, that `GetFracInfo` hands out the stored
pointer - `nil` for a `null` entry - and that `NewSealed` trusts an entry only with `IndexOnDisk > 0` are extracted:
`c15_x_retention_and_cache`.) -/
theorem c15_cache_entry_irrelevant (c : Cfg) (r : Role) (fs : FileSet) (h : Reach c srcFacts orphanFatal r fs)
    (e : CacheEntry) : startupWithCache e orphanFatal fs = startup orphanFatal fs :=
  c15_cache_irrelevant c r fs h e.fastPath

/-- **Why `c15_x_orphan_not_fatal` is needed (the defect found in /repo before the repair).**  With the loader as it
was (`logger.Fatal` on an orphan) a crash between the two `mustOpenFile`s of `NewActive` - reachable from nothing -
leaves a directory the store cannot start from; so does a crash inside `Active.Suicide`. -/
theorem c15_orphan_fatal_witness (c : Cfg) (f : Facts) :
    (∃ fs, Reach c f true .crashed fs ∧ (startup true fs).1 = .down) ∧
    (∃ fs, ShapeE fs ∧ (startup true (run (activeSuicideOps.take 1) fs)).1 = .down) := by
  refine ⟨⟨run [.touch .docs, .syncDir] {}, ?_, by decide⟩, ⟨{ docs := .empty, metaF := .empty }, by simp [ShapeE], by decide⟩⟩
  exact Reach.crash .newActive [.touch .docs, .syncDir] Reach.birth ⟨rfl, rfl⟩ ⟨[.touch .metaF, .syncDir], rfl⟩

/-! ## Obligations on facts re-extracted from /repo on every run -/

/-- `NewActive` opens (creating if missing, never truncating) `.docs` then `.meta`, syncing the directory after each -/
theorem c15_x_newActive :
    newActiveFiles = ["baseFileName + consts.DocsFileSuffix", "baseFileName + consts.MetaFileSuffix"] ∧
      mustOpenFileCalls = [" => os.OpenFile", "!skipFsync => util.MustSyncPath"] ∧
      mustOpenFileFlags = "os.O_CREATE | os.O_RDWR" := by decide

/-- `Active.Suicide` of a fraction that was not released removes `.meta`, then `.docs` -/
theorem c15_x_activeSuicide :
    activeSuicideBranches = ["released: f.Config.KeepMetaFile => f.removeMetaFile; f.Config.SkipSortDocs => f.removeDocsFiles",
      "not released: f.releaseMem; f.removeMetaFile; f.removeDocsFiles"] ∧
      removeMetaFileCalls = ["os.Remove(f.metaFile.Name())"] ∧ removeDocsFilesCalls = ["os.Remove(f.docsFile.Name())"] := by decide

/-- `Sealed.Suicide`: docs, sdocs, index are renamed to `.del` in this order, then the three `.del` files are removed;
`proxyFrac.Suicide` waits for a running seal before it deletes -/
theorem c15_x_sealedSuicide :
    Extracted.C15.sealedSuicideOps =
      ["rename f.BaseFileName + consts.DocsFileSuffix -> f.BaseFileName + consts.DocsDelFileSuffix",
       "rename f.BaseFileName + consts.SdocsFileSuffix -> f.BaseFileName + consts.SdocsDelFileSuffix",
       "rename f.BaseFileName + consts.IndexFileSuffix -> f.BaseFileName + consts.IndexDelFileSuffix",
       "remove f.BaseFileName + consts.DocsDelFileSuffix", "remove f.BaseFileName + consts.SdocsDelFileSuffix",
       "remove f.BaseFileName + consts.IndexDelFileSuffix"] ∧
      proxySuicideCalls = ["f.trySetSuicided", "f.sealWg.Wait", "f.trySetSuicided", "active.Suicide", "sealed.Suicide"] := by
  decide

/-- the loader: rules and branches as modelled, `removeFractionFiles` removes the `.del` files last -/
theorem c15_x_loader :
    makeInfosSkip = ["suffix == consts.IndexTmpFileSuffix || suffix == consts.SdocsTmpFileSuffix"] ∧
      filterInfosRules.take 3 = ["info.hasDocsDel || info.hasIndexDel || info.hasSdocsDel => removeFractionFiles; continue",
        "!info.hasDocs && !info.hasSdocs => continue", "info.hasMeta || info.hasIndex => keep; continue"] ∧
      filterInfosRules.length = 4 ∧
      loadBranches = ["info.hasSdocs && info.hasIndex => if hasMeta removeFile(meta); if hasDocs removeFile(docs); loadSealedFrac",
        "!(info.hasSdocs && info.hasIndex) && info.hasMeta => NewActive",
        "!(info.hasSdocs && info.hasIndex) && !(info.hasMeta) => loadSealedFrac"] ∧
      removeFractionFilesOrder = ["base + consts.IndexFileSuffix", "base + consts.DocsFileSuffix", "base + consts.SdocsFileSuffix",
        "base + consts.MetaFileSuffix", "base + consts.IndexDelFileSuffix", "base + consts.DocsDelFileSuffix",
        "base + consts.SdocsDelFileSuffix"] := by decide

/-- sealing and release as C08 has them (the operations `Proc.sealing` runs) -/
theorem c15_x_seal_order :
    sealCalls = ["os.Create", "indexFile.Seek", "writeSealedFraction", "syncRename", "util.MustSyncPath"] ∧
      syncRenameCalls = ["f.Sync", "os.Rename", "f.Close", "os.OpenFile"] ∧
      writeSortedDocsCalls = ["os.Create", "writeDocsInOrder", "syncRename"] ∧
      proxySealCalls = ["frac.Seal", "f.fp.NewSealedPreloaded", "active.Release"] ∧
      releaseCalls = ["!f.Config.KeepMetaFile => f.removeMetaFile", "!f.Config.SkipSortDocs => f.removeDocsFiles"] ∧
      sealChecksWriteError = true ∧ proxySealChecksError = true := by decide

/-- the retention loop pops the head of `fm.fracs` while the total exceeds `TotalSize`; the cache file is written
to a temporary name and renamed -/
theorem c15_x_retention_and_cache :
    shrinkLoop = ["for size > fm.config.TotalSize", "outsider := fm.shiftFirstFrac()", "if outsider == nil { break }",
      "size -= outsider.Info().FullSize()"] ∧
      shiftFirst = ["outsider := fm.fracs[0].instance", "fm.fracs[0] = nil", "fm.fracs = fm.fracs[1:]"] ∧
      saveCacheCalls = ["os.CreateTemp", "tmp.Write", "os.Rename"] ∧
      -- a cache entry is trusted (`cached = true` in `startupCached`) only when it carries the index size; an entry
      -- without sizes (older format, zeroed) is ignored and the header is read from the index
      newSealedFastPath = "info != nil && info.IndexOnDisk > 0" ∧
      -- the cache file is decoded by one json.Unmarshal into the map (entries do not share anything) and GetFracInfo
      -- returns the stored pointer (nil for a null entry, which NewSealed then ignores)
      loadFromDiskDecode = ["json.Unmarshal(content, &fc.fracCache)"] ∧ getFracInfoReturn = ["el", "ok"] := by decide

/-- `Active.Replay`: the cancellation branch of its loop returns at once; `truncateTail` is reached only after the loop
ended on EOF -/
theorem c15_x_replay_cancel :
    replayCancelBody = ["return ctx.Err()"] ∧ replayAfterLoop.take 2 = ["wg.Wait", "f.truncateTail"] ∧
      -- Replay takes `io.EOF` with a non-zero size for a torn tail and truncates there: `ReadDocBlock` has no other way
      -- to report EOF than the file really ending (no size limit on a block) - oracle: life history with a 20 MB block
      readDocBlockStmts = ["l, err := r.getDocBlockLen(offset)", "if err != nil { return nil, 0, err }",
        "buf := make([]byte, l)", "n, err := r.limiter.ReadAt(r.file, buf, offset)", "return buf, uint64(n), err"] := by
  decide

/-- `loader.load` sorts the fraction ids and nothing else, and replays the unsealed fractions one after the other inside
its loop over them (no goroutine, no re-ordering) -/
theorem c15_x_load_order :
    loadSortCalls = ["sort.Strings(fracIDs)"] ∧
      replayLoopCalls = ["a.Replay", "removeFractionFiles", "l.fracProvider.newActiveRef"] := by decide

/-! ## Non-vacuity -/

/-- reachable states exist for every role: a created and filled fraction is held as active ... -/
example (c : Cfg) (f : Facts) : Reach c f false .active (run [.fill] (run newActiveOps {})) :=
  Reach.done .fill (Reach.done .newActive Reach.birth ⟨rfl, rfl⟩) rfl

/-- ... a crash in the middle of its deletion is reachable, and so is the restart after it -/
example (c : Cfg) (f : Facts) :
    Reach c f false .crashed (run [.remove .metaF] (run [.fill] (run newActiveOps {}))) :=
  Reach.crash .activeSuicide [.remove .metaF] (Reach.done .fill (Reach.done .newActive Reach.birth ⟨rfl, rfl⟩) rfl) rfl
    ⟨[.remove .docs], rfl⟩

/-- ... and `c15_delete_finishes` has instances: a sealed fraction, deletion cut after the second rename -/
example : ¬ Del { sdocs := .full, index := .full } ∧ ShapeS ⟨false, false⟩ { sdocs := .full, index := .full } ∧
    run (sealedSuicideOps.take 2) { sdocs := .full, index := .full } ≠ { sdocs := .full, index := .full } := by
  refine ⟨by simp [Del], by simp [ShapeS], by decide⟩

example : loadOrder [(1, false), (2, false), (3, true)] = [1, 2, 3] ∧ loadOrder [(1, true), (2, false)] = [2, 1] := by decide

example : shrink 10 [4, 5, 3, 6] = ([4, 5], [3, 6]) := by decide

end SV.Props.C15
