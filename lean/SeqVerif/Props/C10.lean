import SeqVerif.Model.BulkProc
import SeqVerif.Model.BulkTime
import SeqVerif.Model.BulkMeta
import SeqVerif.Model.BulkMetaCodec
import SeqVerif.Model.BulkCompose
import SeqVerif.Model.BulkResponse
import SeqVerif.Model.BulkConfig
import SeqVerif.Model.BulkHandover
import SeqVerif.Model.BulkID
import SeqVerif.Model.CollectorLemmas
import SeqVerif.Extracted.C10
/-!
# C10 - bulk ingestion stores valid documents verbatim, timed by rule, or stores nothing

Model: `SV.Bulk` (Model/Bulk.lean: `bufio.ReadLine` with a buffer of `B` bytes, `esBulkDocReader`,
`processDocsToCompressor`, `ProcessDocuments`, docs payload), proofs in Model/BulkFrame.lean (byte-level reader =
line-level description `frame`) and Model/BulkProc.lean (processing loop, payload codec, bodies built from
entries); time rule in `SV.BulkTime` / `SV.TimeRule`.

Oracles (environment): `kind` = insane-json's verdict on a line (object / other JSON / invalid), `E.eager`,
`E.clean` = how the body stream ends, `storeOk` = result of `StoreDocuments`, `parse` = `time.Parse`/`parseESTime`.
Every theorem holds for every value of these oracles.

A request body is described as `bodyOf es trail`: entries (blank lines, an action line, a document line), then
blank lines, every line terminated by `'\n'` (`'\r'` before it belongs to the terminator).  "Within the size
limit" is `fits B line`: the line with its `'\n'` fits the reader's buffer (`\n`: up to `B-1` bytes, `\r\n`: up
to `B-2`).  Only property theorems and extracted-fact obligations live in this file.
-/
namespace SV.Props.C10
open SV.Bulk SV.BulkTime SV.TimeRule

/-- **payload round trip.**  The length-prefixed docs payload handed to `StoreDocuments` decodes to exactly the
appended documents, byte for byte (documents shorter than 2^32 bytes: Go writes `uint32(len(doc))`). -/
theorem c10_payload_roundtrip (ds : List Bytes) (h : ∀ d, d ∈ ds → d.length < 4294967296) :
    decodeDocs (encodeDocs ds).length (encodeDocs ds) = some ds :=
  decode_encode ds h

/-- **metas payload round trip.**  The metas payload (`marshalAppendMeta` per meta: length prefix, magic,
version, MID, RID, Size, tokens) splits into records and unmarshals (`MetaData.UnmarshalBinary`) to exactly the
metas appended, in order - IDs, sizes and token bytes unchanged (fields within their Go integer widths). -/
theorem c10_metas_roundtrip (ms : List MetaRec) (h : ∀ m, m ∈ ms → m.Ok)
    (hl : ∀ m, m ∈ ms → (encMeta m).length < 4294967296) :
    (decodeDocs (encodeMetas ms).length (encodeMetas ms)).bind (fun rs => rs.mapM decMeta) = some ms :=
  decode_encodeMetas ms h hl

/-- **C10 (the response lists exactly that many created items).**  For every count: the body `writeBulkResponse`
writes is `{"took":<ms>,"errors":false,"items":[` + the items + `]}`, and its items array reads back as exactly
`total` items `{"create":{"status":201}}` separated by single commas (no trailing comma, whatever the count). -/
theorem c10_response_lists_items (tookMs total : Nat) :
    bulkResponse tookMs total = respHead ++ decimal tookMs ++ respMid ++ joinItems total ++ respTail ∧
    parseItemList (writeItems total ++ respTail) = some total :=
  ⟨by rw [bulkResponse, writeItems_eq], parseItemList_response total⟩

/-- request body made of entries followed by trailing blank lines -/
def bodyOf (es : List Entry) (trail : List Bytes) : Bytes := render (es.flatMap Entry.lines ++ trail)

/-- what the property says must be stored: the document lines within the size limit that are JSON objects,
terminator removed, in order -/
def storedOf (B : Nat) (kind : Bytes → Kind) (es : List Entry) : List Bytes := objects kind (docsOf B es)

/-- **C10 (stored exactly, counted exactly).**  For every buffer size, every JSON oracle and every accepted
body (entries that pass the protocol checks, no in-limit document line that is invalid JSON, clean end of
stream, store succeeds): the single `StoreDocuments` call carries exactly the in-limit object lines, in order,
byte for byte (the payload decodes to them) with one meta per document in the same order, the response lists
exactly that many created items, and when there is nothing to store no call is made. -/
theorem c10_stored_exactly (E : Env) (hB : 2 ≤ E.B) (hB' : E.B ≤ 4294967296) (hclean : E.clean = true)
    (checkN : Nat) (kind : Bytes → Kind) (mk : Bytes → List Meta) (es : List Entry) (trail : List Bytes)
    (hnl : NoNL (es.flatMap Entry.lines ++ trail)) (hwf : WFFrom E checkN 0 es)
    (ht : ∀ b, b ∈ trail → Blank E.B b) (hvalid : ∀ d, d ∈ docsOf E.B es → kind d ≠ .invalid) :
    processDocuments E checkN kind mk true (bodyOf es trail) = acceptedWith mk (storedOf E.B kind es) ∧
    decodeDocs (encodeDocs (storedOf E.B kind es)).length (encodeDocs (storedOf E.B kind es)) =
      some (storedOf E.B kind es) := by
  constructor
  · rw [bodyOf, processDocuments_render E hB checkN kind mk true _ hnl, frame_entries E checkN trail ht es 0 hwf]
    simp only [endOf, hclean, if_true]
    exact finish_done kind mk _ hvalid
  · apply decode_encode
    intro d hd
    have hd : d ∈ docsOf E.B es := (List.mem_filter.mp hd).1
    simp only [docsOf, List.mem_filterMap] at hd
    obtain ⟨e, _, he⟩ := hd
    by_cases hf : fits E.B e.doc = true
    · simp only [hf, if_true, Option.some.injEq] at he
      subst he
      have h1 : (dropCR e.doc).length ≤ e.doc.length := by
        unfold dropCR; split <;> simp
      simp only [fits, decide_eq_true_eq] at hf
      omega
    · simp [hf] at he

/-- **C10 (every accepted request is covered).**  Conversely, for ANY body of `'\n'`-terminated lines (no
assumption on their content): if the request is answered with success, then the body IS a sequence of
well-formed entries followed by blank lines, none of its in-limit document lines is invalid JSON, and the answer
and the store call are exactly those of `c10_stored_exactly`. -/
theorem c10_accepted_characterised (E : Env) (hB : 2 ≤ E.B) (hclean : E.clean = true) (checkN : Nat)
    (kind : Bytes → Kind) (mk : Bytes → List Meta) (ls : List Bytes) (hnl : NoNL ls) (items : Nat)
    (h : (processDocuments E checkN kind mk true (render ls)).resp = .ok items) :
    ∃ es trail, ls = es.flatMap Entry.lines ++ trail ∧ WFFrom E checkN 0 es ∧ (∀ b, b ∈ trail → Blank E.B b) ∧
      (∀ d, d ∈ docsOf E.B es → kind d ≠ .invalid) ∧
      processDocuments E checkN kind mk true (render ls) = acceptedWith mk (storedOf E.B kind es) := by
  rw [processDocuments_render E hB checkN kind mk true ls hnl] at h ⊢
  cases hp : procList kind mk St.init (frame E checkN [] .action 0 ls).1 (frame E checkN [] .action 0 ls).2 with
  | err e => rw [hp] at h; cases h
  | ok st =>
    obtain ⟨hdone, hvalid⟩ := procList_ok_inv kind mk _ _ _ _ hp
    obtain ⟨es, trail, hls, hwf, ht⟩ :=
      frame_done_entries E checkN ls.length ls (Nat.le_refl _) 0 (frame E checkN [] .action 0 ls).1 (Prod.ext rfl hdone)
    have hfr := frame_entries E checkN trail ht es 0 hwf
    rw [← hls] at hfr
    refine ⟨es, trail, hls, hwf, ht, ?_, ?_⟩
    · intro d hd; exact hvalid d (by rw [hfr]; exact hd)
    · rw [← hp, hfr]
      simp only [endOf, hclean, if_true]
      exact finish_done kind mk _ (fun d hd => hvalid d (by rw [hfr]; exact hd))

/-- **C10 (skips are local).**  An entry whose document line is over the size limit or is JSON but not an
object is skipped: what is stored for `es1 ++ e :: es2` is what is stored for `es1` followed by what is stored
for `es2` - the neighbours' bytes and order are untouched. -/
theorem c10_skips_local (E : Env) (hB : 2 ≤ E.B) (hclean : E.clean = true)
    (checkN : Nat) (kind : Bytes → Kind) (mk : Bytes → List Meta) (es1 es2 : List Entry) (e : Entry) (trail : List Bytes)
    (hnl : NoNL ((es1 ++ e :: es2).flatMap Entry.lines ++ trail)) (hwf : WFFrom E checkN 0 (es1 ++ e :: es2))
    (ht : ∀ b, b ∈ trail → Blank E.B b) (hvalid : ∀ d, d ∈ docsOf E.B (es1 ++ e :: es2) → kind d ≠ .invalid)
    (hskip : fits E.B e.doc = false ∨ kind (dropCR e.doc) = .nonObject) :
    processDocuments E checkN kind mk true (bodyOf (es1 ++ e :: es2) trail) =
      acceptedWith mk (storedOf E.B kind es1 ++ storedOf E.B kind es2) := by
  rw [bodyOf, processDocuments_render E hB checkN kind mk true _ hnl, frame_entries E checkN trail ht _ 0 hwf]
  simp only [endOf, hclean, if_true]
  rw [finish_done kind mk _ hvalid]
  congr 1
  simp only [storedOf, docsOf, objects, List.filterMap_append, List.filter_append, List.filterMap_cons]
  rcases hskip with h | h
  · simp [h]
  · by_cases hf : fits E.B e.doc = true
    · simp [hf, h]
    · simp [hf]

/-- **C10 (a rejected request stores nothing), for every body whatsoever** (any bytes, terminated or not):
if the reader ends with an error (protocol error, stream error) or any line it yields is invalid JSON, the
answer is an error and `StoreDocuments` is never called. -/
theorem c10_invalid_stores_nothing (E : Env) (checkN : Nat) (kind : Bytes → Kind) (mk : Bytes → List Meta)
    (storeOk : Bool) (body : Bytes)
    (h : (∃ e, (readAll E checkN body).2 = .err e) ∨ ∃ d, d ∈ (readAll E checkN body).1 ∧ kind d = .invalid) :
    (∃ e, (processDocuments E checkN kind mk storeOk body).resp = .error e) ∧
      (processDocuments E checkN kind mk storeOk body).stored = none := by
  rw [processDocuments_eq]
  have : ∃ e', procList kind mk St.init (readAll E checkN body).1 (readAll E checkN body).2 = .err e' := by
    rcases h with ⟨e, he⟩ | h
    · rw [he]; exact procList_err kind mk e _ _
    · exact procList_invalid kind mk _ _ _ h
  obtain ⟨e', he'⟩ := this
  rw [he']
  exact ⟨⟨e', rfl⟩, rfl⟩

/-- the same on bodies built from entries: one in-limit document line that is invalid JSON rejects the whole
request, whatever the other lines are -/
theorem c10_invalid_entry_stores_nothing (E : Env) (hB : 2 ≤ E.B) (checkN : Nat) (kind : Bytes → Kind)
    (mk : Bytes → List Meta) (storeOk : Bool) (es : List Entry) (trail : List Bytes)
    (hnl : NoNL (es.flatMap Entry.lines ++ trail)) (hwf : WFFrom E checkN 0 es)
    (ht : ∀ b, b ∈ trail → Blank E.B b) (e : Entry) (he : e ∈ es) (hf : fits E.B e.doc = true)
    (hk : kind (dropCR e.doc) = .invalid) :
    (∃ x, (processDocuments E checkN kind mk storeOk (bodyOf es trail)).resp = .error x) ∧
      (processDocuments E checkN kind mk storeOk (bodyOf es trail)).stored = none := by
  apply c10_invalid_stores_nothing
  right
  rw [bodyOf, readAll_render E hB checkN _ hnl, frame_entries E checkN trail ht es 0 hwf]
  refine ⟨dropCR e.doc, ?_, hk⟩
  simp only [docsOf, List.mem_filterMap]
  exact ⟨e, he, by simp [hf]⟩

/-- no `StoreDocuments` call without a success answer or a store error: for every body, an error answer other
than the store's own error means the storage client was not called; an empty bulk is answered with 0 items and
no call; there is never more than the one call the `Result` can hold -/
theorem c10_error_means_no_call (E : Env) (checkN : Nat) (kind : Bytes → Kind) (mk : Bytes → List Meta) (storeOk : Bool)
    (body : Bytes)
    (e : Err) (h : (processDocuments E checkN kind mk storeOk body).resp = .error e) (hs : e ≠ .store) :
    (processDocuments E checkN kind mk storeOk body).stored = none := by
  rw [processDocuments_eq] at *
  cases hp : procList kind mk St.init (readAll E checkN body).1 (readAll E checkN body).2 with
  | err e' => rfl
  | ok st =>
    rw [hp] at h
    simp only [finish] at h ⊢
    split at h
    · cases h
    · split at h
      · cases h
      · injection h with h; exact absurd h.symm hs

/-- **C10 (last document line without a final newline).**  The same for a body whose last document line is not
terminated: entries, then blank lines, an action line and the unterminated remainder `tail` as the last document.
It is within the size limit iff it is shorter than the buffer (or exactly fills it when the end of the stream is
already known: `fitsTail`), it is stored as it is (no `'\r'` stripping without a `'\n'`), and an over-long one is
skipped provided the skipping does not run into the end of the stream (`tailSkipOk`; otherwise see
`c10_unterminated_oversize_rejected`). -/
theorem c10_stored_exactly_unterminated (E : Env) (hB : 2 ≤ E.B) (hclean : E.clean = true)
    (checkN : Nat) (kind : Bytes → Kind) (mk : Bytes → List Meta) (es : List Entry) (blanks : List Bytes)
    (action tail : Bytes)
    (hnl : NoNL (es.flatMap Entry.lines ++ (blanks ++ [action]))) (htail : 10 ∉ tail) (hne : tail ≠ [])
    (hwf : WFFrom E checkN 0 es) (hbl : ∀ b, b ∈ blanks → Blank E.B b)
    (ha1 : fits E.B action = true) (ha2 : dropCR action ≠ [])
    (ha3 : unknownAction checkN es.length (dropCR action) = false)
    (hvalid : ∀ d, d ∈ docsOf E.B es → kind d ≠ .invalid)
    (hlast : fitsTail E tail = true → kind tail ≠ .invalid)
    (hskip : fitsTail E tail = false → tailSkipOk E tail = true) :
    processDocuments E checkN kind mk true (render (es.flatMap Entry.lines ++ (blanks ++ [action])) ++ tail) =
      acceptedWith mk (storedOf E.B kind es ++
        (if fitsTail E tail = true ∧ kind tail = .object then [tail] else [])) := by
  rw [processDocuments_render_tail E hB checkN kind mk true _ tail hnl htail,
    frame_entries_then E checkN tail _ es 0 hwf, frame_blanks E checkN _ tail _ blanks hbl]
  simp only [Nat.zero_add, frame, ha1, ha2, ha3, Bool.not_true, Bool.false_eq_true, if_false, tailDoc, hne]
  by_cases hf : fitsTail E tail = true
  · simp only [hf, if_true, endOf, hclean, true_and]
    have hv : ∀ d, d ∈ docsOf E.B es ++ [tail] → kind d ≠ .invalid := by
      intro d hd
      rcases List.mem_append.mp hd with h | h
      · exact hvalid d h
      · simp only [List.mem_singleton] at h; subst h; exact hlast hf
    rw [finish_done kind mk _ hv]
    congr 1
    simp only [storedOf, objects, List.filter_append, List.filter_cons, List.filter_nil]
    by_cases hk : kind tail = .object <;> simp [hk]
  · have hf' : fitsTail E tail = false := by simpa using hf
    simp only [hf', Bool.false_eq_true, if_false, hskip hf', if_true, endNext, hclean, false_and, List.append_nil]
    exact finish_done kind mk _ hvalid

/-- an over-long unterminated last line whose skipping runs into the end of the stream (its length is an exact
multiple of the buffer, up to the `'\r'` put-backs) makes `ReadDoc` fail with "reading document: EOF": the whole
request is rejected and nothing is stored - the code as it is; the property's "skipped without disturbing the
neighbours" holds for terminated over-size lines (`c10_skips_local`) and for the other unterminated ones -/
theorem c10_unterminated_oversize_rejected (E : Env) (hB : 2 ≤ E.B)
    (checkN : Nat) (kind : Bytes → Kind) (mk : Bytes → List Meta) (storeOk : Bool) (es : List Entry) (blanks : List Bytes)
    (action tail : Bytes)
    (hnl : NoNL (es.flatMap Entry.lines ++ (blanks ++ [action]))) (htail : 10 ∉ tail)
    (hwf : WFFrom E checkN 0 es) (hbl : ∀ b, b ∈ blanks → Blank E.B b)
    (ha1 : fits E.B action = true) (ha2 : dropCR action ≠ [])
    (ha3 : unknownAction checkN es.length (dropCR action) = false)
    (hf : fitsTail E tail = false) (hskip : tailSkipOk E tail = false) :
    (∃ x, (processDocuments E checkN kind mk storeOk
      (render (es.flatMap Entry.lines ++ (blanks ++ [action])) ++ tail)).resp = .error x) ∧
    (processDocuments E checkN kind mk storeOk
      (render (es.flatMap Entry.lines ++ (blanks ++ [action])) ++ tail)).stored = none := by
  apply c10_invalid_stores_nothing
  left
  rw [readAll_render_tail E hB checkN _ tail hnl htail,
    frame_entries_then E checkN tail _ es 0 hwf, frame_blanks E checkN _ tail _ blanks hbl]
  have hne : tail ≠ [] := by
    intro h; subst h
    simp [fitsTail] at hf; omega
  simp [frame, ha1, ha2, ha3, tailDoc, hne, hf, hskip]

/-- the fuel of the model's loops never runs out: for every body, every buffer of at least 2 bytes (bufio's
minimum is 16) and every oracle the answer is not the model artefact `Err.fuel` -/
theorem c10_model_total (E : Env) (hB : 2 ≤ E.B) (checkN : Nat) (kind : Bytes → Kind) (mk : Bytes → List Meta)
    (storeOk : Bool) (body : Bytes) :
    (processDocuments E checkN kind mk storeOk body).resp ≠ .error .fuel := by
  obtain ⟨ls, tail, rfl, hnl, htail⟩ := exists_lines body
  rw [processDocuments_render_tail E hB checkN kind mk storeOk ls tail hnl htail]
  intro h
  cases hp : procList kind mk St.init (frame E checkN tail .action 0 ls).1 (frame E checkN tail .action 0 ls).2 with
  | err x =>
    rw [hp] at h
    simp only [finish] at h
    injection h with h
    subst h
    rcases procList_err_inv kind mk _ _ _ _ hp with h | h
    · cases h
    · exact frame_no_fuel E checkN tail ls .action 0 h
  | ok st =>
    rw [hp] at h
    simp only [finish] at h
    split at h
    · cases h
    · split at h <;> cases h

/-- **C10 (validity is a property of the whole line).**  Whatever the first byte of a line the reader yields -
`[`, `"`, `-`, a digit, `t`, `f`, `n`, `{` or anything else - if the line as a whole is not valid JSON (oracle
`kind`, a function of the complete line) the request is rejected and nothing is stored: no prefix of a line can
turn "invalid" into "skipped". -/
theorem c10_invalid_regardless_of_first_byte (E : Env) (checkN : Nat) (kind : Bytes → Kind) (mk : Bytes → List Meta)
    (storeOk : Bool) (body : Bytes) (b : Nat) (rest : Bytes)
    (hy : (b :: rest) ∈ (readAll E checkN body).1) (hk : kind (b :: rest) = .invalid) :
    (∃ e, (processDocuments E checkN kind mk storeOk body).resp = .error e) ∧
      (processDocuments E checkN kind mk storeOk body).stored = none :=
  c10_invalid_stores_nothing E checkN kind mk storeOk body (Or.inr ⟨b :: rest, hy, hk⟩)

/-- **C10 (the configured drifts are the effective drifts).**  `setDefaults`, the first statement of
`proxyapi.NewIngestor`, leaves `AllowedTimeDrift` and `FutureAllowedTimeDrift` as configured for every value,
0 included ("no drift allowed" stays "no drift allowed"): the `(drift, fut)` of the time rule are the operator's. -/
theorem c10_config_preserves_drifts (dS dE dI : Int) (c : ProxyCfg) :
    (setDefaults dS dE dI c).allowedTimeDrift = c.allowedTimeDrift ∧
    (setDefaults dS dE dI c).futureAllowedTimeDrift = c.futureAllowedTimeDrift :=
  setDefaults_drifts dS dE dI c

/-- with drift 0 / 0 a document one hour old and a document one minute ahead both get the receive time, a document
stamped exactly with the receive time keeps it -/
example : ruleTime (some (1790000000000000000 - 3600000000000)) 1790000000000000000 0 0 = 1790000000000000000 ∧
    ruleTime (some (1790000000000000000 + 60000000000)) 1790000000000000000 0 0 = 1790000000000000000 ∧
    ruleTime (some 1790000000000000000) 1790000000000000000 0 0 = 1790000000000000000 := by decide

/-- **C10 (hand-over to the store in single-binary mode).**  The store keeps the `Metas` buffer of a bulk after
`Bulk` has returned, until an index worker reads it.  With a fresh clone handed over per call (what
`inMemoryAPIClient.Bulk` does, `c10_x_in_memory_glue`), for every interleaving of accepted bulks and worker steps
every worker reads exactly the metas its task was accepted with - so what `c10_stored_exactly` hands to
`StoreDocuments` is what gets indexed.  A pooled buffer released on return does not have this property
(`SV.Handover.pooled_counterexample`). -/
theorem c10_handover_clone_safe (evs : List SV.Handover.Ev) :
    ∀ o, o ∈ (SV.Handover.run SV.Handover.stepClone evs).out → o.2 = some o.1 :=
  SV.Handover.clone_safe evs

/-- two bulks accepted before a worker runs, buffer released on return: the first task is indexed with the second
bulk's metas -/
theorem c10_handover_pooled_counterexample :
    (SV.Handover.run SV.Handover.stepPooled [.accept 1, .accept 2, .work, .work]).out = [(1, some 2), (2, some 2)] :=
  SV.Handover.pooled_counterexample

/-- **C10 (hand-over from the ingestor to the storage client).**  `ProcessDocuments` hands the pooled compressor's
own buffers to `StoreDocuments` and returns the compressor to the pool only after that call has returned
(`c10_x_compressor_lifetime`).  Under that discipline, for every interleaving of overlapping bulks, every client
call sees the blocks of its own bulk; releasing at hand-over instead is `c10_handover_pooled_counterexample`. -/
theorem c10_handover_held_safe (evs : List SV.Handover.Ev) :
    ∀ o, o ∈ (SV.Handover.run SV.Handover.stepHeld evs).out → o.2 = some o.1 :=
  SV.Handover.held_safe evs

/-- **C10 (stored exactly once: IDs do not collide by construction).**  The RID `Process` gives a document is the 48
effective random bits of its draw over the ingestor's index, unchanged by `NewID`: two documents - whatever their
times - get the same RID only if their 48 random bits and their ingestor index coincide. -/
theorem c10_rid_injective (t1 t2 : Int) (r1 r2 i1 i2 : Nat) (h1 : i1 < 65536) (h2 : i2 < 65536)
    (h : ridOf t1 r1 i1 = ridOf t2 r2 i2) : r1 % 281474976710656 = r2 % 281474976710656 ∧ i1 = i2 :=
  rid_injective t1 t2 r1 r2 i1 i2 h1 h2 h

/-- draws that differ only in bits 28..47 give different RIDs at the same instant -/
example : ridOf 1790000000000123456 (5 + 1 * 268435456) 7 ≠ ridOf 1790000000000123456 (5 + 2 * 268435456) 7 := by decide

/-- **C10 (the configured size limit is the effective one).**  The reader's buffer is `bufSize maxDocumentSize`
(`NewIngestor` hands the configured value to `NewBulkHandler` unchanged: `c10_x_size_limit_wiring`; bufio raises
anything below 16 to 16).  So for every configured limit of at least 16 bytes a document line is "within the size
limit" of all the theorems above (`fits (bufSize m) line`) iff its bytes plus the `\n` fit the CONFIGURED limit -
512 stays 512, 2048 stays 2048. -/
theorem c10_size_limit_is_configured (m : Nat) (hm : 16 ≤ m) (line : Bytes) :
    fits (bufSize m) line = true ↔ line.length + 1 ≤ m := by
  have : bufSize m = m := by
    unfold bufSize
    split
    · omega
    · rfl
  simp [fits, this]

example : bufSize 2048 = 2048 ∧ bufSize 512 = 512 ∧ bufSize 5 = 16 := by decide

/-! ## time rule -/

open SV.Extracted.C10 in
/-- E: the mechanical translation of `documentDelayed` extracted from the source is the repaired comparison
`docDelay > drift || docDelay < -futureDrift` (repository commit 5825a86; before it the code was
`TimeRule.documentDelayed`, see `c10_time_rule_counterexample`) -/
theorem c10_x_delayed_model : ∀ d p f, documentDelayedX d p f = documentDelayedRepaired d p f := by
  intro d p f
  first
    | rfl
    | (simp [documentDelayedX, documentDelayedRepaired, negWrap64, negWrap, minI]; done)

/-- **C10 (time rule).**  For the code that exists (the extracted `documentDelayedX`), every request time, every
document time - parsed or not, including instants beyond the int64 nanosecond range - and all drifts in
`[0, maxInt64)`: the ID carries the document's own time iff it parses and `-future ≤ request - doc ≤ past`, and
the receive time otherwise. -/
theorem c10_time_rule (doc : Option Int) (req drift fut : Int)
    (hd : 0 ≤ drift ∧ drift < maxI) (hf : 0 ≤ fut ∧ fut < maxI) :
    idTime SV.Extracted.C10.documentDelayedX doc req drift fut = ruleTime doc req drift fut := by
  have : SV.Extracted.C10.documentDelayedX = documentDelayedRepaired := by
    funext d p f; exact c10_x_delayed_model d p f
  rw [this]; exact idTime_repaired doc req drift fut hd hf

/-- **C10 (the metas of a stored document).**  `c10_stored_exactly` gives `metas = stored.flatMap (metasFor T I)`;
this is the value of `metasFor T I d` for a stored document `d`: first the parent meta - `Size = len(d)`, the MID of
its ID is `TimeToMID` of the document's own time when that parses and lies within the drifts and of the receive
time otherwise, and its tokens are `_all_` followed by what `indexer.Index` collects, every field through C11's
`SV.Tok.indexField` (the same definition C11's findability theorems are about) - then one meta per element of a
nested field: `Size = 0`, the same ID, `_all_`, the element's own tokens, then the parent's tokens. -/
theorem c10_stored_metas (timeOf : Bytes → Option Int) (req drift fut : Int) (I : IndexCfg) (d : Bytes)
    (hd : 0 ≤ drift ∧ drift < maxI) (hf : 0 ≤ fut ∧ fut < maxI) (hlen : d.length < 4294967296) :
    metasFor ⟨SV.Extracted.C10.documentDelayedX, timeOf, req, drift, fut⟩ I d =
      (match SV.BulkIndex.indexDoc I.c I.mp (I.tree d) with
       | [] => []
       | parent :: nested =>
         ⟨timeToMID (ruleTime (timeOf d) req drift fut), I.ridOf d, d.length, parent⟩ ::
           nested.map fun t => ⟨timeToMID (ruleTime (timeOf d) req drift fut), I.ridOf d, 0, t⟩) ∧
    SV.BulkIndex.Headed (SV.BulkIndex.indexDoc I.c I.mp (I.tree d)) := by
  refine ⟨?_, SV.BulkIndex.indexDoc_headed I.c I.mp (I.tree d)⟩
  simp only [metasFor, docMID, c10_time_rule (timeOf d) req drift fut hd hf]
  cases SV.BulkIndex.indexDoc I.c I.mp (I.tree d) with
  | nil => rfl
  | cons p ns => simp [SV.BulkIndex.docMetas, Nat.mod_eq_of_lt hlen]

/-- **C10 (created items count documents, not metas).**  The metas of one stored document are exactly one meta of
non-zero size (the parent, first) followed by size-0 metas with the same ID (one per nested element); hence in an
accepted request the number of created items (= `count` of the store call = number of stored documents,
`c10_stored_exactly`) is the number of metas with `Size ≠ 0`, whatever the number of nested metas. -/
theorem c10_items_count_documents (T : TimeCfg) (I : IndexCfg) (S : List Bytes)
    (hS : ∀ d, d ∈ S → d.length ≠ 0 ∧ d.length < 4294967296) :
    ((S.flatMap (metasFor T I)).filter fun m => m.size ≠ 0).length = S.length ∧
    ∀ d, d ∈ S → DocShaped (metasFor T I d) d := by
  have shaped : ∀ d, d ∈ S → DocShaped (metasFor T I d) d := by
    intro d hd
    obtain ⟨p, ns, h1, _, h3⟩ := SV.BulkIndex.docMetas_shape
      (docMID T.delayed (T.timeOf d) T.req T.drift T.fut) (I.ridOf d) I.c I.mp (I.tree d) d
    exact ⟨_, ns, h1, by simp [Nat.mod_eq_of_lt (hS d hd).2], (hS d hd).1, fun m hm => (h3 m hm).2.2.1⟩
  refine ⟨?_, shaped⟩
  induction S with
  | nil => rfl
  | cons d S ih =>
    obtain ⟨p, ns, hmk, hp, hd0, hns⟩ := shaped d (by simp)
    have hn : (ns.filter fun m => m.size ≠ 0) = [] := by
      apply List.filter_eq_nil_iff.mpr
      intro m hm; simp [hns m hm]
    have ih := ih (fun x hx => hS x (by simp [hx])) (fun x hx => shaped x (by simp [hx]))
    simp only [List.flatMap_cons, List.filter_append, List.length_append, hmk, List.filter_cons, hp, hd0, hn,
      ne_eq, not_false_eq_true, decide_true, if_true, List.length_cons, List.length_nil, ih]
    omega

/-- **C10 ∘ C17 (the store sees every meta at its document).**  Feed the metas of an accepted request to C17's
collector model (`SV.Collector.collect`, block `b`): its per-meta view is `layout` - the `i`-th stored document's
parent meta and all its nested metas carry the position `(b, offset of the i-th length prefix in the docs
payload)` and the token bytes `key:value` of `c10_stored_metas`.  Together with `c10_payload_roundtrip` the
position is where the document's own bytes lie. -/
theorem c10_c17_collector_view (T : TimeCfg) (I : IndexCfg) (S : List Bytes) (b : Nat)
    (hS : ∀ d, d ∈ S → d.length ≠ 0 ∧ d.length < 4294967296) :
    SV.Collector.rview (SV.Collector.collect b ((S.flatMap (metasFor T I)).map toCollector)) =
      layout b (metasFor T I) S 0 := by
  rw [(SV.Collector.collect_spec b _).2.1]
  exact docsFrom_layout b _ S 0 (0, 0) (c10_items_count_documents T I S hS).2

/-- historical, about the definition before the repair: under the extra hypothesis that the document is less
than 2^63 ns ahead of the request the old comparison obeyed the rule -/
theorem c10_time_rule_written_partial (t req drift fut : Int)
    (hd : 0 ≤ drift ∧ drift < maxI) (hf : 0 ≤ fut ∧ fut ≤ maxI) (hfit : minI < req - t) :
    idTime documentDelayed (some t) req drift fut = ruleTime (some t) req drift fut :=
  idTime_written_partial t req drift fut hd hf hfit

/-- historical: the full rule was FALSE for `documentDelayed` as written before the repair: a document stamped
2400-01-01 00:00:00 UTC received on 2026-09-25 with 24 h of allowed drift both ways keeps its own time, and the
ID gets the MID of a wrapped `UnixNano` (18446739196431077907, i.e. "year 584 million") -/
theorem c10_time_rule_counterexample :
    idTime documentDelayed (some 13569465600000000000) 1790000000000000000 86400000000000 86400000000000
      ≠ ruleTime (some 13569465600000000000) 1790000000000000000 86400000000000 86400000000000 ∧
    docMID documentDelayed (some 13569465600000000000) 1790000000000000000 86400000000000 86400000000000
      = 18446739196431077907 := by decide

/-- in-range instants: the MID of the chosen time is its millisecond count (no wrap) -/
theorem c10_mid_exact (t : Int) (h0 : 0 ≤ t) (h1 : t ≤ maxI) : (timeToMID t : Int) = t / 1000000 :=
  timeToMID_exact t h0 h1

/-- order of `extractDocTime`: first field with a non-empty value that some format parses, first such format -/
theorem c10_extract_order (nFormats : Nat) (parse : Nat → List Nat → Option Int) (v : List Nat) (vs : List (List Nat)) :
    extractDocTime nFormats parse (v :: vs) =
      if v = [] then extractDocTime nFormats parse vs
      else match (List.range nFormats).findSome? fun f => parse f v with
        | some t => some t
        | none => extractDocTime nFormats parse vs :=
  extractDocTime_cons nFormats parse v vs

/-! ## Obligations on facts re-extracted from /repo on every run -/

open SV.Extracted.C10

/-- time fields and formats are tried in the modelled order; three formats -/
theorem c10_x_time_tables :
    timeFields = ["timestamp", "time", "ts"] ∧ timeFormats = ["ESTimeFormat", "time.RFC3339Nano", "time.RFC3339"] ∧
      esTimeFormat = "2006-01-02 15:04:05.999" := by decide

/-- `extractDocTime` loops fields then formats, skips empty values, returns on the first parse -/
theorem c10_x_extract_loops :
    extractLoops = ["range consts.TimeFields", "if len(timeVal) == 0 continue", "range consts.TimeFormats", "if ok return t"] := by
  decide

/-- `Process`: saturating `Sub`, parse failure keeps the request time, a delayed document gets the request time -/
theorem c10_x_process_time :
    delayedTranslated = true ∧
    processTimeSteps = ["docTime, timeField := extractDocTime(p.decoder.Node, requestTime)",
      "docDelay := requestTime.Sub(docTime)", "if timeField == nil",
      "if documentDelayed(docDelay, p.drift, p.futureDrift)", "docTime = requestTime",
      "id := seq.NewID(docTime, (rand.Uint64()<<16)+p.proxyIndex)"] ∧
    timeToMIDSrc = "return MID(t.UnixNano() / int64(time.Millisecond))" := by decide

/-- the reader: action line then document line, the five conditions of `ReadDoc`, `actionLinesToCheck`, the
two needles, an over-long action line is an error, the buffer is sized by `maxDocumentSize` -/
theorem c10_x_reader :
    readDocOrder = ["r.skipActionLine", "r.readDoc"] ∧
    readDocConds = ["err != nil", "errors.Is(err, io.EOF)", "err != nil", "!sizeExceeded", "len(doc) == 0"] ∧
    actionNeedles = ["\"create\"", "\"index\""] ∧ actionNeedleBytes = [qCreate, qIndex] ∧
    actionPrefixIsError = true ∧ readerCtor = ["bufio.NewReaderSize(reader, maxDocumentSize)"] := by decide

/-- `ProcessDocuments`: an error of the processing loop returns before the store call, an empty bulk returns
before the store call, there is exactly one `StoreDocuments` call site -/
theorem c10_x_single_store :
    processDocumentsOrder = ["total, err = processDocsToCompressor", "if err != nil return 0, err",
      "if total == 0 return 0, nil", "if StoreDocuments; err != nil return 0, err", "return total, nil"] ∧
    storeCallsInProcessDocuments = 1 := by decide

/-- the processing loop: read, reader error returns, nil ends, `Process`, not-an-object continues, other errors
return, then length prefix + document bytes, then `total++` -/
theorem c10_x_loop :
    loopOrder = ["originalDoc = readNext", "if err != nil return fmt.Errorf", "if originalDoc == nil break",
      "doc = proc.Process", "if err != nil: if errors.Is(err, errNotAnObject) continue",
      "if err != nil return fmt.Errorf", "binaryDocs.B = binary.LittleEndian.AppendUint32",
      "binaryDocs.B = append", "total++"] := by decide

/-- the loop wraps reader and processor errors with `%s`: the handler cannot recognise `errWrongProtocol`, every
modelled failure is a 500 (`SV.Bulk.httpStatus`) -/
theorem c10_x_error_wrapping :
    loopErrorFormats = ["reading next document: %s", "processing doc: %s"] := by decide

/-- `indexer.Index`: `_all_` meta first, `decodeInternal` from the root into meta 0, then every nested meta gets
the parent's tokens except the first; `appendNestedMeta`: size 0, the parent's ID; the five tests of
`decodeInternal` in the order the model makes them; `decodeTags`: `<name>.<key>`, value of `value` -/
theorem c10_x_indexer :
    indexSteps = ["i.appendMeta(id, size)", "i.decodeInternal(node, id, nil, 0)", "for j := 1; j < len(m)",
      "m[j].Tokens = append(m[j].Tokens, parent.Tokens[1:]...)"] ∧
    nestedMeta = ["nestedMetadataSize = 0", "i.appendMeta(parent.ID, nestedMetadataSize)"] ∧
    decodeConds = ["len(name) != 0", "mainType == seq.TokenizerTypeNoop",
      "mainType == seq.TokenizerTypeObject && field.AsFieldValue().IsObject()",
      "mainType == seq.TokenizerTypeTags && field.AsFieldValue().IsArray()",
      "mainType == seq.TokenizerTypeNested && field.AsFieldValue().IsArray()"] ∧
    tagsSteps = ["fieldName := tag.Dig(\"key\").AsBytes()", "fieldName = bytes.Join([][]byte{name, fieldName}, fieldSeparator)",
      "nodeValue := encodeInsaneNode(tag.Dig(\"value\"))",
      "i.metas[tokensIndex].Tokens = i.index(i.mapping[string(fieldName)], i.metas[tokensIndex].Tokens, fieldName, nodeValue)"] := by
  decide

/-- `writeBulkResponse`: head, `took`, middle, the item loop (`for i := 0; i < total; i++`, a comma when `i != 0`,
then the item), tail - any other structure (chunking, builders) has to be re-modelled -/
theorem c10_x_response_writer :
    responseWrites = ["`{\"took\":`", "`,\"errors\":false,\"items\":[`", "for i := 0; i < total; i++", "if i != 0 `,`",
      "itemCreated", "`]}`"] ∧ responseItem = "{\"create\":{\"status\":201}}" := by decide

/-- a processor's drifts come from `newBulkProcessor(.., drift, futureDrift, ..)` only (`drift: drift`,
`futureDrift: futureDrift`; no other function assigns them), `getProcessor` passes `(AllowedTimeDrift,
FutureAllowedTimeDrift)` in that order and hands a pooled processor out unchanged - so the `(drift, fut)` of the
model's `TimeCfg` are the configured ones for every bulk, whichever processor serves it -/
theorem c10_x_drift_wiring :
    driftWiring = ["newBulkProcessor(mapping, tokenizers, drift, futureDrift, index)", "drift: drift", "futureDrift: futureDrift"] ∧
    getProcessorCalls = ["return procEface.(*processor)",
      "return newBulkProcessor(i.config.MappingProvider.GetMapping(), i.tokenizers, i.config.AllowedTimeDrift, i.config.FutureAllowedTimeDrift, index)",
      "newBulkProcessor(i.config.MappingProvider.GetMapping(), i.tokenizers, i.config.AllowedTimeDrift, i.config.FutureAllowedTimeDrift, index)"] :=
  ⟨rfl, rfl⟩

/-- `setDefaults` tests and assigns exactly three fields (search timeout, export timeout, max inflight bulks),
`NewIngestor` calls it first and builds the bulk ingestor from `config.Bulk` -/
theorem c10_x_set_defaults :
    setDefaultsAssigns = ["c.API.SearchTimeout == 0: c.API.SearchTimeout = consts.DefaultSearchTimeout",
      "c.API.ExportTimeout == 0: c.API.ExportTimeout = consts.DefaultExportTimeout",
      "c.Bulk.MaxInflightBulks == 0: c.Bulk.MaxInflightBulks = consts.IngestorMaxInflightBulks"] ∧
    newIngestorSteps = ["config.setDefaults()", "bulk.NewIngestor(config.Bulk, bulkClient)"] :=
  ⟨rfl, rfl⟩

/-- the in-memory client clones `Metas` and passes the request on; no defer, no pool -/
theorem c10_x_in_memory_glue :
    inMemoryBulk = ["in.Metas = slices.Clone(in.Metas)", "return i.store.GrpcV1().Bulk(ctx, in)"] ∧
    inMemoryBulkReleasesOrPools = false := ⟨rfl, rfl⟩

/-- `NewID` is `TimeToMID(t)` and the caller's randomness, nothing else; `Process` passes `(rand.Uint64()<<16)+p.proxyIndex`
(`c10_x_process_time`); `IngestorMaxInstances` fits the 16-bit slot -/
theorem c10_x_new_id :
    newIDBody = ["mid := TimeToMID(t)", "return ID{MID: mid, RID: RID(randomness)}"] ∧ ingestorMaxInstances ≤ 65536 :=
  ⟨rfl, by decide⟩

/-- `ProcessDocuments` holds the pooled compressor from before the processing loop until it returns (`defer`), takes
the blocks from it and passes them to the single `StoreDocuments` call -/
theorem c10_x_compressor_lifetime :
    compressorLifetime = ["compressor := frac.GetDocsMetasCompressor(i.config.DocsZSTDCompressLevel, i.config.MetasZSTDCompressLevel)",
      "defer frac.PutDocMetasCompressor(compressor)", "docs, metas := compressor.DocsMetas()",
      "i.client.StoreDocuments(ctx, total, docs, metas)"] ∧ compressorPoolUsesOutsideProcessDocuments = [] :=
  ⟨rfl, rfl⟩

/-- support code on the way in and out.  The `/_bulk` route passes the request on untouched and nothing in the
proxy's HTTP layer cuts a body short (the framing theorems are about the whole body the client sent).  The gRPC
codec returns freshly allocated slices (`MarshalVT` / `proto.Marshal`), never a pooled buffer: gRPC keeps the
slice until its transport has written it, which is the by-value discipline of `c10_handover_clone_safe`. -/
theorem c10_x_support_code :
    bulkRoute = ["h.bulk.ServeHTTP(w, req)", "return"] ∧ bulkBodyLimiters = [] ∧
    codecMarshal = ["vtMessage.MarshalVT()", "proto.Marshal(vv)", "nil"] ∧ codecUsesBytesPool = false :=
  ⟨rfl, rfl, rfl, rfl⟩

/-- `NewIngestor` builds the bulk handler with the configured `MaxDocumentSize`, nothing in between -/
theorem c10_x_size_limit_wiring :
    newIngestorBulkHandler = ["NewBulkHandler(bulkIngestor, config.Bulk.MaxDocumentSize)"] := rfl

/-! ## Non-vacuity -/

section examples

/-- `"index"` / `{}` / `1` / `x`; buffer 16 -/
private def kindEx (d : Bytes) : Kind := if d = [123, 125] then .object else if d = [49] then .nonObject else .invalid
private def E16 : Env := ⟨16, false, true⟩
private def esEx : List Entry :=
  [⟨[[13]], qIndex ++ [13], [123, 125, 13]⟩,                       -- blank "\r\n", `"index"\r\n`, `{}\r\n`
   ⟨[], qCreate, [49]⟩,                                            -- non-object `1`: skipped
   ⟨[[]], qIndex, List.replicate 16 120⟩,                          -- 16 x 'x' + '\n' exceeds the buffer: skipped
   ⟨[], qIndex, [123, 125]⟩]

private theorem wfEx : WFFrom E16 5 0 esEx := by
  refine ⟨⟨?_, ?_, ?_, ?_, ?_⟩, ⟨?_, ?_, ?_, ?_, ?_⟩, ⟨?_, ?_, ?_, ?_, ?_⟩, ⟨?_, ?_, ?_, ?_, ?_⟩, trivial⟩ <;>
    simp [E16, Blank, fits, dropCR, qIndex, qCreate, unknownAction, hasSub, List.isPrefixOf]

/-- the hypotheses of `c10_stored_exactly` / `c10_skips_local` hold for a body with `\r\n` terminators, blank
lines, a non-object and an over-size line; two documents are stored -/
private def mkEx (d : Bytes) : List Meta := [⟨7, 9, d.length, [(tokenAllEx, [])]⟩]
  where tokenAllEx : Bytes := [95, 97, 108, 108, 95]

example : processDocuments E16 5 kindEx mkEx true (bodyOf esEx [[], [13]]) =
    ⟨.ok 2, some (2, [2, 0, 0, 0, 123, 125, 2, 0, 0, 0, 123, 125], [⟨7, 9, 2, [([95, 97, 108, 108, 95], [])]⟩, ⟨7, 9, 2, [([95, 97, 108, 108, 95], [])]⟩])⟩ := by decide

example : storedOf 16 kindEx esEx = [[123, 125], [123, 125]] := by decide

example : processDocuments E16 5 kindEx mkEx true (bodyOf esEx [[], [13]]) = acceptedWith mkEx (storedOf 16 kindEx esEx) :=
  (c10_stored_exactly E16 (by decide) (by decide) rfl 5 kindEx mkEx esEx [[], [13]]
    (by decide) wfEx (by decide) (by decide)).1

/-- `c10_skips_local` on the same body: the non-object entry (index 1) is skipped, its neighbours are stored -/
example : processDocuments E16 5 kindEx mkEx true (bodyOf ([esEx[0]] ++ esEx[1] :: [esEx[2], esEx[3]]) [[], [13]]) =
    acceptedWith mkEx (storedOf 16 kindEx [esEx[0]] ++ storedOf 16 kindEx [esEx[2], esEx[3]]) :=
  c10_skips_local E16 (by decide) rfl 5 kindEx mkEx [esEx[0]] [esEx[2], esEx[3]] esEx[1] [[], [13]]
    (by decide) wfEx (by decide) (by decide) (Or.inr (by decide))

/-- a meta with the `_all_` token and a keyword token round-trips -/
example : (decodeDocs (encodeMetas [⟨1790000000000, 77, 2, [⟨[95, 97, 108, 108, 95], []⟩, ⟨[107], [118]⟩]⟩]).length
    (encodeMetas [⟨1790000000000, 77, 2, [⟨[95, 97, 108, 108, 95], []⟩, ⟨[107], [118]⟩]⟩])).bind (fun rs => rs.mapM decMeta) =
    some [⟨1790000000000, 77, 2, [⟨[95, 97, 108, 108, 95], []⟩, ⟨[107], [118]⟩]⟩] := by decide

/-- two items: one comma, no trailing comma; a trailing comma does not read back -/
example : writeItems 2 = itemCreated ++ 44 :: itemCreated ∧
    parseItemList (itemCreated ++ [44] ++ respTail) = none := by decide

section index
open SV.BulkIndex SV.Tok SV.Parser

private def rn (b : Nat) : TRn := ⟨⟨[b], b, true, false, false, b, false⟩, [b], [b]⟩
private def cfgEx : TokCfg := ⟨16, false, false, 100, true⟩
private def mpEx (k : Bytes) : MTypes :=
  if k = [107] then ⟨.leaf, [⟨[], .keyword, 0⟩]⟩                      -- k: keyword
  else if k = [115] then ⟨.nested, [⟨[], .other, 0⟩]⟩                  -- s: nested
  else if k = [115, 46, 105] then ⟨.leaf, [⟨[], .keyword, 0⟩]⟩         -- s.i: keyword
  else ⟨.noop, []⟩
/-- `{"k":"v","s":[{"i":"a"},{"i":"b"}]}` as the indexer sees it -/
private def treeEx : JV :=
  .mk [] [] .obj [([107], .mk [118] [rn 118] .other [] []),
    ([115], .mk [] [] .arr [] [.mk [] [] .obj [([105], .mk [97] [rn 97] .other [] [])] [],
                               .mk [] [] .obj [([105], .mk [98] [rn 98] .other [] [])] []])] []

/-- parent: `_all_`, `k:v`, `_exists_:k`; two nested metas: `_all_`, `s.i:a|b`, `_exists_:s.i`, then the parent's -/
example : indexDoc cfgEx mpEx treeEx =
    [[(tokenAll, []), ([107], [118]), (tokenExists, [107])],
     [(tokenAll, []), ([115, 46, 105], [97]), (tokenExists, [115, 46, 105]), ([107], [118]), (tokenExists, [107])],
     [(tokenAll, []), ([115, 46, 105], [98]), (tokenExists, [115, 46, 105]), ([107], [118]), (tokenExists, [107])]] := by
  decide +kernel

/-- hypotheses of `c10_items_count_documents` / `c10_c17_collector_view`: two stored documents of 36 bytes with
two nested metas each: 6 metas, 2 of non-zero size -/
example : ((List.replicate 2 (List.replicate 36 120)).flatMap
    (metasFor ⟨documentDelayedRepaired, fun _ => none, 5000000, 10, 10⟩ ⟨cfgEx, mpEx, fun _ => treeEx, fun _ => 3⟩)).map
      (fun m => (m.mid, m.size)) = [(5, 36), (5, 0), (5, 0), (5, 36), (5, 0), (5, 0)] := by decide +kernel

end index

/-- an invalid line after a stored one: nothing is stored -/
example : processDocuments E16 5 kindEx mkEx true (render [qIndex, [123, 125], qIndex, [120]]) = ⟨.error .badJSON, none⟩ := by
  decide

/-- hypotheses of `c10_invalid_stores_nothing` / `c10_invalid_entry_stores_nothing`: the reader does yield the
invalid line `x` -/
example : ∃ d, d ∈ (readAll E16 5 (render [qIndex, [123, 125], qIndex, [120]])).1 ∧ kindEx d = .invalid :=
  ⟨[120], by decide, by decide⟩

/-- a protocol error (unknown first action line) is an error ending of the reader -/
example : (readAll E16 5 (render [[100, 101, 108], [123, 125]])).2 = .err .unknownAction := by decide

/-- `c10_accepted_characterised`: its hypothesis holds for the accepted body above -/
example : (processDocuments E16 5 kindEx mkEx true (render (esEx.flatMap Entry.lines ++ [[], [13]]))).resp = .ok 2 := by
  decide

/-- `c10_stored_exactly_unterminated`: last document `{}` without a newline, buffer 16 -/
example : processDocuments E16 5 kindEx mkEx true (render ([esEx[0]].flatMap Entry.lines ++ ([[13]] ++ [qIndex])) ++ [123, 125]) =
    acceptedWith mkEx (storedOf 16 kindEx [esEx[0]] ++ [[123, 125]]) :=
  c10_stored_exactly_unterminated E16 (by decide) rfl 5 kindEx mkEx [esEx[0]] [[13]] qIndex [123, 125]
    (by decide) (by decide) (by decide) ⟨wfEx.1, trivial⟩ (by decide) (by decide) (by decide) (by decide) (by decide)
    (by decide) (by decide)

/-- an unterminated last line of 17 bytes (buffer 16) is skipped: 16 bytes as prefix, 1 byte as the final line -/
example : fitsTail E16 (List.replicate 17 120) = false ∧ tailSkipOk E16 (List.replicate 17 120) = true := by decide

/-- `c10_unterminated_oversize_rejected`: exactly 16 bytes (lazy end of stream): the prefix chunk is followed by
EOF, the request fails and the first document is not stored -/
example : fitsTail E16 (List.replicate 16 120) = false ∧ tailSkipOk E16 (List.replicate 16 120) = false ∧
    processDocuments E16 5 kindEx mkEx true (render [qIndex, [123, 125], qIndex] ++ List.replicate 16 120) =
      ⟨.error .readDoc, none⟩ := by decide

/-- the same 16 bytes when the stream's end arrives with the data (`eager`): one in-limit line -/
example : fitsTail ⟨16, true, true⟩ (List.replicate 16 120) = true := by decide

/-- time rule hypotheses: 24 h / 2 h drifts; an ordinary document one hour behind keeps its time, a document of
the year 2400 gets the receive time, an unparsed one gets the receive time -/
example : ruleTime (some 1789996400000000000) 1790000000000000000 86400000000000 7200000000000 = 1789996400000000000 ∧
    ruleTime (some 13569465600000000000) 1790000000000000000 86400000000000 7200000000000 = 1790000000000000000 ∧
    ruleTime none 1790000000000000000 86400000000000 7200000000000 = 1790000000000000000 ∧
    (0 ≤ (86400000000000 : Int) ∧ (86400000000000 : Int) < maxI) := by decide

/-- the old definition did obey the rule for an ordinary document (hypotheses of `c10_time_rule_written_partial`) -/
example : idTime documentDelayed (some 1789996400000000000) 1790000000000000000 86400000000000 86400000000000
    = 1789996400000000000 ∧ minI < (1790000000000000000 : Int) - 1789996400000000000 := by decide

/-- `extractDocTime`: `timestamp` present but unparsable, `time` parses with the second format -/
example : extractDocTime 3 (fun f v => if f = 1 ∧ v = [50] then some 42 else none) [[49], [50], []] = some 42 := by decide

end examples

end SV.Props.C10
