import SeqVerif.Model.Tokenizer
import SeqVerif.Extracted.C11T
/-!
# C11 - the tokenizer model's byte classes and size decisions = mechanical translation of `tokenizer/*.go`

`SV.Extracted.C11.T` is produced by `extract/cmd/c11t` (translator `extract/xlate`, prelude `Base/GoInt.lean`):
the four `init*` loops that fill the 256-entry tables (`toLowerMap`, `isASCII`, `isUpperASCII`, `isTextToken`; the
package-level arrays are parameters that the translated functions return), and statement slices of
`KeywordTokenizer.Tokenize` / `TextTokenizer.Tokenize` (effective limit, skip decision, cut length).
The model (`SV.Tok`) states the same facts as formulas: `asciiLower`, the ASCII branch of `isTextRn`, `effMax`,
`keywordTokens`, `textTokens`.
-/
namespace SV.Props.C11
open SV.Tok SV.Go
open SV.Extracted.C11

/-- the ASCII branch of `Tok.isTextRn` on a byte -/
def textByte (b : Nat) : Bool :=
  decide (97 ≤ b ∧ b ≤ 122) || decide (65 ≤ b ∧ b ≤ 90) || decide (48 ≤ b ∧ b ≤ 57) || b = 95 || b = 42

/-- `initUpperToLowerMap()` fills `toLowerMap[b] = asciiLower b` for every byte -/
theorem c11_t_initUpperToLowerMap :
    T.initUpperToLowerMap (List.replicate 256 0) = some (ints ((List.range 256).map asciiLower)) := by decide +kernel

/-- `initIsASCII()`: `isASCII[b] = (b < 128)` -/
theorem c11_t_initIsASCII :
    T.initIsASCII (List.replicate 256 false) = some ((List.range 256).map fun b => decide (b < 128)) := by decide +kernel

/-- `initIsUpperASCII()`: `isUpperASCII[b] = ('A' ≤ b ≤ 'Z')` -/
theorem c11_t_initIsUpperASCII :
    T.initIsUpperASCII (List.replicate 256 false) = some ((List.range 256).map fun b => decide (65 ≤ b ∧ b ≤ 90)) := by
  decide +kernel

/-- `initIsTextToken()`: `isTextToken[b]` is the model's text class of an ASCII rune -/
theorem c11_t_initIsTextToken :
    T.initIsTextToken (List.replicate 256 false) = some ((List.range 256).map textByte) := by decide +kernel

/-- the model's `isTextRn` on an ASCII rune is the table entry -/
theorem c11_t_isTextRn_ascii (r : TRn) (h : isAsciiRn r = true) : isTextRn r = textByte r.r.cp := by
  simp [isTextRn, textByte, h]

/-- keyword tokenizer: the skip decision and the cut length are the model's (`effMax`, `blen value` = `len(value)`) -/
theorem c11_t_kw (n fieldMax dflt : Nat) (partialIdx : Bool) (value : List Int) (hn : value.length = n) :
    T.kwSkip fieldMax dflt partialIdx value = (decide (n > effMax fieldMax dflt) && !partialIdx)
    ∧ T.kwCut fieldMax dflt value = ((min n (effMax fieldMax dflt) : Nat) : Int) := by
  unfold T.kwSkip T.kwCut effMax len
  subst hn
  by_cases h0 : fieldMax = 0
  · subst h0
    constructor
    · cases partialIdx <;> simp
    · simp; omega
  · constructor
    · cases partialIdx <;> simp [h0]
    · simp [h0]; omega

/-- text tokenizer: the same for `maxFieldValueLength` -/
theorem c11_t_text (n fieldMax dflt : Nat) (partialIdx : Bool) (value : List Int) (hn : value.length = n) :
    T.textSkip fieldMax dflt partialIdx value = (decide (n > effMax fieldMax dflt) && !partialIdx)
    ∧ T.textCut fieldMax dflt value = ((min n (effMax fieldMax dflt) : Nat) : Int) := by
  unfold T.textSkip T.textCut effMax len
  subst hn
  by_cases h0 : fieldMax = 0
  · subst h0
    constructor
    · cases partialIdx <;> simp
    · simp; omega
  · constructor
    · cases partialIdx <;> simp [h0]
    · simp [h0]; omega

end SV.Props.C11
