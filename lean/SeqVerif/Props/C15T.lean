import SeqVerif.Model.Lifecycle
import SeqVerif.Extracted.C15T
/-!
# C15 - the retention rule of the model = mechanical translation of `FracManager.shrinkSizes`' arithmetic

`SV.Extracted.C15.T` is produced by `extract/cmd/c15t` (translator `extract/xlate`, prelude `Base/GoInt.lean`):
`frac.Info.FullSize`, and two statement slices of `shrinkSizes` - the loop condition `size > fm.config.TotalSize` and
the update `size -= outsider.Info().FullSize()` (uint64 arithmetic; the fraction is an opaque value, `Info()` an
uninterpreted function, the three size fields are read through accessors).  `Lifecycle.shrink` runs the same loop on
the list of fraction sizes.
-/
namespace SV.Props.C15
open SV.Lifecycle SV.Go
open SV.Extracted.C15

/-- `Info.FullSize()` = docs + index + meta while the sum fits uint64 -/
theorem c15_t_FullSize (d m i : Nat) (h : d + i + m < 18446744073709551616) :
    T.Info_FullSize d m i = ((d + i + m : Nat) : Int) := by
  unfold T.Info_FullSize wrapU64; omega

/-- one round of the retention loop: with `size` = the sum of the remaining fraction sizes (below 2^64) and the
first fraction's `FullSize` = `s`, the loop condition is `shrink`'s test and the updated `size` is the sum of the
rest - so iterating the two slices is `Lifecycle.shrink limit (s :: rest)` -/
theorem c15_t_shrink_round (limit s : Nat) (rest : List Nat) (d m i : Nat) (hs : d + i + m = s)
    (hsum : (s :: rest).sum < 18446744073709551616) :
    T.shrinkCond ((s :: rest).sum : Nat) limit = decide ((s :: rest).sum > limit)
    ∧ T.shrinkStep (α0 := Unit) (α1 := Unit) ((s :: rest).sum : Nat) () (fun _ => ()) (fun _ => d) (fun _ => m) (fun _ => i)
        = ((rest.sum : Nat) : Int)
    ∧ shrink limit (s :: rest)
        = if (s :: rest).sum > limit then (s :: (shrink limit rest).1, (shrink limit rest).2) else ([], s :: rest) := by
  refine ⟨?_, ?_, rfl⟩
  · unfold T.shrinkCond
    generalize (s :: rest).sum = t
    by_cases h : t > limit
    · have h' : (t : Int) > (limit : Int) := by omega
      rw [decide_eq_true h, decide_eq_true h']
    · have h' : ¬ (t : Int) > (limit : Int) := by omega
      rw [decide_eq_false h, decide_eq_false h']
  · simp only [List.sum_cons] at hsum ⊢
    unfold T.shrinkStep
    rw [c15_t_FullSize d m i (by omega)]
    simp only
    unfold wrapU64; omega

end SV.Props.C15
