import SeqVerif.Model.PatternTop
import SeqVerif.Model.PatternRange
import SeqVerif.Model.PatternProvider
import SeqVerif.Model.PatternSpec
import SeqVerif.Model.PatternSpecTree
import SeqVerif.Model.PatternDigits
import SeqVerif.Extracted.C13
/-!
# C13 - token matching equals glob / range semantics, with or without dictionary narrowing

Model: `SV.Kmp` (pattern/substring.go: calcPrefFunc, findSubstring, findSequence), `SV.Pattern`
(pattern/pattern.go: literalSearch, wildcardSearch, both Narrow, rangeTextSearch, rangeNumberSearch, newSearcher,
Search; frac/token/table.go: SelectEntries; frac/sealed_index.go: GetTIDsByTokenExpr; parser.GetHint).
Specification: the inductive `Glob` (one piece of the token per term: exactly `d` for `text d`, anything for `*`),
`InText` / `InNumeric` for ranges.  `none` models a Go panic.
Only property theorems, extracted-fact obligations and non-vacuity examples live in this file.
-/
namespace SV.Props.C13
open SV.Kmp SV.Pattern SV.Greedy

/-! ## KMP -/

/-- **KMP = leftmost occurrence.**  `findSubstring` with the table built by `calcPrefFunc`, both as written in
substring.go, returns the index just after the leftmost occurrence of the (non-empty) fragment - the naive
specification `findEnd` - or -1 (`none`) when there is none. -/
theorem c13_kmp_first_occurrence (p s : List Nat) (hp : p ≠ []) :
    findSubstring s ⟨p, calcPrefFunc p⟩ = findEnd p s :=
  kmp_first_occurrence p s hp

/-- `calcPrefFunc` computes the prefix function: entry `j` is the length of the longest proper border of
`p[0..j]` (the largest `k ≤ j` such that the first `k` bytes of `p` end at position `j`). -/
theorem c13_prefFunc (p : List Nat) (hp : p ≠ []) (j : Nat) (hj : j < p.length) :
    let k := (calcPrefFunc p).getD j 0
    (k ≤ j ∧ p.take k <:+ p.tail.take j) ∧ ∀ k', k' ≤ p.length → p.take k' <:+ p.tail.take j → k' ≤ k := by
  have h := calcPrefFunc_ok p hp j hj
  refine ⟨⟨?_, h.1.2⟩, fun k' h1 h2 => h.2 k' ⟨h1, h2⟩⟩
  have := M_le_length h.1
  simp only [List.length_take] at this
  omega

/-- **KMP never indexes out of range.**  For every non-empty fragment and every text, all reads `val[cur]`,
`prefFunc[cur-1]` and the write `prefFunc[i+1]` performed by `calcPrefFunc` and `findSubstring` are in range (the
`*OK` functions replay the loops and record the runtime's index checks).  The empty fragment is the only panic. -/
theorem c13_kmp_in_range (p : List Nat) (hp : p ≠ []) :
    calcLoopOK p p.tail 0 0 (List.replicate p.length 0) = true ∧ ∀ s, findLoopOK p (calcPrefFunc p) s 0 = true :=
  kmp_in_range p hp

/-- the slice `val[len(prefix) : len(val)-len(suffix)]` of `checkMiddle` is taken only behind a guard that keeps it
in range -/
theorem c13_middle_slice_in_range (s : Wild) (val : Bytes)
    (hguard : ¬ val.length < s.middleLen + s.pre.length + s.suf.length) :
    s.pre.length ≤ val.length - s.suf.length ∧ val.length - s.suf.length ≤ val.length := by omega

/-! ## glob -/

/-- **C13 (glob).**  For every term list the parsers can produce (`WF`: non-empty, no two adjacent text terms,
no empty text term strictly inside; any number of `*`, adjacent ones included) and every token, the searcher built
by `newSearcher` for an unordered provider does not panic and its `check` accepts the token exactly when the token
matches the term list as a glob. -/
theorem c13_wildcard_iff_glob (terms : List Term) (hwf : WF terms) (v : Bytes) :
    ∃ b, checkTerms terms false v = some b ∧ (b = true ↔ Glob terms v) :=
  checkTerms_iff_glob terms hwf v

/-- the executable matcher that the driver exposes (and the harness compares with its own reference matcher) is
the inductive specification -/
theorem c13_globB_iff (terms : List Term) (v : Bytes) : globB terms v = true ↔ Glob terms v := globB_iff terms v

/-- **C13 (scan).**  `pattern.Search` over an unordered provider (the active fraction's) returns exactly the TIDs
whose token matches the glob - any dictionary, duplicates and any order allowed. -/
theorem c13_search_eq_glob (pf : Bytes → Option Int) (maxKey : Int) (terms : List Term) (hwf : WF terms)
    (base : Nat) (dict : List Bytes) :
    search pf maxKey (.literal terms) ⟨base, dict, false⟩ = some (globTids terms base dict) :=
  search_eq_globTids pf maxKey terms hwf base dict

/-- **C13 (active fraction).**  `TokenList.FindPattern` - unordered provider over the positions of the field's
tokens, then `inverseTIDs` - returns the real TIDs of exactly the field's tokens that match the glob. -/
theorem c13_active_eq_glob (pf : Bytes → Option Int) (maxKey : Int) (terms : List Term) (hwf : WF terms)
    (entries : List (Nat × Bytes)) :
    activeFind pf maxKey (.literal terms) entries = some ((entries.filter fun e => globB terms e.2).map (·.1)) :=
  activeFind_eq_glob pf maxKey terms hwf entries

/-! ## narrowing -/

/-- **C13 (narrowing).**  For a strictly sorted (hence duplicate-free) dictionary, `Search` over an ordered provider
- binary-search narrowing by `literalSearch.Narrow` / `wildcardSearch.Narrow`, then the length-only check of a
narrowed literal resp. the skipped prefix check of a narrowed wildcard - returns the same TID list as the full scan
with the full check.  Holds for every token (literal, wildcard, range, even ill-formed ones: both sides panic). -/
theorem c13_narrow_eq_scan (pf : Bytes → Option Int) (maxKey : Int) (token : Token) (base : Nat) (dict : List Bytes)
    (hs : dict.Pairwise bLt) :
    search pf maxKey token ⟨base, dict, true⟩ = search pf maxKey token ⟨base, dict, false⟩ :=
  narrow_eq_scan pf maxKey token base dict hs

/-- narrowed search = glob semantics -/
theorem c13_ordered_search_eq_glob (pf : Bytes → Option Int) (maxKey : Int) (terms : List Term) (hwf : WF terms)
    (base : Nat) (dict : List Bytes) (hs : dict.Pairwise bLt) :
    search pf maxKey (.literal terms) ⟨base, dict, true⟩ = some (globTids terms base dict) := by
  rw [narrow_eq_scan pf maxKey _ base dict hs]; exact search_eq_globTids pf maxKey terms hwf base dict

/-- **`token.Provider` is the flat dictionary.**  Over entries laid out consecutively from TID `base` on non-empty
runs, any sequence of `GetToken` calls (block lookup by `sort.Search` on the last TIDs, with the cached-block fast
path) returns `blocks.flatten[tid - base]` - so the real ordered provider is the abstract provider
`⟨base, blocks.flatten, true⟩` of the theorems above. -/
theorem c13_provider_reads_flat (base : Nat) (blocks : List (List Bytes)) (hne : ∀ b ∈ blocks, b ≠ [])
    (tids : List Nat) (hr : ∀ t ∈ tids, base ≤ t ∧ t < base + blocks.flatten.length) :
    providerGetTokens (mkEntries base blocks) blocks none tids = tids.map fun t => blocks.flatten.getD (t - base) [] :=
  providerGetTokens_eq base blocks hne tids hr none (fun _ h => by simp at h)

/-! ## token-table pre-selection -/

/-- **C13 (SelectEntries).**  For every split of a strictly sorted dictionary into non-empty blocks (`MinVal` =
first token, `MaxVal i` = last token of block `i`) and every hint: the selected range `[l, r)` lies inside the table
and every token that has the hint as a prefix lies in a selected block (in particular the block after the last one
whose `MaxVal` still starts with the hint is included). -/
theorem c13_selectEntries_sound (blocks : List (List Bytes)) (ok : BlocksOK blocks) (hint : Bytes) :
    let lr := selectEntries hint (minValOf blocks) (maxValsOf blocks)
    lr.2 ≤ blocks.length ∧
    ∀ (i : Nat) (hi : i < blocks.length) (t : Bytes), t ∈ blocks[i] → cut t hint.length = hint → lr.1 ≤ i ∧ i < lr.2 :=
  selectEntries_sound ok hint

/-- **C13 (sealed path).**  `sealedTokenIndex.GetTIDsByTokenExpr` - hint, `SelectEntries`, a provider over the
selected entries only, narrowed `Search` - returns exactly what scanning every token of the field with the full check
returns, for every token (literal or range) on which the scan does not panic and every block layout. -/
theorem c13_sealed_eq_scan (pf : Bytes → Option Int) (maxKey : Int) (token : Token) (base : Nat)
    (blocks : List (List Bytes)) (ok : BlocksOK blocks) (res : List Nat)
    (hres : search pf maxKey token ⟨base, blocks.flatten, false⟩ = some res) :
    sealedSearch pf maxKey token base blocks = some res :=
  sealed_eq_scan pf maxKey token base blocks ok res hres

/-- **C13 (one index, many leaves).**  A sequence of `GetTIDsByTokenExpr` calls on one `sealedTokenIndex` - the leaves
of one query, several conditions on the same field with longer or shorter leading literals in any order, empty hints
(`*x`, ranges), other fields in between - answers every call with the scan of that call's field by that call's token:
no call is influenced by an earlier one. -/
theorem c13_sealed_seq_stateless (pf : Bytes → Option Int) (maxKey : Int) (fields : List (Nat × List (List Bytes)))
    (hok : ∀ fb ∈ fields, BlocksOK fb.2) (calls : List (Nat × Token))
    (hc : ∀ c ∈ calls, c.1 < fields.length ∧
      (search pf maxKey c.2 ⟨(fields.getD c.1 (0, [])).1, (fields.getD c.1 (0, [])).2.flatten, false⟩).isSome = true) :
    sealedSearchSeq pf maxKey fields calls =
      calls.map fun c => search pf maxKey c.2 ⟨(fields.getD c.1 (0, [])).1, (fields.getD c.1 (0, [])).2.flatten, false⟩ :=
  sealedSearchSeq_stateless pf maxKey fields hok calls hc

/-- sealed path = glob semantics: "searching a sorted on-disk dictionary with prefix narrowing and block
pre-selection returns the same token set as scanning every token" -/
theorem c13_sealed_search_eq_glob (pf : Bytes → Option Int) (maxKey : Int) (terms : List Term) (hwf : WF terms)
    (base : Nat) (blocks : List (List Bytes)) (ok : BlocksOK blocks) :
    sealedSearch pf maxKey (.literal terms) base blocks = some (globTids terms base blocks.flatten) :=
  sealed_eq_scan pf maxKey _ base blocks ok _ (search_eq_globTids pf maxKey terms hwf base blocks.flatten)

/-! ## ranges -/

/-- **C13 (range).**  With `pf` = `strconv.ParseFloat` restricted to finite values (as order keys bounded by the key
of `MaxFloat64`): the searcher `newSearcher` builds for a range accepts a token iff EITHER every given end is a
number and the token is a number inside the interval (a token that is not a number never matches) OR some given end
is not a number and the token is inside the interval as a byte string; `[`/`]` ends are closed, `(`/`)` open, `*`
unbounded. -/
theorem c13_range (pf : Bytes → Option Int) (maxKey : Int) (hb : ∀ b x, pf b = some x → -maxKey ≤ x ∧ x ≤ maxKey)
    (r : Range) (v : Bytes) :
    rangeCheck pf maxKey r v = true ↔
      (EndsNumeric pf r ∧ InNumeric pf r v) ∨ (¬ EndsNumeric pf r ∧ InText r v) :=
  range_iff pf maxKey hb r v

/-- **C13 (plain decimal tokens of any length, closed interval).**  With `digitsNat` = the UNBOUNDED value of an
all-digit string and a ParseFloat oracle that is monotone in it (`DigitsMono`; rounding may merge neighbours but never
reverses an order): a digit-string token whose value lies in `[lo, hi]` is accepted by `[lo TO hi]` - for 19, 20, 40
or any number of digits; nothing wraps at 2^63 or 2^64. -/
theorem c13_digits_range_closed (pf : Bytes → Option Int) (maxKey : Int)
    (hb : ∀ b x, pf b = some x → -maxKey ≤ x ∧ x ≤ maxKey) (hm : DigitsMono pf)
    (lo hi v : Bytes) (a b n : Nat) (x y z : Int)
    (hlo : digitsNat lo = some a) (hhi : digitsNat hi = some b) (hv : digitsNat v = some n)
    (plo : pf lo = some x) (phi : pf hi = some y) (pv : pf v = some z) (h1 : a ≤ n) (h2 : n ≤ b) :
    rangeCheck pf maxKey ⟨some lo, some hi, true, true⟩ v = true :=
  digits_range_closed pf maxKey hb hm lo hi v a b n x y z hlo hhi hv plo phi pv h1 h2

/-- **(open interval).**  A digit-string token accepted by `(lo TO hi)` has its unbounded value strictly between the
ends.  (Ends of more than 308 digits are no numbers for ParseFloat; such a range is textual - hypotheses `plo`, `phi`.) -/
theorem c13_digits_range_open (pf : Bytes → Option Int) (maxKey : Int)
    (hb : ∀ b x, pf b = some x → -maxKey ≤ x ∧ x ≤ maxKey) (hm : DigitsMono pf)
    (lo hi v : Bytes) (a b n : Nat) (x y : Int)
    (hlo : digitsNat lo = some a) (hhi : digitsNat hi = some b) (hv : digitsNat v = some n)
    (plo : pf lo = some x) (phi : pf hi = some y)
    (h : rangeCheck pf maxKey ⟨some lo, some hi, false, false⟩ v = true) : a < n ∧ n < b :=
  digits_range_open pf maxKey hb hm lo hi v a b n x y hlo hhi hv plo phi h

/-- 2^64 + 5 = 18446744073709551621 is a 20-digit token with an unbounded value (no wrap to 5) -/
example : digitsNat [49,56,52,52,54,55,52,52,48,55,51,55,48,57,53,53,49,54,50,49] = some 18446744073709551621 := by decide

/-- **C13 (range ends verbatim).**  The ends of a range are the quoted literal's bytes as written: for any non-empty
`w` (a trailing space, a tab ...) a text range with lower end `v ++ w` does not contain the token `v`, and one with
upper end `v` does not contain `v ++ w` - keyword tokens are whole field values, so outer whitespace in an end is
significant (checked end to end from query text by the seqql.range channel). -/
theorem c13_range_ends_verbatim (r : Range) (v w : Bytes) (hw : w ≠ []) :
    (r.from_ = some (v ++ w) → r.checkText v = false) ∧ (r.to = some v → r.checkText (v ++ w) = false) :=
  range_end_suffix_significant r v w hw

/-- `["a ", "c"]` does not contain `a`; `[*, "a "]` contains `a ` -/
example : rangeCheck (fun _ => none) 100 ⟨some [97, 32], some [99], true, true⟩ [97] = false ∧
    rangeCheck (fun _ => none) 100 ⟨none, some [97, 32], true, true⟩ [97, 32] = true := by decide

/-- `rangeCheck` is the check of the searcher `newSearcher` returns for a range, over the provider's whole TID range
(ranges are never narrowed) -/
theorem c13_range_searcher (pf : Bytes → Option Int) (maxKey : Int) (r : Range) (tp : Provider) :
    ∃ s, newSearcher pf maxKey (.range r) tp = some s ∧ s.first = tp.firstTID ∧ s.lastP1 = tp.lastP1 ∧
      ∀ v, s.kind.check pf v = rangeCheck pf maxKey r v :=
  newSearcher_range pf maxKey r tp

/-- the byte-string order used by text ranges and by narrowing is a strict total order (`bytes.Compare`) -/
theorem c13_bcmp_total_order (a b c : Bytes) :
    (bcmp a b = .eq ↔ a = b) ∧ (bcmp a b = .gt ↔ bcmp b a = .lt) ∧ (bLt a b → bLt b c → bLt a c) :=
  ⟨bcmp_eq_iff a b, bcmp_gt_iff a b, bLt_trans⟩

/-! ## composition with the shared Spec (discharges C02's "pattern.Search = Leaf.valMatch is C13's job") -/

/-- the Spec's glob matcher is the inductive `Glob` of this file (hence equal to `globB`) -/
theorem c13_glob_eq_spec (terms : List Term) (v : Bytes) :
    (SV.Spec.globMatch (specTerms terms) v = true ↔ Glob terms v) ∧ SV.Spec.globMatch (specTerms terms) v = globB terms v :=
  ⟨spec_globMatch_iff terms v, spec_globMatch_eq terms v⟩

/-- the Spec's byte order is `bytes.Compare` as modelled here -/
theorem c13_bytes_order_eq_spec (a b : Bytes) :
    SV.Spec.bytesLt a b = (bcmp a b == .lt) ∧ SV.Spec.bytesLe a b = (bcmp a b != .gt) :=
  ⟨spec_bytesLt_eq a b, spec_bytesLe_eq a b⟩

/-- **range check = Spec leaf** on strings where the ParseFloat oracle and `Spec.numVal` (decimal integers) are
defined alike and order alike (`NumAgree pf S`, with the ends and the token in `S`).  The text branch needs no
such hypothesis beyond the domain agreement that selects the branch. -/
theorem c13_range_eq_spec_leaf (pf : Bytes → Option Int) (maxKey : Int)
    (hb : ∀ b x, pf b = some x → -maxKey ≤ x ∧ x ≤ maxKey) (S : Bytes → Prop) (hag : NumAgree pf S)
    (field : Bytes) (r : Range) (hf : ∀ f, r.from_ = some f → S f) (ht : ∀ t, r.to = some t → S t)
    (v : Bytes) (hv : S v) :
    rangeCheck pf maxKey r v = (specLeaf field (.range r)).valMatch v :=
  rangeCheck_eq_spec pf maxKey hb S hag field r hf ht v hv

/-- **C13 ∘ Spec.**  Every search path returns exactly the TIDs whose token satisfies the Spec's leaf predicate
`Leaf.valMatch` (`SpecOK`: literal/wildcard tokens - the parsers' well-formedness only; range tokens - finite-key
bound and `NumAgree` on the ends and the dictionary):
(1) unordered provider / scan, (2) ordered provider with narrowing over a strictly sorted dictionary,
(3) the sealed path with block pre-selection, (4) the active path `FindPattern` (real TIDs). -/
theorem c13_search_eq_spec_leaf (pf : Bytes → Option Int) (maxKey : Int) (field : Bytes) (token : Token) (base : Nat) :
    (∀ dict, SpecOK pf maxKey token dict →
      search pf maxKey token ⟨base, dict, false⟩ = some (specTids (specLeaf field token) base dict)) ∧
    (∀ dict, dict.Pairwise bLt → SpecOK pf maxKey token dict →
      search pf maxKey token ⟨base, dict, true⟩ = some (specTids (specLeaf field token) base dict)) ∧
    (∀ blocks, BlocksOK blocks → SpecOK pf maxKey token blocks.flatten →
      sealedSearch pf maxKey token base blocks = some (specTids (specLeaf field token) base blocks.flatten)) ∧
    (∀ entries : List (Nat × Bytes), SpecOK pf maxKey token (entries.map (·.2)) →
      activeFind pf maxKey token entries =
        some ((entries.filter fun e => (specLeaf field token).valMatch e.2).map (·.1))) :=
  ⟨fun dict h => search_eq_spec pf maxKey field token base dict h,
   fun dict hs h => ordered_search_eq_spec pf maxKey field token base dict hs h,
   fun blocks ok h => sealed_eq_spec pf maxKey field token base blocks ok h,
   fun entries h => active_eq_spec pf maxKey field token entries h⟩

/-- `specTids` is C02's `leafTokens` seen through TIDs: the positions of the dictionary values that satisfy
`Leaf.valMatch` -/
theorem c13_specTids_mem (l : SV.Spec.Leaf) (base : Nat) (dict : List Bytes) (tid : Nat) :
    tid ∈ specTids l base dict ↔ base ≤ tid ∧ tid < base + dict.length ∧ l.valMatch (dict.getD (tid - base) []) = true := by
  simp only [specTids, List.mem_filter, List.mem_range'_1]
  constructor
  · rintro ⟨⟨a, b⟩, c⟩; exact ⟨a, b, c⟩
  · rintro ⟨a, b, c⟩; exact ⟨⟨a, b⟩, c⟩

/-! ### the oracle-parametric Spec (`Spec/StoreNum.lean`, C02's `c02_search_eq_specWith`): no agreement hypothesis -/

/-- the range searcher is the Spec leaf under the ParseFloat reading, for every range and token (only the bound on
finite float keys is assumed: unbounded ends are `±MaxFloat64` inclusive in the code) -/
theorem c13_range_eq_spec_leafWith (pf : Bytes → Option Int) (maxKey : Int)
    (hb : ∀ b x, pf b = some x → -maxKey ≤ x ∧ x ≤ maxKey) (field : Bytes) (r : Range) (v : Bytes) :
    rangeCheck pf maxKey r v = (specLeaf field (.range r)).valMatchWith pf v :=
  rangeCheck_eq_specWith pf maxKey hb field r v

/-- TID level: all four search paths return the TIDs whose token satisfies `valMatchWith pf` -/
theorem c13_search_eq_spec_tidsWith (pf : Bytes → Option Int) (maxKey : Int) (field : Bytes) (token : Token) (base : Nat)
    (hok : SpecOKWith pf maxKey token) :
    (∀ dict, search pf maxKey token ⟨base, dict, false⟩ = some (specTidsWith pf (specLeaf field token) base dict)) ∧
    (∀ dict, dict.Pairwise bLt →
      search pf maxKey token ⟨base, dict, true⟩ = some (specTidsWith pf (specLeaf field token) base dict)) ∧
    (∀ blocks, BlocksOK blocks →
      sealedSearch pf maxKey token base blocks = some (specTidsWith pf (specLeaf field token) base blocks.flatten)) ∧
    (∀ entries : List (Nat × Bytes), activeFind pf maxKey token entries =
        some ((entries.filter fun e => (specLeaf field token).valMatchWith pf e.2).map (·.1))) :=
  ⟨fun dict => search_eq_specWith pf maxKey field token base dict hok,
   fun dict hs => ordered_search_eq_specWith pf maxKey field token base dict hs hok,
   fun blocks ok => sealed_eq_specWith pf maxKey field token base blocks ok hok,
   fun entries => active_eq_specWith pf maxKey field token entries hok⟩

/-- **C13 ∘ C02.**  For an index `idx` of C02's model, the field's dictionary is `fieldDict idx field` (the field's
entries in index order, TID `base + i` = entry `i`).  On each of the four search paths the entries at the returned
TIDs are, syntactically, `EvalTree.leafTokensWith pf idx (specLeaf field token)` - the token set C02's
`c02_search_eq_specWith` starts from.  Hypothesis: `SpecOKWith` only (parsers' well-formedness for literal/wildcard
tokens, bounded float keys for ranges). -/
theorem c13_search_eq_spec_leafWith (pf : Bytes → Option Int) (maxKey : Int) (idx : SV.EvalTree.Index) (field : Bytes)
    (token : Token) (base : Nat) (hok : SpecOKWith pf maxKey token) :
    (∃ tids, search pf maxKey token ⟨base, fieldDict idx field, false⟩ = some tids ∧
      pick idx field base tids = SV.EvalTree.leafTokensWith pf idx (specLeaf field token)) ∧
    ((fieldDict idx field).Pairwise bLt →
      ∃ tids, search pf maxKey token ⟨base, fieldDict idx field, true⟩ = some tids ∧
        pick idx field base tids = SV.EvalTree.leafTokensWith pf idx (specLeaf field token)) ∧
    (∀ blocks, BlocksOK blocks → blocks.flatten = fieldDict idx field →
      ∃ tids, sealedSearch pf maxKey token base blocks = some tids ∧
        pick idx field base tids = SV.EvalTree.leafTokensWith pf idx (specLeaf field token)) ∧
    (∀ entries : List (Nat × Bytes), entries.map (·.2) = fieldDict idx field →
      ∃ ps, search pf maxKey token ⟨1, fieldDict idx field, false⟩ = some ps ∧
        activeFind pf maxKey token entries = some (ps.map fun p => (entries.getD (p - 1) (0, [])).1) ∧
        pick idx field 1 ps = SV.EvalTree.leafTokensWith pf idx (specLeaf field token)) := by
  refine ⟨⟨_, search_eq_specWith pf maxKey field token base _ hok, pick_specTidsWith pf idx field token base⟩,
    fun hs => ⟨_, ordered_search_eq_specWith pf maxKey field token base _ hs hok, pick_specTidsWith pf idx field token base⟩,
    fun blocks ok hfl => ⟨_, by rw [← hfl]; exact sealed_eq_specWith pf maxKey field token base blocks ok hok,
      pick_specTidsWith pf idx field token base⟩,
    fun entries he => ⟨_, search_eq_specWith pf maxKey field token 1 _ hok, ?_, pick_specTidsWith pf idx field token 1⟩⟩
  simp only [activeFind, he, search_eq_specWith pf maxKey field token 1 _ hok, Option.map_some]

/-- the fixed Spec (`valMatch`, reading `numVal`) is recovered from the parametric one where the two readings agree:
under `NumAgree` on the range ends and the dictionary, `valMatchWith pf` and `valMatch` select the same TIDs
(`c13_search_eq_spec_leaf` above is this corollary; `specTidsWith numVal = specTids` holds by definition) -/
theorem c13_spec_leafWith_agrees (pf : Bytes → Option Int) (maxKey : Int) (field : Bytes) (token : Token) (base : Nat)
    (dict : List Bytes) (hok : SpecOK pf maxKey token dict) (hokw : SpecOKWith pf maxKey token) :
    specTidsWith pf (specLeaf field token) base dict = specTids (specLeaf field token) base dict ∧
    specTidsWith SV.Spec.numVal (specLeaf field token) base dict = specTids (specLeaf field token) base dict := by
  refine ⟨?_, specTidsWith_numVal _ base dict⟩
  have h1 := search_eq_specWith pf maxKey field token base dict hokw
  have h2 := search_eq_spec pf maxKey field token base dict hok
  rw [h1] at h2
  exact Option.some.inj h2

/-! ### where the Spec's `numVal` (decimal integers) and the code's `ParseFloat` genuinely differ
(each `pf` below is a table of what `strconv.ParseFloat` answers, as order keys) -/

/-- W1: `[1 TO 2]` and the token `1.5`: the code compares numbers and accepts; the Spec does not know `1.5` as a
number, so in a numeric range it never matches -/
example :
    rangeCheck (fun b => if b = [49] then some 10 else if b = [50] then some 20 else if b = [49, 46, 53] then some 15 else none)
      100 ⟨some [49], some [50], true, true⟩ [49, 46, 53] = true ∧
    (specLeaf [] (.range ⟨some [49], some [50], true, true⟩)).valMatch [49, 46, 53] = false := by decide
/-- W2: `[1.5 TO 2]` and the token `100`: the code is numeric (rejects), the Spec falls back to text (accepts) -/
example :
    rangeCheck (fun b => if b = [49, 46, 53] then some 15 else if b = [50] then some 20 else if b = [49, 48, 48] then some 1000 else none)
      10000 ⟨some [49, 46, 53], some [50], true, true⟩ [49, 48, 48] = false ∧
    (specLeaf [] (.range ⟨some [49, 46, 53], some [50], true, true⟩)).valMatch [49, 48, 48] = true := by decide
/-- W3: `(9007199254740992 TO *]` and the token `9007199254740993`: both strings parse to the same float64, so the
code rejects; as integers the token is larger, so the Spec accepts -/
example :
    rangeCheck (fun b => if b = [57,48,48,55,49,57,57,50,53,52,55,52,48,57,57,50] ∨ b = [57,48,48,55,49,57,57,50,53,52,55,52,48,57,57,51]
        then some 4845873199050653696 else none)
      maxFloatKey ⟨some [57,48,48,55,49,57,57,50,53,52,55,52,48,57,57,50], none, false, true⟩
        [57,48,48,55,49,57,57,50,53,52,55,52,48,57,57,51] = false ∧
    (specLeaf [] (.range ⟨some [57,48,48,55,49,57,57,50,53,52,55,52,48,57,57,50], none, false, true⟩)).valMatch
        [57,48,48,55,49,57,57,50,53,52,55,52,48,57,57,51] = true := by decide

/-! ## Non-vacuity -/

/-- `ab*ba` does not match `aba` (prefix and suffix would overlap) but matches `abba` -/
example : checkTerms [.text [97, 98], .star, .text [98, 97]] false [97, 98, 97] = some false := by decide
example : checkTerms [.text [97, 98], .star, .text [98, 97]] false [97, 98, 98, 97] = some true := by decide
example : WF [.text [97, 98], .star, .star, .text [99], .star, .text [98, 97]] := by unfold WF; decide
example : checkTerms [.text [97, 98], .star, .star, .text [99], .star, .text [98, 97]] false [97, 98, 99, 99, 98, 97] = some true := by
  decide
/-- without well-formedness the glob statement is false: adjacent text terms `a` `b` accept `axb` -/
example : checkTerms [.text [97], .text [98]] false [97, 120, 98] = some true ∧ ¬ Glob [.text [97], .text [98]] [97, 120, 98] :=
  ⟨by decide, by rw [← globB_iff]; simp [globB]⟩
/-- an empty middle fragment panics in Go (`s.val[1:]`) -/
example : checkTerms [.star, .text [], .star] false [97] = none := by decide
example : findSubstring [97, 98, 97, 98, 97, 99] ⟨[97, 98, 97, 99], calcPrefFunc [97, 98, 97, 99]⟩ = some 6 := by decide
/-- a sorted dictionary in two blocks `[a, ab] [b, ba]`, hint `b`: both blocks selected, `b*` finds TIDs 3 and 4 -/
example : BlocksOK [[[97], [97, 98]], [[98], [98, 97]]] :=
  ⟨by simp, by simp, by decide⟩
example : selectEntries [98] (minValOf [[[97], [97, 98]], [[98], [98, 97]]]) (maxValsOf [[[97], [97, 98]], [[98], [98, 97]]]) = (1, 2) := by
  simp [selectEntries, SV.searchGo, minValOf, maxValsOf, bcmp, cut]
example : sealedSearch (fun _ => none) maxFloatKey (.literal [.text [98], .star]) 1 [[[97], [97, 98]], [[98], [98, 97]]] = some [3, 4] := by
  simp [sealedSearch, getHint, selectEntries, SV.searchGo, minValOf, maxValsOf, bcmp, cut, search, newSearcher, newWildcardSearch,
    narrowWild, binSearch, Provider.firstTID, Provider.lastP1, Provider.getToken, Searcher.run, Kind.check, Wild.check,
    Wild.checkPrefix, Wild.checkSuffix, Wild.checkMiddle, middleTerms, newSubstringPatterns, Term.isText, Term.data, List.range']
/-- narrowing needs sortedness: on an unsorted "ordered" provider the narrowed search loses `b` -/
example : search (fun _ => none) maxFloatKey (.literal [.text [98]]) ⟨1, [[99], [98], [97]], true⟩ = some [] ∧
    search (fun _ => none) maxFloatKey (.literal [.text [98]]) ⟨1, [[99], [98], [97]], false⟩ = some [2] := by
  simp [search, newSearcher, narrowLit, binSearch, SV.searchGo, Provider.firstTID, Provider.lastP1, Provider.getToken, Searcher.run,
    Kind.check, Lit.check, bcmp, List.range']
/-- `[1 TO 10]` is numeric: `9` (key 9) is inside although `"9" > "10"` as text; `abc` is not a number -/
example : rangeCheck (fun b => if b = [49] then some 1 else if b = [49, 48] then some 10 else if b = [57] then some 9 else none)
    100 ⟨some [49], some [49, 48], true, true⟩ [57] = true := by decide
example : rangeCheck (fun b => if b = [49] then some 1 else if b = [49, 48] then some 10 else if b = [57] then some 9 else none)
    100 ⟨some [49], some [49, 48], true, true⟩ [97, 98, 99] = false := by decide
/-- `[1 TO b]`: one end is not a number, so the comparison is textual and `9` is inside -/
example : rangeCheck (fun b => if b = [49] then some 1 else if b = [57] then some 9 else none)
    100 ⟨some [49], some [98], true, true⟩ [57] = true := by decide

/-! ## Obligations on facts re-extracted from /repo on every run: the statement skeletons the model follows -/

theorem c13_x_calcPrefFunc : SV.Extracted.C13.calcPrefFunc =
    ["curPrefFunc := int32(0)", "range i, b := s.val[1:]", "for ; curPrefFunc > 0 && b != s.val[curPrefFunc]; ", "curPrefFunc = s.prefFunc[curPrefFunc-1]", "if b == s.val[curPrefFunc]", "curPrefFunc++", "s.prefFunc[i+1] = curPrefFunc"] := rfl

theorem c13_x_findSubstring : SV.Extracted.C13.findSubstring =
    ["curPrefFunc := int32(0)", "range i, b := s", "for ; curPrefFunc > 0 && b != to.val[curPrefFunc]; ", "curPrefFunc = to.prefFunc[curPrefFunc-1]", "if b == to.val[curPrefFunc]", "curPrefFunc++", "if curPrefFunc == int32(len(to.val))", "return i + 1", "return -1"] := rfl

theorem c13_x_findSequence : SV.Extracted.C13.findSequence =
    ["for cur := 0; cur < len(to); cur++", "cur := 0", "cur++", "end := findSubstring(s, to[cur])", "if end == -1", "return cur", "s = s[end:]", "return len(to)"] := rfl

theorem c13_x_newSubstringPattern : SV.Extracted.C13.newSubstringPattern =
    ["s := substring{val: str, prefFunc: make([]int32, len(str))}", "s.calcPrefFunc()", "return &s"] := rfl

theorem c13_x_newLiteralSearch : SV.Extracted.C13.newLiteralSearch =
    ["if len(token.Terms) != 1 || token.Terms[0].Kind != parser.TermText", "return nil", "return &literalSearch{ baseSearch: base, value: []byte(token.Terms[0].Data), }"] := rfl

theorem c13_x_literalNarrow : SV.Extracted.C13.literalNarrow =
    ["s.narrowed = true", "s.first = util.BinSearchInRange(s.first, s.last, func(tid int) bool { return bytes.Compare(tp.GetToken(uint32(tid)), s.value) >= 0 })", "return bytes.Compare(tp.GetToken(uint32(tid)), s.value) >= 0", "if s.first <= s.last && bytes.Equal(tp.GetToken(uint32(s.first)), s.value)", "s.last = s.first", "return", "s.last = s.first - 1"] := rfl

theorem c13_x_literalCheck : SV.Extracted.C13.literalCheck =
    ["if s.narrowed", "return len(s.value) == len(val)", "return bytes.Equal(s.value, val)"] := rfl

theorem c13_x_newWildcardSearch : SV.Extracted.C13.newWildcardSearch =
    ["s := &wildcardSearch{ baseSearch: base, }", "terms := token.Terms", "if terms[0].Kind == parser.TermText", "s.prefix = []byte(terms[0].Data)", "if terms[len(terms)-1].Kind == parser.TermText", "s.suffix = []byte(terms[len(terms)-1].Data)", "for i := 1; i < len(terms)-1; i++", "i := 1", "i++", "if terms[i].Kind == parser.TermText", "term := newSubstringPattern([]byte(terms[i].Data))", "s.middle = append(s.middle, term)", "s.middleLen += len(terms[i].Data)", "return s"] := rfl

theorem c13_x_patternCut : SV.Extracted.C13.patternCut =
    ["return b[:min(len(b), l)]"] := rfl

theorem c13_x_wildcardNarrow : SV.Extracted.C13.wildcardNarrow =
    ["s.narrowed = true", "l := len(s.prefix)", "s.first = util.BinSearchInRange(s.first, s.last, func(tid int) bool { tokenPrefix := cut(tp.GetToken(uint32(tid)), l) return bytes.Compare(tokenPrefix, s.prefix) >= 0 })", "tokenPrefix := cut(tp.GetToken(uint32(tid)), l)", "return bytes.Compare(tokenPrefix, s.prefix) >= 0", "s.last = util.BinSearchInRange(s.first, s.last, func(tid int) bool { tokenPrefix := cut(tp.GetToken(uint32(tid)), l) return bytes.Compare(tokenPrefix, s.prefix) > 0 }) - 1", "tokenPrefix := cut(tp.GetToken(uint32(tid)), l)", "return bytes.Compare(tokenPrefix, s.prefix) > 0"] := rfl

theorem c13_x_checkPrefix : SV.Extracted.C13.checkPrefix =
    ["if s.narrowed || len(s.prefix) == 0", "return true", "if len(s.prefix) > len(val)", "return false", "return bytes.Equal(s.prefix, val[:len(s.prefix)])"] := rfl

theorem c13_x_checkSuffix : SV.Extracted.C13.checkSuffix =
    ["if len(s.suffix) == 0", "return true", "if len(val)-len(s.prefix) < len(s.suffix)", "return false", "return bytes.Equal(val[len(val)-len(s.suffix):], s.suffix)"] := rfl

theorem c13_x_checkMiddle : SV.Extracted.C13.checkMiddle =
    ["if len(s.middle) == 0", "return true", "if len(val)-len(s.prefix)-len(s.suffix) < s.middleLen", "return false", "return findSequence(val[len(s.prefix):len(val)-len(s.suffix)], s.middle) == len(s.middle)"] := rfl

theorem c13_x_wildcardCheck : SV.Extracted.C13.wildcardCheck =
    ["return s.checkPrefix(val) && s.checkSuffix(val) && s.checkMiddle(val)"] := rfl

theorem c13_x_rangeTextCheck : SV.Extracted.C13.rangeTextCheck =
    ["valStr := string(val)", "if s.token.From.Kind != parser.TermSymbol", "if s.token.IncludeFrom", "if !(s.token.From.Data <= valStr)", "return false", "if !(s.token.From.Data < valStr)", "return false", "if s.token.To.Kind != parser.TermSymbol", "if s.token.IncludeTo", "if !(valStr <= s.token.To.Data)", "return false", "if !(valStr < s.token.To.Data)", "return false", "return true"] := rfl

theorem c13_x_newRangeNumberSearch : SV.Extracted.C13.newRangeNumberSearch =
    ["s := &rangeNumberSearch{ baseSearch: base, }", "if token.From.Kind == parser.TermSymbol", "s.from = -math.MaxFloat64", "s.includeFrom = true", "s.from, err = strconv.ParseFloat(token.From.Data, 64)", "s.includeFrom = token.IncludeFrom", "if err != nil || isNaNOrInf(s.from)", "return nil", "if token.To.Kind == parser.TermSymbol", "s.to = math.MaxFloat64", "s.includeTo = true", "s.to, err = strconv.ParseFloat(token.To.Data, 64)", "s.includeTo = token.IncludeTo", "if err != nil || isNaNOrInf(s.to)", "return nil", "return s"] := rfl

theorem c13_x_rangeNumberCheck : SV.Extracted.C13.rangeNumberCheck =
    ["val, err := strconv.ParseFloat(string(rawVal), 64)", "if err != nil || isNaNOrInf(val)", "return false", "if s.includeFrom", "if !(s.from <= val)", "return false", "if !(s.from < val)", "return false", "if s.includeTo", "if !(val <= s.to)", "return false", "if !(val < s.to)", "return false", "return true"] := rfl

theorem c13_x_newSearcher : SV.Extracted.C13.newSearcher =
    ["base := baseSearch{ first: int(tp.FirstTID()), last: int(tp.LastTID()), }", "t := token.(type)", "case {*parser.Literal}", "if s := newLiteralSearch(base, t); s != nil", "s := newLiteralSearch(base, t)", "if tp.Ordered()", "s.Narrow(tp)", "return s", "s := newWildcardSearch(base, t)", "if tp.Ordered()", "s.Narrow(tp)", "return s", "case {*parser.Range}", "if s := NewRangeNumberSearch(base, t); s != nil", "s := NewRangeNumberSearch(base, t)", "return s", "return newRangeTextSearch(base, t)", "panic(fmt.Sprintf(\"unknown token type: %T\", token))"] := rfl

theorem c13_x_search : SV.Extracted.C13.search =
    ["tids := []uint32{}", "s := newSearcher(t, tp)", "for tid := s.firstTID(); tid <= s.lastTID(); tid++", "tid := s.firstTID()", "tid++", "if util.IsCancelled(ctx)", "return nil, ctx.Err()", "if s.check(tp.GetToken(tid))", "tids = append(tids, tid)", "return tids, nil"] := rfl

theorem c13_x_tableCut : SV.Extracted.C13.tableCut =
    ["if len(s) > l", "return s[:l]", "return s"] := rfl

theorem c13_x_selectEntries : SV.Extracted.C13.selectEntries =
    ["data, ok := t[field]", "if !ok", "return nil", "if hint == \"\"", "return data.Entries", "hintLen := len(hint)", "if hint < cut(data.MinVal, hintLen)", "return data.Entries[:0]", "r := 1 + sort.Search(len(data.Entries)-1, func(i int) bool { return hint < cut(data.Entries[i].MaxVal, hintLen) })", "return hint < cut(data.Entries[i].MaxVal, hintLen)", "l := sort.Search(r, func(i int) bool { return hint <= cut(data.Entries[i].MaxVal, hintLen) })", "return hint <= cut(data.Entries[i].MaxVal, hintLen)", "return data.Entries[l:r]"] := rfl

theorem c13_x_providerFirstTID : SV.Extracted.C13.providerFirstTID =
    ["return tp.entries[0].StartTID"] := rfl

theorem c13_x_providerLastTID : SV.Extracted.C13.providerLastTID =
    ["return tp.entries[len(tp.entries)-1].getLastTID()"] := rfl

theorem c13_x_providerOrdered : SV.Extracted.C13.providerOrdered =
    ["return true"] := rfl

theorem c13_x_providerFindBlock : SV.Extracted.C13.providerFindBlock =
    ["if tp.curBlockIndex >= 0 && tp.entries[tp.curBlockIndex].checkTIDInBlock(tid)", "return tp.curBlockIndex", "return sort.Search(len(tp.entries), func(blockIndex int) bool { return tid <= tp.entries[blockIndex].getLastTID() })", "return tid <= tp.entries[blockIndex].getLastTID()"] := rfl

theorem c13_x_providerGetToken : SV.Extracted.C13.providerGetToken =
    ["blockIndex := tp.findBlock(tid)", "if blockIndex != tp.curBlockIndex", "tp.curBlockIndex = blockIndex", "tp.curTokensBlock = tp.loader.Load(tp.entries[blockIndex])", "return tp.curTokensBlock.GetValByTID(tid)"] := rfl

theorem c13_x_entryGetLastTID : SV.Extracted.C13.entryGetLastTID =
    ["return t.StartTID + t.ValCount - 1"] := rfl

theorem c13_x_entryCheckTIDInBlock : SV.Extracted.C13.entryCheckTIDInBlock =
    ["if tid < t.StartTID", "return false", "if tid > t.getLastTID()", "return false", "return true"] := rfl

theorem c13_x_entryGetIndexInTokensBlock : SV.Extracted.C13.entryGetIndexInTokensBlock =
    ["return t.StartIndex + tid - t.StartTID"] := rfl

theorem c13_x_activeGetToken : SV.Extracted.C13.activeGetToken =
    ["id := tp.inverseIndex[tid-1]", "return tp.tidToVal[id]"] := rfl

theorem c13_x_activeFirstTID : SV.Extracted.C13.activeFirstTID =
    ["return 1"] := rfl

theorem c13_x_activeLastTID : SV.Extracted.C13.activeLastTID =
    ["return uint32(len(tp.inverseIndex))"] := rfl

theorem c13_x_activeOrdered : SV.Extracted.C13.activeOrdered =
    ["return false"] := rfl

theorem c13_x_activeInverseTIDs : SV.Extracted.C13.activeInverseTIDs =
    ["range i, tid := tids", "tids[i] = tp.inverseIndex[tid-1]", "return tids"] := rfl

theorem c13_x_activeFindPattern : SV.Extracted.C13.activeFindPattern =
    ["field := parser.GetField(t)", "tp := tl.getTokenProvider(field)", "tids, err := pattern.Search(ctx, t, tp)", "if err != nil", "return nil, fmt.Errorf(\"search error: %s field: %s, query: %s\", err, field, parser.GetHint(t))", "return tp.inverseTIDs(tids), nil"] := rfl

theorem c13_x_binSearchInRange : SV.Extracted.C13.binSearchInRange =
    ["n := to - from + 1", "i := sort.Search(n, func(i int) bool { return fn(from + i) })", "return fn(from + i)", "return from + i"] := rfl

theorem c13_x_getHint : SV.Extracted.C13.getHint =
    ["t := token.(type)", "case {*Literal}", "if t.Terms[0].Kind == TermText", "return t.Terms[0].Data", "case {}", "return \"\""] := rfl

theorem c13_x_sealedGetTIDs : SV.Extracted.C13.sealedGetTIDs =
    ["field := parser.GetField(t)", "searchStr := parser.GetHint(t)", "tokenTable := ti.tokenTableLoader.Load()", "entries := tokenTable.SelectEntries(field, searchStr)", "if len(entries) == 0", "return nil, nil", "tp := token.NewProvider(ti.tokenBlockLoader, entries)", "tids, err := pattern.Search(ti.ctx, t, tp)", "if err != nil", "return nil, fmt.Errorf(\"search error: %s field: %s, query: %s\", err, field, searchStr)", "return tids, nil"] := rfl

theorem c13_x_tableLoaderLoad : SV.Extracted.C13.tableLoaderLoad =
    ["l.i = 1", "for h := l.readHeader(); h.Len() > 0; ", "h := l.readHeader()", "h = l.readHeader()", "size := 0", "tokenTable := make(map[string]*FieldData)", "for ; ; ", "block, err := l.readBlock()", "if err != nil", "return nil, 0, err", "if len(block) == 0", "unpacker := packer.NewBytesUnpacker(block)", "for ; unpacker.Len() > 0; ", "fieldName := string(unpacker.GetBinary())", "field := FieldData{Entries: make([]*TableEntry, unpacker.GetUint32())}", "entries := make([]TableEntry, len(field.Entries))", "range i := field.Entries", "e := &entries[i]", "e.StartTID = unpacker.GetUint32()", "e.ValCount = unpacker.GetUint32()", "e.StartIndex = unpacker.GetUint32()", "e.BlockIndex = unpacker.GetUint32()", "minVal := unpacker.GetBinary()", "if i == 0", "field.MinVal = string(minVal)", "e.MaxVal = string(unpacker.GetBinary())", "field.Entries[i] = e", "size += len(e.MaxVal)", "tokenTable[fieldName] = &field", "size += len(fieldName) + len(entries)*int(TableEntrySize) + len(field.MinVal)", "size += len(tokenTable) * int(FieldDataSize)", "return tokenTable, size, nil"] := rfl

theorem c13_x_tableLoaderReadBlock : SV.Extracted.C13.tableLoaderReadBlock =
    ["block, _, err := l.reader.ReadIndexBlock(l.i, l.buf)", "l.buf = block", "l.i++", "return block, err"] := rfl

/-- the loaded token table owns its strings: `TableLoader.load` COPIES the field name, `MinVal` and `MaxVal` out of
the decoded block (`string(...)` conversions) - `readBlock` decodes every table block into the same reusable buffer
`l.buf`, so a view into it would change under the table when the next block is read.  This is why the model may treat
the loaded table as the written one (values, not views). -/
theorem c13_x_tableLoader_copies :
    "fieldName := string(unpacker.GetBinary())" ∈ SV.Extracted.C13.tableLoaderLoad ∧
    "field.MinVal = string(minVal)" ∈ SV.Extracted.C13.tableLoaderLoad ∧
    "e.MaxVal = string(unpacker.GetBinary())" ∈ SV.Extracted.C13.tableLoaderLoad ∧
    "block, _, err := l.reader.ReadIndexBlock(l.i, l.buf)" ∈ SV.Extracted.C13.tableLoaderReadBlock := by
  simp [SV.Extracted.C13.tableLoaderLoad, SV.Extracted.C13.tableLoaderReadBlock]

/-- the range ends reach the pattern package as the literal's bytes: no statement between the lexer's value and
the term alters it -/
theorem c13_x_seqqlParseRangeTerm : SV.Extracted.C13.seqqlParseRangeTerm =
    ["term.Kind = TermText", "value, err := parseCompositeToken(lex)", "if err != nil", "return err", "terms, err := parseSeqQLKeyword(value, sensitive)", "if err != nil", "return err", "case {1}", "*term = terms[0]", "case {0}", "*term = Term{ Kind: TermText, Data: \"\", }", "case {}", "return fmt.Errorf(\"only single wildcard is allowed\")", "return nil"] := rfl

/-- the range ends reach the pattern package as the literal's bytes: no statement between the lexer's value and
the term alters it -/
theorem c13_x_seqqlParseTokenRange : SV.Extracted.C13.seqqlParseTokenRange =
    ["r := &Range{Field: field}", "if !lex.IsKeywords(\"(\", \"[\")", "return r, fmt.Errorf(\"range start not found\")", "r.IncludeFrom = lex.Token == \"[\"", "lex.Next()", "if err := parseRangeTerm(&r.From, lex, sensitive); err != nil", "err := parseRangeTerm(&r.From, lex, sensitive)", "return r, err", "if !lex.IsKeywords(\",\", \"to\")", "return r, fmt.Errorf(\"expected ',' keyword, got %q\", lex.Token)", "lex.Next()", "if err := parseRangeTerm(&r.To, lex, sensitive); err != nil", "err := parseRangeTerm(&r.To, lex, sensitive)", "return r, err", "if !lex.IsKeywords(\")\", \"]\")", "return r, fmt.Errorf(\"range end not found\")", "r.IncludeTo = lex.Token == \"]\"", "lex.Next()", "return r, nil"] := rfl

/-- the range ends reach the pattern package as the literal's bytes: no statement between the lexer's value and
the term alters it -/
theorem c13_x_legacyParseRangeTerm : SV.Extracted.C13.legacyParseRangeTerm =
    ["builder := singleTermBuilder{caseSensitive: caseSensitive}", "if !tp.eof() && tp.cur() == '\"'", "quoted = true", "err = tp.parseQuotedTerms(&builder)", "err = tp.parseTerms(&builder)", "if err != nil", "return err", "*term = builder.getTerm()", "if term.Data == \"\" && !quoted", "if tp.eof()", "return tp.errorEOF(\"range bounding term\")", "return tp.errorUnexpectedSymbol(`instead of range bounding term`)", "return nil"] := rfl

/-- one `DiskTokenTableBlock` record per field is written (`TableLoader.load` keeps one record per field name) -/
theorem c13_x_writeTokenTableBlocks : SV.Extracted.C13.writeTokenTableBlocks =
    ["verifhook.Point(\"seal.sec\", 4)", "former := w.NewBlockFormer(\"token_table\", consts.RegularBlockSize)", "opts := []disk.FlushOption{disk.WithZstdCompressLevel(zstdCompressLevel)}", "push := func(block *DiskTokenTableBlock) error { block.pack(former.Packer()) if _, err := former.FlushIfNeeded(opts...); err != nil { return err } return nil }", "block.pack(former.Packer())", "if _, err := former.FlushIfNeeded(opts...); err != nil", "_, err := former.FlushIfNeeded(opts...)", "return err", "return nil", "if err := generateBlocks(push); err != nil", "err := generateBlocks(push)", "return err", "verifhook.Point(\"seal.sec\", 5)", "if err := former.FlushForced(opts...); err != nil", "err := former.FlushForced(opts...)", "return err", "w.writer.WriteEmptyBlock()", "w.stats = append(w.stats, former.GetStats())", "return nil"] := rfl

/-- the sealed dictionary of a field is sorted with `bytes.Compare` - the order `bcmp` models and `BlocksOK` assumes -/
theorem c13_x_getTIDsSortedByToken : SV.Extracted.C13.getTIDsSortedByToken =
    ["if tids, ok := g.sortedTids[field]; ok", "tids, ok := g.sortedTids[field]", "return tids", "srcTIDs := tokenList.FieldTIDs[field]", "tids := append(make([]uint32, 0, len(srcTIDs)), srcTIDs...)", "sort.Sort( &valSort{ val: tids, lessFn: func(i int, j int) bool { a := tokenList.tidToVal[tids[i]] b := tokenList.tidToVal[tids[j]] return bytes.Compare(a, b) < 0 }, }, )", "a := tokenList.tidToVal[tids[i]]", "b := tokenList.tidToVal[tids[j]]", "return bytes.Compare(a, b) < 0", "g.sortedTids[field] = tids", "return tids"] := rfl

/-- `MaxVal` of an entry is the whole last token of its run -/
theorem c13_x_createTokenTableEntry : SV.Extracted.C13.createTokenTableEntry =
    ["size := len(t.tokens)", "return &token.TableEntry{ StartIndex: startIndex, StartTID: t.startTID, ValCount: uint32(size), BlockIndex: blockIndex, MaxVal: string(t.tokens[size-1]), }"] := rfl

/-- a token table record = field name, entry count, the entries -/
theorem c13_x_tokenTableBlockPack : SV.Extracted.C13.tokenTableBlockPack =
    ["p.PutStringWithSize(t.field)", "p.PutUint32(uint32(len(t.entries)))", "range _, entry := t.entries", "entry.Pack(p)"] := rfl

/-- a value is located inside its physical block through 32-bit offsets and a 32-bit length prefix (`sizeOfUint32`): no narrower width anywhere, a block may be far larger than 64 KiB -/
theorem c13_x_blockGetValByTID : SV.Extracted.C13.blockGetValByTID =
    ["valIndex := b.entry.getIndexInTokensBlock(tid)", "offset := binary.LittleEndian.Uint32(b.offsets[valIndex*sizeOfUint32:])", "l := binary.LittleEndian.Uint32(b.payload[offset:])", "offset += sizeOfUint32", "return b.payload[offset : offset+l]"] := rfl

/-- `unpack` records one 32-bit offset per value (`PutUint32`), skipping the `MaxUint32` run markers -/
theorem c13_x_blockUnpack : SV.Extracted.C13.blockUnpack =
    ["payload := data", "buf := bytespool.Acquire(4 * int(b.entry.ValCount))", "offsetsPacker := packer.NewBytesPacker(buf.B[:0])", "for i := 0; len(data) != 0; i++", "i := 0", "i++", "l := binary.LittleEndian.Uint32(data)", "data = data[sizeOfUint32:]", "offset += sizeOfUint32", "if l == math.MaxUint32", "if l > uint32(len(data))", "return fmt.Errorf(\"wrong field block for token %d, in pos %d\", i, offset)", "offsetsPacker.PutUint32(offset - sizeOfUint32)", "data = data[l:]", "offset += l", "b.payload = payload", "b.offsets = append([]byte{}, offsetsPacker.Data...)", "return nil"] := rfl

end SV.Props.C13
