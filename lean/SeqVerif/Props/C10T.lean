import SeqVerif.Model.BulkTime
import SeqVerif.Model.BulkConfig
import SeqVerif.Model.BulkID
import SeqVerif.Extracted.C10T
/-!
# C10 - hand models = mechanical translations of the Go source (regenerated on every run)

`SV.Extracted.C10.T` is produced by `extract/cmd/c10t` (translator `extract/xlate`, prelude `Base/GoInt.lean`)
from `seq/seq.go` and `proxy/bulk/processor.go`.  Each theorem states that the hand-written model function the
C10 theorems are about equals the translated Go function, for all arguments.
-/
namespace SV.Props.C10
open SV.BulkTime SV.TimeRule SV.Go
open SV.Extracted.C10

/-- `seq.TimeToMID`: the model `timeToMID` (a `Nat`) is the translated function, for every instant -/
theorem c10_t_TimeToMID (t : Int) : (timeToMID t : Int) = T.TimeToMID t := by
  unfold timeToMID T.TimeToMID wrapU64 timeUnixNano wrapI64 wrap64
  omega

/-- `proxy/bulk.documentDelayed` (repaired form): model = translated function; `futureDrift` is an int64
(`docDelay`, `drift` arbitrary) -/
theorem c10_t_documentDelayed (d p f : Int) (hf : I64 f) : documentDelayedRepaired d p f = T.documentDelayed d p f := by
  have hneg : wrapI64 (-f) = negWrap f := by
    unfold I64 at hf; unfold wrapI64 negWrap minI; split <;> omega
  unfold documentDelayedRepaired T.documentDelayed
  rw [hneg]
  by_cases h1 : d > p <;> by_cases h2 : d < negWrap f <;> simp [h1, h2]

/-- non-vacuity: the domain contains the configured default drifts -/
example : I64 300000000000 := by unfold I64; omega

/-- `IngestorConfig.setDefaults()` = `Bulk.setDefaults` at the repository's three defaults: the translated function
returns exactly the fields the Go function writes - search timeout, export timeout, max in-flight bulks - so the two
drift settings are not among them (`setDefaults_drifts`); a zero value is replaced, anything else is kept -/
theorem c10_t_setDefaults (c : SV.Bulk.ProxyCfg) :
    T.IngestorConfig_setDefaults c.searchTimeout c.exportTimeout c.maxInflightBulks
      = ((SV.Bulk.setDefaults 30000000000 120000000000 32 c).searchTimeout,
         (SV.Bulk.setDefaults 30000000000 120000000000 32 c).exportTimeout,
         (SV.Bulk.setDefaults 30000000000 120000000000 32 c).maxInflightBulks) := by
  unfold T.IngestorConfig_setDefaults SV.Bulk.setDefaults
  by_cases h1 : c.searchTimeout = 0 <;> by_cases h2 : c.exportTimeout = 0 <;> by_cases h3 : c.maxInflightBulks = 0 <;>
    simp [h1, h2, h3]

/-- `seq.NewID(t, randomness)` = `BulkTime.newID`: the MID is `TimeToMID(t)`, the RID is the caller's uint64 unchanged -/
theorem c10_t_NewID (t : Int) (r : Nat) (hr : r < 18446744073709551616) :
    T.NewID t r = (((newID t r).1 : Int), ((newID t r).2 : Int)) := by
  unfold T.NewID newID
  simp only [← c10_t_TimeToMID, Nat.mod_eq_of_lt hr]

end SV.Props.C10
