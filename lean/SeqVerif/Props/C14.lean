import SeqVerif.Model.Pruning
import SeqVerif.Model.PruningBorders
import SeqVerif.Model.PruningSearchDocs
import SeqVerif.Model.C03Codec
import SeqVerif.Model.C14Consts
/-!
# C14 - time-range pruning never hides a document that lies in the requested range

Models: `SV.Bitmask` (util/bitmask.go, byte level), `SV.Dist` (seq/mids_distribution.go incl. the JSON image and the
int64 re-interpretation of MIDs in `MID.Time()`), `SV.FracInfo` (frac/info.go, `Active.UpdateStats`, the collector's
min/max), `SV.Pruning` (`List.FilterInRange`, `Fraction.Contains`, the reference scan over all documents).

MIDs are `uint64`: every theorem that talks about a query end assumes `< 2^64`; ranges are compared unsigned,
as `getLIDsBorders` / `seq.Less` do.  `MID.Time()` reads the MID as int64; before fix c7b3453 a range with ends
on different sides of `2^63` could hide a fraction (`c14_wrap_counterexample_before_fix`, reproduced on the real
store); the model follows the fixed code and no theorem below carries a side condition for it.

Only property theorems and extracted-fact obligations live in this file.
-/
namespace SV.Props.C14
open SV.Bitmask SV.Dist SV.FracInfo SV.Pruning

/-- the constants of frac/info.go as re-extracted from /repo -/
abbrev consts : Consts := FracInfo.extractedConsts

/-! ## Bitmask -/

/-- **`HasBitsIn` is exact and panic-free** on a bitmap of bytes: for `left ≤ right` inside the slice it returns
whether some bit of `[left, right]` is set. -/
theorem c14_hasBitsIn_iff (bin : List Nat) (hb : Bitmask.WF bin) (l r : Nat) (hlr : l ≤ r) (hr : r / 8 < bin.length) :
    ∃ b, hasBitsIn? bin l r = some b ∧ (b = true ↔ ∃ i, l ≤ i ∧ i ≤ r ∧ Bitmask.get bin i = true) := by
  refine ⟨hasBitsIn bin l r, hasBitsIn?_eq_some bin l r (by omega) hr, ?_⟩
  rw [hasBitsIn_iff hb l r hlr]
  constructor
  · rintro ⟨i, h1, h2, h3⟩; exact ⟨i, h1, h2, by rw [get_eq_bit]; exact h3⟩
  · rintro ⟨i, h1, h2, h3⟩; exact ⟨i, h1, h2, by rw [← get_eq_bit]; exact h3⟩

example : Bitmask.WF [0, 4, 0] ∧ hasBitsIn? [0, 4, 0] 3 10 = some true ∧ hasBitsIn? [0, 4, 0] 11 23 = some false := by decide

/-- `Set(pos, true)` sets exactly bit `pos` (inside the slice) -/
theorem c14_set_get (bin : List Nat) (pos q : Nat) (hp : pos / 8 < bin.length) :
    Bitmask.get (Bitmask.set bin pos true) q = (decide (q = pos) || Bitmask.get bin q) := by
  rw [get_eq_bit, get_eq_bit]; exact bit_set_true bin pos q hp

/-! ## MIDsDistribution -/

/-- **`midToIndex` is monotone** in `MID.Time()` and always a valid bit position, for every distribution with
`from ≤ to` and a positive bucket (saturating `Sub`, under/overflow buckets included). -/
theorem c14_midToIndex_mono (f t b : Int) (hb : 0 < b) (hft : f ≤ t) (ms : List Nat) (x y : Nat)
    (hxy : toInt64 x ≤ toInt64 y) :
    let d := ms.foldl Dist.add (Dist.new f t b)
    0 ≤ midToIndex d x ∧ midToIndex d x ≤ midToIndex d y ∧ midToIndex d y ≤ d.mask.size - 1 := by
  intro d
  have hwf : Dist.WF d := (bit_foldl_add (wf_new hb hft) ms).1
  exact ⟨(midToIndex_range hwf x).1, midToIndex_mono hwf hxy, (midToIndex_range hwf y).2⟩

/-- **distribution soundness**: after `Add(m)` (among any other additions, in any order) every range `[qf, qt]`
with `qf ≤ m ≤ qt` is reported as intersecting, without a panic. -/
theorem c14_dist_sound (f t b : Int) (hb : 0 < b) (hft : f ≤ t) (ms : List Nat) (m qf qt : Nat)
    (hm : m ∈ ms) (h1 : qf ≤ m) (h2 : m ≤ qt) (hqt : qt < 18446744073709551616) :
    Dist.isIntersecting? (ms.foldl Dist.add (Dist.new f t b)) qf qt = some true := by
  have hfold := bit_foldl_add (wf_new hb hft) ms
  rw [isIntersecting?_eq_some hfold.1]
  congr 1
  apply isIntersecting_of_bit_u hfold.1 h1 h2 hqt
  rw [hfold.2.1 m]
  exact hfold.2.2.2 m hm

/-- non-vacuity: window of 3 minutes, documents in the underflow bucket, inside, and in the overflow bucket -/
example :
    Dist.isIntersecting? ([30000, 200000, 900000].foldl Dist.add (Dist.new 60000000000 240000000000 60000000000)) 150000 210000
      = some true := by decide

/-- non-vacuity across `2^63`: document `2^63 + 5` (a time before 1970: underflow bucket), range `[150000, 2^64-1]` -/
example :
    Dist.isIntersecting? ([9223372036854775813].foldl Dist.add (Dist.new 60000000000 240000000000 60000000000))
      150000 18446744073709551615 = some true := by decide

/-- **the distribution is exact at bucket granularity**: a range is reported only if the bucket of some added MID
lies between the buckets of its ends (so the check prunes whatever the buckets allow). -/
theorem c14_dist_exact (f t b : Int) (hb : 0 < b) (hft : f ≤ t) (ms : List Nat) (qf qt : Nat)
    (hq : toInt64 qf ≤ toInt64 qt)
    (hi : Dist.isIntersecting (ms.foldl Dist.add (Dist.new f t b)) qf qt = true) :
    ∃ m, m ∈ ms ∧ midToIndex (Dist.new f t b) qf ≤ midToIndex (Dist.new f t b) m ∧
      midToIndex (Dist.new f t b) m ≤ midToIndex (Dist.new f t b) qt := by
  have hwf0 := wf_new hb hft
  have hfold := bit_foldl_add hwf0 ms
  rcases bit_of_isIntersecting hfold.1 hq hi with ⟨i, h1, h2, h3⟩
  rw [hfold.2.1] at h1 h2
  rcases bit_foldl_add_inv hwf0 ms i h3 with h0 | ⟨m, hm, hmi⟩
  · simp only [Dist.new, Bitmask.new] at h0
    rw [bit_replicate] at h0; exact absurd h0 (by simp)
  · have r1 := (midToIndex_range hwf0 qf).1
    have r2 := (midToIndex_range hwf0 m).1
    have r3 := (midToIndex_range hwf0 qt).1
    exact ⟨m, hm, by omega, by omega⟩

/-- **JSON round trip**: a distribution with millisecond ends and a whole-second bucket is restored exactly
(ends, bucket, size, bitmap) by `UnmarshalJSON ∘ MarshalJSON`. -/
theorem c14_dist_json_roundtrip (d : Dist) (hwf : Dist.WF d) (hr : Dist.Representable d) :
    (Dist.marshal d).bind Dist.unmarshal? = some d := json_roundtrip hwf hr

example :
    let d := [30000, 200000, 900000].foldl Dist.add (Dist.new 60000000000 240000000000 60000000000)
    (Dist.marshal d).bind Dist.unmarshal? = some d := by decide

/-- the hypotheses of the round trip are needed: a 1.5 s bucket is written as `1` and the restored distribution
has another size (the persisted form is second-granular) -/
theorem c14_dist_json_subsecond_bucket_not_restored :
    (Dist.marshal (Dist.new 0 3000000000 1500000000)).bind Dist.unmarshal? ≠ some (Dist.new 0 3000000000 1500000000) := by
  decide

/-! ## frac.Info -/

theorem c14_x_good_consts : GoodConsts consts := by
  constructor <;> decide

/-- **Info soundness, sealed fraction.**  For every creation time and every sequence of indexed bulks (document
MIDs anywhere in uint64: far past, far future, equal to the range ends): the info written by sealing
(`UpdateStats` per bulk, then `BuildDistribution` over the stub ID and all document IDs) reports every range
`[qf, qt]` that holds one of the documents as intersecting. -/
theorem c14_info_sound (ct : Nat) (bulks : List (List Nat)) (m qf qt : Nat)
    (hm : m ∈ bulks.flatten) (h1 : qf ≤ m) (h2 : m ≤ qt) (hqt : qt < 18446744073709551616) :
    FracInfo.isIntersecting (sealed consts ct bulks) qf qt = true := by
  have hcov := covers_foldl (covers_new ct) bulks
  simp only [List.nil_append] at hcov
  unfold sealed
  exact isIntersecting_build c14_x_good_consts hcov (by rw [foldl_appendBulk_dist]; rfl)
    (fun x hx => List.mem_cons_of_mem _ hx) hm h1 h2 hqt

/-- non-vacuity, with a distribution: creation at 10^12 ms, documents 20 min and 1 ms before creation -/
example :
    (sealed consts 1000000000000 [[999998800000], [999999999999]]).dist.isSome = true ∧
    FracInfo.isIntersecting (sealed consts 1000000000000 [[999998800000], [999999999999]]) 999998800000 999998800000 = true ∧
    FracInfo.isIntersecting (sealed consts 1000000000000 [[999998800000], [999999999999]]) 999998900000 999999900000 = false := by
  decide

/-- **Info soundness, active fraction** (no distribution, borders only) - no side condition -/
theorem c14_info_sound_active (ct : Nat) (bulks : List (List Nat)) (m qf qt : Nat)
    (hm : m ∈ bulks.flatten) (h1 : qf ≤ m) (h2 : m ≤ qt) :
    FracInfo.isIntersecting (bulks.foldl appendBulk (newInfo ct)) qf qt = true := by
  have hcov := covers_foldl (covers_new ct) bulks
  simp only [List.nil_append] at hcov
  exact isIntersecting_nodist hcov (by rw [foldl_appendBulk_dist]; rfl) hm h1 h2

/-- **Info soundness for retried bulks.**  Any history of bulks through the index worker of one fraction - bulks
retried in part or in whole, IDs repeated inside a bulk, documents in any time order, new documents beyond the
current `From`/`To` on either side: at every moment (every prefix of the history is a history) the info of the
active fraction reports every range that holds a stored document as intersecting, so `Info()` never lags behind what
the fraction's data provider can return ... -/
theorem c14_info_sound_retried (ct : Nat) (hist : List (List Entry)) (id : Nat × Nat) (qf qt : Nat)
    (hid : id ∈ (hist.foldl ingestBulk (newActive ct)).ids) (h1 : qf ≤ id.1) (h2 : id.1 ≤ qt) :
    FracInfo.isIntersecting (hist.foldl ingestBulk (newActive ct)).info qf qt = true := by
  have hcov := covers_ingest_foldl (st := newActive ct) (covers_new ct) hist
  exact isIntersecting_nodist hcov (by rw [(ingest_dist _ hist).1]; rfl) (List.mem_map_of_mem hid) h1 h2

/-- the same for every ID in the fraction's `MIDs/RIDs` (what `AppendIDs` received: the survivors of the duplicate
filter, which may hold an ID more often than `SetMultiple` appended it) - the IDs a search can return -/
theorem c14_info_sound_retried_lids (ct : Nat) (hist : List (List Entry)) (id : Nat × Nat) (qf qt : Nat)
    (hid : id ∈ (hist.foldl ingestBulk (newActive ct)).lids) (h1 : qf ≤ id.1) (h2 : id.1 ≤ qt) :
    FracInfo.isIntersecting (hist.foldl ingestBulk (newActive ct)).info qf qt = true :=
  c14_info_sound_retried ct hist id qf qt
    (lids_subset (st := newActive ct) (fun _ h => by simp [newActive] at h) hist id hid) h1 h2

/-- ... and so does the info written when that fraction is sealed (stale borders would be copied into it) -/
theorem c14_info_sound_retried_sealed (ct : Nat) (hist : List (List Entry)) (id : Nat × Nat) (qf qt : Nat)
    (hid : id ∈ (hist.foldl ingestBulk (newActive ct)).ids) (h1 : qf ≤ id.1) (h2 : id.1 ≤ qt)
    (hqt : qt < 18446744073709551616) :
    FracInfo.isIntersecting
      (buildDistribution consts (hist.foldl ingestBulk (newActive ct)).info
        (FracInfo.systemMID :: (hist.foldl ingestBulk (newActive ct)).ids.map Prod.fst)) qf qt = true := by
  have hcov := covers_ingest_foldl (st := newActive ct) (covers_new ct) hist
  exact isIntersecting_build c14_x_good_consts hcov (by rw [(ingest_dist _ hist).1]; rfl)
    (fun x hx => List.mem_cons_of_mem _ hx) (List.mem_map_of_mem hid) h1 h2 hqt

/-- non-vacuity, the shape that needs two independent comparisons: bulk 1 = {A, B}; the retry carries the newest
document N first, then the duplicate A (at a new position: dropped), then an older document O: survivors `[N, O]`,
`To` must become N.  A nested meta (the ID of N again at N's position) IS appended and counted. -/
example :
    let st := [[((2000, 1), 10), ((2100, 2), 11)], [((9000, 3), 20), ((9000, 3), 20), ((2000, 1), 21), ((1000, 4), 22)]].foldl
      ingestBulk (newActive 100000)
    st.info.ifrom = 1000 ∧ st.info.ito = 9000 ∧ st.info.docsTotal = 5 ∧
    st.ids = [(2000, 1), (2100, 2), (9000, 3), (9000, 3), (1000, 4)] ∧ st.lids = st.ids ∧
    FracInfo.isIntersecting st.info 9000 9000 = true := by decide

/-- **Info soundness survives persistence**: the info restored from the index info block / `.frac-cache`
(distribution through its JSON image) equals the sealed one, for creation times before the year 292 million. -/
theorem c14_info_persist (ct : Nat) (hct : ct < 9223372036854775808) (bulks : List (List Nat)) :
    persist? (sealed consts ct bulks) = some (sealed consts ct bulks) := by
  unfold sealed
  exact persist_build c14_x_good_consts (by rw [foldl_appendBulk_dist]; rfl)
    (by rw [foldl_appendBulk_creationTime]; exact hct) _

/-- **`.frac-cache`: the loaded info of a fraction depends only on its own entry** (no state is shared between
entries), an entry without a distribution stays without one, and for sealed fractions the load is the identity -/
theorem c14_cache_load_pointwise (entries : List (String × Info)) (i : Nat) (hi : i < entries.length) :
    (cacheLoad entries)[i]'(by simpa [cacheLoad] using hi) = (entries[i].1, persist? entries[i].2) ∧
    (entries[i].2.dist = none → persist? entries[i].2 = some entries[i].2) := by
  refine ⟨by simp [cacheLoad], fun h => ?_⟩
  unfold persist?; simp only [h]

theorem c14_cache_load_sealed (specs : List (String × Nat × List (List Nat)))
    (hct : ∀ e, e ∈ specs → e.2.1 < 9223372036854775808) :
    cacheLoad (specs.map fun e => (e.1, sealed consts e.2.1 e.2.2)) =
      specs.map fun e => (e.1, some (sealed consts e.2.1 e.2.2)) := by
  unfold cacheLoad
  rw [List.map_map]
  apply List.map_congr_left
  intro e he
  simp only [Function.comp]
  rw [c14_info_persist e.2.1 (hct e he)]

/-- **a legacy cache entry (no distribution) is still sound**: with `Distribution == nil` only the borders decide, so
every range that holds a document of the fraction is reported (nothing may be installed in its place on load) -/
theorem c14_info_sound_legacy (ct : Nat) (bulks : List (List Nat)) (m qf qt : Nat)
    (hm : m ∈ bulks.flatten) (h1 : qf ≤ m) (h2 : m ≤ qt) :
    FracInfo.isIntersecting (legacyEntry (sealed consts ct bulks)) qf qt = true := by
  have hcov := covers_foldl (covers_new ct) bulks
  simp only [List.nil_append] at hcov
  have hf := buildDistribution_fields consts (bulks.foldl appendBulk (newInfo ct)) (FracInfo.systemMID :: bulks.flatten)
  have hcov' : Covers (legacyEntry (sealed consts ct bulks)) bulks.flatten := by
    unfold legacyEntry sealed
    exact ⟨fun x hx => by simp only; rw [hf.1]; exact hcov.lo x hx,
           fun x hx => by simp only; rw [hf.2.1]; exact hcov.hi x hx,
           by simp only; rw [hf.2.2.1]; exact hcov.cnt⟩
  exact isIntersecting_nodist hcov' rfl hm h1 h2

/-- `Contains(mid)` (the fetch path) -/
theorem c14_contains_sound (ct : Nat) (bulks : List (List Nat)) (m : Nat) (hm : m ∈ bulks.flatten)
    (hlt : m < 18446744073709551616) : FracInfo.isIntersecting (sealed consts ct bulks) m m = true :=
  c14_info_sound ct bulks m m m hm (Nat.le_refl _) (Nat.le_refl _) hlt

/-! ## The property: pruning is a pure optimisation -/

/-- how the info of a fraction relates to its documents: active (borders from `UpdateStats`), sealed
(`BuildDistribution` at seal time), or loaded from its persisted form -/
inductive FracOK : Frac → Prop
  | active (ct : Nat) (bulks : List (List (Nat × Nat))) :
      FracOK ⟨(bulks.map (·.map Prod.fst)).foldl appendBulk (newInfo ct), bulks.flatten⟩
  | sealed (ct : Nat) (bulks : List (List (Nat × Nat))) :
      FracOK ⟨FracInfo.sealed consts ct (bulks.map (·.map Prod.fst)), bulks.flatten⟩
  | loaded (ct : Nat) (hct : ct < 9223372036854775808) (bulks : List (List (Nat × Nat))) (info : Info)
      (h : persist? (FracInfo.sealed consts ct (bulks.map (·.map Prod.fst))) = some info) :
      FracOK ⟨info, bulks.flatten⟩

/-- every fraction whose info was produced by the modelled life cycle never rejects a range that holds one of its
documents -/
theorem c14_fracOK_sound {f : Frac} (h : FracOK f) : Sound f := by
  intro id hid qf qt h1 h2 hqt
  cases h with
  | active ct bulks => exact c14_info_sound_active ct _ id.1 qf qt (mem_flatten_map_fst hid) h1 h2
  | sealed ct bulks => exact c14_info_sound ct _ id.1 qf qt (mem_flatten_map_fst hid) h1 h2 hqt
  | loaded ct hct bulks info hp =>
    rw [c14_info_persist ct hct] at hp
    injection hp with hp
    subst hp
    exact c14_info_sound ct _ id.1 qf qt (mem_flatten_map_fst hid) h1 h2 hqt

/-- **C14.**  For every set of fractions (active, sealed, or restored from their persisted info) and every query
range: examining only the fractions kept by `FilterInRange` finds exactly the documents that examining every
document of every fraction finds (same documents, same order). -/
theorem c14_pruned_eq_unpruned (fs : List Frac) (hok : ∀ f, f ∈ fs → FracOK f) (qf qt : Nat)
    (hqt : qt < 18446744073709551616) :
    scanPruned fs qf qt = scanAll fs qf qt :=
  scanPruned_eq (fun f hf => c14_fracOK_sound (hok f hf)) hqt

/-- **C14, fetch path.**  Every fraction that holds a requested ID survives both filters of `groupIDsByFraction`
(`FilterInRange(minMID, maxMID)` over the request, then `Contains(id.MID)`), whatever other IDs the request
holds.  `fs` is the same immutable list for every batch of a request: see `c14_x_filterInRange_fresh_list`. -/
theorem c14_fetch_candidates (fs : List Frac) (hok : ∀ f, f ∈ fs → FracOK f) (minMID maxMID : Nat) (id : Nat × Nat)
    (h1 : minMID ≤ id.1) (h2 : id.1 ≤ maxMID) (hmax : maxMID < 18446744073709551616)
    (f : Frac) (hf : f ∈ holders fs id) : f ∈ candidates fs minMID maxMID id := by
  unfold holders at hf
  rw [List.mem_filter] at hf
  have hid : id ∈ f.docs := by simpa using hf.2
  have hsound := c14_fracOK_sound (hok f hf.1)
  unfold candidates filterInRange contains
  rw [List.mem_filter, List.mem_filter]
  exact ⟨⟨hf.1, hsound id hid minMID maxMID h1 h2 hmax⟩,
    hsound id hid id.1 id.1 (Nat.le_refl _) (Nat.le_refl _) (by omega)⟩

/-- **C14 with narrowing.**  Fractions with their ids tables (LID order = descending IDs, holding only IDs that were
indexed into the fraction): pruning whole fractions by `FilterInRange` and then scanning, in every kept fraction,
only the LIDs between `getLIDsBorders(from, to)` reaches exactly the IDs with `from ≤ MID ≤ to` of all fractions,
in the same order.  Side conditions inherited from `SV.Borders.getLIDsBorders_exact` (C02): RIDs are uint64, and
for `from = 0` no stored ID is `{0,0}`. -/
theorem c14_narrowed_pruned_eq_unpruned (fs : List TFrac)
    (hok : ∀ f, f ∈ fs → ∃ g, FracOK g ∧ g.info = f.info ∧ ∀ id, id ∈ f.tbl → (id.mid, id.rid) ∈ g.docs)
    (hsorted : ∀ f, f ∈ fs → SV.Borders.SortedDesc f.tbl)
    (hrid : ∀ f, f ∈ fs → ∀ id ∈ f.tbl, id.rid ≤ SV.Borders.maxU64)
    (qf qt : Nat) (hqt : qt < 18446744073709551616)
    (h0 : 0 < qf ∨ ∀ f, f ∈ fs → ∀ id ∈ f.tbl, id ≠ ⟨0, 0⟩) :
    scanStore fs qf qt = scanAllT fs qf qt := by
  apply scanStore_eq fs _ hsorted hrid qf qt hqt h0
  intro f hf id hid a b h1 h2 hb
  rcases hok f hf with ⟨g, hg, hinfo, hsub⟩
  simp only [TFrac.toFrac] at hid ⊢
  rcases List.mem_map.1 hid with ⟨x, hx, rfl⟩
  rw [← hinfo]
  exact c14_fracOK_sound hg (x.mid, x.rid) (hsub x hx) a b h1 h2 hb

/-- non-vacuity: the hypotheses hold for a sealed fraction with a distribution and its table in LID order, and
the theorem then gives the concrete answer -/
example :
    let f : TFrac := ⟨FracInfo.sealed consts 1000000000000 [[999998800000], [999999999999]],
                      [⟨999999999999, 8⟩, ⟨999998800000, 7⟩]⟩
    scanStore [f] 999998800000 999999000000 = [⟨999998800000, 7⟩] := by
  intro f
  have h := c14_narrowed_pruned_eq_unpruned [f]
    (fun x hx => by
      rw [List.mem_singleton] at hx; subst hx
      exact ⟨_, FracOK.sealed 1000000000000 [[(999998800000, 7)], [(999999999999, 8)]], rfl, by decide⟩)
    (fun x hx => by rw [List.mem_singleton] at hx; subst hx; decide)
    (fun x hx => by rw [List.mem_singleton] at hx; subst hx; decide)
    999998800000 999999000000 (by decide) (Or.inl (by decide))
  rw [h]; decide

/-- non-vacuity: a sealed fraction with a distribution and an active one; the range holds documents of both -/
example :
    let fs : List Frac :=
      [⟨FracInfo.sealed consts 1000000000000 [[999998800000], [999999999999]], [(999998800000, 7), (999999999999, 8)]⟩,
       ⟨[[1000000000500]].foldl appendBulk (newInfo 1000000000400), [(1000000000500, 9)]⟩]
    scanPruned fs 999999999999 1000000000500 = [(999999999999, 8), (1000000000500, 9)] ∧
    (filterInRange fs 999998900000 999999900000).length = 0 := by decide

/-! ## The MIDs a sealed fraction narrows on are the MIDs that were stored -/

/-- **ID block round trip, any gaps.**  `getLIDsBorders` of a sealed fraction binary-searches the MIDs unpacked from
the ID blocks (`UnpackCache.unpackMIDs` = `unpackRawIDsVarint` over `DiskIDsBlock.packMIDs`: zigzag varints of the
uint64 deltas).  C03's codec model (`SV.C03.packDeltas / unpackDeltas`, read only) restores ANY sequence of uint64 MIDs
exactly - neighbours 25, 30, 90, 190 or 400 days apart (deltas of 2^31 .. 2^35 ms and beyond) included - so
`c14_narrowed_pruned_eq_unpruned`, stated over the stored IDs, is about the IDs the sealed fraction really reads. -/
theorem c14_mids_block_roundtrip (mids : List Nat) (h : ∀ m, m ∈ mids → m < SV.C03.W64) :
    SV.C03.unpackDeltas (SV.C03.packDeltas mids) = some mids := SV.C03.deltas_roundtrip mids h

/-! ## Composition with C05: `SearchDocs` does not notice the distribution refinement -/

/-- **C14 ∘ C05.**  C05 (`SV.Merge.searchDocs`) models `Searcher.SearchDocs` with `prepareFracs` filtering by the
plain `DocsTotal/From/To` test.  Pair every C05 fraction (its `docs` = keys `mid*2^64+rid` of its documents that
match the query inside `[qf, qt]`) with its real `frac.Info` (life cycle `FracOK`: active, sealed with the MIDs
distribution, or restored from the persisted form) and run the same guard/sort/loop over the fractions kept by the
real `Info.IsIntersecting` instead (`searchDocsDist`): for every `FractionsPerIteration`, both orders, every limit the
returned IDs are identical, and so are total and every histogram bucket when no document is stored twice (C05's own
hypothesis for totals).  Hypotheses: C05's fraction invariant, the two views describe the same fraction (`hview`),
the matching documents were indexed into the fraction (`hok`), C05's `MaxFractionHits` guard passes. -/
theorem c14_searchDocs_compose (c : SV.Merge.Cfg) (ps : List (SV.Merge.Frac × Info)) (qf qt L : Nat)
    (hqt : qt < 18446744073709551616)
    (hinv : ∀ p, p ∈ ps → SV.Merge.FracInv p.1)
    (hview : ∀ p, p ∈ ps → p.1.docsTotal = p.2.docsTotal ∧ p.1.from_ = p.2.ifrom ∧ p.1.to_ = p.2.ito)
    (hok : ∀ p, p ∈ ps → ∃ g, FracOK g ∧ g.info = p.2 ∧
      ∀ k, k ∈ p.1.docs → qf ≤ SV.Merge.midOf k ∧ SV.Merge.midOf k ≤ qt ∧ ∃ rid, (SV.Merge.midOf k, rid) ∈ g.docs)
    (hmax : c.maxHits = 0 ∨ (SV.Merge.filterInRange (ps.map Prod.fst) qf qt).length ≤ c.maxHits) :
    ∃ q q', SV.Merge.searchDocs c (ps.map Prod.fst) qf qt L = some q ∧
      SV.Merge.searchDocsDist c ps qf qt L = some q' ∧ q'.ids = q.ids ∧
      ((SV.Merge.docsOf (ps.map Prod.fst)).Nodup →
        q'.total = q.total ∧ ∀ k, SV.Merge.histGet q'.hist k = SV.Merge.histGet q.hist k) := by
  open SV.Merge in
  -- the real check keeps every fraction that has a matching document in range (C14 soundness) ...
  have hkeep : ∀ p, p ∈ ps → p.1.docs ≠ [] → FracInfo.isIntersecting p.2 qf qt = true := by
    intro p hp hne
    rcases hok p hp with ⟨g, hg, hinfo, hdocs⟩
    rcases List.exists_mem_of_ne_nil _ hne with ⟨k, hk⟩
    rcases hdocs k hk with ⟨h1, h2, rid, hmem⟩
    rw [← hinfo]
    exact c14_fracOK_sound hg (midOf k, rid) hmem qf qt h1 h2 hqt
  -- ... and it only refines C05's border test
  have hrefine : ∀ p, p ∈ ps → FracInfo.isIntersecting p.2 qf qt = true → isIntersecting p.1 qf qt = true := by
    intro p hp h
    have hb := border_of_isIntersecting h
    have hv := hview p hp
    unfold Merge.isIntersecting
    rw [hv.1, hv.2.1, hv.2.2]
    simp only [hb.1, hb.2, if_false]
  have hvis : ∀ f, f ∈ ps.map Prod.fst → f.docs ≠ [] → isIntersecting f qf qt = true := by
    intro f hf hne
    rcases List.mem_map.1 hf with ⟨p, hp, rfl⟩
    exact hrefine p hp (hkeep p hp hne)
  have hinv1 : ∀ f, f ∈ filterInRange (ps.map Prod.fst) qf qt → FracInv f := by
    intro f hf
    rcases List.mem_map.1 (List.mem_filter.1 hf).1 with ⟨p, hp, rfl⟩
    exact hinv p hp
  have hinv2 : ∀ f, f ∈ keptDist ps qf qt → FracInv f := by
    intro f hf
    rcases List.mem_map.1 hf with ⟨p, hp, rfl⟩
    exact hinv p (List.mem_filter.1 hp).1
  have hlen : (keptDist ps qf qt).length ≤ (filterInRange (ps.map Prod.fst) qf qt).length := by
    unfold keptDist Merge.filterInRange
    rw [List.length_map, List.filter_map, List.length_map]
    exact length_filter_le_of_imp _ _ ps (fun p hp h => hrefine p hp h)
  have hmax2 : c.maxHits = 0 ∨ (keptDist ps qf qt).length ≤ c.maxHits := by omega
  have hd1 : docsOf (filterInRange (ps.map Prod.fst) qf qt) = docsOf (ps.map Prod.fst) :=
    docsOf_filter _ _ (fun f hf hp => by
      cases hd : f.docs with
      | nil => rfl
      | cons d ds =>
        have := hvis f hf (by simp [hd])
        rw [this] at hp; exact absurd hp (by simp))
  have hd2 := docsOf_keptDist ps qf qt hkeep
  obtain ⟨q, hq, hqi⟩ := searchOver_ids c _ L hinv1 hmax
  obtain ⟨q', hq', hqi'⟩ := searchOver_ids c _ L hinv2 hmax2
  refine ⟨q, q', by rw [searchDocs_eq_searchOver]; exact hq, hq', by rw [hqi, hqi', hd1, hd2], ?_⟩
  intro hnd
  obtain ⟨r, hr, hrt, hrh⟩ := searchOver_total_hist c _ L hmax (by rw [hd1]; exact hnd)
  obtain ⟨r', hr', hrt', hrh'⟩ := searchOver_total_hist c _ L hmax2 (by rw [hd2]; exact hnd)
  rw [hq] at hr; rw [hr'] at hq'
  injection hr with hr; injection hq' with hq'
  subst hr; subst hq'
  exact ⟨by rw [hrt, hrt', hd1, hd2], fun k => by rw [hrh k, hrh' k, hd1, hd2]⟩

/-- **paged result = top-limit of the union, ties on MID included.**  `SearchDocs` over the fractions kept by the real
`Info.IsIntersecting`, for every `FractionsPerIteration`, both orders, every limit, whether or not the early
termination (`calcEnsuredIDsCount`) fires: the IDs are the first `L` of the duplicate-free union of all matching
documents of ALL fractions in the `(MID, RID)` order (`sd` over keys `mid*2^64+rid`).  Nothing is assumed about how
the fractions' time ranges relate: they may touch or overlap, a document with `MID = To` of the next fraction and
same-millisecond documents with larger or smaller RIDs on both sides are covered (C05's `ensured_sound` needs the
non-strict `MID <= To` / `MID >= From` of the source, pinned by `c14_x_ensured_boundaries`). -/
theorem c14_searchDocs_top_limit (c : SV.Merge.Cfg) (ps : List (SV.Merge.Frac × Info)) (qf qt L : Nat)
    (hqt : qt < 18446744073709551616)
    (hinv : ∀ p, p ∈ ps → SV.Merge.FracInv p.1)
    (hok : ∀ p, p ∈ ps → ∃ g, FracOK g ∧ g.info = p.2 ∧
      ∀ k, k ∈ p.1.docs → qf ≤ SV.Merge.midOf k ∧ SV.Merge.midOf k ≤ qt ∧ ∃ rid, (SV.Merge.midOf k, rid) ∈ g.docs)
    (hmax : c.maxHits = 0 ∨ (SV.Merge.keptDist ps qf qt).length ≤ c.maxHits) :
    ∃ q, SV.Merge.searchDocsDist c ps qf qt L = some q ∧
      q.ids = (SV.Merge.sd c.desc (SV.Merge.docsOf (ps.map Prod.fst))).take L := by
  apply SV.Merge.searchDocsDist_ids c ps qf qt L hinv _ hmax
  intro p hp hne
  rcases hok p hp with ⟨g, hg, hinfo, hdocs⟩
  rcases List.exists_mem_of_ne_nil _ hne with ⟨k, hk⟩
  rcases hdocs k hk with ⟨h1, h2, rid, hmem⟩
  rw [← hinfo]
  exact c14_fracOK_sound hg (SV.Merge.midOf k, rid) hmem qf qt h1 h2 hqt

/-- the witness layout of the boundary: fraction A = {(t+5,1), (t,2)}, fraction B = {(t,3), (t-5,4)} with
`B.To = t`, DESC, limit 2, one fraction per iteration: the model (non-strict comparison) returns (t+5,1), (t,3);
with the strict comparison `MID < To` the ID (t,2) would count as ensured and (t,3) would be lost -/
example :
    let A : SV.Merge.Frac := ⟨2, 100, 105, [SV.Merge.key 105 1, SV.Merge.key 100 2]⟩
    let B : SV.Merge.Frac := ⟨2, 95, 100, [SV.Merge.key 100 3, SV.Merge.key 95 4]⟩
    SV.Merge.calcEnsured true [SV.Merge.key 105 1, SV.Merge.key 100 2] [B] = 1 ∧
    (SV.Merge.sd true (SV.Merge.docsOf [A, B])).take 2 = [SV.Merge.key 105 1, SV.Merge.key 100 3] := by
  refine ⟨?_, by decide⟩
  simp [SV.Merge.calcEnsured, SV.searchGo, SV.Merge.midOf, SV.Merge.key, SV.Merge.R]

/-- non-vacuity: one sealed fraction with a distribution, its oldest document matches; all hypotheses hold -/
example :
    let info := FracInfo.sealed consts 1000000000000 [[999998800000], [999999999999]]
    let f : SV.Merge.Frac := ⟨2, 999998800000, 999999999999, [SV.Merge.key 999998800000 7]⟩
    ∃ q q', SV.Merge.searchDocs ⟨true, true, 0, false, 0, 0⟩ [f] 999998800000 999998800000 10 = some q ∧
      SV.Merge.searchDocsDist ⟨true, true, 0, false, 0, 0⟩ [(f, info)] 999998800000 999998800000 10 = some q' ∧
      q'.ids = q.ids := by
  intro info f
  have h := c14_searchDocs_compose ⟨true, true, 0, false, 0, 0⟩ [(f, info)] 999998800000 999998800000 10 (by decide)
    (fun p hp => by
      rw [List.mem_singleton] at hp; subst hp
      intro d hd
      rw [List.mem_singleton] at hd; subst hd
      decide)
    (fun p hp => by rw [List.mem_singleton] at hp; subst hp; decide)
    (fun p hp => by
      rw [List.mem_singleton] at hp; subst hp
      refine ⟨_, FracOK.sealed 1000000000000 [[(999998800000, 7)], [(999999999999, 8)]], rfl, ?_⟩
      intro k hk
      rw [List.mem_singleton] at hk; subst hk
      exact ⟨by decide, by decide, 7, by decide⟩)
    (Or.inl rfl)
  obtain ⟨q, q', h1, h2, h3, _⟩ := h
  exact ⟨q, q', h1, h2, h3⟩

/-! ## History: the defect this property found (fixed in /repo by c7b3453) -/

/-- **Witness, before the fix.**  Sealed fraction created at 10^12 ms with documents 20 min and 1 ms before
creation (it has a distribution; the first document sits in bucket 1).  A fetch of that document together with an
unknown ID whose MID is `2^63` makes `groupIDsByFraction` call `FilterInRange(999998800000, 2^63)`: `MID.Time()`
reads `2^63` as a time before 1970, `midToIndex` gives 0 < 1, `HasBitsIn(1, 0)` is false: the old check dropped
the fraction although it holds the requested document.  The fixed check keeps it. -/
theorem c14_wrap_counterexample_before_fix :
    let info := FracInfo.sealed consts 1000000000000 [[999998800000], [999999999999]]
    FracInfo.isIntersectingOld info 999998800000 9223372036854775808 = false ∧
    FracInfo.isIntersectingOld info 999998800000 999998800000 = true ∧
    FracInfo.isIntersecting info 999998800000 9223372036854775808 = true := by
  decide

/-- on ranges whose ends are ordered as times the fix changes nothing (it only adds answers `true`) -/
theorem c14_fix_conservative (d : Dist) (qf qt : Nat) :
    Dist.isIntersectingOld d qf qt = true → Dist.isIntersecting d qf qt = true := by
  unfold Dist.isIntersectingOld Dist.isIntersecting
  intro h
  split
  · rfl
  · split
    · rfl
    · rename_i hb _
      simpa [hb] using h

/-! ## Obligations on facts re-extracted from /repo on every run

The bodies of the modelled functions are re-read from the source (whitespace-normalised statements); each
obligation pins the text the model was written against, so an edit to one of these functions re-opens the
correspondence question instead of passing silently. -/

open SV.Extracted.C14

theorem c14_x_consts :
    distributionBucket = 60000000000 ∧ 0 < distributionBucket ∧ distributionBucket % 1000000000 = 0 ∧
    0 ≤ distributionSpreadThreshold ∧ 0 ≤ distributionMaxInterval ∧ distributionMaxInterval % 1000000 = 0 ∧
    bitsInByte = 8 ∧ SV.Extracted.C14.systemMID = FracInfo.systemMID := by decide

theorem c14_x_bitmask_get :
    bitmaskGet = ["byteIndex := pos / bitsInByte", "bitIndex := pos % bitsInByte",
      "return (b.bin[byteIndex] & (1 << bitIndex)) > 0"] := by decide

theorem c14_x_bitmask_set :
    bitmaskSet = ["byteIndex := pos / bitsInByte", "bitIndex := pos % bitsInByte", "mask := byte(1 << bitIndex)",
      "if state { b.bin[byteIndex] |= mask } else { b.bin[byteIndex] &= ^mask }"] := by decide

theorem c14_x_bitmask_hasBitsIn :
    bitmaskHasBitsIn = ["const allOnes = byte(0xFF)", "leftIndex := left / bitsInByte", "rightIndex := right / bitsInByte",
      "leftBitIndex := left % bitsInByte", "rightBitIndex := right%bitsInByte + 1", "leftMask := allOnes << leftBitIndex",
      "rightMask := allOnes >> (bitsInByte - rightBitIndex)",
      "if leftIndex == rightIndex { return b.bin[leftIndex]&leftMask&rightMask > 0 }",
      "if b.bin[leftIndex]&leftMask > 0 { return true }", "if b.bin[rightIndex]&rightMask > 0 { return true }",
      "for i := leftIndex + 1; i < rightIndex; i++ { if b.bin[i] > 0 { return true } }", "return false"] := by decide

theorem c14_x_bitmask_new_load :
    bitmaskNew = ["return Bitmask{ size: size, bin: make([]byte, (size+bitsInByte-1)/bitsInByte), }"] ∧
    bitmaskLoad = ["b := NewBitmask(size)", "b.bin = append(b.bin[:0], data[:len(b.bin)]...)", "return b"] := by decide

theorem c14_x_dist_size_index :
    distSize = ["n := d.to.Sub(d.from)/d.bucket + 1", "n += 2", "return int(n)"] ∧
    distMidToIndex = ["t := mid.Time()", "if t.Before(d.from) { return 0 }",
      "if t.After(d.to) { return d.bitmask.GetSize() - 1 }", "return int(t.Sub(d.from)/d.bucket) + 1"] ∧
    SV.Extracted.C14.midTime = ["return time.UnixMilli(int64(m))"] := by decide

theorem c14_x_dist_add_intersect :
    distAdd = ["i := d.midToIndex(mid)", "d.bitmask.Set(i, true)"] ∧
    distIsUndefined = ["return d.bucket == 0"] ∧
    distIsIntersecting = ["if d.isUndefined() { return true }", "if from.Time().After(to.Time()) { return true }",
      "return d.bitmask.HasBitsIn(d.midToIndex(from), d.midToIndex(to))"] ∧
    distNew = ["d := &MIDsDistribution{ from: from.UTC(), to: to.UTC(), bucket: bucket, }",
      "d.bitmask = util.NewBitmask(d.size())", "return d"] := by decide

theorem c14_x_dist_json :
    distMarshalConds = ["d.isUndefined()"] ∧
    distMarshalFields = ["From: uint64(d.from.UnixMilli())", "To: uint64(d.to.UnixMilli())",
      "Bucket: uint64(d.bucket.Seconds())", "Bitmask: d.bitmask.GetBitmaskBinary()"] ∧
    distUnmarshalAssigns = ["d.from = time.UnixMilli(int64(distJSON.From)).UTC()",
      "d.to = time.UnixMilli(int64(distJSON.To)).UTC()", "d.bucket = time.Second * time.Duration(distJSON.Bucket)",
      "d.bitmask = util.LoadBitmask(d.size(), distJSON.Bitmask)"] := by decide

theorem c14_x_info_isIntersecting :
    infoIsIntersectingConds = ["s.DocsTotal == 0", "to < s.From || s.To < from", "s.Distribution == nil"] ∧
    infoIsIntersectingReturns = ["false", "false", "true", "s.Distribution.IsIntersecting(from, to)"] := by decide

/-- both ends handed to `NewMIDsDistribution` come from `time.UnixMilli` (millisecond granular: representable) -/
theorem c14_x_info_init :
    SV.Extracted.C14.initEmptyDistribution = ["from := time.UnixMilli(int64(s.From))",
      "creationTime := time.UnixMilli(int64(s.CreationTime))",
      "if creationTime.Sub(from) < DistributionSpreadThreshold { return false }", "distTo := creationTime",
      "distFrom := from",
      "if distTo.Sub(distFrom) > DistributionMaxInterval { distFrom = distTo.Add(-DistributionMaxInterval) }",
      "s.Distribution = seq.NewMIDsDistribution(distFrom, distTo, DistributionBucket)", "return true"] ∧
    SV.Extracted.C14.buildDistribution = ["if !s.InitEmptyDistribution() { return }",
      "for _, id := range ids { s.Distribution.Add(id.MID) }"] := by decide

theorem c14_x_borders :
    newInfoBorders = ["From: math.MaxUint64", "To: 0"] ∧
    SV.Extracted.C14.updateStats = ["if f.info.From > minMID { f.info.From = minMID }",
      "if f.info.To < maxMID { f.info.To = maxMID }", "f.info.DocsTotal += docCount"] := by decide

/-- sealing builds the distribution from the IDs of all documents (`sortSeqIDs` over the fraction's MIDs/RIDs) -/
theorem c14_x_seal_builds_from_all_ids :
    sealBuildDistributionArgs = ["sortedIDs"] ∧
    sealSortedIDsSource = ["sortedIDs, oldToNewLIDsIndex := sortSeqIDs(f, f.MIDs.GetVals(), f.RIDs.GetVals())"] := by decide

/-- the pruning sites use exactly the modelled predicates -/
theorem c14_x_pruning_sites :
    filterInRangeConds = ["f.IsIntersecting(from, to)"] ∧
    prepareFracsFilter = ["fracs.FilterInRange(params.From, params.To)"] ∧
    groupIDsFilter = ["fracsIn.FilterInRange(minMID, maxMID)", "f.Contains(id.ID.MID)", "f.Contains(id.ID.MID)"] ∧
    activeContains = ["f.Info().IsIntersecting(id, id)"] ∧ activeIsIntersecting = ["f.Info().IsIntersecting(from, to)"] ∧
    sealedContains = ["f.info.IsIntersecting(id, id)"] ∧ sealedIsIntersecting = ["f.info.IsIntersecting(from, to)"] := by decide

/-- **the pruned list is a fresh list, the input is never written.**  `filterInRange` / `candidates` are pure functions
of the fraction list; the code may rely on that only because `FilterInRange` builds its result with `make` (never
the receiver or a reslice of it) and `groupIDsByFraction` writes only into the list `FilterInRange` returned.
`storeapi.docsStream` keeps ONE fraction list for a whole Fetch request and groups every batch against it, so
`c14_fetch_candidates` applies to every batch only under this fact. -/
theorem c14_x_filterInRange_fresh_list :
    filterInRangeStmts = ["res := make(List, 0)",
      "for _, f := range l { if f.IsIntersecting(from, to) { res = append(res, f) } }", "return res"] ∧
    groupIDsListWrites = ["fracsOut := fracsIn.FilterInRange(minMID, maxMID)",
      "idsByFracs := make([][]seq.ID, 0, len(fracsOut))", "fracsOut[l] = f", "return fracsOut[:l], idsByFracs"] := by decide

/-- the boundaries of the early termination are NON-strict, in both orders: an ID whose MID equals `From`/`To` of the
next not yet searched fraction is not ensured (that fraction may hold a same-millisecond ID that sorts before it);
and the limit handed to the remaining fractions is `origLimit - ensured` -/
theorem c14_x_ensured_boundaries :
    calcEnsuredStmts = ["if len(remainingFracs) == 0 { return len(ids) }", "nextFracInfo := remainingFracs[0].Info()",
      "if order.IsReverse() { return sort.Search(len(ids), func(i int) bool { return ids[i].ID.MID >= nextFracInfo.From }) }",
      "return sort.Search(len(ids), func(i int) bool { return ids[i].ID.MID <= nextFracInfo.To })"] ∧
    searchDocsLimitUpdate = ["origLimit := params.Limit", "fracsChunkSize := s.cfg.FractionsPerIteration",
      "fracsChunkSize = len(remainingFracs)", "for len(remainingFracs) > 0 && (scanAll || params.Limit > 0)",
      "params.Limit = origLimit - calcEnsuredIDsCount(total.IDs, remainingFracs, params.Order)"] := by decide

/-- the collector recomputes `MinMID` and `MaxMID` with two INDEPENDENT comparisons, in `Filter` (from
`MaxUint64 / 0`, over the survivors of a retried bulk) exactly as in `AppendMeta`; the index worker filters when
`SetMultiple` dropped something and hands the collector's stats to `UpdateStats` -/
theorem c14_x_collector_borders :
    collectorFilterBorders = ["c.MaxMID = 0", "c.MinMID = math.MaxUint64", "c.DocsCounter = uint32(len(appended))",
      "if id.MID < c.MinMID { c.MinMID = id.MID }", "if id.MID > c.MaxMID { c.MaxMID = id.MID }"] ∧
    collectorAppendMetaBorders = ["if m.ID.MID < c.MinMID { c.MinMID = m.ID.MID }",
      "if m.ID.MID > c.MaxMID { c.MaxMID = m.ID.MID }"] ∧
    indexerFilterAndStats = ["active.DocsPositions.SetMultiple(collector.IDs, collector.Positions)",
      "if len(appendedIDs) != len(collector.IDs)", "collector.Filter(appendedIDs)", "active.AppendIDs(collector.IDs)",
      "active.UpdateStats(collector.MinMID, collector.MaxMID, collector.DocsCounter, collector.SizeCounter)"] := by decide

/-- `proxyFrac.Info / IsIntersecting / Contains` answer from the CURRENT fraction (the live active info until the
sealed one is published); the struct holds no copy of an info.  With `c14_info_sound_retried` (valid after every
prefix of the indexing history): whatever `Info()` answers at any moment covers every document indexed so far - also
while the fraction is readonly and being sealed. -/
theorem c14_x_proxy_info_live :
    proxyInfo = ["return f.cur().Info()"] ∧ proxyIsIntersecting = ["return f.cur().IsIntersecting(from, to)"] ∧
    proxyContains = ["return f.cur().Contains(mid)"] ∧
    proxyCur = ["f.useMu.RLock()", "defer f.useMu.RUnlock()", "if f.sealed == nil { return f.active }", "return f.sealed"] ∧
    proxyInfoFields = [] := by decide

/-- **`.frac-cache` load = one `json.Unmarshal` into the map** (every entry decoded into its own fresh `Info`: no target
is reused between entries), written by one `json.Marshal` of the same map; `NewFracCacheFromDisk` does nothing after
`LoadFromDisk`; the loader hands the cached info to `NewSealed` as it is; and `InitEmptyDistribution` is called only by
`BuildDistribution` (sealing) and the offline `cmd/distribution` tool - never on a load path, so a cached info without
a distribution keeps `Distribution == nil` (`c14_info_sound_legacy`). -/
theorem c14_x_cache_load :
    newFracCacheFromDisk = ["fc := NewSealedFracCache(filePath)", "fc.LoadFromDisk(filePath)", "return fc"] ∧
    cacheLoadCalls = ["os.ReadFile(fileName)", "json.Unmarshal(content, &fc.fracCache)"] ∧
    cacheSaveMarshal = ["json.Marshal(fc.fracCache)"] ∧
    loadSealedFrac = ["cachedInfo, ok := diskFracCache.GetFracInfo(filepath.Base(info.base))",
      "if ok { l.cachedFracs++ } else { l.uncachedFracs++ }", "sealed := l.fracProvider.NewSealed(info.base, cachedInfo)",
      "stats := sealed.Info()", "l.fracCache.AddFraction(stats.Name(), stats)", "return sealed"] ∧
    initEmptyDistributionCallers = ["cmd/distribution/main.go:main", "frac/info.go:BuildDistribution"] := by decide

set_option maxRecDepth 8192 in
/-- the MID blocks are written as `PutVarint(int64(mid - prev))` and read back by the generic `binary.Varint` loop
(64-bit arithmetic, no shortened decoder), which is what `SV.C03.packDeltas / unpackDeltas` model -/
theorem c14_x_mids_block_codec :
    packMIDs = ["var mid, prev uint64", "for _, id := range b.ids { mid = uint64(id.MID) p.PutVarint(int64(mid - prev)) prev = mid }"] ∧
    unpackMIDs = ["c.lastBlock = index", "c.startLID = uint64(index) * consts.IDsPerBlock",
      "c.values = unpackRawIDsVarint(data, c.values)"] ∧
    unpackRawIDsVarint = ["dst = dst[:0]", "id := uint64(0)",
      "for len(src) != 0 { delta, n := binary.Varint(src) if n <= 0 { panic(\"varint decoded with error\") } src = src[n:] id += uint64(delta) dst = append(dst, id) }",
      "return dst"] := by decide

end SV.Props.C14
