import SeqVerif.Model.Async
import SeqVerif.Extracted.C19T
/-!
# C19 - the merge step of `FetchSearchResult` in the model = mechanical translation of `seq/qpr.go`

`SV.Extracted.C19.T` is produced by `extract/cmd/c19t` (translator `extract/xlate`, prelude `Base/GoInt.lean`).
`AsyncSearcher.FetchSearchResult` folds `seq.MergeQPRs(&qpr, {tmp}, MaxInt, histInterval, order)` over the persisted
partial results (`Async.fetchStepWith` = `Merge.mergeQPRs desc acc [q] maxInt hi`).  Tied here: the order flags
(`desc` of the model is `order.IsDesc()`, the ascending sort is taken for `IsReverse()`), the total correction
`if dst.Total > 0 { dst.Total -= repetitionsCount }` (`Merge.subTotal`) and the cut `min(len(ids), limit)`.
-/
namespace SV.Props.C19
open SV.Merge SV.Go
open SV.Extracted.C19

/-- `DocsOrder.IsDesc` / `IsReverse`: for the two orders that exist (`DocsOrderDesc = 0`, `DocsOrderAsc = 1`) exactly
one holds, so the model's single flag `desc` decides the sort direction -/
theorem c19_t_order (o : Int) (h : o = 0 ∨ o = 1) :
    T.DocsOrder_IsDesc o = !T.DocsOrder_IsReverse o ∧ T.DocsOrder_IsDesc o = decide (o = 0) := by
  unfold T.DocsOrder_IsDesc T.DocsOrder_IsReverse
  rcases h with h | h <;> subst h <;> decide

/-- the total after a merge: `Merge.subTotal` (uint64 total and count; more repetitions than the total wrap around on both sides) -/
theorem c19_t_totalAfter (total reps : Nat) (ht : total < 18446744073709551616) (hr : reps < 18446744073709551616) :
    T.totalAfter total reps = (subTotal total reps : Int) := by
  unfold T.totalAfter subTotal R
  by_cases h : total > 0
  · have h' : (total : Int) > 0 := by omega
    simp only [if_pos h', if_pos h]
    unfold wrapU64
    split <;> omega
  · have h' : ¬ (total : Int) > 0 := by omega
    simp only [if_neg h', if_neg h]

/-- the cut: `ids[:min(len(ids), limit)]` is `List.take limit` -/
theorem c19_t_cut (ids : List Nat) (limit : Nat) :
    T.cut ids limit = ((ids.take limit).length : Int) := by
  unfold T.cut len
  simp only [List.length_take]
  omega

end SV.Props.C19
