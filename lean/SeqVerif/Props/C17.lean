import SeqVerif.Model.CollectorLemmas
import SeqVerif.Model.CollectorReuse
import SeqVerif.Model.DedupLemmas
import SeqVerif.Model.DedupConcurrent
import SeqVerif.Model.C17Compose
import SeqVerif.Model.RepetitionsLemmas
import SeqVerif.Extracted.C17
/-!
# C17 - re-delivering a bulk does not duplicate documents

Models: `SV.Collector` (Model/Collector.lean: `metaDataCollector`, `DocsPositions.SetMultiple`),
`SV.Collector.indexBulk/run` (Model/DedupIndex.lean: one `appendWorker` iteration / a history of bulks into one
active fraction), `SV.Repetitions` (Model/Repetitions.lean: `removeRepetitionsAdvanced`, `MergeQPRs`).
Only property theorems, extracted-fact obligations and non-vacuity examples live in this file.

DESIGN section 5 names -> theorems here: `filter_projection` = `c17_filter_projection` (+ `c17_collect_view`,
`c17_groups`); `c17_idempotent` (+ `c17_counted_once`, `c17_fetch_original`, `c17_concurrent_once`);
`c17_cross_fraction_once` (+ `c17_repetitions_once`, `c17_histogram_corrected`, `c17_cross_fraction_counts`);
"preserved by seal and replay" = `c17_sealed_once` (with C03's `seal_agrees`) and `c17_replayed_once` (with C01's
restart transparency); both are also run on the real store by the system oracle of the harness.
Nested metas (`Size = 0`, id of their document) are inside `c17_idempotent` (`GoodBulks`); `c17_counted_once`,
`c17_fetch_original`, `c17_concurrent_once` are stated for bulks without nested metas (one LID per id).
-/
namespace SV.Props.C17
open SV.Collector

/-- **collect.**  After parsing a bulk (`Init` + `AppendMeta` per meta) the collector's per-document view - ids,
positions, token bytes resolved through `TokensValues` - is exactly the bulk; counters count every meta. -/
theorem c17_collect_view (b : Nat) (ms : List Meta) :
    rview (collect b ms) = docsOf b ms ∧ (collect b ms).ids = ms.map (·.id) ∧
    (collect b ms).docsCounter = ms.length ∧ WF (collect b ms) :=
  ⟨(collect_spec b ms).2.1, (collect_spec b ms).2.2.1, (collect_spec b ms).2.2.2.1, (collect_spec b ms).1.1⟩

/-- **filter_projection.**  For every bulk and every `appended` list, `Filter(appended)` leaves exactly the
documents whose id is in `appended`: the per-document view (id, position, token bytes - i.e. the rebuilt
`tokensIndex` cut by the rebuilt `tokensInDocs`) is the original bulk restricted to those ids, the slices stay
aligned, `DocsCounter = len(appended)`. -/
theorem c17_filter_projection (b : Nat) (ms : List Meta) (app : List ID) :
    rview (filter (collect b ms) app) = (docsOf b ms).filter (fun d => decide (d.1 ∈ app)) ∧
    WF (filter (collect b ms) app) ∧ (filter (collect b ms) app).docsCounter = app.length := by
  have hc := collect_spec b ms
  have hf := filter_view (collect b ms) app hc.1.1
  refine ⟨?_, hf.2.1, rfl⟩
  rw [rview_eq, hf.1, hf.2.2, ← hc.2.1, rview_eq, List.filter_map]
  rfl

/-- **GroupLIDsByToken.**  For every bulk, `appended` list and LID assignment: group `j` holds, in document order,
the LID of every kept document once per occurrence of token `TokensValues[j]` in it - nothing of a dropped document. -/
theorem c17_groups (b : Nat) (ms : List Meta) (app : List ID) (lids : List Nat)
    (hl : lids.length = (filter (collect b ms) app).ids.length) (j : Nat) (hj : j < (collect b ms).tokensValues.length) :
    (groupLIDsByToken (filter (collect b ms) app) lids)[j]? =
      some (postings ((docsOf b ms).filter (fun d => decide (d.1 ∈ app))) lids (collect b ms).tokensValues[j]) := by
  have hc := collect_spec b ms
  have hf := filter_view (collect b ms) app hc.1.1
  have hinv : CInv (filter (collect b ms) app) := by
    refine ⟨hf.2.1, ?_, ?_⟩
    · rw [hf.2.2]; exact hc.1.2.1
    · intro k hk
      rw [hf.2.2]
      -- every index kept by Filter is an index of the original collector
      have : k ∈ (collect b ms).tokensIndex := by
        simp only [filter, List.mem_flatMap] at hk
        obtain ⟨i, -, hk⟩ := hk
        exact List.mem_of_mem_drop (List.mem_of_mem_take hk)
      exact hc.1.2.2 k this
  have hj' : j < (filter (collect b ms) app).tokensValues.length := by rw [hf.2.2]; exact hj
  have := group_spec (filter (collect b ms) app) lids hinv hl j hj'
  rw [this, (c17_filter_projection b ms app).1]
  simp [hf.2.2]

/-- **c17_init_fresh.**  The index worker's collector is reused from bulk to bulk.  Whatever its four `ReallocSolver`s
decide (re-allocate or reuse, any size) and whatever state the previous bulk left, `Init` hands over the collector
`newMetaDataCollector()` would give: every modelled slice empty, counters reset, the token map empty. -/
theorem c17_init_fresh (s : RCollector) (d : InitDec) (b : Nat) : initM s d b = ⟨init b, []⟩ := initM_fresh s d b

/-- **c17_reuse_invisible.**  Driving *any* sequence of bulks (any length - also past the 200-sample window of the
solvers - with or without `Filter`, any solver decisions before each bulk) through ONE collector, with the token map
as the code keeps it, yields for every bulk exactly what the per-bulk model `collect` / `filter` computes on a fresh
collector.  This is what lets every other theorem of this file talk about one bulk at a time. -/
theorem c17_reuse_invisible (s : RCollector) (steps : List Step) : reuseRun s steps = steps.map freshBulk :=
  reuseRun_fresh s steps

/-- **c17_idempotent.**  For every history of bulks delivered to one active fraction - each bulk a sequence of
documents with pairwise distinct ids, every document optionally followed by nested metas (`Size = 0`, same id) -
in which *arbitrary* subsets of earlier documents are re-sent any number of times (whole bulks, partial overlaps,
the same document again and again), the index state equals the state after the history with every repeat
removed: the same ids at the same LIDs, for every token the same postings, the same `DocsTotal`, `From`, `To`.
No search, total, histogram or aggregation over the fraction can see the repeats.  The LID list is exactly the
metas of the first deliveries, in delivery order. -/
theorem c17_idempotent (h : List (List Meta)) (hg : GoodBulks h) :
    Same (run Active.empty h) (run Active.empty (norep h)) ∧
    docIds (run Active.empty h) = allIds (norep h) ∧
    (run Active.empty h).docsTotal = (allIds (norep h)).length := by
  obtain ⟨h1, h2⟩ := run_norepFromN Active.empty Active.empty [] h ainvN_empty ainvN_empty
    ⟨rfl, fun _ => rfl, rfl, rfl, rfl, rfl⟩ (by simp [Active.empty, docIds]) hg
  have h3 : docIds (run Active.empty h) = allIds (norep h) := by
    rw [h2]; simp [Active.empty, docIds, norep]
  exact ⟨h1, h3, by rw [(run_invN Active.empty h ainvN_empty hg).total, h3]⟩

/-- the hypothesis of `c17_idempotent` covers the histories without nested metas -/
theorem c17_good_of_distinct (h : List (List Meta)) (hd : DistinctBulks h) (hs : NonEmptyDocs h) : GoodBulks h :=
  goodBulks_of_distinct h hd hs

/-- **c17_counted_once.**  After any such history every delivered id has exactly one LID (`docIds` has no
duplicates and holds exactly the delivered ids) and `DocsTotal` is the number of distinct delivered ids. -/
theorem c17_counted_once (h : List (List Meta)) (hd : DistinctBulks h) (hs : NonEmptyDocs h) :
    (docIds (run Active.empty h)).Nodup ∧
    (∀ id, id ∈ docIds (run Active.empty h) ↔ id ∈ allIds h) ∧
    (run Active.empty h).docsTotal = (docIds (run Active.empty h)).length := by
  obtain ⟨hA, hm⟩ := run_inv Active.empty h ainv_empty hd hs
  refine ⟨hA.nodup, ?_, hA.total⟩
  intro id
  rw [hm id]
  simp [Active.empty, docIds]

/-- **c17_fetch_original.**  After any such history every delivered id is fetched with the payload of its *first*
delivery (the position of the first writer wins, later deliveries never redirect it); an id never delivered is
not found. -/
theorem c17_fetch_original (h : List (List Meta)) (hd : DistinctBulks h) (hs : NonEmptyDocs h) (i : ID) :
    fetch (run Active.empty h) i = (firstMeta h i).map (·.doc) := by
  have := fetch_run Active.empty h ainv_empty hd hs i
  simpa [Active.empty] using this

/-- **c17_concurrent_once.**  Index workers running concurrently: for *every* schedule of `start bulk` (block index,
`SetMultiple`, `Filter`) and `finish k` (publish the k-th waiting collector: `AppendIDs`, token list, stats) events
- in particular a repeat started while the first delivery is still unpublished, or published before it - once all
collectors are published every delivered id has exactly one LID and `DocsTotal` counts it once. -/
theorem c17_concurrent_once (evs : List Ev) (hg : GoodSchedule evs)
    (hdone : (crun ⟨Active.empty, []⟩ evs).pending = []) :
    (docIds (crun ⟨Active.empty, []⟩ evs).a).Nodup ∧
    (∀ id, id ∈ docIds (crun ⟨Active.empty, []⟩ evs).a ↔ id ∈ allIds (startedBulks evs)) ∧
    (crun ⟨Active.empty, []⟩ evs).a.docsTotal = (docIds (crun ⟨Active.empty, []⟩ evs).a).length := by
  have h0 : CInvt ⟨Active.empty, []⟩ := by
    refine ⟨?_, by simp [Active.empty]⟩
    refine ⟨⟨?_, ?_, ?_, ?_⟩, ?_⟩ <;> simp [virt, Active.empty, docIds]
  obtain ⟨⟨hA, h1⟩, hm⟩ := crun_inv ⟨Active.empty, []⟩ evs h0 hg
  have hd : docIds (virt (crun ⟨Active.empty, []⟩ evs)) = docIds (crun ⟨Active.empty, []⟩ evs).a := by
    rw [docIds_virt _ h1, hdone]; simp
  have ht : (virt (crun ⟨Active.empty, []⟩ evs)).docsTotal = (crun ⟨Active.empty, []⟩ evs).a.docsTotal := by
    show _ + _ = _
    rw [hdone]; simp
  refine ⟨hd ▸ hA.nodup, ?_, ?_⟩
  · intro id
    rw [← hd, hm id]
    simp [virt, Active.empty, docIds]
  · rw [← ht, hA.total, hd]

/-! ## preserved by seal (C03) and by replay (C01) -/

section Composition
open SV.C17Compose

/-- **c17_sealed_once.**  Composition with C03 (`c03_sealed_eq_active` = `SV.C03.seal_agrees`).  Take any reading
`view` of the quiescent active fraction from its id table and token queues (everything `Seal` and the data provider
read; `viewC03` is the concrete one).  For every history with re-deliveries whose final active state is quiescent
in C03's sense, sealing succeeds, the sealed fraction is *the very fraction* sealed from the history without repeats,
and it answers every call of the index interface (`Len`, `GetMID`, `GetRID`, `LessOrEqual`, `GetValByTID`, every
posting node) like the repeat-free active fraction: one LID per first-delivered meta, nothing of a repeat. -/
theorem c17_sealed_once (view : View) (size cap rbs base : Nat) (posOf : SV.C03.ID → Nat) (h : List (List Meta))
    (hg : GoodBulks h) (hsize : 1 ≤ size) (hcap : 1 ≤ cap)
    (hq : SV.C03.Quiescent (view (run Active.empty h).ids (queue (run Active.empty h)))) :
    ∃ s, SV.C03.sealFrac size size cap rbs base posOf (view (run Active.empty h).ids (queue (run Active.empty h))) = .ok s ∧
      SV.C03.sealFrac size size cap rbs base posOf
        (view (run Active.empty (norep h)).ids (queue (run Active.empty (norep h)))) = .ok s ∧
      SV.C03.IndexAgree (view (run Active.empty (norep h)).ids (queue (run Active.empty (norep h)))) s := by
  have he := view_congr view _ _ (c17_idempotent h hg).1
  obtain ⟨s, hs, hagree⟩ := SV.C03.seal_agrees size cap rbs base posOf _ hq hsize hcap
  exact ⟨s, hs, he ▸ hs, he ▸ hagree⟩

/-- **c17_replayed_once.**  Composition with C01 (`c01_restart_transparent`).  For every crash/restart history of the
write path, the fraction the index worker rebuilds after a restart (`Replay` hands it the entries `idx`) is the
fraction of the store that never went down - the same blocks in the same order - and, when the decoded bulks are
well formed, it is in the single-LID state of the history without repeats: re-deliveries that were dropped while
ingesting are dropped again while replaying, whatever `dec` (decompression + record loop) is. -/
theorem c17_replayed_once (dec : SV.WPath.Bytes → List Meta) (h1 h2 : List SV.WPath.Ev) (hwf : ∀ e ∈ h1, e.WF)
    (hg : GoodBulks ((SV.WPath.run true SV.WPath.init (h1 ++ h2)).idx.map fun e => dec e.blk)) :
    fracOfEntries dec (SV.WPath.run true SV.WPath.init (h1 ++ .restart :: h2)).idx
      = fracOfEntries dec (SV.WPath.run true SV.WPath.init (h1 ++ h2)).idx ∧
    Same (fracOfEntries dec (SV.WPath.run true SV.WPath.init (h1 ++ .restart :: h2)).idx)
      (run Active.empty (norep ((SV.WPath.run true SV.WPath.init (h1 ++ h2)).idx.map fun e => dec e.blk))) ∧
    docIds (fracOfEntries dec (SV.WPath.run true SV.WPath.init (h1 ++ .restart :: h2)).idx)
      = allIds (norep ((SV.WPath.run true SV.WPath.init (h1 ++ h2)).idx.map fun e => dec e.blk)) := by
  rw [restart_same_store h1 h2 hwf]
  obtain ⟨i1, i2, -⟩ := c17_idempotent _ hg
  exact ⟨rfl, i1, i2⟩

/-- **c17_concurrent_writers_replayed.**  Composition with C01's `c01_mutex_serialises` (`SV.WPath.serial_run`): two
deliveries running concurrently through `ActiveWriter.Write` *with its mutex* - e.g. a bulk and a partially
overlapping repeat of it - under every interleaving of their steps leave the store of a history that ends with the
two bulks in one of the two orders; restarting the still-active fraction hands the index worker the same blocks with
the same docs offsets, so the replayed fraction is the fraction before the restart, and (decoded bulks well formed)
it is in the single-LID state of that history without repeats. -/
theorem c17_concurrent_writers_replayed (dec : SV.WPath.Bytes → List Meta) (h : List SV.WPath.Ev) (hwf : ∀ e ∈ h, e.WF)
    (a b : SV.WPath.Blk × SV.WPath.Blk) (ha : a.1.WF ∧ a.2.WF) (hb : b.1.WF ∧ b.2.WF) (sched : List Bool)
    (hfin : (SV.WPath.crun true (SV.WPath.enc a.1) (SV.WPath.enc a.2) (SV.WPath.enc b.1) (SV.WPath.enc b.2)
      (SV.WPath.cinit (SV.WPath.run true SV.WPath.init h)) sched).pa = 3 ∧
      (SV.WPath.crun true (SV.WPath.enc a.1) (SV.WPath.enc a.2) (SV.WPath.enc b.1) (SV.WPath.enc b.2)
      (SV.WPath.cinit (SV.WPath.run true SV.WPath.init h)) sched).pb = 3) :
    let st := (SV.WPath.crun true (SV.WPath.enc a.1) (SV.WPath.enc a.2) (SV.WPath.enc b.1) (SV.WPath.enc b.2)
      (SV.WPath.cinit (SV.WPath.run true SV.WPath.init h)) sched).st
    SV.WPath.restart true st.docs st.mfile = st ∧
    fracOfEntries dec (SV.WPath.restart true st.docs st.mfile).idx = fracOfEntries dec st.idx ∧
    (GoodBulks (st.idx.map fun e => dec e.blk) →
      Same (fracOfEntries dec (SV.WPath.restart true st.docs st.mfile).idx)
        (run Active.empty (norep (st.idx.map fun e => dec e.blk)))) := by
  intro st
  have hfix : SV.WPath.restart true st.docs st.mfile = st := by
    rcases concurrent_writers_serial h hwf a b sched hfin with e | e
    · have est : st = _ := e
      rw [est]
      apply restart_fixpoint
      intro ev hev
      rcases List.mem_append.mp hev with hev | hev
      · exact hwf ev hev
      · simp only [List.mem_cons, List.not_mem_nil, or_false] at hev
        rcases hev with rfl | rfl
        · exact ha
        · exact hb
    · have est : st = _ := e
      rw [est]
      apply restart_fixpoint
      intro ev hev
      rcases List.mem_append.mp hev with hev | hev
      · exact hwf ev hev
      · simp only [List.mem_cons, List.not_mem_nil, or_false] at hev
        rcases hev with rfl | rfl
        · exact hb
        · exact ha
  refine ⟨hfix, by rw [hfix], ?_⟩
  intro hg
  rw [hfix]
  exact (c17_idempotent _ hg).1

/-- **c17_fetch_slot_once.**  Composition with C07's arrange model (`SV.FetchArrange.arrange`, the loop of
`Fetcher.FetchDocs` for one requested id).  When a re-delivery landed in another fraction several asked fractions
answer for the id; they hold the same bytes `d` (same id -> same content).  If *every* fraction that may hold the id
is asked (no early stop: `c17_x_fetch_asks_every_fraction`), the result slot holds exactly `d` as soon as one fraction
has it - found twice is still returned once - and stays empty only if none has it. -/
theorem c17_fetch_slot_once {α} (answers : List (Option α)) (d : α)
    (h : ∀ x, x ∈ answers → x = none ∨ x = some d) :
    (some d ∈ answers → SV.FetchArrange.arrange answers = some d) ∧
    (some d ∉ answers → SV.FetchArrange.arrange answers = none) :=
  SV.FetchArrange.foldl_keep answers none d h

end Composition

/-! ## repeats that landed in another fraction: `removeRepetitionsAdvanced` / `MergeQPRs` -/

section CrossFraction
open SV.Repetitions

/-- **c17_repetitions_once.**  On a list in which equal ids are adjacent - sorted by any antisymmetric relation, in
particular ascending or descending `seq.Less` - `removeRepetitionsAdvanced` keeps exactly one entry per id (the
first), keeps every id, and reports the number of dropped entries. -/
theorem c17_repetitions_once (r : SV.Repetitions.ID → SV.Repetitions.ID → Prop) (hanti : ∀ a b, r a b → r b a → a = b)
    (iv : Nat) (ids : List IDSource) (h : Hist) (hp : (ids.map (·.1)).Pairwise r) :
    ((removeRepetitions ids h iv).1.map (·.1)).Nodup ∧
    (∀ i, i ∈ (removeRepetitions ids h iv).1.map (·.1) ↔ i ∈ ids.map (·.1)) ∧
    (removeRepetitions ids h iv).1.length + (removeRepetitions ids h iv).2.1 = ids.length ∧
    (removeRepetitions ids h iv).1.Sublist ids := by
  cases ids with
  | nil => simp [removeRepetitions]
  | cons x xs =>
    obtain ⟨i1, i2, i3, i4, i5⟩ := removeLoop_spec r hanti iv x xs h (by simpa using hp)
    simp only [removeRepetitions]
    refine ⟨?_, ?_, ?_, List.Sublist.cons_cons x i5⟩
    · simp only [List.map_cons, List.nodup_cons]
      refine ⟨?_, i2⟩
      intro hm
      obtain ⟨y, hy, hyx⟩ := List.mem_map.mp hm
      exact i1 y hy hyx
    · intro i
      simp only [List.map_cons, List.mem_cons, i3 i]
      constructor
      · rintro (h1 | ⟨h1, -⟩)
        · exact Or.inl h1
        · exact Or.inr h1
      · rintro (h1 | h1)
        · exact Or.inl h1
        · by_cases hix : i = x.1
          · exact Or.inl hix
          · exact Or.inr ⟨h1, hix⟩
    · simp only [List.length_cons]; omega

/-- **c17_histogram_corrected.**  With a histogram interval, every dropped repetition is taken out of its bucket:
`hist' k = hist k - (#entries in bucket k) + (#kept entries in bucket k)`, provided the merged histogram covers the
merged ids (each partial result counts every id it lists) - then no `uint64` wrap occurs. -/
theorem c17_histogram_corrected (iv : Nat) (hiv : 0 < iv) (ids : List IDSource) (h : Hist)
    (hcov : ∀ k, inBucket iv ids k ≤ h k) (hlt : ∀ k, h k < two64) (k : Nat) :
    (removeRepetitions ids h iv).2.2 k + inBucket iv ids k = h k + inBucket iv (removeRepetitions ids h iv).1 k := by
  cases ids with
  | nil => simp [removeRepetitions, inBucket]
  | cons x xs =>
    have hc' : ∀ k, inBucket iv xs k ≤ h k := by
      intro k'
      have := hcov k'
      rw [inBucket_cons] at this
      omega
    have := removeLoop_hist iv hiv x xs h hc' hlt k
    show (removeLoop iv x xs h).2.2 k + inBucket iv (x :: xs) k = h k + inBucket iv (x :: (removeLoop iv x xs h).1) k
    rw [inBucket_cons, inBucket_cons]
    omega

/-- **c17_cross_fraction_once.**  Whatever partial results the fractions return - in particular when a repeat
landed in another fraction, so that two partial results list the same id - the merged result of `MergeQPRs` lists
every id at most once, lists only ids some fraction returned, and with a limit that does not cut lists every
returned id; both orders. -/
theorem c17_cross_fraction_once (qs : List QPR) (limit iv : Nat) (asc : Bool) :
    ((mergeQPRs qs limit iv asc).1.map (·.1)).Nodup ∧
    (∀ i, i ∈ (mergeQPRs qs limit iv asc).1.map (·.1) → ∃ q ∈ qs, i ∈ q.ids.map (·.1)) ∧
    ((qs.flatMap (·.ids)).length ≤ limit → ∀ q ∈ qs, ∀ i ∈ q.ids.map (·.1), i ∈ (mergeQPRs qs limit iv asc).1.map (·.1)) := by
  have htrans : ∀ a b c : IDSource, idLe asc a b = true → idLe asc b c = true → idLe asc a c = true := by
    intro a b c h1 h2
    cases asc <;> simp [idLe] at h1 h2 ⊢ <;> omega
  have htotal : ∀ a b : IDSource, (idLe asc a b || idLe asc b a) = true := by
    intro a b
    cases asc <;> simp [idLe] <;> omega
  have hsorted := List.pairwise_mergeSort htrans htotal (qs.flatMap (·.ids))
  have hperm := List.mergeSort_perm (qs.flatMap (·.ids)) (fun a b => idLe asc a b)
  have hp : (((qs.flatMap (·.ids)).mergeSort (fun a b => idLe asc a b)).map (·.1)).Pairwise (idRel asc) := by
    rw [List.pairwise_map]
    apply List.Pairwise.imp _ hsorted
    intro a b hab
    cases asc <;> simp [idLe, idRel] at hab ⊢ <;> omega
  obtain ⟨r1, r2, r3, r4⟩ := c17_repetitions_once (idRel asc) (idRel_antisymm asc) iv _ (histSum qs) hp
  have hmem : ∀ i, i ∈ ((qs.flatMap (·.ids)).mergeSort (fun a b => idLe asc a b)).map (·.1) ↔ ∃ q ∈ qs, i ∈ q.ids.map (·.1) := by
    intro i
    simp only [List.mem_map, hperm.mem_iff, List.mem_flatMap]
    constructor
    · rintro ⟨x, ⟨q, hq, hx⟩, rfl⟩; exact ⟨q, hq, x, hx, rfl⟩
    · rintro ⟨q, hq, x, hx, rfl⟩; exact ⟨x, ⟨q, hq, hx⟩, rfl⟩
  refine ⟨?_, ?_, ?_⟩
  · exact List.Nodup.sublist (List.Sublist.map _ (List.take_sublist _ _)) r1
  · intro i hi
    have : i ∈ (removeRepetitions ((qs.flatMap (·.ids)).mergeSort (fun a b => idLe asc a b)) (histSum qs) iv).1.map (·.1) :=
      (List.Sublist.map _ (List.take_sublist _ _)).subset hi
    exact (hmem i).mp ((r2 i).mp this)
  · intro hlim q hq i hi
    have hlen : (removeRepetitions ((qs.flatMap (·.ids)).mergeSort (fun a b => idLe asc a b)) (histSum qs) iv).1.length ≤ limit := by
      have := hperm.length_eq
      omega
    show i ∈ ((removeRepetitions _ _ iv).1.take limit).map (·.1)
    rw [List.take_of_length_le hlen]
    exact (r2 i).mpr ((hmem i).mpr ⟨q, hq, hi⟩)

/-- **c17_cross_fraction_counts.**  When the partial results are complete (every fraction lists all its matches:
its total is the length of its list and the summed histogram counts exactly the listed entries) and the limit does
not cut, the merged total and every histogram bucket count each id once - although it was returned by several
fractions. -/
theorem c17_cross_fraction_counts (qs : List QPR) (limit iv : Nat) (asc : Bool) (hiv : 0 < iv)
    (hlim : (qs.flatMap (·.ids)).length ≤ limit)
    (htot : (qs.map (·.total)).sum = (qs.flatMap (·.ids)).length) (hsmall : (qs.flatMap (·.ids)).length < two64)
    (hhist : ∀ k, histSum qs k = inBucket iv (qs.flatMap (·.ids)) k) :
    (mergeQPRs qs limit iv asc).2.1 = (mergeQPRs qs limit iv asc).1.length ∧
    ∀ k, (mergeQPRs qs limit iv asc).2.2 k = inBucket iv (mergeQPRs qs limit iv asc).1 k := by
  have hperm := List.mergeSort_perm (qs.flatMap (·.ids)) (fun a b => idLe asc a b)
  have hinb : ∀ k, inBucket iv ((qs.flatMap (·.ids)).mergeSort (fun a b => idLe asc a b)) k = inBucket iv (qs.flatMap (·.ids)) k := by
    intro k
    unfold inBucket
    exact (hperm.filter _).length_eq
  have htrans : ∀ a b c : IDSource, idLe asc a b = true → idLe asc b c = true → idLe asc a c = true := by
    intro a b c h1 h2
    cases asc <;> simp [idLe] at h1 h2 ⊢ <;> omega
  have htotal : ∀ a b : IDSource, (idLe asc a b || idLe asc b a) = true := by
    intro a b
    cases asc <;> simp [idLe] <;> omega
  have hsorted := List.pairwise_mergeSort htrans htotal (qs.flatMap (·.ids))
  have hp : (((qs.flatMap (·.ids)).mergeSort (fun a b => idLe asc a b)).map (·.1)).Pairwise (idRel asc) := by
    rw [List.pairwise_map]
    apply List.Pairwise.imp _ hsorted
    intro a b hab
    cases asc <;> simp [idLe, idRel] at hab ⊢ <;> omega
  obtain ⟨-, -, r3, -⟩ := c17_repetitions_once (idRel asc) (idRel_antisymm asc) iv _ (histSum qs) hp
  have hlen := hperm.length_eq
  have hcut : ((removeRepetitions ((qs.flatMap (·.ids)).mergeSort (fun a b => idLe asc a b)) (histSum qs) iv).1.take limit)
      = (removeRepetitions ((qs.flatMap (·.ids)).mergeSort (fun a b => idLe asc a b)) (histSum qs) iv).1 :=
    List.take_of_length_le (by omega)
  constructor
  · show (if (qs.map (·.total)).sum % two64 > 0 then ((qs.map (·.total)).sum % two64 + two64 - _ % two64) % two64
      else (qs.map (·.total)).sum % two64) = ((removeRepetitions _ _ iv).1.take limit).length
    rw [hcut, htot, Nat.mod_eq_of_lt hsmall]
    unfold two64 at *
    split <;> omega
  · intro k
    show (removeRepetitions _ _ iv).2.2 k = inBucket iv ((removeRepetitions _ _ iv).1.take limit) k
    rw [hcut]
    have hcov : ∀ k, inBucket iv ((qs.flatMap (·.ids)).mergeSort (fun a b => idLe asc a b)) k ≤ histSum qs k := by
      intro k'; rw [hinb, hhist]; exact Nat.le_refl _
    have hlt : ∀ k, histSum qs k < two64 := by
      intro k'; unfold histSum; exact Nat.mod_lt _ (by unfold two64; omega)
    have := c17_histogram_corrected iv hiv _ (histSum qs) hcov hlt k
    rw [hinb, hhist] at this
    omega

end CrossFraction

/-! ## Obligations on facts re-extracted from /repo on every run -/

open SV.Extracted.C17

/-- `appendWorker` performs the index steps in the order `indexBulk` models, `Filter` runs exactly when
`SetMultiple` rejected something, with the `appended` slice, and the LIDs are appended for the filtered ids -/
theorem c17_x_appendWorker_order :
    appendWorkerOrder = ["active.DocBlocks.Append", "collector.Init", "collector.AppendMeta",
      "active.DocsPositions.SetMultiple", "collector.Filter", "active.AppendIDs", "active.TokenList.Append",
      "collector.GroupLIDsByToken", "addLIDsToTokens", "active.UpdateStats"] ∧
    filterGuards = ["len(appendedIDs) != len(collector.IDs)"] ∧ filterArgs = ["appendedIDs"] ∧
    appendIDsArgs = ["collector.IDs"] ∧ setMultipleArgs = ["collector.IDs, collector.Positions"] := by decide

/-- `SetMultiple`: first writer wins, an equal position is accepted again -/
theorem c17_x_setMultiple_accept :
    setMultipleAccept = ["savedPos, ok := dp.positions[id]; !ok || savedPos == pos[i]"] ∧
    setMultipleAcceptBody = ["dp.positions[id] = pos[i]", "appended = append(appended, id)"] := by decide

/-- `Filter` rewrites exactly the fields the model rewrites (token table and `SizeCounter` are left alone) and
copies `tokensIndex[off : off+n]` with the rebuilt offsets -/
theorem c17_x_filter_fields :
    filterAssigns = ["c.MaxMID", "c.MinMID", "c.DocsCounter", "c.IDs", "c.Positions", "c.tokensInDocs", "c.tokensIndex"] ∧
    filterSlices = ["c.tokensIndex[tokensOffsets[i] : tokensOffsets[i]+c.tokensInDocs[i]]"] := by decide

/-- `metaDataCollector.Init` resets what the model resets, in both branches of every solver: `ids` (IDs,
tokensInDocs, Positions), `tokensBuf`, `tokensIndex` (lids, tokensIndex), `tokensValues` (tokensMap re-made or
cleared, FieldsLengths, TokensValues, tokenLIDsPlaces); and the collector has no field the model does not know
(a new field kept between bulks needs its reset here) -/
theorem c17_x_init_resets :
    initPlain = ["c.nextDocOffset = 0", "c.blockIndex = blockIndex", "c.MaxMID = 0", "c.MinMID = math.MaxUint64",
      "c.DocsCounter = 0", "c.SizeCounter = 0", "for i := range c.TokensValues { c.TokensValues[i] = nil }",
      "for i := range c.tokenLIDsPlaces { c.tokenLIDsPlaces[i] = nil }"] ∧
    initBranches = [
      "size, need := c.solvers.ids.ReallocParams(len(c.IDs), cap(c.IDs)) ? c.IDs = make([]seq.ID, 0, size); c.tokensInDocs = make([]uint32, 0, size); c.Positions = make([]seq.DocPos, 0, size) : c.IDs = c.IDs[:0]; c.tokensInDocs = c.tokensInDocs[:0]; c.Positions = c.Positions[:0]",
      "size, need := c.solvers.tokensBuf.ReallocParams(len(c.tokensBuf), cap(c.tokensBuf)) ? c.tokensBuf = make([]byte, 0, size) : c.tokensBuf = c.tokensBuf[:0]",
      "size, need := c.solvers.tokensIndex.ReallocParams(len(c.tokensIndex), cap(c.tokensIndex)) ? c.lids = make([]uint32, 0, size); c.tokensIndex = make([]int, 0, size) : c.lids = c.lids[:0]; c.tokensIndex = c.tokensIndex[:0]",
      "size, need := c.solvers.tokensValues.ReallocParams(len(c.TokensValues), cap(c.TokensValues)) ? estimatedMapSize := len(c.tokensMap) * size / len(c.TokensValues); c.tokensMap = make(map[string]int, estimatedMapSize); c.FieldsLengths = make([]int, 0, size); c.TokensValues = make([][]byte, 0, size); c.tokenLIDsPlaces = make([]*TokenLIDs, 0, size) : c.TokensValues = c.TokensValues[:0]; c.FieldsLengths = c.FieldsLengths[:0]; c.tokenLIDsPlaces = c.tokenLIDsPlaces[:0]; clear(c.tokensMap)"] ∧
    collectorFields = ["nextDocOffset", "blockIndex", "MaxMID", "MinMID", "DocsCounter", "SizeCounter", "tokensBuf",
      "TokensValues", "FieldsLengths", "tokensMap", "tokenLIDsPlaces", "IDs", "tokensInDocs", "tokensIndex", "Positions",
      "lids", "solvers"] := ⟨rfl, rfl, rfl⟩

/-- `ActiveWriter.Write` takes `a.mu` before its first file write and holds it until it returns: concurrent deliveries
are the system `crun true` of `c17_concurrent_writers_replayed` (without the lock the docs and meta blocks of two
bulks can land in opposite orders and `Replay` assigns each meta block the other bulk's documents) -/
theorem c17_x_writer_serialised :
    writerLock = ["a.mu.Lock", "a.mu.Unlock", "a.docs.Write"] ∧ writerDefers = ["a.mu.Unlock"] := by decide

/-- the scheduling loop of `Fetcher.fetchDocsAsync` hands **every** grouped fraction to a worker: its only exits are
the end of the fraction list and a cancelled context; nothing is skipped because "enough was found" (a document
found in two fractions after a cross-fraction re-delivery must not end the search for the others) -/
theorem c17_x_fetch_asks_every_fraction :
    fetchLoopHeader = ["for i, frac := range fracs"] ∧
    fetchLoopExits = ["case <-ctx.Done(): break loop"] ∧
    fetchLoopCases = ["case <-ctx.Done()", "case f.sem <- struct{}{}"] := by decide

/-- `MergeQPRs` sorts, then removes repetitions, then corrects the total, then cuts to the limit;
`removeRepetitionsAdvanced` compares ids only -/
theorem c17_x_merge_order :
    mergeOrder = ["dst.IDs = slices.Grow(dst.IDs, idsCount)", "dst.Total += qpr.Total", "dst.IDs = append(dst.IDs, qpr.IDs...)",
      "call sort.Sort(dst.IDs)", "call sort.Sort(sort.Reverse(dst.IDs))",
      "call removeRepetitionsAdvanced(dst.IDs, dst.Histogram, histInterval)", "dst.Total -= repetitionsCount",
      "l := min(len(ids), limit)", "dst.IDs = ids[:l]"] ∧
    repetitionConds = ["len(ids) == 0", "lastID.ID != ids[i].ID", "histInterval > 0"] := by decide

/-- the position packing constant of the model is the code's -/
theorem c17_x_docOffsetBits : SV.Extracted.C17.docOffsetBits = SV.Collector.docOffsetBits := by decide

/-! ## Non-vacuity: concrete histories that meet the hypotheses, and why the hypothesis on bulks is there -/

/-- documents 1..3 (`service:a`/`service:b` tokens) -/
def exDoc (n : Nat) : Meta :=
  { id := (100 + n, n), size := 20 + n, doc := n, tokens := [⟨[95, 97, 108, 108, 95], []⟩, ⟨[115], [97 + n % 2]⟩] }

/-- bulk [1,2], then a partial overlap [2,3], then a whole repeat [1,2], then 2 alone again -/
def exHistory : List (List Meta) := [[exDoc 1, exDoc 2], [exDoc 2, exDoc 3], [exDoc 1, exDoc 2], [exDoc 2]]

example : DistinctBulks exHistory ∧ NonEmptyDocs exHistory := by
  constructor
  · intro b hb; simp only [exHistory, List.mem_cons, List.not_mem_nil, or_false] at hb
    rcases hb with rfl | rfl | rfl | rfl <;> decide
  · intro b hb m hm; simp only [exHistory, List.mem_cons, List.not_mem_nil, or_false] at hb
    rcases hb with rfl | rfl | rfl | rfl <;>
      (simp only [List.mem_cons, List.not_mem_nil, or_false] at hm; rcases hm with rfl | rfl <;> decide) <;> skip
    all_goals (simp only [List.mem_cons, List.not_mem_nil, or_false] at hm; subst hm; decide)

/-- the run really drops the five repeats: 3 documents, `DocsTotal = 3`, and the repeat-free history is different -/
example : docIds (run Active.empty exHistory) = [(101, 1), (102, 2), (103, 3)] ∧ (run Active.empty exHistory).docsTotal = 3 ∧
    norep exHistory = [[exDoc 1, exDoc 2], [exDoc 3], [], []] ∧
    queue (run Active.empty exHistory) [115, 58, 98] = [1, 3] ∧ fetch (run Active.empty exHistory) (102, 2) = some 2 := by
  decide

/-- a concurrent schedule: the repeat of bulk [1,2] is started before the first delivery is published and is
published first; afterwards a partial overlap - still three documents -/
example :
    let evs := [Ev.start [exDoc 1, exDoc 2], .start [exDoc 1, exDoc 2], .finish 1, .start [exDoc 2, exDoc 3], .finish 0, .finish 0]
    (crun ⟨Active.empty, []⟩ evs).pending = [] ∧ docIds (crun ⟨Active.empty, []⟩ evs).a = [(101, 1), (102, 2), (103, 3)] ∧
      (crun ⟨Active.empty, []⟩ evs).a.docsTotal = 3 := by
  decide

/-- the token universe of `exHistory`, per field: `_all_` and `s` with values `a`, `b` -/
def exU : List (List (Bytes × SV.C03.Tok)) :=
  [[([95, 97, 108, 108, 95, 58], [])], [([115, 58, 97], [97]), ([115, 58, 98], [98])]]

/-- the hypothesis of `c17_sealed_once` is met: the concrete reading of the state after `exHistory` (five repeats
dropped) is quiescent in C03's sense - all-documents list [3,2,1] (descending ids), every posting a sublist of it -/
example : SV.C03.Quiescent (SV.C17Compose.viewC03 exU (run Active.empty exHistory).ids (queue (run Active.empty exHistory))) :=
  ⟨by decide, by decide, by decide, by decide, by decide, by decide, by
    intro fl hfl t ht
    have hf : (SV.C17Compose.viewC03 exU (run Active.empty exHistory).ids (queue (run Active.empty exHistory))).fields
        = [[⟨[], [3, 2, 1]⟩], [⟨[97], [2]⟩, ⟨[98], [3, 1]⟩]] := by decide
    have ha : (SV.C17Compose.viewC03 exU (run Active.empty exHistory).ids (queue (run Active.empty exHistory))).allDocs
        = [3, 2, 1] := by decide
    rw [hf] at hfl
    rw [ha]
    simp only [List.mem_cons, List.not_mem_nil, or_false] at hfl
    rcases hfl with rfl | rfl
    · simp only [List.mem_cons, List.not_mem_nil, or_false] at ht; subst ht; exact ⟨by decide, by decide⟩
    · simp only [List.mem_cons, List.not_mem_nil, or_false] at ht
      rcases ht with rfl | rfl <;> exact ⟨by decide, by decide⟩⟩

/-- the hypotheses of `c17_replayed_once` are met for every store state by a decoder that yields a well-nested bulk
(here: the same document with one nested meta in every block - every block after the first is a re-delivery) -/
example (st : SV.WPath.St) : GoodBulks (st.idx.map fun e => (fun _ => [exDoc 1, { exDoc 1 with size := 0, doc := 0 }]) e.blk) := by
  intro b hb
  obtain ⟨e, -, rfl⟩ := List.mem_map.mp hb
  simp [BulkOK, NestedOK, exDoc]

/-- a nested meta of document `n` (`Size = 0`, same id, token `spans.k:v`) -/
def exNested (n v : Nat) : Meta := { id := (100 + n, n), size := 0, doc := 0, tokens := [⟨[115, 112], [v]⟩] }

/-- document 1 with two nested metas and document 2; then a whole repeat; then document 1 (with its nested metas)
again together with the new document 3 -/
def exNestedHistory : List (List Meta) :=
  [[exDoc 1, exNested 1 7, exNested 1 8, exDoc 2], [exDoc 1, exNested 1 7, exNested 1 8, exDoc 2],
   [exDoc 1, exNested 1 7, exNested 1 8, exDoc 3]]

example : GoodBulks exNestedHistory := by
  intro b hb
  simp only [exNestedHistory, List.mem_cons, List.not_mem_nil, or_false] at hb
  rcases hb with rfl | rfl | rfl <;> simp [BulkOK, NestedOK, exDoc, exNested]

/-- **nested metas and totals** (what `SetMultiple` / `Filter` do there): the first delivery accepts the document and
each of its nested metas (equal position is accepted again), so an id owns one LID per meta and `DocsTotal` counts
metas - 5 for 3 documents, the behaviour C02 records; a re-delivery is rejected as a whole (document and nested
metas: other position), so LIDs, postings and `DocsTotal` are exactly those of the history without repeats.
Re-delivery never changes a count: not a C17 violation. -/
theorem c17_nested_counts_metas_witness :
    docIds (run Active.empty exNestedHistory) = [(101, 1), (101, 1), (101, 1), (102, 2), (103, 3)] ∧
    (run Active.empty exNestedHistory).docsTotal = 5 ∧
    norep exNestedHistory = [[exDoc 1, exNested 1 7, exNested 1 8, exDoc 2], [], [exDoc 3]] ∧
    (run Active.empty (norep exNestedHistory)).docsTotal = 5 ∧
    queue (run Active.empty exNestedHistory) [115, 112, 58, 7] = [2] := by decide

/-- modelled as the code is: `Filter` does not touch `SizeCounter`, so `DocsRaw` also counts the bytes of dropped
repeats (they are in the docs file of the active fraction); not part of the property -/
example : (run Active.empty exHistory).docsRaw = (21 + 22) + (22 + 23) + (21 + 22) + 22 := by decide

/-- three bulks through one collector, the solvers re-allocating before the second and reusing before the third;
the second bulk is filtered: the states are those of three fresh collectors (and not empty) -/
example :
    let steps : List Step := [⟨⟨none, none, none, none⟩, 0, [exDoc 1, exDoc 2], none⟩,
      ⟨⟨some 4, some 9, some 4, some 2⟩, 1, [exDoc 2, exDoc 3], some [(103, 3)]⟩, ⟨⟨none, none, none, none⟩, 2, [exDoc 3], some []⟩]
    (reuseRun RCollector.new steps).map (·.ids) = [[(101, 1), (102, 2)], [(103, 3)], []] ∧
    (reuseRun RCollector.new steps).map (·.tokensIndex) = [[0, 1, 0, 2], [0, 2], []] := by decide

/-- `Filter` on a partial overlap with different token counts: document 2 (dropped) sits between kept ones -/
example : rview (filter (collect 4 [exDoc 1, exDoc 2, exDoc 3]) [(101, 1), (103, 3)])
    = [((101, 1), (4, 0), [[95, 97, 108, 108, 95, 58], [115, 58, 98]]), ((103, 3), (4, 51), [[95, 97, 108, 108, 95, 58], [115, 58, 98]])] := by
  decide

/-- **why bulks must carry pairwise distinct ids** (the property's quantifier; the proxy guarantees it): one bulk that
holds the same id twice at two positions gets *both* metas indexed - `SetMultiple` accepts the first and rejects
the second, but `Filter` keeps every meta whose id is in `appended` - while `DocsTotal` counts one. -/
theorem c17_same_id_twice_in_one_bulk_witness :
    docIds (run Active.empty [[exDoc 1, { exDoc 1 with doc := 9 }]]) = [(101, 1), (101, 1)] ∧
    (run Active.empty [[exDoc 1, { exDoc 1 with doc := 9 }]]).docsTotal = 1 := by decide

section
open SV.Repetitions
/-- two fractions list the id (12,1): after the (descending) sort it is adjacent to itself, listed once, one
entry reported as dropped, bucket 10 of the summed histogram goes from 2 to 1 -/
example : (removeRepetitions [((25, 1), 0), ((12, 1), 0), ((12, 1), 1)] (fun k => if k = 10 then 2 else if k = 20 then 1 else 0) 10).1
      = [((25, 1), 0), ((12, 1), 0)] ∧
    (removeRepetitions [((25, 1), 0), ((12, 1), 0), ((12, 1), 1)] (fun k => if k = 10 then 2 else if k = 20 then 1 else 0) 10).2.1 = 1 ∧
    (removeRepetitions [((25, 1), 0), ((12, 1), 0), ((12, 1), 1)] (fun k => if k = 10 then 2 else if k = 20 then 1 else 0) 10).2.2 10 = 1 := by
  decide

/-- the hypotheses of `c17_cross_fraction_counts` are met by two fractions that both hold document (12,1) -/
example : let qs : List QPR := [⟨[((12, 1), 0), ((25, 1), 0)], 2, [(10, 1), (20, 1)]⟩, ⟨[((12, 1), 1)], 1, [(10, 1)]⟩]
    (qs.map (·.total)).sum = (qs.flatMap (·.ids)).length ∧ ∀ k, histSum qs k = inBucket 10 (qs.flatMap (·.ids)) k := by
  refine ⟨by decide, ?_⟩
  intro k
  by_cases h10 : k = 10
  · subst h10; decide
  · by_cases h20 : k = 20
    · subst h20; decide
    · have e1 : ¬ (10 = k) := fun h => h10 h.symm
      have e2 : ¬ (20 = k) := fun h => h20 h.symm
      have b1 : (10 == k) = false := by simpa using e1
      have b2 : (20 == k) = false := by simpa using e2
      simp [histSum, inBucket, bucketOf, List.filter, e1, e2, b1, b2]

/-- the sortedness hypothesis of `c17_repetitions_once` is met by the descending order `MergeQPRs` produces -/
example : ([((25, 1), 0), ((12, 1), 0), ((12, 1), 1)].map (·.1)).Pairwise (idRel false) := by
  simp [idRel]
end

end SV.Props.C17
