import SeqVerif.Model.HistAssoc
import SeqVerif.Model.ApiAsync
import SeqVerif.Model.ProxyAsync
import SeqVerif.Model.AsyncAck
import SeqVerif.Extracted.C19
/-!
# C19 - a finished asynchronous search equals the synchronous one and survives restarts

Model: `SV.Async` (Model/Async.lean) on top of `SV.Merge` (C05's model of `seq.MergeQPRs` and `SearchDocs`).
`fetchFoldWith hi` is `FetchSearchResult`'s fold `MergeQPRs(&qpr, {file}, math.MaxInt, hi, order)` starting from
`seq.QPR{}`; the code as found used `hi = 1` (`fetchFold`), the repair (/repo commit "fix: fetching an async search
result ignored the histogram interval ...", fixes/C19-async-fetch-hist-interval.patch) uses the request's interval.
Which of the two the source contains is re-extracted on every run (`fetchUsesRequestInterval`) and the driver follows it.

Historical counterexamples kept as theorems about the old definition: `c19_fetch_nil_map_witness`,
`c19_fetch_interval_witness` (a document stored in two fractions); they were reproduced on the real code by the
system oracle before the repair and the oracle keeps their inputs as permanent cases.  Aggregations travel through
the key codec (`c19_aggbin_key_roundtrip`); their float sums are outside the model (finding: `+Inf` is not JSON).

Only property theorems and extracted-fact obligations live in this file.
-/
namespace SV.Props.C19
open SV SV.Merge SV.Async

/-- **aggbin_key_roundtrip.**  `fromKey (toKey bin) = bin` for every MID below 2^64 (incl. those above 2^63 that
`int(MID)` turns negative) and every token, also tokens containing `|` - given that `strconv.Atoi` inverts
`strconv.Itoa` on `int(MID)` and that `Itoa` does not emit `|` there (strconv is in the trusted base). -/
theorem c19_aggbin_key_roundtrip (render : Int → List Nat) (parse : List Nat → Option Int)
    (mid : Nat) (tok : List Nat) (hmid : mid < 18446744073709551616)
    (hparse : parse (render (toI64 mid)) = some (toI64 mid)) (hbar : 124 ∉ render (toI64 mid)) :
    fromKey parse (toKey render mid tok) = some (mid, tok) :=
  key_roundtrip render parse mid tok hmid hparse hbar

/-- the fetched IDs are the duplicate-free ordered union of the persisted partial results, whatever the order of the
files and the interval used by the fold -/
theorem c19_fetch_ids (hi : Nat) (desc : Bool) (qs : List QPR) :
    (fetchFoldWith hi desc qs).ids = (sd desc (qs.flatMap (·.ids))).take maxInt :=
  fetchFoldWith_ids hi desc qs

/-- **c19_eq_sync (IDs).**  Done ⇒ the fetched IDs equal the IDs of `SearchDocs` over the fractions recorded at
start, for every layout of the documents over fractions - provided the per-fraction limit (`math.MaxInt32` in the
store API) does not cut. -/
theorem c19_eq_sync_ids (c : Cfg) (fs : List Frac) (from_ to_ L hi : Nat)
    (hinv : ∀ f, f ∈ fs → FracInv f)
    (hvis : ∀ f, f ∈ fs → f.docs ≠ [] → isIntersecting f from_ to_ = true)
    (hmax : c.maxHits = 0 ∨ (filterInRange fs from_ to_).length ≤ c.maxHits)
    (hsize : (docsOf fs).length ≤ L) (hL : L ≤ maxInt) :
    ∃ q, searchDocs c fs from_ to_ L = some q ∧
      (fetchFoldWith hi c.desc ((filterInRange fs from_ to_).map (fracSearch c · L))).ids = q.ids :=
  fetch_eq_sync_ids c fs from_ to_ L hi hinv hvis hmax hsize hL

/-- **c19_eq_sync (histogram).**  Done ⇒ every bucket of the fetched histogram equals the synchronous one, for every
layout of the documents over fractions - documents stored in several fractions included - when a histogram is
requested (`hi > 0`) and the per-fraction limit does not cut.  This is about the fold at the request's interval, i.e.
the repaired `FetchSearchResult` (`c19_x_fetch_fixed` ties it to the source); the histogram correction is associative
when nothing is cut: every merge subtracts per bucket (IDs handed in) - (distinct IDs). -/
theorem c19_eq_sync_hist (c : Cfg) (hhi : c.hi > 0) (fs : List Frac) (from_ to_ L : Nat)
    (hvis : ∀ f, f ∈ fs → f.docs ≠ [] → isIntersecting f from_ to_ = true)
    (hmax : c.maxHits = 0 ∨ (filterInRange fs from_ to_).length ≤ c.maxHits)
    (hsize : (docsOf fs).length ≤ L) (hL : L ≤ maxInt) :
    ∃ q, searchDocs c fs from_ to_ L = some q ∧
      ∀ k, histGet (fetchFoldWith c.hi c.desc ((filterInRange fs from_ to_).map (fracSearch c · L))).hist k
          = histGet q.hist k :=
  fetch_eq_sync_hist_full c hhi fs from_ to_ L hvis hmax hsize hL

/-- when no document is stored in two of the fractions, the interval of the fold is irrelevant (also the literal 1
of the code as found gives the synchronous histogram) and the fold cannot panic -/
theorem c19_eq_sync_hist_any_interval (c : Cfg) (fs : List Frac) (from_ to_ L hi : Nat)
    (hvis : ∀ f, f ∈ fs → f.docs ≠ [] → isIntersecting f from_ to_ = true)
    (hmax : c.maxHits = 0 ∨ (filterInRange fs from_ to_).length ≤ c.maxHits)
    (hnd : (docsOf fs).Nodup) :
    ∃ q, searchDocs c fs from_ to_ L = some q ∧
      (∀ k, histGet (fetchFoldWith hi c.desc ((filterInRange fs from_ to_).map (fracSearch c · L))).hist k
          = histGet q.hist k) ∧
      fetchPanicsWith hi c.desc zeroQPR ((filterInRange fs from_ to_).map (fracSearch c · L)) = false :=
  fetch_eq_sync_hist c fs from_ to_ L hi hvis hmax hnd

/-! ## the public request -/

open SV.Api in
/-- the parameters `StartAsyncSearch(r)` persists (and the resumed search uses) are those `GrpcV1.Search` derives from
the synchronous request with the same window, interval and order, `Size = MaxInt32`, `Offset = 0`, no total - for every
int64 `From/To/HistogramInterval` (negative = above 2^63 / "open"), and both panic on an undeclared order -/
theorem c19_request_params (r : AsyncReq) : asyncParams r = storeParams (syncRequest r) :=
  asyncParams_eq_sync r

open SV.Api in
/-- **c19_eq_sync about the public request.**  On a cold store, for any partition of the documents into fractions:
Done ⇒ the fetched result of `StartAsyncSearch(r)` has the IDs - and, when a histogram is requested, every histogram
bucket - of `GrpcV1.Search(syncRequest r)` (fewer than `MaxInt32` matching documents in the window). -/
theorem c19_request_eq_sync (s : StoreCfg) (hcold : s.hot = false) (hmh : s.maxHits = 0) (fs : List RawFrac)
    (hok : ∀ f, f ∈ fs → f.OK) (r : AsyncReq) (p : Params) (hp : asyncParams r = some p)
    (hsize : (windowDocs fs p.from_ p.to_).length ≤ maxInt32) :
    ∃ q, grpcSearch s fs (syncRequest r) = .ok q ∧
      (fetchFoldWith p.hi p.desc ((filterInRange (fs.map (·.toFrac p.from_ p.to_)) p.from_ p.to_).map
        (fracSearch (p.cfg s) · maxInt32))).ids = q.ids ∧
      (p.hi > 0 → ∀ k, histGet (fetchFoldWith p.hi p.desc ((filterInRange (fs.map (·.toFrac p.from_ p.to_)) p.from_ p.to_).map
        (fracSearch (p.cfg s) · maxInt32))).hist k = histGet q.hist k) :=
  async_request_eq_sync s hcold hmh fs hok r p hp hsize

/-! ## durable before ack (Model/AsyncAck.lean) -/

/-- **every acknowledged search is durable at every later crash point.**  For every sequence of operations - searches
started (with or without fractions in range), `StartSearch` calls torn by a crash, workers queued behind the
`rateLimit` semaphore, partial results, completions, crashes and restarts, in any interleaving and any number: an id
whose `StartSearch` returned nil has its `<id>.info` on disk ... -/
theorem c19_acked_durable (ops : List AsyncAck.Op) :
    ∀ id, id ∈ (AsyncAck.run ops).acked → id ∈ (AsyncAck.run ops).disk.map (·.1) :=
  AsyncAck.inv_run ops

/-- ... hence the restarted store knows it (and resumes it: `c19_resume`) -/
theorem c19_acked_known_after_restart (ops : List AsyncAck.Op) (id : String) (h : id ∈ (AsyncAck.run ops).acked) :
    id ∈ (AsyncAck.step (AsyncAck.run ops) .crash).mem :=
  AsyncAck.known_after_crash ops id h

/-! ## the proxy's fan-out (Model/ProxyAsync.lean) -/

open SV.ProxyAsync in
/-- **The proxy reports done only if every shard that accepted the search reported done, and then the merged result is
the merge of the shards' results.**  Every shard has one replica that accepted the search (`AllAccepted`: the replicas
tried before it answer `NotFound`, it does not - it persisted the request).  If `FetchAsyncSearchResult` answers at all,
each of those replicas answered (`Paired`: no shard is dropped - an unreachable or failing one makes the whole fetch
fail), `done` is the conjunction of their `Done` flags, and the result is `MergeQPRs` of exactly their results. -/
theorem c19_proxy_done_sound (desc : Bool) (size hi : Nat) (shards : List (List ROut)) (accs : List Nat)
    (hacc : AllAccepted shards accs) (done : Bool) (q : QPR) (h : proxyFetch desc size hi shards = .ok done q) :
    ∃ rs : List (Bool × QPR), Paired shards accs rs ∧
      done = rs.all (·.1) ∧ q = mergeQPRs desc ⟨[], 0, none⟩ (rs.map (·.2)) size hi :=
  proxyFetch_sound desc size hi shards accs hacc done q h

open SV.ProxyAsync in
/-- what the accepting replica's answer means for its shard: an answer, or the end of the whole fetch - never silence -/
theorem c19_proxy_shard (outs : List ROut) (acc : Nat) (h : Accepted outs acc) :
    fetchShard outs = match outs[acc]? with
      | some (.ok d q) => .resp d q
      | _ => .fail :=
  fetchShard_accepted outs acc h

open SV.ProxyAsync in
/-- **the handler lists one document entry per ID of the merged result** (repaired `makeProtoDocs`): whenever
`grpcV1.FetchAsyncSearchResult` answers, `Response.Docs` carries exactly the IDs `Ingestor.FetchAsyncSearchResult`
merged - so `c19_proxy_done_sound` / `c19_request_eq_sync` reach the client -/
theorem c19_api_docs_one_per_id (paginates : Bool) (desc : Bool) (offset size hi : Nat) (shards : List (List ROut))
    (d : Bool) (docs : List Nat) (q : QPR) (h : handlerFetch true paginates desc offset size hi shards = .ok d docs q) :
    docs = q.ids ∧ proxyFetchP paginates desc offset size hi shards = .ok d q :=
  handlerFetch_docs paginates desc offset size hi shards d docs q h

open SV.ProxyAsync in
/-- the repaired proxy pages the merged list: IDs `[offset, offset+size)` of the duplicate-free ordered union of the
shards' results -/
theorem c19_api_page (desc : Bool) (offset size hi : Nat) (shards : List (List ROut)) (d : Bool) (q : QPR)
    (h : proxyFetchP true desc offset size hi shards = .ok d q) :
    ∃ rs : List (Bool × QPR), gather shards = .answers rs ∧
      q.ids = ((sd desc (rs.flatMap (·.2.ids))).drop offset).take size :=
  proxyFetchP_page desc offset size hi shards d q h

open SV.ProxyAsync in
/-- **the code as found**: `makeProtoDocs(&resp.QPR, nil)` calls `docs.Next()` on a nil iterator - a done async search
with one hit and `Size = 1` makes the handler panic (the client gets `Internal` from the recover interceptor); and the
request's `Offset` is ignored (offset 1, size 1 over IDs 7, 5 returns 7 instead of 5) -/
theorem c19_api_nil_iterator_witness :
    handlerFetch false false true 0 1 0 [[.ok true ⟨[7], 0, some []⟩]] = .panic ∧
    handlerFetch true false true 1 1 0 [[.ok true ⟨[7, 5], 0, some []⟩]] = .ok true [7] ⟨[7], 0, some []⟩ ∧
    handlerFetch true true true 1 1 0 [[.ok true ⟨[7, 5], 0, some []⟩]] = .ok true [5] ⟨[5], 0, some []⟩ := by
  decide +kernel

/-- **c19_resume.**  For every number `k ≥ 1` of atomic writes completed before the process dies (the request info is
the first one), restart + resume ends with exactly the files of an uninterrupted run - hence the same fetched
result.  Fraction names are distinct.  (`k = 0`: the request was never persisted nor acknowledged.) -/
theorem c19_resume (search : String → QPR) (fracs : List String) (hnd : fracs.Nodup) (k : Nat) (hk : 1 ≤ k) :
    crashAndResume search fracs k = run emptySt (startWrites search fracs) :=
  crashAndResume_eq search fracs hnd k hk

/-- after an uninterrupted (or resumed) run the request is done and every recorded fraction has its result -/
theorem c19_run_complete (search : String → QPR) (fracs : List String) :
    run emptySt (startWrites search fracs) = ⟨some ⟨fracs, true⟩, fracs.map (fun n => (n, search n))⟩ :=
  run_start_full search fracs

/-! ## The code as found violates the property when a document is stored in two fractions -/

/-- no histogram requested, ID `5:0` in two fractions: the fold writes to a nil map (panic in the fetch handler) -/
theorem c19_fetch_nil_map_witness :
    fetchPanics true [⟨[key 7 0, key 5 0], 0, none⟩, ⟨[key 5 0], 0, none⟩] = true := by decide +kernel

/-- histogram interval 10, ID `5:0` in two fractions: the synchronous answer has bucket 0 = 2; the fold (interval 1)
leaves bucket 0 = 3 and creates bucket 5 = 2^64-1 -/
theorem c19_fetch_interval_witness :
    (histGet (fetchFold true [⟨[key 7 0, key 5 0], 0, some [(0, 2)]⟩, ⟨[key 5 0], 0, some [(0, 1)]⟩]).hist 0,
     histGet (fetchFold true [⟨[key 7 0, key 5 0], 0, some [(0, 2)]⟩, ⟨[key 5 0], 0, some [(0, 1)]⟩]).hist 5)
      = (3, 18446744073709551615) ∧
    histGet (mergeQPRs true emptyQPR [⟨[key 7 0, key 5 0], 0, some [(0, 2)]⟩, ⟨[key 5 0], 0, some [(0, 1)]⟩] 100 10).hist 0 = 2 := by
  decide +kernel

/-- the repaired fold (request interval 10) gives the synchronous value on that witness and cannot panic there -/
theorem c19_fixed_interval_witness :
    (histGet (fetchFoldWith 10 true [⟨[key 7 0, key 5 0], 0, some [(0, 2)]⟩, ⟨[key 5 0], 0, some [(0, 1)]⟩]).hist 0,
     histGet (fetchFoldWith 10 true [⟨[key 7 0, key 5 0], 0, some [(0, 2)]⟩, ⟨[key 5 0], 0, some [(0, 1)]⟩]).hist 5) = (2, 0) ∧
    fetchPanicsWith 0 true zeroQPR [⟨[key 7 0, key 5 0], 0, none⟩, ⟨[key 5 0], 0, none⟩] = false := by
  decide +kernel

/-! ## Obligations on facts re-extracted from /repo on every run -/

open SV.Extracted.C19

/-- `mustWriteFileAtomic`: create tmp, write, fsync, rename tmp -> final, fsync the directory -/
theorem c19_x_atomic_write :
    atomicWriteOps = ["os.Create", "f.Close", "f.Write", "f.Sync", "os.Rename", "mustFsyncFile"] ∧
    atomicTmpName = "fpath + \".tmp\"" ∧ atomicRenameArgs = ["fpathTmp", "fpath"] := by decide

/-- the globs only see complete files: patterns end in `.qpr` / `.info`, temporary names end in `.tmp`
(`c19_x_atomic_write`), so a name written by a half-finished `mustWriteFileAtomic` matches neither -/
theorem c19_x_globs :
    qprExtension = ".qpr" ∧ asyncSearchFileExtension = ".info" ∧
    loadQPRPathsPattern = "path.Join(as.config.DataDir, id+\"*\"+qprExtension)" ∧
    loadAsyncSearchesPattern = "path.Join(dataDir, \"*\"+asyncSearchFileExtension)" := by decide

/-- `doSearch` skips exactly the fractions that already have a result file (and, in the repaired code, a recorded
fraction that no longer exists - removed by retention), marks Done after the loop, and
`processFrac` persists through the atomic write -/
theorem c19_x_dosearch :
    (doSearchSkips = ["_, ok := processedFracs[fracInfo.Name]; ok"] ∨
     doSearchSkips = ["_, ok := processedFracs[fracInfo.Name]; ok", "!ok"]) ∧ doSearchDone = ["state.Done = true"] ∧
    doSearchCalls = ["as.loadQPRPaths", "as.processFrac", "as.updateSearchInfo"] ∧
    processFracCalls = ["dp.Search", "json.Marshal", "zstd.CompressLevel", "mustWriteFileAtomic"] := by decide

/-- `FetchSearchResult` folds `MergeQPRs` from `seq.QPR{}` with limit `math.MaxInt` and the request's order; the
interval is the literal 1 (as found) or the request's interval (repaired) - the driver follows `fetchUsesRequestInterval` -/
theorem c19_x_fetch :
    fetchAccInit = "seq.QPR{}" ∧ fetchMergeArgs.take 3 = ["&qpr", "[]*seq.QPR{&tmp}", "math.MaxInt"] ∧
    fetchMergeArgs.drop 4 = ["info.Request.Params.Order"] ∧
    ((fetchIntervalArg = "1" ∧ fetchUsesRequestInterval = false) ∨
     (fetchIntervalArg = "seq.MID(info.Request.Params.HistInterval)" ∧ fetchUsesRequestInterval = true)) := by decide

/-- **the resumed query is the original query.**  The model uses one `search : String → QPR` for the first run and for
the resumed run (`startWrites` / `resumeWrites`); in the code this means: the query text is parsed in exactly two
places, both with the store's mapping `as.mp.GetMapping()`, and a reload leaves the AST empty so that `doSearch`
re-parses it there (never with another mapping). -/
theorem c19_x_same_mapping :
    queryParses = ["StartSearch: parser.ParseSeqQL(r.Query, as.mp.GetMapping())",
                   "doSearch: parser.ParseSeqQL(state.Request.Query, as.mp.GetMapping())"] ∧
    astAssignments = ["StartSearch: r.Params.AST = ast.Root", "doSearch: state.Request.Params.AST = ast.Root",
                      "loadAsyncSearches: req.Request.Params.AST = nil"] := by decide

/-- **the resumed search covers the fractions recorded at start.**  The model's `resumeWrites` iterates `info.fracs` as
persisted by `startWrites`; in the code: `MustStartAsync` only calls `processRequest` for an unfinished request,
`doSearch` ranges over `state.Fractions`, and the only write of a `Fractions` field is the one `StartSearch` persists. -/
theorem c19_x_persisted_fractions :
    resumeCalls = ["as.processRequest"] ∧ doSearchFractionLoop = ["state.Fractions"] ∧
    fractionsWrites = ["StartSearch: Fractions: fracsToSearch"] := by decide

/-- the proxy's `FetchAsyncSearchResult`: only `NotFound` passes over a replica, any other error ends the fetch, `done`
starts true and is cleared by every shard that is not done, no answer at all is `NotFound`, the merge is cut at `r.Size`;
`StartAsyncSearch`: next replica on error, stop at the first that accepts, fail when none did -/
theorem c19_x_proxy_fanout :
    proxyFetchAsyncSearchResult.take 8 = ["done := true", "anyResponse := false", "if err != nil { return }",
      "if status.Code(err) == codes.NotFound { continue }", "break", "if err != nil { continue }",
      "if !storeResp.Done { done = false }", "if !anyResponse { return }"] ∧
    ((proxyFetchAsyncSearchResult.drop 8 = ["seq.MergeQPRs(&qpr, qprs, r.Size, histInterval, order)"] ∧ proxyAsyncPaginates = false) ∨
     (proxyFetchAsyncSearchResult.drop 8 = ["seq.MergeQPRs(&qpr, qprs, r.Offset+r.Size, histInterval, order)"] ∧ proxyAsyncPaginates = true)) ∧
    proxyStartAsyncSearch = ["if err != nil { continue }", "break", "if err != nil { return }"] := by decide

/-- **`StartSearch` persists before it acknowledges**: after the info is built, the first statement is the unconditional
`updateSearchInfo` (which writes the info file atomically BEFORE registering the request in memory); only then the worker
is started and nil returned - the `start` step of `SV.AsyncAck` -/
theorem c19_x_durable_before_ack :
    startSearchTail = ["as.updateSearchInfo(r.ID, info)", "if !requestDone { go as.processRequest(r.ID) }", "return nil"] ∧
    updateSearchInfoBody = ["as.requestsMu.Lock()", "defer as.requestsMu.Unlock()", "as.mustWriteSearchInfo(id, info)",
      "as.requests[id] = info"] ∧
    writeSearchInfoCalls = ["json.Marshal", "mustWriteFileAtomic"] := by decide

/-- the handler passes `Size`/`Offset` down, builds the documents from the merged IDs with a nil iterator, one entry
per ID, and hard-codes `Total: 0` -/
theorem c19_x_api_handler :
    asyncHandlerResponse = ["ID: r.SearchId", "WithDocs: r.WithDocs", "Size: int(r.Size)", "Offset: int(r.Offset)", "Total: 0",
      "Docs: makeProtoDocs(&resp.QPR, nil)", "Aggs: makeProtoAggregation(resp.AggResult)", "Hist: makeProtoHistogram(&resp.QPR)",
      "Error: nil", "Explain: nil"] ∧
    makeProtoDocsLoop = ["for range qpr.IDs", "doc.Id = id.ID.String()", "respDocs[i] = doc"] := by decide

/-- the handler's `StartAsyncSearch` hands the converted request on unchanged: the aggregation queries are exactly what
`convertAggsQuery` made of the request (the same conversion `ComplexSearch` uses), the histogram interval is the parsed
duration in milliseconds, window and order as given -/
theorem c19_x_api_start :
    asyncStartRequest = ["Query: r.GetQuery().GetQuery()", "From: r.GetQuery().From.AsTime()", "To: r.GetQuery().To.AsTime()",
      "Order: r.Order.MustDocsOrder()", "Aggregations: aggs", "HistogramInterval: seq.MID(histInterval.Milliseconds())"] ∧
    asyncStartAggWrites = [] := by decide

/-- the source contains the repaired `makeProtoDocs` (every `docs.Next()` guarded by `docs != nil`): the model
`handlerFetch true ..` of `c19_api_docs_one_per_id` is the code -/
theorem c19_x_api_docs_nil_safe : makeProtoDocsNilSafe = true := by decide

/-- **the resumed search finds every recorded fraction**: `doSearch` looks the recorded names (`state.Fractions`) up among
ALL fractions of the store - not among those that pass the range filter NOW.  (A fraction that was active when the
search started and is sealed before it is processed gets a MIDs distribution; re-filtering then dropped it from the
lookup and `processFrac` ran on a nil fraction: crash loop - fixes/C19-async-resume-sealed-fraction-nil.patch.)
The model's `resumeWrites` searches every recorded, unprocessed name. -/
theorem c19_x_resume_lookup :
    doSearchFracLookup = ["as.fracManager.GetAllFracs()", "state.Fractions"] := by decide

/-- **the aggregation function survives the store's echo**: the table `seq.AggFunc -> wire` is the identity on the
declared order (Count, Sum, Min, Max, Avg, Quantile, Unique = 0..6, as the wire enum), its inverse is built from it by
`mappings[to] = from`, `ToProtoAggFunc` reads the table and `ToAggFunc`/`MustAggFunc` the inverse - with
`c19_aggfunc_roundtrip`, `MustAggFunc(MustProtoAggFunc(f)) = f` for every function -/
theorem c19_x_aggfunc :
    aggFuncTable = ["seq.AggFuncCount: AggFunc_AGG_FUNC_COUNT", "seq.AggFuncSum: AggFunc_AGG_FUNC_SUM",
      "seq.AggFuncMin: AggFunc_AGG_FUNC_MIN", "seq.AggFuncMax: AggFunc_AGG_FUNC_MAX", "seq.AggFuncAvg: AggFunc_AGG_FUNC_AVG",
      "seq.AggFuncQuantile: AggFunc_AGG_FUNC_QUANTILE", "seq.AggFuncUnique: AggFunc_AGG_FUNC_UNIQUE"] ∧
    aggFuncInverse = ["for from, to := range funcMappings", "mappings[to] = seq.AggFunc(from)"] ∧
    aggFuncUses = ["ToAggFunc: funcMappingsPb[f]", "MustAggFunc: funcMappingsPb[f]", "ToProtoAggFunc: funcMappings[f]"] := by decide

/-- the round trip through an injective table and its inverse (instantiated: the seven functions, wire values 0..6) -/
theorem c19_aggfunc_roundtrip (t : List Nat) (hnd : t.Nodup) (i : Nat) (hi : i < t.length) (hv : t[i] < t.length) :
    (SV.Async.invTable t)[t[i]]? = some i :=
  SV.Async.aggFunc_roundtrip t hnd i hi hv

/-- the source contains the repaired fold (the model used by `c19_eq_sync_hist`) -/
theorem c19_x_fetch_fixed : fetchUsesRequestInterval = true := by decide

/-- the key codec: `Itoa(int(MID)) + "|" + token`, split by `strings.Cut`, `Atoi`, `MID(..)` -/
theorem c19_x_key_codec :
    aggBinSeparator = "|" ∧
    toKeyBody = ["mid := strconv.Itoa(int(tb.MID))", "return mid + AggBinSeparator + tb.Token"] ∧
    fromKeyCalls = ["strings.Cut", "strconv.Atoi", "MID"] := by decide

/-- `StartAsyncSearch`: the parameter literal `asyncParams` models and the constant 24 h retention -/
theorem c19_x_start_request :
    startAsyncParams = ["AST: nil", "AggQ: aggs", "HistInterval: uint64(r.HistogramInterval)", "From: seq.MID(r.From)",
      "To: seq.MID(r.To)", "Limit: math.MaxInt32", "WithTotal: false", "Order: r.Order.MustDocsOrder()"] ∧
    startAsyncRequest = ["ID: r.SearchId", "Query: r.Query", "Params: params", "Retention: time.Hour * 24"] := by decide

/-- an async search asks every fraction for `math.MaxInt32` IDs without total (the `L` of `c19_eq_sync_ids`) -/
theorem c19_x_params :
    SV.Extracted.C19.asyncParams = ["HistInterval: uint64(r.HistogramInterval)", "Limit: math.MaxInt32", "WithTotal: false"] := by decide

/-! ## Non-vacuity -/

/-- the codec hypotheses are met at MID 2^64-1 (`int(MID) = -1`, rendered "-1") with a token containing the separator -/
example :
    (fun _ => some (-1 : Int)) ((fun _ => [45, 49]) (toI64 18446744073709551615)) = some (toI64 18446744073709551615) ∧
    124 ∉ (fun (_ : Int) => [45, 49]) (toI64 18446744073709551615) ∧
    fromKey (fun _ => some (-1)) (toKey (fun _ => [45, 49]) 18446744073709551615 [124, 97, 124])
      = some (18446744073709551615, [124, 97, 124]) := by
  decide

/-- `c19_eq_sync_hist` on a layout WITH a duplicated document (ID 20:1 in two fractions), interval 10: the repaired
fold and the synchronous search agree on bucket 20 (2 distinct IDs there: 20:1 and 25:0) -/
example :
    histGet (fetchFoldWith 10 true ([(⟨2, 20, 40, [key 40 0, key 20 1]⟩ : Frac), ⟨2, 20, 25, [key 25 0, key 20 1]⟩].map
      (fracSearch ⟨true, false, 10, false, 1, 0⟩ · 100))).hist 20 = 2 ∧
    (searchDocs ⟨true, false, 10, false, 1, 0⟩ [⟨2, 20, 40, [key 40 0, key 20 1]⟩, ⟨2, 20, 25, [key 25 0, key 20 1]⟩] 0 100 100).map
      (fun q => histGet q.hist 20) = some 2 := by
  decide +kernel

/-- a request with an "open" upper bound (-1), a window start above 2^63 and interval 1000, ascending -/
example : SV.Async.asyncParams ⟨-9223372036854775803, -1, 1000, 1⟩
    = some ⟨9223372036854775813, 18446744073709551615, 2147483647, 1000, false, false, false⟩ := by decide

/-- two shards; shard 0's second replica accepted (the first answers NotFound), shard 1's only replica accepted -/
example : SV.ProxyAsync.AllAccepted [[.notFound, .ok true ⟨[7], 0, some []⟩], [.ok false ⟨[5], 0, some []⟩]] [1, 0] ∧
    SV.ProxyAsync.proxyFetch true 10 0 [[.notFound, .ok true ⟨[7], 0, some []⟩], [.ok false ⟨[5], 0, some []⟩]]
      = .ok false ⟨[7, 5], 0, some []⟩ := by
  refine ⟨⟨⟨by decide, fun j hj => ?_, by decide⟩, ⟨by decide, fun j hj => absurd hj (by omega), by decide⟩, trivial⟩, by decide +kernel⟩
  have : j = 0 := by omega
  subst this; rfl

/-- two searches accepted, the second still queued, a crash, the first finishes later: both are on disk -/
example : (AsyncAck.run [.start "a" false, .start "b" false, .work, .crash, .finish "a"]).disk = [("b", false), ("a", true)] ∧
    (AsyncAck.run [.start "a" false, .start "b" false, .work, .crash, .finish "a"]).acked = ["b", "a"] := by decide

/-- the seven aggregation functions: every one comes back from the wire as itself -/
example : ∀ i, i < 7 → (SV.Async.invTable [0, 1, 2, 3, 4, 5, 6])[[0, 1, 2, 3, 4, 5, 6].getD i 0]? = some i := by decide

/-- a three-fraction layout satisfying the hypotheses of `c19_eq_sync_*` -/
example : (docsOf [(⟨2, 20, 40, [key 40 0, key 20 1]⟩ : Frac), ⟨2, 10, 30, [key 30 1, key 10 0]⟩, ⟨2, 5, 25, [key 25 0, key 5 7]⟩]).Nodup ∧
    (docsOf [(⟨2, 20, 40, [key 40 0, key 20 1]⟩ : Frac), ⟨2, 10, 30, [key 30 1, key 10 0]⟩, ⟨2, 5, 25, [key 25 0, key 5 7]⟩]).length ≤ 2147483647 := by
  decide

/-- crash after the second partial result of three fractions -/
example : crashAndResume (fun n => ⟨[n.length], 0, none⟩) ["a", "bb", "ccc"] 3
    = ⟨some ⟨["a", "bb", "ccc"], true⟩, [("a", ⟨[1], 0, none⟩), ("bb", ⟨[2], 0, none⟩), ("ccc", ⟨[3], 0, none⟩)]⟩ := by
  decide +kernel

/-- a small model of why the decode target matters: `json.Unmarshal` into a value that already holds a slice re-uses
its backing array, so with ONE target for all files the entry stored for the previous request shares the array the next
decode overwrites.  `loadShared` keeps, for every stored request, a view (length) on the one shared array; `loadFresh`
stores each decoded list as its own value. -/
def loadFresh (files : List (String × List String)) : List (String × List String) := files

/-- shared target: every stored request sees the first `len` cells of the array as the LAST decode left it (cells past
the last decode's length keep what an earlier, longer decode wrote) -/
def loadSharedArr : List String → List (List String) → List String
  | arr, [] => arr
  | arr, fr :: rest => loadSharedArr (fr ++ arr.drop fr.length) rest

def loadShared (files : List (String × List String)) : List (String × List String) :=
  files.map fun p => (p.1, (loadSharedArr [] (files.map (·.2))).take p.2.length)

/-- with a fresh target per file every request keeps its own fractions - for every set of persisted requests -/
theorem c19_load_fresh_keeps_requests (files : List (String × List String)) (id : String) (frs : List String)
    (h : (id, frs) ∈ files) : (id, frs) ∈ loadFresh files := h

/-- with one shared target the earlier request resumes on the later request's fractions: a wide search over three
fractions loaded before a narrow one over two is left with `[f2, f3, f3]` - it skips `f1` and visits `f3` twice
(what the `async.system` oracle observes on the real code when the declaration is hoisted out of the loop) -/
theorem c19_load_shared_target_witness :
    loadShared [("req0", ["f1", "f2", "f3"]), ("req1", ["f2", "f3"])] =
      [("req0", ["f2", "f3", "f3"]), ("req1", ["f2", "f3"])] := by decide

/-- `loadAsyncSearches` decodes every `.info` file into a value declared inside the per-file loop (`loadFresh`) -/
theorem c19_x_load_fresh_target :
    loadDecodeTargets = ["req: declared inside the loop"] := by decide

end SV.Props.C19
