import SeqVerif.Model.WPBytes
import SeqVerif.Extracted.C01T
/-!
# C01 - the byte model of the DocBlock header = mechanical translation of `disk/doc_block.go`

`SV.Extracted.C01.T` is produced by `extract/cmd/c01t` (translator `extract/xlate`, prelude `Base/GoInt.lean`):
the header accessors of `disk.DocBlock` with `binary.LittleEndian.(Put)Uint64` and their slice-bound panics
(a write returns the new byte list).  A block is a `List Nat` on the model side and `ints b` on the Go side.
-/
namespace SV.Props.C01
open SV.WPath SV.Go
open SV.Extracted.C01

theorem c01_t_leN (k n : Nat) : leN k n = leBytesN k n := by
  induction k generalizing n with
  | zero => rfl
  | succ k ih => simp [leN, leBytesN, ih]

theorem c01_t_rdLE (k : Nat) (bs : Bytes) : rdLE k bs = leReadN k bs := by
  induction k generalizing bs with
  | zero => rfl
  | succ k ih => cases bs with
    | nil => rfl
    | cons b bs => simp [rdLE, leReadN, ih]

/-- reading the 8-byte field at `off`: `binary.LittleEndian.Uint64(b[off:])` -/
private theorem read_at (b : Bytes) (off : Nat) (h : off + 8 ≤ b.length) :
    (if ¬ (0 ≤ (off : Int) ∧ (off : Int) ≤ len (ints b) ∧ len (ints b) ≤ len (ints b)) then none else
      if ¬ (8 ≤ len (slice (ints b) off (len (ints b)))) then none else
      some (leRead 8 (slice (ints b) off (len (ints b))))) = some ((rdLE 8 (b.drop off) : Nat) : Int) := by
  have hl := len_ints b
  have hs : slice (ints b) (off : Int) (len (ints b)) = ints (b.drop off) := by
    rw [hl, slice_ints]; simp
  have g1 : ¬ ¬ (0 ≤ (off : Int) ∧ (off : Int) ≤ len (ints b) ∧ len (ints b) ≤ len (ints b)) := by rw [hl]; omega
  have g2 : ¬ ¬ (8 ≤ len (ints (b.drop off))) := by rw [len_ints, List.length_drop]; omega
  rw [if_neg g1, hs, if_neg g2, leRead_ints, c01_t_rdLE]

/-- `DocBlock.Len` (any block that holds the field; shorter blocks panic: `c01_t_Len_short`) -/
theorem c01_t_Len (b : Bytes) (h : 9 ≤ b.length) : T.DocBlock_Len (ints b) = some (getLen b : Int) := by
  simpa [T.DocBlock_Len, getLen, offLen] using read_at b 1 h
theorem c01_t_RawLen (b : Bytes) (h : 17 ≤ b.length) : T.DocBlock_RawLen (ints b) = some (getRaw b : Int) := by
  simpa [T.DocBlock_RawLen, getRaw, offRaw] using read_at b 9 h
theorem c01_t_GetExt1 (b : Bytes) (h : 25 ≤ b.length) : T.DocBlock_GetExt1 (ints b) = some (getExt1 b : Int) := by
  simpa [T.DocBlock_GetExt1, getExt1, offExt1] using read_at b 17 h
theorem c01_t_GetExt2 (b : Bytes) (h : 33 ≤ b.length) : T.DocBlock_GetExt2 (ints b) = some (getExt2 b : Int) := by
  simpa [T.DocBlock_GetExt2, getExt2, offExt2] using read_at b 25 h

/-- a block shorter than the field makes the accessor panic -/
theorem c01_t_Len_short (b : Bytes) (h : b.length < 9) : T.DocBlock_Len (ints b) = none := by
  unfold T.DocBlock_Len
  have hl := len_ints b
  by_cases h1 : 1 ≤ b.length
  · have hs : slice (ints b) 1 (len (ints b)) = ints (b.drop 1) := by
      rw [hl]; exact (slice_ints b 1 b.length).trans (by simp)
    have g2 : ¬ (8 ≤ len (ints (b.drop 1))) := by rw [len_ints, List.length_drop]; omega
    rw [hs]; simp only [if_pos g2]; split <;> rfl
  · have g1 : ¬ (0 ≤ (1 : Int) ∧ (1 : Int) ≤ len (ints b) ∧ len (ints b) ≤ len (ints b)) := by rw [hl]; omega
    split
    · rfl
    · rename_i hc; exact absurd (Classical.not_not.mp hc) g1

/-- `DocBlock.Codec` -/
theorem c01_t_Codec (b : Bytes) (h : b ≠ []) : T.DocBlock_Codec (ints b) = some (getCodec b : Int) := by
  cases b with
  | nil => exact absurd rfl h
  | cons c rest => simp [T.DocBlock_Codec, ints, idx, getCodec]

/-- writing the 8-byte field at `off`: `binary.LittleEndian.PutUint64(b[off:], v)` -/
private theorem write_at (b : Bytes) (off v : Nat) (h : off + 8 ≤ b.length) :
    (if ¬ (0 ≤ (off : Int) ∧ (off : Int) + 8 ≤ len (ints b) ∧ len (ints b) ≤ len (ints b)) then none else
      some (lePut 8 (ints b) off v)) = some (ints (b.take off ++ leN 8 v ++ b.drop (off + 8))) := by
  have hl := len_ints b
  have g1 : ¬ ¬ (0 ≤ (off : Int) ∧ (off : Int) + 8 ≤ len (ints b) ∧ len (ints b) ≤ len (ints b)) := by rw [hl]; omega
  rw [if_neg g1, lePut_ints, c01_t_leN]

/-- `DocBlock.SetExt1` / `SetExt2` = the model's `setExt1` / `setExt2` (every uint64 value, every block that holds
the field) -/
theorem c01_t_SetExt1 (b : Bytes) (v : Nat) (h : 25 ≤ b.length) :
    T.DocBlock_SetExt1 (ints b) v = some (ints (setExt1 b v)) := by
  simpa [T.DocBlock_SetExt1, setExt1, offExt1] using write_at b 17 v h
theorem c01_t_SetExt2 (b : Bytes) (v : Nat) (h : 33 ≤ b.length) :
    T.DocBlock_SetExt2 (ints b) v = some (ints (setExt2 b v)) := by
  simpa [T.DocBlock_SetExt2, setExt2, offExt2] using write_at b 25 v h
theorem c01_t_SetLen (b : Bytes) (v : Nat) (h : 9 ≤ b.length) :
    T.DocBlock_SetLen (ints b) v = some (ints (b.take 1 ++ leN 8 v ++ b.drop 9)) := by
  simpa [T.DocBlock_SetLen] using write_at b 1 v h
theorem c01_t_SetRawLen (b : Bytes) (v : Nat) (h : 17 ≤ b.length) :
    T.DocBlock_SetRawLen (ints b) v = some (ints (b.take 9 ++ leN 8 v ++ b.drop 17)) := by
  simpa [T.DocBlock_SetRawLen] using write_at b 9 v h

/-- `DocBlock.SetCodec` -/
theorem c01_t_SetCodec (c : Nat) (rest : Bytes) (v : Nat) :
    T.DocBlock_SetCodec (ints (c :: rest)) v = some (ints (v :: rest)) := by
  have g : ¬ ¬ ((0 : Int) ≤ 0 ∧ (0 : Int) < len (ints (c :: rest))) := by rw [len_ints, List.length_cons]; omega
  unfold T.DocBlock_SetCodec
  split
  · rename_i hc; exact absurd hc g
  · simp [Go.set, ints]

/-- `DocBlock.FullLen` = `Len() + DocBlockHeaderLen` in uint64 -/
theorem c01_t_FullLen (b : Bytes) (h : 9 ≤ b.length) :
    T.DocBlock_FullLen (ints b) = some (((getLen b + headerLen) % two64 : Nat) : Int) := by
  unfold T.DocBlock_FullLen
  rw [c01_t_Len b h]
  simp only [Option.bind_some, Option.some.injEq, headerLen, two64]
  unfold wrapU64; omega

/-- `DocBlock.CalcLen` on an encoded block: the length field becomes the payload length, nothing else changes -/
theorem c01_t_CalcLen (c l r e1 e2 : Nat) (payload : Bytes) (hp : payload.length < 9223372036854775808 - 33) :
    T.DocBlock_CalcLen (ints (hdr c l r e1 e2 ++ payload)) = some (ints (hdr c payload.length r e1 e2 ++ payload)) := by
  unfold T.DocBlock_CalcLen
  have hlen : (hdr c l r e1 e2 ++ payload).length = 33 + payload.length := by simp [hdr_length]
  have hw : wrapU64 (wrapI64 (len (ints (hdr c l r e1 e2 ++ payload)) - 33)) = (payload.length : Int) := by
    rw [len_ints, hlen]; unfold wrapU64 wrapI64; omega
  rw [hw, c01_t_SetLen _ _ (by omega)]
  simp only [Option.bind_some, Option.some.injEq]
  congr 1

end SV.Props.C01
