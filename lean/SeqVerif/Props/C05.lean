import SeqVerif.Model.SearchDocsTotals
import SeqVerif.Model.StoreSearch
import SeqVerif.Model.ApiSpec
import SeqVerif.Model.MergeAggs
import SeqVerif.Model.AggShard
import SeqVerif.Model.AggSource
import SeqVerif.Extracted.C05
/-!
# C05 - results are independent of how documents are split over fractions and shards

Model: `SV.Merge` (Model/MergeQPR.lean: `seq.MergeQPRs` statement by statement; Model/SearchDocs.lean:
`prepareFracs`, `calcEnsuredIDsCount`, the `SearchDocs` loop with `FractionsPerIteration`, `paginateIDs`, the proxy
merge).  An ID `{MID,RID}` is the number `mid * 2^64 + rid` (`key_lt_iff`: its order is `seq.Less`).
`desc = true` is `DocsOrderDesc`.  `sd desc xs` is literally what `MergeQPRs` computes before the cut: `sort.Sort`
then `removeRepetitionsAdvanced`; `c05_sd_spec` characterises it independently of the model (the unique strictly
ordered list with the same members).

Oracle assumption (recorded in props/C05.json): a single fraction answers as `fracSearch` says (C02/C03).

Only property theorems and extracted-fact obligations live in this file.
-/
namespace SV.Props.C05
open SV SV.Merge

/-- `sd` is the duplicate-free ordered union: strictly ordered, same members - and it is the only such list. -/
theorem c05_sd_spec (desc : Bool) (xs : List Nat) :
    SortedBy desc (sd desc xs) ∧ (∀ v, v ∈ sd desc xs ↔ v ∈ xs) ∧
      ∀ ys, SortedBy desc ys → (∀ v, v ∈ ys ↔ v ∈ xs) → ys = sd desc xs :=
  ⟨sd_sorted desc xs, fun v => mem_sd desc v xs,
    fun ys hy hm => sortedBy_ext desc ys _ hy (sd_sorted desc xs) (fun v => by rw [hm v, mem_sd])⟩

/-- **merge_topk.**  For any destination, any number of partial results, any limit: `MergeQPRs` leaves the first
`limit` elements of the duplicate-free ordered union of all ID lists. -/
theorem c05_merge_topk (desc : Bool) (dst : QPR) (qs : List QPR) (limit hi : Nat) :
    (mergeQPRs desc dst qs limit hi).ids = (sd desc (dst.ids ++ qs.flatMap (·.ids))).take limit :=
  mergeQPRs_ids desc dst qs limit hi

/-- **merge associativity (IDs).**  Merging in two rounds with an intermediate cut to the same limit gives the IDs
of one merge of everything (any grouping); histogram intervals are irrelevant for IDs. -/
theorem c05_merge_assoc_ids (desc : Bool) (dst : QPR) (qs rs : List QPR) (L hi1 hi2 hi3 : Nat) :
    (mergeQPRs desc (mergeQPRs desc dst qs L hi1) rs L hi2).ids = (mergeQPRs desc dst (qs ++ rs) L hi3).ids :=
  mergeQPRs_ids_assoc desc dst qs rs L hi1 hi2 hi3

/-- the order in which partial results arrive (goroutine fan-in, shard order) is irrelevant for the IDs -/
theorem c05_merge_perm_ids (desc : Bool) (dst : QPR) (qs rs : List QPR) (L hi : Nat) (h : qs.Perm rs) :
    (mergeQPRs desc dst qs L hi).ids = (mergeQPRs desc dst rs L hi).ids :=
  mergeQPRs_ids_perm desc dst qs rs L hi h

/-- **ensured_sound.**  Every ID counted by `calcEnsuredIDsCount` strictly precedes every document of every
remaining fraction, so it can never be displaced. -/
theorem c05_ensured_sound (desc : Bool) (ids : List Nat) (rest : List Frac) (hs : SortedBy desc ids)
    (hr : FracsSorted desc rest) (hinv : ∀ f, f ∈ rest → FracInv f) :
    ∀ a, a ∈ ids.take (calcEnsured desc ids rest) → ∀ d, d ∈ docsOf rest → lessFn desc a d = true :=
  ensured_sound desc ids rest hs hr hinv

/-- **C05, loop level.**  For fractions ordered as `List.Sort` leaves them (ranges may overlap arbitrarily), any
`FractionsPerIteration = n+1`, both orders, any limit, scan-all or not: the loop returns the first `L` distinct IDs
of all documents - what one fraction holding everything returns. -/
theorem c05_loop_ids (c : Cfg) (n L : Nat) (fs : List Frac)
    (hr : FracsSorted c.desc fs) (hinv : ∀ f, f ∈ fs → FracInv f) :
    (searchLoop c n L emptyQPR fs L).ids = (fracSearch c ⟨0, 0, 0, docsOf fs⟩ L).ids := by
  have := searchLoop_ids c n L emptyQPR fs L [] (by simp [emptyQPR, sd, sortIds, removeRepetitions]) [] []
    (by simp [emptyQPR]) (by simp) (by simp) hr hinv
  simpa [fracSearch] using this

/-- **c05_partition_invariant (IDs).**  However the documents are distributed over fractions (any number, any
overlap of their `[From,To]` ranges, listed in any order, empty or out-of-range fractions mixed in), for every
`FractionsPerIteration` (0 = all at once), both orders, every limit and request range: `SearchDocs` returns the
first `L` distinct IDs of all matching documents - exactly what one fraction holding everything returns.
Hypotheses: `From ≤ mid ≤ To` holds for each fraction's documents, a fraction holding a matching document
intersects the request range (both follow from the fraction invariant, `isIntersecting_of_doc`), and the
`MaxFractionHits` guard does not reject the request. -/
theorem c05_partition_invariant (c : Cfg) (fs : List Frac) (from_ to_ L : Nat)
    (hinv : ∀ f, f ∈ fs → FracInv f)
    (hvis : ∀ f, f ∈ fs → f.docs ≠ [] → isIntersecting f from_ to_ = true)
    (hmax : c.maxHits = 0 ∨ (filterInRange fs from_ to_).length ≤ c.maxHits) :
    ∃ q, searchDocs c fs from_ to_ L = some q ∧ q.ids = (fracSearch c ⟨0, 0, 0, docsOf fs⟩ L).ids := by
  obtain ⟨q, h1, h2⟩ := searchDocs_ids c fs from_ to_ L hinv hvis hmax
  exact ⟨q, h1, by simpa [fracSearch] using h2⟩

/-- two distributions of the same documents (same member set, duplicates or not) give the same IDs, whatever the
two `FractionsPerIteration` settings -/
theorem c05_partition_independent (c c' : Cfg) (hd : c.desc = c'.desc) (fs gs : List Frac) (from_ to_ L : Nat)
    (hsame : ∀ d, d ∈ docsOf fs ↔ d ∈ docsOf gs)
    (hf : ∀ f, f ∈ fs → FracInv f) (hg : ∀ f, f ∈ gs → FracInv f)
    (hvf : ∀ f, f ∈ fs → f.docs ≠ [] → isIntersecting f from_ to_ = true)
    (hvg : ∀ f, f ∈ gs → f.docs ≠ [] → isIntersecting f from_ to_ = true)
    (hmf : c.maxHits = 0 ∨ (filterInRange fs from_ to_).length ≤ c.maxHits)
    (hmg : c'.maxHits = 0 ∨ (filterInRange gs from_ to_).length ≤ c'.maxHits) :
    ∃ q q', searchDocs c fs from_ to_ L = some q ∧ searchDocs c' gs from_ to_ L = some q' ∧ q.ids = q'.ids := by
  obtain ⟨q, h1, h2⟩ := searchDocs_ids c fs from_ to_ L hf hvf hmf
  obtain ⟨q', h1', h2'⟩ := searchDocs_ids c' gs from_ to_ L hg hvg hmg
  exact ⟨q, q', h1, h1', by rw [h2, h2', hd, sd_congr c'.desc _ _ hsame]⟩

/-- the model's `paginateIDs` is `take size ∘ drop offset` and its second result the page length -/
theorem c05_paginate (ids : List Nat) (offset size : Nat) :
    (paginate ids offset size).1 = (ids.drop offset).take size ∧
      (paginate ids offset size).2 = ((ids.drop offset).take size).length :=
  paginate_eq ids offset size

/-- **c05_paging.**  Walking with consecutive pages `(0,s₀), (s₀,s₁), (s₀+s₁,s₂), ...` - each page computed like the
system does (first `offset+size` IDs, then `paginateIDs`) - concatenates to the first `Σ sᵢ` elements of the single
ordered list: no gaps, no repeats. -/
theorem c05_paging (full : List Nat) (sizes : List Nat) : walkPages full 0 sizes = full.take sizes.sum := by
  simpa using walkPages_eq full 0 sizes

/-- the proxy level: `s` shards, each answering with its first `offset+size` distinct IDs, merged and paginated give
the window `[offset, offset+size)` of the duplicate-free ordered union - independent of the number of shards. -/
theorem c05_proxy_page (desc : Bool) (stores : List (List Nat)) (answers : List QPR) (offset size hi : Nat)
    (h : answers.map (·.ids) = stores.map (fun d => (sd desc d).take (offset + size))) :
    (proxyMerge desc answers offset size hi).ids = ((sd desc stores.flatten).drop offset).take size :=
  proxyMerge_ids desc stores answers offset size hi h

/-- which replica of a shard answers does not matter when the replicas hold the same documents -/
theorem c05_replica_choice (desc : Bool) (stores stores' : List (List Nat)) (offset size hi : Nat) (answers answers' : List QPR)
    (h : answers.map (·.ids) = stores.map (fun d => (sd desc d).take (offset + size)))
    (h' : answers'.map (·.ids) = stores'.map (fun d => (sd desc d).take (offset + size)))
    (hsame : ∀ d, d ∈ stores.flatten ↔ d ∈ stores'.flatten) :
    (proxyMerge desc answers offset size hi).ids = (proxyMerge desc answers' offset size hi).ids := by
  rw [proxyMerge_ids desc stores answers offset size hi h, proxyMerge_ids desc stores' answers' offset size hi h',
    sd_congr desc _ _ hsame]

/-- **c05_listed_once.**  Whatever is merged (a document on several fractions, shards or replicas), an ID appears at
most once in the result, and the result is in the requested strict order. -/
theorem c05_listed_once (desc : Bool) (dst : QPR) (qs : List QPR) (limit hi : Nat) :
    (mergeQPRs desc dst qs limit hi).ids.Nodup ∧ SortedBy desc (mergeQPRs desc dst qs limit hi).ids :=
  ⟨sortedBy_nodup desc _ (mergeQPRs_ids_sorted desc dst qs limit hi), mergeQPRs_ids_sorted desc dst qs limit hi⟩

/-- ... also after pagination -/
theorem c05_listed_once_page (desc : Bool) (answers : List QPR) (offset size hi : Nat) :
    (proxyMerge desc answers offset size hi).ids.Nodup := by
  simp only [proxyMerge]
  rw [(paginate_eq _ offset size).1]
  exact List.Nodup.sublist ((List.take_sublist _ _).trans (List.drop_sublist _ _))
    (sortedBy_nodup desc _ (mergeQPRs_ids_sorted desc _ _ _ _))

/-! ## total and histogram -/

/-- **total of a merge, exactly** - for any inputs: the sum of the totals, minus (when that sum is positive; uint64
wrap-around modelled by `subTotal`) the number of repeated IDs *among the ID lists handed in*.  This is the
"stated, not hidden" limit of the property: a document stored twice is subtracted only when both copies are inside
the lists that reach the merge. -/
theorem c05_merge_total (desc : Bool) (dst : QPR) (qs : List QPR) (limit hi : Nat) :
    (mergeQPRs desc dst qs limit hi).total =
      subTotal (dst.total + (qs.map (·.total)).sum) ((allIds dst qs).length - (sd desc (allIds dst qs)).length) :=
  mergeQPRs_total desc dst qs limit hi

/-- **histogram of a merge, exactly** (destination owns a map, bucket `k` does not underflow): the sum of the
inputs' counts of bucket `k` minus the repetitions whose MID falls into bucket `k`. -/
theorem c05_merge_hist (desc : Bool) (dst : QPR) (qs : List QPR) (limit hi : Nat) (hhi : hi > 0) (k : Nat)
    (hle : cntBucket hi k (repetitions (sortIds desc (allIds dst qs))) ≤ histGet (mergedHist dst qs) k) :
    histGet (mergeQPRs desc dst qs limit hi).hist k =
      histGet dst.hist k + (qs.map (fun q => Hist.sumAt (q.hist.getD []) k)).sum
        - cntBucket hi k (repetitions (sortIds desc (allIds dst qs))) :=
  mergeQPRs_hist desc dst qs limit hi hhi k hle

/-- `MergeQPRs` cannot hit its nil-map write when the destination owns a histogram map (`SearchDocs`, the proxy) -/
theorem c05_merge_no_panic (desc : Bool) (dst : QPR) (qs : List QPR) (hi : Nat) (h : dst.hist.isSome = true) :
    mergePanics desc dst qs hi = false :=
  mergePanics_false desc dst qs hi h

/-- **merge associativity (total, histogram).**  When no ID is handed in twice, two rounds with any intermediate
cut give the total and every histogram bucket of a single round. -/
theorem c05_merge_assoc_total_hist (desc : Bool) (dst : QPR) (qs rs : List QPR) (L hi : Nat)
    (h : (allIds dst (qs ++ rs)).Nodup) :
    (mergeQPRs desc (mergeQPRs desc dst qs L hi) rs L hi).total = (mergeQPRs desc dst (qs ++ rs) L hi).total ∧
    ∀ k, histGet (mergeQPRs desc (mergeQPRs desc dst qs L hi) rs L hi).hist k
        = histGet (mergeQPRs desc dst (qs ++ rs) L hi).hist k :=
  mergeQPRs_assoc_total_hist desc dst qs rs L hi h

/-- **c05_partition_invariant (total, histogram).**  Under the stated hypothesis that no document is stored in two
fractions, for every layout, every `FractionsPerIteration`, both orders, every limit: `SearchDocs` returns the total
and every histogram bucket that one fraction holding everything returns (a nil map reads as 0). -/
theorem c05_partition_invariant_total_hist (c : Cfg) (fs : List Frac) (from_ to_ L : Nat)
    (hvis : ∀ f, f ∈ fs → f.docs ≠ [] → isIntersecting f from_ to_ = true)
    (hmax : c.maxHits = 0 ∨ (filterInRange fs from_ to_).length ≤ c.maxHits)
    (hnd : (docsOf fs).Nodup) :
    ∃ q, searchDocs c fs from_ to_ L = some q ∧
      q.total = (fracSearch c ⟨0, 0, 0, docsOf fs⟩ L).total ∧
      ∀ k, histGet q.hist k = histGet (fracSearch c ⟨0, 0, 0, docsOf fs⟩ L).hist k := by
  obtain ⟨q, h1, h2, _, h4⟩ := searchDocs_total_hist c fs from_ to_ L hvis hmax hnd
  refine ⟨q, h1, by simpa [fracSearch] using h2, fun k => ?_⟩
  rw [h4 k]
  by_cases hhi : c.hi > 0
  · simp [fracSearch, hhi, histGet, get_histOf]
  · simp [fracSearch, hhi, histGet, Hist.get]

/-! ## composition with C02: the per-fraction oracle discharged, and the store-level statement -/

/-- **The `fracSearch` oracle is C02's `IndexSearch`.**  For every well-formed fraction index (C02's hypotheses),
query tree, window, order and limit, what `EvalTree.search` (the model of `getLIDsBorders ; buildEvalTree ;
iterateEvalTree`, proved equal to `Spec.search` in `c02_search_eq_spec`) returns is - under the key encoding of IDs -
exactly the answer `fracSearch` specifies for the fraction's matching documents (requests without histogram). -/
theorem c05_fracSearch_is_c02 (c : Cfg) (hhi : c.hi = 0) (f : FracIdx) (q : Spec.Query) (from_ to_ limit : Nat)
    (hok : f.OK from_) :
    qprOfResult (EvalTree.search f.idx q from_ to_ (!c.desc) limit c.withTotal) = fracSearch c (f.toFrac q from_ to_) limit :=
  fracSearch_discharged c hhi f q from_ to_ limit hok

/-- **C05 at store level.**  `SearchDocs` over ANY list of well-formed fraction indexes (any number, any overlap of
their ranges, any `FractionsPerIteration`, both orders, any limit) returns the IDs of `Spec.search` over the union of
the documents the indexes store; and its total when no matching document is stored twice. -/
theorem c05_store_eq_spec (c : Cfg) (fs : List FracIdx) (q : Spec.Query) (from_ to_ L : Nat)
    (hok : ∀ f, f ∈ fs → f.OK from_)
    (hmax : c.maxHits = 0 ∨ (filterInRange (fs.map (·.toFrac q from_ to_)) from_ to_).length ≤ c.maxHits) :
    ∃ r, searchDocs c (fs.map (·.toFrac q from_ to_)) from_ to_ L = some r ∧
      r.ids = (Spec.search (fs.flatMap (fun f => EvalTree.docsOf f.idx)) q from_ to_ (!c.desc) L c.withTotal).ids.map keyOf ∧
      ((docsOf (fs.map (·.toFrac q from_ to_))).Nodup →
        r.total = (Spec.search (fs.flatMap (fun f => EvalTree.docsOf f.idx)) q from_ to_ (!c.desc) L c.withTotal).total) :=
  storeSearch_eq_spec c fs q from_ to_ L hok hmax

/-! ## aggregations through `MergeQPRs` (Model/MergeAggs.lean, on C06's container model) -/

/-- **`SamplesContainer.Merge` is the componentwise monoid operation**: `NotExists`, `Total` and `Sum` add up - `NotExists`
regardless of either `Total` (a destination that so far only counted value-less documents keeps that count when the
first container with values arrives). -/
theorem c05_sc_merge_additive (lim : Nat) (pick : List Int → Nat) (h hist : Agg.SC) (hwf : hist.WF) :
    (Agg.SC.merge lim pick h hist).notExists = h.notExists + hist.notExists ∧
    (Agg.SC.merge lim pick h hist).total = h.total + hist.total ∧
    (Agg.SC.merge lim pick h hist).sum = h.sum + hist.sum :=
  sc_merge_additive lim pick h hist hwf

/-- **aggregation of any partition = aggregation of the union.**  For any number of partial results merged with any
bracketing (fractions per iteration, shards): every bin of the result has `Total` = number of values, `NotExists` = sum
of the partial `NotExists`, `Sum` = sum of the values of ALL partial results (induction over the merge tree:
`Agg.ATree.rep`). -/
theorem c05_agg_partition_invariant (t : Agg.MTree Agg.ALeaf)
    (hleaf : ∀ l, l ∈ t.leaves → Agg.KeysNodup l.a.bins ∧
      ∀ k, Agg.ORep (l.pres k) (l.vals k) (l.ne k) false (l.a.get k))
    (k : Agg.Bin) (c : Agg.SC) (hc : (t.eval (Agg.mergeLeaf sampleLim pick0)).a.get k = some c) :
    c.total = (Agg.binVals t.leaves k).length ∧ c.notExists = Agg.binNe t.leaves k ∧ c.sum = (Agg.binVals t.leaves k).sum :=
  tree_bin_sums t hleaf k c hc

/-- ... hence the order in which the pieces are merged (desc: newest fraction first, asc: oldest first, shard
arrival order) and their grouping do not matter -/
theorem c05_agg_order_irrelevant (t1 t2 : Agg.MTree Agg.ALeaf) (hp : t1.leaves.Perm t2.leaves)
    (hleaf : ∀ l, l ∈ t1.leaves → Agg.KeysNodup l.a.bins ∧
      ∀ k, Agg.ORep (l.pres k) (l.vals k) (l.ne k) false (l.a.get k))
    (k : Agg.Bin) (c1 c2 : Agg.SC) (h1 : (t1.eval (Agg.mergeLeaf sampleLim pick0)).a.get k = some c1)
    (h2 : (t2.eval (Agg.mergeLeaf sampleLim pick0)).a.get k = some c2) :
    c1.total = c2.total ∧ c1.notExists = c2.notExists ∧ c1.sum = c2.sum :=
  trees_agree t1 t2 hp hleaf k c1 c2 h1 h2

/-- the case the "first non-empty container" shortcut gets wrong: a bin that so far holds only `NotExists = 2` merged
with a container with one value and `NotExists = 1` keeps all three value-less documents -/
theorem c05_sc_merge_valueless_first :
    (Agg.SC.merge 8096 (fun _ => 0) ⟨Agg.maxInt64, Agg.minInt64, 0, 0, 2, []⟩ ⟨5, 5, 5, 1, 1, []⟩).notExists = 3 := by decide

/-- **the group name of an aggregation source is `tokens[tids[source]]`, whatever the cache holds** - so it does not
depend on the fraction's own TID numbering, i.e. on how the corpus is split (Model/AggSource.lean; the cache of
`SourcedNodeIterator.ValueBySource` is read and written under the same key: `c05_x_value_by_source`) -/
theorem c05_value_by_source (tokens : List String) (tids : List Nat) (count : Nat → Nat) (cache : List (Nat × String))
    (source : Nat) (h : AggSource.CacheOK tokens tids cache) :
    (AggSource.valueBySource id id tokens tids count cache source).1 = AggSource.tokenOf tokens (tids.getD source 0) ∧
    AggSource.CacheOK tokens tids (AggSource.valueBySource id id tokens tids count cache source).2 :=
  AggSource.valueBySource_id tokens tids count cache source h

/-! ## the public request: proxy request -> store request -> parameters -> result (Model/ApiSearch.lean) -/

open SV.Api in
/-- **One meaning, implemented twice.**  For every valid proxy request (declared order, `0 ≤ size`, `0 ≤ offset`,
`offset+size` an `int`) the store request built by `GetAPISearchRequest` and the parameters `doSearch` derives from it
(`seq.MID(req.From)`, `int(req.Size+req.Offset)`, `uint64(req.Interval)`, `MustDocsOrder`) are exactly `meaning r`:
same window (also for MIDs above 2^63 that travel as negative int64), limit `offset+size`, interval, order, total. -/
theorem c05_request_meaning (r : ProxyReq) (hv : r.valid) :
    ∃ sr p, apiRequest r = some sr ∧ storeParams sr = some p ∧
      p.from_ = (meaning r).from_ ∧ p.to_ = (meaning r).to_ ∧ p.limit = ((meaning r).offset + (meaning r).size : Nat) ∧
      p.hi = (meaning r).hi ∧ p.desc = (meaning r).desc ∧ p.withTotal = (meaning r).withTotal ∧ p.hasAgg = false :=
  params_of_valid r hv

open SV.Api in
/-- **c05_partition_invariant at `GrpcV1.Search(req)`.**  A store that does not refuse the request answers - for any
partition of its documents into fractions, any `FractionsPerIteration` - with the first `Size+Offset` distinct IDs, in
the requested order, of the matching documents inside `[seq.MID(From), seq.MID(To)]`. -/
theorem c05_grpc_partition_invariant (s : StoreCfg) (fs : List RawFrac) (sr : StoreReq) (p : Params)
    (hp : storeParams sr = some p) (hlim : 0 ≤ p.limit)
    (hhot : (s.hot && s.mature && (decide (s.oldestCT = 0) || decide (s.oldestCT > (Go.wrapU64 sr.from_).toNat))) = false)
    (hok : ∀ f, f ∈ fs → f.OK)
    (hmax : s.maxHits = 0 ∨ (filterInRange (fs.map (·.toFrac p.from_ p.to_)) p.from_ p.to_).length ≤ s.maxHits) :
    ∃ q, grpcSearch s fs sr = .ok q ∧ q.ids = (sd p.desc (windowDocs fs p.from_ p.to_)).take p.limit.toNat :=
  grpcSearch_ids s fs sr p hp hlim hhot hok hmax

open SV.Api in
/-- **c05_store_eq_spec at `GrpcV1.Search(req)`**: over any list of well-formed fraction indexes the answer's IDs are
those of `Spec.search` for the request's parameters (C02 discharges the per-fraction oracle). -/
theorem c05_grpc_eq_spec (s : StoreCfg) (fs : List FracIdx) (q : Spec.Query) (sr : StoreReq) (p : Params)
    (hp : storeParams sr = some p) (hlim : 0 ≤ p.limit)
    (hhot : (s.hot && s.mature && (decide (s.oldestCT = 0) || decide (s.oldestCT > (Go.wrapU64 sr.from_).toNat))) = false)
    (hok : ∀ f, f ∈ fs → f.OK p.from_)
    (hmax : s.maxHits = 0 ∨ (filterInRange (fs.map (·.toFrac q p.from_ p.to_)) p.from_ p.to_).length ≤ s.maxHits) :
    ∃ r, grpcSearch s (fs.map (rawOf · q)) sr = .ok r ∧
      r.ids = (Spec.search (fs.flatMap (fun f => EvalTree.docsOf f.idx)) q p.from_ p.to_ (!p.desc) p.limit.toNat
        p.withTotal).ids.map keyOf :=
  grpcSearch_eq_spec s fs q sr p hp hlim hhot hok hmax

open SV.Api in
/-- **c05_paging at `Ingestor.Search(sr)`.**  For every valid request, any number of shards, any partition of each
shard's documents into fractions, any per-store `FractionsPerIteration`, whichever replica answers: the proxy returns the
window `[offset, offset+size)` of the duplicate-free ordered list of all matching documents inside the request's time
range.  (Stores in cold mode without a `MaxFractionHits` limit - the refusals are modelled in `grpcSearch`.) -/
theorem c05_request_page (r : ProxyReq) (hv : r.valid) (shards : List (List RawFrac)) (cfgs : List StoreCfg)
    (hcfg : cfgs.length = shards.length) (hcold : ∀ s, s ∈ cfgs → s.hot = false ∧ s.maxHits = 0)
    (hok : ∀ fs, fs ∈ shards → ∀ f, f ∈ fs → f.OK) :
    ∃ sr q, apiRequest r = some sr ∧
      proxySearch r ((cfgs.zip shards).map fun cs => grpcSearch cs.1 cs.2 sr) = .ok q ∧
      q.ids = ((sd (meaning r).desc (windowDocs shards.flatten (meaning r).from_ (meaning r).to_)).drop (meaning r).offset).take
        (meaning r).size :=
  proxySearch_page r hv shards cfgs hcfg hcold hok

open SV.Api in
/-- requests the API does not give a meaning to are rejected before any store is asked (negative size or offset) ... -/
theorem c05_request_invalid (r : ProxyReq) (answers : List Resp) (h : r.size < 0 ∨ r.offset < 0) :
    proxySearch r answers = .invalidArgument := by
  simp [proxySearch, h]

open SV.Api in
/-- ... but the STORE does not validate: `Size+Offset < 0` (a negative size, or an int64 overflow of the sum) on a
scan-all request over at least one fraction in range makes `GrpcV1.Search` panic (`ids[:limit]` in `MergeQPRs`).
Witness: `Size = -1`, `WithTotal`, one fraction with one document. -/
theorem c05_grpc_negative_limit_witness :
    grpcSearch ⟨false, false, 0, 1, 0⟩ [⟨1, 5, 5, [key 5 0]⟩] ⟨0, 100, -1, 0, 0, true, 0, false⟩ = .panic := by
  decide +kernel

/-- `seq.Less` on `{MID,RID}` is the order of the single number used by the model -/
theorem c05_key_order (m1 r1 m2 r2 : Nat) (h1 : r1 < R) (h2 : r2 < R) :
    key m1 r1 < key m2 r2 ↔ idLess m1 r1 m2 r2 = true :=
  key_lt_iff m1 r1 m2 r2 h1 h2

/-! ## Obligations on facts re-extracted from /repo on every run -/

open SV.Extracted.C05

/-- the loop of `SearchDocs` is the one `searchLoop` models: condition, shift/search/merge/ensured, the limit update,
and the merge is cut at the ORIGINAL limit with the request's histogram interval and order -/
theorem c05_x_loop :
    searchDocsLoopConds = ["len(remainingFracs) > 0 && (scanAll || params.Limit > 0)"] ∧
    searchDocsLoopCalls = ["s.searchDocsAsync", "remainingFracs.Shift", "seq.MergeQPRs", "calcEnsuredIDsCount"] ∧
    searchDocsLimitAssign = ["origLimit - calcEnsuredIDsCount(total.IDs, remainingFracs, params.Order)"] ∧
    searchDocsMergeArgs = ["total", "subQPRs", "origLimit", "seq.MID(params.HistInterval)", "params.Order"] := by
  decide

/-- `calcEnsuredIDsCount`: the two `sort.Search` predicates, which order uses which, and the next fraction -/
theorem c05_x_ensured :
    ensuredSearches = ["order.IsReverse() => sort.Search(len(ids), func(i int) bool { return ids[i].ID.MID >= nextFracInfo.From })",
                       " => sort.Search(len(ids), func(i int) bool { return ids[i].ID.MID <= nextFracInfo.To })"] ∧
    ensuredNoRemaining = ["len(remainingFracs) == 0 => len(ids)"] ∧
    ensuredNextFrac = "remainingFracs[0].Info()" := by decide

/-- `prepareFracs` filters then sorts; `List.Sort`: `To` descending for desc, `From` ascending otherwise -/
theorem c05_x_sort :
    prepareFracsCalls = ["fracs.FilterInRange", "fracs.Sort"] ∧
    listSortLess = ["order.IsDesc() => l[i].Info().To > l[j].Info().To",
                    "else(order.IsDesc()) => l[i].Info().From < l[j].Info().From"] := by decide

/-- `MergeQPRs`: sort direction per order, comparison by `seq.Less` on the ID only, repetition test on the whole ID,
total accounting, histogram correction, the cut -/
theorem c05_x_merge :
    mergeSorts = ["order.IsReverse() => sort.Sort(dst.IDs)", "else(order.IsReverse()) => sort.Sort(sort.Reverse(dst.IDs))"] ∧
    idSourcesLess = "return Less(p[i].ID, p[j].ID)" ∧
    seqLess = ["if a.MID == b.MID { return a.RID < b.RID }", "return a.MID < b.MID"] ∧
    repetitionConds = ["len(ids) == 0", "lastID.ID != ids[i].ID", "histInterval > 0"] ∧
    histRepetition = ["bucket := repetition.ID.MID", "bucket -= bucket % histInterval", "histogram[bucket]--"] ∧
    mergeTotalAndCut = ["dst.Total += qpr.Total", "if dst.Total > 0", "dst.Total -= repetitionsCount",
                        "l := min(len(ids), limit)", "dst.IDs = ids[:l]"] := by decide

/-- the proxy merges with limit `Offset+Size` and paginates the merged IDs with `(Offset, Size)` -/
theorem c05_x_proxy :
    proxyMergeArgs = ["qpr", "qprs", "sr.Offset + sr.Size", "sr.Interval", "sr.Order"] ∧
    proxyPaginateArgs = ["qpr.IDs", "sr.Offset", "sr.Size"] ∧
    paginateBody = ["if len(ids) > offset", "ids = ids[offset:]", "ids = ids[:0]", "if len(ids) > size",
                    "ids = ids[:size]", "size = len(ids)"] := by decide

/-- `doSearch`: the conversions, the hot-store refusal (`OldestCT == 0 || OldestCT > from`) checked right after `from`
is converted, the parameter literal, and the refusal codes - what `SV.Api.storeParams` / `grpcSearch` model -/
theorem c05_x_grpc :
    doSearchConversions = ["from := seq.MID(req.From)", "if g.config.StoreMode == StoreModeHot",
      "if g.fracManager.Mature() && g.earlierThanOldestFrac(uint64(from))", "to := seq.MID(req.To)",
      "limit := int(req.Size + req.Offset)"] ∧
    doSearchParams = ["AST: ast", "AggQ: aggQ", "HistInterval: uint64(req.Interval)", "From: from", "To: to", "Limit: limit",
      "WithTotal: req.WithTotal", "Order: req.Order.MustDocsOrder()"] ∧
    doSearchOrder = ["convert from", "hot-check", "hot-check", "convert to", "convert limit", "params",
      "SearchDocs(g.fracManager.GetAllFracs())"] ∧
    earlierThanOldest = ["oldestCt := g.fracManager.OldestCT.Load()", "return oldestCt == 0 || oldestCt > from"] ∧
    storeErrorCodes = ["errors.Is(e, consts.ErrTooManyUniqValues) => storeapi.SearchErrorCode_TOO_MANY_UNIQ_VALUES",
      "errors.Is(e, consts.ErrTooManyFractionsHit) => storeapi.SearchErrorCode_TOO_MANY_FRACTIONS_HIT"] := by decide

/-- the proxy: the store request literal (`Size` and `Offset` travel separately), the validation, the replica order -/
theorem c05_x_proxy_request :
    apiRequestFields = ["Query: util.ByteToStringUnsafe(sr.Q)", "From: int64(sr.From)", "To: int64(sr.To)",
      "Size: int64(sr.Size)", "Offset: int64(sr.Offset)", "Interval: int64(sr.Interval)", "Aggs: convertToAggsQuery(sr.AggQ)",
      "Explain: sr.Explain", "WithTotal: sr.WithTotal", "Order: storeapi.MustProtoOrder(sr.Order)"] ∧
    proxyValidation = ["sr.Size < 0 || sr.Offset < 0"] ∧
    replicaOrder = ["if si.config.ShuffleReplicas { idx = util.IdxShuffle(len(hosts)) } else { idx = util.IdxFill(len(hosts)) }",
      "host := hosts[idx[i]]"] := by decide

/-- **`proxy/search/ingestor.go:searchShard` has an error arm for every refusal code** (`switch resp.Code`, re-extracted):
a store that refuses - hot store without the old data, too many unique values, MORE FRACTIONS IN RANGE THAN
`MaxFractionHits` - answers gRPC-OK with an empty body and the code; without its arm that body would be merged as the
shard's (empty) answer.  With C06's `SV.Agg.shardOutcome` (Model/AggShard.lean): no refusal is ever taken for data. -/
theorem c05_x_shard_codes :
    ∀ c, c ∈ Agg.Code.all → c ≠ .noError → ("storeapi." ++ c.name) ∈ shardCodeArms := by decide

/-- **never silently short across a split**: when the proxy reports plain success, every shard answered `NO_ERROR` and
every shard's result is in the merge - so a layout that exceeds a store's `MaxFractionHits` gives an explicit error, never
a "complete" answer without that shard (C06's `searchOutcome_ok` at the extracted arms) -/
theorem c05_no_silent_short (codes : List Agg.Code) (n : Nat)
    (hok : Agg.searchOutcome (codes.map (Agg.shardOutcome shardCodeArms)) = .ok n) :
    n = codes.length ∧ ∀ c, c ∈ codes → c = .noError :=
  Agg.searchOutcome_ok shardCodeArms c05_x_shard_codes codes n hok

/-- `ValueBySource`: every use of `s.tokensCache` is keyed by the same expression (`source`), and every token lookup
is `GetValByTID(s.tids[source])` - the `id id` instance of `SV.AggSource.valueBySource` -/
theorem c05_x_value_by_source :
    valueBySourceCacheKeys = ["source", "source"] ∧ valueBySourceTokens = ["s.tids[source]", "s.tids[source]"] := by decide

/-- **`OldestCT` is the oldest creation time of the fractions that REMAIN after retention**: every eviction
(`shiftFirstFrac`) also drops the fraction from the local list (`fracs = fracs[1:]`) that `GetOldestFrac` is then asked
about - so the hot-store refusal `OldestCT == 0 || OldestCT > from` of `SV.Api.grpcSearch` covers exactly what the store
no longer holds, and the proxy turns to the cold tier for it -/
theorem c05_x_oldest_ct_after_eviction :
    shrinkSizesFacts = ["fracs := fm.GetAllFracs()", "for size > fm.config.TotalSize", "  outsider := fm.shiftFirstFrac()",
      "  fracs = fracs[1:]", "if oldestByCT := fracs.GetOldestFrac(); oldestByCT != nil",
      "newOldestCT := oldestByCT.Info().CreationTime"] := by decide

/-! ## Non-vacuity: the hypotheses are met by concrete non-trivial layouts -/

/-- three fractions with overlapping ranges `[10,30]`, `[5,25]`, `[20,40]`, sorted by `To` descending, each within its
bounds (IDs are `mid*2^64+rid`) -/
example :
    FracsSorted true [⟨2, 20, 40, [key 40 0, key 20 1]⟩, ⟨3, 10, 30, [key 30 1, key 20 1, key 10 0]⟩, ⟨2, 5, 25, [key 25 0, key 5 7]⟩] ∧
    (∀ f, f ∈ [(⟨2, 20, 40, [key 40 0, key 20 1]⟩ : Frac), ⟨3, 10, 30, [key 30 1, key 20 1, key 10 0]⟩, ⟨2, 5, 25, [key 25 0, key 5 7]⟩] → FracInv f) := by
  refine ⟨by simp [FracsSorted], ?_⟩
  intro f hf
  simp only [List.mem_cons, List.mem_nil_iff, or_false] at hf
  rcases hf with rfl | rfl | rfl <;> intro d hd <;> simp only [List.mem_cons, List.mem_nil_iff, or_false] at hd <;>
    rcases hd with rfl | rfl | rfl <;> decide

/-- the early termination really happens and is right: limit 2, one fraction per iteration, the second fraction is
asked for 1 ID only and the third is never searched -/
example :
    searchDocs ⟨true, false, 0, false, 1, 0⟩
      [⟨3, 10, 30, [key 30 1, key 20 1, key 10 0]⟩, ⟨2, 5, 25, [key 25 0, key 5 7]⟩, ⟨2, 1, 9, [key 9 0, key 1 0]⟩] 0 100 2
      = some ⟨[key 30 1, key 25 0], 0, some []⟩ := by
  decide +kernel

/-- the `Nodup` hypothesis is met by the layout above minus the shared ID ... -/
example : (docsOf [(⟨2, 20, 40, [key 40 0, key 20 1]⟩ : Frac), ⟨2, 10, 30, [key 30 1, key 10 0]⟩, ⟨2, 5, 25, [key 25 0, key 5 7]⟩]).Nodup := by
  decide

/-- ... and it is needed: the ID `20:1` stored in two fractions is counted twice in total and histogram when the
second copy is cut off before the merge (limit 1, one fraction per iteration) - `c05_merge_total` gives the value -/
example :
    (searchDocs ⟨true, true, 10, false, 1, 0⟩
      [⟨2, 20, 40, [key 40 0, key 20 1]⟩, ⟨1, 20, 20, [key 20 1]⟩] 0 100 1).map (fun q => (q.total, histGet q.hist 20))
      = some (3, 2) := by
  decide +kernel

/-- a well-formed fraction index for `c05_store_eq_spec`: IDs 7:1, 7:0, 5:2 (descending), token a:x on LIDs 1 and 3 -/
example : (⟨⟨[⟨7, 1⟩, ⟨7, 0⟩, ⟨5, 2⟩], [⟨[97], [120], [1, 3]⟩]⟩, 5, 7⟩ : FracIdx).OK 0 := by
  refine ⟨⟨?_, ?_⟩, ?_, ?_, Or.inr ?_, ?_⟩ <;> decide

/-- a valid request whose window starts above 2^63 (travels as a negative int64) -/
example : (⟨9223372036854775813, 18446744073709551615, 3, 2, 1000, true, 1⟩ : SV.Api.ProxyReq).valid := by
  unfold SV.Api.ProxyReq.valid; decide

/-- pages (0,2), (2,1), (3,3) of a 5-element list -/
example : walkPages [50, 40, 30, 20, 10] 0 [2, 1, 3] = [50, 40, 30, 20, 10] := by decide

end SV.Props.C05
