import SeqVerif.Model.Replica
import SeqVerif.Extracted.C09
/-!
# C09 - a bulk is acknowledged only when a full replica set holds it in every tier

Model: `SV.Replica` (Model/Replica.lean) - the bookkeeping of `SeqDBClient.StoreDocuments`, `storeDocs`,
`sendBulkToStores`, `shard.Bulk` with `bulkWriteStatus`.  Everything the environment decides is an oracle
argument: per attempt and tier the visiting order produced by the shuffle, per visit the outcome
`Call.open` (circuit open / rejected: the callback does not run) or `Call.exec outs timedOut`
(per-replica result of the gRPC call; the breaker may additionally report a time-out).
`coldLog` / `hotLog` record exactly the calls that were executed and returned success.

Only property theorems and extracted-fact obligations live in this file.
-/
namespace SV.Props.C09
open SV.Replica

/-- **C09 (ack soundness).**  For every topology (any number of shards and replicas per tier, long-term tier
optional), every oracle (orders, outcomes, circuit states) and every number of attempts: if the client reports the
bulk as stored then a hot shard exists all of whose replicas returned success, and likewise a long-term shard when
that tier is configured. -/
theorem c09_ack_sound (cold hot : Tier) (oracle : List (List (Nat × Call) × List (Nat × Call))) :
    (storeDocuments cold hot oracle init).1 = true →
      (cold.S = 0 ∨ FullSet cold.R (storeDocuments cold hot oracle init).2.coldLog) ∧
      (hot.S = 0 ∨ FullSet hot.R (storeDocuments cold hot oracle init).2.hotLog) :=
  ack_sound cold hot oracle init (good_init cold hot)

/-- **C09 (no credit for failed or skipped calls).**  Every (shard, replica) that counts towards a full set was
really called in some attempt and that call returned success. -/
theorem c09_log_sound (cold hot : Tier) (oracle : List (List (Nat × Call) × List (Nat × Call))) :
    (∀ e, e ∈ (storeDocuments cold hot oracle init).2.coldLog → ∃ a, a ∈ oracle ∧ CallOk a.1 e) ∧
    (∀ e, e ∈ (storeDocuments cold hot oracle init).2.hotLog → ∃ a, a ∈ oracle ∧ CallOk a.2 e) := by
  have h := storeDocuments_log cold hot oracle init
  refine ⟨fun e he => ?_, fun e he => ?_⟩
  · rcases h.1 e he with h' | h'
    · simp [init] at h'
    · exact h'
  · rcases h.2 e he with h' | h'
    · simp [init] at h'
    · exact h'

/-- **C09 (failure is reported).**  If after the attempts no hot shard has a full set of successful calls, or a
configured long-term tier has none, the client reports failure. -/
theorem c09_no_full_set_reports_failure (cold hot : Tier) (oracle : List (List (Nat × Call) × List (Nat × Call)))
    (h : (hot.S ≠ 0 ∧ ¬ FullSet hot.R (storeDocuments cold hot oracle init).2.hotLog) ∨
         (cold.S ≠ 0 ∧ ¬ FullSet cold.R (storeDocuments cold hot oracle init).2.coldLog)) :
    (storeDocuments cold hot oracle init).1 = false := by
  cases hres : (storeDocuments cold hot oracle init).1 with
  | false => rfl
  | true =>
    have := c09_ack_sound cold hot oracle hres
    rcases h with ⟨h1, h2⟩ | ⟨h1, h2⟩
    · rcases this.2 with h3 | h3
      · exact absurd h3 h1
      · exact absurd h3 h2
    · rcases this.1 with h3 | h3
      · exact absurd h3 h1
      · exact absurd h3 h2

/-- The retries are bounded: with no attempt left the answer is failure (the code's loop runs
`consts.BulkMaxTries` times - extracted below - and returns its error on the last one). -/
theorem c09_bounded (cold hot : Tier) (x : St) : (storeDocuments cold hot [] x).1 = false := rfl

/-! ## Obligations on facts re-extracted from /repo on every run -/

open SV.Extracted.C09

/-- the attempt loop is bounded by `consts.BulkMaxTries ≥ 1` and gives up with an error on its last iteration -/
theorem c09_x_loop_bounded :
    1 ≤ bulkMaxTries ∧ storeDocumentsLoopConds = ["n < consts.BulkMaxTries"] ∧
      storeDocumentsGiveUpConds = ["n == consts.BulkMaxTries-1"] := by decide

/-- `storeDocs` sends to the long-term tier first, sets `coldWritten` only after that send returned nil, then
sends to the hot tier - the order `SV.Replica.storeDocs` models -/
theorem c09_x_storeDocs_order :
    storeDocsOrder = ["if !bulkWS.coldWritten", "send i.writeStores.shards", "coldWritten = true", "send i.hotStores.shards"] := by
  decide

/-- `shard.Bulk` marks a replica written only in the success branch, and skips exactly the already written ones -/
theorem c09_x_written_only_on_success :
    writtenSetOnlyOnSuccess = true ∧
      replicaSkipConds = ["len(writtenReplicas) > 0 && writtenReplicas[replicaIdx]"] := by decide

/-- `sendBulkToStores` stops at the first shard whose `Bulk` returned nil -/
theorem c09_x_break_on_success : sendBulkBreakConds = ["err == nil"] := by decide

/-- every bulk starts from a write status of its own: `StoreDocuments` initialises it once from
`newBulkWriteStatus`, hands exactly that value to every `storeDocs` attempt, and the constructors allocate
(`coldWritten: false`, `make([]bool, ..)`) - the all-false initial state `SV.Replica.storeDocuments` starts from.
Nothing of an earlier bulk can count for a later one. -/
theorem c09_x_write_status_fresh_per_bulk :
    writeStatusInits = ["writeStatus := newBulkWriteStatus"] ∧ writeStatusPassed = ["writeStatus"] ∧
      newBulkWriteStatusBody = ["return &bulkWriteStatus{ coldWritten: false, hotStoresWS: newStoresWriteStatus(hotShardsCnt, hotReplicasCnt), writeStoresWS: newStoresWriteStatus(writeShardsCnt, writeReplicasCnt), }"] ∧
      newStoresWriteStatusBody = ["return &storesWriteStatus{ replicasCnt: replicasCnt, statuses: make([]bool, shardsCnt*replicasCnt), }"] :=
  ⟨rfl, rfl, rfl, rfl⟩

/-- a replica call counts as accepted (nil) only when the gRPC call itself returned no error: `sendBulkToHost`
returns an error under `err != nil` and nil only at top level - no error kind is mapped to success -/
theorem c09_x_host_nil_only_on_success :
    sendBulkToHostReturns = ["err != nil => fmt.Errorf", " => nil"] := by decide

/-- the circuit breaker wrapper adds no way to succeed: `Execute` runs the callback inside the circuit with NO
fallback function (a fallback's result would replace the attempt's error) and returns exactly the circuit's error, so
a shard attempt is reported successful only if the callback - the replica loop of `shard.Bulk` - returned nil; an
execution timeout, an open circuit and a concurrency rejection all surface as errors (`Call.open` and `Call.exec _ true` of the
model are failed attempts) -/
theorem c09_x_breaker_execute_transparent :
    breakerExecuteStmts =
      ["err := cb.Circuit.Execute(ctx, func(ctx context.Context) error { return callback(ctx) }, nil)",
       "if err != nil { return fmt.Errorf(\"circuit breaker execute: %w\", err) }",
       "return err"] := rfl

/-- the proxy builds its topologies from the flags as documented: hot tiers use `--hot-replicas` when set (else
`--replicas`), the long-term tiers always `--replicas`; each host list goes through `stores.NewStoresFromString`, which
the harness's oracles exercise on every case (replica sets = consecutive groups of that many hosts) -/
theorem c09_x_proxy_topology_wiring :
    proxyTopologyCalls = ["*flagHotStores, hotReplicasNum", "*flagHotReadStores, hotReplicasNum",
        "*flagReadStores, *flagReplicas", "*flagWriteStores, *flagReplicas"] ∧
      proxyHotReplicas = ["hotReplicasNum := *flagReplicas", "if *flagHotReplicas > 0",
        "hotReplicasNum = *flagHotReplicas"] := ⟨rfl, rfl⟩

/-- The documented grouping of a host list into replica sets: consecutive groups of `r` hosts. -/
def groupHosts (r : Nat) : List String → List (List String)
  | [] => []
  | h :: t =>
    if _hr : r = 0 then [] else
      (h :: t).take r :: groupHosts r ((h :: t).drop r)
termination_by l => l.length
decreasing_by simp only [List.length_drop, List.length_cons]; omega

/-- grouping loses and invents no host and keeps the documented order: the replica sets concatenated give the list back -/
theorem c09_topology_groups_flatten (r : Nat) (hr : 0 < r) (l : List String) :
    (groupHosts r l).flatten = l := by
  induction l using groupHosts.induct r with
  | case1 => simp [groupHosts]
  | case2 h t h0 => omega
  | case3 h t h0 ih =>
    rw [groupHosts]
    simp only [h0, dite_false, List.flatten_cons, ih]
    exact List.take_append_drop r (h :: t)

example : groupHosts 2 ["a", "b", "c", "d"] = [["a", "b"], ["c", "d"]] := by
  simp [groupHosts]

/-! ## Non-vacuity: the hypotheses are met by concrete non-trivial runs -/

/-- 1 hot shard x 2 replicas: first attempt half-fails, second attempt completes the same shard -> acknowledged -/
example :
    (storeDocuments ⟨0, 0⟩ ⟨1, 2⟩
      [([], [(0, .exec [true, false] false)]), ([], [(0, .exec [false, true] false)])] init).1 = true := by decide

/-- with a long-term tier: cold succeeds on attempt 1, hot only on attempt 2 (cold is not re-sent) -/
example :
    (storeDocuments ⟨1, 1⟩ ⟨2, 1⟩
      [([(0, .exec [true] false)], [(1, .exec [false] false), (0, .open)]), ([], [(0, .exec [true] false)])] init).1 = true := by
  decide

/-- three failing attempts -> failure -/
example :
    (storeDocuments ⟨0, 0⟩ ⟨1, 1⟩
      [([], [(0, .exec [false] false)]), ([], [(0, .open)]), ([], [(0, .exec [true] true)])] init).1 = false := by decide

end SV.Props.C09
