import SeqVerif.Model.WritePathInv
import SeqVerif.Model.WPIndexLemmas
import SeqVerif.Model.WPPlain
import SeqVerif.Model.FileWriterProofs
import SeqVerif.Model.WPConcurrent
import SeqVerif.Model.BulkHandler
import SeqVerif.Model.LidQueue
import SeqVerif.Extracted.C01
/-!
# C01 - acknowledged bulks survive any crash/restart history, intact and uncorrupted

Model: `SV.WPath` (Model/WPBytes.lean, WritePath.lean, WritePathLemmas.lean, WritePathInv.lean):
byte-level docs/meta files with `WriteAt`, the 33-byte DocBlock header, `ActiveWriter.Write`,
`ReadDocBlock`, the loop of `Active.Replay`, `NewActive`'s writer offsets, crashes at any byte of either write.
`run fix init h` is the store after history `h`; `fix = true` is the start-up that cuts both files back to the
replayed end (`Active.truncateTail`, fixes/C01-truncate-tail.patch), `fix = false` the start-up without it.
`present st d m` = the indexer holds `m` (ext fields aside) with a docs offset at which `ReadDocBlockPayload`
returns exactly the block `d`: every document of the bulk is findable by its tokens (they live in `m`) and
fetched from its own docs block.

Only property theorems, extracted-fact obligations and non-vacuity examples live in this file.
-/
namespace SV.Props.C01
open SV.WPath

/-- **C01 (the store always comes back up).**  With the repaired start-up no history of bulks, crashes at any byte
of either file write and restarts makes the replay fail. -/
theorem c01_startup_total (h : List Ev) (hwf : ∀ e ∈ h, e.WF) : (run true init h).panicked = false :=
  (run_fixed h init [] inv_init hwf).up

/-- **C01 (acknowledged bulks survive).**  After any history every acknowledged bulk is served: its meta block is
in the index and its docs offset yields its own docs block, byte for byte. -/
theorem c01_acked_survive (h : List Ev) (hwf : ∀ e ∈ h, e.WF) :
    ∀ b ∈ ackedOf h, present (run true init h) b.1 b.2 = true := by
  intro b hb
  have hinv := run_fixed h init [] inv_init hwf
  exact inv_present _ _ _ _ hinv b.1 b.2 (by simpa using ackedOf_sub_completeOf h b hb)

/-- **C01 (never partially, never another bulk's bytes).**  After any history every indexed block belongs to a bulk
that was attempted in the history and whose two blocks reached the disk completely, and its docs offset yields that
bulk's own docs block.  The files contain nothing else: they are the concatenation of the complete bulks. -/
theorem c01_unacked_atomic (h : List Ev) (hwf : ∀ e ∈ h, e.WF) :
    (∀ e ∈ (run true init h).idx, ∃ d m, (d, m) ∈ completeOf h ∧ (d, m) ∈ attemptedOf h ∧
        stampMeta e.blk 0 0 = stampMeta (enc m) 0 0 ∧ readBlockAt (run true init h).docs e.pos = some (enc d)) ∧
    (run true init h).docs = docsOf (completeOf h) ∧ (run true init h).mfile = metaOf (completeOf h) 0 ∧
    (run true init h).idx.length = (completeOf h).length := by
  have hinv := run_fixed h init [] inv_init hwf
  simp only [List.nil_append] at hinv
  refine ⟨fun e he => ?_, by simpa using hinv.docs, by simpa using hinv.mfile, ?_⟩
  · obtain ⟨d, m, hm, h1, h2⟩ := inv_paired _ _ _ _ hinv e he
    exact ⟨d, m, hm, completeOf_sub_attemptedOf h _ hm, h1, h2⟩
  · rw [hinv.idx]
    have : ∀ (bs : List (Blk × Blk)) off, (entriesOf bs off).length = bs.length := by
      intro bs
      induction bs with
      | nil => intro off; simp [entriesOf, stamped]
      | cons x bs ih => intro off; obtain ⟨d, m⟩ := x; simpa [entriesOf, stamped] using ih _
    exact this _ _

/-- **C01 (the replay only ever allocates what the writer held in memory).**  After any history and a crash at any
byte of a bulk, every length the replay loop computes from the meta file (`make([]byte, FullLen)`) is the size of a
meta block of a bulk attempted in that history - the torn tail contributes the size of the block that was being
written.  So a reachable meta file never contains an invented length: the machine-dependent allocation sizes that the
`replay` / `wp.run` channels leave out (64 MiB .. 2^48, met only in deliberately corrupted files) cannot hide a
start-up failure reachable by crashes. -/
theorem c01_replay_allocations_reachable (h : List Ev) (hwf : ∀ e ∈ h, e.WF) (d m : Blk) (hd : d.WF) (hm : m.WF)
    (pt : CrashPt) :
    ∀ l ∈ replayLens (crashDisk (run true init h) (enc d) (enc m) pt).2,
      ∃ x ∈ attemptedOf (h ++ [.tornBulk d m pt]), l = (enc x.2).length := by
  have hinv := run_fixed h init [] inv_init hwf
  simp only [List.nil_append] at hinv
  obtain ⟨bs', b, k, hwf', hb, hk, hlen, hform, hsub⟩ := crashDisk_meta_form _ _ d m pt hinv hd hm
  intro l hl
  rw [hform, replayLens] at hl
  have hmem : ∀ x ∈ bs', x ∈ attemptedOf (h ++ [.tornBulk d m pt]) := by
    intro x hx
    rw [attemptedOf_append]
    rcases hsub x hx with hx | hx
    · exact List.mem_append_left _ (completeOf_sub_attemptedOf h x hx)
    · subst hx; simp [attemptedOf]
  rcases lensGo_stamped bs' hwf' b hb k hk 0 _ l hl with ⟨x, hx, hxl⟩ | hl
  · exact ⟨x, hmem x hx, hxl⟩
  · exact ⟨(d, m), by rw [attemptedOf_append]; simp [attemptedOf], by rw [hl, hlen]⟩

/-- **C01 (document level: fetch by ID and search by token).**  `buildIndex` is what the index worker derives from
the blocks it is handed (DocBlocks, DocsPositions with first-wins, token postings), `fetch` the active fraction's
fetch path, for any decompression `cd` that does not look at the ext fields.  After any history, if the documents of
the complete bulks carry distinct IDs, then every document of every acknowledged bulk - given as the list `ds` the
bulk's two blocks decode to, bodies non-empty and shorter than 4 GiB - is fetched byte for byte by its ID and is
among the documents each of its tokens leads to. -/
theorem c01_docs_served (cd : IdxCodec) (hcd : cd.ExtFree) (h : List Ev) (hwf : ∀ e ∈ h, e.WF)
    (hnd : (bulkIDs cd (completeOf h)).Nodup) (d m : Blk) (hb : (d, m) ∈ ackedOf h) (ds : List LDoc)
    (hdocs : cd.docsRaw (enc d) = some (rawDocs ds)) (hmeta : cd.metaDocs (enc m) = metasOf ds)
    (hsz : ∀ x ∈ ds, 0 < x.body.length ∧ x.body.length < 256 ^ 4) :
    ∀ x ∈ ds, fetch cd (run true init h).docs (buildIndex cd (run true init h).idx) x.id = some x.body ∧
      ∀ t ∈ x.tokens, x.id ∈ search (buildIndex cd (run true init h).idx) t := by
  have hinv := run_fixed h init [] inv_init hwf
  simp only [List.nil_append] at hinv
  exact inv_docs_served cd hcd _ _ [] [] hinv hnd d m (ackedOf_sub_completeOf h _ hb) ds hdocs hmeta hsz

/-- **C01 (several index workers).**  With `k` index workers the tasks are numbered in `DocBlocks` in the order the
workers reach `DocBlocks.Append`, i.e. the index is built from some permutation of the blocks handed over; each
worker's positions use the number its own block got, and with distinct IDs `SetMultiple` never rejects anything, so
the quiescent index is `buildIndex` of that permutation (this last step - workers only interfere through the block
numbering - is the assumption the `index.k` channel validates on the real code with 4 workers).  The theorem: for
**every** permutation of the blocks, fetch by ID and search by token serve every document of every acknowledged bulk
exactly as with one worker. -/
theorem c01_docs_served_any_worker_order (cd : IdxCodec) (hcd : cd.ExtFree) (h : List Ev) (hwf : ∀ e ∈ h, e.WF)
    (hnd : (bulkIDs cd (completeOf h)).Nodup) (es : List Entry) (hperm : es.Perm (run true init h).idx)
    (d m : Blk) (hb : (d, m) ∈ ackedOf h) (ds : List LDoc)
    (hdocs : cd.docsRaw (enc d) = some (rawDocs ds)) (hmeta : cd.metaDocs (enc m) = metasOf ds)
    (hsz : ∀ x ∈ ds, 0 < x.body.length ∧ x.body.length < 256 ^ 4) :
    ∀ x ∈ ds, fetch cd (run true init h).docs (buildIndex cd es) x.id = some x.body ∧
      ∀ t ∈ x.tokens, x.id ∈ search (buildIndex cd es) t := by
  have hinv := run_fixed h init [] inv_init hwf
  simp only [List.nil_append] at hinv
  exact inv_docs_served_perm cd hcd _ _ [] [] hinv hnd es hperm d m (ackedOf_sub_completeOf h _ hb) ds hdocs hmeta hsz

/-- **C01 (a restart is invisible).**  Killing the store between two bulks and starting it again, anywhere in a
history, gives exactly the store that never went down: same files, same writer offsets, and the indexer is handed the
very same blocks with the same docs offsets in the same order - so whatever the index worker derives from them
(IDs, positions, tokens) is what it derived while the bulks were being ingested. -/
theorem c01_restart_transparent (h1 h2 : List Ev) (hwf : ∀ e ∈ h1, e.WF) :
    run true init (h1 ++ .restart :: h2) = run true init (h1 ++ h2) := by
  have hinv := run_fixed h1 init [] inv_init hwf
  have hr : restart true (run true init h1).docs (run true init h1).mfile = run true init h1 :=
    InvD_unique _ _ _ (restart_inv _ [] [] _ _ hinv.wf (.inl rfl) hinv.docs hinv.mfile).2 hinv
  simp only [run, List.foldl_append, List.foldl_cons, step] at hr ⊢
  rw [hr]

/-- **C01 (the recovery itself may crash).**  After any history and a crash at any byte of a bulk, a start-up that
is killed after cutting the meta file but before cutting the docs file, or after cutting both, and is then run
again, ends in exactly the store an uninterrupted start-up produces (a kill before the first cut changes nothing). -/
theorem c01_recovery_crash_safe (h : List Ev) (hwf : ∀ e ∈ h, e.WF) (d m : Blk) (hd : d.WF) (hm : m.WF) (pt : CrashPt) :
    let disk := crashDisk (run true init h) (enc d) (enc m) pt
    restart true disk.1 (disk.2.take (replay disk.2).metaPos) = restart true disk.1 disk.2 ∧
    restart true (disk.1.take (replay disk.2).docsPos) (disk.2.take (replay disk.2).metaPos) =
      restart true disk.1 disk.2 := by
  intro disk
  have hinv := run_fixed h init [] inv_init hwf
  obtain ⟨junk, torn, ht, hw, h1, h2, _⟩ := crashDisk_shape _ _ d m pt hinv hd hm
  exact restart_interrupted _ junk torn _ _ hw ht h1 h2

/-- The start-up without truncation (the code before fixes/C01-truncate-tail.patch): the same guarantees, but only
for histories in which no ingestion follows a crash that left an orphan docs block or a torn tail.
Full statement (false for this start-up, see the two counterexamples below):
`∀ h, (∀ e ∈ h, e.WF) → (run false init h).panicked = false ∧ ∀ b ∈ ackedOf h, present (run false init h) b.1 b.2`. -/
theorem c01_acked_survive_unfixed_partial (h : List Ev) (hwf : ∀ e ∈ h, e.WF) (hs : Safe h = true) :
    (run false init h).panicked = false ∧ ∀ b ∈ ackedOf h, present (run false init h) b.1 b.2 = true := by
  obtain ⟨junk, torn, hinv⟩ := run_current_safe h init [] inv_init hwf hs
  refine ⟨hinv.up, fun b hb => ?_⟩
  exact inv_present _ _ _ _ hinv b.1 b.2 (by simpa using ackedOf_sub_completeOf h b hb)

/-! ## The two defects of the start-up without truncation (DESIGN section 7, rows 1 and 2) -/

def wd1 : Blk := ⟨0, 3, 0, 0, [1, 2, 3]⟩
def wm1 : Blk := ⟨0, 10, 36, 0, [9, 9, 9, 9, 9, 9, 9, 9, 9, 9]⟩
def wd2 : Blk := ⟨0, 2, 0, 0, [4, 5]⟩
def wm2 : Blk := ⟨0, 1, 35, 0, [7]⟩

/-- crash between the docs write and the meta write (orphan docs block), restart, one more bulk, restart -/
def orphanHistory : List Ev := [.tornBulk wd1 wm1 (.metaTorn 0), .bulk wd2 wm2, .restart]
/-- crash 40 bytes into the meta write, restart, one more bulk, restart -/
def tornMetaHistory : List Ev := [.tornBulk wd1 wm1 (.metaTorn 40), .bulk wd2 wm2, .restart]

/-- the acknowledged second bulk is indexed with the offset of the orphan block: its fetch reads foreign bytes -/
theorem c01_counterexample_orphan_docs :
    (∀ e ∈ orphanHistory, e.WF) ∧ (wd2, wm2) ∈ ackedOf orphanHistory ∧
      present (run false init orphanHistory) wd2 wm2 = false ∧
      (run false init orphanHistory).idx.map (·.pos) = [0] ∧
      readBlockAt (run false init orphanHistory).docs 0 = some (enc wd1) := by
  refine ⟨?_, by decide, by decide, by decide, by decide⟩
  intro e he
  simp only [orphanHistory, List.mem_cons, List.not_mem_nil, or_false] at he
  rcases he with rfl | rfl | rfl <;>
    first
    | exact trivial
    | exact ⟨⟨by decide, by decide, by decide⟩, ⟨by decide, by decide, by decide⟩⟩

/-- the torn meta tail is parsed together with the head of the next block as one garbage block, and the
acknowledged second bulk is gone from the index -/
theorem c01_counterexample_torn_meta :
    (∀ e ∈ tornMetaHistory, e.WF) ∧ (wd2, wm2) ∈ ackedOf tornMetaHistory ∧
      present (run false init tornMetaHistory) wd2 wm2 = false ∧
      (run false init tornMetaHistory).idx.map (fun e => e.blk.length) = [43] := by
  refine ⟨?_, by decide, by decide, by decide⟩
  intro e he
  simp only [tornMetaHistory, List.mem_cons, List.not_mem_nil, or_false] at he
  rcases he with rfl | rfl | rfl <;>
    first
    | exact trivial
    | exact ⟨⟨by decide, by decide, by decide⟩, ⟨by decide, by decide, by decide⟩⟩

/-- **why bulks must be written one at a time.**  If the writes of two bulks interleave as
docs(a) docs(b) meta(b) meta(a) (possible as soon as `ActiveWriter.Write` is not serialised: `c01_x_write_order` pins
the `a.mu.Lock` at its start), both bulks are served until the next restart - and after it neither is: the replay
assigns docs offsets cumulatively in meta order, so each meta block points at the other bulk's docs block. -/
theorem c01_counterexample_interleaved_writes :
    let st := appendInterleaved init (enc wd1) (enc wm1) (enc wd2) (enc wm2)
    present st wd1 wm1 = true ∧ present st wd2 wm2 = true ∧
    (restart true st.docs st.mfile).panicked = false ∧
    present (restart true st.docs st.mfile) wd1 wm1 = false ∧ present (restart true st.docs st.mfile) wd2 wm2 = false ∧
    (restart true st.docs st.mfile).idx.map (·.pos) = [0, 35] := by
  decide

/-- the serialised order of the same two bulks is an instance of `c01_acked_survive`: whole bulk after whole bulk,
the cumulative offsets of the replay are the offsets the writer used -/
theorem c01_serialised_pair (a b : Blk × Blk) (ha : a.1.WF ∧ a.2.WF) (hb : b.1.WF ∧ b.2.WF) :
    present (run true init [.bulk a.1 a.2, .bulk b.1 b.2, .restart]) a.1 a.2 = true ∧
    present (run true init [.bulk a.1 a.2, .bulk b.1 b.2, .restart]) b.1 b.2 = true := by
  have h := c01_acked_survive [.bulk a.1 a.2, .bulk b.1 b.2, .restart] (by
    intro e he
    simp only [List.mem_cons, List.not_mem_nil, or_false] at he
    rcases he with rfl | rfl | rfl
    · exact ha
    · exact hb
    · exact trivial)
  exact ⟨h a (by simp [ackedOf]), h b (by simp [ackedOf])⟩

/-- **C01 (the mutex serialises, for every interleaving).**  Two concurrent `ActiveWriter.Write` calls, modelled step
by step (take `a.mu`; docs write, remembering the offset; stamp + meta write + index + release), under **every**
schedule and at **every** moment of it: the store is in one of the states of `Serial` - untouched, one bulk's docs
block written and nothing else (a crash there is `crashDisk .. (.metaTorn 0)`), one bulk appended, ..., and once
both have finished it is `append (append st A) B` or `append (append st B) A`.  So the histories of `Ev` (whole
bulks, crashes inside one bulk) are all there is, and the history theorems cover concurrent clients. -/
theorem c01_mutex_serialises (st0 : St) (da ma db mb : Bytes) (sched : List Bool) :
    Serial st0 da ma db mb (crun true da ma db mb (cinit st0) sched) ∧
    ((crun true da ma db mb (cinit st0) sched).pa = 3 → (crun true da ma db mb (cinit st0) sched).pb = 3 →
      (crun true da ma db mb (cinit st0) sched).st = append (append st0 da ma) db mb ∨
      (crun true da ma db mb (cinit st0) sched).st = append (append st0 db mb) da ma) := by
  have h := serial_run st0 da ma db mb sched (cinit st0) (.inl ⟨rfl, rfl, rfl, rfl⟩)
  refine ⟨h, fun ha hb => ?_⟩
  simp only [Serial] at h
  rcases h with h | h | h | h | h | h | h | h | h | h | h | h <;>
    first
    | exact h.2.2.2
    | (exfalso; omega)

/-- without the mutex the schedule A A B B B A is the interleaving of `c01_counterexample_interleaved_writes` -/
theorem c01_no_mutex_interleaves (st0 : St) (da ma db mb : Bytes) :
    (crun false da ma db mb (cinit st0) [false, false, true, true, true, false]).st =
      appendInterleaved st0 da ma db mb := by
  simp [crun, cstep, cinit, docsStep, metaStep, appendInterleaved, Nat.add_assoc]

/-- **C01 (the store does not depend on the client's ext fields).**  Whatever Ext1 / Ext2 an incoming meta block
carries, the store ends in the same state: `ActiveWriter.Write` overwrites both.  (All history theorems quantify over
arbitrary incoming values; this says they do not even influence the state.) -/
theorem c01_incoming_ext_irrelevant (fix : Bool) (st : St) (d m : Blk) (e1 e2 : Nat) (pt : CrashPt) :
    step fix st (.bulk d { m with ext1 := e1, ext2 := e2 }) = step fix st (.bulk d m) ∧
    step fix st (.tornBulk d { m with ext1 := e1, ext2 := e2 } pt) = step fix st (.tornBulk d m pt) := by
  have hs : ∀ a b, stampMeta (enc { m with ext1 := e1, ext2 := e2 }) a b = stampMeta (enc m) a b := by
    intro a b; simp [stampMeta_enc]
  constructor
  · simp only [step, append, hs]
  · cases pt <;> simp only [step, crashDisk, hs]

/-- **C01 (replay reproduces the offsets the writer recorded).**  After any history, every block the index holds is
the encoding of a header whose **Ext2** is exactly the docs offset the index uses for it (the offset the writer was
given when it wrote the docs block - live reads use it, and the replay, which re-derives offsets as the running sum
of **Ext1**, arrives at the same value), whose Ext1 is the length of the docs block, and that offset holds the block. -/
theorem c01_replay_offsets_are_recorded (h : List Ev) (hwf : ∀ e ∈ h, e.WF) :
    ∀ e ∈ (run true init h).idx, ∃ b d : Blk, e.blk = enc b ∧ b.ext2 = e.pos ∧ b.ext1 = (enc d).length ∧
      readBlockAt (run true init h).docs e.pos = some (enc d) := by
  have hinv := run_fixed h init [] inv_init hwf
  simp only [List.nil_append] at hinv
  intro e he
  rw [hinv.idx, entriesOf, List.mem_map] at he
  obtain ⟨t, ht, rfl⟩ := he
  obtain ⟨h1, h2⟩ := stamped_fields _ 0 t ht
  refine ⟨t.2.1, t.1, rfl, h1, h2, ?_⟩
  have := readBlockAt_stamped _ hinv.wf [] [] 0 rfl t ht
  simpa [hinv.docs] using this

/-- a writer that keeps the client's Ext1 (no `SetExt1`): a client that leaves Ext1 = 0 is served until the next
restart; the replay then puts the second bulk at offset 0 and cuts the docs file down to the sum of the Ext1 values -/
def wm1z : Blk := { wm1 with ext1 := 0 }
theorem c01_counterexample_client_ext1 :
    let st := appendKeepExt1 (appendKeepExt1 init (enc wd1) (enc wm1z)) (enc wd2) (enc wm2)
    present st wd1 wm1z = true ∧ present st wd2 wm2 = true ∧
    present (restart true st.docs st.mfile) wd1 wm1z = false ∧ present (restart true st.docs st.mfile) wd2 wm2 = false ∧
    (restart true st.docs st.mfile).docs.length = 35 ∧ st.docs.length = 71 := by
  decide

/-- both histories are harmless for the repaired start-up (instances of `c01_acked_survive`, re-checked by evaluation) -/
theorem c01_witnesses_repaired :
    present (run true init orphanHistory) wd2 wm2 = true ∧ present (run true init tornMetaHistory) wd2 wm2 = true := by
  decide

/-! ## The store's `Bulk` handler (Model/BulkHandler.lean): `GrpcV1.Bulk` -> `doBulk` -> `FracManager.Append` (retry loop,
context exit) -> `proxyFrac.Append` -> `Active.Append` -/

/-- **C01 (the acknowledgement of the store).**  For every environment (state of the context at each look, outcome
of each try, bulks in flight) the handler answers OK **iff** the request is well-formed, within the in-flight limit,
and some try `k` was acknowledged by `Active.Append` - every earlier try having been refused (nothing written) and
the context not done at any look up to `k`.  In particular it never answers OK when it left the loop through
`ctx.Done()`. -/
theorem c01_bulk_handler_ack (fuel count : Nat) (e : BulkH.Env) :
    BulkH.answersOK (BulkH.doBulk fuel count e) = true ↔
      count ≠ 0 ∧ e.inflight ≤ e.limit ∧ ∃ k, k < fuel ∧ e.tries k = .acked ∧
        (∀ j, j < k → e.tries j = .notWritable) ∧ ∀ j, j ≤ k → e.ctxDone j = false := by
  unfold BulkH.doBulk
  by_cases hc : count = 0
  · simp [hc, BulkH.answersOK]
  · by_cases hl : e.limit < e.inflight
    · simp [hc, hl, BulkH.answersOK]; intro h; omega
    · simp only [hc, hl, if_false, ne_eq, not_false_eq_true, true_and]
      constructor
      · intro h
        cases ho : BulkH.fmAppend fuel e 0 with
        | ok k =>
          obtain ⟨_, h2, h3, h4, h5⟩ := (BulkH.fmAppend_ok fuel e 0 k).mp ho
          exact ⟨by omega, k, by omega, h3, fun j hj => h4 j (Nat.zero_le _) hj, fun j hj => h5 j (Nat.zero_le _) hj⟩
        | ctxErr => simp [ho, BulkH.answersOK] at h
        | protoErr => simp [ho, BulkH.answersOK] at h
        | limitErr => simp [ho, BulkH.answersOK] at h
        | spinning => simp [ho, BulkH.answersOK] at h
      · intro ⟨_, k, h2, h3, h4, h5⟩
        have := (BulkH.fmAppend_ok fuel e 0 k).mpr ⟨Nat.zero_le _, by omega, h3, fun j _ hj => h4 j hj, fun j _ hj => h5 j hj⟩
        simp [this, BulkH.answersOK]

/-- a context that is already cancelled or expired when the handler is entered: never OK, whatever the tries would do -/
theorem c01_bulk_handler_cancelled (fuel count : Nat) (e : BulkH.Env) (h : e.ctxDone 0 = true) :
    BulkH.answersOK (BulkH.doBulk fuel count e) = false := by
  cases hok : BulkH.answersOK (BulkH.doBulk fuel count e) with
  | false => rfl
  | true =>
    obtain ⟨_, _, k, _, _, _, h5⟩ := (c01_bulk_handler_ack fuel count e).mp hok
    have := h5 0 (Nat.zero_le _)
    rw [h] at this; cases this

/-- **C01 (junction J' of the system composition: a successful `Bulk` call is an acknowledged `Active.Append` of the
payload's two blocks).**  Let a store go through any sequence of handler calls (each under its own environment),
crashes inside a bulk and restarts, and let `histOf items` be its write-path history.  Then (i) every call that was
answered OK contributed `bulk d m` with exactly its request's blocks, so `(d, m) ∈ ackedOf (histOf items)` - the
hypothesis `blk ∈ WPath.ackedOf (Hst s)` of `sys_ingest_to_read_crash`; (ii) conversely every acknowledged bulk of the
history is the payload of a call that was answered OK; (iii) the history is well-formed when the payloads are, so all
C01 history theorems apply to it. -/
theorem c01_bulk_handler_junction (items : List BulkH.Item) :
    (∀ count d m e fuel, BulkH.Item.call count d m e fuel ∈ items →
        BulkH.answersOK (BulkH.doBulk fuel count e) = true → (d, m) ∈ ackedOf (BulkH.histOf items)) ∧
    (∀ b ∈ ackedOf (BulkH.histOf items), ∃ count e fuel, BulkH.Item.call count b.1 b.2 e fuel ∈ items ∧
        BulkH.answersOK (BulkH.doBulk fuel count e) = true) ∧
    ((∀ it ∈ items, match it with
        | .call _ d m _ _ => d.WF ∧ m.WF
        | .crashed d m _ => d.WF ∧ m.WF
        | .restart => True) → ∀ ev ∈ BulkH.histOf items, ev.WF) := by
  refine ⟨?_, ?_, ?_⟩
  · intro count d m e fuel hmem hok
    obtain ⟨pre, post, rfl⟩ := List.append_of_mem hmem
    simp only [BulkH.histOf, List.flatMap_append, List.flatMap_cons, BulkH.effect, hok, if_true,
      BulkH.ackedOf_append]
    simp [ackedOf]
  · induction items with
    | nil => intro b hb; simp [BulkH.histOf, ackedOf] at hb
    | cons it items ih =>
      intro b hb
      simp only [BulkH.histOf, List.flatMap_cons, BulkH.ackedOf_append, List.mem_append] at hb
      rcases hb with hb | hb
      · cases it with
        | call count d m e fuel =>
          simp only [BulkH.effect] at hb
          split at hb
          · rename_i hok
            simp only [ackedOf, List.mem_singleton] at hb
            subst hb
            exact ⟨count, e, fuel, by simp, hok⟩
          · simp [ackedOf] at hb
        | crashed d m pt => simp [BulkH.effect, ackedOf] at hb
        | restart => simp [BulkH.effect, ackedOf] at hb
      · obtain ⟨count, e, fuel, hm, hok⟩ := ih b hb
        exact ⟨count, e, fuel, by simp [hm], hok⟩
  · intro hwf ev hev
    simp only [BulkH.histOf, List.mem_flatMap] at hev
    obtain ⟨it, hit, hev⟩ := hev
    have := hwf it hit
    cases it with
    | call count d m e fuel =>
      simp only [BulkH.effect] at hev
      split at hev
      · simp only [List.mem_singleton] at hev; subst hev; exact this
      · simp at hev
    | crashed d m pt => simp only [BulkH.effect, List.mem_singleton] at hev; subst hev; exact this
    | restart => simp only [BulkH.effect, List.mem_singleton] at hev; subst hev; trivial

/-- non-vacuity: two refused tries while the fraction is being sealed, then an acknowledged one; a context that
expires at the third look; an already cancelled context -/
example : BulkH.doBulk 10 3 ⟨fun _ => false, fun i => if i < 2 then .notWritable else .acked, 1, 32⟩ = .ok 2 := by decide
example : BulkH.doBulk 10 3 ⟨fun i => decide (2 ≤ i), fun _ => .notWritable, 1, 32⟩ = .ctxErr := by decide
example : BulkH.doBulk 10 3 ⟨fun _ => true, fun _ => .acked, 1, 32⟩ = .ctxErr := by decide
example : BulkH.doBulk 10 0 ⟨fun _ => false, fun _ => .acked, 1, 32⟩ = .protoErr ∧
    BulkH.doBulk 10 1 ⟨fun _ => false, fun _ => .acked, 2, 1⟩ = .limitErr := by decide

/-! ## Hand-over of a token's queued LIDs to the merge (Model/LidQueue.lean) -/

/-- **C01 (the merge reads what it was given).**  `getQueuedLIDs` hands the queue over by value (`tl.queue = nil`):
whatever is queued afterwards, in any number of `PutLIDsInQueue` calls, the slice the merge is sorting - outside the
queue lock - keeps its contents.  (Replay after a restart runs all index workers while the merge workers are woken by
queues above 10000 LIDs: the `crash-restart` oracle's hot-token histories exercise exactly this overlap.) -/
theorem c01_queue_handover_by_value (q : List Nat) (cap : Nat) (batches : List (List Nat)) :
    LidQ.view (LidQ.puts (LidQ.take q cap true) batches) = q := by
  rw [LidQ.puts_own batches _ [] rfl]
  simp [LidQ.view, LidQ.take]

/-- resetting the queue to `queue[:0]` instead keeps the backing array: the next `PutLIDsInQueue` writes into the
cells the merge is reading -/
theorem c01_counterexample_queue_reset :
    LidQ.view (LidQ.puts (LidQ.take [5, 6, 7] 8 false) [[9]]) = [9, 6, 7] := by decide

/-! ## `frac.FileWriter`: group commit (Model/FileWriter.lean - a labelled transition system with one label per
atomic step of writers and of `syncLoop`; `SV.FWr.exec` accepts exactly its paths; the `fw.trace` channel replays
logged traces of the real FileWriter through it) -/

/-- **C01 (a returned Write was fsynced).**  On every path of the system, i.e. for all numbers of writers and all
interleavings of their steps with the sync loop: when `Write` of the request that reserved `off` returns the result
`ok`, the trace before that point contains a successful `WriteAt` of `off`, after it the begin of an fsync, and after
that the end of that fsync with the very result `ok` that is returned.  For `ok = true`: the data was covered by an
fsync that started after its `WriteAt` completed; for `ok = false`: a writer is told about the failure of the fsync
that covered it. -/
theorem c01_filewriter_durable (start : Nat) (pre post : List FWr.Lbl) (off : Nat) (ok : Bool)
    (h : (FWr.exec (FWr.init start) (pre ++ .ret off ok :: post)).isSome) :
    ∃ tw sb se, tw < sb ∧ sb < se ∧ se < pre.length ∧ pre[tw]? = some (.written off true) ∧
      pre[sb]? = some .syncBegin ∧ pre[se]? = some (.syncEnd ok) := by
  rw [FWr.exec_append] at h
  cases h1 : FWr.exec (FWr.init start) pre with
  | none => simp [h1] at h
  | some s1 =>
    simp only [h1, Option.bind_some, FWr.exec] at h
    cases h2 : FWr.step s1 (.ret off ok) with
    | none => simp [h2] at h
    | some s2 =>
      have hinv : FWr.Inv pre s1 := by simpa using FWr.exec_inv pre [] _ _ (FWr.inv_init start) h1
      simp only [FWr.step] at h2
      split at h2
      · rename_i hcan
        simp only [FWr.can, List.any_eq_true, Bool.and_eq_true, decide_eq_true_eq] at hcan
        obtain ⟨w, hw, hoff, hsome⟩ := hcan
        cases hpc : w.pc <;> simp [FWr.fRet, hpc] at hsome
        rename_i ok' sb se
        subst hsome
        obtain ⟨tw, a, b, c, d, e⟩ := hinv.core.D w hw ok' sb se (.inl hpc)
        exact ⟨tw, sb, se, a, b, FWr.lt_of_get e, by rw [← hoff]; exact c, d, e⟩
      · cases h2

/-- **C01 (offsets).**  On every path the ranges handed out by `fs.offset.Add`, in the order they were reserved, are
non-empty, disjoint and contiguous from the initial offset to the current one. -/
theorem c01_filewriter_offsets (start : Nat) (tr : List FWr.Lbl) (st : FWr.St) (h : FWr.exec (FWr.init start) tr = some st) :
    FWr.Tiled start st.ws st.offset :=
  FWr.exec_tiled tr start (FWr.init start) st rfl h

/-- **C01 (an fsync result reaches every writer of its batch).**  When the fsync of a batch ends with result `ok`
(in particular with an error), every request taken into that batch is blocked on its result channel and its result
becomes `ok`; together with `c01_filewriter_durable` (a returned result is the result of the covering fsync) no
writer of a failed batch can return success. -/
theorem c01_filewriter_result_reaches_batch (st st' : FWr.St) (ok : Bool) (batch : List (Nat × Nat)) (sb : Nat)
    (hsync : st.syncer = FWr.SPc.syncing batch sb) (h : FWr.step st (.syncEnd ok) = some st') :
    (∀ w ∈ st.ws, w.off ∈ batch.map (·.1) → w.pc = FWr.WPc.waiting) ∧
    (∀ w' ∈ st'.ws, w'.off ∈ batch.map (·.1) → w'.pc = FWr.WPc.done ok sb st.now) ∧ st'.syncer = FWr.SPc.idle := by
  simp only [FWr.step, hsync] at h
  split at h
  · rename_i hall
    cases h
    refine ⟨?_, ?_, rfl⟩
    · intro w hw hm
      have := List.all_eq_true.mp hall w hw
      simpa [hm] using this
    · intro w' hw' hm
      obtain ⟨w, hw, rfl⟩ := List.mem_map.mp hw'
      by_cases hb : w.off ∈ batch.map (·.1)
      · simp [hb]
      · rw [if_neg hb] at hm ⊢; exact absurd hm hb
  · cases h

/-- non-vacuity: two writers whose blocks are committed by one fsync (the second enqueues before the loop takes the
queue), and a third one that is told about a failed fsync -/
def fwTrace : List SV.FWr.Lbl :=
  [.reserve 10 5, .reserve 15 3, .written 15 true, .written 10 true, .enqueue 15 1, .notify 15, .enqueue 10 2, .wake,
   .take 2, .syncBegin, .reserve 18 4, .written 18 true, .enqueue 18 1, .syncEnd true, .ret 10 true, .notify 18, .wake,
   .take 1, .ret 15 true, .syncBegin, .syncEnd false, .ret 18 false]

example : (SV.FWr.exec (SV.FWr.init 10) fwTrace).isSome = true := by decide
/-- returning before the fsync ended, or enqueueing before the write completed, is not a path -/
example : SV.FWr.firstBad (SV.FWr.init 0) [.reserve 0 5, .written 0 true, .enqueue 0 1, .notify 0, .wake, .take 1, .syncBegin, .ret 0 true] 0 = some 7 := by
  decide
example : SV.FWr.firstBad (SV.FWr.init 0) [.reserve 0 5, .enqueue 0 1] 0 = some 1 := by decide

/-! ## Parsing facts used by the history theorems, at full generality -/

/-- a meta file made of complete blocks followed by a torn tail replays to exactly those blocks without a panic,
the docs offsets being the running sum of ext1 -/
theorem c01_replay_exact (bs : List (Blk × Blk)) (hwf : AllWF bs) (t : Bytes) (ht : TornOK t) :
    replay (metaOf bs 0 ++ t) = ⟨entriesOf bs 0, (docsOf bs).length, (metaOf bs 0).length, false⟩ :=
  replay_stamped bs hwf t ht

/-- header round trip: what `ActiveWriter.Write` stamps is what `Replay` reads -/
theorem c01_header_roundtrip (b : Blk) (h : b.WF) (rest : Bytes) :
    getLen (enc b ++ rest) = b.payload.length ∧ getExt1 (enc b ++ rest) = b.ext1 ∧
      getExt2 (enc b ++ rest) = b.ext2 :=
  ⟨getLen_enc b h.size rest, getExt1_enc b h.ext1 rest, getExt2_enc b h.ext2 rest⟩

/-! ## Obligations on facts re-extracted from /repo on every run -/

open SV.Extracted.C01 in
/-- the header layout of the model is the one of `disk/doc_block.go`; all four integer fields are 8-byte
little-endian at their offsets; `FullLen = Len + header` -/
theorem c01_x_header_layout :
    SV.Extracted.C01.headerLen = SV.WPath.headerLen ∧ SV.Extracted.C01.offLen = SV.WPath.offLen ∧
    SV.Extracted.C01.offRaw = SV.WPath.offRaw ∧ SV.Extracted.C01.offExt1 = SV.WPath.offExt1 ∧
    SV.Extracted.C01.offExt2 = SV.WPath.offExt2 ∧ offCodec = 0 ∧
    accessors = ["Len Uint64 b[offsetDocBlockLength:]", "SetLen PutUint64 b[offsetDocBlockLength:]",
      "RawLen Uint64 b[offsetDocBlockRawLength:]", "SetRawLen PutUint64 b[offsetDocBlockRawLength:]",
      "GetExt1 Uint64 b[offsetDocBlockExt1:]", "SetExt1 PutUint64 b[offsetDocBlockExt1:]",
      "GetExt2 Uint64 b[offsetDocBlockExt2:]", "SetExt2 PutUint64 b[offsetDocBlockExt2:]"] ∧
    fullLen = "return b.Len() + DocBlockHeaderLen" := by decide

open SV.Extracted.C01 in
/-- `ActiveWriter.Write` holds `a.mu` from its first statement to its return (the `mutex = true` system of
`c01_mutex_serialises`), writes (and fsyncs) the docs block first, gives up before touching the meta
file when that failed, stamps ext1 := len(docs) and ext2 := docs offset, then writes the meta block -
the order `append` / `crashDisk` model -/
theorem c01_x_write_order :
    activeWriterWriteOps = ["a.mu.Lock", "defer a.mu.Unlock", "a.docs.Write docs", "if err != nil return err",
      "disk.DocBlock(meta).SetExt1 uint64(len(docs))", "disk.DocBlock(meta).SetExt2 uint64(offset)",
      "a.meta.Write meta"] ∧
    appendCalls = ["f.writer.Write", "f.indexer.Index"] := by decide

open SV.Extracted.C01 in
/-- `getQueuedLIDs` leaves the token with a nil queue after taking it (the by-value hand-over of
`c01_queue_handover_by_value`); `PutLIDsInQueue` grows the queue with `append` -/
theorem c01_x_queue_handover :
    getQueuedLIDsStmts = ["return nil", "lids := tl.queue", "tl.queue = nil", "return lids"] ∧
    putLIDsStmts = ["append(tl.queue, lids...)"] := by decide

open SV.Extracted.C01 in
/-- the handler chain is the one `SV.BulkH` models: `Bulk` has a single return and it passes `doBulk`'s error on
unchanged (nil error only after a nil `doBulk`); `doBulk` returns nil only after `FracManager.Append` returned nil and
hands it exactly `req.Docs, req.Metas`; `FracManager.Append` leaves its loop either through `ctx.Done()` with
`ctx.Err()` or after a try that returned nil; a try is refused when the fraction is not writable, otherwise it is
`active.Append(docs, meta, ..)` of the same two blocks -/
theorem c01_x_bulk_handler :
    grpcBulkReturns = ["return &g.blank, err"] ∧ grpcBulkCalls = ["g.doBulk(ctx, req)"] ∧
    doBulkReturns = ["req.Count == 0 -> return fmt.Errorf(..)",
      "inflightRequests > int64(g.config.Bulk.RequestsLimit) -> return fmt.Errorf(..)", "err != nil -> return err",
      "return nil"] ∧
    doBulkCalls = ["g.fracManager.Append(ctx, req.Docs, req.Metas)"] ∧
    fmAppendReturns = ["case <-ctx.Done() -> return ctx.Err()",
      "default / err = fm.Writer().Append(docs, metas); err == nil -> return nil"] ∧
    proxyAppendCalls = ["active.Append(docs, meta, &f.indexWg)"] ∧
    proxyAppendReturns = ["!f.isActiveState() -> return errors.New(\"fraction is not writable\")",
      "err := active.Append(docs, meta, &f.indexWg); err != nil -> return err", "return nil"] := by decide

open SV.Extracted.C01 in
/-- `FileWriter.Write` reserves `[offset, offset+len)`, writes there, and returns only after an fsync that started
after the write (or immediately when fsync is switched off) -/
theorem c01_x_filewriter_order :
    fileWriterWriteOps = ["fs.offset.Add(dataLen)", "fs.ws.WriteAt(data, offset)", "if err != nil return 0, err",
      "if fs.skipSync return offset, nil", "<-syncRes", "return offset, err"] ∧
    syncLoopCalls = ["fs.ws.Sync"] := by decide

open SV.Extracted.C01 in
/-- `NewActive` starts the writer at the file sizes; `Replay` reads block after block, takes the docs block length
from ext1, overrides ext2 with the running sum, and advances both positions - the loop `replayGo` models -/
theorem c01_x_replay_loop :
    newActiveWriterArgs = ["docsFile", "metaFile", "docsStats.Size()", "metaStats.Size()", "conf.SkipFsync"] ∧
    replayOps.take 8 = ["f.metaReader.ReadDocBlock", "next += step", "disk.DocBlock(meta).GetExt1()",
      "disk.DocBlock(meta).SetExt2(docsPos)", "docsPos += docBlockLen", "metaPos += metaSize", "f.indexer.Index",
      "wg.Wait"] := by decide

open SV.Extracted.C01 in
/-- the start-up is the repaired one (`restart true`): after the loop `Replay` cuts the meta file and the docs file
back to the replayed positions and restarts the writer there.  While this fails, the code is the start-up of
`c01_acked_survive_unfixed_partial` and the two counterexamples apply. -/
theorem c01_x_replay_truncates :
    replayTruncates = true ∧ replayOps.drop 8 = ["f.truncateTail(docsPos, metaPos)"] ∧
    truncateTailCalls = ["t.file.Truncate", "t.file.Sync", "NewActiveWriter"] := by decide

/-! ## Non-vacuity -/

def b3 : Blk := ⟨2, 5, 0, 0, [1, 2]⟩
def m3 : Blk := ⟨2, 9, 0, 0, [3]⟩
/-- a history with acknowledged bulks, a crash in the docs write, a crash in the meta write, a crash after the
complete meta write, and a clean restart -/
def sampleHistory : List Ev :=
  [.bulk wd1 wm1, .tornBulk wd2 wm2 (.docsTorn 20), .bulk b3 m3, .tornBulk wd2 wm2 (.metaTorn 33), .restart,
   .bulk wd2 wm2, .tornBulk wd1 wm1 (.metaTorn 100), .restart]

example : ackedOf sampleHistory = [(wd1, wm1), (b3, m3), (wd2, wm2)] := by decide
example : completeOf sampleHistory = [(wd1, wm1), (b3, m3), (wd2, wm2), (wd1, wm1)] := by decide
set_option maxRecDepth 8192 in
example : (run true init sampleHistory).idx.map (·.pos) = [0, 36, 71, 106] := by decide
set_option maxRecDepth 8192 in
example : present (run true init sampleHistory) b3 m3 = true := by decide
/-- a `Safe` history with a dirty crash at its end: the hypothesis of the partial theorem is satisfiable non-trivially -/
example : Safe [.bulk wd1 wm1, .tornBulk wd2 wm2 (.docsTorn 0), .bulk b3 m3, .tornBulk wd2 wm2 (.metaTorn 5), .restart] = true := by
  decide
/-- non-vacuity of `c01_docs_served`: the uncompressed codec (`PackDocBlock`) with the real `MetaData` layout,
a two-document bulk and a one-document bulk around a crash -/
def ldocs1 : List LDoc := [⟨(1000, 7), [123, 34, 97, 34, 125], [[115, 58, 97], [95, 97, 108, 108, 95, 58]]⟩, ⟨(1001, 8), [91, 93], [[115, 58, 98]]⟩]
def ldocs2 : List LDoc := [⟨(1002, 9), [110, 117, 108, 108], [[115, 58, 97]]⟩]
def pd (ds : List LDoc) : Blk := ⟨0, (rawDocs ds).length, 0, 0, rawDocs ds⟩
def pm (ms : Bytes) : Blk := ⟨0, ms.length, 0, 0, ms⟩
def metaBytes1 : Bytes :=
  encMeta (1000, 7) 5 [([115], [97]), ([95, 97, 108, 108, 95], [])] ++ encMeta (1001, 8) 2 [([115], [98])]
def metaBytes2 : Bytes := encMeta (1002, 9) 4 [([115], [97])]
def docHistory : List Ev :=
  [.bulk (pd ldocs1) (pm metaBytes1), .tornBulk (pd ldocs2) (pm metaBytes2) (.metaTorn 50), .bulk (pd ldocs2) (pm metaBytes2), .restart]

example : plainCodec.ExtFree := plainCodec_extFree
set_option maxRecDepth 8192 in
example : plainCodec.metaDocs (enc (pm metaBytes1)) = metasOf ldocs1 ∧ plainCodec.docsRaw (enc (pd ldocs1)) = some (rawDocs ldocs1) := by
  decide
set_option maxRecDepth 16384 in
example : (bulkIDs plainCodec (completeOf docHistory)).Nodup := by decide
set_option maxRecDepth 16384 in
example : fetch plainCodec (run true init docHistory).docs (buildIndex plainCodec (run true init docHistory).idx) (1001, 8) = some [91, 93] ∧
    search (buildIndex plainCodec (run true init docHistory).idx) [115, 58, 97] = [(1000, 7), (1002, 9)] := by decide

example : Safe orphanHistory = false ∧ Safe tornMetaHistory = false := by decide

end SV.Props.C01
