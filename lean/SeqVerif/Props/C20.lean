import SeqVerif.Model.Fields
import SeqVerif.Extracted.C20
/-!
# C20 - the fields pipe returns a faithful projection of each stored document

Model: `SV.Fields` (Model/Fields.lean) - a decoded document as the ordered list of its top-level fields
`(tag, key, val)`, insane-json's `Suicide` as swap-remove, the two modes of `docFieldsFilter.filterFields`
statement by statement, `tryParseFieldsFilter` as "first fields pipe".  Values are opaque: the theorems say that
every surviving field is *the same node* of the stored document, so "original value" holds by construction as
long as insane-json re-encodes a node to what it decoded (that fidelity is the `fields.filter` correspondence
channel and the `fields.fetch` oracle, not a theorem - status *partial* in DESIGN section 8).
Only property theorems, extracted-fact obligations and non-vacuity examples live in this file.
-/
namespace SV.Props.C20
set_option linter.unusedSectionVars false
open SV.Fields

variable {K V : Type} [DecidableEq K]

/-- **allow-list** (`| fields a, b`), for every document (duplicate names included) and every list (present,
absent, repeated names, all, none): the result holds exactly the stored fields whose name is listed - each the
unchanged node of the stored document, none twice, nothing else. -/
theorem c20_allow (fields : List K) (doc : List (Fld K V)) (htags : (doc.map (·.tag)).Nodup) :
    (filterAllow fields doc).Perm (doc.filter fun f => fields.contains f.key) := by
  obtain ⟨hnd, hmem⟩ := filterAllow_spec fields doc htags
  rw [List.perm_ext_iff_of_nodup hnd ((nodup_of_tags htags).filter _)]
  intro x
  rw [hmem x, List.mem_filter]
  simp

/-- **block-list** (`| fields except a, b`), for every document with unique top-level names: the result holds
exactly the stored fields whose name is not listed, each the unchanged node, none twice. -/
theorem c20_except (fields : List K) (doc : List (Fld K V)) (htags : (doc.map (·.tag)).Nodup)
    (hkeys : (doc.map (·.key)).Nodup) :
    (filterExcept fields doc).Perm (doc.filter fun f => !fields.contains f.key) := by
  obtain ⟨hnd, _, hmem⟩ := filterExcept_spec fields doc (nodup_of_tags htags) hkeys
  rw [List.perm_ext_iff_of_nodup hnd ((nodup_of_tags htags).filter _)]
  intro x
  rw [hmem x, List.mem_filter]
  simp

/-- full statement of `c20_except` without the unique-names hypothesis is FALSE for the code as it is: `Dig`
finds one occurrence per listed name, so a duplicated name survives once (`{"a":1,"a":2,"b":3}` with
`fields except a` yields `{"b":3,"a":2}` - reproduced on the real code, see the `dup-key` tag of the channel). -/
theorem c20_except_duplicate_witness :
    filterExcept ["a"] [(⟨0, "a", 1⟩ : Fld String Nat), ⟨1, "a", 2⟩, ⟨2, "b", 3⟩] = [⟨2, "b", 3⟩, ⟨1, "a", 2⟩] := by
  decide

/-- **no pipe / empty list / not-found entry / not a JSON object: the stored bytes are returned untouched** -/
theorem c20_noop (allowList : Bool) (fields : List K) (emptyDoc isObject : Bool) (doc : List (Fld K V))
    (h : fields = [] ∨ emptyDoc = true ∨ isObject = false) :
    filterFields allowList fields emptyDoc isObject doc = .verbatim := by
  unfold filterFields
  by_cases h1 : fields.isEmpty = true ∨ emptyDoc = true
  · rw [if_pos h1]
  · rw [if_neg h1]
    have ho : isObject = false := by
      rcases h with h | h | h
      · exact absurd (Or.inl (by simp [h])) h1
      · exact absurd (Or.inr h) h1
      · exact h
    simp [ho]

/-- otherwise the answer is the re-encoded projection of `c20_allow` / `c20_except` -/
theorem c20_filtered (allowList : Bool) (fields : List K) (doc : List (Fld K V)) (hne : fields ≠ []) :
    filterFields allowList fields false true doc =
      .encoded (if allowList then filterAllow fields doc else filterExcept fields doc) := by
  unfold filterFields
  have : fields.isEmpty = false := by cases fields with | nil => exact absurd rfl hne | cons _ _ => rfl
  cases allowList <;> simp [this]

/-- **the set and order of returned documents is that of the fetch without the pipe**: the filter is a map over
the fetched entries (`doFetch` applies it to each document between `Next` and `Send`, extracted below) -/
theorem c20_same_docs {A B : Type} (filter : A → B) (docs : List A) :
    (docs.map filter).length = docs.length ∧ ∀ i (h : i < docs.length), (docs.map filter)[i]? = some (filter docs[i]) := by
  refine ⟨List.length_map _, fun i h => ?_⟩
  simp [h]

/-- the filter the proxy sends is the first `fields` pipe of the query; no such pipe - no filtering -/
theorem c20_first_pipe (pre : List (Option (List K × Bool))) (fs : List K) (except : Bool)
    (post : List (Option (List K × Bool))) (hpre : ∀ p, p ∈ pre → p = none) :
    firstFieldsPipe (pre ++ some (fs, except) :: post) = some (fs, !except) := by
  unfold firstFieldsPipe
  have : (pre ++ some (fs, except) :: post).find? Option.isSome = some (some (fs, except)) := by
    induction pre with
    | nil => rfl
    | cons p t ih =>
      have hp := hpre p (by simp)
      subst hp
      simpa using ih (fun q hq => hpre q (by simp [hq]))
  rw [this]

theorem c20_no_pipe (pipes : List (Option (List K × Bool))) (h : ∀ p, p ∈ pipes → p = none) :
    firstFieldsPipe pipes = none := by
  unfold firstFieldsPipe
  have : pipes.find? Option.isSome = none := by
    rw [List.find?_eq_none]
    intro p hp
    rw [h p hp]; simp
  rw [this]

/-- **keyword recognition does not depend on the case of an unquoted keyword token** (`lexer.IsKeyword` =
`strings.EqualFold`): two tokens with the same quoting and the same folded text are the same keyword or not; an
ASCII case change never changes the folded text (`foldText_asciiLower`), and neither do the two non-ASCII fold
partners `ſ` (of `s`) and the Kelvin sign (of `k`) -/
theorem c20_keyword_case_invariant (t t' : Tok) (kw : List Char) (hq : t.quoted = t'.quoted)
    (hl : foldText t.text = foldText t'.text) : isKeyword t kw = isKeyword t' kw := isKeyword_case t t' kw hq hl

theorem c20_ascii_case_same_fold (s : List Char) : foldText (asciiLower s) = foldText s := foldText_asciiLower s

/-- hence `| FIELDS EXCEPT a, b`, `| Fields Except a, b`, `| fieldſ except a, b` and `| fields except a, b` parse to
the same pipe ... -/
theorem c20_pipe_header_case_invariant (f f' e e' : Tok) (rest : List Tok)
    (hf : f.quoted = f'.quoted ∧ foldText f.text = foldText f'.text) (hfk : isKeyword f "fields".toList = true)
    (he : e.quoted = e'.quoted ∧ foldText e.text = foldText e'.text) (hek : isKeyword e "except".toList = true) :
    parsePipeFields (f :: e :: rest) = parsePipeFields (f' :: e' :: rest) :=
  parsePipeFields_case f f' e e' rest hf hfk he hek

/-- ... while a quoted `"except"` is an ordinary field name of an allow-list -/
theorem c20_quoted_except_is_a_field :
    parsePipeFields [⟨"fields".toList, false, true, true⟩, ⟨"except".toList, true, true, true⟩, ⟨[','], false, false, true⟩,
      ⟨"a".toList, false, true, true⟩] = some (false, ["except".toList, "a".toList], []) := by decide

/-- the query texts on which earlier versions of this model were wrong (found by the consistency layer), now as the
source has them: `| fields a-b` is ONE composite name, `| fields $` is rejected, `| fieldſ a` is a fields pipe; a
non-ASCII rune is a token rune exactly when `unicode.IsLetter` / `IsDigit` says so (the token's oracle bit):
`| fields €` is rejected ("unexpected symbol") while `| fields é` and `| fields ٣` are names -/
theorem c20_field_names_are_composite_tokens :
    parsePipeFields [⟨"fields".toList, false, true, true⟩, ⟨['a'], false, true, true⟩, ⟨['-'], false, false, false⟩,
      ⟨['b'], false, false, true⟩] = some (false, ["a-b".toList], []) ∧
    parsePipeFields [⟨"fields".toList, false, true, true⟩, ⟨['$'], false, true, false⟩] = none ∧
    parsePipeFields [⟨['f', 'i', 'e', 'l', 'd', Char.ofNat 0x17F], false, true, true⟩, ⟨['a'], false, true, true⟩]
      = some (false, [['a']], []) ∧
    parsePipeFields [⟨"fields".toList, false, true, true⟩, ⟨[Char.ofNat 0x20AC], false, true, false⟩] = none ∧
    parsePipeFields [⟨"fields".toList, false, true, true⟩, ⟨[Char.ofNat 0xE9], false, true, true⟩]
      = some (false, [[Char.ofNat 0xE9]], []) ∧
    parsePipeFields [⟨"fields".toList, false, true, true⟩, ⟨[Char.ofNat 0x663], false, true, true⟩]
      = some (false, [[Char.ofNat 0x663]], []) :=
  ⟨by decide, by decide, by decide, by decide, by decide, by decide⟩

/-- no assumption on non-ASCII characters is left in `isComposite`: for an unquoted one-rune token it is the
oracle bit (for runes other than `-` and `*`, which are ASCII) -/
theorem c20_nonascii_rune_composite_iff_letter (c : Char) (sp lt : Bool) (h : c.toNat ≥ 128) :
    isComposite ⟨[c], false, sp, lt⟩ = lt := by
  have h1 : ¬ c.toNat < 128 := by omega
  have hm : (c == '-') = false := by
    have : c ≠ '-' := fun e => by rw [e] at h; exact absurd h (by decide)
    simpa using this
  have hs : (c == '*') = false := by
    have : c ≠ '*' := fun e => by rw [e] at h; exact absurd h (by decide)
    simpa using this
  simp [isComposite, firstTokenRune, h1, hm, hs, utf8Len]

/-- white space of any kind before a token (`SpaceSkipped`) ends a composite name, whatever the token is; without
white space a composite token is glued on -/
theorem c20_space_ends_composite_name (acc : List Char) (t : Tok) (rest : List Tok) :
    (t.space = true → joinComposite acc (t :: rest) = (acc, t :: rest)) ∧
    (t.space = false → isComposite t = true → joinComposite acc (t :: rest) = joinComposite (acc ++ t.text) rest) := by
  constructor
  · intro h; simp [joinComposite, h]
  · intro h hc; simp [joinComposite, h, hc]

/-- `| fields level message` (any white space between) are two names, `| fields level-message` is one -/
theorem c20_space_separates_names_example :
    parsePipeFields [⟨"fields".toList, false, true, true⟩, ⟨"level".toList, false, true, true⟩, ⟨"message".toList, false, true, true⟩] =
      some (false, ["level".toList, "message".toList], []) ∧
    parsePipeFields [⟨"fields".toList, false, true, true⟩, ⟨"level".toList, false, true, true⟩, ⟨['-'], false, false, true⟩,
      ⟨"message".toList, false, false, true⟩] = some (false, ["level-message".toList], []) := by decide

/-! ## Obligations on facts re-extracted from /repo on every run -/
open SV.Extracted.C20

/-- `filterFields` has the shape the model follows: early return, decode, object test, block-list loop
`Dig(field).Suicide()`, allow-list collect-then-`Suicide`, re-encode -/
theorem c20_x_filter_shape :
    filterFieldsSteps = ["if len(dp.filter.GetFields()) == 0 || len(doc) == 0 { return doc }",
      "err := dp.decoder.DecodeBytes(doc)", "if err != nil { return doc }",
      "if !dp.decoder.IsObject() { return doc }", "if !dp.filter.AllowList {",
      "for field := range dp.filter.Fields { dp.decoder.Dig(field).Suicide() }",
      "dp.decoderBuf = dp.decoder.Encode(dp.decoderBuf[:0])", "return dp.decoderBuf", "}",
      "var fieldsToRemove []*insaneJSON.Node",
      "for field := range dp.decoder.AsFields() { fieldName := field.AsString(); if !slices.Contains(dp.filter.Fields, fieldName) { fieldsToRemove = append(fieldsToRemove, field.AsFieldValue()) } }",
      "for field := range fieldsToRemove { field.Suicide() }",
      "dp.decoderBuf = dp.decoder.Encode(dp.decoderBuf[:0])", "return dp.decoderBuf"] := by rfl

/-- the filter is applied to each fetched document on its way out, after the stream, before packing -/
theorem c20_x_per_document :
    doFetchLoopCalls = ["docsStream.Next", "dp.FilterDocFields", "disk.PackDocBlock", "block.SetExt1",
      "block.SetExt2", "stream.Send"] := by decide

/-- the pooled `docFieldsFilter` (decoder, buffers and the request's filter) is acquired once and released exactly
once per fetch - one `defer` right after the acquire, no second release site - so no two fetches running at the
same time can hold the same object (the model applies the filter to each request's documents with that request's
own field list: `filterFields` has no shared state) -/
theorem c20_x_filter_released_once :
    doFetchFilterPool = ["dp := acquireDocFieldsFilter(req.FieldsFilter)", "defer releaseDocFieldsFilter(dp)"] := by
  decide

/-- the pooled filter carries nothing from one fetch to the next: `acquire` sets the request's filter
unconditionally (nil included) and spawns a decoder exactly when the pointer is nil, `release` clears the filter and
does nothing else - in particular it never gives the decoder back to insane-json's pool while keeping the pointer
(a released decoder would be shared with the next `Spawn`) - so `filterFields` always works with the list of its own
request, as the model does -/
theorem c20_x_filter_state_per_request :
    acquireFilterStmts = ["dp := docFieldsFilterPool.Get().(*docFieldsFilter)",
      "if dp.decoder == nil { dp.decoder = insaneJSON.Spawn() }", "dp.filter = filter", "return dp"] ∧
    releaseFilterStmts = ["dp.filter = nil", "docFieldsFilterPool.Put(dp)"] := by decide

/-- the proxy takes the field names of a fetch request literally: the Fetch handler hands
`req.FieldsFilter.Fields` / `AllowList` to the ingestor as they are and the ingestor puts them into the store request
as they are - no trimming, no dropping of empty names (JSON keys may be empty or carry blanks) -/
theorem c20_x_proxy_passes_names_unchanged :
    proxyFetchFilterArg = ["search.FetchFieldsFilter{ Fields: req.GetFieldsFilter().GetFields(), AllowList: req.GetFieldsFilter().GetAllowList(), }"] ∧
    makeFetchReqFilter = ["&storeapi.FetchRequest_FieldsFilter{ Fields: ff.Fields, AllowList: ff.AllowList, }"] := by
  decide

/-- every fetch request the proxy sends to a store comes from `makeFetchReq`, the one place that builds a
`storeapi.FetchRequest` (and puts the fields filter into it, `c20_x_proxy_passes_names_unchanged`) - no path, retry
or replica fallback included, can reach a store without the filter -/
theorem c20_x_store_fetch_requests_carry_filter :
    storeFetchReqBuilders = ["makeFetchReq"] ∧
    storeFetchCallArgs = ["singleDocsStream: si.makeFetchReq(ids, explain, fields)"] := by decide

/-- the filter the proxy extracts depends on the pipes only (`firstFieldsPipe` takes nothing else); the code gets the
pipes by re-parsing the WHOLE query with a nil mapping, where every field is a keyword field and any parse error
means "no filter" (`c20_x_parse_shape`).  So the keyword literal parser must not reject a literal the store-side
parse (real mapping, e.g. a text field) accepted: it has no error return at all. -/
theorem c20_x_keyword_literals_never_rejected : keywordLiteralErrors = [] := by decide

/-- the query text is never rewritten on its way: `GetAPISearchRequest` has no statement but the `return`, and the
store request's `Query` is `sr.Q` itself - line breaks (which end `#` comments) and the bytes of quoted names reach
the stores and the fetch-stage parse as the client wrote them.  In the token model a comment is white space: the
lexer skips it and the following line break sets `SpaceSkipped` (`Tok.space`). -/
theorem c20_x_query_text_unchanged :
    apiSearchRequestPre = [] ∧ apiSearchRequestQuery = ["util.ByteToStringUnsafe(sr.Q)"] := by decide

/-- `tryParseFieldsFilter`: parse with a nil mapping, first `*parser.PipeFields`, `AllowList = !Except` -/
theorem c20_x_parse_shape :
    parseFilterSteps = ["q, err := parser.ParseSeqQL(query, nil)", "if err != nil { return FetchFieldsFilter{} }",
      "for pipe := range q.Pipes", "p, ok := pipe.(*parser.PipeFields)", "if !ok { continue }",
      "return FetchFieldsFilter{ Fields: p.Fields, AllowList: !p.Except, }", "return FetchFieldsFilter{}"] := by decide

/-- the pipe parser recognises `|`, `fields`, `except`, `,` through `lexer.IsKeyword(s)`, which refuses quoted tokens
and compares with `strings.EqualFold` - what `SV.Fields.isKeyword` / `parsePipeFields` model -/
theorem c20_x_keywords_case_insensitive :
    parsePipesConds = ["for !lex.IsEnd()", "if !lex.IsKeyword(\"|\")", "case lex.IsKeyword(\"fields\")", "if err != nil",
      "if fieldFilters > 1"] ∧
    parsePipeFieldsConds = ["if !lex.IsKeyword(\"fields\")", "except := false", "if lex.IsKeyword(\"except\")",
      "except = true", "if err != nil"] ∧
    parseFieldListConds = ["for !lex.IsKeywords(\"|\", \"\")", "if err != nil", "if lex.IsKeyword(\",\")",
      "if trailingComma", "if len(fields) == 0"] ∧
    isKeywordStmts = ["if lex.TokenQuoted { return false }", "return strings.EqualFold(lex.Token, token)"] ∧
    isKeywordsStmts = ["if lex.TokenQuoted { return false }",
      "for _, t := range tokens { if strings.EqualFold(lex.Token, t) { return true } }", "return false"] := by decide

/-! ## Non-vacuity -/

example : parsePipeFields [⟨"FIELDS".toList, false, true, true⟩, ⟨"Except".toList, false, true, true⟩, ⟨"a".toList, false, true, true⟩,
    ⟨[','], false, false, true⟩, ⟨"b".toList, false, true, true⟩, ⟨['|'], false, true, true⟩] =
    some (true, ["a".toList, "b".toList], [⟨['|'], false, true, true⟩]) := by decide
example : isKeyword ⟨"EXCEPT".toList, false, true, true⟩ "except".toList = true ∧
    isKeyword ⟨"except".toList, true, true, true⟩ "except".toList = false := by decide
example : parsePipeFields [⟨"fields".toList, false, true, true⟩, ⟨"level".toList, false, true, true⟩, ⟨"message".toList, false, true, true⟩] =
    some (false, ["level".toList, "message".toList], []) := by decide


example : filterAllow ["a", "c", "zz"] [(⟨0, "a", 1⟩ : Fld String Nat), ⟨1, "b", 2⟩, ⟨2, "c", 3⟩, ⟨3, "d", 4⟩] =
    [⟨0, "a", 1⟩, ⟨2, "c", 3⟩] := by decide
example : filterExcept ["a", "c"] [(⟨0, "a", 1⟩ : Fld String Nat), ⟨1, "b", 2⟩, ⟨2, "c", 3⟩, ⟨3, "d", 4⟩, ⟨4, "e", 5⟩] =
    [⟨4, "e", 5⟩, ⟨1, "b", 2⟩, ⟨3, "d", 4⟩] := by decide
example : ([(⟨0, "a", 1⟩ : Fld String Nat), ⟨1, "b", 2⟩, ⟨2, "c", 3⟩].map (·.tag)).Nodup ∧
    ([(⟨0, "a", 1⟩ : Fld String Nat), ⟨1, "b", 2⟩, ⟨2, "c", 3⟩].map (·.key)).Nodup := by decide
example : firstFieldsPipe [some (["a"], true), some (["b"], false)] = some (["a"], false) := by decide

end SV.Props.C20
