import SeqVerif.Model.Replica
import SeqVerif.Extracted.C09T
/-!
# C09 - the 2-D write status of the model = the flat `[]bool` of `proxy/bulk/write_status.go`

`SV.Extracted.C09.T` is produced by `extract/cmd/c09t` (translator `extract/xlate`, prelude `Base/GoInt.lean`).
The model keeps `written[shard][replica]` as a function `Status := Nat → Nat → Bool`; the code keeps one slice of
`shardsCnt * replicasCnt` flags and hands out the window `[idx*replicasCnt, idx*replicasCnt + replicasCnt)` per
shard.  `Flat R S st flat` states the relation `flat[s*R + r] = st s r`.
-/
namespace SV.Props.C09
open SV.Replica SV.Go
open SV.Extracted.C09

/-- the flat slice `flat` holds the status `st` of `S` shards with `R` replicas each -/
def Flat (R S : Nat) (st : Status) (flat : List Bool) : Prop :=
  flat.length = S * R ∧ ∀ s r, s < S → r < R → flat[s * R + r]? = some (st s r)

/-- `newStoresWriteStatus(shardsCnt, replicasCnt)` returns `replicasCnt` and `shardsCnt*replicasCnt` cleared flags:
the all-false status (no panic while the product fits an `int`) -/
theorem c09_t_newStoresWriteStatus (S R : Nat) (h : S * R < 9223372036854775808) :
    T.newStoresWriteStatus S R = some ((R : Int), List.replicate (S * R) false)
      ∧ Flat R S (fun _ _ => false) (List.replicate (S * R) false) := by
  constructor
  · unfold T.newStoresWriteStatus
    have hm : (S : Int) * (R : Int) = ((S * R : Nat) : Int) := by push_cast; rfl
    have hw : wrapI64 ((S : Int) * (R : Int)) = ((S * R : Nat) : Int) := by
      rw [hm]; exact wrapI64_natCast h
    have g : ¬ ¬ ((0 : Int) ≤ ((S * R : Nat) : Int)) := by omega
    simp only [hw, if_neg g, Int.toNat_natCast]
  · refine ⟨by simp, ?_⟩
    intro s r hs hr
    have : s * R + r < S * R := by
      have : (s + 1) * R ≤ S * R := Nat.mul_le_mul_right R (by omega)
      rw [Nat.add_mul, Nat.one_mul] at this; omega
    simp [this]

/-- `storesWriteStatus.getShard(idx)` is the window of shard `idx`: it does not panic for a shard inside the slice and
its `r`-th flag is `flat[idx*R + r]`, i.e. `st idx r` under `Flat` -/
theorem c09_t_getShard (R S : Nat) (st : Status) (flat : List Bool) (s : Nat) (hf : Flat R S st flat) (hs : s < S)
    (hb : S * R < 9223372036854775808) :
    ∃ row, T.storesWriteStatus_getShard R flat s = some row ∧ row.length = R ∧ ∀ r, r < R → row[r]? = some (st s r) := by
  have hle : s * R + R ≤ S * R := by
    have : (s + 1) * R ≤ S * R := Nat.mul_le_mul_right R (by omega)
    rw [Nat.add_mul, Nat.one_mul] at this; exact this
  refine ⟨(flat.take (s * R + R)).drop (s * R), ?_, ?_, ?_⟩
  · unfold T.storesWriteStatus_getShard
    have hm : (s : Int) * (R : Int) = ((s * R : Nat) : Int) := by push_cast; rfl
    have hw : wrapI64 ((s : Int) * (R : Int)) = ((s * R : Nat) : Int) := by
      rw [hm]; exact wrapI64_natCast (by omega)
    have hlen : len flat = ((S * R : Nat) : Int) := by unfold len; rw [hf.1]
    simp only [hw]
    generalize s * R = k at *
    have hw2 : wrapI64 ((k : Int) + (R : Int)) = ((k + R : Nat) : Int) := by unfold wrapI64; omega
    have g : ¬ ¬ ((0 : Int) ≤ (k : Int) ∧ (k : Int) ≤ ((k + R : Nat) : Int) ∧ ((k + R : Nat) : Int) ≤ len flat) := by
      rw [hlen]; omega
    simp only [hw2, if_neg g, slice, Int.toNat_natCast]
  · simp [hf.1]; omega
  · intro r hr
    rw [List.getElem?_drop, List.getElem?_take]
    have : s * R + r < s * R + R := by omega
    simp only [this, if_true]
    exact hf.2 s r hs hr

/-- the window `getShard(s)` returns, as a list -/
def window (R : Nat) (flat : List Bool) (s : Nat) : List Bool := (flat.take (s * R + R)).drop (s * R)

theorem c09_t_getShard_eq (R S : Nat) (flat : List Bool) (s : Nat) (hlen : flat.length = S * R) (hs : s < S)
    (hb : S * R < 9223372036854775808) :
    T.storesWriteStatus_getShard R flat s = some (window R flat s) := by
  have hle : s * R + R ≤ S * R := by
    have : (s + 1) * R ≤ S * R := Nat.mul_le_mul_right R (by omega)
    rw [Nat.add_mul, Nat.one_mul] at this; exact this
  unfold T.storesWriteStatus_getShard window
  have hm : (s : Int) * (R : Int) = ((s * R : Nat) : Int) := by push_cast; rfl
  have hw : wrapI64 ((s : Int) * (R : Int)) = ((s * R : Nat) : Int) := by
    rw [hm]; exact wrapI64_natCast (by omega)
  have hl : len flat = ((S * R : Nat) : Int) := by unfold len; rw [hlen]
  simp only [hw]
  generalize s * R = k at *
  have hw2 : wrapI64 ((k : Int) + (R : Int)) = ((k + R : Nat) : Int) := by unfold wrapI64; omega
  have g : ¬ ¬ ((0 : Int) ≤ (k : Int) ∧ (k : Int) ≤ ((k + R : Nat) : Int) ∧ ((k + R : Nat) : Int) ≤ len flat) := by
    rw [hl]; omega
  simp only [hw2, if_neg g, slice, Int.toNat_natCast]

/-- `shard.Bulk`, per replica: a replica whose flag is set is skipped (`replicaLoop`: `if row r then` no call) -/
theorem c09_t_replicaSkip (row : List Bool) (r : Nat) (hr : r < row.length) :
    T.replicaSkip row r = some row[r] := by
  unfold T.replicaSkip
  have hpos : len row > 0 := by unfold len; omega
  rw [if_pos hpos, idx_natCast, List.getElem?_eq_getElem hr]
  cases row[r] <;> rfl

/-- ... and its flag is set only when the call returned no error (`replicaLoop`: `outs r = true` marks, a failed call
leaves the row as it was); the error itself goes to `hostErrors[r]` -/
theorem c09_t_replicaMark {E : Type} (err : E) (isNil : E → Bool) (errs : List E) (row : List Bool) (r : Nat)
    (hr : r < row.length) (he : r < errs.length) :
    T.replicaMark err isNil errs r row false = some (if isNil err then row.set r true else row) := by
  unfold T.replicaMark
  have g1 : ¬ ¬ ((0 : Int) ≤ (r : Int) ∧ (r : Int) < len errs) := by unfold len; omega
  have g2 : ¬ ¬ ((0 : Int) ≤ (r : Int) ∧ (r : Int) < len row) := by unfold len; omega
  cases h : isNil err
  · simp only [if_true, if_neg g1, Bool.false_eq_true, if_false]
  · simp only [Bool.true_eq_false, if_false, if_true, if_neg g2, set_natCast]

/-- the first call in visiting order that returned no error, else the last error (`err0` when nothing was visited) -/
def firstOk {E : Type} (isNil : E → Bool) : List E → E → E
  | [], e => e
  | x :: xs, _ => if isNil x then x else firstOk isNil xs x

/-- the loop of `sendBulkToStores`: shards are visited in the shuffled order `order`, each `shard.Bulk` gets the
shard's window of the status slice, and the loop stops at the first call without error - `Replica.sendBulk`'s
`if ok then .. else sendBulk rest` -/
theorem c09_t_visitLoop_loop {E Sh C : Type} (shards : List Sh) (order : List Nat) (R : Nat) (flat : List Bool) (ctx : C)
    (bulk : Sh → C → List Bool → E) (isNil ocb : E → Bool) (hord : ∀ s, s ∈ order → s < shards.length)
    (hlen : order.length = shards.length) (hflat : flat.length = shards.length * R)
    (hb : shards.length * R < 9223372036854775808) (hn : shards.length < 4611686018427387904) :
    ∀ (fuel n : Nat) (err : E), n + fuel = shards.length →
      T.visitLoop_loop0 shards (order.map Int.ofNat) R flat ctx bulk isNil ocb fuel err n
        = some (firstOk isNil ((order.drop n).filterMap fun s => (shards[s]?).map fun sh => bulk sh ctx (window R flat s)) err) := by
  intro fuel
  induction fuel with
  | zero =>
    intro n err hn'
    have : order.drop n = [] := List.drop_of_length_le (by omega)
    simp [T.visitLoop_loop0, this, firstOk]
  | succ fuel ih =>
    intro n err hn'
    have hlt : n < order.length := by omega
    have hlt' : (n : Int) < len shards := by unfold len; omega
    have hd : order.drop n = order[n] :: order.drop (n + 1) := List.drop_eq_getElem_cons hlt
    have hs := hord _ (List.getElem_mem hlt)
    have hw : wrapI64 ((n : Int) + 1) = ((n + 1 : Nat) : Int) := by unfold wrapI64; omega
    have hidx : idx (order.map Int.ofNat) (n : Int) = some ((order[n] : Nat) : Int) := by
      rw [idx_natCast]; simp [hlt]
    rw [T.visitLoop_loop0, hd]
    simp only [if_pos hlt', hidx, Option.bind_some, idx_natCast, List.getElem?_eq_getElem hs,
      c09_t_getShard_eq R shards.length flat order[n] hflat hs hb, List.filterMap_cons, Option.map_some, firstOk, hw]
    cases hnil : isNil (bulk shards[order[n]] ctx (window R flat order[n]))
    · simp only [Bool.false_eq_true, if_false]
      exact ih (n + 1) _ (by omega)
    · simp only [if_true]

theorem c09_t_visitLoop {E Sh C : Type} (err0 : E) (shards : List Sh) (order : List Nat) (R : Nat) (flat : List Bool) (ctx : C)
    (bulk : Sh → C → List Bool → E) (isNil ocb : E → Bool) (hord : ∀ s, s ∈ order → s < shards.length)
    (hlen : order.length = shards.length) (hflat : flat.length = shards.length * R)
    (hb : shards.length * R < 9223372036854775808) (hn : shards.length < 4611686018427387904) :
    T.visitLoop err0 shards (order.map Int.ofNat) R flat ctx bulk isNil ocb
      = some (firstOk isNil (order.filterMap fun s => (shards[s]?).map fun sh => bulk sh ctx (window R flat s)) err0) := by
  unfold T.visitLoop
  have := c09_t_visitLoop_loop shards order R flat ctx bulk isNil ocb hord hlen hflat hb hn shards.length 0 err0 (by omega)
  simpa [len] using this

end SV.Props.C09
