import SeqVerif.Model.Replica
import SeqVerif.Extracted.C09T
/-!
# C09 - the 2-D write status of the model = the flat `[]bool` of `proxy/bulk/write_status.go`

`SV.Extracted.C09.T` is produced by `extract/cmd/c09t` (translator `extract/xlate`, prelude `Base/GoInt.lean`).
The model keeps `written[shard][replica]` as a function `Status := Nat → Nat → Bool`; the code keeps one slice of
`shardsCnt * replicasCnt` flags and hands out the window `[idx*replicasCnt, idx*replicasCnt + replicasCnt)` per
shard.  `Flat R S st flat` states the relation `flat[s*R + r] = st s r`.
-/
namespace SV.Props.C09
open SV.Replica SV.Go
open SV.Extracted.C09

/-- the flat slice `flat` holds the status `st` of `S` shards with `R` replicas each -/
def Flat (R S : Nat) (st : Status) (flat : List Bool) : Prop :=
  flat.length = S * R ∧ ∀ s r, s < S → r < R → flat[s * R + r]? = some (st s r)

/-- `newStoresWriteStatus(shardsCnt, replicasCnt)` returns `replicasCnt` and `shardsCnt*replicasCnt` cleared flags:
the all-false status (no panic while the product fits an `int`) -/
theorem c09_t_newStoresWriteStatus (S R : Nat) (h : S * R < 9223372036854775808) :
    T.newStoresWriteStatus S R = some ((R : Int), List.replicate (S * R) false)
      ∧ Flat R S (fun _ _ => false) (List.replicate (S * R) false) := by
  constructor
  · unfold T.newStoresWriteStatus
    have hm : (S : Int) * (R : Int) = ((S * R : Nat) : Int) := by push_cast; rfl
    have hw : wrapI64 ((S : Int) * (R : Int)) = ((S * R : Nat) : Int) := by
      rw [hm]; exact wrapI64_natCast h
    have g : ¬ ¬ ((0 : Int) ≤ ((S * R : Nat) : Int)) := by omega
    simp only [hw, if_neg g, Int.toNat_natCast]
  · refine ⟨by simp, ?_⟩
    intro s r hs hr
    have : s * R + r < S * R := by
      have : (s + 1) * R ≤ S * R := Nat.mul_le_mul_right R (by omega)
      rw [Nat.add_mul, Nat.one_mul] at this; omega
    simp [this]

/-- `storesWriteStatus.getShard(idx)` is the window of shard `idx`: it does not panic for a shard inside the slice and
its `r`-th flag is `flat[idx*R + r]`, i.e. `st idx r` under `Flat` -/
theorem c09_t_getShard (R S : Nat) (st : Status) (flat : List Bool) (s : Nat) (hf : Flat R S st flat) (hs : s < S)
    (hb : S * R < 9223372036854775808) :
    ∃ row, T.storesWriteStatus_getShard R flat s = some row ∧ row.length = R ∧ ∀ r, r < R → row[r]? = some (st s r) := by
  have hle : s * R + R ≤ S * R := by
    have : (s + 1) * R ≤ S * R := Nat.mul_le_mul_right R (by omega)
    rw [Nat.add_mul, Nat.one_mul] at this; exact this
  refine ⟨(flat.take (s * R + R)).drop (s * R), ?_, ?_, ?_⟩
  · unfold T.storesWriteStatus_getShard
    have hm : (s : Int) * (R : Int) = ((s * R : Nat) : Int) := by push_cast; rfl
    have hw : wrapI64 ((s : Int) * (R : Int)) = ((s * R : Nat) : Int) := by
      rw [hm]; exact wrapI64_natCast (by omega)
    have hlen : len flat = ((S * R : Nat) : Int) := by unfold len; rw [hf.1]
    simp only [hw]
    generalize s * R = k at *
    have hw2 : wrapI64 ((k : Int) + (R : Int)) = ((k + R : Nat) : Int) := by unfold wrapI64; omega
    have g : ¬ ¬ ((0 : Int) ≤ (k : Int) ∧ (k : Int) ≤ ((k + R : Nat) : Int) ∧ ((k + R : Nat) : Int) ≤ len flat) := by
      rw [hlen]; omega
    simp only [hw2, if_neg g, slice, Int.toNat_natCast]
  · simp [hf.1]; omega
  · intro r hr
    rw [List.getElem?_drop, List.getElem?_take]
    have : s * R + r < s * R + R := by omega
    simp only [this, if_true]
    exact hf.2 s r hs hr

end SV.Props.C09
