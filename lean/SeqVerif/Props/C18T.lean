import SeqVerif.Model.Cache
import SeqVerif.Extracted.C18T
/-!
# C18 - the cleaner's list maintenance in the model = mechanical translation of `cache/cleaner.go`

`SV.Extracted.C18.T` is produced by `extract/cmd/c18t` (translator `extract/xlate`, prelude `Base/GoInt.lean`):
`Cleaner.getSize`, `Cleaner.ReleaseBuckets` (the in-place stable filter: a range loop over a slice whose body writes
its elements, translated as a counting loop over the evolving list) and `Cleaner.CleanEmptyGenerations`
(translated, no theorem yet).  Generations / buckets are opaque values (here: the model's indices), `size.Load()`
and `bucket.Released()` are parameters; `c.mu`, `c.metrics` calls are ignored.
-/
namespace SV.Props.C18
open SV.Cache SV.Go
open SV.Extracted.C18

/-- `Cleaner.getSize()` = the model's sum of generation sizes (as long as the running sum fits uint64) -/
theorem c18_t_getSize_loop (G : List Nat) (sz : Nat → Int) :
    ∀ (gl : List Nat) (acc : Int), 0 ≤ acc → (∀ g, g ∈ gl → 0 ≤ sz g) → acc + (gl.map sz).sum < 18446744073709551616 →
      T.Cleaner_getSize_loop0 G (fun g => g) sz gl acc = acc + (gl.map sz).sum := by
  intro gl
  induction gl with
  | nil => intro acc _ _ _; simp [T.Cleaner_getSize_loop0]
  | cons g gl ih =>
    intro acc ha hp hs
    simp only [List.map_cons, List.sum_cons] at hs
    have hg := hp g (by simp)
    have hrest : 0 ≤ (gl.map sz).sum := by
      clear ih hs
      induction gl with
      | nil => simp
      | cons x xs ihx =>
        simp only [List.map_cons, List.sum_cons]
        have := hp x (by simp)
        have := ihx (fun y hy => hp y (by simp at hy ⊢; rcases hy with h | h <;> simp [h]))
        omega
    have hw : wrapU64 (acc + sz g) = acc + sz g := by unfold wrapU64; omega
    rw [T.Cleaner_getSize_loop0, hw, ih (acc + sz g) (by omega) (fun x hx => hp x (by simp [hx])) (by omega)]
    simp only [List.map_cons, List.sum_cons]; omega

theorem c18_t_getSize (s : St) (hp : ∀ g, g ∈ s.glist → 0 ≤ s.gsize g) (hs : getSize s < 18446744073709551616) :
    T.Cleaner_getSize s.glist (fun g => g) s.gsize = getSize s := by
  unfold T.Cleaner_getSize
  have := c18_t_getSize_loop s.glist s.gsize s.glist 0 (by omega) hp (by unfold getSize at hs; omega)
  simpa [getSize] using this

/-- the state of the in-place filter after `i` buckets: the first `k` slots hold the kept ones, the rest is untouched -/
structure Inv (rel : Nat → Bool) (bs cur : List Nat) (k i : Nat) : Prop where
  ki : k ≤ i
  ib : i ≤ bs.length
  len : cur.length = bs.length
  kept : cur.take k = (bs.take i).filter fun b => !rel b
  rest : cur.drop i = bs.drop i

theorem c18_t_ReleaseBuckets_loop (rel : Nat → Bool) (bs : List Nat) (hn : bs.length < 4611686018427387904) :
    ∀ (fuel i k : Nat) (cur : List Nat), Inv rel bs cur k i → i + fuel = bs.length →
      T.Cleaner_ReleaseBuckets_loop0 rel (bs.length : Int) fuel cur k i
        = some (((bs.length - (releaseBuckets rel bs).length : Nat) : Int), releaseBuckets rel bs) := by
  intro fuel
  induction fuel with
  | zero =>
    intro i k cur inv hi
    have hib : i = bs.length := by omega
    have hk : cur.take k = releaseBuckets rel bs := by
      rw [inv.kept, hib, List.take_length]; rfl
    have hkl : k = (releaseBuckets rel bs).length := by
      rw [← hk, List.length_take, inv.len]; have := inv.ki; omega
    rw [T.Cleaner_ReleaseBuckets_loop0]
    have hl : len cur = (bs.length : Int) := by unfold len; rw [inv.len]
    have hw : wrapI64 ((bs.length : Int) - (k : Int)) = ((bs.length - k : Nat) : Int) := by
      have := inv.ki; unfold wrapI64; omega
    have g : ¬ ¬ ((0 : Int) ≤ 0 ∧ (0 : Int) ≤ (k : Int) ∧ (k : Int) ≤ len cur) := by
      rw [hl]; have := inv.ki; omega
    simp only [hl, hw, slice_to, hk]
    rw [hkl]
    split
    · rename_i hc; rw [hl, hkl] at g; exact absurd hc g
    · rfl
  | succ fuel ih =>
    intro i k cur inv hi
    have hlt : i < bs.length := by omega
    have hlt' : (i : Int) < (bs.length : Int) := by omega
    have hci : cur[i]? = some bs[i] := by
      have := congrArg (fun l => l[0]?) inv.rest
      simpa [List.getElem?_drop, hlt] using this
    have htake : bs.take (i + 1) = bs.take i ++ [bs[i]] := by
      rw [List.take_add_one]; simp [hlt]
    rw [T.Cleaner_ReleaseBuckets_loop0]
    simp only [if_pos hlt', idx_natCast, hci, Option.bind_some]
    by_cases hr : rel bs[i] = true
    · simp only [hr, if_true]
      have inv' : Inv rel bs cur k (i + 1) :=
        ⟨by have := inv.ki; omega, by omega, inv.len, by rw [inv.kept, htake, List.filter_append]; simp [hr],
         by have := congrArg (List.drop 1) inv.rest; simpa [List.drop_drop, Nat.add_comm] using this⟩
      have := ih (i + 1) k cur inv' (by omega)
      simpa using this
    · have hr' : rel bs[i] = false := by simpa using hr
      have hkl : k < cur.length := by rw [inv.len]; have := inv.ki; omega
      have g : ¬ ¬ ((0 : Int) ≤ (k : Int) ∧ (k : Int) < len cur) := by unfold len; omega
      have hw : wrapI64 ((k : Int) + 1) = ((k + 1 : Nat) : Int) := by
        have := inv.ki; unfold wrapI64; omega
      simp only [hr', Bool.false_eq_true, if_false, if_neg g, hw, set_natCast]
      have inv' : Inv rel bs (cur.set k bs[i]) (k + 1) (i + 1) := by
        refine ⟨by have := inv.ki; omega, by omega, by simp [inv.len], ?_, ?_⟩
        · rw [htake, List.filter_append, ← inv.kept, List.take_add_one]
          simp [hr', hkl, List.take_set_of_le]
        · have h1 : (cur.set k bs[i]).drop (i + 1) = cur.drop (i + 1) := by
            rw [List.drop_set]; have := inv.ki; simp; omega
          rw [h1]
          have := congrArg (List.drop 1) inv.rest
          simpa [List.drop_drop, Nat.add_comm] using this
      have := ih (i + 1) (k + 1) (cur.set k bs[i]) inv' (by omega)
      simpa using this

/-- **`Cleaner.ReleaseBuckets`** (repaired form) = the model's stable filter: released buckets go, the others keep
their order, the count of removed ones is returned; no panic -/
theorem c18_t_ReleaseBuckets (rel : Nat → Bool) (bs : List Nat) (hn : bs.length < 4611686018427387904) :
    T.Cleaner_ReleaseBuckets bs rel
      = some (((bs.length - (releaseBuckets rel bs).length : Nat) : Int), releaseBuckets rel bs) := by
  unfold T.Cleaner_ReleaseBuckets
  have inv0 : Inv rel bs bs 0 0 := ⟨Nat.le_refl _, Nat.zero_le _, rfl, by simp, by simp⟩
  have := c18_t_ReleaseBuckets_loop rel bs hn bs.length 0 0 bs inv0 (by omega)
  simpa [len] using this

/-! ## CleanEmptyGenerations -/

/-- the compaction after `i` of the first `len-1` generations: the first `k` slots hold the non-empty ones, the rest
(including the last generation) is untouched -/
structure CInv (sz : Nat → Int) (gl cur : List Nat) (k i : Nat) : Prop where
  ki : k ≤ i
  ib : i + 1 ≤ gl.length
  len : cur.length = gl.length
  kept : cur.take k = (gl.take i).filter fun g => decide (sz g ≠ 0)
  rest : cur.drop i = gl.drop i

private theorem take_set_succ (cur : List Nat) (k x : Nat) (h : k < cur.length) :
    (cur.set k x).take (k + 1) = cur.take k ++ [x] := by
  rw [List.take_add_one]; simp [h, List.take_set_of_le]

/-- the code after the loop (reached with `i = len-1`, whatever fuel is left): the last generation is always kept -/
private theorem clean_tail (sz : Nat → Int) (gl cur : List Nat) (k : Nat) (hn : gl.length < 4611686018427387904)
    (hpos : 0 < gl.length) (inv : CInv sz gl cur k (gl.length - 1)) (fuel : Nat) :
    T.Cleaner_CleanEmptyGenerations_loop0 (fun g => g) sz ((gl.length - 1 : Nat) : Int) fuel cur k ((gl.length - 1 : Nat) : Int)
      = some (((gl.length - ((gl.dropLast.filter fun g => decide (sz g ≠ 0)) ++ [gl[gl.length - 1]'(by omega)]).length : Nat) : Int),
          (gl.dropLast.filter fun g => decide (sz g ≠ 0)) ++ [gl[gl.length - 1]'(by omega)]) := by
  have h1 : cur[gl.length - 1]? = gl[gl.length - 1]? := by
    have := congrArg (fun l => l[0]?) inv.rest
    simpa [List.getElem?_drop] using this
  have hlast : cur[gl.length - 1]? = some (gl[gl.length - 1]'(by omega)) := by
    rw [h1, List.getElem?_eq_getElem]
  have hk := inv.ki
  have hkl : k < cur.length := by rw [inv.len]; omega
  have g : ¬ ¬ ((0 : Int) ≤ (k : Int) ∧ (k : Int) < len cur) := by unfold len; omega
  have hw : wrapI64 ((k : Int) + 1) = ((k + 1 : Nat) : Int) := by unfold wrapI64; omega
  have hkeep : cur.take k = gl.dropLast.filter fun g => decide (sz g ≠ 0) := by
    rw [inv.kept, List.dropLast_eq_take]
  have hl : len (cur.set k (gl[gl.length - 1]'(by omega))) = (gl.length : Int) := by simp [len, inv.len]
  have hfl : (gl.dropLast.filter fun g => decide (sz g ≠ 0)).length = k := by
    rw [← hkeep, List.length_take]; omega
  have g2 : ¬ ¬ ((0 : Int) ≤ 0 ∧ (0 : Int) ≤ ((k + 1 : Nat) : Int) ∧ ((k + 1 : Nat) : Int) ≤ (gl.length : Int)) := by omega
  have hwe : wrapI64 ((gl.length : Int) - ((k + 1 : Nat) : Int)) = ((gl.length - (k + 1) : Nat) : Int) := by unfold wrapI64; omega
  have hnlt : ¬ (((gl.length - 1 : Nat) : Int) < ((gl.length - 1 : Nat) : Int)) := by omega
  have tail : ((idx cur ((gl.length - 1 : Nat) : Int)).bind fun v0 =>
      if ¬ ((0 : Int) ≤ (k : Int) ∧ (k : Int) < len cur) then none else
      if ¬ ((0 : Int) ≤ 0 ∧ (0 : Int) ≤ wrapI64 ((k : Int) + 1) ∧ wrapI64 ((k : Int) + 1) ≤ len (Go.set cur (k : Int) v0)) then none else
      some (wrapI64 (len (Go.set cur (k : Int) v0) - wrapI64 ((k : Int) + 1)),
        slice (Go.set cur (k : Int) v0) 0 (wrapI64 ((k : Int) + 1))))
      = some (((gl.length - ((gl.dropLast.filter fun g => decide (sz g ≠ 0)) ++ [gl[gl.length - 1]'(by omega)]).length : Nat) : Int),
          (gl.dropLast.filter fun g => decide (sz g ≠ 0)) ++ [gl[gl.length - 1]'(by omega)]) := by
    rw [idx_natCast, hlast]
    simp only [Option.bind_some, if_neg g, hw, set_natCast, hl, if_neg g2, hwe, slice_to, take_set_succ cur k _ hkl, hkeep,
      List.length_append, List.length_cons, List.length_nil, hfl]
  cases fuel with
  | zero => rw [T.Cleaner_CleanEmptyGenerations_loop0]; exact tail
  | succ f => rw [T.Cleaner_CleanEmptyGenerations_loop0, if_neg hnlt]; exact tail

theorem c18_t_CleanEmptyGenerations_loop (sz : Nat → Int) (hsz : ∀ g, 0 ≤ sz g) (gl : List Nat)
    (hn : gl.length < 4611686018427387904) (hpos : 0 < gl.length) :
    ∀ (fuel i k : Nat) (cur : List Nat), CInv sz gl cur k i → i + fuel = gl.length - 1 →
      T.Cleaner_CleanEmptyGenerations_loop0 (fun g => g) sz ((gl.length - 1 : Nat) : Int) fuel cur k i
        = some (((gl.length - ((gl.dropLast.filter fun g => decide (sz g ≠ 0)) ++ [gl[gl.length - 1]'(by omega)]).length : Nat) : Int),
            (gl.dropLast.filter fun g => decide (sz g ≠ 0)) ++ [gl[gl.length - 1]'(by omega)]) := by
  intro fuel
  induction fuel with
  | zero =>
    intro i k cur inv hi
    have hil : i = gl.length - 1 := by omega
    subst hil
    exact clean_tail sz gl cur k hn hpos inv 0
  | succ fuel ih =>
    intro i k cur inv hi
    have hlt : i < gl.length - 1 := by omega
    have hlt' : (i : Int) < ((gl.length - 1 : Nat) : Int) := by omega
    have hig : i < gl.length := by omega
    have hci : cur[i]? = some gl[i] := by
      have := congrArg (fun l => l[0]?) inv.rest
      simpa [List.getElem?_drop, hig] using this
    have htake : gl.take (i + 1) = gl.take i ++ [gl[i]] := by
      rw [List.take_add_one]; simp [hig]
    have hrest : cur.drop (i + 1) = gl.drop (i + 1) := by
      have := congrArg (List.drop 1) inv.rest
      simpa [List.drop_drop, Nat.add_comm] using this
    have hwi : wrapI64 ((i : Int) + 1) = ((i + 1 : Nat) : Int) := by unfold wrapI64; omega
    rw [T.Cleaner_CleanEmptyGenerations_loop0]
    simp only [if_pos hlt', idx_natCast, hci, Option.bind_some, hwi]
    by_cases hz : sz gl[i] > 0
    · have hne : sz gl[i] ≠ 0 := by omega
      have hkl : k < cur.length := by rw [inv.len]; have := inv.ki; omega
      have g : ¬ ¬ ((0 : Int) ≤ (k : Int) ∧ (k : Int) < len cur) := by unfold len; omega
      have hw : wrapI64 ((k : Int) + 1) = ((k + 1 : Nat) : Int) := by have := inv.ki; unfold wrapI64; omega
      simp only [if_pos hz, if_neg g, hw, set_natCast]
      have inv' : CInv sz gl (cur.set k gl[i]) (k + 1) (i + 1) := by
        refine ⟨by have := inv.ki; omega, by omega, by simp [inv.len], ?_, ?_⟩
        · rw [take_set_succ cur k _ hkl, htake, List.filter_append, inv.kept]; simp [hne]
        · have hki := inv.ki
          rw [List.drop_set, if_pos (by omega)]; exact hrest
      exact ih (i + 1) (k + 1) _ inv' (by omega)
    · have he : sz gl[i] = 0 := by have := hsz gl[i]; omega
      simp only [if_neg hz]
      have inv' : CInv sz gl cur k (i + 1) :=
        ⟨by have := inv.ki; omega, by omega, inv.len, by rw [inv.kept, htake, List.filter_append]; simp [he], hrest⟩
      exact ih (i + 1) k cur inv' (by omega)

/-- **`Cleaner.CleanEmptyGenerations`** = `Cache.cleanEmpty`: empty generations but the last one are dropped in place,
order kept, the number dropped is returned; no generation list at all is a panic on both sides -/
theorem c18_t_CleanEmptyGenerations (s : St) (hsz : ∀ g, 0 ≤ s.gsize g) (hn : s.glist.length < 4611686018427387904) :
    T.Cleaner_CleanEmptyGenerations s.glist (fun g => g) s.gsize
      = (cleanEmpty s).map fun r => (((s.glist.length - r.1.glist.length : Nat) : Int), r.1.glist) := by
  unfold T.Cleaner_CleanEmptyGenerations cleanEmpty
  cases hg : s.glist with
  | nil =>
    have : wrapI64 (len ([] : List Nat) - 1) = -1 := by unfold wrapI64 len; simp
    simp only [this, List.getLast?_nil, Option.map_none]
    rw [show ((-1 : Int) - 0).toNat = 0 from rfl, T.Cleaner_CleanEmptyGenerations_loop0, idx_neg _ (by omega)]
    rfl
  | cons g rest =>
    have hpos : 0 < (g :: rest).length := by simp
    have hn' : (g :: rest).length < 4611686018427387904 := by rw [← hg]; exact hn
    have hlen : wrapI64 (len (g :: rest) - 1) = (((g :: rest).length - 1 : Nat) : Int) := by
      unfold wrapI64 len; omega
    have inv0 : CInv s.gsize (g :: rest) (g :: rest) 0 0 := ⟨Nat.le_refl _, by simp, rfl, by simp, by simp⟩
    have hfuel : ((((g :: rest).length - 1 : Nat) : Int) - 0).toNat = (g :: rest).length - 1 := by omega
    simp only [hlen, hfuel]
    have := c18_t_CleanEmptyGenerations_loop s.gsize hsz (g :: rest) hn' hpos ((g :: rest).length - 1) 0 0 (g :: rest) inv0 (by omega)
    rw [show ((0 : Nat) : Int) = 0 from rfl] at this
    rw [this]
    have hlast : (g :: rest).getLast? = some ((g :: rest)[(g :: rest).length - 1]'(by simp)) := by
      rw [List.getLast?_eq_getElem?]; simp
    simp only [hlast, Option.map_some]

end SV.Props.C18
