import SeqVerif.Model.Cache
import SeqVerif.Extracted.C18T
/-!
# C18 - the cleaner's list maintenance in the model = mechanical translation of `cache/cleaner.go`

`SV.Extracted.C18.T` is produced by `extract/cmd/c18t` (translator `extract/xlate`, prelude `Base/GoInt.lean`):
`Cleaner.getSize`, `Cleaner.ReleaseBuckets` (the in-place stable filter: a range loop over a slice whose body writes
its elements, translated as a counting loop over the evolving list) and `Cleaner.CleanEmptyGenerations`
(translated, no theorem yet).  Generations / buckets are opaque values (here: the model's indices), `size.Load()`
and `bucket.Released()` are parameters; `c.mu`, `c.metrics` calls are ignored.
-/
namespace SV.Props.C18
open SV.Cache SV.Go
open SV.Extracted.C18

/-- `Cleaner.getSize()` = the model's sum of generation sizes (as long as the running sum fits uint64) -/
theorem c18_t_getSize_loop (G : List Nat) (sz : Nat → Int) :
    ∀ (gl : List Nat) (acc : Int), 0 ≤ acc → (∀ g, g ∈ gl → 0 ≤ sz g) → acc + (gl.map sz).sum < 18446744073709551616 →
      T.Cleaner_getSize_loop0 G (fun g => g) sz gl acc = acc + (gl.map sz).sum := by
  intro gl
  induction gl with
  | nil => intro acc _ _ _; simp [T.Cleaner_getSize_loop0]
  | cons g gl ih =>
    intro acc ha hp hs
    simp only [List.map_cons, List.sum_cons] at hs
    have hg := hp g (by simp)
    have hrest : 0 ≤ (gl.map sz).sum := by
      clear ih hs
      induction gl with
      | nil => simp
      | cons x xs ihx =>
        simp only [List.map_cons, List.sum_cons]
        have := hp x (by simp)
        have := ihx (fun y hy => hp y (by simp at hy ⊢; rcases hy with h | h <;> simp [h]))
        omega
    have hw : wrapU64 (acc + sz g) = acc + sz g := by unfold wrapU64; omega
    rw [T.Cleaner_getSize_loop0, hw, ih (acc + sz g) (by omega) (fun x hx => hp x (by simp [hx])) (by omega)]
    simp only [List.map_cons, List.sum_cons]; omega

theorem c18_t_getSize (s : St) (hp : ∀ g, g ∈ s.glist → 0 ≤ s.gsize g) (hs : getSize s < 18446744073709551616) :
    T.Cleaner_getSize s.glist (fun g => g) s.gsize = getSize s := by
  unfold T.Cleaner_getSize
  have := c18_t_getSize_loop s.glist s.gsize s.glist 0 (by omega) hp (by unfold getSize at hs; omega)
  simpa [getSize] using this

/-- the state of the in-place filter after `i` buckets: the first `k` slots hold the kept ones, the rest is untouched -/
structure Inv (rel : Nat → Bool) (bs cur : List Nat) (k i : Nat) : Prop where
  ki : k ≤ i
  ib : i ≤ bs.length
  len : cur.length = bs.length
  kept : cur.take k = (bs.take i).filter fun b => !rel b
  rest : cur.drop i = bs.drop i

theorem c18_t_ReleaseBuckets_loop (rel : Nat → Bool) (bs : List Nat) (hn : bs.length < 4611686018427387904) :
    ∀ (fuel i k : Nat) (cur : List Nat), Inv rel bs cur k i → i + fuel = bs.length →
      T.Cleaner_ReleaseBuckets_loop0 rel (bs.length : Int) fuel cur k i
        = some (((bs.length - (releaseBuckets rel bs).length : Nat) : Int), releaseBuckets rel bs) := by
  intro fuel
  induction fuel with
  | zero =>
    intro i k cur inv hi
    have hib : i = bs.length := by omega
    have hk : cur.take k = releaseBuckets rel bs := by
      rw [inv.kept, hib, List.take_length]; rfl
    have hkl : k = (releaseBuckets rel bs).length := by
      rw [← hk, List.length_take, inv.len]; have := inv.ki; omega
    rw [T.Cleaner_ReleaseBuckets_loop0]
    have hl : len cur = (bs.length : Int) := by unfold len; rw [inv.len]
    have hw : wrapI64 ((bs.length : Int) - (k : Int)) = ((bs.length - k : Nat) : Int) := by
      have := inv.ki; unfold wrapI64; omega
    have g : ¬ ¬ ((0 : Int) ≤ 0 ∧ (0 : Int) ≤ (k : Int) ∧ (k : Int) ≤ len cur) := by
      rw [hl]; have := inv.ki; omega
    simp only [hl, hw, slice_to, hk]
    rw [hkl]
    split
    · rename_i hc; rw [hl, hkl] at g; exact absurd hc g
    · rfl
  | succ fuel ih =>
    intro i k cur inv hi
    have hlt : i < bs.length := by omega
    have hlt' : (i : Int) < (bs.length : Int) := by omega
    have hci : cur[i]? = some bs[i] := by
      have := congrArg (fun l => l[0]?) inv.rest
      simpa [List.getElem?_drop, hlt] using this
    have htake : bs.take (i + 1) = bs.take i ++ [bs[i]] := by
      rw [List.take_add_one]; simp [hlt]
    rw [T.Cleaner_ReleaseBuckets_loop0]
    simp only [if_pos hlt', idx_natCast, hci, Option.bind_some]
    by_cases hr : rel bs[i] = true
    · simp only [hr, if_true]
      have inv' : Inv rel bs cur k (i + 1) :=
        ⟨by have := inv.ki; omega, by omega, inv.len, by rw [inv.kept, htake, List.filter_append]; simp [hr],
         by have := congrArg (List.drop 1) inv.rest; simpa [List.drop_drop, Nat.add_comm] using this⟩
      have := ih (i + 1) k cur inv' (by omega)
      simpa using this
    · have hr' : rel bs[i] = false := by simpa using hr
      have hkl : k < cur.length := by rw [inv.len]; have := inv.ki; omega
      have g : ¬ ¬ ((0 : Int) ≤ (k : Int) ∧ (k : Int) < len cur) := by unfold len; omega
      have hw : wrapI64 ((k : Int) + 1) = ((k + 1 : Nat) : Int) := by
        have := inv.ki; unfold wrapI64; omega
      simp only [hr', Bool.false_eq_true, if_false, if_neg g, hw, set_natCast]
      have inv' : Inv rel bs (cur.set k bs[i]) (k + 1) (i + 1) := by
        refine ⟨by have := inv.ki; omega, by omega, by simp [inv.len], ?_, ?_⟩
        · rw [htake, List.filter_append, ← inv.kept, List.take_add_one]
          simp [hr', hkl, List.take_set_of_le]
        · have h1 : (cur.set k bs[i]).drop (i + 1) = cur.drop (i + 1) := by
            rw [List.drop_set]; have := inv.ki; simp; omega
          rw [h1]
          have := congrArg (List.drop 1) inv.rest
          simpa [List.drop_drop, Nat.add_comm] using this
      have := ih (i + 1) (k + 1) (cur.set k bs[i]) inv' (by omega)
      simpa using this

/-- **`Cleaner.ReleaseBuckets`** (repaired form) = the model's stable filter: released buckets go, the others keep
their order, the count of removed ones is returned; no panic -/
theorem c18_t_ReleaseBuckets (rel : Nat → Bool) (bs : List Nat) (hn : bs.length < 4611686018427387904) :
    T.Cleaner_ReleaseBuckets bs rel
      = some (((bs.length - (releaseBuckets rel bs).length : Nat) : Int), releaseBuckets rel bs) := by
  unfold T.Cleaner_ReleaseBuckets
  have inv0 : Inv rel bs bs 0 0 := ⟨Nat.le_refl _, Nat.zero_le _, rfl, by simp, by simp⟩
  have := c18_t_ReleaseBuckets_loop rel bs hn bs.length 0 0 bs inv0 (by omega)
  simpa [len] using this

end SV.Props.C18
