import SeqVerif.Model.C03Codec
import SeqVerif.Model.C03Lids
import SeqVerif.Model.C03Ids
import SeqVerif.Model.C03TokenTable
import SeqVerif.Base.Search
import SeqVerif.Model.C03Tokens
import SeqVerif.Extracted.C03T
/-!
# C03 - hand models = mechanical translations of the Go source (regenerated on every run)

`SV.Extracted.C03.T` is produced by `extract/cmd/c03t` (translator `extract/xlate`, prelude `Base/GoInt.lean`)
from `seq/doc_pos.go`, `frac/lids/table.go` and `frac/disk_blocks_producer.go`.  Each theorem states that a
hand-written model function of C03 equals the translated Go function on the stated domain (the value ranges of
the Go types; Go integers are `Int`s, the models use `Nat`).
-/
namespace SV.Props.C03
open SV.C03 SV.Go
open SV.Extracted.C03

/-- `seq.PackDocPos`, for every uint32 block index and every uint64 offset (panic = `none` on both sides) -/
theorem c03_t_PackDocPos (b off : Nat) (hb : b < 4294967296) (ho : off < 18446744073709551616) :
    T.PackDocPos b off = (packDocPos b off).map Int.ofNat := by
  unfold T.PackDocPos packDocPos
  by_cases h : off > 1073741823
  · have h' : (off : Int) > 1073741823 := by omega
    simp [h, h']
  · have h' : ¬ (off : Int) > 1073741823 := by omega
    have hw : wrapU64 ((b : Int) * 1073741824) = (b : Int) * 2 ^ 30 := by unfold wrapU64; omega
    have hor : bor ((b : Int) * 2 ^ 30) (off : Int) = (b : Int) * 2 ^ 30 + off :=
      bor_shl 30 (by omega) (by omega) (by omega)
    simp only [h, h', if_false, hw, hor, Option.map_some, Option.some.injEq]
    unfold wrapU64; simp only [Int.ofNat_eq_natCast]; omega

/-- `DocPos.Unpack`, for every position that is not 0 (`PackDocPos` never yields 0: `C03.docpos_found`) -/
theorem c03_t_DocPos_Unpack (pos : Nat) (h1 : 1 ≤ pos) (h2 : pos < 18446744073709551616) :
    T.DocPos_Unpack pos = (Int.ofNat (unpackDocPos pos).1, Int.ofNat (unpackDocPos pos).2) := by
  unfold T.DocPos_Unpack unpackDocPos
  have hw : wrapU64 ((pos : Int) - 1) = ((pos - 1 : Nat) : Int) := by unfold wrapU64; omega
  have hm : band (((pos - 1 : Nat) : Int)) 1073741823 = ((pos - 1 : Nat) : Int) % 1073741824 :=
    band_mask 30 (by omega)
  simp only [hw, hm, Prod.mk.injEq, Int.ofNat_eq_natCast]
  constructor
  · unfold wrapU32; omega
  · omega

/-- `Table.GetAdjustedMinTID` inside the table (`i` a valid block index, TIDs are uint32, a continued block
does not start at TID 0 - TIDs start at 1) -/
theorem c03_t_GetAdjustedMinTID (t : Table) (i : Nat) (hi : i < t.minTIDs.length) (hc : i < t.isContinued.length)
    (hr : ∀ x, x ∈ t.minTIDs → x < 4294967296) (h0 : t.isContinued.getD i false = true → 1 ≤ t.minTIDs.getD i 0) :
    T.Table_GetAdjustedMinTID (ints t.minTIDs) t.isContinued i = some (t.adjMin i : Int) := by
  have hlt := hr _ (List.getElem_mem hi)
  rw [getD_of_lt _ _ _ hi, getD_of_lt _ _ _ hc] at h0
  unfold T.Table_GetAdjustedMinTID Table.adjMin
  rw [idx_ints _ _ hi, idx_natCast, getD_of_lt _ _ _ hi, getD_of_lt _ _ _ hc]
  simp only [List.getElem?_eq_getElem hc, Option.bind_some]
  by_cases hb : t.isContinued[i] = true
  · have := h0 hb
    simp only [hb, if_true, Option.some.injEq]
    unfold wrapU32; omega
  · simp [hb]

/-- `Table.GetChunksCount` inside the table, for blocks with `adjMin ≤ maxTID` (every block the generator writes) -/
theorem c03_t_GetChunksCount (t : Table) (i : Nat) (hi : i < t.minTIDs.length) (hc : i < t.isContinued.length)
    (hx : i < t.maxTIDs.length) (hr : ∀ x, x ∈ t.minTIDs → x < 4294967296) (hrx : ∀ x, x ∈ t.maxTIDs → x < 4294967295)
    (h0 : t.isContinued.getD i false = true → 1 ≤ t.minTIDs.getD i 0) (hle : t.adjMin i ≤ t.maxTIDs.getD i 0) :
    T.Table_GetChunksCount (ints t.maxTIDs) (ints t.minTIDs) t.isContinued i = some (t.chunksCount i : Int) := by
  have hlt := hrx _ (List.getElem_mem hx)
  rw [getD_of_lt _ _ _ hx] at hle
  unfold T.Table_GetChunksCount Table.chunksCount
  rw [c03_t_GetAdjustedMinTID t i hi hc hr h0, idx_ints _ _ hx, getD_of_lt _ _ _ hx]
  simp only [Option.bind_some, Option.some.injEq]
  unfold wrapU32; omega

/-- `Table.HasTIDInPrevBlock` for a block index inside the table -/
theorem c03_t_HasTIDInPrevBlock (t : Table) (bi tid : Nat) (hb : bi ≤ t.maxTIDs.length) (hb32 : bi < 4294967296) :
    T.Table_HasTIDInPrevBlock (ints t.maxTIDs) bi tid = some (t.hasPrev bi tid) := by
  unfold T.Table_HasTIDInPrevBlock Table.hasPrev
  by_cases h : bi = 0
  · subst h; simp
  · have h' : ¬ ((bi : Int) = 0) := by omega
    have hw : wrapU32 ((bi : Int) - 1) = ((bi - 1 : Nat) : Int) := by unfold wrapU32; omega
    have hlt : bi - 1 < t.maxTIDs.length := by omega
    rw [if_neg h, if_neg h', hw, idx_ints _ _ hlt, getD_of_lt _ _ _ hlt]
    simp only [Option.bind_some]
    by_cases e : t.maxTIDs[bi - 1] = tid
    · simp [e]
    · have e' : ¬ ((t.maxTIDs[bi - 1] : Int) = (tid : Int)) := by omega
      simp [e, e']

/-- `Table.HasTIDInNextBlock` for a block index inside the table (same hypotheses as `GetAdjustedMinTID` for the
next block) -/
theorem c03_t_HasTIDInNextBlock (t : Table) (bi tid : Nat) (hb : bi < t.minTIDs.length)
    (hlen : t.isContinued.length = t.minTIDs.length) (hl32 : t.minTIDs.length < 4294967296)
    (hr : ∀ x, x ∈ t.minTIDs → x < 4294967296)
    (h0 : t.isContinued.getD (bi + 1) false = true → 1 ≤ t.minTIDs.getD (bi + 1) 0) :
    T.Table_HasTIDInNextBlock (ints t.minTIDs) t.isContinued bi tid = some (t.hasNext bi tid) := by
  unfold T.Table_HasTIDInNextBlock Table.hasNext
  have hl := len_ints t.minTIDs
  have hw : wrapI64 ((t.minTIDs.length : Int) - 1) = ((t.minTIDs.length - 1 : Nat) : Int) := by unfold wrapI64; omega
  rw [hl, hw]
  by_cases h : t.minTIDs.length - 1 = bi
  · have h' : ((t.minTIDs.length - 1 : Nat) : Int) = (bi : Int) := by omega
    simp [h]
  · have h' : ¬ (((t.minTIDs.length - 1 : Nat) : Int) = (bi : Int)) := by omega
    have hw2 : wrapU32 ((bi : Int) + 1) = ((bi + 1 : Nat) : Int) := by unfold wrapU32; omega
    rw [if_neg h, if_neg h', hw2, c03_t_GetAdjustedMinTID t (bi + 1) (by omega) (by omega) hr h0]
    simp only [Option.bind_some]
    by_cases e : t.adjMin (bi + 1) = tid
    · simp [e]
    · have e' : ¬ ((t.adjMin (bi + 1) : Int) = (tid : Int)) := by omega
      simp [e, e']

/-- `Table.GetFirstBlockIndexForTID` (`sort.Search` over `MaxTIDs`; both panics are `none`), for tables of fewer
than 2^32 blocks -/
theorem c03_t_GetFirstBlockIndexForTID (t : Table) (tid : Nat) (hl : t.maxTIDs.length < 4294967296) :
    T.Table_GetFirstBlockIndexForTID (ints t.maxTIDs) tid = (t.firstBlock tid).map Int.ofNat := by
  unfold T.Table_GetFirstBlockIndexForTID Table.firstBlock
  rw [len_ints]
  by_cases h0 : t.maxTIDs.length = 0
  · have h0' : (t.maxTIDs.length : Int) = 0 := by omega
    simp [h0]
  · have h0' : ¬ ((t.maxTIDs.length : Int) = 0) := by omega
    have hs := sortSearch_eq
      (fun i => (idx (ints t.maxTIDs) i).bind fun v0 => some (decide (v0 ≥ (tid : Int))))
      (fun i => decide (t.maxTIDs.getD i 0 ≥ tid)) t.maxTIDs.length (by
        intro i hi
        simp only [idx_ints _ _ hi, Option.bind_some, getD_of_lt _ _ _ hi, Option.some.injEq]
        by_cases hc : t.maxTIDs[i] ≥ tid
        · have : (t.maxTIDs[i] : Int) ≥ (tid : Int) := by omega
          simp [hc, this]
        · have : ¬ (t.maxTIDs[i] : Int) ≥ (tid : Int) := by omega
          simp [hc, this])
    simp only [if_neg h0, if_neg h0', hs, Option.bind_some]
    have hb := SV.searchGo_bounds (fun i => decide (t.maxTIDs.getD i 0 ≥ tid)) 0 t.maxTIDs.length (by omega)
    generalize SV.searchGo (fun i => decide (t.maxTIDs.getD i 0 ≥ tid)) 0 t.maxTIDs.length = ix at *
    by_cases he : ix = t.maxTIDs.length
    · have he' : (ix : Int) = (t.maxTIDs.length : Int) := by omega
      simp [he]
    · have he' : ¬ ((ix : Int) = (t.maxTIDs.length : Int)) := by omega
      simp only [if_neg he, if_neg he', Option.map_some, Option.some.injEq, Int.ofNat_eq_natCast]
      unfold wrapU32; omega

/-- `Table.GetLastBlockIndexForTID` (`sort.Search` over the adjusted minimal TIDs, then `- 1`; an index of -1 and a
TID beyond the block are `none`), for well-shaped tables: the three columns have the same length below 2^32,
TIDs are uint32, a continued block does not start at TID 0 -/
theorem c03_t_GetLastBlockIndexForTID (t : Table) (tid : Nat)
    (hl : t.minTIDs.length < 4294967296) (hlc : t.isContinued.length = t.minTIDs.length)
    (hlx : t.maxTIDs.length = t.minTIDs.length) (hr : ∀ x, x ∈ t.minTIDs → x < 4294967296)
    (h0 : ∀ i, t.isContinued.getD i false = true → 1 ≤ t.minTIDs.getD i 0) :
    T.Table_GetLastBlockIndexForTID (ints t.maxTIDs) (ints t.minTIDs) t.isContinued tid
      = (t.lastBlock tid).map Int.ofNat := by
  unfold T.Table_GetLastBlockIndexForTID Table.lastBlock
  rw [len_ints, len_ints]
  by_cases hz : t.maxTIDs.length = 0
  · have hz' : (t.maxTIDs.length : Int) = 0 := by omega
    simp [hz]
  · have hz' : ¬ ((t.maxTIDs.length : Int) = 0) := by omega
    have hs := sortSearch_eq
      (fun i => (T.Table_GetAdjustedMinTID (ints t.minTIDs) t.isContinued (wrapU32 i)).bind fun v0 =>
        some (decide (v0 > (tid : Int))))
      (fun i => decide (t.adjMin i > tid)) t.minTIDs.length (by
        intro i hi
        have hw : wrapU32 (i : Int) = (i : Int) := by unfold wrapU32; omega
        simp only [hw, c03_t_GetAdjustedMinTID t i hi (by omega) hr (h0 i), Option.bind_some, Option.some.injEq]
        by_cases hc : t.adjMin i > tid
        · have : (t.adjMin i : Int) > (tid : Int) := by omega
          simp [hc, this]
        · have : ¬ (t.adjMin i : Int) > (tid : Int) := by omega
          simp [hc, this])
    simp only [if_neg hz, if_neg hz', hs, Option.bind_some]
    have hb := SV.searchGo_bounds (fun i => decide (t.adjMin i > tid)) 0 t.minTIDs.length (by omega)
    generalize SV.searchGo (fun i => decide (t.adjMin i > tid)) 0 t.minTIDs.length = s at *
    by_cases hs0 : s = 0
    · subst hs0
      have : wrapI64 (((0 : Nat) : Int) - 1) = -1 := by unfold wrapI64; omega
      rw [this, idx_neg _ (by omega)]
      simp
    · have hw : wrapI64 ((s : Int) - 1) = ((s - 1 : Nat) : Int) := by unfold wrapI64; omega
      have hlt : s - 1 < t.maxTIDs.length := by omega
      rw [hw, idx_ints _ _ hlt]
      simp only [Option.bind_some, if_neg hs0, getD_of_lt _ _ _ hlt]
      by_cases hc : tid > t.maxTIDs[s - 1]
      · have : (tid : Int) > (t.maxTIDs[s - 1] : Int) := by omega
        simp [hc, this]
      · have : ¬ (tid : Int) > (t.maxTIDs[s - 1] : Int) := by omega
        simp only [if_neg hc, if_neg this, Option.map_some, Option.some.injEq, Int.ofNat_eq_natCast]
        unfold wrapU32; omega

/-- `seq.LessOrEqual` on IDs given as naturals -/
theorem c03_t_seq_LessOrEqual (a b : ID) : T.LessOrEqual a.1 a.2 b.1 b.2 = idLE a b := by
  unfold T.LessOrEqual idLE
  by_cases h : a.1 = b.1
  · have h' : (a.1 : Int) = (b.1 : Int) := by omega
    by_cases h2 : a.2 ≤ b.2
    · have : (a.2 : Int) ≤ (b.2 : Int) := by omega
      simp [h, h2, this]
    · have : ¬ (a.2 : Int) ≤ (b.2 : Int) := by omega
      simp [h, h2, this]
  · have h' : ¬ ((a.1 : Int) = (b.1 : Int)) := by omega
    by_cases h2 : a.1 < b.1
    · have : (a.1 : Int) < (b.1 : Int) := by omega
      simp [h, h', h2, this]
    · have : ¬ (a.1 : Int) < (b.1 : Int) := by omega
      simp [h, h', h2, this]

/-- `sealedIDsIndex.LessOrEqual(lid, id)` with its two block-minimum short cuts = `C03.lessOrEqual` at
`consts.IDsPerBlock = 4096`.  `GetMID` / `GetRID` (block loads through caches) are uninterpreted parameters of the
translated function; they are instantiated with the values the model's `getMID` / `getRID` yield for this LID
(a valid fraction has both for every LID below `IDsTotal`).  The table's IDs are opaque values read through the
accessors `ID_MID`, `ID_RID`. -/
theorem c03_t_LessOrEqual (t : IDsTable) (blocks : List IDBlockDisk) (lid : Nat) (id : ID) (gm gr : Int → Int) (m r : Nat)
    (hlid : lid < 4294967296)
    (hm : lid < t.idsTotal → getMID 4096 blocks lid = some m) (hgm : gm lid = m)
    (hr : lid < t.idsTotal → getRID 4096 blocks lid = some r) (hgr : gr lid = r) :
    T.sealedIDsIndex_LessOrEqual t.minBlockIDs (t.idsTotal : Int) lid id.1 id.2 (fun p => (p.1 : Int)) (fun p => (p.2 : Int)) gm gr
      = lessOrEqual 4096 t blocks lid id := by
  unfold T.sealedIDsIndex_LessOrEqual lessOrEqual T.IDsLoader_getIDBlockIndexByLID
  by_cases h1 : lid ≥ t.idsTotal
  · have h1' : (lid : Int) ≥ (t.idsTotal : Int) := by omega
    simp only [if_pos h1, if_pos h1']
  · have h1' : ¬ (lid : Int) ≥ (t.idsTotal : Int) := by omega
    have hd : Int.tdiv (lid : Int) 4096 = ((lid / 4096 : Nat) : Int) := tdiv_natCast lid 4096
    simp only [if_neg h1, if_neg h1', hd, idx_natCast]
    cases hb : t.minBlockIDs[lid / 4096]? with
    | none => simp
    | some mn =>
      have e1 := c03_t_seq_LessOrEqual mn id
      simp only [Option.bind_some, e1, hm (by omega), hr (by omega), hgm, hgr]
      cases hmn : idLE mn id with
      | false => simp
      | true =>
        simp only [Bool.not_true, Bool.false_eq_true, if_false, not_true_eq_false]
        have tail : (if (m : Int) = (id.1 : Int) then
              if (id.2 : Int) = 18446744073709551615 then some true else some (decide ((r : Int) ≤ (id.2 : Int)))
            else some (decide ((m : Int) < (id.1 : Int))))
            = (if m = id.1 then if id.2 = 18446744073709551615 then some true else Option.map (fun r => decide (r ≤ id.2)) (some r)
               else some (decide (m < id.1))) := by
          by_cases c1 : m = id.1
          · have c1' : (m : Int) = (id.1 : Int) := by omega
            by_cases c2 : id.2 = 18446744073709551615
            · have c2' : (id.2 : Int) = 18446744073709551615 := by omega
              simp [c1, c2]
            · have c2' : ¬ ((id.2 : Int) = 18446744073709551615) := by omega
              by_cases c3 : r ≤ id.2
              · have : (r : Int) ≤ (id.2 : Int) := by omega
                simp [c1, c2, c2', c3, this]
              · have : ¬ (r : Int) ≤ (id.2 : Int) := by omega
                simp [c1, c2, c2', c3, this]
          · have c1' : ¬ ((m : Int) = (id.1 : Int)) := by omega
            by_cases c3 : m < id.1
            · have : (m : Int) < (id.1 : Int) := by omega
              simp [c1, c1', c3, this]
            · have : ¬ (m : Int) < (id.1 : Int) := by omega
              simp [c1, c1', c3, this]
        by_cases h2 : lid / 4096 > 0
        · have h2' : ((lid / 4096 : Nat) : Int) > 0 := by omega
          have hw : wrapI64 (((lid / 4096 : Nat) : Int) - 1) = ((lid / 4096 - 1 : Nat) : Int) := by unfold wrapI64; omega
          have hlt : lid / 4096 - 1 < t.minBlockIDs.length := by
            have := (List.getElem?_eq_some_iff.mp hb).1; omega
          simp only [if_pos h2', hw, idx_natCast, List.getElem?_eq_getElem hlt, Option.bind_some, c03_t_seq_LessOrEqual,
            prevLE, h2, decide_true, Bool.true_and]
          cases hp : idLE t.minBlockIDs[lid / 4096 - 1] id with
          | true => simp
          | false => simpa using tail
        · have h2' : ¬ ((lid / 4096 : Nat) : Int) > 0 := by omega
          simp only [if_neg h2', h2, decide_false, Bool.false_and, Bool.false_eq_true, if_false]
          exact tail

/-! ## packer: length-prefixed fields -/

private theorem leBytesN4 (n : Nat) : leBytesN 4 n = le32 n := by
  simp [leBytesN, le32, Nat.div_div_eq_div_mul]

private theorem leReadN4 (bs : List Nat) (h : 4 ≤ bs.length) : leReadN 4 bs = unle32 bs := by
  match bs, h with
  | a :: b :: c :: d :: rest, _ => simp [leReadN, unle32]; omega

/-- `BytesPacker.PutUint32`: the scratch buffer (at least 4 bytes; `NewBytesPacker` makes 10) keeps its length and
`Data` grows by `le32 n` -/
theorem c03_t_PutUint32 (buf data : List Nat) (n : Nat) (hb : 4 ≤ buf.length) :
    ∃ buf', buf'.length = buf.length ∧
      T.BytesPacker_PutUint32 (ints buf) (ints data) n = some (ints buf', ints (data ++ le32 n)) := by
  refine ⟨buf.take 0 ++ leBytesN 4 n ++ buf.drop (0 + 4), by simp [leBytesN]; omega, ?_⟩
  unfold T.BytesPacker_PutUint32
  have g1 : ¬ ¬ ((0 : Int) ≤ 0 ∧ (0 : Int) + 4 ≤ len (ints buf) ∧ len (ints buf) ≤ len (ints buf)) := by rw [len_ints]; omega
  have hp := lePut_ints 4 buf 0 n
  simp only [Int.natCast_zero] at hp
  rw [if_neg g1, hp]
  have hl : len (ints (buf.take 0 ++ leBytesN 4 n ++ buf.drop (0 + 4))) = (buf.length : Int) := by
    rw [len_ints]; simp [leBytesN]; omega
  have g2 : ¬ ¬ ((0 : Int) ≤ 0 ∧ (0 : Int) ≤ 4 ∧ (4 : Int) ≤ len (ints (buf.take 0 ++ leBytesN 4 n ++ buf.drop (0 + 4)))) := by
    rw [hl]; omega
  have hs : slice (ints (buf.take 0 ++ leBytesN 4 n ++ buf.drop (0 + 4))) 0 4 = ints (le32 n) := by
    have := slice_ints (buf.take 0 ++ leBytesN 4 n ++ buf.drop (0 + 4)) 0 4
    have e : slice (ints (buf.take 0 ++ leBytesN 4 n ++ buf.drop (0 + 4))) 0 4
        = ints (((buf.take 0 ++ leBytesN 4 n ++ buf.drop (0 + 4)).take 4).drop 0) := this
    rw [e, ← leBytesN4]; simp [leBytesN]
  simp only []
  split
  · rename_i hc; rw [hl] at hc; omega
  · rw [hs]; simp only [ints_append]

/-- `BytesPacker.PutStringWithSize` = the model's `putStr` (strings shorter than 2^32) -/
theorem c03_t_PutStringWithSize (buf data s : List Nat) (hb : 4 ≤ buf.length) (hs : s.length < 4294967296) :
    ∃ buf', buf'.length = buf.length ∧
      T.BytesPacker_PutStringWithSize (ints buf) (ints data) (ints s) = some (ints buf', ints (data ++ putStr s)) := by
  obtain ⟨buf', hl, he⟩ := c03_t_PutUint32 buf data s.length hb
  refine ⟨buf', hl, ?_⟩
  unfold T.BytesPacker_PutStringWithSize
  have hw : wrapU32 (len (ints s)) = (s.length : Int) := by rw [len_ints]; unfold wrapU32; omega
  rw [hw, he]
  simp only [Option.bind_some, putStr, ints_append, List.append_assoc]

/-- `BytesUnpacker.GetUint32` = `getU32` (a buffer shorter than 4 bytes panics) -/
theorem c03_t_GetUint32 (bs : List Nat) (h : 4 ≤ bs.length) :
    T.BytesUnpacker_GetUint32 (ints bs) = some (((getU32 bs).1 : Int), ints (getU32 bs).2) := by
  unfold T.BytesUnpacker_GetUint32 getU32
  have g1 : ¬ ¬ ((4 : Int) ≤ len (ints bs)) := by rw [len_ints]; omega
  have g2 : ¬ ¬ ((0 : Int) ≤ 4 ∧ (4 : Int) ≤ len (ints bs) ∧ len (ints bs) ≤ len (ints bs)) := by rw [len_ints]; omega
  have hs : slice (ints bs) 4 (len (ints bs)) = ints (bs.drop 4) := by
    rw [len_ints]; have := slice_ints bs 4 bs.length; simpa using this
  simp only [if_neg g1, if_neg g2, hs, leRead_ints, leReadN4 bs h]

/-- `BytesUnpacker.GetBinary` = `getBinary` when the announced length fits the rest of the buffer (else it panics) -/
theorem c03_t_GetBinary (bs : List Nat) (h : 4 ≤ bs.length) (hl : unle32 bs ≤ bs.length - 4) :
    T.BytesUnpacker_GetBinary (ints bs) = some (ints (getBinary bs).1, ints (getBinary bs).2) := by
  unfold T.BytesUnpacker_GetBinary getBinary
  rw [c03_t_GetUint32 bs h]
  simp only [Option.bind_some, getU32]
  have hlen : len (ints (bs.drop 4)) = ((bs.length - 4 : Nat) : Int) := by rw [len_ints]; simp
  have g1 : ¬ ¬ ((0 : Int) ≤ 0 ∧ (0 : Int) ≤ (unle32 bs : Int) ∧ (unle32 bs : Int) ≤ len (ints (bs.drop 4))) := by rw [hlen]; omega
  have g2 : ¬ ¬ ((0 : Int) ≤ (unle32 bs : Int) ∧ (unle32 bs : Int) ≤ len (ints (bs.drop 4)) ∧ len (ints (bs.drop 4)) ≤ len (ints (bs.drop 4))) := by
    rw [hlen]; omega
  have s1 : slice (ints (bs.drop 4)) 0 (unle32 bs : Int) = ints ((bs.drop 4).take (unle32 bs)) := by
    have := slice_ints (bs.drop 4) 0 (unle32 bs); simpa using this
  have s2 : slice (ints (bs.drop 4)) (unle32 bs : Int) (len (ints (bs.drop 4))) = ints ((bs.drop 4).drop (unle32 bs)) := by
    rw [hlen]; have := slice_ints (bs.drop 4) (unle32 bs) (bs.length - 4)
    rw [this]; congr 1
    rw [List.take_of_length_le (by simp)]
  simp only [if_neg g1, if_neg g2, s1, s2]

/-- `bsNew` / the token block size rule `max(1, len(tids)/(fieldSize/RegularBlockSize+1))`, for every token list
and every field size an `int` can hold -/
theorem c03_t_blockSize (fieldSize : Nat) (tids : List Int) (hf : fieldSize < 9223372036854775807)
    (hl : tids.length < 9223372036854775808) :
    T.blockSize fieldSize tids = some (bsNew tids.length (fieldSize / 16384 + 1) : Int) := by
  unfold T.blockSize bsNew len
  have h1 : Int.tdiv (fieldSize : Int) 16384 = ((fieldSize / 16384 : Nat) : Int) := tdiv_natCast fieldSize 16384
  have h2 : wrapI64 (((fieldSize / 16384 : Nat) : Int) + 1) = ((fieldSize / 16384 + 1 : Nat) : Int) := by
    unfold wrapI64; omega
  have hne : ¬ ¬ (((fieldSize / 16384 + 1 : Nat) : Int) ≠ 0) := by omega
  have h3 : Int.tdiv (tids.length : Int) ((fieldSize / 16384 + 1 : Nat) : Int)
      = ((tids.length / (fieldSize / 16384 + 1) : Nat) : Int) := tdiv_natCast _ _
  have hle : tids.length / (fieldSize / 16384 + 1) ≤ tids.length := Nat.div_le_self _ _
  have h4 : wrapI64 ((tids.length / (fieldSize / 16384 + 1) : Nat) : Int) = ((tids.length / (fieldSize / 16384 + 1) : Nat) : Int) :=
    wrapI64_natCast (by omega)
  simp only [h1, h2, if_neg hne, h3, h4, Option.some.injEq]
  omega

/-- non-vacuity of the table hypotheses: the two-block table of `C03.tableOf` examples -/
example : let t : Table := ⟨[1, 3], [3, 5], [false, true]⟩
    T.Table_GetChunksCount (ints t.maxTIDs) (ints t.minTIDs) t.isContinued 1 = some 4 ∧ t.chunksCount 1 = 4 := by decide

end SV.Props.C03
