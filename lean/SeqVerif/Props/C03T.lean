import SeqVerif.Model.C03Codec
import SeqVerif.Model.C03Lids
import SeqVerif.Model.C03Tokens
import SeqVerif.Extracted.C03T
/-!
# C03 - hand models = mechanical translations of the Go source (regenerated on every run)

`SV.Extracted.C03.T` is produced by `extract/cmd/c03t` (translator `extract/xlate`, prelude `Base/GoInt.lean`)
from `seq/doc_pos.go`, `frac/lids/table.go` and `frac/disk_blocks_producer.go`.  Each theorem states that a
hand-written model function of C03 equals the translated Go function on the stated domain (the value ranges of
the Go types; Go integers are `Int`s, the models use `Nat`).
-/
namespace SV.Props.C03
open SV.C03 SV.Go
open SV.Extracted.C03

/-- `seq.PackDocPos`, for every uint32 block index and every uint64 offset (panic = `none` on both sides) -/
theorem c03_t_PackDocPos (b off : Nat) (hb : b < 4294967296) (ho : off < 18446744073709551616) :
    T.PackDocPos b off = (packDocPos b off).map Int.ofNat := by
  unfold T.PackDocPos packDocPos
  by_cases h : off > 1073741823
  · have h' : (off : Int) > 1073741823 := by omega
    simp [h, h']
  · have h' : ¬ (off : Int) > 1073741823 := by omega
    have hw : wrapU64 ((b : Int) * 1073741824) = (b : Int) * 2 ^ 30 := by unfold wrapU64; omega
    have hor : bor ((b : Int) * 2 ^ 30) (off : Int) = (b : Int) * 2 ^ 30 + off :=
      bor_shl 30 (by omega) (by omega) (by omega)
    simp only [h, h', if_false, hw, hor, Option.map_some, Option.some.injEq]
    unfold wrapU64; simp only [Int.ofNat_eq_natCast]; omega

/-- `DocPos.Unpack`, for every position that is not 0 (`PackDocPos` never yields 0: `C03.docpos_found`) -/
theorem c03_t_DocPos_Unpack (pos : Nat) (h1 : 1 ≤ pos) (h2 : pos < 18446744073709551616) :
    T.DocPos_Unpack pos = (Int.ofNat (unpackDocPos pos).1, Int.ofNat (unpackDocPos pos).2) := by
  unfold T.DocPos_Unpack unpackDocPos
  have hw : wrapU64 ((pos : Int) - 1) = ((pos - 1 : Nat) : Int) := by unfold wrapU64; omega
  have hm : band (((pos - 1 : Nat) : Int)) 1073741823 = ((pos - 1 : Nat) : Int) % 1073741824 :=
    band_mask 30 (by omega)
  simp only [hw, hm, Prod.mk.injEq, Int.ofNat_eq_natCast]
  constructor
  · unfold wrapU32; omega
  · omega

/-- `Table.GetAdjustedMinTID` inside the table (`i` a valid block index, TIDs are uint32, a continued block
does not start at TID 0 - TIDs start at 1) -/
theorem c03_t_GetAdjustedMinTID (t : Table) (i : Nat) (hi : i < t.minTIDs.length) (hc : i < t.isContinued.length)
    (hr : ∀ x, x ∈ t.minTIDs → x < 4294967296) (h0 : t.isContinued.getD i false = true → 1 ≤ t.minTIDs.getD i 0) :
    T.Table_GetAdjustedMinTID (ints t.minTIDs) t.isContinued i = some (t.adjMin i : Int) := by
  have hlt := hr _ (List.getElem_mem hi)
  rw [getD_of_lt _ _ _ hi, getD_of_lt _ _ _ hc] at h0
  unfold T.Table_GetAdjustedMinTID Table.adjMin
  rw [idx_ints _ _ hi, idx_natCast, getD_of_lt _ _ _ hi, getD_of_lt _ _ _ hc]
  simp only [List.getElem?_eq_getElem hc, Option.bind_some]
  by_cases hb : t.isContinued[i] = true
  · have := h0 hb
    simp only [hb, if_true, Option.some.injEq]
    unfold wrapU32; omega
  · simp [hb]

/-- `Table.GetChunksCount` inside the table, for blocks with `adjMin ≤ maxTID` (every block the generator writes) -/
theorem c03_t_GetChunksCount (t : Table) (i : Nat) (hi : i < t.minTIDs.length) (hc : i < t.isContinued.length)
    (hx : i < t.maxTIDs.length) (hr : ∀ x, x ∈ t.minTIDs → x < 4294967296) (hrx : ∀ x, x ∈ t.maxTIDs → x < 4294967295)
    (h0 : t.isContinued.getD i false = true → 1 ≤ t.minTIDs.getD i 0) (hle : t.adjMin i ≤ t.maxTIDs.getD i 0) :
    T.Table_GetChunksCount (ints t.maxTIDs) (ints t.minTIDs) t.isContinued i = some (t.chunksCount i : Int) := by
  have hlt := hrx _ (List.getElem_mem hx)
  rw [getD_of_lt _ _ _ hx] at hle
  unfold T.Table_GetChunksCount Table.chunksCount
  rw [c03_t_GetAdjustedMinTID t i hi hc hr h0, idx_ints _ _ hx, getD_of_lt _ _ _ hx]
  simp only [Option.bind_some, Option.some.injEq]
  unfold wrapU32; omega

/-- `Table.HasTIDInPrevBlock` for a block index inside the table -/
theorem c03_t_HasTIDInPrevBlock (t : Table) (bi tid : Nat) (hb : bi ≤ t.maxTIDs.length) (hb32 : bi < 4294967296) :
    T.Table_HasTIDInPrevBlock (ints t.maxTIDs) bi tid = some (t.hasPrev bi tid) := by
  unfold T.Table_HasTIDInPrevBlock Table.hasPrev
  by_cases h : bi = 0
  · subst h; simp
  · have h' : ¬ ((bi : Int) = 0) := by omega
    have hw : wrapU32 ((bi : Int) - 1) = ((bi - 1 : Nat) : Int) := by unfold wrapU32; omega
    have hlt : bi - 1 < t.maxTIDs.length := by omega
    rw [if_neg h, if_neg h', hw, idx_ints _ _ hlt, getD_of_lt _ _ _ hlt]
    simp only [Option.bind_some]
    by_cases e : t.maxTIDs[bi - 1] = tid
    · simp [e]
    · have e' : ¬ ((t.maxTIDs[bi - 1] : Int) = (tid : Int)) := by omega
      simp [e, e']

/-- `Table.HasTIDInNextBlock` for a block index inside the table (same hypotheses as `GetAdjustedMinTID` for the
next block) -/
theorem c03_t_HasTIDInNextBlock (t : Table) (bi tid : Nat) (hb : bi < t.minTIDs.length)
    (hlen : t.isContinued.length = t.minTIDs.length) (hl32 : t.minTIDs.length < 4294967296)
    (hr : ∀ x, x ∈ t.minTIDs → x < 4294967296)
    (h0 : t.isContinued.getD (bi + 1) false = true → 1 ≤ t.minTIDs.getD (bi + 1) 0) :
    T.Table_HasTIDInNextBlock (ints t.minTIDs) t.isContinued bi tid = some (t.hasNext bi tid) := by
  unfold T.Table_HasTIDInNextBlock Table.hasNext
  have hl := len_ints t.minTIDs
  have hw : wrapI64 ((t.minTIDs.length : Int) - 1) = ((t.minTIDs.length - 1 : Nat) : Int) := by unfold wrapI64; omega
  rw [hl, hw]
  by_cases h : t.minTIDs.length - 1 = bi
  · have h' : ((t.minTIDs.length - 1 : Nat) : Int) = (bi : Int) := by omega
    simp [h]
  · have h' : ¬ (((t.minTIDs.length - 1 : Nat) : Int) = (bi : Int)) := by omega
    have hw2 : wrapU32 ((bi : Int) + 1) = ((bi + 1 : Nat) : Int) := by unfold wrapU32; omega
    rw [if_neg h, if_neg h', hw2, c03_t_GetAdjustedMinTID t (bi + 1) (by omega) (by omega) hr h0]
    simp only [Option.bind_some]
    by_cases e : t.adjMin (bi + 1) = tid
    · simp [e]
    · have e' : ¬ ((t.adjMin (bi + 1) : Int) = (tid : Int)) := by omega
      simp [e, e']

/-- `bsNew` / the token block size rule `max(1, len(tids)/(fieldSize/RegularBlockSize+1))`, for every token list
and every field size an `int` can hold -/
theorem c03_t_blockSize (fieldSize : Nat) (tids : List Int) (hf : fieldSize < 9223372036854775807)
    (hl : tids.length < 9223372036854775808) :
    T.blockSize fieldSize tids = some (bsNew tids.length (fieldSize / 16384 + 1) : Int) := by
  unfold T.blockSize bsNew len
  have h1 : Int.tdiv (fieldSize : Int) 16384 = ((fieldSize / 16384 : Nat) : Int) := tdiv_natCast fieldSize 16384
  have h2 : wrapI64 (((fieldSize / 16384 : Nat) : Int) + 1) = ((fieldSize / 16384 + 1 : Nat) : Int) := by
    unfold wrapI64; omega
  have hne : ¬ ¬ (((fieldSize / 16384 + 1 : Nat) : Int) ≠ 0) := by omega
  have h3 : Int.tdiv (tids.length : Int) ((fieldSize / 16384 + 1 : Nat) : Int)
      = ((tids.length / (fieldSize / 16384 + 1) : Nat) : Int) := tdiv_natCast _ _
  have hle : tids.length / (fieldSize / 16384 + 1) ≤ tids.length := Nat.div_le_self _ _
  have h4 : wrapI64 ((tids.length / (fieldSize / 16384 + 1) : Nat) : Int) = ((tids.length / (fieldSize / 16384 + 1) : Nat) : Int) :=
    wrapI64_natCast (by omega)
  simp only [h1, h2, if_neg hne, h3, h4, Option.some.injEq]
  omega

/-- non-vacuity of the table hypotheses: the two-block table of `C03.tableOf` examples -/
example : let t : Table := ⟨[1, 3], [3, 5], [false, true]⟩
    T.Table_GetChunksCount (ints t.maxTIDs) (ints t.minTIDs) t.isContinued 1 = some 4 ∧ t.chunksCount 1 = 4 := by decide

end SV.Props.C03
