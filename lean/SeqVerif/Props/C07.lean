import SeqVerif.Model.ProxyFracInv
import SeqVerif.Model.ActiveConcQuiet
import SeqVerif.Model.C07Cfg
import SeqVerif.Model.FetchArrange
import SeqVerif.Model.FileWriter
/-!
# C07 - concurrent ingest, search, fetch, sealing and rotation never corrupt readers

Partial by nature: a proof cannot exhibit a data race or a scheduler.  What is logic is modelled as two
transition systems whose steps are the code's critical sections (`Model/ProxyFrac.lean`: the
Active -> Sealing -> Sealed -> Suicided hand-over with its two WaitGroups and the two `useMu` locks;
`Model/ActiveConc.lean`: index workers and data providers of one active fraction).  Every theorem below
quantifies over ALL reachable states, i.e. over every interleaving of any number of appenders, readers, index
workers, the sealer and the suicider - at the granularity of those steps.  Not covered: races inside a step,
Go memory-model effects, real time.  The steps themselves are tied to the code by the extracted operation
orders (`c07_x_*` below), by trace validation (the hooks log every step, the driver replays the log through
`step`) and by a `-race` workload.

Only property theorems, extracted-fact obligations and witnesses live in this file.
-/
namespace SV.Props.C07
open SV

/-! ## proxyFrac -/
section ProxyFrac
open SV.ProxyFrac

/-- **proxyFrac_states.**  Only the four states of the table in `proxy_frac.go` are reachable: Active&Writable,
Sealing, Sealed, Suicided (both pointers nil).  In particular both pointers are never set together and a sealed
fraction is read-only. -/
theorem c07_proxyFrac_states (fx : Bool) (s : St) (h : Reachable fx s) :
    (s.active = true ∧ s.sealed = false ∧ s.readonly = false) ∨
    (s.active = true ∧ s.sealed = false ∧ s.readonly = true) ∨
    (s.active = false ∧ s.sealed = true ∧ s.readonly = true) ∨
    (s.active = false ∧ s.sealed = false) := by
  have hi := inv_reachable fx s h
  have h1 := hi.notBoth
  have h2 := hi.sealedRo
  cases ha : s.active <;> cases hb : s.sealed <;> cases hc : s.readonly <;> simp_all

/-- The table's last row claims `readonly = true` for Suicided; `trySetSuicided` does not set it, so suiciding a
writable fraction reaches (nil, nil, false).  Harmless: every test in the code is `isSuicidedState`, which does not
read `readonly`. -/
theorem c07_proxyFrac_states_fifth_row :
    ∀ fx, ∃ s, Reachable fx s ∧ s.active = false ∧ s.sealed = false ∧ s.readonly = false :=
  fun _ => ⟨_, ⟨[.suTry true false false], rfl⟩, by decide⟩

/-- **no_lost_append.**  (a) `active.Append` never runs on an Active that `Seal` has released; (b) once
`frac.Seal` has read the index, every `Append` that passed the state check and did not return a write error
(`begun - failedW` = the appends that returned nil) is in what it read, nothing is pending and no further `Append`
can pass the check (the fraction is read-only). -/
theorem c07_no_lost_append (fx : Bool) (s : St) (h : Reachable fx s) :
    s.lostWrites = 0 ∧
    (s.sealPc = .built ∨ s.sealPc = .published ∨ s.sealPc = .releasing ∨ s.sealPc = .finished →
      s.sealedDocs + s.failedW = s.begun ∧ s.pendW = 0 ∧ s.queued = 0 ∧ s.isActive = false) := by
  have hi := inv_reachable fx s h
  refine ⟨hi.lost, ?_⟩
  have hw := hi.wg
  have hc := hi.cnt
  have hs := hi.sealI
  intro hpc
  rcases hpc with e | e | e | e <;> simp only [SealInv, e] at hs <;> cases fx <;> simp at hw <;>
    (refine ⟨by omega, by omega, by omega, ?_⟩; simp [St.isActive, hs])

/-- an Active is suicided directly only when `Suicide` met the fraction in the Active&Writable state (it never
happened to a fraction whose sealing had begun); this is the one way an accepted `Append` can hit a deleted
Active (`suicidedWrites`), and it needs `FracManager.shrinkSizes` to evict the fraction it is writing to -/
theorem c07_active_suicide_only_when_writable (fx : Bool) (s : St) (h : Reachable fx s) :
    (s.aSuicided = true → s.sealPc = .idle) ∧ (0 < s.suicidedWrites → s.aSuicided = true) := by
  have hi := inv_reachable fx s h
  refine ⟨?_, hi.sw⟩
  intro ha
  have hs := hi.sealI
  cases e : s.sealPc <;> simp_all [SealInv]

/-- **dp_valid.**  While a data provider of the Active is held the Active is neither released nor suicided;
while one of the Sealed is held the Sealed is not suicided.  (The third kind is `EmptyDataProvider`.) -/
theorem c07_dp_valid (fx : Bool) (s : St) (h : Reachable fx s) :
    (0 < s.aReaders → s.aReleased = false ∧ s.aSuicided = false) ∧ (0 < s.sReaders → s.sSuicided = false) := by
  have hi := inv_reachable fx s h
  refine ⟨fun hr => ?_, hi.sr⟩
  have h1 := hi.ar hr
  refine ⟨h1, ?_⟩
  have hs := hi.sealI
  have hu := hi.suI
  cases e : s.sealPc <;> simp_all [SealInv]

/-- and a provider can only be handed out for a live object -/
theorem c07_dp_acquire_valid (fx : Bool) (s s' : St) :
    (step fx s (.dpAcquire .active) = some s' → s.active = true ∧ s.aReleased = false ∧ s.aSuicided = false) ∧
    (step fx s (.dpAcquire .sealed) = some s' → s.sealed = true ∧ s.sSuicided = false) := by
  constructor <;> intro hs <;> simp only [step] at hs <;> split at hs <;> simp_all

/-- **suicide_waits_seal.**  The second `trySetSuicided` (after `sealWg.Wait()`) never finds the fraction
sealing, so it always takes the pointers - the comment "next attempt after Wait() should be successful" holds. -/
theorem c07_suicide_waits_seal (fx : Bool) (s s' : St) (a sl sg : Bool) (h : Reachable fx s)
    (hs : step fx s (.suRetry a sl sg) = some s') : sg = false ∧ s'.active = false ∧ s'.sealed = false := by
  have hi := inv_reachable fx s h
  have hi' := inv_step fx s _ s' hi hs
  have hu' := hi'.suI
  simp only [step] at hs
  split at hs
  · rename_i hc
    cases hs
    simp only [Bool.and_eq_true, Bool.not_eq_true', decide_eq_true_eq] at hc
    have hu := hi.suI
    have hse := hi.sealI
    simp only [SuInv, hc.1.1.1.2] at hu
    have : s.isSealing = false := by
      cases e : s.sealPc <;> simp_all [SealInv, St.isSealing]
    refine ⟨by rw [hc.2, this], ?_⟩
    simp [trySet, this]
  · cases hs

/-- **Defect (deadlock).**  When `writer.Write` fails, `Active.Append` returns the error before `indexer.Index`
is called, so nobody calls `Done` on the `indexWg` that `proxyFrac.Append` incremented: `WaitWriteIdle` can never
return and sealing never gets past it (and `Suicide`, which waits for the sealer, hangs with it). -/
theorem c07_write_error_blocks_seal (s : St) (h : Reachable false s) (hf : 0 < s.failedW) :
    s.sealPc = .idle ∨ s.sealPc = .waitIdle := by
  have hi := inv_reachable false s h
  have hw := hi.wg
  have hs := hi.sealI
  cases e : s.sealPc <;> simp_all [SealInv] <;> omega

/-- the hypothesis is reachable: one append whose write fails, then `Seal` starts and waits forever -/
theorem c07_write_error_witness :
    ∃ s, Reachable false s ∧ 0 < s.failedW ∧ s.sealPc = .waitIdle ∧ step false s .sealIdle = none :=
  ⟨_, ⟨[.appendBegin, .appendWriteErr, .sealBegin], rfl⟩, by decide⟩

/-- without write errors the WaitGroup is exact: it counts the appends that are still in flight -/
theorem c07_indexWg_exact (fx : Bool) (s : St) (h : Reachable fx s) (hf : fx = true ∨ s.failedW = 0) :
    s.indexWg = s.pendW + s.queued := by
  have := (inv_reachable fx s h).wg
  rcases hf with rfl | hf
  · simpa using this.symm
  · cases fx <;> simp_all <;> omega

/-- **the repaired `Append`** (`fx = true`: `indexWg.Done()` on the error path): a failed write no longer blocks
sealing - whenever the sealer waits and no append is in flight, `WaitWriteIdle` returns -/
theorem c07_seal_not_blocked_fixed (s : St) (h : Reachable true s) (hpc : s.sealPc = .waitIdle) (hf : s.fatal = false)
    (h1 : s.pendW = 0) (h2 : s.queued = 0) : ∃ s', step true s .sealIdle = some s' := by
  have := c07_indexWg_exact true s h (Or.inl rfl)
  simp [step, hpc, hf, this, h1, h2]

/-- non-vacuity: a full life cycle with concurrent appends and readers is a path of the system -/
example : ∀ fx, ∃ s, run fx init [.appendBegin, .dpAcquire .empty, .appendWrite, .appendBegin, .indexDone, .dpAcquire .active,
    .sealBegin, .appendFail, .suTry true false true, .appendWrite, .indexDone, .sealIdle, .sealBuilt, .sealPublish,
    .dpAcquire .sealed, .sealWgDone, .suWoken, .dpRelease .active, .sealRelease, .suRetry false true false,
    .dpRelease .sealed, .suSealed] = some s ∧ s.sealedDocs = 2 ∧ s.sSuicided = true := by decide

end ProxyFrac

/-! ## active index: writers vs readers -/
section ActiveConc
open SV.ActiveConc

/-- **reader_sound, negation-free queries, every configuration** (also the code as first read).  For every
interleaving of any number of index workers and readers: every LID a search returns is the LID of a document of a
submitted bulk, lies inside the published [From, To] and inside the requested range, already has its position stored
with a block index below the current `DocBlocks` length (so an immediate fetch through a new provider finds it), and
satisfies the query.  For queries with NOT this is false unless `_all_` is queued last AND `TokenList.Append` is one
critical section (`c07_reader_unsound_not`, `c07_reader_unsound_dict`); with both it holds for every query:
`c07_reader_sound_partial` below. -/
theorem c07_reader_sound_positive (c : Cfg) (s : St) (h : Reachable c s) (i l : Nat) (hl : l ∈ (s.rs i).result) :
    ∃ d, s.sh.ids[l]? = some d ∧ d ∈ s.sh.submitted ∧ inR s.sh.range d.mid = true ∧
      (s.rs i).qfrom ≤ d.mid ∧ d.mid ≤ (s.rs i).qto ∧
      (∃ b off, s.sh.pos.lookup d.id = some (b, off) ∧ b < s.sh.blocks) ∧
      ((s.rs i).q.positive = true → sat (s.rs i).q d = true) := by
  have hi := inv_reachable c s h
  obtain ⟨_, d, hd, hr, h1, h2, h3⟩ := (hi.rs i).res l hl
  have hmem : d ∈ s.sh.ids := List.mem_of_getElem? hd
  obtain ⟨p, hp⟩ := hi.sh.idsPos d hmem
  obtain ⟨b, off⟩ := p
  exact ⟨d, hd, hi.sh.idsSub d hmem, (hi.rs i).range _ hr, h1, h2, ⟨b, off, hp, hi.sh.posOk _ b off hp⟩, h3⟩

/-- **reader_sound.**  FULL STATEMENT (for the configuration of the tree, `SV.C07.cfg`): for every interleaving of any
number of index workers and readers and EVERY query (negations included), each LID a search returns belongs to a
document of a submitted bulk, lies inside the published [From, To] and the requested range, has its position stored
below the current `DocBlocks` length, and the document satisfies the query.
PROVED HERE under the extra hypothesis `c.tlLock = true` (`TokenList.Append` is one critical section, i.e. no token
is being registered while another `Append` that met it as existing publishes documents), together with
`c.allLast = true` (in the tree since fix cfd4713).  MISSING for the tree: `SV.C07.cfg.tlLock = false` - the open
finding c07-token-registration-race; without it the statement is false (`c07_reader_unsound_dict`).  For
negation-free queries it holds in every configuration (`c07_reader_sound_positive`). -/
theorem c07_reader_sound_partial (c : Cfg) (hc : c.allLast = true ∧ c.tlLock = true) (s : St) (h : Reachable c s) (i l : Nat)
    (hl : l ∈ (s.rs i).result) :
    ∃ d, s.sh.ids[l]? = some d ∧ d ∈ s.sh.submitted ∧ inR s.sh.range d.mid = true ∧
      (s.rs i).qfrom ≤ d.mid ∧ d.mid ≤ (s.rs i).qto ∧
      (∃ b off, s.sh.pos.lookup d.id = some (b, off) ∧ b < s.sh.blocks) ∧ sat (s.rs i).q d = true := by
  obtain ⟨d, h1, h2, h3, h4, h5, h6, _⟩ := c07_reader_sound_positive c s h i l hl
  refine ⟨d, h1, h2, h3, h4, h5, h6, ?_⟩
  obtain ⟨hi, hi2⟩ := inv2_reachable c hc s h
  have hdone : (s.rs i).pc = .done := by
    cases e : (s.rs i).pc <;> first | rfl | (have := (hi.rs i).noRes (by simp [e]); rw [this] at hl; cases hl)
  have hmap := ((hi.rs i).res l hl).1
  exact (((hi2.rs i).res hdone l hmap d h1).mp hl).2.2.2

/-- ... and nothing of the snapshot is missed: a finished search returns EXACTLY the documents of its mapping
snapshot that are in range and satisfy the query (so two searches over the same snapshot agree, whatever the writers
did in between - the reader-side half of `quiescent_eq_sequential`) -/
theorem c07_reader_exact_partial (c : Cfg) (hc : c.allLast = true ∧ c.tlLock = true) (s : St) (h : Reachable c s) (i l : Nat)
    (d : Doc) (hpc : (s.rs i).pc = .done) (hl : l ∈ (s.rs i).mapping) (hd : s.sh.ids[l]? = some d) :
    l ∈ (s.rs i).result ↔
      (inR (s.rs i).range d.mid = true ∧ (s.rs i).qfrom ≤ d.mid ∧ d.mid ≤ (s.rs i).qto ∧ sat (s.rs i).q d = true) :=
  ((inv2_reachable c hc s h).2.rs i).res hpc l hl d hd

/-- what `_all_` shows is complete: every LID visible in `_all_` is already in the list of every token of its document,
and those tokens can be found by readers (repaired code) - the writer-side half -/
theorem c07_all_implies_tokens_partial (c : Cfg) (hc : c.allLast = true ∧ c.tlLock = true) (s : St) (h : Reachable c s)
    (l : Nat) (d : Doc) (hl : l ∈ s.sh.all) (hd : s.sh.ids[l]? = some d) (t : Nat) (ht : t ∈ d.toks) :
    l ∈ s.sh.tok t ∧ t ∈ s.sh.dict :=
  (inv2_reachable c hc s h).2.sh.allTok l d hl hd t ht

/-- **quiescent, writer side** (every configuration).  Once every index worker that took a task has called
`Wg.Done` (all writers idle or done), every document that got a LID is listed in `_all_` and its MID is inside the
published [From, To]: all acknowledged documents are visible. -/
theorem c07_quiescent_visible (c : Cfg) (s : St) (h : Reachable c s)
    (hq : ∀ i, (s.ws i).pc = .idle ∨ (s.ws i).pc = .done) (l : Nat) (d : Doc) (hd : s.sh.ids[l]? = some d) :
    l ∈ s.sh.all ∧ inR s.sh.range d.mid = true := by
  have h3 := inv3_reachable c s h
  have hi := inv_reachable c s h
  have hl : l < s.sh.ids.length := by
    rcases Nat.lt_or_ge l s.sh.ids.length with h' | h'
    · exact h'
    · rw [List.getElem?_eq_none h'] at hd; cases hd
  obtain ⟨i, k, a1, a2, a3⟩ := h3.owner l hl
  have hdone : (s.ws i).pc = .done := by
    rcases hq i with e | e
    · simp [afterIds, e] at a1
    · exact e
  have hf : finished (s.ws i).pc := Or.inr hdone
  refine ⟨a2 ▸ h3.allDone i hf k a3, ?_⟩
  have hdk : (s.ws i).docs[k]? = some (s.ws i).docs[k] := by simp [a3]
  have := (hi.ws i).2.2.2.1 (by simp [hdone]) (by simp [hdone]) (by simp [hdone]) (by simp [hdone]) k _ hdk
  rw [a2, hd] at this
  cases this
  exact h3.rangeDone i hf _ (List.getElem_mem a3)

/-- **quiescent_eq_sequential** (set level; `_partial`: proved under `c.tlLock = true`, see `c07_reader_sound_partial`).  In a quiescent state, a finished search whose snapshots
were taken in that state (its mapping is the current `_all_`, its Info copy the current range) returns EXACTLY the
LIDs of the documents that are in the requested range and satisfy the query - a function of the set of indexed
documents only, not of the order or interleaving in which the bulks arrived. -/
theorem c07_quiescent_eq_sequential_partial (c : Cfg) (hc : c.allLast = true ∧ c.tlLock = true) (s : St) (h : Reachable c s)
    (hq : ∀ i, (s.ws i).pc = .idle ∨ (s.ws i).pc = .done) (i : Nat) (hpc : (s.rs i).pc = .done)
    (hmap : (s.rs i).mapping = s.sh.all) (hrange : (s.rs i).range = s.sh.range) (l : Nat) (d : Doc)
    (hd : s.sh.ids[l]? = some d) :
    l ∈ (s.rs i).result ↔ ((s.rs i).qfrom ≤ d.mid ∧ d.mid ≤ (s.rs i).qto ∧ sat (s.rs i).q d = true) := by
  obtain ⟨hall, hin⟩ := c07_quiescent_visible c s h hq l d hd
  have := c07_reader_exact_partial c hc s h i l d hpc (by rw [hmap]; exact hall) hd
  rw [hrange] at this
  rw [this]
  constructor
  · rintro ⟨_, a, b, c'⟩; exact ⟨a, b, c'⟩
  · rintro ⟨a, b, c'⟩; exact ⟨hin, a, b, c'⟩

/-- non-vacuity: two bulks indexed by two workers in an interleaved order, then a `NOT` search in the quiescent state -/
example : ∃ s, run ⟨true, true, true⟩ init
    [.wNew 0 [⟨3, 1, [5]⟩], .wNew 1 [⟨4, 1, [6]⟩], .wBlock 1, .wBlock 0, .wPos 0, .wPos 1, .wIds 1, .wIds 0, .wTokGet 0, .wToks 0,
     .wTokGet 1, .wQueue 0, .wToks 1, .wQueue 1, .wQueue 1, .wQueue 0, .wStats 1, .wStats 0, .wDone 0, .wDone 1,
     .rNew 0 (.not (.tok 5)) 0 10, .rInfo 0, .rBlocks 0, .rMapping 0, .rMids 0, .rRids 0, .rLeaf 0, .rEval 0] = some s ∧
    (∀ i, i < 2 → (s.ws i).pc = .done) ∧ (s.rs 0).mapping = s.sh.all ∧ (s.rs 0).range = s.sh.range ∧
    (s.rs 0).result = [0] ∧ s.sh.ids[0]? = some ⟨4, 1, [6]⟩ := by decide

/-- non-vacuity of the full theorem: with the repaired configuration the schedule of `c07_reader_unsound_not` is still a
path, and the reader now returns nothing for `NOT 5` -/
example : ∃ s, run ⟨true, true, true⟩ init witnessNot = some s ∧ (s.rs 0).result = [] ∧ (s.rs 0).mapping = [0] := by
  decide

/-- **Defect witness (reader unsound for NOT, code as first read).**  `addLIDsToTokens` queues `_all_` first; a reader whose mapping
snapshot falls between that call and the call for token 5 sees the new document in the universe but not in the
token's list, so `NOT 5` returns LID 1 although document 1 carries token 5. -/
theorem c07_reader_unsound_not (live lk : Bool) :
    ∃ s, run ⟨false, live, lk⟩ init witnessNot = some s ∧ (s.rs 0).result = [1] ∧ (s.rs 0).q = .not (.tok 5) ∧
      s.sh.ids[1]? = some ⟨1, 2, [5]⟩ ∧ sat (.not (.tok 5)) ⟨1, 2, [5]⟩ = false := by
  cases live <;> cases lk <;> decide

/-- **Defect witness (token registration).**  Even with `_all_` queued last: `TokenList.Append` of bulk 0 has created
token 5 (`getTokenLIDs`) but not yet registered it (`createTIDs` / `fillFieldTIDs`) when bulk 1, which met the token
as existing, has queued all its LIDs; a reader's `FindPattern` finds no token 5, its list is empty, and `NOT 5`
returns LID 1 = document (1,2) that carries token 5.  Impossible once `Append` is one critical section:
the same schedule is then not a path (`wTokGet 1` has to wait). -/
theorem c07_reader_unsound_dict (live : Bool) :
    (∃ s, run ⟨true, live, false⟩ init witnessDict = some s ∧ (s.rs 0).result = [1] ∧
      s.sh.ids[1]? = some ⟨1, 2, [5]⟩ ∧ sat (.not (.tok 5)) ⟨1, 2, [5]⟩ = false) ∧
    run ⟨true, live, true⟩ init witnessDict = none := by
  cases live <;> decide

/-- **reader never indexes out of range**: every LID of the mapping is below both ID snapshots (`Revert` /
`GetMID` / `GetRID`), and every LID that passed `inverseLIDs` is in the mapping - whatever the writers do in
between.  This is the reason for the comment "creation order is matter" in `getIDsIndex`. -/
theorem c07_reader_in_bounds (c : Cfg) (s : St) (h : Reachable c s) (i : Nat)
    (hpc : (s.rs i).pc = .rids ∨ (s.rs i).pc = .done) :
    (∀ l, l ∈ (s.rs i).mapping → l < (s.rs i).nmids ∧ l < (s.rs i).nrids) ∧
    (∀ t ls, (t, ls) ∈ (s.rs i).got → ∀ l, l ∈ ls → l ∈ (s.rs i).mapping) := by
  have hr := (inv_reachable c s h).rs i
  refine ⟨fun l hl => ?_, fun t ls hm l hl => (hr.got t ls hm l hl).2⟩
  have h1 := hr.mapMids (by rcases hpc with e | e <;> simp [e]) l hl
  have h2 := hr.mapRids hpc
  omega

/-- **fetch_sound, part 1: an indexed document is found** (an ID that is not indexed yet is legitimately "not found"; part 2 = no fetch ever fails: `c07_fetch_fixed_sound`).  If `AppendIDs` of a
document happened before the provider took its `DocBlocks` snapshot (`nidsAt` is `len(MIDs)` at that moment -
true in particular for every ID an earlier search returned), fetching it finds its position and the block index
is inside the snapshot. -/
theorem c07_fetch_finds_indexed (c : Cfg) (s : St) (h : Reachable c s) (i : Nat) (id : ID) (res : FetchRes)
    (hf : (id, res) ∈ (s.rs i).fetched) (l : Nat) (d : Doc) (hl : l < (s.rs i).nidsAt)
    (hd : s.sh.ids[l]? = some d) (hid : d.id = id) : ∃ b off, res = .found b off :=
  ((inv_reachable c s h).rs i).fetched id res hf l d hl hd hid

/-- the snapshot point: `rBlocks` records `len(MIDs)`; it never shrinks afterwards -/
theorem c07_fetch_snapshot (c : Cfg) (s s' : St) (i : Nat) (hs : step c s (.rBlocks i) = some s') :
    (s'.rs i).nidsAt = s.sh.ids.length := by
  simp only [step] at hs
  split at hs <;> cases hs
  simp [setR]

/-- **Defect witness (DESIGN section 7 row 12).**  Provider created (blocks snapshot = 1), then a bulk appends
block 1 and its positions, then the fetch looks one of its IDs up: `blocksOffsets[1]` on a snapshot of length 1. -/
theorem c07_fetch_panic_witness (allLast lk : Bool) :
    ∃ s, run ⟨allLast, false, lk⟩ init witnessFetch = some s ∧ (s.rs 0).fetched = [((1, 2), .panic)] := by
  cases allLast <;> cases lk <;> decide

/-- **the repaired fetch** (`live = true`: `GetBlocksOffsets` re-reads `DocBlocks` when the index is past the
snapshot): a stored position always points below the current length, so no fetch of any ID at any moment, through
a provider created at any moment, indexes out of range -/
theorem c07_fetch_fixed_sound (c : Cfg) (hc : c.live = true) (s s' : St) (h : Reachable c s) (i : Nat) (id : ID)
    (hs : step c s (.rFetch i id) = some s') :
    ∃ res, (s'.rs i).fetched = (s.rs i).fetched ++ [(id, res)] ∧ res ≠ .panic := by
  have hi := inv_reachable c s h
  simp only [step] at hs
  split at hs <;> cases hs
  refine ⟨fetchOne c.live s.sh (s.rs i).nblocks id, by simp [setR], ?_⟩
  simp only [fetchOne, hc]
  split
  · simp
  · rename_i b off hp
    simp [hi.sh.posOk id b off hp]

/-- index workers never hand out a LID twice and never index out of range: the LIDs of a bulk are exactly the
positions at which its documents sit in MIDs/RIDs -/
theorem c07_writer_lids (c : Cfg) (s : St) (h : Reachable c s) (i : Nat) (t : Option Nat) (ls : List Nat)
    (hm : (t, ls) ∈ (s.ws i).todo) (l : Nat) (hl : l ∈ ls) :
    ∃ d, s.sh.ids[l]? = some d ∧ ∀ t', t = some t' → t' ∈ d.toks :=
  ((inv_reachable c s h).ws i).2.2.2.2 t ls hm l hl

/-- non-vacuity of `c07_reader_sound_positive` / `c07_reader_sound_partial`: a search that overlaps a second bulk returns the first document -/
example : ∀ c, ∃ s, run c init
    [.wNew 0 [⟨3, 1, [5, 6]⟩, ⟨4, 1, [6]⟩], .wBlock 0, .wPos 0, .wIds 0, .wTokGet 0, .wToks 0, .wQueue 0, .wQueue 0, .wQueue 0,
     .wStats 0, .wDone 0, .wNew 1 [⟨3, 2, [5]⟩], .rNew 0 (.and (.tok 6) (.tok 5)) 0 10, .rInfo 0, .wBlock 1, .rBlocks 0,
     .wPos 1, .wIds 1, .rMapping 0, .wTokGet 1, .wToks 1, .wQueue 1, .rMids 0, .rRids 0, .rLeaf 0, .wQueue 1, .rLeaf 0, .rEval 0]
      = some s ∧ (s.rs 0).result = [0] := by
  intro c; rcases c with ⟨_ | _, _ | _, _ | _⟩ <;> decide

end ActiveConc

/-! ## fetch over several fractions: the arrange step of `Fetcher.FetchDocs` -/
section FetchArrange
open SV.FetchArrange

/-- **fetch_arrange.**  An id without a hint is asked from every fraction whose [From, To] contains its MID (fractions
written by several writers around a rotation overlap); at most one of them holds the document, the others answer nil.
Whatever the number of fractions asked and whatever the order they are asked in, the result slot holds the document
iff some asked fraction returned it. -/
theorem c07_fetch_arrange_order_independent {α} (answers : List (Option α)) (d : α)
    (h : ∀ x, x ∈ answers → x = none ∨ x = some d) :
    (some d ∈ answers → arrange answers = some d) ∧ (some d ∉ answers → arrange answers = none) :=
  foldl_keep answers none d h

/-- without the `!= nil` guard a fraction asked later that does not hold the document wipes the slot -/
theorem c07_fetch_arrange_unguarded_witness :
    arrangeUnguarded [some 7, none] = none ∧ arrange [some 7, none] = some 7 ∧ arrange [none, some 7, none] = some 7 := by
  decide

end FetchArrange

/-! ## group commit: an fsync error is scoped to its batch (`frac.FileWriter`, model of C01: `Model/FileWriter.lean`) -/
section FsyncScope
open SV.FWr

/-- **fsync_error_scoped.**  The result delivered when the fsync of a batch ends is the result of THAT fsync: every
request of the batch gets `ok`, and no other request is touched - in particular a request of a later batch cannot
inherit the error of an earlier, failed fsync (it is still `waiting`/unfinished after this step and gets its own
result from its own `syncEnd`).  So one transient fsync failure fails exactly the writers of one batch; ingestion
goes on. -/
theorem c07_fsync_error_scoped (st st' : St) (ok : Bool) (batch : List (Nat × Nat)) (sb : Nat)
    (hsync : st.syncer = .syncing batch sb) (h : step st (.syncEnd ok) = some st') :
    (∀ w' ∈ st'.ws, w'.off ∈ batch.map (·.1) → w'.pc = .done ok sb st.now) ∧
    (∀ w ∈ st.ws, w.off ∉ batch.map (·.1) → w ∈ st'.ws) ∧
    st'.ws.length = st.ws.length := by
  simp only [step, hsync] at h
  split at h
  · cases h
    refine ⟨?_, ?_, by simp⟩
    · intro w' hw' hm
      obtain ⟨w, hw, rfl⟩ := List.mem_map.mp hw'
      by_cases hb : w.off ∈ batch.map (·.1)
      · simp [hb]
      · simp only [hb, if_false] at hm
    · intro w hw hn
      exact List.mem_map.mpr ⟨w, hw, by simp [hn]⟩
  · cases h

/-- a failed fsync followed by a successful one: the second batch's writer returns success (a path of the model) -/
example : (exec (init 0) [.reserve 0 5, .written 0 true, .enqueue 0 1, .notify 0, .wake, .take 1, .syncBegin,
    .syncEnd false, .ret 0 false, .reserve 5 3, .written 5 true, .enqueue 5 1, .notify 5, .wake, .take 1, .syncBegin,
    .syncEnd true, .ret 5 true]).isSome = true := by decide

end FsyncScope

/-! ## Obligations on facts re-extracted from /repo on every run -/
section Extracted
open SV.Extracted.C07

/-- the index worker updates the index in the order the writer of `Model/ActiveConc.lean` does:
block -> positions -> ids -> token entries -> LID queues -> stats -> Done -/
theorem c07_x_writer_order :
    appendWorkerOrder = ["DocBlocks.Append", "DocsPositions.SetMultiple", "AppendIDs", "TokenList.Append",
      "addLIDsToTokens", "UpdateStats", "Wg.Done"] := by decide

/-- `TokenList.Append` creates the token objects, then the TIDs, then the per-field lists (the model's `wTokGet` /
`wToks`); whether the whole of it is one critical section is read off as `SV.C07.cfg.tlLock` -/
theorem c07_x_token_list_append :
    tokenListAppendOrder = ["getTokenLIDs", "createTIDs", "fillFieldTIDs", "fillSizes"] := by decide

/-- the three repairs that are in the tree are seen by the extractor (the models used by the driver follow them) -/
theorem c07_x_repairs_seen : SV.C07.fx = true ∧ SV.C07.cfg.allLast = true ∧ SV.C07.cfg.live = true := by decide

/-- a reader's dictionary read (`getTokenProvider`, part of the model's `rLeaf`) takes the per-field TID list BEFORE the
`tidToVal` slice - the mirror image of the writer's `createTIDs` -> `fillFieldTIDs`, so every TID of the list is
inside the slice (`activeTokenProvider.GetToken` indexes it) -/
theorem c07_x_token_provider_order : tokenProviderOrder = ["GetTIDsByField", "tidToVal"] := by decide

/-- the reader's `inverseLIDs` is the model's filter "LID is in the mapping" only because a slot of the inverser array
that `newInverser` did not write reads 0: the array is carved from a recycled pool buffer and must be zeroed first -/
theorem c07_x_inverser_zeroed : inverserSliceOrder = ["bytespool.AcquireLen", "unsafe.Slice", "clear"] := by decide

/-- the arrange loop of `Fetcher.FetchDocs` writes a fraction's answer into the result slot only when it is not nil
(the guard `SV.FetchArrange.arrange` models) -/
theorem c07_x_fetch_arrange_guard : fetchArrangeGuards = ["docsByFracs[i][j] != nil"] := by decide

/-- a sealed data provider's pooled unpack caches are handed back exactly once, by the release closure of
`Sealed.DataProvider` (the model's `dpRelease .sealed`) - never by `Search`/`Fetch` themselves; an object put into the
`sync.Pool` twice would be shared by two providers alive at the same time -/
theorem c07_x_sealed_release_once : sealedReleaseSites = ["frac/sealed.go:DataProvider"] := by decide

/-- `FracManager.Append` leaves its retry loop only when the context is done or an `Append` succeeded: a refusal by a
fraction that was rotated out between `fm.Writer()` and its state check (the model's `appendFail`) is retried on the
new active fraction, never returned to the client -/
theorem c07_x_append_retry_loop :
    fmAppendReturns = ["case <-ctx.Done() -> return ctx.Err()",
      "err = fm.Writer().Append(docs, metas); err == nil -> return nil"] := by decide

/-- `FileWriter.syncLoop` declares the error it sends to the waiting writers inside the batch loop, from that batch's
`Sync()` (the `ok` of the model's `syncEnd`); nothing is carried over from one batch to the next -/
theorem c07_x_fsync_error_per_batch : syncLoopErrScope = ["in-loop: err := fs.ws.Sync()", "sent: err"] := by decide

/-- `List.FilterInRange` builds its result in a fresh slice: the fractions snapshot a fetch request takes once
(`storeapi.docsStream`) and hands to every id batch is never written, so a fraction skipped for one batch is still
there for the next (a reader's snapshot is immutable, as in the model, where `GetAllFracs` is a value) -/
theorem c07_x_filter_in_range_pure : filterInRangeResult = ["res := make(List, 0)", "return res"] := by decide

/-- sealing marks the minute bucket of EVERY id in the fraction's distribution; `IsIntersecting`/`Contains` of the sealed
fraction (what search and fetch use to pick fractions) therefore cover every document the active fraction covered -/
theorem c07_x_distribution_marks_every_id :
    buildDistributionLoop = ["for _, id := range ids", "s.Distribution.Add(id.MID)"] := by decide

/-- the `disk.IndexReader` of a sealed fraction is shared by all its concurrent data providers (the model lets any number
of sealed readers run: `sReaders`); it carries no mutable scratch state - the buffer for the compressed block is
taken from the pool per call and nothing is written to the reader -/
theorem c07_x_index_reader_stateless :
    indexReaderShape = ["field limiter", "field file", "field cache", "bytespool.AcquireLen", "bytespool.Release"] := by
  decide

/-- the entry `FracManager` keeps in its fraction list for a fraction being written IS the proxyFrac of the model
(readers reach the Active only through `proxyFrac.DataProvider`, so `c07_dp_valid` applies to them; between `publish`
and the swap of the entry by `FracManager.seal` the proxy already hands out the sealed fraction) -/
theorem c07_x_list_entry_is_proxy :
    activeRefInstance = ["f := &proxyFrac{active: active, fp: fp}", "frac=f", "instance=f"] := by decide

/-- ownership at the enqueue boundary: `Active.Append` only QUEUES the metas for the index worker (`wNew` happens after
`Bulk` returned), so the in-memory client, whose caller reuses its buffer, must hand over a private copy -/
theorem c07_x_bulk_owns_metas : inMemoryBulkOrder = ["in.Metas=slices.Clone(in.Metas)", "store.Bulk"] := by decide

/-- `getIDsIndex` takes the mapping first, then MIDs, then RIDs -/
theorem c07_x_reader_order :
    getIDsIndexOrder = ["GetAllTokenLIDs.GetLIDs", "mids.GetVals", "rids.GetVals"] := by decide

/-- `createDataProvider` copies Info and the `DocBlocks` slice and keeps a live pointer to `DocsPositions` -/
theorem c07_x_provider_snapshot :
    providerFields = ["info=f.Info()", "blocksOffsets=f.DocBlocks.GetVals()", "docsPositions=f.DocsPositions"] := by
  decide

/-- the search range is clamped to the Info copy -/
theorem c07_x_search_clamp :
    searchClamp = ["params.From = max(params.From, dp.info.From)", "params.To = min(params.To, dp.info.To)"] := by
  decide

/-- `addLIDsToTokens` walks the tokens in collector order (`_all_` first: the code as first read) or backwards (`_all_`
last: the repair; `SV.C07.cfg.allLast` is read off this) and the proxy's indexer puts `_all_` first -/
theorem c07_x_all_token_order :
    (queueLoop = "for i, tl := range tlids" ∨ queueLoop = SV.C07.fixedQueueLoop) ∧ firstMetaToken = "seq.AllTokenName" := by
  decide

/-- `proxyFrac.Append`: state check, `indexWg.Add(1)` and the pointer copy under one RLock; the write after it -/
theorem c07_x_append_order :
    proxyAppendOrder = ["useMu.RLock", "isActiveState", "indexWg.Add", "useMu.RUnlock", "active.Append"] := by decide

/-- `proxyFrac.Seal`: the steps of the model's sealer in the model's order -/
theorem c07_x_seal_order :
    proxySealOrder = ["useMu.Lock", "isSuicidedState", "isActiveState", "readonly=true", "sealWg.Add", "useMu.Unlock",
      "WaitWriteIdle", "frac.Seal", "NewSealedPreloaded", "useMu.Lock", "sealed=sealed", "active=nil", "useMu.Unlock",
      "sealWg.Done", "active.Release"] := by decide

/-- `proxyFrac.Suicide`: try, wait for the sealer, retry, then suicide what was taken (active first) -/
theorem c07_x_suicide_order :
    proxySuicideOrder = ["trySetSuicided", "sealWg.Wait", "trySetSuicided", "active.Suicide", "sealed.Suicide"] ∧
    trySetClearsUnlessSealing = true := by decide

/-- `Active.Append` returns the write error before `indexer.Index`; `proxyFrac.Append` either leaks its `indexWg.Add`
on that path (as first read: `c07_write_error_blocks_seal`) or gives it back (repaired; `SV.C07.fx` is read off this) -/
theorem c07_x_append_error_path :
    activeAppendOrder = ["writer.Write", "return err", "updateDiskStats", "indexer.Index"] ∧
    (appendErrorPath = [] ∨ appendErrorPath = ["indexWg.Done"]) := by decide

end Extracted

end SV.Props.C07
