import SeqVerif.Model.Agg
import SeqVerif.Model.AggShard
import SeqVerif.Extracted.C06T
/-!
# C06 - hand models = mechanical translations of the Go source (regenerated on every run)

`SV.Extracted.C06.T` is produced by `extract/cmd/c06t` (translator `extract/xlate`, prelude `Base/GoInt.lean`):
the histogram bucket statements of `frac/processor.iterateEvalTree` and the returned expression of the closure in
`provideExtractTimeFunc` (statement slices: the locals they read are parameters).
-/
namespace SV.Props.C06
open SV.Agg SV.Go
open SV.Extracted.C06

/-- `bucket := mid; bucket -= bucket % seq.MID(params.HistInterval)` for every uint64 MID and every positive
uint64 interval (`HasHist`); a zero interval is an integer division by zero on both sides of the tie -/
theorem c06_t_histBucket (interval mid : Nat) (hi : 0 < interval) (hm : mid < 18446744073709551616) :
    T.histBucket mid interval = some (histBucket interval mid : Int) := by
  unfold T.histBucket histBucket
  have hne : ¬ ¬ ((interval : Int) ≠ 0) := by omega
  have hmod : (mid : Int) % (interval : Int) = ((mid % interval : Nat) : Int) := by norm_cast
  have hle : mid % interval ≤ mid := Nat.mod_le _ _
  simp only [if_neg hne, hmod, Option.some.injEq]
  unfold wrapU64; omega

theorem c06_t_histBucket_zero (mid : Int) : T.histBucket mid 0 = none := by simp [T.histBucket]

/-- the time bin of `provideExtractTimeFunc`'s closure, `mid - (mid % seq.MID(interval))`, for every uint64 MID
and every positive int64 interval (the closure is only built when `interval > 0`) -/
theorem c06_t_extractBin (interval : Int) (mid : Nat) (hi : 0 < interval) (hi2 : interval < 9223372036854775808)
    (hm : mid < 18446744073709551616) :
    T.extractBin mid interval = some (extractBin interval mid : Int) := by
  unfold T.extractBin extractBin
  obtain ⟨n, rfl⟩ := Int.eq_ofNat_of_zero_le (Int.le_of_lt hi)
  have hw : wrapU64 (n : Int) = (n : Int) := by unfold wrapU64; omega
  have hne : ¬ ¬ ((n : Int) ≠ 0) := by omega
  have hle0 : ¬ ((n : Int) ≤ 0) := by omega
  have hmod : (mid : Int) % (n : Int) = ((mid % n : Nat) : Int) := (Int.natCast_emod mid n).symm
  have hle : mid % n ≤ mid := Nat.mod_le _ _
  simp only [hw, if_neg hne, if_neg hle0, hmod, Int.toNat_natCast, Option.some.injEq]
  unfold wrapU64; omega

example : T.histBucket 12345 1000 = some 12000 := by simp [T.histBucket, wrapU64]
example : T.extractBin 12345 1000 = some 12000 := by simp [T.extractBin, wrapU64]

/-- the numeric value of a response code (`storeapi.SearchErrorCode` in `pkg/storeapi/store_api.pb.go`; the case
labels of the translated switch are these numbers, resolved by the Go type checker) -/
def codeNum : Code → Int
  | .noError => 0 | .wantsOldData => 1 | .tooManyUniq => 2 | .tooManyFractions => 3

/-- `switch resp.Code` in `searchShard`: every code except `NO_ERROR` has an arm (each arm returns an error), so a
refusing store is never taken for data - `Agg.shardOutcome` for any arm list that names exactly the translated arms -/
theorem c06_t_shardCodeArm (c : Code) : (T.shardCodeArm (codeNum c) = 0) ↔ c = .noError := by
  cases c <;> simp [T.shardCodeArm, codeNum]

theorem c06_t_shardOutcome (arms : List String) (c : Code)
    (harms : ("storeapi." ++ c.name) ∈ arms ↔ T.shardCodeArm (codeNum c) ≠ 0) :
    shardOutcome arms c = if c = .noError then .data else .refused c := by
  unfold shardOutcome
  have := c06_t_shardCodeArm c
  by_cases h : c = .noError
  · have h0 : ¬ (("storeapi." ++ c.name) ∈ arms) := by rw [harms]; simp [this.mpr h]
    rw [if_neg h0, if_pos h]
  · have h1 : ("storeapi." ++ c.name) ∈ arms := by rw [harms]; exact fun e => h (this.mp e)
    rw [if_pos h1, if_neg h]

end SV.Props.C06
