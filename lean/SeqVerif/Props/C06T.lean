import SeqVerif.Model.Agg
import SeqVerif.Extracted.C06T
/-!
# C06 - hand models = mechanical translations of the Go source (regenerated on every run)

`SV.Extracted.C06.T` is produced by `extract/cmd/c06t` (translator `extract/xlate`, prelude `Base/GoInt.lean`):
the histogram bucket statements of `frac/processor.iterateEvalTree` and the returned expression of the closure in
`provideExtractTimeFunc` (statement slices: the locals they read are parameters).
-/
namespace SV.Props.C06
open SV.Agg SV.Go
open SV.Extracted.C06

/-- `bucket := mid; bucket -= bucket % seq.MID(params.HistInterval)` for every uint64 MID and every positive
uint64 interval (`HasHist`); a zero interval is an integer division by zero on both sides of the tie -/
theorem c06_t_histBucket (interval mid : Nat) (hi : 0 < interval) (hm : mid < 18446744073709551616) :
    T.histBucket mid interval = some (histBucket interval mid : Int) := by
  unfold T.histBucket histBucket
  have hne : ¬ ¬ ((interval : Int) ≠ 0) := by omega
  have hmod : (mid : Int) % (interval : Int) = ((mid % interval : Nat) : Int) := by norm_cast
  have hle : mid % interval ≤ mid := Nat.mod_le _ _
  simp only [if_neg hne, hmod, Option.some.injEq]
  unfold wrapU64; omega

theorem c06_t_histBucket_zero (mid : Int) : T.histBucket mid 0 = none := by simp [T.histBucket]

/-- the time bin of `provideExtractTimeFunc`'s closure, `mid - (mid % seq.MID(interval))`, for every uint64 MID
and every positive int64 interval (the closure is only built when `interval > 0`) -/
theorem c06_t_extractBin (interval : Int) (mid : Nat) (hi : 0 < interval) (hi2 : interval < 9223372036854775808)
    (hm : mid < 18446744073709551616) :
    T.extractBin mid interval = some (extractBin interval mid : Int) := by
  unfold T.extractBin extractBin
  obtain ⟨n, rfl⟩ := Int.eq_ofNat_of_zero_le (Int.le_of_lt hi)
  have hw : wrapU64 (n : Int) = (n : Int) := by unfold wrapU64; omega
  have hne : ¬ ¬ ((n : Int) ≠ 0) := by omega
  have hle0 : ¬ ((n : Int) ≤ 0) := by omega
  have hmod : (mid : Int) % (n : Int) = ((mid % n : Nat) : Int) := (Int.natCast_emod mid n).symm
  have hle : mid % n ≤ mid := Nat.mod_le _ _
  simp only [hw, if_neg hne, if_neg hle0, hmod, Int.toNat_natCast, Option.some.injEq]
  unfold wrapU64; omega

example : T.histBucket 12345 1000 = some 12000 := by simp [T.histBucket, wrapU64]
example : T.extractBin 12345 1000 = some 12000 := by simp [T.extractBin, wrapU64]

end SV.Props.C06
