import SeqVerif.Model.AggLemmas
import SeqVerif.Extracted.C06
set_option linter.unusedVariables false
/-!
# C06 - aggregations and histograms equal values computed from the matching documents

Model: `SV.Agg` (Model/AggSamples.lean, Model/Agg.lean): `seq.SamplesContainer` and `seq.AggregatableSamples`
with `Merge` / `Aggregate` / `Quantile`, the sourced OR tree and `ConsumeTokenSource`, the four aggregators, the
histogram rule - in exact integer arithmetic (float64 rounding is outside the model; the correspondence runs on
integer-valued data where float arithmetic is exact).

`Rep vals ne collect c` ("container `c` summarises exactly the value list `vals` and `ne` documents without the
field") is the link between containers and documents; `SC.Eqv` is equality of everything `Aggregate` can observe.

Only property theorems, extracted-fact obligations and non-vacuity examples live in this file.
-/
namespace SV.Props.C06
open SV.Agg

/-! ## merge order freedom -/

/-- `samples_merge_comm`: `a.Merge(b)` and `b.Merge(a)` are observationally equal (below the reservoir limit) -/
theorem c06_merge_comm (lim : Nat) (pick : List Int → Nat) (a b : SC) (ha : a.WF) (hb : b.WF)
    (hl : a.samples.length + b.samples.length ≤ lim) :
    SC.Eqv (SC.merge lim pick a b) (SC.merge lim pick b a) := SC.merge_comm lim pick ha hb hl

/-- `samples_merge_assoc` -/
theorem c06_merge_assoc (lim : Nat) (pick : List Int → Nat) (a b c : SC) (hb : b.WF)
    (hl : a.samples.length + b.samples.length + c.samples.length ≤ lim) :
    SC.Eqv (SC.merge lim pick (SC.merge lim pick a b) c) (SC.merge lim pick a (SC.merge lim pick b c)) :=
  SC.merge_assoc lim pick hb hl

/-- the counters merge unconditionally (no limit, no well-formedness): count / unique / not-exists -/
theorem c06_merge_counters (lim : Nat) (pick : List Int → Nat) (a b : SC) :
    (SC.merge lim pick a b).total = a.total + b.total ∧
    (SC.merge lim pick a b).notExists = a.notExists + b.notExists := ⟨by simp, by simp⟩

/-- **every bracketing**: whatever tree of `Merge` calls combines the per-fraction containers of one bin, the
result summarises exactly the concatenation of the fractions' values: count, sum, min, max, not-exists - and, when
samples are collected and at most `lim` values exist, the values themselves. -/
theorem c06_merge_tree (lim : Nat) (pick : List Int → Nat) (collect : Bool) (t : MTree SLeaf)
    (hleaf : ∀ l, l ∈ t.leaves → Rep l.vals l.ne collect l.c)
    (hl : collect = true → (allVals t.leaves).length ≤ lim) :
    Rep (allVals t.leaves) (allNe t.leaves) collect ((t.eval fun x y => ⟨SC.merge lim pick x.c y.c, [], 0⟩).c) :=
  MTree.rep lim pick collect t hleaf hl

theorem allVals_perm {xs ys : List SLeaf} (p : xs.Perm ys) : (allVals xs).Perm (allVals ys) := by
  induction p with
  | nil => exact List.Perm.refl _
  | cons a _ ih => simpa [allVals] using List.Perm.append_left _ ih
  | swap a b l =>
    simp only [allVals, List.flatMap_cons]
    rw [← List.append_assoc, ← List.append_assoc]
    exact List.Perm.append_right _ List.perm_append_comm
  | trans _ _ ih1 ih2 => exact ih1.trans ih2

theorem allNe_perm {xs ys : List SLeaf} (p : xs.Perm ys) : allNe xs = allNe ys := by
  unfold allNe
  exact (p.map (·.ne)).sum_nat

/-- **`c06_merge_order_free`**: two merge trees (any bracketing) over any two orderings of the same per-fraction
partial results give observationally equal containers: same count, not-exists, sum, min, max and the same
multiset of samples (hence the same quantiles). -/
theorem c06_merge_order_free (lim : Nat) (pick : List Int → Nat) (collect : Bool) (t₁ t₂ : MTree SLeaf)
    (hperm : t₁.leaves.Perm t₂.leaves)
    (hleaf : ∀ l, l ∈ t₁.leaves → Rep l.vals l.ne collect l.c)
    (hl : collect = true → (allVals t₁.leaves).length ≤ lim) :
    SC.Eqv ((t₁.eval fun x y => ⟨SC.merge lim pick x.c y.c, [], 0⟩).c)
           ((t₂.eval fun x y => ⟨SC.merge lim pick x.c y.c, [], 0⟩).c) := by
  have h1 := MTree.rep lim pick collect t₁ hleaf hl
  have h2 := MTree.rep lim pick collect t₂ (fun l hl' => hleaf l (hperm.mem_iff.mpr hl'))
    (fun hc => by rw [← (allVals_perm hperm).length_eq]; exact hl hc)
  have h1' := (h1.perm (allVals_perm hperm))
  rw [allNe_perm hperm] at h1'
  exact h1'.eqv h2

/-! ## values -/

/-- **count / sum / min / max / not-exists of a bin** are those of the documents' values: this is the content of
`Rep` - restated for the container obtained from any merge tree -/
theorem c06_stats (vals : List Int) (ne : Nat) (collect : Bool) (c : SC) (h : Rep vals ne collect c) :
    c.total = vals.length ∧ c.notExists = ne ∧ c.sum = vals.sum ∧
    (vals ≠ [] → IsMin c.min vals ∧ IsMax c.max vals) :=
  ⟨h.total, h.notExists, h.sum, fun hne => ⟨h.min hne, h.max hne⟩⟩

/-- **`c06_quantile_exact`**: while a bin holds at most `maxHistogramSamples` values (so that the merged container
still holds all of them, `Rep .. true`), every quantile `q = qn/qd` in [0,1] is the element of the sorted value list
at index `floor((n-1) q + 1/2)` - for the `Quantile` as found and for the repaired one. -/
theorem c06_quantile_exact (fixed : Bool) (vals : List Int) (ne : Nat) (c : SC) (h : Rep vals ne true c) (hne : vals ≠ [])
    (qn qd : Nat) (hq : qn ≤ qd) (hd : 0 < qd) :
    c.quantile fixed qn qd = .int ((isort vals).getD (quantileIndex vals.length qn qd) 0) ∧
    quantileIndex vals.length qn qd < vals.length ∧ (isort vals).Pairwise (· ≤ ·) ∧ (isort vals).Perm vals :=
  ⟨h.quantile hne fixed hq hd, quantileIndex_lt (List.length_pos_iff.mpr hne) hq hd, isort_sorted vals, isort_perm vals⟩

/-- the same at the source's limit: merging per-fraction results that together hold at most 8096 values -/
theorem c06_quantile_exact_merged (fixed : Bool) (pick : List Int → Nat) (t : MTree SLeaf)
    (hleaf : ∀ l, l ∈ t.leaves → Rep l.vals l.ne true l.c)
    (hl : (allVals t.leaves).length ≤ SV.Extracted.C06.maxHistogramSamples) (hne : allVals t.leaves ≠ [])
    (qn qd : Nat) (hq : qn ≤ qd) (hd : 0 < qd) :
    ((t.eval fun x y => ⟨SC.merge SV.Extracted.C06.maxHistogramSamples pick x.c y.c, [], 0⟩).c).quantile fixed qn qd =
      .int ((isort (allVals t.leaves)).getD (quantileIndex (allVals t.leaves).length qn qd) 0) :=
  (MTree.rep _ pick true t hleaf (fun _ => hl)).quantile hne fixed hq hd

/-- **full statement, for the repaired `Quantile`** (fixes/C06-quantile-min-max-only.patch): with the sample
collection rule of `evalAgg` (`collect = haveNotMinMaxQuantiles qs`), *every* requested quantile of *every*
quantile list is the element of the sorted value list at the index formula. -/
theorem c06_quantile_all_fixed (vals : List Int) (ne : Nat) (c : SC) (qs : List (Nat × Nat))
    (h : Rep vals ne (haveNotMinMaxQuantiles qs) c) (hne : vals ≠ [])
    (q : Nat × Nat) (hmem : q ∈ qs) (hq : q.1 ≤ q.2) (hd : 0 < q.2) :
    c.quantile true q.1 q.2 = .int ((isort vals).getD (quantileIndex vals.length q.1 q.2) 0) := by
  by_cases hin : 0 < q.1 ∧ q.1 < q.2
  · have hc : haveNotMinMaxQuantiles qs = true := by
      unfold haveNotMinMaxQuantiles
      exact List.any_eq_true.mpr ⟨q, hmem, by simp [hin.1, hin.2]⟩
    rw [hc] at h
    exact h.quantile hne true hq hd
  · exact h.quantile_fixed_minmax hne (by omega) hd

/-- the same statement for the `Quantile` as found holds only when the list contains an inner quantile
(`_partial`: the missing case is refuted by `c06_quantile_minmax_only_defect` below) -/
theorem c06_quantile_all_partial (vals : List Int) (ne : Nat) (c : SC) (qs : List (Nat × Nat))
    (h : Rep vals ne (haveNotMinMaxQuantiles qs) c) (hne : vals ≠ [])
    (hinner : ∃ q, q ∈ qs ∧ 0 < q.1 ∧ q.1 < q.2)
    (q : Nat × Nat) (hmem : q ∈ qs) (hq : q.1 ≤ q.2) (hd : 0 < q.2) :
    c.quantile false q.1 q.2 = .int ((isort vals).getD (quantileIndex vals.length q.1 q.2) 0) := by
  have hc : haveNotMinMaxQuantiles qs = true := by
    obtain ⟨q', hq', h1, h2⟩ := hinner
    unfold haveNotMinMaxQuantiles
    exact List.any_eq_true.mpr ⟨q', hq', by simp [h1, h2]⟩
  rw [hc] at h
  exact h.quantile hne false hq hd

/-! ## histogram -/

/-- **`c06_hist`**: every histogram bucket of a fraction holds the number of matching documents whose MID falls
into `[b, b + interval)`, i.e. whose `mid - mid % interval` is `b` -/
theorem c06_hist (interval : Nat) (mids : List Nat) (b : Nat) :
    histGet (histRun interval mids) b = (mids.filter fun m => histBucket interval m = b).length :=
  histRun_get interval mids b

/-- the bucket of a MID is the start of the interval that contains it -/
theorem c06_hist_bucket (interval mid : Nat) (hi : 0 < interval) :
    histBucket interval mid ≤ mid ∧ mid < histBucket interval mid + interval ∧ histBucket interval mid % interval = 0 := by
  unfold histBucket
  have h1 := Nat.mod_lt mid hi
  have h2 := Nat.mod_le mid interval
  have h3 : mid = interval * (mid / interval) + mid % interval := (Nat.div_add_mod mid interval).symm
  refine ⟨by omega, by omega, ?_⟩
  have : mid - mid % interval = interval * (mid / interval) := by omega
  rw [this]; exact Nat.mul_mod_right _ _

/-- merging partial histograms adds the buckets -/
theorem c06_hist_merge (dst src : Hist) (hs : KeysNodup src) (k : Nat) :
    histGet (histMerge dst src) k = histGet dst k + histGet src k := histMerge_get dst src hs k

/-! ## the unchanged code violates the property: quantiles 0 and 1 alone

`evalAgg` collects samples only when some requested quantile lies strictly inside (0,1)
(`haveNotMinMaxQuantiles`), relying on `Quantile` answering 0 and 1 from Min / Max; but `Quantile` returns NaN
first when there are no samples.  Witness: one fraction, three documents with field values 1, 2, 3, quantile 1. -/

def witnessEvs : List Ev := [⟨0, none, some 0⟩, ⟨0, none, some 1⟩, ⟨0, none, some 2⟩]
def witnessFval : Nat → Option Int := fun i => some (i + 1)

/-- the model (= the code) answers NaN for the maximum of {1,2,3} ... -/
theorem c06_quantile_minmax_only_defect :
    ((evalAgg 8096 (fun _ => 0) .quantile [(1, 1)] false (fun _ => "") witnessFval witnessEvs).bind
      (fun a => (aggregate false .quantile [(1, 1)] false a).map (fun r => r.buckets.map (·.quantiles)))) = some [[Val.nan]] := by
  decide

/-- ... although the container holds the right maximum, and with an inner quantile in the list the answer is 3 -/
theorem c06_quantile_minmax_only_defect_contrast :
    ((evalAgg 8096 (fun _ => 0) .quantile [(1, 1), (1, 2)] false (fun _ => "") witnessFval witnessEvs).bind
      (fun a => (aggregate false .quantile [(1, 1), (1, 2)] false a).map (fun r => r.buckets.map (·.quantiles))))
      = some [[Val.int 3, Val.int 2]] := by
  decide

/-- the repaired `Quantile` answers the witness correctly -/
theorem c06_quantile_minmax_only_fixed :
    ((evalAgg 8096 (fun _ => 0) .quantile [(1, 1)] false (fun _ => "") witnessFval witnessEvs).bind
      (fun a => (aggregate true .quantile [(1, 1)] false a).map (fun r => r.buckets.map (·.quantiles)))) = some [[Val.int 3]] := by
  decide

/-! ## Obligations on facts re-extracted from /repo on every run -/

open SV.Extracted.C06

/-- the reservoir limit the model and the driver use is the source's -/
theorem c06_x_limit : SV.Extracted.C06.maxHistogramSamples = SV.Agg.maxHistogramSamples ∧ dummyMID = 0 := by decide

/-- `Quantile`: order of the early returns (NaN on no samples comes first - the defect above) and the index formula -/
theorem c06_x_quantile :
    ((quantileConds = ["quantile < 0 || quantile > 1", "len(h.Samples) == 0", "quantile == 1", "quantile == 0"] ∧
        quantileFixed = false) ∨
      (quantileConds = ["quantile < 0 || quantile > 1", "h.Total == 0", "quantile == 1", "quantile == 0",
        "len(h.Samples) == 0"] ∧ quantileFixed = true)) ∧
    SV.Extracted.C06.quantileIndex = [":= int(float64(len(h.Samples)-1)*quantile + 0.5)"] := by decide

/-- `SamplesContainer.Merge` / `InsertNTimes` / `InsertSample` / `NewSamplesContainers` have the modelled shape -/
theorem c06_x_container :
    mergeConds = ["hist.Total == 0", "h.Total == 0"] ∧
    mergeAssigns = ["h.NotExists += hist.NotExists", "h.Min = hist.Min", "h.Min = min(h.Min, hist.Min)",
      "h.Max = hist.Max", "h.Max = max(h.Max, hist.Max)", "h.Sum += hist.Sum", "h.Total += hist.Total"] ∧
    insertNTimesAssigns = ["h.Min = num", "h.Min = min(h.Min, num)", "h.Max = num", "h.Max = max(h.Max, num)",
      "h.Sum += num * float64(cnt)", "h.Total += cnt"] ∧
    insertSampleConds = ["len(h.Samples) < maxHistogramSamples"] ∧
    newContainerInit = ["Min: math.MaxInt64", "Max: math.MinInt64"] := by decide

/-- `getAggBucket` NaN rule, `Aggregate` skip rule, sample collection rule of `evalAgg` -/
theorem c06_x_aggregate :
    nanConds = ["hist.Total == 0 && args.Func != AggFuncCount && args.Func != AggFuncUnique"] ∧
    skipConds = ["args.SkipWithoutTimestamp && bin.MID == consts.DummyMID"] ∧
    collectSamplesExpr = [":= query.Func == seq.AggFuncQuantile && haveNotMinMaxQuantiles(query.Quantiles)"] ∧
    innerQuantileConds = ["quantile > minQuantile && quantile < maxQuantile"] := by decide

/-- histogram bucket rule of `iterateEvalTree`, accumulation in `MergeQPRs`, time bins of `provideExtractTimeFunc` -/
theorem c06_x_hist :
    histBucketAssigns = [":= mid", "-= bucket % seq.MID(params.HistInterval)"] ∧
    histCountAssigns = ["histogram[bucket]++"] ∧ histMergeAssigns = ["+= count"] ∧
    extractTimeRule = ["if interval <= 0", "return seq.MID(consts.DummyMID)", "return mid - (mid % seq.MID(interval))"] := by
  decide

/-! ## Non-vacuity -/

/-- a container built by the code's own operations summarises its values (hypothesis of the theorems above) -/
example : Rep [5, 5, -3] 0 true
    (((SC.new.insertNTimes 5 2).insertSampleNTimes 8096 (fun _ => 0) 5 2).insertNTimes (-3) 1 |>.insertSample 8096 (fun _ => 0) (-3)) := by
  refine ⟨by decide, by decide, by decide, fun _ => ⟨by decide, by decide⟩, fun _ => ⟨by decide, by decide⟩, ?_⟩
  decide

/-- two different trees over three fractions: same observable result, median of all five values -/
example :
    let a : SC := (SC.new.insertNTimes 5 2).insertSampleNTimes 8096 (fun _ => 0) 5 2
    let b : SC := (SC.new.insertNTimes (-3) 1).insertSample 8096 (fun _ => 0) (-3)
    let c : SC := (SC.new.insertNTimes 9 2).insertSampleNTimes 8096 (fun _ => 0) 9 2
    let m := SC.merge 8096 (fun _ => 0)
    (m (m a b) c).quantile false 1 2 = .int 5 ∧ (m c (m b a)).quantile true 1 2 = .int 5 ∧
    (m (m a b) c).sum = 25 ∧ (m c (m b a)).min = -3 := by decide

example : histRun 10 [5, 15, 17, 30] = [(0, 1), (10, 2), (30, 1)] := by decide

end SV.Props.C06
